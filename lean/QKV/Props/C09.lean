/-
  C09 — quantizer configuration round-trip reproduces the same quantization function.

  Property (verbatim, properties.jsonl): For every registered quantizer and every combination
  of its constructor options, rebuilding it from its own configuration - directly, through the
  generic quantizer lookup given the serialized dictionary, or through the framework's
  serialize/deserialize pair - succeeds and yields a quantizer that returns the same outputs
  (and the same scale) on every input as the original.  Every quantizer name in the public
  registry resolves to the class of that name.

  History.  The tree this check was first built on violated the first sentence: 20 (class,
  option) pairs were not emitted by `get_config` and `quantized_hswish` could not be rebuilt at
  all.  The fix round repaired every one of them in the library (notes/C09.md, "Fix round");
  the model below mirrors the repaired `get_config`s and the former `_counterexample` theorems
  are now regression witnesses (`C09_*_fixed_witness`) evaluated at the old failing inputs.

  What is proved now, for ALL instances of ALL 14 classes (`quantized_hswish` included):
    * `C09_rebuild_succeeds`  — every route rebuilds every constructed quantizer (no exception);
    * `C09_roundtrip_fields`  — the rebuilt instance holds the original value under every key;
    * `C09_same_function`     — the rebuilt instance has the same class and the same value of
      every constructor option except possibly `var_name` / `use_variables`; hence every function
      of the instance that does not read those two build-only options (outputs, scale,
      gradients) coincides.  This is unconditional.
    * `C09_same_instance_partial` — the rebuilt instance is EQUAL to the original exactly when
      `var_name` / `use_variables` are at their defaults (`C09_serializable_necessary`).
      `_partial` because those two options are still not serialised: `var_name` only names the
      `tf.Variable`s a quantizer creates and `use_variables` only decides whether its state is
      held in variables; neither changes an output (assumption, exercised by the tie) and
      neither was part of the recorded findings.  For the 8 classes without these options the
      equality is unconditional (`C09_same_instance`).
    * `C09_dropped_fields_*`  — the complete list of options `get_config` does not emit.

  "Same function": an instance is the class plus the stored value of every constructor
  argument; `__call__` itself is not modelled (it is C01–C08), so sameness is proved for every
  function `apply` of the instance (`IgnoresBuildOnly apply` for the unconditional statement).

  Strengthening round (last section of this file): the instance is extended by the hidden
  attributes `__init__` derives (`_min_exp`, `_max_exp`, `freeze_scale`), constructed / rebuilt /
  called in an explicit process state (`World`: sigmoid switch, image data format, learning
  phase) and possibly used (`Step`) before `get_config()` is taken:
    * `C09_hidden_state_roundtrip`, `C09_config_fixed_point`, `C09_history_same_function`,
      `C09_constructor_world_independent`, `C09_sigmoid_mode_not_captured`;
    * the Keras pair vs the form an option value is held in: `C09_keras_plain_forms_partial`,
      `C09_config_never_holds_qnoise_variable`, the `_counterexample` theorem for tf.Tensor options
      (recorded, design-level) and the regression witness
      `C09_keras_linear_qnoise_variable_fixed_witness` (quantized_linear's qnoise_factor variable:
      repaired in fix round 2, the model's `exportForm` follows).

  This file holds ONLY property theorems and non-vacuity examples.
  Model: QKV.Model.PyVal / QKV.Model.Config / QKV.Model.ConfigState.
-/
import QKV.Lemmas.Config
import QKV.Lemmas.ConfigState
import QKV.Lemmas.ConfigCallTime
namespace QKV.Props.C09
open QKV.Py

/-- `q` was produced by the class constructor from some positional/keyword arguments -/
def Reachable (q : Q) : Prop := ∃ args kw, construct q.cls args kw = .ok q

/-- every constructor option that `get_config` does not emit holds its default value -/
def Serializable (q : Q) : Prop := ∀ k ∈ dropped q.cls, q.get k = defaultOf q.cls k

/-- the three rebuild routes of the property (Keras' `deserialize_keras_object` resolves the
    class name and calls `cls.from_config(config)`, which is what route 2 does as well) -/
def rebuildDirect (q : Q) : Except Err Q := fromConfig q.cls (getConfig q)
def rebuildViaGetQuantizer (q : Q) : Except Err Q := getQuantizerDict (serialize q)

/-! ## registry -/

/-- every registered name resolves to the class of that name -/
theorem C09_registry (n : String) (h : n ∈ registeredNames) : (lookup n).map Cls.name = some n := by
  simp only [registeredNames, List.mem_map] at h
  obtain ⟨c, _, rfl⟩ := h
  cases c <;> decide

theorem C09_registry_class (c : Cls) : lookup c.name = some c := by cases c <;> decide

/-- the registry has exactly the 14 names, without repetition -/
theorem C09_registry_names : registeredNames.length = 14 ∧ registeredNames.Nodup := by decide

/-- a name outside the registry does not resolve (KeyError / "unknown quantizer") -/
theorem C09_registry_unknown (n : String) (h : n ∉ registeredNames) : lookup n = none := by
  unfold lookup
  rw [List.find?_eq_none]
  intro c hc hn
  apply h
  have : c.name = n := by simpa using hn
  rw [← this]; exact List.mem_map_of_mem hc

/-! ## the dictionary route is `from_config` -/

theorem C09_serialize_dict (q : Q) : rebuildViaGetQuantizer q = rebuildDirect q := by
  unfold rebuildViaGetQuantizer rebuildDirect getQuantizerDict serialize
  simp only [C09_registry_class]

/-! ## what the round trip preserves, for every instance of every class -/

private theorem rebuilt_form {q q' : Q} (h : rebuildDirect q = .ok q') :
    q' = ⟨q.cls, normInit q.cls (forget q.cls q.env)⟩ := by
  unfold rebuildDirect at h
  rw [fromConfig_getConfig] at h
  exact (init_ok_inv h).2

private theorem norm_eq_self {c : Cls} (h1 : c ≠ .quantized_bits) (h2 : c ≠ .quantized_hswish)
    (e : Env) : normInit c e = e := by
  cases c <;> first | rfl | exact absurd rfl h1 | exact absurd rfl h2

/-- **Rebuilding succeeds.**  For every class (since the fix round also `quantized_hswish`)
    and every constructed instance, `cls.from_config(q.get_config())` and
    `get_quantizer({"class_name", "config"})` return a quantizer instead of raising: the emitted
    keys are constructor parameters and the constructor's argument checks read serialised
    options only. -/
theorem C09_rebuild_succeeds (q : Q) (hr : Reachable q) :
    ∃ q', rebuildDirect q = .ok q' ∧ rebuildViaGetQuantizer q = .ok q' := by
  obtain ⟨args, kw, hcon⟩ := hr
  obtain ⟨-, -, hfix⟩ := construct_fixed hcon
  have hchk : check q.cls q.env = none := (init_ok_inv hfix).1
  have h1 : rebuildDirect q = .ok ⟨q.cls, normInit q.cls (forget q.cls q.env)⟩ := by
    unfold rebuildDirect
    rw [fromConfig_getConfig]
    unfold init
    rw [check_forget, hchk]
  exact ⟨_, h1, (C09_serialize_dict q).trans h1⟩

/-- Round trip preserves every serialised field: the rebuilt quantizer is of the same class and
    stores, under every key `get_config` emitted, the value the original stored (this includes
    the `alpha` → `symmetric` normalisation of `quantized_bits` / `quantized_hswish`). -/
theorem C09_roundtrip_fields (q q' : Q) (hr : Reachable q) (h : rebuildDirect q = .ok q') :
    q'.cls = q.cls ∧ ∀ k ∈ serialised q.cls, q'.get k = q.get k := by
  have hq' := rebuilt_form h
  subst hq'
  refine ⟨rfl, fun k hk => ?_⟩
  have hkp := serialised_sub hk
  obtain ⟨args, kw, hcon⟩ := hr
  obtain ⟨-, hkeys, hfix⟩ := construct_fixed hcon
  show (normInit q.cls (forget q.cls q.env)).get k = q.env.get k
  -- the two classes whose constructor rewrites `symmetric` when `alpha` is a string
  have hsym : ∀ c : Cls, q.cls = c → (c = .quantized_bits ∨ c = .quantized_hswish) →
      (normInit c (forget c q.env)).get k = q.env.get k := by
    intro c hc hcase
    subst hc
    have hal : "alpha" ∈ paramNames q.cls ∧ "alpha" ∈ serialised q.cls ∧
        "symmetric" ∈ paramNames q.cls := by
      rcases hcase with h | h <;> rw [h] <;> decide
    have halpha : (forget q.cls q.env).get "alpha" = q.env.get "alpha" :=
      forget_get_serialised _ hal.1 hal.2.1
    have hnq : q.env = normInit q.cls q.env := congrArg Q.env (init_ok_inv hfix).2
    have hnorm : ∀ e : Env, normInit q.cls e =
        if (e.get "alpha").isStr then e.set "symmetric" (.bool true) else e := by
      intro e; rcases hcase with h | h <;> rw [h] <;> rfl
    rw [hnorm] at hnq ⊢
    rw [halpha]
    by_cases hs : (q.env.get "alpha").isStr = true
    · simp only [hs, if_true] at hnq ⊢
      by_cases hksym : k = "symmetric"
      · subst hksym
        rw [Env.get_set_self (by rw [forget_keys]; exact hal.2.2)]
        rw [hnq, Env.get_set_self (by rw [hkeys]; exact hal.2.2)]
      · rw [Env.get_set_ne hksym]
        exact forget_get_serialised _ hkp hk
    · simp only [hs]
      exact forget_get_serialised _ hkp hk
  by_cases hb : q.cls = .quantized_bits
  · exact hsym _ rfl (Or.inl hb)
  · by_cases hh : q.cls = .quantized_hswish
    · exact hsym _ rfl (Or.inr hh)
    · rw [norm_eq_self hb hh]
      exact forget_get_serialised _ hkp hk

/-- Every option `get_config` does not emit comes back as the constructor default, whatever
    value the original held (after the fix round these are `var_name` / `use_variables` only,
    see `C09_dropped_build_only`). -/
theorem C09_dropped_field_reset (q q' : Q) (h : rebuildDirect q = .ok q') :
    ∀ k ∈ dropped q.cls, q'.get k = defaultOf q.cls k := by
  have hq' := rebuilt_form h
  subst hq'
  intro k hk
  show (normInit q.cls (forget q.cls q.env)).get k = _
  have hne : k ≠ "symmetric" := by
    rintro rfl
    have h2 := (mem_dropped.1 hk).2
    have h1 := (mem_dropped.1 hk).1
    revert h1 h2
    cases q.cls <;> decide
  have hnorm : (normInit q.cls (forget q.cls q.env)).get k = (forget q.cls q.env).get k := by
    cases hc : q.cls <;> simp only [normInit] <;>
      first
        | rfl
        | (split
           · exact Env.get_set_ne hne _ _
           · rfl)
  rw [hnorm]
  exact forget_get_dropped _ hk

/-! ## the options that are still not serialised -/

/-- options that only concern how a quantizer creates its `tf.Variable`s -/
def buildOnly : List String := ["var_name", "use_variables"]

/-- the only constructor options `get_config` does not emit are `var_name` / `use_variables` -/
theorem C09_dropped_build_only (c : Cls) : ∀ k ∈ dropped c, k ∈ buildOnly := by
  cases c <;> decide

/-- the six classes that take `var_name` / `use_variables` drop exactly these two … -/
theorem C09_dropped_fields_variables (c : Cls)
    (h : c ∈ [Cls.quantized_linear, .quantized_bits, .quantized_relu, .quantized_po2,
              .quantized_relu_po2, .quantized_hswish]) :
    dropped c = ["var_name", "use_variables"] := by
  simp only [List.mem_cons, List.mem_nil_iff, or_false] at h
  rcases h with rfl | rfl | rfl | rfl | rfl | rfl <;> decide

/-- … and the other eight classes serialise every constructor argument -/
theorem C09_dropped_fields_none (c : Cls)
    (h : c ∈ [Cls.bernoulli, .ternary, .stochastic_ternary, .binary, .stochastic_binary,
              .quantized_ulaw, .quantized_tanh, .quantized_sigmoid]) : dropped c = [] := by
  simp only [List.mem_cons, List.mem_nil_iff, or_false] at h
  rcases h with rfl | rfl | rfl | rfl | rfl | rfl | rfl | rfl <;> decide

/-! ## same function -/

/-- `apply` (outputs, scale, gradient, … of a quantizer instance) does not read the two
    build-only options: instances of the same class that agree on every other stored option are
    mapped to the same value -/
def IgnoresBuildOnly {α : Type} (apply : Q → α) : Prop :=
  ∀ a b : Q, a.cls = b.cls → (∀ k, k ∉ buildOnly → a.get k = b.get k) → apply a = apply b

/-- **Same function.**  Every constructed quantizer of every class is rebuilt — directly, and
    through the dictionary route; the Keras pair resolves the class name and calls
    `from_config`, i.e. is the direct route — into an instance of the same class that stores the
    same value for EVERY constructor option other than `var_name` / `use_variables`; hence every
    function of the instance that ignores those two options is the same. -/
theorem C09_same_function (q : Q) (hr : Reachable q) :
    ∃ q', rebuildDirect q = .ok q' ∧ rebuildViaGetQuantizer q = .ok q' ∧ q'.cls = q.cls ∧
      (∀ k, k ∉ buildOnly → q'.get k = q.get k) ∧
      ∀ {α : Type} (apply : Q → α), IgnoresBuildOnly apply → apply q' = apply q := by
  obtain ⟨q', h1, h2⟩ := C09_rebuild_succeeds q hr
  obtain ⟨hcls, hser⟩ := C09_roundtrip_fields q q' hr h1
  have hkeys' : q'.env.keys = paramNames q.cls := by
    rw [rebuilt_form h1]
    show (normInit q.cls (forget q.cls q.env)).keys = _
    rw [norm_keys, forget_keys]
  have hkeys : q.env.keys = paramNames q.cls := by
    obtain ⟨args, kw, hcon⟩ := hr
    exact (construct_fixed hcon).2.1
  have hget : ∀ k, k ∉ buildOnly → q'.get k = q.get k := by
    intro k hk
    by_cases hp : k ∈ paramNames q.cls
    · by_cases hs : k ∈ serialised q.cls
      · exact hser k hs
      · exact absurd (C09_dropped_build_only q.cls k (mem_dropped.2 ⟨hp, hs⟩)) hk
    · -- not a constructor option of the class: absent on both sides
      have h0 : ∀ e : Env, e.keys = paramNames q.cls → e.get k = .none := by
        intro e he
        unfold Env.get
        rw [lookup_none_of_not_mem (by rw [← he] at hp; exact hp)]
        rfl
      show q'.env.get k = q.env.get k
      rw [h0 _ hkeys', h0 _ hkeys]
  exact ⟨q', h1, h2, hcls, hget, fun apply ha => ha q' q hcls hget⟩

/-- **Same instance (partial).**  A constructed quantizer whose `var_name` / `use_variables`
    are at their defaults is rebuilt — by all routes — as an instance EQUAL to the original;
    hence every function whatsoever of the instance is the same.  `_partial`: the hypothesis
    cannot be dropped because these two options are not serialised
    (`C09_serializable_necessary`, `C09_build_only_not_restored_witness`). -/
theorem C09_same_instance_partial (q : Q) (hr : Reachable q) (hs : Serializable q) :
    rebuildDirect q = .ok q ∧ rebuildViaGetQuantizer q = .ok q ∧
      ∀ {α : Type} (apply : Q → α) (q' : Q), rebuildDirect q = .ok q' → apply q' = apply q := by
  obtain ⟨args, kw, hcon⟩ := hr
  obtain ⟨-, hkeys, hfix⟩ := construct_fixed hcon
  have h1 : rebuildDirect q = .ok q := by
    unfold rebuildDirect
    rw [fromConfig_getConfig, forget_eq_self hkeys hs]
    exact hfix
  refine ⟨h1, (C09_serialize_dict q).trans h1, ?_⟩
  intro α apply q' h'
  rw [h1] at h'
  cases h'; rfl

/-- for the eight classes without `var_name` / `use_variables` the rebuilt instance is equal to
    the original unconditionally -/
theorem C09_same_instance (q : Q) (hr : Reachable q)
    (hc : q.cls ∈ [Cls.bernoulli, .ternary, .stochastic_ternary, .binary, .stochastic_binary,
                   .quantized_ulaw, .quantized_tanh, .quantized_sigmoid]) :
    rebuildDirect q = .ok q ∧ rebuildViaGetQuantizer q = .ok q := by
  have hs : Serializable q := by
    intro k hk
    rw [C09_dropped_fields_none q.cls hc] at hk
    cases hk
  exact ⟨(C09_same_instance_partial q hr hs).1, (C09_same_instance_partial q hr hs).2.1⟩

/-- `Serializable` is exactly what is needed for equality of instances: a rebuilt quantizer
    equal to the original forces every non-emitted option to be at its default. -/
theorem C09_serializable_necessary (q : Q) (h : rebuildDirect q = .ok q) : Serializable q :=
  fun k hk => C09_dropped_field_reset q q h k hk

/-! ## regression witnesses: the former counterexamples, evaluated at the old failing inputs -/

/-- constructing `cls(k = v, **extra)` and rebuilding it from its own config succeeds and gives
    back an instance equal to the original (in particular the same stored value for `k`) -/
def KeepsField (c : Cls) (k : String) (v : PyVal) (extra : Env := []) : Prop :=
  ∃ q, construct c [] ((k, v) :: extra) = .ok q ∧ q.get k = v ∧ rebuildDirect q = .ok q ∧
    rebuildViaGetQuantizer q = .ok q

private def keepsFieldB (c : Cls) (k : String) (v : PyVal) (extra : Env) : Bool :=
  match construct c [] ((k, v) :: extra) with
  | .ok q => decide (q.get k = v) && decide (fromConfig q.cls (getConfig q) = .ok q)
  | .error _ => false

private theorem keepsField_of_eval {c : Cls} {k : String} {v : PyVal} {extra : Env}
    (h : keepsFieldB c k v extra = true) : KeepsField c k v extra := by
  unfold keepsFieldB at h
  split at h
  · rename_i q hq
    simp only [Bool.and_eq_true, decide_eq_true_eq] at h
    exact ⟨q, hq, h.1, h.2, (C09_serialize_dict q).trans h.2⟩
  · cases h

theorem C09_dropped_field_fixed_witness_quantized_bits_scale_axis :
    KeepsField .quantized_bits "scale_axis" (.int 0) [("alpha", .str "auto")] :=
  keepsField_of_eval (by decide +kernel)
theorem C09_dropped_field_fixed_witness_quantized_bits_scale_axis_list :
    KeepsField .quantized_bits "scale_axis" (.list [.int 0, .int 1]) [("alpha", .str "auto")] :=
  keepsField_of_eval (by decide +kernel)
theorem C09_dropped_field_fixed_witness_quantized_bits_use_ste :
    KeepsField .quantized_bits "use_ste" (.bool false) := keepsField_of_eval (by decide +kernel)
theorem C09_dropped_field_fixed_witness_quantized_bits_elements_per_scale :
    KeepsField .quantized_bits "elements_per_scale" (.int 2)
      [("alpha", .str "auto_po2"), ("scale_axis", .int 1)] := keepsField_of_eval (by decide +kernel)
theorem C09_dropped_field_fixed_witness_quantized_bits_min_po2_exponent :
    KeepsField .quantized_bits "min_po2_exponent" (.int 1) [("alpha", .str "auto_po2")] :=
  keepsField_of_eval (by decide +kernel)
theorem C09_dropped_field_fixed_witness_quantized_bits_max_po2_exponent :
    KeepsField .quantized_bits "max_po2_exponent" (.int (-2)) [("alpha", .str "auto_po2")] :=
  keepsField_of_eval (by decide +kernel)
theorem C09_dropped_field_fixed_witness_quantized_linear_scale_axis :
    KeepsField .quantized_linear "scale_axis" (.int 0) [("alpha", .str "auto")] :=
  keepsField_of_eval (by decide +kernel)
theorem C09_dropped_field_fixed_witness_binary_scale_axis :
    KeepsField .binary "scale_axis" (.int 0) [("alpha", .str "auto")] :=
  keepsField_of_eval (by decide +kernel)
theorem C09_dropped_field_fixed_witness_binary_elements_per_scale :
    KeepsField .binary "elements_per_scale" (.list [.int 2, .int 3])
      [("alpha", .str "auto_po2"), ("scale_axis", .list [.int 0, .int 1])] :=
  keepsField_of_eval (by decide +kernel)
theorem C09_dropped_field_fixed_witness_binary_min_po2_exponent :
    KeepsField .binary "min_po2_exponent" (.int 1) [("alpha", .str "auto_po2")] :=
  keepsField_of_eval (by decide +kernel)
theorem C09_dropped_field_fixed_witness_binary_max_po2_exponent :
    KeepsField .binary "max_po2_exponent" (.int (-2)) [("alpha", .str "auto_po2")] :=
  keepsField_of_eval (by decide +kernel)
theorem C09_dropped_field_fixed_witness_quantized_relu_is_quantized_clip :
    KeepsField .quantized_relu "is_quantized_clip" (.bool false)
      [("relu_upper_bound", .float (3 / 2))] := keepsField_of_eval (by decide +kernel)
theorem C09_dropped_field_fixed_witness_quantized_relu_use_ste :
    KeepsField .quantized_relu "use_ste" (.bool false) := keepsField_of_eval (by decide +kernel)
theorem C09_dropped_field_fixed_witness_bernoulli_temperature :
    KeepsField .bernoulli "temperature" (.float 1) := keepsField_of_eval (by decide +kernel)
theorem C09_dropped_field_fixed_witness_bernoulli_use_real_sigmoid :
    KeepsField .bernoulli "use_real_sigmoid" (.bool false) := keepsField_of_eval (by decide +kernel)
theorem C09_dropped_field_fixed_witness_quantized_po2_use_ste :
    KeepsField .quantized_po2 "use_ste" (.bool false) := keepsField_of_eval (by decide +kernel)
theorem C09_dropped_field_fixed_witness_quantized_relu_po2_use_ste :
    KeepsField .quantized_relu_po2 "use_ste" (.bool false) := keepsField_of_eval (by decide +kernel)

/-- `quantized_hswish`: `from_config(get_config())` used to raise `TypeError` for EVERY instance
    (inherited `keep_negative` / `post_training_scale` keys); the default instance and
    `quantized_hswish(scale_axis=0, alpha="auto", relu_shift=2)` now rebuild as equal instances
    (`C09_rebuild_succeeds` / `C09_same_function` cover every instance) -/
theorem C09_hswish_from_config_fixed_witness :
    (∃ q, construct .quantized_hswish [] [] = .ok q ∧ rebuildDirect q = .ok q ∧
        rebuildViaGetQuantizer q = .ok q) ∧
      KeepsField .quantized_hswish "scale_axis" (.int 0)
        [("alpha", .str "auto"), ("relu_shift", .int 2)] := by
  refine ⟨?_, keepsField_of_eval (by decide +kernel)⟩
  have h : (match construct .quantized_hswish [] [] with
      | .ok q => decide (fromConfig q.cls (getConfig q) = .ok q)
      | .error _ => false) = true := by decide +kernel
  split at h
  · rename_i q hq
    have h' := of_decide_eq_true h
    exact ⟨q, hq, h', (C09_serialize_dict q).trans h'⟩
  · cases h

/-- what is still not restored, concretely: `quantized_bits(use_variables=True)` comes back with
    `use_variables=False` (the reason `C09_same_instance_partial` keeps its hypothesis) -/
theorem C09_build_only_not_restored_witness :
    ∃ q q', construct .quantized_bits [] [("use_variables", .bool true)] = .ok q ∧
      rebuildDirect q = .ok q' ∧ q'.get "use_variables" = .bool false ∧
      q.get "use_variables" = .bool true := by
  have h : (match construct .quantized_bits [] [("use_variables", .bool true)] with
      | .ok q => (match fromConfig q.cls (getConfig q) with
                  | .ok q' => decide (q'.get "use_variables" = .bool false) &&
                              decide (q.get "use_variables" = .bool true)
                  | .error _ => false)
      | .error _ => false) = true := by decide +kernel
  split at h
  · rename_i q hq
    split at h
    · rename_i q' hq'
      simp only [Bool.and_eq_true, decide_eq_true_eq] at h
      exact ⟨q, q', hq, hq', h.1, h.2⟩
    · cases h
  · cases h

/-! ## non-vacuity -/

private def roundTripsB (c : Cls) (args : List PyVal) (kw : Env) : Bool :=
  match construct c args kw with
  | .ok q => decide (∀ k ∈ dropped q.cls, q.get k = defaultOf q.cls k)
             && decide (fromConfig q.cls (getConfig q) = .ok q)
  | .error _ => false

private theorem hyps_of_eval {c : Cls} {args : List PyVal} {kw : Env}
    (h : roundTripsB c args kw = true) :
    ∃ q, Reachable q ∧ q.cls = c ∧ Serializable q ∧ rebuildDirect q = .ok q := by
  unfold roundTripsB at h
  split at h
  · rename_i q hq
    simp only [Bool.and_eq_true, decide_eq_true_eq] at h
    have hc : q.cls = c := (construct_fixed hq).1
    exact ⟨q, ⟨args, kw, hc ▸ hq⟩, hc, h.1, h.2⟩
  · cases h

/-- `quantized_bits(4, 1, alpha="auto")` satisfies every hypothesis of
    `C09_same_instance_partial` (and is non-trivial: `symmetric` was normalised to True) -/
example : ∃ q, Reachable q ∧ q.cls = .quantized_bits ∧ Serializable q ∧ rebuildDirect q = .ok q :=
  hyps_of_eval (c := .quantized_bits) (args := [.int 4, .int 1]) (kw := [("alpha", .str "auto")])
    (by decide +kernel)

/-- the default instance of every class (hswish included) satisfies all hypotheses -/
example (c : Cls) : ∃ q, Reachable q ∧ q.cls = c ∧ Serializable q ∧ rebuildDirect q = .ok q := by
  have h : roundTripsB c [] [] = true := by cases c <;> decide +kernel
  exact hyps_of_eval h

/-- `IgnoresBuildOnly` is satisfiable by functions that do read options: e.g. the pair
    (class, `scale_axis`) — and fails for a function that reads `use_variables` -/
example : IgnoresBuildOnly (fun q : Q => (q.cls, q.get "scale_axis")) := by
  intro a b hc h
  simp only [hc, h "scale_axis" (by decide)]

/-! ## strengthening round: hidden per-instance state, process-level state, histories, forms

  The instance is now `Inst` = stored constructor arguments + the hidden attributes `__init__`
  derives from them (`_min_exp` / `_max_exp` of the two po2 classes, `freeze_scale`), built and
  rebuilt in an explicit process state `World` (sigmoid approximation, image data format,
  learning phase) and possibly USED before `get_config()` is taken (`Step`).  "Same function" is
  proved for every `apply : World → Inst → α` — what a call made in any later world computes —
  that ignores the two build-only options. -/

/-- `i` was produced by the class constructor, in some world, from some arguments -/
def ReachableI (i : Inst) : Prop := ∃ w args kw, constructI w i.q.cls args kw = .ok i

def rebuildDirectI (w : World) (i : Inst) : Except Err Inst := fromConfigI w i.q.cls (getConfig i.q)
def rebuildViaGetQuantizerI (w : World) (i : Inst) : Except Err Inst :=
  getQuantizerDictI w (serialize i.q)

/-- `apply` reads the world of the call, the class, the stored options other than
    `var_name` / `use_variables`, and the hidden attributes -/
def IgnoresBuildOnlyI {α : Type} (apply : World → Inst → α) : Prop :=
  ∀ (w : World) (a b : Inst), a.q.cls = b.q.cls → (∀ k, k ∉ buildOnly → a.q.get k = b.q.get k) →
    a.hid = b.hid → apply w a = apply w b

theorem C09_serialize_dict_world (w : World) (i : Inst) :
    rebuildViaGetQuantizerI w i = rebuildDirectI w i := by
  unfold rebuildViaGetQuantizerI rebuildDirectI getQuantizerDictI serialize
  simp only [C09_registry_class]

/-- the constructors read no process-level state: the same arguments give the same instance
    (fields and hidden attributes) whatever `set_internal_sigmoid` / `set_image_data_format` /
    the learning phase were when it ran -/
theorem C09_constructor_world_independent (w w' : World) (c : Cls) (args : List PyVal) (kw : Env) :
    constructI w c args kw = constructI w' c args kw := rfl

/-- the `Inst` constructor is the `Q` constructor of the theorems above plus the hidden state -/
theorem C09_constructI_fields (w : World) (c : Cls) (args : List PyVal) (kw : Env) :
    (constructI w c args kw).map Inst.q = construct c args kw := constructI_q w c args kw

/-- **Round trip of a canonical instance** (the invariant `Canon`: exactly the signature's keys,
    checks pass, normalisations applied, hidden attributes consistent with the stored fields).
    Rebuilt in ANY world by either route: no exception; same class; same value of every option
    other than `var_name` / `use_variables`; the SAME hidden attributes; the same `get_config()`;
    the rebuilt instance is canonical again; and every call-time function of the instance that
    ignores the build-only options coincides in every later world. -/
theorem C09_canon_roundtrip (i : Inst) (h : Canon i) (w1 : World) :
    ∃ i', rebuildDirectI w1 i = .ok i' ∧ rebuildViaGetQuantizerI w1 i = .ok i' ∧
      i'.q.cls = i.q.cls ∧ (∀ k, k ∉ buildOnly → i'.q.get k = i.q.get k) ∧ i'.hid = i.hid ∧
      getConfig i'.q = getConfig i.q ∧ Canon i' ∧
      ∀ {α : Type} (apply : World → Inst → α), IgnoresBuildOnlyI apply →
        ∀ w2 : World, apply w2 i' = apply w2 i := by
  have h1 := canon_rebuild w1 h
  have hser : ∀ k ∈ serialised i.q.cls,
      (normInit i.q.cls (forget i.q.cls i.q.env)).get k = i.q.env.get k :=
    fun k hk => roundtrip_get_serialised h.1 h.init_fixed hk
  have hget : ∀ k, k ∉ buildOnly →
      (normInit i.q.cls (forget i.q.cls i.q.env)).get k = i.q.env.get k := by
    intro k hk
    by_cases hp : k ∈ paramNames i.q.cls
    · by_cases hs : k ∈ serialised i.q.cls
      · exact hser k hs
      · exact absurd (C09_dropped_build_only i.q.cls k (mem_dropped.2 ⟨hp, hs⟩)) hk
    · have h0 : ∀ e : Env, e.keys = paramNames i.q.cls → e.get k = .none := by
        intro e he
        unfold Env.get
        rw [lookup_none_of_not_mem (by rw [← he] at hp; exact hp)]
        rfl
      rw [h0 _ (by rw [norm_keys, forget_keys]), h0 _ h.1]
  have hcanon : Canon ⟨⟨i.q.cls, normInit i.q.cls (forget i.q.cls i.q.env)⟩, i.hid⟩ := by
    refine ⟨by show (normInit _ _).keys = _; rw [norm_keys, forget_keys], ?_⟩
    show initI i.q.cls (normInit i.q.cls (forget i.q.cls i.q.env)) = _
    have hc : check i.q.cls (normInit i.q.cls (forget i.q.cls i.q.env)) = none := by
      rw [check_norm, check_forget]; exact h.check
    rw [initI_of_check hc, norm_norm, hidden_norm, hidden_forget, ← h.hid_eq]
  refine ⟨_, h1, (C09_serialize_dict_world w1 i).trans h1, rfl, hget, rfl, ?_, hcanon, ?_⟩
  · exact getConfig_congr (q' := ⟨i.q.cls, _⟩) rfl hser
  · intro α apply ha w2
    exact ha w2 _ i rfl hget rfl

/-- a freshly constructed instance is canonical -/
theorem C09_reachable_canon (i : Inst) (hr : ReachableI i) : Canon i := by
  obtain ⟨w, args, kw, h⟩ := hr
  exact (canon_of_constructI h).2

/-- **Hidden state survives the round trip**: the attributes `__init__` derives from its
    arguments (`_min_exp`, `_max_exp`, `freeze_scale`) are the same in the rebuilt quantizer —
    they are functions of serialised options which no normalisation touches. -/
theorem C09_hidden_state_roundtrip (i i' : Inst) (hr : ReachableI i) (w1 : World)
    (h : rebuildDirectI w1 i = .ok i') : i'.hid = i.hid := by
  obtain ⟨j, hj, -, -, -, hh, -⟩ := C09_canon_roundtrip i (C09_reachable_canon i hr) w1
  rw [hj] at h; cases h; exact hh

/-- the exponent range of the two power-of-two quantizers, explicitly -/
theorem C09_po2_exponent_range_roundtrip (i i' : Inst) (hr : ReachableI i) (w1 : World)
    (h : rebuildDirectI w1 i = .ok i') :
    i'.hid.get "_min_exp" = i.hid.get "_min_exp" ∧ i'.hid.get "_max_exp" = i.hid.get "_max_exp" := by
  rw [C09_hidden_state_roundtrip i i' hr w1 h]; exact ⟨rfl, rfl⟩

/-- **The configuration is a fixed point**: `get_config()` of the rebuilt quantizer is the
    configuration it was rebuilt from, and rebuilding the rebuilt quantizer returns it unchanged
    (`rebuild ∘ get_config` is idempotent). -/
theorem C09_config_fixed_point (i i' : Inst) (hr : ReachableI i) (w1 w2 : World)
    (h : rebuildDirectI w1 i = .ok i') :
    getConfig i'.q = getConfig i.q ∧ rebuildDirectI w2 i' = .ok i' := by
  obtain ⟨j, hj, -, hcls, hget, hh, hcfg, hcan, -⟩ :=
    C09_canon_roundtrip i (C09_reachable_canon i hr) w1
  rw [hj] at h; cases h
  refine ⟨hcfg, ?_⟩
  -- the rebuilt instance holds the defaults of the two build-only options
  have hcr := canon_rebuild w1 (C09_reachable_canon i hr)
  unfold rebuildDirectI at hj
  rw [hcr] at hj
  cases hj
  have hs : ∀ k ∈ dropped i.q.cls,
      (normInit i.q.cls (forget i.q.cls i.q.env)).get k = defaultOf i.q.cls k := by
    intro k hk
    have hne : k ≠ "symmetric" := by
      rintro rfl
      have h2 := (mem_dropped.1 hk).2
      have h1 := (mem_dropped.1 hk).1
      revert h1 h2
      cases i.q.cls <;> decide
    rw [norm_get_ne _ _ hne]
    exact forget_get_dropped _ hk
  have h2 := canon_rebuild w2 hcan
  unfold rebuildDirectI
  rw [h2]
  simp only
  rw [forget_eq_self hcan.1 hs, hcan.norm_fixed]

/-- **Same function after any history, across any switch of the process-level state.**
    Construct in world `w0`; use the object (`__call__`, `_set_trainable_parameter()` as a layer
    does, `update_qnoise_factor`) and switch the process-level state in any order; take
    `get_config()`; rebuild by either route in whatever world `w` the history ended in; call
    both in any later world `w2`: same class, same options (build-only aside), same hidden
    attributes, same configuration, same value of every call-time function. -/
theorem C09_history_same_function (w0 : World) (c : Cls) (args : List PyVal) (kw : Env)
    (i0 : Inst) (hcon : constructI w0 c args kw = .ok i0) (steps : List Step) :
    let s := runHistory (w0, i0) steps
    ∃ i', rebuildDirectI s.1 s.2 = .ok i' ∧ rebuildViaGetQuantizerI s.1 s.2 = .ok i' ∧
      i'.q.cls = c ∧ (∀ k, k ∉ buildOnly → i'.q.get k = s.2.q.get k) ∧ i'.hid = s.2.hid ∧
      getConfig i'.q = getConfig s.2.q ∧
      ∀ {α : Type} (apply : World → Inst → α), IgnoresBuildOnlyI apply →
        ∀ w2 : World, apply w2 i' = apply w2 s.2 := by
  intro s
  have hc0 := canon_of_constructI hcon
  have hcan : Canon s.2 := canon_runHistory (s := (w0, i0)) hc0.2 steps
  have hcls : s.2.q.cls = c := (runHistory_cls (w0, i0) steps).trans hc0.1
  obtain ⟨i', h1, h2, h3, h4, h5, h6, -, h8⟩ := C09_canon_roundtrip s.2 hcan s.1
  exact ⟨i', h1, h2, h3.trans hcls, h4, h5, h6, h8⟩

/-- the effective sigmoid approximation of a call is the one of the world the call is made in,
    for the original and for the rebuilt quantizer alike (nothing was captured at construction
    or at rebuild time) -/
theorem C09_sigmoid_mode_not_captured (i i' : Inst) (hr : ReachableI i) (w1 w2 : World)
    (h : rebuildDirectI w1 i = .ok i') : effSigmoid w2 i' = effSigmoid w2 i := by
  obtain ⟨j, hj, -, hcls, hget, -⟩ := C09_canon_roundtrip i (C09_reachable_canon i hr) w1
  rw [hj] at h; cases h
  have hq : readsSigmoid i'.q = readsSigmoid i.q := by
    unfold readsSigmoid
    rw [hcls, hget "use_real_sigmoid" (by decide), hget "use_sigmoid" (by decide),
      hget "use_real_tanh" (by decide)]
  unfold effSigmoid
  rw [hq]

/-- why the hidden state is in the model: the exponent range really depends on `max_value`
    crossing 1 — `quantized_relu_po2(bits=1, max_value=2)` has range [-1, 0], with `max_value=1`
    it is [-2, 1]; a constructor that stored a clamped `max_value` would break the round trip -/
theorem C09_po2_range_reads_max_value_witness :
    hiddenInit .quantized_relu_po2 [("bits", .int 1), ("max_value", .int 2),
        ("quadratic_approximation", .bool false)]
      = [("_min_exp", .int (-1)), ("_max_exp", .int 0)] ∧
    hiddenInit .quantized_relu_po2 [("bits", .int 1), ("max_value", .int 1),
        ("quadratic_approximation", .bool false)]
      = [("_min_exp", .int (-2)), ("_max_exp", .int 1)] ∧
    hiddenInit .quantized_po2 [("bits", .int 1), ("max_value", .none),
        ("quadratic_approximation", .bool true)]
      = [("_min_exp", .float (-1 / 2)), ("_max_exp", .float (-2))] := by
  refine ⟨?_, ?_, ?_⟩ <;> decide +kernel

/-- a quantizer handed to a layer: `quantized_bits()` after `_set_trainable_parameter()` holds
    alpha="auto_po2", symmetric=True, freeze_scale=False and rebuilds as exactly that -/
theorem C09_set_trainable_roundtrip_witness :
    ∃ i i', constructI {} .quantized_bits [] [] = .ok i ∧
      (setTrainable i).q.get "alpha" = .str "auto_po2" ∧
      (setTrainable i).hid = [("freeze_scale", .bool false)] ∧
      rebuildDirectI {} (setTrainable i) = .ok i' ∧ i'.hid = (setTrainable i).hid ∧
      i'.q = (setTrainable i).q := by
  have h : (match constructI {} .quantized_bits [] [] with
      | .ok i => (match rebuildDirectI {} (setTrainable i) with
          | .ok i' => decide ((setTrainable i).q.get "alpha" = .str "auto_po2") &&
              decide ((setTrainable i).hid = [("freeze_scale", .bool false)]) &&
              decide (i'.hid = (setTrainable i).hid) && decide (i'.q = (setTrainable i).q)
          | .error _ => false)
      | .error _ => false) = true := by decide +kernel
  split at h
  · rename_i i hi
    split at h
    · rename_i i' hi'
      simp only [Bool.and_eq_true, decide_eq_true_eq] at h
      exact ⟨i, i', hi, h.1.1.1, h.1.1.2, hi', h.1.2, h.2⟩
    · cases h
  · cases h

/-! ### value forms through the Keras serialize / deserialize pair -/

/-- **Keras pair, partial.**  When every stored option is a python literal, a numpy scalar or
    an ndarray — or a `tf.Variable` holding `qnoise_factor`, in ANY class (exported through
    `.numpy()`; `quantized_linear` included since the fix round) — `from_config` receives the
    values.  `_partial`: an option held as a `tf.Tensor`, or as a numpy array with at least one
    dimension (`Form.array`: not a plain form), is a counterexample below. -/
theorem C09_keras_plain_forms_partial (c : Cls) (stored : List (String × Form))
    (h : ∀ p ∈ stored, p.2.plain = true ∨ (p.1 = "qnoise_factor" ∧ p.2 = .variable)) :
    kerasOutcome (configForms c stored) = .ok := by
  rw [kerasOutcome_ok_iff]
  intro p hp
  unfold configForms at hp
  obtain ⟨k, -, rfl⟩ := List.mem_map.1 hp
  simp only
  cases hl : stored.lookup k with
  | none => simp [exportForm, Form.tagged]
  | some f =>
    have hmem := mem_of_lookup hl
    rcases h _ hmem with hpl | ⟨hk, hf⟩
    · exact plain_ne _ (exportForm_plain c k f hpl)
    · simp only at hk hf
      subst hk; subst hf
      rw [Option.getD_some, exportForm_qnoise_variable]
      exact ⟨by decide, by decide⟩

/-- no `get_config` hands out a `tf.Variable` under the key `qnoise_factor`, whatever form the
    attribute is held in (all 14 classes): the configuration never shares the original's
    variable with a quantizer rebuilt from it -/
theorem C09_config_never_holds_qnoise_variable (c : Cls) (stored : List (String × Form)) :
    ("qnoise_factor", Form.variable) ∉ configForms c stored := by
  intro hm
  unfold configForms at hm
  obtain ⟨k, -, hk⟩ := List.mem_map.1 hm
  have h1 : k = "qnoise_factor" := congrArg Prod.fst hk
  have h2 := congrArg Prod.snd hk
  subst h1
  exact exportForm_qnoise_ne_variable c _ h2

/-- **Keras pair, counterexample 1** (every class, every serialised option except
    `post_training_scale`, which `quantized_bits.get_config` converts to a list): an option held
    as a `tf.Tensor` is emitted as it is by `get_config`, becomes a `__tensor__` dictionary in
    `serialize_keras_object` and reaches `cls.from_config` undecoded. -/
theorem C09_keras_tensor_option_counterexample (c : Cls) (k : String) (hk : k ∈ serialised c)
    (hp : k ≠ "post_training_scale") :
    kerasOutcome (configForms c [(k, .tensor)]) ≠ .ok := by
  intro h
  rw [kerasOutcome_ok_iff] at h
  have hm : (k, exportForm c k ((([(k, Form.tensor)] : List (String × Form)).lookup k).getD .literal))
      ∈ configForms c [(k, .tensor)] := by
    unfold configForms
    exact List.mem_map.2 ⟨k, hk, rfl⟩
  have := (h _ hm).2
  simp [List.lookup, exportForm, hp, Form.tagged] at this

/-- the one option `get_config` converts whatever it is held in: `post_training_scale` of
    `quantized_bits` is emitted as a python list (`np.asarray(...).tolist()`), so every form of it
    passes the Keras pair (why it is excluded from the counterexample above) -/
theorem C09_keras_post_training_scale_any_form (f : Form) :
    kerasOutcome (configForms .quantized_bits [("post_training_scale", f)]) = .ok := by
  cases f <;> decide

/-- **regression witness** (former `C09_keras_linear_qnoise_variable_counterexample`, finding
    `C09-quantized_linear-qnoise_variable-keras`, repaired in the fix round):
    `quantized_linear(use_variables=True)` that has been called holds `qnoise_factor` in a
    `tf.Variable`; its `get_config` used to hand the variable out, so that
    `serialize_keras_object` raised (and the dictionary routes shared the variable).  Now the
    emitted value is the numpy scalar and the Keras pair goes through — for `quantized_linear`
    and for every other class. -/
theorem C09_keras_linear_qnoise_variable_fixed_witness :
    configForms .quantized_linear [("qnoise_factor", .variable)] =
      (serialised .quantized_linear).map (fun k => (k, if k = "qnoise_factor" then Form.npScalar else .literal)) ∧
    kerasOutcome (configForms .quantized_linear [("qnoise_factor", .variable)]) = .ok ∧
    ∀ c : Cls, kerasOutcome (configForms c [("qnoise_factor", .variable)]) = .ok := by
  refine ⟨by decide, by decide, fun c => ?_⟩
  cases c <;> decide

/-! ### strengthening round 2 (seeds C09-7, C09-8): value forms through the dictionary routes -/

/-- **Dictionary routes restore the form of every option.**  For every class, every serialised
    option `k` and every form `f` the original holds it in — python literal, numpy scalar, 0-d
    array, tensor, variable, numpy array with >= 1 dimension — the quantizer rebuilt by
    `cls.from_config(q.get_config())` / `get_quantizer(dict)` holds `k` in the same form, the
    two conversions of the code aside (`FormKept`: a `qnoise_factor` variable is exported as its
    value; `post_training_scale` leaves as a list and comes back as an ndarray).  `__call__`
    selects its per-channel branch by `isinstance(self.alpha, np.ndarray)`, so this is what makes
    "same stored value" mean "same function" for array-valued options. -/
theorem C09_direct_route_keeps_forms (c : Cls) (stored : List (String × Form)) (nones : List String)
    (h : ∀ k ∈ serialised c, FormKept k ((stored.lookup k).getD .literal) (nones.contains k)) :
    rebuiltForms c stored nones =
      (serialised c).map fun k => (k, (stored.lookup k).getD .literal) := by
  unfold rebuiltForms
  apply List.map_congr_left
  intro k hk
  rw [rebuiltForm_kept c k _ _ (h k hk)]

/-- per-channel (array-valued) options survive the dictionary routes as arrays: every class,
    every serialised option (for `post_training_scale`: whenever it is not None) -/
theorem C09_array_option_direct_roundtrip (c : Cls) (k : String) :
    rebuiltForm c k .array false = .array := by
  apply rebuiltForm_kept
  refine ⟨fun _ => by decide, fun _ => Or.inr ⟨rfl, rfl⟩⟩

/-- `post_training_scale` comes back as an ndarray whatever the original holds it in (list out,
    `np.array` in), and stays None when it is None -/
theorem C09_post_training_scale_rebuilt_form (c : Cls) (f : Form) :
    rebuiltForm c "post_training_scale" f false = .array ∧
    rebuiltForm c "post_training_scale" .literal true = .literal := by
  constructor
  · cases f <;> rfl
  · rfl

/-- the one form a dictionary route does not restore besides `post_training_scale`: a
    `qnoise_factor` variable (created by `use_variables=True`, a build-only option) comes back
    as the plain value -/
theorem C09_qnoise_variable_rebuilt_as_value (c : Cls) (b : Bool) :
    rebuiltForm c "qnoise_factor" .variable b = .npScalar := by
  cases b <;> rfl

/-- **Keras pair, counterexample 2** (every class, every serialised option except
    `post_training_scale`): an option held as a numpy array with at least one dimension — a
    per-channel `alpha` — is emitted as the array, becomes a `__numpy__` dictionary in
    `serialize_keras_object` and reaches `cls.from_config` undecoded, while BOTH dictionary
    routes restore it (`C09_array_option_direct_roundtrip`). -/
theorem C09_keras_array_option_counterexample (c : Cls) (k : String) (hk : k ∈ serialised c)
    (hp : k ≠ "post_training_scale") :
    kerasOutcome (configForms c [(k, .array)]) ≠ .ok := by
  intro h
  rw [kerasOutcome_ok_iff] at h
  have hm : (k, exportForm c k ((([(k, Form.array)] : List (String × Form)).lookup k).getD .literal))
      ∈ configForms c [(k, .array)] := by
    unfold configForms
    exact List.mem_map.2 ⟨k, hk, rfl⟩
  have := (h _ hm).2
  simp [List.lookup, exportForm, hp, Form.tagged] at this

/-- witness for the seeded change C09-8 (`ternary.get_config` emitting `alpha.tolist()` with no
    conversion back): in the code as it is, `ternary` with an array `alpha` emits the array and is
    rebuilt holding an array; a list in its place is a different form (`float(self.alpha)` raises) -/
theorem C09_ternary_array_alpha_witness :
    configForms .ternary [("alpha", .array)] =
      [("alpha", .array), ("threshold", .literal), ("use_stochastic_rounding", .literal),
       ("number_of_unrolls", .literal)] ∧
    rebuiltForms .ternary [("alpha", .array)] ["threshold"] =
      [("alpha", .array), ("threshold", .literal), ("use_stochastic_rounding", .literal),
       ("number_of_unrolls", .literal)] ∧
    Form.array ≠ Form.literal := by
  refine ⟨by decide, by decide, by decide⟩

/-- `FormKept` is satisfiable for every key (non-vacuity) -/
example (k : String) : ∃ f b, FormKept k f b :=
  ⟨.literal, true, fun _ => by decide, fun _ => Or.inl ⟨rfl, rfl⟩⟩

/-! ### non-vacuity of the strengthening-round hypotheses -/

/-- every class has a reachable (hence canonical) default instance, in every world -/
example (c : Cls) (w : World) : ∃ i, constructI w c [] [] = .ok i ∧ ReachableI i ∧ Canon i := by
  have h : ∃ i, constructI w c [] [] = .ok i := by
    cases c <;> exact ⟨_, rfl⟩
  obtain ⟨i, hi⟩ := h
  have hc := canon_of_constructI hi
  exact ⟨i, hi, ⟨w, [], [], hc.1 ▸ hi⟩, hc.2⟩

/-- `IgnoresBuildOnlyI` is satisfiable by a function that reads the world, an option and the
    hidden state -/
example : IgnoresBuildOnlyI (fun w i => (w.sigmoid, i.q.cls, i.q.get "max_value", i.hid)) := by
  intro w a b hc h hh
  simp only [hc, h "max_value" (by decide), hh]

/-! ### Strengthening round 3 (seed C09-9): call-time derived quantities, layer-held quantizers,
    assignment to declared-modifiable attributes -/

/-- everything `quantized_linear.__call__` derives from the current attributes (clip range,
    data-type scale, sign-function switch, auto-alpha switch) reads serialised options only -/
theorem C09_linDerived_ignores_build_only :
    IgnoresBuildOnlyI (fun (_ : World) (i : Inst) => linDerived i.q) := by
  intro w a b _ h _
  show linDerived a.q = linDerived b.q
  have key : ∀ (q q' : Q), q.get "bits" = q'.get "bits" →
      q.get "keep_negative" = q'.get "keep_negative" → q.get "symmetric" = q'.get "symmetric" →
      q.get "integer" = q'.get "integer" → q.get "alpha" = q'.get "alpha" →
      linDerived q = linDerived q' := by
    intro q q' h1 h2 h3 h4 h5
    unfold linDerived linClipBounds linDataTypeScale linUseSign linAutoAlpha
    rw [h1, h2, h3, h4, h5]
  exact key _ _ (h "bits" (by decide)) (h "keep_negative" (by decide))
    (h "symmetric" (by decide)) (h "integer" (by decide)) (h "alpha" (by decide))

/-- **Same function after any history that also re-configures the live object through its
    declared-modifiable attributes** (`q.symmetric = v`, `q.qnoise_factor = v` on a
    `quantized_linear`, next to `__call__`, `_set_trainable_parameter()`, `update_qnoise_factor`
    and switches of the process-level state, in any order): the configuration taken afterwards
    rebuilds, by either route and in whatever world the history ended in, a quantizer of the same
    class with the same options (build-only aside), hidden attributes, configuration and the
    same value of every call-time function in every later world. -/
theorem C09_historyX_same_function (w0 : World) (c : Cls) (args : List PyVal) (kw : Env)
    (i0 : Inst) (hcon : constructI w0 c args kw = .ok i0) (steps : List StepX) :
    let s := runHistoryX (w0, i0) steps
    ∃ i', rebuildDirectI s.1 s.2 = .ok i' ∧ rebuildViaGetQuantizerI s.1 s.2 = .ok i' ∧
      i'.q.cls = c ∧ (∀ k, k ∉ buildOnly → i'.q.get k = s.2.q.get k) ∧ i'.hid = s.2.hid ∧
      getConfig i'.q = getConfig s.2.q ∧
      ∀ {α : Type} (apply : World → Inst → α), IgnoresBuildOnlyI apply →
        ∀ w2 : World, apply w2 i' = apply w2 s.2 := by
  intro s
  have hc0 := canon_of_constructI hcon
  have hcan : Canon s.2 := canon_runHistoryX (s := (w0, i0)) hc0.2 steps
  have hcls : s.2.q.cls = c := (runHistoryX_cls (w0, i0) steps).trans hc0.1
  obtain ⟨i', h1, h2, h3, h4, h5, h6, -, h8⟩ := C09_canon_roundtrip s.2 hcan s.1
  exact ⟨i', h1, h2, h3.trans hcls, h4, h5, h6, h8⟩

/-- the extended histories contain the old ones -/
theorem C09_historyX_extends_history (s : World × Inst) (steps : List Step) :
    runHistoryX s (steps.map StepX.base) = runHistory s steps := runHistoryX_base s steps

/-- **The clip range (and every other call-time derived quantity) of the rebuilt quantizer is
    the one of the USED object**, not the one the original had at construction: after any
    extended history — in particular after a layer has been handed the quantizer. -/
theorem C09_linear_call_time_quantities_roundtrip (w0 : World) (c : Cls) (args : List PyVal)
    (kw : Env) (i0 : Inst) (hcon : constructI w0 c args kw = .ok i0) (steps : List StepX)
    (i' : Inst) (hr : rebuildDirectI (runHistoryX (w0, i0) steps).1
      (runHistoryX (w0, i0) steps).2 = .ok i') :
    linDerived i'.q = linDerived (runHistoryX (w0, i0) steps).2.q ∧
    linClipBounds i'.q = linClipBounds (runHistoryX (w0, i0) steps).2.q := by
  obtain ⟨j, hj, -, -, -, -, -, happ⟩ := C09_historyX_same_function w0 c args kw i0 hcon steps
  rw [hj] at hr; cases hr
  have h := happ _ C09_linDerived_ignores_build_only w0
  exact ⟨h, congrArg LinDerived.clip h⟩

/-- a `quantized_linear` that a layer has been handed (`_set_trainable_parameter()` with
    `alpha=None`) clips symmetrically, whatever `symmetric` was at construction: for every
    integer width `b ≥ 2` with `keep_negative=True` the range is `[-(2^(b-1) - 1), 2^(b-1) - 1]` -/
theorem C09_linear_clip_bounds_after_set_trainable (i : Inst) (hcan : Canon i)
    (hc : i.q.cls = .quantized_linear) (b : Int) (hb : i.q.get "bits" = .int b) (h2 : 2 ≤ b)
    (hk : i.q.get "keep_negative" = .bool true) (ha : i.q.get "alpha" = .none) :
    linClipBounds (setTrainable i).q
      = some (-(QKV.pow2 (b - 1)) + 1, QKV.pow2 (b - 1) - 1) := by
  have hkeys := hcan.1
  obtain ⟨⟨c, e⟩, hid⟩ := i
  simp only at hc; subst hc
  simp only [Q.get] at hb hk ha hkeys
  have hst : (setTrainable ⟨⟨.quantized_linear, e⟩, hid⟩).q
      = ⟨.quantized_linear, (e.set "alpha" (.str "auto_po2")).set "symmetric" (.bool true)⟩ := by
    simp [setTrainable, Q.get, ha, PyVal.isNone]
  rw [hst]
  apply linClipBounds_signed (sy := 1)
  · show Env.get _ "bits" = _
    rw [Env.get_set_ne (by decide), Env.get_set_ne (by decide)]; exact hb
  · exact h2
  · show Env.get _ "keep_negative" = _
    rw [Env.get_set_ne (by decide), Env.get_set_ne (by decide)]; exact hk
  · show (Env.get _ "symmetric").numVal = _
    rw [Env.get_set_self (by rw [Env.keys_set, hkeys]; decide)]
    rfl

/-- **the clip range is NOT fixed at construction**: for every width `b ≥ 2`, a
    `quantized_linear(b, …, symmetric=0)` (or `False`) with `alpha=None` has the range
    `[-2^(b-1), 2^(b-1) - 1]` when built and a different one once a layer holds it — a value
    computed once in `__init__` is stale exactly there (the seeded change C09-9) -/
theorem C09_linear_clip_bounds_not_fixed_at_construction (i : Inst) (hcan : Canon i)
    (hc : i.q.cls = .quantized_linear) (b : Int) (hb : i.q.get "bits" = .int b) (h2 : 2 ≤ b)
    (hk : i.q.get "keep_negative" = .bool true) (ha : i.q.get "alpha" = .none)
    (hs : (i.q.get "symmetric").numVal = some 0) :
    linClipBounds i.q = some (-(QKV.pow2 (b - 1)) + 0, QKV.pow2 (b - 1) - 1) ∧
    linClipBounds (setTrainable i).q ≠ linClipBounds i.q := by
  have h0 := linClipBounds_signed hb h2 hk hs
  refine ⟨h0, ?_⟩
  rw [C09_linear_clip_bounds_after_set_trainable i hcan hc b hb h2 hk ha, h0]
  intro h
  have h1 := congrArg Prod.fst (Option.some.inj h)
  simp only at h1
  linarith

/-- the failing input of the seeded change C09-9 in the code as it is:
    `quantized_linear(2, 1, symmetric=0)` is built with the range (-2, 1); handed to a layer it
    holds alpha="auto_po2", symmetric=True and clips to (-1, 1); the quantizer rebuilt from its
    configuration clips to (-1, 1) as well; assigning `symmetric = 0` again gives (-2, 1) and a
    rebuilt quantizer that follows -/
theorem C09_linear_layer_held_roundtrip_witness :
    ∃ i j j' k k', constructI {} .quantized_linear [.int 2, .int 1, .int 0] [] = .ok i ∧
      linClipBounds i.q = some (-2, 1) ∧
      j = setTrainable i ∧ j.q.get "alpha" = .str "auto_po2" ∧ j.q.get "symmetric" = .bool true ∧
      linClipBounds j.q = some (-1, 1) ∧
      rebuildDirectI {} j = .ok j' ∧ j'.q = j.q ∧ linClipBounds j'.q = some (-1, 1) ∧
      k = assignAttr "symmetric" (.int 0) j ∧ linClipBounds k.q = some (-2, 1) ∧
      rebuildDirectI {} k = .ok k' ∧ linClipBounds k'.q = some (-2, 1) := by
  have h : (match constructI {} .quantized_linear [.int 2, .int 1, .int 0] [] with
      | .ok i =>
        (match rebuildDirectI {} (setTrainable i),
               rebuildDirectI {} (assignAttr "symmetric" (.int 0) (setTrainable i)) with
          | .ok j', .ok k' =>
            decide (linClipBounds i.q = some (-2, 1)) &&
            decide ((setTrainable i).q.get "alpha" = .str "auto_po2") &&
            decide ((setTrainable i).q.get "symmetric" = .bool true) &&
            decide (linClipBounds (setTrainable i).q = some (-1, 1)) &&
            decide (j'.q = (setTrainable i).q) && decide (linClipBounds j'.q = some (-1, 1)) &&
            decide (linClipBounds (assignAttr "symmetric" (.int 0) (setTrainable i)).q
              = some (-2, 1)) &&
            decide (linClipBounds k'.q = some (-2, 1))
          | _, _ => false)
      | .error _ => false) = true := by decide +kernel
  split at h
  · rename_i i hi
    split at h
    · rename_i j' k' hj' hk'
      simp only [Bool.and_eq_true, decide_eq_true_eq] at h
      obtain ⟨⟨⟨⟨⟨⟨⟨a1, a2⟩, a3⟩, a4⟩, a5⟩, a6⟩, a7⟩, a8⟩ := h
      exact ⟨i, _, j', _, k', hi, a1, rfl, a2, a3, a4, hj', a5, a6, rfl, a7, hk', a8⟩
    · cases h
  · cases h

/-- non-vacuity: the default `quantized_linear` with `symmetric=0` satisfies every hypothesis of
    `C09_linear_clip_bounds_not_fixed_at_construction` (b = 8) -/
example : ∃ i, constructI {} .quantized_linear [] [("symmetric", .int 0)] = .ok i ∧ Canon i ∧
    i.q.cls = .quantized_linear ∧ i.q.get "bits" = .int 8 ∧
    i.q.get "keep_negative" = .bool true ∧ i.q.get "alpha" = .none ∧
    (i.q.get "symmetric").numVal = some 0 := by
  have h : (match constructI {} .quantized_linear [] [("symmetric", .int 0)] with
      | .ok i => decide (i.q.cls = .quantized_linear) && decide (i.q.get "bits" = .int 8) &&
          decide (i.q.get "keep_negative" = .bool true) && decide (i.q.get "alpha" = .none) &&
          decide ((i.q.get "symmetric").numVal = some 0)
      | .error _ => false) = true := by decide +kernel
  split at h
  · rename_i i hi
    simp only [Bool.and_eq_true, decide_eq_true_eq] at h
    exact ⟨i, hi, (canon_of_constructI hi).2, h.1.1.1.1, h.1.1.1.2, h.1.1.2, h.1.2, h.2⟩
  · cases h

end QKV.Props.C09
