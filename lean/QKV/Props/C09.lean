/-
  C09 — quantizer configuration round-trip reproduces the same quantization function.

  Property (verbatim, properties.jsonl): For every registered quantizer and every combination
  of its constructor options, rebuilding it from its own configuration - directly, through the
  generic quantizer lookup given the serialized dictionary, or through the framework's
  serialize/deserialize pair - succeeds and yields a quantizer that returns the same outputs
  (and the same scale) on every input as the original.  Every quantizer name in the public
  registry resolves to the class of that name.

  History.  The tree this check was first built on violated the first sentence: 20 (class,
  option) pairs were not emitted by `get_config` and `quantized_hswish` could not be rebuilt at
  all.  The fix round repaired every one of them in the library (notes/C09.md, "Fix round");
  the model below mirrors the repaired `get_config`s and the former `_counterexample` theorems
  are now regression witnesses (`C09_*_fixed_witness`) evaluated at the old failing inputs.

  What is proved now, for ALL instances of ALL 14 classes (`quantized_hswish` included):
    * `C09_rebuild_succeeds`  — every route rebuilds every constructed quantizer (no exception);
    * `C09_roundtrip_fields`  — the rebuilt instance holds the original value under every key;
    * `C09_same_function`     — the rebuilt instance has the same class and the same value of
      every constructor option except possibly `var_name` / `use_variables`; hence every function
      of the instance that does not read those two build-only options (outputs, scale,
      gradients) coincides.  This is unconditional.
    * `C09_same_instance_partial` — the rebuilt instance is EQUAL to the original exactly when
      `var_name` / `use_variables` are at their defaults (`C09_serializable_necessary`).
      `_partial` because those two options are still not serialised: `var_name` only names the
      `tf.Variable`s a quantizer creates and `use_variables` only decides whether its state is
      held in variables; neither changes an output (assumption, exercised by the tie) and
      neither was part of the recorded findings.  For the 8 classes without these options the
      equality is unconditional (`C09_same_instance`).
    * `C09_dropped_fields_*`  — the complete list of options `get_config` does not emit.

  "Same function": an instance is the class plus the stored value of every constructor
  argument; `__call__` itself is not modelled (it is C01–C08), so sameness is proved for every
  function `apply` of the instance (`IgnoresBuildOnly apply` for the unconditional statement).

  This file holds ONLY property theorems and non-vacuity examples.
  Model: QKV.Model.PyVal / QKV.Model.Config.
-/
import QKV.Lemmas.Config
namespace QKV.Props.C09
open QKV.Py

/-- `q` was produced by the class constructor from some positional/keyword arguments -/
def Reachable (q : Q) : Prop := ∃ args kw, construct q.cls args kw = .ok q

/-- every constructor option that `get_config` does not emit holds its default value -/
def Serializable (q : Q) : Prop := ∀ k ∈ dropped q.cls, q.get k = defaultOf q.cls k

/-- the three rebuild routes of the property (Keras' `deserialize_keras_object` resolves the
    class name and calls `cls.from_config(config)`, which is what route 2 does as well) -/
def rebuildDirect (q : Q) : Except Err Q := fromConfig q.cls (getConfig q)
def rebuildViaGetQuantizer (q : Q) : Except Err Q := getQuantizerDict (serialize q)

/-! ## registry -/

/-- every registered name resolves to the class of that name -/
theorem C09_registry (n : String) (h : n ∈ registeredNames) : (lookup n).map Cls.name = some n := by
  simp only [registeredNames, List.mem_map] at h
  obtain ⟨c, _, rfl⟩ := h
  cases c <;> decide

theorem C09_registry_class (c : Cls) : lookup c.name = some c := by cases c <;> decide

/-- the registry has exactly the 14 names, without repetition -/
theorem C09_registry_names : registeredNames.length = 14 ∧ registeredNames.Nodup := by decide

/-- a name outside the registry does not resolve (KeyError / "unknown quantizer") -/
theorem C09_registry_unknown (n : String) (h : n ∉ registeredNames) : lookup n = none := by
  unfold lookup
  rw [List.find?_eq_none]
  intro c hc hn
  apply h
  have : c.name = n := by simpa using hn
  rw [← this]; exact List.mem_map_of_mem hc

/-! ## the dictionary route is `from_config` -/

theorem C09_serialize_dict (q : Q) : rebuildViaGetQuantizer q = rebuildDirect q := by
  unfold rebuildViaGetQuantizer rebuildDirect getQuantizerDict serialize
  simp only [C09_registry_class]

/-! ## what the round trip preserves, for every instance of every class -/

private theorem rebuilt_form {q q' : Q} (h : rebuildDirect q = .ok q') :
    q' = ⟨q.cls, normInit q.cls (forget q.cls q.env)⟩ := by
  unfold rebuildDirect at h
  rw [fromConfig_getConfig] at h
  exact (init_ok_inv h).2

private theorem norm_eq_self {c : Cls} (h1 : c ≠ .quantized_bits) (h2 : c ≠ .quantized_hswish)
    (e : Env) : normInit c e = e := by
  cases c <;> first | rfl | exact absurd rfl h1 | exact absurd rfl h2

/-- **Rebuilding succeeds.**  For every class (since the fix round also `quantized_hswish`)
    and every constructed instance, `cls.from_config(q.get_config())` and
    `get_quantizer({"class_name", "config"})` return a quantizer instead of raising: the emitted
    keys are constructor parameters and the constructor's argument checks read serialised
    options only. -/
theorem C09_rebuild_succeeds (q : Q) (hr : Reachable q) :
    ∃ q', rebuildDirect q = .ok q' ∧ rebuildViaGetQuantizer q = .ok q' := by
  obtain ⟨args, kw, hcon⟩ := hr
  obtain ⟨-, -, hfix⟩ := construct_fixed hcon
  have hchk : check q.cls q.env = none := (init_ok_inv hfix).1
  have h1 : rebuildDirect q = .ok ⟨q.cls, normInit q.cls (forget q.cls q.env)⟩ := by
    unfold rebuildDirect
    rw [fromConfig_getConfig]
    unfold init
    rw [check_forget, hchk]
  exact ⟨_, h1, (C09_serialize_dict q).trans h1⟩

/-- Round trip preserves every serialised field: the rebuilt quantizer is of the same class and
    stores, under every key `get_config` emitted, the value the original stored (this includes
    the `alpha` → `symmetric` normalisation of `quantized_bits` / `quantized_hswish`). -/
theorem C09_roundtrip_fields (q q' : Q) (hr : Reachable q) (h : rebuildDirect q = .ok q') :
    q'.cls = q.cls ∧ ∀ k ∈ serialised q.cls, q'.get k = q.get k := by
  have hq' := rebuilt_form h
  subst hq'
  refine ⟨rfl, fun k hk => ?_⟩
  have hkp := serialised_sub hk
  obtain ⟨args, kw, hcon⟩ := hr
  obtain ⟨-, hkeys, hfix⟩ := construct_fixed hcon
  show (normInit q.cls (forget q.cls q.env)).get k = q.env.get k
  -- the two classes whose constructor rewrites `symmetric` when `alpha` is a string
  have hsym : ∀ c : Cls, q.cls = c → (c = .quantized_bits ∨ c = .quantized_hswish) →
      (normInit c (forget c q.env)).get k = q.env.get k := by
    intro c hc hcase
    subst hc
    have hal : "alpha" ∈ paramNames q.cls ∧ "alpha" ∈ serialised q.cls ∧
        "symmetric" ∈ paramNames q.cls := by
      rcases hcase with h | h <;> rw [h] <;> decide
    have halpha : (forget q.cls q.env).get "alpha" = q.env.get "alpha" :=
      forget_get_serialised _ hal.1 hal.2.1
    have hnq : q.env = normInit q.cls q.env := congrArg Q.env (init_ok_inv hfix).2
    have hnorm : ∀ e : Env, normInit q.cls e =
        if (e.get "alpha").isStr then e.set "symmetric" (.bool true) else e := by
      intro e; rcases hcase with h | h <;> rw [h] <;> rfl
    rw [hnorm] at hnq ⊢
    rw [halpha]
    by_cases hs : (q.env.get "alpha").isStr = true
    · simp only [hs, if_true] at hnq ⊢
      by_cases hksym : k = "symmetric"
      · subst hksym
        rw [Env.get_set_self (by rw [forget_keys]; exact hal.2.2)]
        rw [hnq, Env.get_set_self (by rw [hkeys]; exact hal.2.2)]
      · rw [Env.get_set_ne hksym]
        exact forget_get_serialised _ hkp hk
    · simp only [hs]
      exact forget_get_serialised _ hkp hk
  by_cases hb : q.cls = .quantized_bits
  · exact hsym _ rfl (Or.inl hb)
  · by_cases hh : q.cls = .quantized_hswish
    · exact hsym _ rfl (Or.inr hh)
    · rw [norm_eq_self hb hh]
      exact forget_get_serialised _ hkp hk

/-- Every option `get_config` does not emit comes back as the constructor default, whatever
    value the original held (after the fix round these are `var_name` / `use_variables` only,
    see `C09_dropped_build_only`). -/
theorem C09_dropped_field_reset (q q' : Q) (h : rebuildDirect q = .ok q') :
    ∀ k ∈ dropped q.cls, q'.get k = defaultOf q.cls k := by
  have hq' := rebuilt_form h
  subst hq'
  intro k hk
  show (normInit q.cls (forget q.cls q.env)).get k = _
  have hne : k ≠ "symmetric" := by
    rintro rfl
    have h2 := (mem_dropped.1 hk).2
    have h1 := (mem_dropped.1 hk).1
    revert h1 h2
    cases q.cls <;> decide
  have hnorm : (normInit q.cls (forget q.cls q.env)).get k = (forget q.cls q.env).get k := by
    cases hc : q.cls <;> simp only [normInit] <;>
      first
        | rfl
        | (split
           · exact Env.get_set_ne hne _ _
           · rfl)
  rw [hnorm]
  exact forget_get_dropped _ hk

/-! ## the options that are still not serialised -/

/-- options that only concern how a quantizer creates its `tf.Variable`s -/
def buildOnly : List String := ["var_name", "use_variables"]

/-- the only constructor options `get_config` does not emit are `var_name` / `use_variables` -/
theorem C09_dropped_build_only (c : Cls) : ∀ k ∈ dropped c, k ∈ buildOnly := by
  cases c <;> decide

/-- the six classes that take `var_name` / `use_variables` drop exactly these two … -/
theorem C09_dropped_fields_variables (c : Cls)
    (h : c ∈ [Cls.quantized_linear, .quantized_bits, .quantized_relu, .quantized_po2,
              .quantized_relu_po2, .quantized_hswish]) :
    dropped c = ["var_name", "use_variables"] := by
  simp only [List.mem_cons, List.mem_nil_iff, or_false] at h
  rcases h with rfl | rfl | rfl | rfl | rfl | rfl <;> decide

/-- … and the other eight classes serialise every constructor argument -/
theorem C09_dropped_fields_none (c : Cls)
    (h : c ∈ [Cls.bernoulli, .ternary, .stochastic_ternary, .binary, .stochastic_binary,
              .quantized_ulaw, .quantized_tanh, .quantized_sigmoid]) : dropped c = [] := by
  simp only [List.mem_cons, List.mem_nil_iff, or_false] at h
  rcases h with rfl | rfl | rfl | rfl | rfl | rfl | rfl | rfl <;> decide

/-! ## same function -/

/-- `apply` (outputs, scale, gradient, … of a quantizer instance) does not read the two
    build-only options: instances of the same class that agree on every other stored option are
    mapped to the same value -/
def IgnoresBuildOnly {α : Type} (apply : Q → α) : Prop :=
  ∀ a b : Q, a.cls = b.cls → (∀ k, k ∉ buildOnly → a.get k = b.get k) → apply a = apply b

/-- **Same function.**  Every constructed quantizer of every class is rebuilt — directly, and
    through the dictionary route; the Keras pair resolves the class name and calls
    `from_config`, i.e. is the direct route — into an instance of the same class that stores the
    same value for EVERY constructor option other than `var_name` / `use_variables`; hence every
    function of the instance that ignores those two options is the same. -/
theorem C09_same_function (q : Q) (hr : Reachable q) :
    ∃ q', rebuildDirect q = .ok q' ∧ rebuildViaGetQuantizer q = .ok q' ∧ q'.cls = q.cls ∧
      (∀ k, k ∉ buildOnly → q'.get k = q.get k) ∧
      ∀ {α : Type} (apply : Q → α), IgnoresBuildOnly apply → apply q' = apply q := by
  obtain ⟨q', h1, h2⟩ := C09_rebuild_succeeds q hr
  obtain ⟨hcls, hser⟩ := C09_roundtrip_fields q q' hr h1
  have hkeys' : q'.env.keys = paramNames q.cls := by
    rw [rebuilt_form h1]
    show (normInit q.cls (forget q.cls q.env)).keys = _
    rw [norm_keys, forget_keys]
  have hkeys : q.env.keys = paramNames q.cls := by
    obtain ⟨args, kw, hcon⟩ := hr
    exact (construct_fixed hcon).2.1
  have hget : ∀ k, k ∉ buildOnly → q'.get k = q.get k := by
    intro k hk
    by_cases hp : k ∈ paramNames q.cls
    · by_cases hs : k ∈ serialised q.cls
      · exact hser k hs
      · exact absurd (C09_dropped_build_only q.cls k (mem_dropped.2 ⟨hp, hs⟩)) hk
    · -- not a constructor option of the class: absent on both sides
      have h0 : ∀ e : Env, e.keys = paramNames q.cls → e.get k = .none := by
        intro e he
        unfold Env.get
        rw [lookup_none_of_not_mem (by rw [← he] at hp; exact hp)]
        rfl
      show q'.env.get k = q.env.get k
      rw [h0 _ hkeys', h0 _ hkeys]
  exact ⟨q', h1, h2, hcls, hget, fun apply ha => ha q' q hcls hget⟩

/-- **Same instance (partial).**  A constructed quantizer whose `var_name` / `use_variables`
    are at their defaults is rebuilt — by all routes — as an instance EQUAL to the original;
    hence every function whatsoever of the instance is the same.  `_partial`: the hypothesis
    cannot be dropped because these two options are not serialised
    (`C09_serializable_necessary`, `C09_build_only_not_restored_witness`). -/
theorem C09_same_instance_partial (q : Q) (hr : Reachable q) (hs : Serializable q) :
    rebuildDirect q = .ok q ∧ rebuildViaGetQuantizer q = .ok q ∧
      ∀ {α : Type} (apply : Q → α) (q' : Q), rebuildDirect q = .ok q' → apply q' = apply q := by
  obtain ⟨args, kw, hcon⟩ := hr
  obtain ⟨-, hkeys, hfix⟩ := construct_fixed hcon
  have h1 : rebuildDirect q = .ok q := by
    unfold rebuildDirect
    rw [fromConfig_getConfig, forget_eq_self hkeys hs]
    exact hfix
  refine ⟨h1, (C09_serialize_dict q).trans h1, ?_⟩
  intro α apply q' h'
  rw [h1] at h'
  cases h'; rfl

/-- for the eight classes without `var_name` / `use_variables` the rebuilt instance is equal to
    the original unconditionally -/
theorem C09_same_instance (q : Q) (hr : Reachable q)
    (hc : q.cls ∈ [Cls.bernoulli, .ternary, .stochastic_ternary, .binary, .stochastic_binary,
                   .quantized_ulaw, .quantized_tanh, .quantized_sigmoid]) :
    rebuildDirect q = .ok q ∧ rebuildViaGetQuantizer q = .ok q := by
  have hs : Serializable q := by
    intro k hk
    rw [C09_dropped_fields_none q.cls hc] at hk
    cases hk
  exact ⟨(C09_same_instance_partial q hr hs).1, (C09_same_instance_partial q hr hs).2.1⟩

/-- `Serializable` is exactly what is needed for equality of instances: a rebuilt quantizer
    equal to the original forces every non-emitted option to be at its default. -/
theorem C09_serializable_necessary (q : Q) (h : rebuildDirect q = .ok q) : Serializable q :=
  fun k hk => C09_dropped_field_reset q q h k hk

/-! ## regression witnesses: the former counterexamples, evaluated at the old failing inputs -/

/-- constructing `cls(k = v, **extra)` and rebuilding it from its own config succeeds and gives
    back an instance equal to the original (in particular the same stored value for `k`) -/
def KeepsField (c : Cls) (k : String) (v : PyVal) (extra : Env := []) : Prop :=
  ∃ q, construct c [] ((k, v) :: extra) = .ok q ∧ q.get k = v ∧ rebuildDirect q = .ok q ∧
    rebuildViaGetQuantizer q = .ok q

private def keepsFieldB (c : Cls) (k : String) (v : PyVal) (extra : Env) : Bool :=
  match construct c [] ((k, v) :: extra) with
  | .ok q => decide (q.get k = v) && decide (fromConfig q.cls (getConfig q) = .ok q)
  | .error _ => false

private theorem keepsField_of_eval {c : Cls} {k : String} {v : PyVal} {extra : Env}
    (h : keepsFieldB c k v extra = true) : KeepsField c k v extra := by
  unfold keepsFieldB at h
  split at h
  · rename_i q hq
    simp only [Bool.and_eq_true, decide_eq_true_eq] at h
    exact ⟨q, hq, h.1, h.2, (C09_serialize_dict q).trans h.2⟩
  · cases h

theorem C09_dropped_field_fixed_witness_quantized_bits_scale_axis :
    KeepsField .quantized_bits "scale_axis" (.int 0) [("alpha", .str "auto")] :=
  keepsField_of_eval (by decide +kernel)
theorem C09_dropped_field_fixed_witness_quantized_bits_scale_axis_list :
    KeepsField .quantized_bits "scale_axis" (.list [.int 0, .int 1]) [("alpha", .str "auto")] :=
  keepsField_of_eval (by decide +kernel)
theorem C09_dropped_field_fixed_witness_quantized_bits_use_ste :
    KeepsField .quantized_bits "use_ste" (.bool false) := keepsField_of_eval (by decide +kernel)
theorem C09_dropped_field_fixed_witness_quantized_bits_elements_per_scale :
    KeepsField .quantized_bits "elements_per_scale" (.int 2)
      [("alpha", .str "auto_po2"), ("scale_axis", .int 1)] := keepsField_of_eval (by decide +kernel)
theorem C09_dropped_field_fixed_witness_quantized_bits_min_po2_exponent :
    KeepsField .quantized_bits "min_po2_exponent" (.int 1) [("alpha", .str "auto_po2")] :=
  keepsField_of_eval (by decide +kernel)
theorem C09_dropped_field_fixed_witness_quantized_bits_max_po2_exponent :
    KeepsField .quantized_bits "max_po2_exponent" (.int (-2)) [("alpha", .str "auto_po2")] :=
  keepsField_of_eval (by decide +kernel)
theorem C09_dropped_field_fixed_witness_quantized_linear_scale_axis :
    KeepsField .quantized_linear "scale_axis" (.int 0) [("alpha", .str "auto")] :=
  keepsField_of_eval (by decide +kernel)
theorem C09_dropped_field_fixed_witness_binary_scale_axis :
    KeepsField .binary "scale_axis" (.int 0) [("alpha", .str "auto")] :=
  keepsField_of_eval (by decide +kernel)
theorem C09_dropped_field_fixed_witness_binary_elements_per_scale :
    KeepsField .binary "elements_per_scale" (.list [.int 2, .int 3])
      [("alpha", .str "auto_po2"), ("scale_axis", .list [.int 0, .int 1])] :=
  keepsField_of_eval (by decide +kernel)
theorem C09_dropped_field_fixed_witness_binary_min_po2_exponent :
    KeepsField .binary "min_po2_exponent" (.int 1) [("alpha", .str "auto_po2")] :=
  keepsField_of_eval (by decide +kernel)
theorem C09_dropped_field_fixed_witness_binary_max_po2_exponent :
    KeepsField .binary "max_po2_exponent" (.int (-2)) [("alpha", .str "auto_po2")] :=
  keepsField_of_eval (by decide +kernel)
theorem C09_dropped_field_fixed_witness_quantized_relu_is_quantized_clip :
    KeepsField .quantized_relu "is_quantized_clip" (.bool false)
      [("relu_upper_bound", .float (3 / 2))] := keepsField_of_eval (by decide +kernel)
theorem C09_dropped_field_fixed_witness_quantized_relu_use_ste :
    KeepsField .quantized_relu "use_ste" (.bool false) := keepsField_of_eval (by decide +kernel)
theorem C09_dropped_field_fixed_witness_bernoulli_temperature :
    KeepsField .bernoulli "temperature" (.float 1) := keepsField_of_eval (by decide +kernel)
theorem C09_dropped_field_fixed_witness_bernoulli_use_real_sigmoid :
    KeepsField .bernoulli "use_real_sigmoid" (.bool false) := keepsField_of_eval (by decide +kernel)
theorem C09_dropped_field_fixed_witness_quantized_po2_use_ste :
    KeepsField .quantized_po2 "use_ste" (.bool false) := keepsField_of_eval (by decide +kernel)
theorem C09_dropped_field_fixed_witness_quantized_relu_po2_use_ste :
    KeepsField .quantized_relu_po2 "use_ste" (.bool false) := keepsField_of_eval (by decide +kernel)

/-- `quantized_hswish`: `from_config(get_config())` used to raise `TypeError` for EVERY instance
    (inherited `keep_negative` / `post_training_scale` keys); the default instance and
    `quantized_hswish(scale_axis=0, alpha="auto", relu_shift=2)` now rebuild as equal instances
    (`C09_rebuild_succeeds` / `C09_same_function` cover every instance) -/
theorem C09_hswish_from_config_fixed_witness :
    (∃ q, construct .quantized_hswish [] [] = .ok q ∧ rebuildDirect q = .ok q ∧
        rebuildViaGetQuantizer q = .ok q) ∧
      KeepsField .quantized_hswish "scale_axis" (.int 0)
        [("alpha", .str "auto"), ("relu_shift", .int 2)] := by
  refine ⟨?_, keepsField_of_eval (by decide +kernel)⟩
  have h : (match construct .quantized_hswish [] [] with
      | .ok q => decide (fromConfig q.cls (getConfig q) = .ok q)
      | .error _ => false) = true := by decide +kernel
  split at h
  · rename_i q hq
    have h' := of_decide_eq_true h
    exact ⟨q, hq, h', (C09_serialize_dict q).trans h'⟩
  · cases h

/-- what is still not restored, concretely: `quantized_bits(use_variables=True)` comes back with
    `use_variables=False` (the reason `C09_same_instance_partial` keeps its hypothesis) -/
theorem C09_build_only_not_restored_witness :
    ∃ q q', construct .quantized_bits [] [("use_variables", .bool true)] = .ok q ∧
      rebuildDirect q = .ok q' ∧ q'.get "use_variables" = .bool false ∧
      q.get "use_variables" = .bool true := by
  have h : (match construct .quantized_bits [] [("use_variables", .bool true)] with
      | .ok q => (match fromConfig q.cls (getConfig q) with
                  | .ok q' => decide (q'.get "use_variables" = .bool false) &&
                              decide (q.get "use_variables" = .bool true)
                  | .error _ => false)
      | .error _ => false) = true := by decide +kernel
  split at h
  · rename_i q hq
    split at h
    · rename_i q' hq'
      simp only [Bool.and_eq_true, decide_eq_true_eq] at h
      exact ⟨q, q', hq, hq', h.1, h.2⟩
    · cases h
  · cases h

/-! ## non-vacuity -/

private def roundTripsB (c : Cls) (args : List PyVal) (kw : Env) : Bool :=
  match construct c args kw with
  | .ok q => decide (∀ k ∈ dropped q.cls, q.get k = defaultOf q.cls k)
             && decide (fromConfig q.cls (getConfig q) = .ok q)
  | .error _ => false

private theorem hyps_of_eval {c : Cls} {args : List PyVal} {kw : Env}
    (h : roundTripsB c args kw = true) :
    ∃ q, Reachable q ∧ q.cls = c ∧ Serializable q ∧ rebuildDirect q = .ok q := by
  unfold roundTripsB at h
  split at h
  · rename_i q hq
    simp only [Bool.and_eq_true, decide_eq_true_eq] at h
    have hc : q.cls = c := (construct_fixed hq).1
    exact ⟨q, ⟨args, kw, hc ▸ hq⟩, hc, h.1, h.2⟩
  · cases h

/-- `quantized_bits(4, 1, alpha="auto")` satisfies every hypothesis of
    `C09_same_instance_partial` (and is non-trivial: `symmetric` was normalised to True) -/
example : ∃ q, Reachable q ∧ q.cls = .quantized_bits ∧ Serializable q ∧ rebuildDirect q = .ok q :=
  hyps_of_eval (c := .quantized_bits) (args := [.int 4, .int 1]) (kw := [("alpha", .str "auto")])
    (by decide +kernel)

/-- the default instance of every class (hswish included) satisfies all hypotheses -/
example (c : Cls) : ∃ q, Reachable q ∧ q.cls = c ∧ Serializable q ∧ rebuildDirect q = .ok q := by
  have h : roundTripsB c [] [] = true := by cases c <;> decide +kernel
  exact hyps_of_eval h

/-- `IgnoresBuildOnly` is satisfiable by functions that do read options: e.g. the pair
    (class, `scale_axis`) — and fails for a function that reads `use_variables` -/
example : IgnoresBuildOnly (fun q : Q => (q.cls, q.get "scale_axis")) := by
  intro a b hc h
  simp only [hc, h "scale_axis" (by decide)]

end QKV.Props.C09
