/-
  C09 — quantizer configuration round-trip reproduces the same quantization function.

  Property (verbatim, properties.jsonl): For every registered quantizer and every combination
  of its constructor options, rebuilding it from its own configuration - directly, through the
  generic quantizer lookup given the serialized dictionary, or through the framework's
  serialize/deserialize pair - succeeds and yields a quantizer that returns the same outputs
  (and the same scale) on every input as the original.  Every quantizer name in the public
  registry resolves to the class of that name.

  The unchanged code violates the first sentence: 20 (class, option) pairs are not emitted by
  `get_config` and `quantized_hswish` cannot be rebuilt at all.  What holds is proved as
  `C09_same_function_partial` (hypothesis `Serializable`: every option that `get_config` forgets
  is at its default); the complement is explicit — `C09_dropped_fields_*` lists exactly which
  options are forgotten, `C09_dropped_field_reset` shows every forgotten option comes back as
  its default for EVERY instance, and `C09_dropped_field_counterexample_*` /
  `C09_hswish_from_config_error` are the witnesses replayed on the real code.

  "Same function": an instance is the class plus the stored value of every constructor
  argument; the rebuilt instance is shown EQUAL to the original, so any function of the
  instance (outputs, scale, gradients) coincides (`C09_same_function_partial`, last conjunct).

  This file holds ONLY property theorems and non-vacuity examples.
  Model: QKV.Model.PyVal / QKV.Model.Config.
-/
import QKV.Lemmas.Config
namespace QKV.Props.C09
open QKV.Py

/-- `q` was produced by the class constructor from some positional/keyword arguments -/
def Reachable (q : Q) : Prop := ∃ args kw, construct q.cls args kw = .ok q

/-- every constructor option that `get_config` does not emit holds its default value -/
def Serializable (q : Q) : Prop := ∀ k ∈ dropped q.cls, q.get k = defaultOf q.cls k

/-- the three rebuild routes of the property (Keras' `deserialize_keras_object` resolves the
    class name and calls `cls.from_config(config)`, which is what route 2 does as well) -/
def rebuildDirect (q : Q) : Except Err Q := fromConfig q.cls (getConfig q)
def rebuildViaGetQuantizer (q : Q) : Except Err Q := getQuantizerDict (serialize q)

/-! ## registry -/

/-- every registered name resolves to the class of that name -/
theorem C09_registry (n : String) (h : n ∈ registeredNames) : (lookup n).map Cls.name = some n := by
  simp only [registeredNames, List.mem_map] at h
  obtain ⟨c, _, rfl⟩ := h
  cases c <;> decide

theorem C09_registry_class (c : Cls) : lookup c.name = some c := by cases c <;> decide

/-- the registry has exactly the 14 names, without repetition -/
theorem C09_registry_names : registeredNames.length = 14 ∧ registeredNames.Nodup := by decide

/-- a name outside the registry does not resolve (KeyError / "unknown quantizer") -/
theorem C09_registry_unknown (n : String) (h : n ∉ registeredNames) : lookup n = none := by
  unfold lookup
  rw [List.find?_eq_none]
  intro c hc hn
  apply h
  have : c.name = n := by simpa using hn
  rw [← this]; exact List.mem_map_of_mem hc

/-! ## the dictionary route is `from_config` -/

theorem C09_serialize_dict (q : Q) : rebuildViaGetQuantizer q = rebuildDirect q := by
  unfold rebuildViaGetQuantizer rebuildDirect getQuantizerDict serialize
  simp only [C09_registry_class]

/-! ## what the round trip preserves, for every instance of every class -/

private theorem rebuilt_form {q q' : Q} (h : rebuildDirect q = .ok q') :
    q.cls ≠ .quantized_hswish ∧ q' = ⟨q.cls, normInit q.cls (forget q.cls q.env)⟩ := by
  unfold rebuildDirect at h
  rw [fromConfig_getConfig] at h
  cases hc : cfgClosed q.cls
  · rw [hc] at h; cases h
  · rw [hc] at h
    exact ⟨(cfgClosed_iff _).1 hc, (init_ok_inv h).2⟩

private theorem serialised_sub {c : Cls} (hc : c ≠ .quantized_hswish) {k : String}
    (h : k ∈ serialised c) : k ∈ paramNames c := by
  have := (cfgClosed_iff c).2 hc
  simp only [cfgClosed, List.all_eq_true] at this
  simpa using this k h

private theorem norm_eq_self {c : Cls} (h1 : c ≠ .quantized_bits) (h2 : c ≠ .quantized_hswish)
    (e : Env) : normInit c e = e := by
  cases c <;> first | rfl | exact absurd rfl h1 | exact absurd rfl h2

private theorem forget_keys (c : Cls) (e : Env) : (forget c e).keys = paramNames c := by
  simp [forget, Env.keys, paramNames, List.map_map, Function.comp_def]

/-- Round trip preserves every serialised field: if rebuilding succeeds, the rebuilt
    quantizer is of the same class and stores, under every key `get_config` emitted, the
    value the original stored. -/
theorem C09_roundtrip_fields (q q' : Q) (hr : Reachable q) (h : rebuildDirect q = .ok q') :
    q'.cls = q.cls ∧ ∀ k ∈ serialised q.cls, q'.get k = q.get k := by
  obtain ⟨hc, rfl⟩ := rebuilt_form h
  refine ⟨rfl, fun k hk => ?_⟩
  have hkp := serialised_sub hc hk
  obtain ⟨args, kw, hcon⟩ := hr
  obtain ⟨-, hkeys, hfix⟩ := construct_fixed hcon
  show (normInit q.cls (forget q.cls q.env)).get k = q.env.get k
  by_cases hb : q.cls = .quantized_bits
  · have halpha : (forget q.cls q.env).get "alpha" = q.env.get "alpha" :=
      forget_get_serialised hc _ (by rw [hb]; decide) (by rw [hb]; decide)
    have hnq : q.env = normInit q.cls q.env := by
      have := (init_ok_inv hfix).2
      exact congrArg Q.env this
    rw [hb] at hnq ⊢
    simp only [normInit] at hnq ⊢
    rw [hb] at halpha hkeys hkp hk
    rw [halpha]
    by_cases hs : (q.env.get "alpha").isStr = true
    · simp only [hs, if_true] at hnq ⊢
      by_cases hksym : k = "symmetric"
      · subst hksym
        rw [Env.get_set_self (by rw [forget_keys]; decide)]
        rw [hnq, Env.get_set_self (by rw [hkeys]; decide)]
      · rw [Env.get_set_ne hksym]
        exact hb ▸ forget_get_serialised hc _ (hb ▸ hkp) (hb ▸ hk)
    · simp only [hs]
      exact hb ▸ forget_get_serialised hc _ (hb ▸ hkp) (hb ▸ hk)
  · rw [norm_eq_self hb hc]
    exact forget_get_serialised hc _ hkp hk

/-- Every option `get_config` forgets comes back as the constructor default, whatever value
    the original held: this is the exact statement of the defect for all instances. -/
theorem C09_dropped_field_reset (q q' : Q) (h : rebuildDirect q = .ok q') :
    ∀ k ∈ dropped q.cls, q'.get k = defaultOf q.cls k := by
  obtain ⟨hc, rfl⟩ := rebuilt_form h
  intro k hk
  show (normInit q.cls (forget q.cls q.env)).get k = _
  by_cases hb : q.cls = .quantized_bits
  · have hne : k ≠ "symmetric" := by
      rintro rfl
      have := (mem_dropped.1 hk).2
      rw [hb] at this; exact this (by decide)
    rw [hb]
    simp only [normInit]
    split
    · rw [Env.get_set_ne hne]; exact hb ▸ forget_get_dropped _ hk
    · exact hb ▸ forget_get_dropped _ hk
  · rw [norm_eq_self hb hc]; exact forget_get_dropped _ hk

/-- **Same function (partial).**  For every class except `quantized_hswish`, a constructed
    quantizer all of whose forgotten options are at their defaults is rebuilt — by all three
    routes — as an instance with identical class and identical stored arguments; hence every
    function of the instance (outputs, scale) is the same. -/
theorem C09_same_function_partial (q : Q) (hr : Reachable q) (hc : q.cls ≠ .quantized_hswish)
    (hs : Serializable q) :
    rebuildDirect q = .ok q ∧ rebuildViaGetQuantizer q = .ok q ∧
      ∀ {α : Type} (apply : Q → α) (q' : Q), rebuildDirect q = .ok q' → apply q' = apply q := by
  obtain ⟨args, kw, hcon⟩ := hr
  obtain ⟨-, hkeys, hfix⟩ := construct_fixed hcon
  have h1 : rebuildDirect q = .ok q := by
    unfold rebuildDirect
    rw [fromConfig_getConfig, (cfgClosed_iff _).2 hc, if_pos rfl, forget_eq_self hc hkeys hs]
    exact hfix
  refine ⟨h1, (C09_serialize_dict q).trans h1, ?_⟩
  intro α apply q' h'
  rw [h1] at h'
  cases h'; rfl

/-- `Serializable` is exactly what is needed: a rebuilt quantizer equal to the original
    forces every forgotten option to be at its default. -/
theorem C09_serializable_necessary (q : Q) (h : rebuildDirect q = .ok q) : Serializable q :=
  fun k hk => C09_dropped_field_reset q q h k hk

/-- `quantized_hswish.from_config(q.get_config())` raises `TypeError` for EVERY instance:
    the inherited `get_config` emits `keep_negative` and `post_training_scale`, which
    `quantized_hswish.__init__` does not accept. -/
theorem C09_hswish_from_config_error (q : Q) (h : q.cls = .quantized_hswish) :
    rebuildDirect q = .error .typeError ∧ rebuildViaGetQuantizer q = .error .typeError := by
  have h1 : rebuildDirect q = .error .typeError := by
    unfold rebuildDirect
    rw [fromConfig_getConfig, h]; rfl
  exact ⟨h1, (C09_serialize_dict q).trans h1⟩

/-! ## the forgotten options, class by class (complete list; anything else is serialised) -/

theorem C09_dropped_fields_quantized_linear :
    dropped .quantized_linear = ["scale_axis", "var_name", "use_variables"] := by decide
theorem C09_dropped_fields_quantized_bits :
    dropped .quantized_bits = ["scale_axis", "var_name", "use_ste", "use_variables",
      "elements_per_scale", "min_po2_exponent", "max_po2_exponent"] := by decide
theorem C09_dropped_fields_bernoulli :
    dropped .bernoulli = ["temperature", "use_real_sigmoid"] := by decide
theorem C09_dropped_fields_binary :
    dropped .binary = ["scale_axis", "elements_per_scale", "min_po2_exponent",
      "max_po2_exponent"] := by decide
theorem C09_dropped_fields_quantized_relu :
    dropped .quantized_relu = ["is_quantized_clip", "var_name", "use_ste", "use_variables"] := by
  decide
theorem C09_dropped_fields_quantized_po2 :
    dropped .quantized_po2 = ["var_name", "use_ste", "use_variables"] := by decide
theorem C09_dropped_fields_quantized_relu_po2 :
    dropped .quantized_relu_po2 = ["var_name", "use_ste", "use_variables"] := by decide
theorem C09_dropped_fields_quantized_hswish :
    dropped .quantized_hswish = ["scale_axis", "var_name", "use_variables"] := by decide
/-- the other six classes serialise every constructor argument -/
theorem C09_dropped_fields_none (c : Cls)
    (h : c ∈ [Cls.ternary, .stochastic_ternary, .stochastic_binary, .quantized_ulaw,
              .quantized_tanh, .quantized_sigmoid]) : dropped c = [] := by
  simp only [List.mem_cons, List.mem_nil_iff, or_false] at h
  rcases h with rfl | rfl | rfl | rfl | rfl | rfl <;> decide

/-! ## counterexamples: one witness per (class, forgotten option that `__call__` reads) -/

/-- constructing `cls(k = v)` and rebuilding it from its own config succeeds but yields a
    different stored value for `k` -/
def DropsField (c : Cls) (k : String) (v : PyVal) (extra : Env := []) : Prop :=
  ∃ q q', construct c [] ((k, v) :: extra) = .ok q ∧ rebuildDirect q = .ok q' ∧ q'.get k ≠ q.get k

private def dropsFieldB (c : Cls) (k : String) (v : PyVal) (extra : Env) : Bool :=
  match construct c [] ((k, v) :: extra) with
  | .ok q => (match fromConfig q.cls (getConfig q) with
              | .ok q' => q'.get k != q.get k
              | .error _ => false)
  | .error _ => false

private theorem dropsField_of_eval {c : Cls} {k : String} {v : PyVal} {extra : Env}
    (h : dropsFieldB c k v extra = true) : DropsField c k v extra := by
  unfold dropsFieldB at h
  split at h
  · rename_i q hq
    split at h
    · rename_i q' hq'
      exact ⟨q, q', hq, hq', by simpa using h⟩
    · cases h
  · cases h

theorem C09_dropped_field_counterexample_quantized_bits_scale_axis :
    DropsField .quantized_bits "scale_axis" (.int 0) [("alpha", .str "auto")] :=
  dropsField_of_eval (by decide +kernel)
theorem C09_dropped_field_counterexample_quantized_bits_use_ste :
    DropsField .quantized_bits "use_ste" (.bool false) := dropsField_of_eval (by decide +kernel)
theorem C09_dropped_field_counterexample_quantized_bits_elements_per_scale :
    DropsField .quantized_bits "elements_per_scale" (.int 2)
      [("alpha", .str "auto_po2"), ("scale_axis", .int 1)] := dropsField_of_eval (by decide +kernel)
theorem C09_dropped_field_counterexample_quantized_bits_min_po2_exponent :
    DropsField .quantized_bits "min_po2_exponent" (.int 1) [("alpha", .str "auto_po2")] :=
  dropsField_of_eval (by decide +kernel)
theorem C09_dropped_field_counterexample_quantized_bits_max_po2_exponent :
    DropsField .quantized_bits "max_po2_exponent" (.int (-2)) [("alpha", .str "auto_po2")] :=
  dropsField_of_eval (by decide +kernel)
theorem C09_dropped_field_counterexample_quantized_linear_scale_axis :
    DropsField .quantized_linear "scale_axis" (.int 0) [("alpha", .str "auto")] :=
  dropsField_of_eval (by decide +kernel)
theorem C09_dropped_field_counterexample_binary_scale_axis :
    DropsField .binary "scale_axis" (.int 0) [("alpha", .str "auto")] :=
  dropsField_of_eval (by decide +kernel)
theorem C09_dropped_field_counterexample_binary_elements_per_scale :
    DropsField .binary "elements_per_scale" (.int 2)
      [("alpha", .str "auto_po2"), ("scale_axis", .int 1)] := dropsField_of_eval (by decide +kernel)
theorem C09_dropped_field_counterexample_binary_min_po2_exponent :
    DropsField .binary "min_po2_exponent" (.int 1) [("alpha", .str "auto_po2")] :=
  dropsField_of_eval (by decide +kernel)
theorem C09_dropped_field_counterexample_binary_max_po2_exponent :
    DropsField .binary "max_po2_exponent" (.int (-2)) [("alpha", .str "auto_po2")] :=
  dropsField_of_eval (by decide +kernel)
theorem C09_dropped_field_counterexample_quantized_relu_is_quantized_clip :
    DropsField .quantized_relu "is_quantized_clip" (.bool false)
      [("relu_upper_bound", .float (3 / 2))] := dropsField_of_eval (by decide +kernel)
theorem C09_dropped_field_counterexample_quantized_relu_use_ste :
    DropsField .quantized_relu "use_ste" (.bool false) := dropsField_of_eval (by decide +kernel)
theorem C09_dropped_field_counterexample_bernoulli_temperature :
    DropsField .bernoulli "temperature" (.float 1) := dropsField_of_eval (by decide +kernel)
theorem C09_dropped_field_counterexample_bernoulli_use_real_sigmoid :
    DropsField .bernoulli "use_real_sigmoid" (.bool false) := dropsField_of_eval (by decide +kernel)
theorem C09_dropped_field_counterexample_quantized_po2_use_ste :
    DropsField .quantized_po2 "use_ste" (.bool false) := dropsField_of_eval (by decide +kernel)
theorem C09_dropped_field_counterexample_quantized_relu_po2_use_ste :
    DropsField .quantized_relu_po2 "use_ste" (.bool false) := dropsField_of_eval (by decide +kernel)

/-! ## non-vacuity -/

private def roundTripsB (c : Cls) (args : List PyVal) (kw : Env) : Bool :=
  match construct c args kw with
  | .ok q => decide (q.cls ≠ .quantized_hswish) && decide (∀ k ∈ dropped q.cls, q.get k = defaultOf q.cls k)
             && decide (fromConfig q.cls (getConfig q) = .ok q)
  | .error _ => false

private theorem hyps_of_eval {c : Cls} {args : List PyVal} {kw : Env}
    (h : roundTripsB c args kw = true) :
    ∃ q, Reachable q ∧ q.cls ≠ .quantized_hswish ∧ Serializable q ∧ rebuildDirect q = .ok q := by
  unfold roundTripsB at h
  split at h
  · rename_i q hq
    simp only [Bool.and_eq_true, decide_eq_true_eq] at h
    have hc : q.cls = c := (construct_fixed hq).1
    exact ⟨q, ⟨args, kw, hc ▸ hq⟩, h.1.1, h.1.2, h.2⟩
  · cases h

/-- `quantized_bits(4, 1, alpha="auto")` satisfies every hypothesis of
    `C09_same_function_partial` (and is non-trivial: `symmetric` was normalised to True) -/
example : ∃ q, Reachable q ∧ q.cls ≠ .quantized_hswish ∧ Serializable q ∧ rebuildDirect q = .ok q :=
  hyps_of_eval (c := .quantized_bits) (args := [.int 4, .int 1]) (kw := [("alpha", .str "auto")])
    (by decide +kernel)

/-- the default instance of every class but hswish satisfies all hypotheses -/
example (c : Cls) (hc : c ≠ .quantized_hswish) :
    ∃ q, Reachable q ∧ q.cls ≠ .quantized_hswish ∧ Serializable q ∧ rebuildDirect q = .ok q := by
  have h : roundTripsB c [] [] = true := by
    cases c <;> first
      | exact absurd rfl hc
      | decide +kernel
  exact hyps_of_eval h

/-- a `quantized_hswish` instance exists, so `C09_hswish_from_config_error` is not vacuous -/
example : ∃ q, Reachable q ∧ q.cls = .quantized_hswish := by
  have h : ∃ q, construct .quantized_hswish [] [] = .ok q :=
    ⟨_, show construct .quantized_hswish [] [] = .ok ⟨.quantized_hswish, _⟩ from rfl⟩
  obtain ⟨q, hq⟩ := h
  have hc := (construct_fixed hq).1
  exact ⟨q, ⟨[], [], hc ▸ hq⟩, hc⟩

end QKV.Props.C09
