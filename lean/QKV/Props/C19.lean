/-
  C19 — qtools operation counts are the true MAC counts and energy totals add up.

  Property (verbatim, properties.jsonl): The operation count reported for each dense,
  convolution, depthwise, pooling and merge layer equals the number of scalar
  multiply(-accumulate) operations the layer performs for one input sample, for every geometry
  (kernel, stride, padding, dilation, channels).  The energy report is non-negative, each layer's
  entries are the documented functions of the reported types, counts and tensor sizes, the total
  is the sum of all layer entries, and the energy sum extracted for a cost setting equals the sum
  of the selected entries.

  This file holds ONLY property theorems and non-vacuity examples.
  Model: QKV.Model.OpCount (get_operation_count, estimate.number_of_operations, the loop-nest
  specification), QKV.Model.Energy (qenergy.py, extract_energy_sum/profile).
  All sizes are unbounded naturals; the cost polynomials are arbitrary functions.

  Repaired in /repo (model follows the repaired code; the former `_partial`/`_counterexample`
  pairs are now full theorems with `C19_regress_*` witnesses of the once-failing inputs):
    * fix 86c5631 : AveragePooling2D output positions, grouped Conv2D/Conv1D, depth_multiplier
    * fix 2562e1d : pe() on (Global)AveragePooling2D reads `pool_sum_accumulator`
    * fix 89f0481 : estimate.py grouped QConv2D/QConv1D (was over-counted by `groups`)
    * fix e54ac88 : estimate.py QDepthwiseConv2D depth_multiplier
    * fix 2d53185 : get_operation_count knows QAveragePooling2D (reported 0)
    * fix 174b8b4 : Dense(1) on (C, 1) — both files read the feature axis, not `np.max`
  Where the code still violates the property the provable relation is kept as `_partial` and the
  violation is a `_counterexample` (reproduced on the real code by the harness) — both concern the
  separable convolutions:
    * QSeparableConv1D/2D are in no branch of get_operation_count and report 0 — qtools does not
      support these layers at all (generate_layer_data_type_map: "QTools cannot parse …")
    * estimate.py counts their 1×1 stage as positions × filters, without the input channels; the
      repository's own test (tests/qconvolutional_test.py::test_qconv1d[QSeparableConv1D], == 30)
      pins that number, so the repair needs the maintainers' decision
-/
import QKV.Lemmas.OpCount
import QKV.Lemmas.Energy
namespace QKV.Props.C19
open QKV QKV.C19

/-! ## the index model: number of output positions (all kernel / stride / dilation / padding) -/

/-- The sliding-window index set has exactly `conv_output_length` elements — the output
    length Keras reports is the number of output positions the loop nest ranges over. -/
theorem C19_positions_card (p : Padding) (n k s d : ℕ) (hs : 1 ≤ s) (hk : 1 ≤ k) (hd : 1 ≤ d) :
    (positions p n k s d).length = convOutLen p n k s d :=
  positions_length p n k s d hs hk hd

/-- membership: a `valid` output position is one whose last tap is inside the input -/
theorem C19_positions_valid_mem (n k s d o : ℕ) :
    o ∈ positions .valid n k s d ↔ o < n ∧ o * s + (k - 1) * d < n := by
  simp [positions]

theorem C19_positions_same_mem (n k s d o : ℕ) :
    o ∈ positions .same n k s d ↔ o < n ∧ o * s < n := by
  simp [positions]

/-! ## counts that ARE the loop-nest cardinality -/

/-- Conv2D / QConv2D, ANY number of groups: every kernel, stride, dilation, padding, channel
    count.  The kernel Keras builds has `ci / groups` input channels per output channel and the
    loop nest ranges over exactly those.  (`groups = 1` is the ordinary convolution.) -/
theorem C19_count_conv2d (name : String) (hn : classify name = .conv2d) (p : Padding)
    (h w kh kw sh sw dh dw ci co g : ℕ)
    (hsh : 1 ≤ sh) (hsw : 1 ≤ sw) (hkh : 1 ≤ kh) (hkw : 1 ≤ kw) (hdh : 1 ≤ dh) (hdw : 1 ≤ dw) :
    opCount name (conv2dInfo p h w kh kw sh sw dh dw ci co g)
      = some (macConv2d p h w kh kw sh sw dh dw (ci / g) co) := by
  simp only [opCount, hn, opCountB, conv2dInfo, macConv2d, conv2dNest_length,
    positions_length _ _ _ _ _ hsh hkh hdh, positions_length _ _ _ _ _ hsw hkw hdw]

example : classify "QConv2D" = .conv2d := by decide
example : classify "Conv2D" = .conv2d := by decide
example : classify "QConv2DBatchnorm" = .conv2d := by decide

/-- regression witness of fix 86c5631: QConv2D(6, 3, groups=2) on 8×8×4 performs 3888 MACs
    (the unrepaired code reported 7776). -/
theorem C19_regress_grouped_conv2d :
    opCount "QConv2D" (conv2dInfo .valid 8 8 3 3 1 1 1 1 4 6 2) = some 3888 ∧
    macConv2d .valid 8 8 3 3 1 1 1 1 (4 / 2) 6 = 3888 := by
  constructor
  · decide
  · simp only [macConv2d, conv2dNest_length]; decide

/-- Conv1D / QConv1D, any number of groups (valid, same and causal padding). -/
theorem C19_count_conv1d (name : String) (hn : classify name = .conv1d) (p : Padding)
    (n k s d ci co g : ℕ) (hs : 1 ≤ s) (hk : 1 ≤ k) (hd : 1 ≤ d) :
    opCount name (conv1dInfo p n k s d ci co g) = some (macConv1d p n k s d (ci / g) co) := by
  simp only [opCount, hn, opCountB, conv1dInfo, macConv1d, conv1dNest_length,
    positions_length _ _ _ _ _ hs hk hd]

example : classify "QConv1D" = .conv1d := by decide
example : classify "Conv1D" = .conv1d := by decide

/-- regression witness of fix 86c5631: Conv1D(6, 2, groups=2) on 6×2 (5 positions) performs 60. -/
theorem C19_regress_grouped_conv1d :
    opCount "Conv1D" (conv1dInfo .valid 6 2 1 1 2 6 2) = some 60 ∧
    macConv1d .valid 6 2 1 1 (2 / 2) 6 = 60 := by
  constructor
  · decide
  · simp only [macConv1d, conv1dNest_length]; decide

/-- DepthwiseConv2D / QDepthwiseConv2D with ANY depth multiplier. -/
theorem C19_count_depthwise (name : String) (hn : classify name = .depthwise) (p : Padding)
    (h w kh kw sh sw dh dw ci dm : ℕ)
    (hsh : 1 ≤ sh) (hsw : 1 ≤ sw) (hkh : 1 ≤ kh) (hkw : 1 ≤ kw) (hdh : 1 ≤ dh) (hdw : 1 ≤ dw) :
    opCount name (depthwiseInfo p h w kh kw sh sw dh dw ci dm)
      = some (macDepthwise p h w kh kw sh sw dh dw ci dm) := by
  simp only [opCount, hn, opCountB, depthwiseInfo, macDepthwise, depthwiseNest_length,
    positions_length _ _ _ _ _ hsh hkh hdh, positions_length _ _ _ _ _ hsw hkw hdw]
  congr 1; ring

example : classify "QDepthwiseConv2D" = .depthwise := by decide
example : classify "DepthwiseConv2D" = .depthwise := by decide

/-- regression witness of fix 86c5631: DepthwiseConv2D(3, depth_multiplier=2) on 8×8×4 performs
    2592 (the unrepaired code reported 1296). -/
theorem C19_regress_depthwise_multiplier :
    opCount "DepthwiseConv2D" (depthwiseInfo .valid 8 8 3 3 1 1 1 1 4 2) = some 2592 ∧
    macDepthwise .valid 8 8 3 3 1 1 1 1 4 2 = 2592 := by
  constructor
  · decide
  · simp only [macDepthwise, depthwiseNest_length]; decide

/-- AveragePooling2D: every pool size, stride, padding and channel count — one accumulate per
    (output position, channel, window tap). -/
theorem C19_count_avg_pool (name : String) (hn : classify name = .avgPool) (p : Padding)
    (h w ph pw sh sw c : ℕ) (hsh : 1 ≤ sh) (hsw : 1 ≤ sw) (hph : 1 ≤ ph) (hpw : 1 ≤ pw) :
    opCount name (avgPoolInfo p h w ph pw sh sw c) = some (macAvgPool p h w ph pw sh sw c) := by
  simp only [opCount, hn, opCountB, avgPoolInfo, macAvgPool, poolNest_length,
    positions_length _ _ _ _ _ hsh hph le_rfl, positions_length _ _ _ _ _ hsw hpw le_rfl]
  simp [prodL]; ring

example : classify "AveragePooling2D" = .avgPool := by decide
example : classify "AvgPool2D" = .avgPool := by decide
example : classify "QAveragePooling2D" = .avgPool := by decide

/-- regression witness of fix 2d53185: QAveragePooling2D(2) on 8×8×3 performs 192 accumulates
    (the class was in no branch and reported 0). -/
theorem C19_regress_qavg_pool :
    opCount "QAveragePooling2D" (avgPoolInfo .valid 8 8 2 2 2 2 3) = some 192 ∧
    macAvgPool .valid 8 8 2 2 2 2 3 = 192 := by
  constructor
  · decide
  · simp only [macAvgPool, poolNest_length]; decide

/-- regression witness of fix 86c5631: AveragePooling2D(2) on 8×8×4 performs 256 accumulates
    (the unrepaired code reported 16). -/
theorem C19_regress_avg_pool :
    opCount "AveragePooling2D" (avgPoolInfo .valid 8 8 2 2 2 2 4) = some 256 ∧
    macAvgPool .valid 8 8 2 2 2 2 4 = 256 := by
  constructor
  · decide
  · simp only [macAvgPool, poolNest_length]; decide

/-- Dense / QDense on `(batch, d_1, …, d_k, n_in)`, ANY leading axes: whenever the shapes pass
    the two assertions of the code (at most one dimension > 1 in the input and in the output
    shape), the count is the loop nest {(position of the leading axes, output unit, input
    feature)}. -/
theorem C19_count_dense (name : String) (hn : classify name = .dense) (lead : List ℕ)
    (nIn units : ℕ) (hi : atMostOneBig (lead ++ [nIn]) = true)
    (ho : atMostOneBig (lead ++ [units]) = true) :
    opCount name (denseInfo lead nIn units) = some (macDenseAt lead nIn units) := by
  simp only [opCount, hn, opCountB, denseInfo, hi, ho, denseCount_append, macDenseAt,
    denseNestAt_length, Bool.and_self, if_true]
  congr 1; ring

/-- … and a shape with two dimensions > 1 is refused (the `assert` of the code), never
    mis-counted. -/
theorem C19_count_dense_rejects (name : String) (hn : classify name = .dense) (L : LayerInfo)
    (h : atMostOneBig L.inShape = false ∨ atMostOneBig L.outShape = false) :
    opCount name L = none := by
  rcases h with h | h <;> simp [opCount, hn, opCountB, h]

/-- the documented uses: `(batch, n_in)` and the squeeze-and-excite `(batch, 1, …, 1, n_in)` pass
    the assertions for every size and give the plain `units × n_in` nest. -/
theorem C19_count_dense_vector (name : String) (hn : classify name = .dense) (k nIn units : ℕ) :
    opCount name (denseInfo (List.replicate k 1) nIn units) = some (macDense nIn units) := by
  rw [C19_count_dense name hn _ _ _ (atMostOneBig_ones_append k nIn)
    (atMostOneBig_ones_append k units)]
  simp [macDenseAt, macDense, denseNestAt_length, denseNest_length, prodL_replicate_one]

example : classify "QDense" = .dense := by decide
example : classify "Dense" = .dense := by decide
example : atMostOneBig ([5] ++ [1]) = true ∧ atMostOneBig ([1, 1] ++ [7]) = true := by decide

/-- regression witness of fix 174b8b4: Dense(1) applied to a `(batch, 5, 1)` tensor performs 5
    multiplications (one per row of the leading axis, feature axis of size 1); the unrepaired code
    took `np.max` = 5 for both sizes and reported 25. -/
theorem C19_regress_dense_leading_axis :
    opCount "QDense" (denseInfo [5] 1 1) = some 5 ∧ macDenseAt [5] 1 1 = 5 ∧
    maxL [5, 1] * maxL [5, 1] = 25 := by
  refine ⟨by decide, ?_, by decide⟩
  simp only [macDenseAt, denseNestAt_length]; decide

/-- GlobalAveragePooling2D / QGlobalAveragePooling2D: one accumulate per input element. -/
theorem C19_count_global_avg_pool (name : String) (hn : classify name = .avgPool) (h w c : ℕ) :
    opCount name (globalAvgPoolInfo h w c) = some (macGlobalAvgPool h w c) := by
  simp only [opCount, hn, opCountB, globalAvgPoolInfo, macGlobalAvgPool, poolNest_length]
  simp [prodL]; ring

example : classify "GlobalAveragePooling2D" = .avgPool := by decide
example : classify "QGlobalAveragePooling2D" = .avgPool := by decide

/-- Element-wise merge layers (Add, Subtract, Multiply, Average, Maximum, Minimum) on two inputs
    of one shape: one operation per output element.  (For `n` inputs the energy model multiplies
    this per-pair count by `n - 1`, see `C19_entry_merge`.) -/
theorem C19_count_merge (name : String) (hn : isMergeName name = true) (shape : List ℕ) :
    opCount name (mergeInfo shape) = some (macMerge shape) := by
  have : classify name = .elemwise := by simp [classify, hn]
  simp [opCount, this, opCountB, mergeInfo, macMerge, mergeNest]

example : isMergeName "Add" = true := by decide
example : isMergeName "Multiply" = true := by decide

/-! ## estimate.py `number_of_operations` (fixes 89f0481, e54ac88, 174b8b4) -/

/-- estimate.py QConv2D, ANY number of groups. -/
theorem C19_est_conv2d (p : Padding) (h w kh kw sh sw dh dw ci co g : ℕ)
    (hsh : 1 ≤ sh) (hsw : 1 ≤ sw) (hkh : 1 ≤ kh) (hkw : 1 ≤ kw) (hdh : 1 ≤ dh) (hdw : 1 ≤ dw) :
    estOps .qconv2d (conv2dInfo p h w kh kw sh sw dh dw ci co g)
      = some (macConv2d p h w kh kw sh sw dh dw (ci / g) co) := by
  simp only [estOps, conv2dInfo, macConv2d, conv2dNest_length,
    positions_length _ _ _ _ _ hsh hkh hdh, positions_length _ _ _ _ _ hsw hkw hdw]

/-- regression witness of fix 89f0481: QConv2D(6, 3, groups=2) on 8×8×4 — estimate.py reported
    7776 = 2 · 3888. -/
theorem C19_regress_est_grouped_conv2d :
    estOps .qconv2d (conv2dInfo .valid 8 8 3 3 1 1 1 1 4 6 2) = some 3888 ∧
    macConv2d .valid 8 8 3 3 1 1 1 1 (4 / 2) 6 = 3888 := by
  constructor
  · decide
  · simp only [macConv2d, conv2dNest_length]; decide

/-- estimate.py QConv1D, any number of groups. -/
theorem C19_est_conv1d (p : Padding) (n k s d ci co g : ℕ) (hs : 1 ≤ s) (hk : 1 ≤ k) (hd : 1 ≤ d) :
    estOps .qconv1d (conv1dInfo p n k s d ci co g) = some (macConv1d p n k s d (ci / g) co) := by
  simp only [estOps, conv1dInfo, macConv1d, conv1dNest_length,
    positions_length _ _ _ _ _ hs hk hd]

theorem C19_regress_est_grouped_conv1d :
    estOps .qconv1d (conv1dInfo .valid 6 2 1 1 2 6 2) = some 60 ∧
    macConv1d .valid 6 2 1 1 (2 / 2) 6 = 60 := by
  constructor
  · decide
  · simp only [macConv1d, conv1dNest_length]; decide

/-- estimate.py QDepthwiseConv2D with ANY depth multiplier. -/
theorem C19_est_depthwise (p : Padding) (h w kh kw sh sw dh dw ci dm : ℕ)
    (hsh : 1 ≤ sh) (hsw : 1 ≤ sw) (hkh : 1 ≤ kh) (hkw : 1 ≤ kw) (hdh : 1 ≤ dh) (hdw : 1 ≤ dw) :
    estOps .qdepthwise (depthwiseInfo p h w kh kw sh sw dh dw ci dm)
      = some (macDepthwise p h w kh kw sh sw dh dw ci dm) := by
  simp only [estOps, depthwiseInfo, macDepthwise, depthwiseNest_length,
    positions_length _ _ _ _ _ hsh hkh hdh, positions_length _ _ _ _ _ hsw hkw hdw]
  congr 1; ring

/-- regression witness of fix e54ac88: QDepthwiseConv2D(3, depth_multiplier=2) on 8×8×3 —
    estimate.py reported 972. -/
theorem C19_regress_est_depthwise_multiplier :
    estOps .qdepthwise (depthwiseInfo .valid 8 8 3 3 1 1 1 1 3 2) = some 1944 ∧
    macDepthwise .valid 8 8 3 3 1 1 1 1 3 2 = 1944 := by
  constructor
  · decide
  · simp only [macDepthwise, depthwiseNest_length]; decide

/-- estimate.py QDense on `(batch, d_1, …, d_k, n_in)`; its assertions want EXACTLY one dimension
    > 1 in each shape. -/
theorem C19_est_dense (lead : List ℕ) (nIn units : ℕ)
    (hi : exactlyOneBig (lead ++ [nIn]) = true) (ho : exactlyOneBig (lead ++ [units]) = true) :
    estOps .qdense (denseInfo lead nIn units) = some (macDenseAt lead nIn units) := by
  simp only [estOps, denseInfo, hi, ho, denseCount_append, macDenseAt, denseNestAt_length,
    Bool.and_self, if_true]
  congr 1; ring

/-- the ordinary `(batch, n_in)` / `(batch, 1, …, 1, n_in)` use, both sizes > 1 -/
theorem C19_est_dense_vector (k nIn units : ℕ) (hi : 2 ≤ nIn) (hu : 2 ≤ units) :
    estOps .qdense (denseInfo (List.replicate k 1) nIn units) = some (macDense nIn units) := by
  rw [C19_est_dense _ _ _ (exactlyOneBig_ones_append k nIn hi) (exactlyOneBig_ones_append k units hu)]
  simp [macDenseAt, macDense, denseNestAt_length, denseNest_length, prodL_replicate_one]

/-- regression witness of fix 174b8b4 in estimate.py: QDense(1) on `(5, 1)` reported 25. -/
theorem C19_regress_est_dense_leading_axis :
    estOps .qdense (denseInfo [5] 1 1) = some 5 ∧ macDenseAt [5] 1 1 = 5 := by
  refine ⟨by decide, ?_⟩
  simp only [macDenseAt, denseNestAt_length]; decide

/-! ## where the count is NOT the loop-nest cardinality (defects that remain in the code) -/

/-- estimate.py QSeparableConv2D (not repaired): depthwise stage right, 1×1 stage lacks the
    factor `ci`. -/
theorem C19_est_sepconv2d_partial (p : Padding) (h w kh kw sh sw dh dw ci co : ℕ)
    (hsh : 1 ≤ sh) (hsw : 1 ≤ sw) (hkh : 1 ≤ kh) (hkw : 1 ≤ kw) (hdh : 1 ≤ dh) (hdw : 1 ≤ dw) :
    let P := convOutLen p h kh sh dh * convOutLen p w kw sw dw
    estOps .qsepconv2d (sepConv2dInfo p h w kh kw sh sw dh dw ci 1 co)
        = some (kh * kw * P * ci + P * co) ∧
      macSepConv2d p h w kh kw sh sw dh dw ci 1 co = kh * kw * P * ci + P * co * ci := by
  constructor
  · simp only [estOps, sepConv2dInfo]; congr 1; ring
  · simp only [macSepConv2d, macDepthwise, depthwiseNest_length, conv2dNest_length,
      positions_length _ _ _ _ _ hsh hkh hdh, positions_length _ _ _ _ _ hsw hkw hdw]
    ring

/-- QSeparableConv2D(5, 3) on 8×8×3: estimate.py reports 1152, performed 1512. -/
theorem C19_est_sepconv2d_counterexample :
    estOps .qsepconv2d (sepConv2dInfo .valid 8 8 3 3 1 1 1 1 3 1 5) = some 1152 ∧
    macSepConv2d .valid 8 8 3 3 1 1 1 1 3 1 5 = 1512 := by
  constructor
  · decide
  · simp only [macSepConv2d, macDepthwise, depthwiseNest_length, conv2dNest_length]; decide

/-- estimate.py QSeparableConv1D (not repaired), same relation. -/
theorem C19_est_sepconv1d_partial (p : Padding) (n k s d ci co : ℕ)
    (hs : 1 ≤ s) (hk : 1 ≤ k) (hd : 1 ≤ d) :
    let P := convOutLen p n k s d
    estOps .qsepconv1d (sepConv1dInfo p n k s d ci 1 co) = some (k * P * ci + P * co) ∧
      macSepConv1d p n k s d ci 1 co = k * P * ci + P * co * ci := by
  constructor
  · simp only [estOps, sepConv1dInfo]
  · simp only [macSepConv1d, depthwiseNest_length, conv1dNest_length,
      positions_length _ _ _ _ _ hs hk hd]
    simp; ring

/-- QSeparableConv1D(5, 3) on 8×3: estimate.py reports 84, performed 144; the repository's own
    test case QSeparableConv1D(2, 2) on 4×4 expects the reported 30 where 48 are performed. -/
theorem C19_est_sepconv1d_counterexample :
    estOps .qsepconv1d (sepConv1dInfo .valid 8 3 1 1 3 1 5) = some 84 ∧
    macSepConv1d .valid 8 3 1 1 3 1 5 = 144 ∧
    estOps .qsepconv1d (sepConv1dInfo .valid 4 2 1 1 4 1 2) = some 30 ∧
    macSepConv1d .valid 4 2 1 1 4 1 2 = 48 := by
  refine ⟨by decide, ?_, by decide, ?_⟩ <;>
    (simp only [macSepConv1d, depthwiseNest_length, conv1dNest_length]; decide)

/-- every class `get_operation_count` has no branch for reports 0 ("defaulted to 0") … -/
theorem C19_count_unknown_class_partial (name : String) (hn : classify name = .other)
    (L : LayerInfo) : opCount name L = some 0 := by
  simp [opCount, hn, opCountB]

/-- … although QSeparableConv2D / QSeparableConv1D compute: QSeparableConv2D(5, 3) on 8×8×3
    performs 1512 MACs.  (qtools does not support these layers: generate_layer_data_type_map
    passes their input type through with a "cannot parse" warning.) -/
theorem C19_count_unknown_class_counterexample :
    opCount "QSeparableConv2D" (sepConv2dInfo .valid 8 8 3 3 1 1 1 1 3 1 5) = some 0 ∧
    macSepConv2d .valid 8 8 3 3 1 1 1 1 3 1 5 = 1512 ∧
    opCount "QSeparableConv1D" (sepConv1dInfo .valid 8 3 1 1 3 1 5) = some 0 ∧
    macSepConv1d .valid 8 3 1 1 3 1 5 = 144 := by
  refine ⟨by decide, ?_, by decide, ?_⟩
  · simp only [macSepConv2d, macDepthwise, depthwiseNest_length, conv2dNest_length]; decide
  · simp only [macSepConv1d, depthwiseNest_length, conv1dNest_length]; decide

example : classify "QSeparableConv2D" = .other := by decide
example : classify "QSeparableConv1D" = .other := by decide

/-! ## energy report -/

/-- what the energy code may assume of the reported types: bit widths and gate factors are not
    negative, a layer has at least one input. -/
structure WFLayer (l : ELayer) : Prop where
  inBits : ∀ p ∈ l.inputs, 0 ≤ p.2
  outBits : 0 ≤ l.outBits
  bnBits : ∀ b ∈ l.bnBits, 0 ≤ b
  wBits : 0 ≤ l.wBits
  biasBits : ∀ p, l.bias = some p → 0 ≤ p.2
  mulGf : ∀ u, l.multiplier = some u → 0 ≤ u.gateFactor
  divGf : ∀ u, l.bnDivider = some u → 0 ≤ u.gateFactor
  bnMulGf : ∀ u, l.bnMultiplier = some u → 0 ≤ u.gateFactor
  nIn : 1 ≤ l.nInputs

/-- a QConv2D-like record satisfies `WFLayer` (non-vacuity) -/
def exampleConvLayer : ELayer :=
  { className := "QConv2D", isInput := true, isOutput := false,
    inputs := [(256, 8)], nInputs := 1, outElems := 216, outBits := 12, opCount := 3888,
    bnSize := 0, bnBits := [], wElems := 108, wBits := 4, bias := some (6, 4),
    multiplier := some (OpUnit.mk 1 8 .mul (QInfo.mk 12 false)),
    accumulator := some (QInfo.mk 17 false), poolAccumulator := none, bnDivider := none,
    bnMultiplier := none }

example : WFLayer exampleConvLayer := by
  constructor <;> simp [exampleConvLayer]

def EntryNonneg (e : Entry) : Prop :=
  0 ≤ e.inputs ∧ 0 ≤ e.outputs ∧ 0 ≤ e.parameters ∧ 0 ≤ e.opCost

/-- Every energy entry of a layer is non-negative, whatever the cost polynomials are (each
    `OP[...]` is `max(poly, 0)`), for every placement, `min_sram_size`, `rd_wr_on_io`. -/
theorem C19_energy_nonneg (c : Costs) (pl : Placement) (l : ELayer) (e : Entry)
    (hm : 0 ≤ c.sramMulFactor) (hl : WFLayer l) (h : layerEntry c pl l = some e) :
    EntryNonneg e ∧ EntryNonneg e.round ∧ 0 ≤ e.sum := by
  unfold layerEntry at h
  cases ho : opEnergy c l with
  | none => simp [ho] at h
  | some op =>
    simp [ho] at h
    subst h
    have h1 : 0 ≤ inputEnergy c pl.actMem pl.minSram pl.rdWr l := by
      unfold inputEnergy
      apply list_sum_map_nonneg
      rintro ⟨n, b⟩ hp
      exact memoryReadEnergy_nonneg _ _ _ _ _ _ _ hm (hl.inBits _ hp)
    have h2 : 0 ≤ outputEnergy c pl.actMem pl.minSram pl.rdWr l :=
      memoryWriteEnergy_nonneg _ _ _ _ _ _ _ hm hl.outBits
    have h3 : 0 ≤ parameterEnergy c pl.wMem pl.minSram pl.rdWr l := by
      unfold parameterEnergy
      cases pKind l.className with
      | bn =>
        apply list_sum_map_nonneg
        intro b hb
        exact memoryReadEnergy_nonneg _ _ _ _ _ _ _ hm (hl.bnBits b hb)
      | weights =>
        have := memoryReadEnergy_nonneg c false l.wElems pl.wMem pl.minSram pl.rdWr l.wBits hm hl.wBits
        cases hb : l.bias with
        | none => simpa using this
        | some p =>
          have := memoryReadEnergy_nonneg c false p.1 pl.wMem pl.minSram pl.rdWr p.2 hm
            (hl.biasBits p hb)
          simp only []
          linarith
      | none => exact le_rfl
    have h4 : 0 ≤ op := opEnergy_nonneg c l op hl.mulGf hl.divGf hl.bnMulGf hl.nIn ho
    refine ⟨⟨h1, h2, h3, h4⟩, ⟨round2_nonneg h1, round2_nonneg h2, round2_nonneg h3, round2_nonneg h4⟩, ?_⟩
    simp only [Entry.sum]; linarith

/-- `total_cost` is the truncated sum, over ALL layers, of the four unrounded entries; the rows
    of the report are exactly the layers, in order, each with its four entries rounded to two
    decimals.  No layer class is skipped. -/
theorem C19_total (c : Costs) (pl : Placement) (ls : List ELayer)
    (res : List (String × Entry)) (T : ℤ) (h : energyEstimate c pl ls = some (res, T)) :
    ∃ es : List Entry, List.Forall₂ (fun l e => layerEntry c pl l = some e) ls es ∧
      res = List.zipWith (fun l e => (l.className, e.round)) ls es ∧
      T = truncInt ((es.map Entry.sum).sum) := by
  unfold energyEstimate at h
  cases hl : energyLoop c pl ls ([], 0) with
  | none => simp [hl] at h
  | some out =>
    obtain ⟨es, hf, h1, h2⟩ := energyLoop_spec c pl ls [] 0 out hl
    simp [hl] at h
    refine ⟨es, hf, ?_, ?_⟩
    · rw [← h.1, h1]; simp
    · rw [← h.2, h2]; simp

/-- the report row of a layer is a function of the call's options and of THAT layer alone: whatever
    layers are processed before it (output layers included) and after it, its row is its own rounded
    entry under the placement passed to the call -/
theorem C19_row_local (c : Costs) (pl : Placement) (l : ELayer) (pre post : List ELayer)
    (res : List (String × Entry)) (T : ℤ)
    (h : energyEstimate c pl (pre ++ l :: post) = some (res, T)) :
    ∃ e, layerEntry c pl l = some e ∧ res[pre.length]? = some (l.className, e.round) := by
  obtain ⟨es, hf, hres, -⟩ := C19_total c pl _ res T h
  rw [List.forall₂_iff_get] at hf
  obtain ⟨hlen, hget⟩ := hf
  have hi : pre.length < (pre ++ l :: post).length := by simp
  have hi' : pre.length < es.length := hlen ▸ hi
  have hl : (pre ++ l :: post).get ⟨pre.length, hi⟩ = l := by simp
  have he := hget pre.length hi hi'
  rw [hl] at he
  refine ⟨es.get ⟨pre.length, hi'⟩, he, ?_⟩
  rw [hres, List.getElem?_zipWith]
  simp [List.getElem?_eq_getElem hi']

/-- **histories on one QTools object**: in a session of `pe` calls the k-th report is the report of a
    single first call with the k-th options — no earlier call (same or different `rd_wr_on_io`,
    placement, `min_sram_size`) can change it -/
theorem C19_pe_session_history_free (c : Costs) (ls : List ELayer) (before after : List Placement)
    (pl : Placement) :
    (peSession c ls (before ++ pl :: after))[before.length]? = some (energyEstimate c pl ls) ∧
    peSession c ls [pl] = [energyEstimate c pl ls] := by
  simp [peSession]

/-- With well-formed layers the truncation is the floor of a non-negative sum. -/
theorem C19_total_floor (c : Costs) (pl : Placement) (ls : List ELayer)
    (res : List (String × Entry)) (T : ℤ) (hm : 0 ≤ c.sramMulFactor)
    (hw : ∀ l ∈ ls, WFLayer l) (h : energyEstimate c pl ls = some (res, T)) :
    ∃ es : List Entry, List.Forall₂ (fun l e => layerEntry c pl l = some e) ls es ∧
      T = ⌊(es.map Entry.sum).sum⌋ ∧ 0 ≤ T := by
  obtain ⟨es, hf, -, hT⟩ := C19_total c pl ls res T h
  have hs : ∀ e ∈ es, 0 ≤ e.sum := by
    intro e he
    obtain ⟨l, hl, hle⟩ : ∃ l ∈ ls, layerEntry c pl l = some e := by
      clear hT h
      induction hf with
      | nil => simp at he
      | cons hab _ ih =>
        rcases List.mem_cons.mp he with rfl | he'
        · exact ⟨_, List.mem_cons_self, hab⟩
        · obtain ⟨l, hl, hle⟩ := ih (fun l hl => hw l (List.mem_cons_of_mem _ hl)) he'
          exact ⟨l, List.mem_cons_of_mem _ hl, hle⟩
    exact (C19_energy_nonneg c pl l e hm (hw l hl) hle).2.2
  have hsum : 0 ≤ (es.map Entry.sum).sum := list_sum_map_nonneg es _ hs
  refine ⟨es, hf, ?_, ?_⟩
  · rw [hT, truncInt_of_nonneg hsum]
  · rw [hT, truncInt_of_nonneg hsum]; exact Int.floor_nonneg.mpr hsum

/-- The reported (2-decimal) entries determine the unrounded total up to 0.02 per layer. -/
theorem C19_total_vs_reported (es : List Entry) :
    |(es.map Entry.sum).sum - (es.map fun e => e.round.sum).sum| ≤ (es.length : ℚ) * (1 / 50) := by
  induction es with
  | nil => simp
  | cons e es ih =>
    have h1 := round2_err e.inputs
    have h2 := round2_err e.outputs
    have h3 := round2_err e.parameters
    have h4 := round2_err e.opCost
    have he : |e.sum - e.round.sum| ≤ 1 / 50 := by
      simp only [Entry.sum, Entry.round]
      rw [abs_le] at *
      constructor <;> linarith [h1.1, h1.2, h2.1, h2.2, h3.1, h3.2, h4.1, h4.2]
    simp only [List.map_cons, List.sum_cons, List.length_cons]
    rw [abs_le] at *
    push_cast
    constructor <;> linarith [ih.1, ih.2, he.1, he.2]

/-- `extract_energy_sum` is the truncated sum over the rows of the selected entries of each row
    (keys of the row's class, else the "default" keys, else none), and it is the truncated sum of
    the per-layer totals of `extract_energy_profile`. -/
theorem C19_extract (cfg : List (String × List EKey)) (d : List (String × Entry)) :
    extractSum cfg d
        = truncInt ((d.map fun r => ((selectKeys cfg r.1).map r.2.get).sum).sum) ∧
      extractSum cfg d = truncInt (extractProfile cfg d).sum := by
  constructor <;> simp [extractSum, extractProfile, layerTotal]

/-- On a non-negative report the truncation is the floor. -/
theorem C19_extract_floor (cfg : List (String × List EKey)) (d : List (String × Entry))
    (hd : ∀ r ∈ d, EntryNonneg r.2) :
    extractSum cfg d = ⌊(d.map fun r => ((selectKeys cfg r.1).map r.2.get).sum).sum⌋ := by
  rw [(C19_extract cfg d).1]
  apply truncInt_of_nonneg
  apply list_sum_map_nonneg
  intro r hr
  apply list_sum_map_nonneg
  intro k _
  obtain ⟨h1, h2, h3, h4⟩ := hd r hr
  cases k <;> assumption

/-- key selection: a class listed in the setting uses its own keys, any other the default keys -/
theorem C19_extract_keys (cfg : List (String × List EKey)) (cls : String) :
    (∀ ks, cfg.lookup cls = some ks → selectKeys cfg cls = ks) ∧
    (cfg.lookup cls = none → selectKeys cfg cls = (cfg.lookup "default").getD []) := by
  constructor
  · intro ks h; simp [selectKeys, h]
  · intro h; simp [selectKeys, h]

/-- A class mapped to the EMPTY list selects nothing — whatever the "default" list says ("count
    nothing for this class"); a class the setting does not mention, in a setting without "default",
    selects nothing either.  In both cases the layer contributes 0 to the sum and to its profile total. -/
theorem C19_extract_empty (cfg : List (String × List EKey)) (cls : String) (e : Entry) :
    (cfg.lookup cls = some [] → selectKeys cfg cls = [] ∧ layerTotal cfg cls e = 0) ∧
    (cfg.lookup cls = none → cfg.lookup "default" = none →
        selectKeys cfg cls = [] ∧ layerTotal cfg cls e = 0) := by
  constructor
  · intro h; simp [layerTotal, selectKeys, h]
  · intro h hd; simp [layerTotal, selectKeys, h, hd]

/-- A setting in which every class of the report is mapped to the empty list extracts 0, for every
    "default" list. -/
theorem C19_extract_all_empty (cfg : List (String × List EKey)) (d : List (String × Entry))
    (h : ∀ r ∈ d, cfg.lookup r.1 = some []) :
    extractSum cfg d = 0 ∧ ∀ t ∈ extractProfile cfg d, t = 0 := by
  have hz : ∀ r ∈ d, layerTotal cfg r.1 r.2 = 0 := fun r hr =>
    ((C19_extract_empty cfg r.1 r.2).1 (h r hr)).2
  have hp : ∀ t ∈ extractProfile cfg d, t = 0 := by
    intro t ht
    simp only [extractProfile, List.mem_map] at ht
    obtain ⟨r, hr, rfl⟩ := ht
    exact hz r hr
  refine ⟨?_, hp⟩
  rw [(C19_extract cfg d).2, List.sum_eq_zero hp, truncInt_of_nonneg le_rfl]
  simp

/-- Keys of the setting that name no class of the report (and are not "default") are irrelevant:
    adding such a key changes neither the selected keys of any layer nor the sum nor the profile. -/
theorem C19_extract_absent_class (cfg : List (String × List EKey)) (d : List (String × Entry))
    (c : String) (ks : List EKey) (hc : ∀ r ∈ d, r.1 ≠ c) (hdef : c ≠ "default") :
    extractProfile ((c, ks) :: cfg) d = extractProfile cfg d ∧
    extractSum ((c, ks) :: cfg) d = extractSum cfg d := by
  have hk : ∀ r ∈ d, selectKeys ((c, ks) :: cfg) r.1 = selectKeys cfg r.1 := by
    intro r hr
    have h1 : (r.1 == c) = false := by simpa using hc r hr
    have h2 : (("default" : String) == c) = false := by simpa using fun h => hdef h.symm
    simp [selectKeys, List.lookup_cons, h1, h2]
  have hp : extractProfile ((c, ks) :: cfg) d = extractProfile cfg d := by
    simp only [extractProfile]
    apply List.map_congr_left
    intro r hr
    simp [layerTotal, hk r hr]
  exact ⟨hp, by rw [(C19_extract _ d).2, (C19_extract cfg d).2, hp]⟩

example : selectKeys [("QActivation", []), ("default", [.inputs, .opCost])] "QActivation" = [] ∧
    selectKeys [("QActivation", []), ("default", [.inputs, .opCost])] "QDense" = [.inputs, .opCost] ∧
    selectKeys [("QActivation", [.outputs])] "QDense" = [] := by decide

/-! ### each entry is the documented function of types, counts, sizes and placement -/

/-- `memory_read_energy` by placement.  Layers fed by the model input ignore the configured
    placement: they read DRAM iff `rd_wr_on_io`.  "fixed" costs nothing. -/
theorem C19_entry_memory_read (c : Costs) (isIn : Bool) (elems : ℕ) (mode : Mem) (ms : ℚ)
    (rw : Bool) (bits : ℚ) :
    memoryReadEnergy c isIn elems mode ms rw bits =
      (let tb := (elems : ℚ) * bits
       let sram := (⌈tb * c.sramMulFactor⌉ : ℚ) * max (c.sramRdLog2 (max tb ms)) 0
       let dram := max (c.dramRd tb) 0
       match (if isIn then (if rw then Mem.dram else Mem.sram) else mode) with
       | .dram => if rw then dram + sram else dram
       | .sram => sram
       | .fixed => 0) := by
  unfold memoryReadEnergy sramAccess sramCost dramCost
  simp only [rceil_eq]
  cases isIn <;> cases rw <;> cases mode <;> simp

/-- `memory_write_energy` costs exactly what `memory_read_energy` costs for the same tensor. -/
theorem C19_entry_memory_write (c : Costs) (b : Bool) (elems : ℕ) (mode : Mem) (ms : ℚ)
    (rw : Bool) (bits : ℚ) :
    memoryWriteEnergy c b elems mode ms rw bits = memoryReadEnergy c b elems mode ms rw bits :=
  memoryWriteEnergy_eq_read c b elems mode ms rw bits

/-- weights kept "fixed" (hard-wired) cost no parameter energy, for every layer class -/
theorem C19_entry_parameters_fixed (c : Costs) (ms : ℚ) (rw : Bool) (l : ELayer) :
    parameterEnergy c .fixed ms rw l = 0 := by
  unfold parameterEnergy
  cases pKind l.className with
  | bn =>
    have : ∀ bs : List ℚ,
        (bs.map fun b => memoryReadEnergy c false l.bnSize .fixed ms rw b).sum = 0 := by
      intro bs; induction bs with
      | nil => simp
      | cons b bs ih => simp [memoryReadEnergy] at ih ⊢
    exact this _
  | weights => cases l.bias <;> simp [memoryReadEnergy]
  | none => rfl

/-- conv / dense parameters: kernel tensor plus, when the layer has one, the bias vector -/
theorem C19_entry_parameters_weights (c : Costs) (m : Mem) (ms : ℚ) (rw : Bool) (l : ELayer)
    (hk : pKind l.className = .weights) :
    parameterEnergy c m ms rw l =
      memoryReadEnergy c false l.wElems m ms rw l.wBits
        + (match l.bias with
           | some (n, b) => memoryReadEnergy c false n m ms rw b
           | none => 0) := by
  unfold parameterEnergy
  rw [hk]
  cases l.bias <;> rfl

/-- MAC layers with fixed-point operators: `count × (gate_factor × cost_mode(gate_bits) +
    add(accumulator bits))`, linear in the operation count. -/
theorem C19_entry_mac (c : Costs) (l : ELayer) (u : OpUnit) (a : QInfo)
    (hk : eKind l.className = .mac) (hu : l.multiplier = some u) (ha : l.accumulator = some a)
    (huf : u.out.isFloat = false) (haf : a.isFloat = false) :
    opEnergy c l = some ((l.opCount : ℚ) *
      (u.gateFactor * max ((if u.mode = .mul then c.fpmMul else c.fpmAdd) u.gateBits) 0
        + max (c.fpmAdd a.bits) 0)) := by
  cases hm : u.mode <;> simp [opEnergy, hk, hu, ha, unitCost, opType?, huf, haf, opCost, hm]

/-- Add / Multiply / Subtract of `n` inputs: `(n − 1) × count × gate_factor × cost` — the
    reported per-pair count is multiplied by the number of extra operands here. -/
theorem C19_entry_merge (c : Costs) (l : ELayer) (u : OpUnit)
    (hk : eKind l.className = .merge) (hu : l.multiplier = some u) (huf : u.out.isFloat = false) :
    opEnergy c l = some (((l.nInputs : ℚ) - 1) * (l.opCount : ℚ) * u.gateFactor *
      max ((if u.mode = .mul then c.fpmMul else c.fpmAdd) u.gateBits) 0) := by
  cases hm : u.mode <;> simp [opEnergy, hk, hu, opType?, huf, opCost, hm]

/-- activation layers and classes the energy code does not know have no op cost -/
theorem C19_entry_no_op (c : Costs) (l : ELayer)
    (hk : eKind l.className = .activation ∨ eKind l.className = .other) :
    opEnergy c l = some 0 := by
  rcases hk with hk | hk <;> simp [opEnergy, hk]

/-- (Global)AveragePooling2D (fix 2562e1d): the op cost is `count × add(pool accumulator bits)`,
    read from the item's `pool_sum_accumulator`. -/
theorem C19_entry_avg_pool (c : Costs) (l : ELayer) (a : QInfo)
    (hk : eKind l.className = .avgPool) (ha : l.poolAccumulator = some a) (haf : a.isFloat = false) :
    opEnergy c l = some ((l.opCount : ℚ) * max (c.fpmAdd a.bits) 0) := by
  simp [opEnergy, hk, ha, opType?, haf, opCost]

/-- A model with average pooling now HAS an energy report: whenever the pooling item carries its
    `pool_sum_accumulator` (fixed-point or fp16/fp32), the layer gets an entry. -/
theorem C19_energy_avg_pool (c : Costs) (pl : Placement) (l : ELayer) (a : QInfo)
    (hk : eKind l.className = .avgPool) (ha : l.poolAccumulator = some a)
    (hty : a.isFloat = false ∨ a.bits = 32 ∨ a.bits = 16) :
    ∃ e, layerEntry c pl l = some e := by
  have : ∃ v, opEnergy c l = some v := by
    rcases hty with h | h | h
    · exact ⟨_, C19_entry_avg_pool c l a hk ha h⟩
    · cases hf : a.isFloat <;> simp [opEnergy, hk, ha, opType?, hf, h, opCost]
    · cases hf : a.isFloat <;> simp [opEnergy, hk, ha, opType?, hf, h, opCost]
  obtain ⟨v, hv⟩ := this
  refine ⟨⟨inputEnergy c pl.actMem pl.minSram pl.rdWr l, outputEnergy c pl.actMem pl.minSram pl.rdWr l,
    parameterEnergy c pl.wMem pl.minSram pl.rdWr l, v⟩, ?_⟩
  simp [layerEntry, hv]

def examplePoolLayer : ELayer :=
  { className := "AveragePooling2D", isInput := false, isOutput := true,
    inputs := [(256, 4)], nInputs := 1, outElems := 64, outBits := 6, opCount := 256,
    bnSize := 0, bnBits := [], wElems := 0, wBits := 0, bias := none, multiplier := none,
    accumulator := none, poolAccumulator := some (QInfo.mk 6 false), bnDivider := none,
    bnMultiplier := none }

/-- regression witness of fix 2562e1d: the report of a model ending in AveragePooling2D exists
    (the unrepaired code raised AttributeError). -/
theorem C19_regress_energy_avg_pool (c : Costs) (pl : Placement) :
    (energyEstimate c pl [exampleConvLayer, examplePoolLayer]).isSome = true := by
  simp [energyEstimate, energyLoop, layerEntry, opEnergy, eKind, exampleConvLayer, examplePoolLayer,
    unitCost, opType?, opCost]

example : eKind "AveragePooling2D" = .avgPool := by decide
example : eKind "GlobalAveragePooling2D" = .avgPool := by decide

/-! ## operator entries (`op_cost`) — strengthening round 3 (seed C19-9)

Every branch of `energy_estimate` prices an operator (BN divider / multiplier, merge operator, MAC
multiplier) through one and the same unit cost `gate_factor × OP[type][mode](gate_bits)`
(`unitCost`); what differs is the NUMBER of applications: `count` for a MAC layer and for batch
normalisation, `(n − 1) × count` for an element-wise merge of `n` operands. -/

/-- an element-wise merge of `n` operands of one shape performs `(n − 1) × (elements)` scalar
    operations (the literal loop nest (extra operand, element)); `operation_count` reports the
    per-operand slice `macMerge shape` (`C19_count_merge`). -/
theorem C19_merge_nary_ops (n : ℕ) (shape : List ℕ) :
    opsMergeNary n shape = (n - 1) * macMerge shape := by
  simp [opsMergeNary, macMerge, mergeNaryNest_length]

example : opsMergeNary 3 [4, 4, 3] = 96 ∧ macMerge [4, 4, 3] = 48 := by decide

/-- merge op cost for EVERY operator type (fixed point, fp16, fp32) and mode: the operator's unit
    cost, `(n − 1) × count` times; it is defined exactly when the unit cost is. -/
theorem C19_entry_merge_unit (c : Costs) (l : ELayer) (u : OpUnit)
    (hk : eKind l.className = .merge) (hu : l.multiplier = some u) :
    opEnergy c l = (unitCost c u).map fun e => ((l.nInputs : ℚ) - 1) * (l.opCount : ℚ) * e :=
  opEnergy_merge_unit c l u hk hu

/-- **n-ary merges**: with the reported count being the per-operand slice, the op cost of an
    Add / Multiply / Subtract of `n ≥ 1` operands is (the number of scalar operations the whole
    merge performs) × (unit energy of the reported operator) — for every `n`, not only `n = 2`. -/
theorem C19_entry_merge_nary (c : Costs) (l : ELayer) (u : OpUnit) (e : ℚ) (shape : List ℕ)
    (hk : eKind l.className = .merge) (hu : l.multiplier = some u) (he : unitCost c u = some e)
    (hn : 1 ≤ l.nInputs) (hc : l.opCount = macMerge shape) :
    opEnergy c l = some ((opsMergeNary l.nInputs shape : ℚ) * e) := by
  rw [opEnergy_merge_unit c l u hk hu, he, C19_merge_nary_ops, hc]
  simp [Nat.cast_sub hn]

/-- two operands: the count itself; one operand: nothing to combine. -/
theorem C19_entry_merge_binary (c : Costs) (l : ELayer) (u : OpUnit) (e : ℚ)
    (hk : eKind l.className = .merge) (hu : l.multiplier = some u) (he : unitCost c u = some e) :
    (l.nInputs = 2 → opEnergy c l = some ((l.opCount : ℚ) * e)) ∧
    (l.nInputs = 1 → opEnergy c l = some 0) := by
  rw [opEnergy_merge_unit c l u hk hu, he]
  constructor
  · intro h
    simp only [h, Option.map_some, Option.some.injEq]
    norm_num
  · intro h
    simp [h]

/-- every additional operand adds `count × unit energy` (linear in the number of operands). -/
theorem C19_entry_merge_operand_step (c : Costs) (l : ELayer) (u : OpUnit) (e : ℚ)
    (hk : eKind l.className = .merge) (hu : l.multiplier = some u) (he : unitCost c u = some e) :
    ∃ v, opEnergy c l = some v ∧
      opEnergy c { l with nInputs := l.nInputs + 1 } = some (v + (l.opCount : ℚ) * e) := by
  refine ⟨((l.nInputs : ℚ) - 1) * (l.opCount : ℚ) * e, ?_, ?_⟩
  · rw [opEnergy_merge_unit c l u hk hu, he]; rfl
  · rw [opEnergy_merge_unit c { l with nInputs := l.nInputs + 1 } u hk hu, he]
    simp
    ring

/-- the per-pair formula `count × unit energy` (the `(n − 1)` factor dropped) is NOT the op cost
    of a merge of three or more operands whenever the layer does anything at all — the two
    formulas agree exactly on the two-operand merges. -/
theorem C19_entry_merge_not_per_pair (c : Costs) (l : ELayer) (u : OpUnit) (e : ℚ)
    (hk : eKind l.className = .merge) (hu : l.multiplier = some u) (he : unitCost c u = some e)
    (hn : 3 ≤ l.nInputs) (hcnt : 0 < l.opCount) (hpos : 0 < e) :
    opEnergy c l ≠ some ((l.opCount : ℚ) * e) := by
  rw [opEnergy_merge_unit c l u hk hu, he]
  simp only [Option.map_some, ne_eq, Option.some.injEq]
  have h1 : (3 : ℚ) ≤ (l.nInputs : ℚ) := by exact_mod_cast hn
  have h2 : (0 : ℚ) < (l.opCount : ℚ) := by exact_mod_cast hcnt
  have h3 : 0 < (l.opCount : ℚ) * e := mul_pos h2 hpos
  intro h
  nlinarith

/-- a three-operand Add of 4×4×3 tensors with an 8-bit adder (the shape of seed C19-9's demo):
    96 additions are charged, for every cost polynomial. -/
def exampleAdd3Layer : ELayer :=
  { className := "Add", isInput := false, isOutput := false,
    inputs := [(48, 5), (48, 6), (48, 7)], nInputs := 3, outElems := 48, outBits := 8, opCount := 48,
    bnSize := 0, bnBits := [], wElems := 0, wBits := 0, bias := none,
    multiplier := some (OpUnit.mk 1 8 .add (QInfo.mk 8 false)),
    accumulator := none, poolAccumulator := none, bnDivider := none, bnMultiplier := none }

theorem C19_witness_merge_three_operands (c : Costs) :
    opEnergy c exampleAdd3Layer = some (96 * max (c.fpmAdd 8) 0) := by
  have hk : eKind exampleAdd3Layer.className = .merge := by decide
  rw [opEnergy_merge_unit c _ (OpUnit.mk 1 8 .add (QInfo.mk 8 false)) hk rfl]
  simp [unitCost, opType?, opCost, exampleAdd3Layer]
  norm_num

/-- batch normalisation: `count × (divider unit + multiplier unit)`; an absent operator (scale or
    centre switched off) contributes nothing. -/
theorem C19_entry_batchnorm (c : Costs) (l : ELayer) (d m : ℚ)
    (hk : eKind l.className = .batchNorm)
    (hd : optUnitCost c l.bnDivider = some d) (hm : optUnitCost c l.bnMultiplier = some m) :
    opEnergy c l = some ((l.opCount : ℚ) * (d + m)) ∧ optUnitCost c none = some 0 := by
  refine ⟨?_, rfl⟩
  simp [opEnergy, hk, hd, hm]
  ring

/-- MAC layers, every operator / accumulator type: `count × (multiplier unit + add(accumulator))`. -/
theorem C19_entry_mac_unit (c : Costs) (l : ELayer) (u : OpUnit) (a : QInfo) (t : OpType) (e1 e2 : ℚ)
    (hk : eKind l.className = .mac) (hu : l.multiplier = some u) (ha : l.accumulator = some a)
    (h1 : unitCost c u = some e1) (ht : opType? a = some t) (h2 : opCost c t .add a.bits = some e2) :
    opEnergy c l = some ((l.opCount : ℚ) * (e1 + e2)) := by
  simp [opEnergy, hk, hu, ha, h1, ht, h2]

/-- the `op_cost` entry does not depend on the memory placement, `min_sram_size` or `rd_wr_on_io`
    of the call: it is `opEnergy` of the layer. -/
theorem C19_entry_op_placement_free (c : Costs) (pl pl' : Placement) (l : ELayer) (e e' : Entry)
    (h : layerEntry c pl l = some e) (h' : layerEntry c pl' l = some e') :
    e.opCost = e'.opCost ∧ opEnergy c l = some e.opCost := by
  unfold layerEntry at h h'
  cases ho : opEnergy c l with
  | none => simp [ho] at h
  | some v =>
    simp [ho] at h h'
    subst h; subst h'
    simp


/-! ## merge layers with BROADCAST operands (strengthening round 4, seeds C19-11 / finding
    C19-merge-two-sided-broadcast) -/

/-- One-sided broadcast (channel mask (H,W,1) x (H,W,C), squeeze-and-excite (1,1,C) x (H,W,C), gates …):
    whatever the ORDER of the operands, if one operand `full` has the shape every operand broadcasts to,
    the count of the operand selected by the code's strict-`>` loop is the number of elements of the
    broadcast result (the scalar operations per extra operand). -/
theorem C19_count_merge_broadcast (name : String) (hn : isMergeName name = true)
    (s0 : List ℕ) (rest : List (List ℕ)) (full : List ℕ)
    (hfull : full ∈ s0 :: rest) (hb : ∀ s ∈ s0 :: rest, bcastTo s full) (hpos : ∀ b ∈ full, 1 ≤ b) :
    opCount name (mergeInfo (pickLargest (s0 :: rest))) = some (macMerge full) := by
  rw [C19_count_merge name hn]
  obtain ⟨hm, hmax⟩ := pickLargestBy_spec prodL s0 rest
  have h1 : prodL (pickLargest (s0 :: rest)) ≤ prodL full :=
    bcastTo_prod_le _ _ (hb _ hm) hpos
  have h2 : prodL full ≤ prodL (pickLargest (s0 :: rest)) := hmax full hfull
  rw [macMerge_eq_prodL, macMerge_eq_prodL]
  congr 1
  omega

/-- the demo of seed C19-11: the full element count selects the feature map in both orders (80); a key
    that leaves the channel axis out (`prodL s.dropLast`) ties and takes the first operand (16; gate: 1). -/
theorem C19_witness_merge_channel_mask :
    macMerge (pickLargest [[4, 4, 1], [4, 4, 5]]) = 80 ∧ macMerge (pickLargest [[4, 4, 5], [4, 4, 1]]) = 80 ∧
    macMerge (pickLargestBy (fun s => prodL s.dropLast) [[4, 4, 1], [4, 4, 5]]) = 16 ∧
    macMerge (pickLargestBy (fun s => prodL s.dropLast) [[1], [7]]) = 1 := by
  decide

/-- TWO-SIDED broadcast (no operand has the shape `out` of the result): what the code reports is the size
    of its largest operand — never more than the operations performed, … -/
theorem C19_count_merge_two_sided_partial (name : String) (hn : isMergeName name = true)
    (s0 : List ℕ) (rest : List (List ℕ)) (out : List ℕ)
    (hb : ∀ s ∈ s0 :: rest, bcastTo s out) (hpos : ∀ b ∈ out, 1 ≤ b) :
    opCount name (mergeInfo (pickLargest (s0 :: rest))) = some (prodL (pickLargest (s0 :: rest))) ∧
    prodL (pickLargest (s0 :: rest)) ≤ macMerge out ∧
    ∀ s ∈ s0 :: rest, prodL s ≤ prodL (pickLargest (s0 :: rest)) := by
  obtain ⟨hm, hmax⟩ := pickLargestBy_spec prodL s0 rest
  refine ⟨?_, ?_, hmax⟩
  · rw [C19_count_merge name hn, macMerge_eq_prodL]
  · rw [macMerge_eq_prodL]; exact bcastTo_prod_le _ _ (hb _ hm) hpos

/-- … and strictly less in general: Multiply of (4,1,3) and (1,5,3) performs 60 multiplications per
    sample, 15 are reported (reproduced on the real code: known finding C19-merge-two-sided-broadcast). -/
theorem C19_count_merge_two_sided_counterexample :
    bcastTo [4, 1, 3] [4, 5, 3] ∧ bcastTo [1, 5, 3] [4, 5, 3] ∧
    opCount "Multiply" (mergeInfo (pickLargest [[4, 1, 3], [1, 5, 3]])) = some 15 ∧
    opCount "Multiply" (mergeInfo (pickLargest [[1, 5, 3], [4, 1, 3]])) = some 15 ∧
    macMerge [4, 5, 3] = 60 := by
  refine ⟨?_, ?_, by decide, by decide, by decide⟩
  · simp [bcastTo]
  · simp [bcastTo]

end QKV.Props.C19
