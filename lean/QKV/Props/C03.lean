/-
  C03 — Power-of-two quantizers emit signed powers of two with in-range exponents.

  Property (verbatim, properties.jsonl): For the power-of-two quantizers (signed and ReLU variants,
  rounding modes 'rnd' and 'floor') every output has magnitude exactly 2^e with e an integer inside
  the exponent interval determined by the bit width and max_value, the sign follows the input (the
  ReLU variant maps negatives to the smallest code, or to a negative power of two under a leaky
  slope), zero maps to the smallest magnitude, and e is the log2-nearest (resp. floor) admissible
  exponent. With a power-of-two max_value no output magnitude exceeds it, the map is monotone on
  each sign, idempotent when no leaky slope is configured, and min()/max() enclose every output.

  Model: QKV.Model.Po2Quant (`quantWith c x r` = output when the code ended up with `r` as rounded
  logarithm; `RawAdm` = which `r` it can end up with: "rnd" = any rounding the 2^-15 band around
  sqrt(2)·2^k admits, "floor" (after fix 40deb9c) = such a rounding followed by the exact step-down
  test `2^round > x`, which leaves exactly the floor exponent; `quant` = the exact choice;
  `Admissible c x y` = `y` is an output for some admissible `r`; `quantFWith` = float32 layer).
  All theorems: every bit width (`Cfg.WF`: bits ≥ 2, relu variant bits ≥ 1), every rational input,
  every admissible rounding of the logarithm unless a theorem says `quant` (the exact choice).
  `quad = false` (no quadratic approximation) wherever the property's clause is meant; the
  quadratic variant violates several clauses (`C03_quad_range_counterexample`).

  This file holds ONLY property theorems and non-vacuity examples.
-/
import QKV.Lemmas.Po2Quant
namespace QKV.Props.C03
open QKV QKV.Po2Q

/-- `tf.keras.backend.epsilon()` as a float32: 14073749 · 2^-47 -/
def epsF32 : ℚ := 14073749 / 140737488355328

/-- `max_value` is absent or a power of two that is a code of the format and not below epsilon -/
def MvOK (c : Cfg) : Prop :=
  c.maxValue = none ∨ ∃ k : ℤ, c.maxValue = some (pow2 k) ∧ c.minExp ≤ k ∧ c.eps ≤ pow2 k

/-- the epsilon floor does not cut between two codes: an exponent the code can select for a value
    ≥ eps is a code ≥ eps, or is clipped to the smallest code anyway.  True for float32(1e-7) in
    "rnd" mode for every configuration and in "floor" mode when `min_exp ≥ -24` (theorems below). -/
def EpsOK (c : Cfg) : Prop :=
  ∀ (v : ℚ) (r : ℤ), c.eps ≤ v → RawAdm c v r → c.eps ≤ pow2 r ∨ r ≤ c.minExp

/-! ## magnitude is a power of two with an in-range exponent -/

theorem C03_is_po2 (c : Cfg) (hq : c.quad = false) (x : ℚ) (r : ℤ) :
    ∃ e : ℤ, c.minExp ≤ e ∧ e ≤ c.maxExp ∧ |quantWith c x r| = pow2 e :=
  ⟨clipExpWith c (magIn c x) r, (clipExpWith_mem c hq _ r).1, (clipExpWith_mem c hq _ r).2,
    abs_quantWith c x r⟩

/-- the exponent interval: `[-2^n, 2^n - 1]` with `n = bits - 1 - s` (relu variant `bits - s`),
    `s = 1` unless `max_value ≤ 1` -/
theorem C03_exp_interval (c : Cfg) (hq : c.quad = false) :
    c.minExp = -(2 : ℤ) ^ c.effBits ∧ c.maxExp = (2 : ℤ) ^ c.effBits - 1 ∧
    c.effBits = (if c.relu then c.bits else c.bits - 1) -
      (match c.maxValue with | none => 1 | some m => if 1 < m then 1 else 0) := by
  refine ⟨by unfold Cfg.minExp; push_cast; ring, by unfold Cfg.maxExp Cfg.maxExp0; simp [hq], ?_⟩
  unfold Cfg.effBits needSign; rfl

/-! ## sign -/

theorem C03_sign (c : Cfg) (hr : c.relu = false) (x : ℚ) (r : ℤ) :
    (x < 0 → quantWith c x r < 0) ∧ (0 ≤ x → 0 < quantWith c x r) := by
  have hp := pow2_pos (clipExpWith c (magIn c x) r)
  unfold quantWith signOut
  simp only [hr, Bool.false_eq_true, if_false]
  constructor
  · intro h; rw [if_pos h]; linarith
  · intro h; rw [if_neg (not_lt.mpr h)]; linarith

theorem C03_relu_nonneg_positive (c : Cfg) (hr : c.relu = true) (x : ℚ) (hx : 0 ≤ x) (r : ℤ) :
    0 < quantWith c x r := by
  have hp := pow2_pos (clipExpWith c (magIn c x) r)
  unfold quantWith signOut posBranch
  simp [hr, hx]; exact hp

theorem C03_relu_negative_to_min (c : Cfg) (hr : c.relu = true) (hs : c.negSlope = 0)
    (he : 0 < c.eps) (x : ℚ) (hx : x < 0) (r : ℤ) : quantWith c x r = pow2 c.minExp := by
  unfold quantWith signOut magIn posBranch clipExpWith
  simp [hr, hs, not_le.mpr hx, he]

theorem C03_leaky_negative (c : Cfg) (hr : c.relu = true) (hq : c.quad = false) (hs : 0 < c.negSlope)
    (x : ℚ) (hx : x < 0) (r : ℤ) :
    quantWith c x r < 0 ∧ ∃ e : ℤ, c.minExp ≤ e ∧ e ≤ c.maxExp ∧ quantWith c x r = - pow2 e := by
  have hp := pow2_pos (clipExpWith c (magIn c x) r)
  have hsg : signOut c x = -1 := by
    unfold signOut posBranch; simp [hr, not_le.mpr hx, hs.ne']
  refine ⟨by unfold quantWith; rw [hsg]; linarith, clipExpWith c (magIn c x) r,
    (clipExpWith_mem c hq _ r).1, (clipExpWith_mem c hq _ r).2, by unfold quantWith; rw [hsg]; ring⟩

theorem C03_zero_to_min (c : Cfg) (he : 0 < c.eps) (r : ℤ) : quantWith c 0 r = pow2 c.minExp := by
  unfold quantWith signOut magIn posBranch clipExpWith rabs
  cases c.relu <;> simp [he]

/-! ## the exponent is the nearest / floor admissible one -/

/-- "rnd": an admissible `r` is clipped into the exponent range; strictly inside the range the
    input (after the epsilon floor and the max_value clamp) lies between the two log-midpoints of
    the chosen exponent, up to the band. -/
theorem C03_nearest_band (c : Cfg) (hq : c.quad = false) (hf : c.floorMode = false) (x : ℚ) (r : ℤ)
    (hx : ¬ magIn c x < c.eps) (ha : RawAdm c (logArg c x) r) :
    let e := clipExpWith c (magIn c x) r
    let v := logArg c x
    e = clipI r c.minExp c.maxExp ∧
    (c.minExp < e → pow2 (2 * e - 1) * ((1 - beta) * (1 - beta)) ≤ v * v) ∧
    (e < c.maxExp → v * v ≤ pow2 (2 * e + 1) * ((1 + beta) * (1 + beta))) := by
  intro e v
  have hmm := minExp_le_maxExp c hq
  have he : e = clipI r c.minExp c.maxExp := by
    show clipExpWith c (magIn c x) r = _
    unfold clipExpWith; rw [if_neg hx, qf_one c hq, one_mul]
  obtain ⟨h1, h2⟩ := (rawAdm_rnd c hf _ _).mp ha
  rw [key_nq c hq] at h1 h2
  rw [bandLo_eq] at h1
  rw [bandHi_eq] at h2
  refine ⟨he, ?_, ?_⟩
  · intro hlt
    have : e ≤ r := by rw [he] at hlt ⊢; exact le_clipI_of hmm hlt
    have hp : pow2 (2 * e - 1) ≤ pow2 (2 * r - 1) := pow2_le_pow2 (by omega)
    exact le_trans (mul_le_mul_of_nonneg_right hp sq_sub_pos.le) h1
  · intro hlt
    have : r ≤ e := by rw [he] at hlt ⊢; exact clipI_le_of hmm hlt
    have hp : pow2 (2 * r + 1) ≤ pow2 (2 * e + 1) := pow2_le_pow2 (by omega)
    exact le_trans h2 (mul_le_mul_of_nonneg_right hp sq_add_pos.le)

/-- "rnd", exact choice: `2^(2e-1) ≤ v² < 2^(2e+1)` strictly inside the range (no band). -/
theorem C03_nearest_exact (c : Cfg) (hq : c.quad = false) (hf : c.floorMode = false) (x : ℚ)
    (hx : ¬ magIn c x < c.eps) (hv : 0 < logArg c x) :
    let v := logArg c x
    let e := clipExpWith c (magIn c x) (rawExp c v)
    |quant c x| = pow2 e ∧
    (c.minExp < e → pow2 (2 * e - 1) ≤ v * v) ∧ (e < c.maxExp → v * v < pow2 (2 * e + 1)) := by
  intro v e
  have hmm := minExp_le_maxExp c hq
  have he : e = clipI (rawExp c v) c.minExp c.maxExp := by
    show clipExpWith c (magIn c x) _ = _
    unfold clipExpWith; rw [if_neg hx, qf_one c hq, one_mul]
  obtain ⟨h1, h2⟩ := rawExp_rnd_spec c hq hf v hv
  refine ⟨abs_quantWith c x _, ?_, ?_⟩
  · intro hlt
    have : e ≤ rawExp c v := by rw [he] at hlt ⊢; exact le_clipI_of hmm hlt
    exact le_trans (pow2_le_pow2 (by omega)) h1
  · intro hlt
    have : rawExp c v ≤ e := by rw [he] at hlt ⊢; exact clipI_le_of hmm hlt
    exact lt_of_lt_of_le h2 (pow2_le_pow2 (by omega))

/-- "floor" (after fix 40deb9c: round the float logarithm, then step down iff `2^round > x`):
    whatever admissible value the float rounding took, the selected exponent is THE floor
    exponent — no band is left in floor mode. -/
theorem C03_floor_deterministic (c : Cfg) (hq : c.quad = false) (hf : c.floorMode = true) (v : ℚ)
    (hv : 0 < v) (r : ℤ) (ha : RawAdm c v r) : r = rawExp c v ∧ pow2 r ≤ v ∧ v < pow2 (r + 1) := by
  have hr := rawAdm_floor_unique c hq hf v hv r ha
  rw [hr]; exact ⟨rfl, rawExp_floor_spec c hq hf v hv⟩

/-- "floor", every admissible rounding: the output is the output of the exact logarithm -/
theorem C03_floor_admissible_eq_exact (c : Cfg) (hq : c.quad = false) (hf : c.floorMode = true)
    (hw : c.WF) (x y : ℚ) (h : Admissible c x y) : y = quant c x := by
  obtain ⟨r, ha, rfl⟩ := h
  have hv : 0 < logArg c x := xFilter_pos c hw.epsPos hw.mvPos _
  unfold quant
  rw [rawAdm_floor_unique c hq hf _ hv r ha]

/-- "floor", exact choice: `2^e ≤ v < 2^(e+1)` strictly inside the range -/
theorem C03_floor_exact (c : Cfg) (hq : c.quad = false) (hf : c.floorMode = true) (x : ℚ)
    (hx : ¬ magIn c x < c.eps) (hv : 0 < logArg c x) :
    let v := logArg c x
    let e := clipExpWith c (magIn c x) (rawExp c v)
    |quant c x| = pow2 e ∧ (c.minExp < e → pow2 e ≤ v) ∧ (e < c.maxExp → v < pow2 (e + 1)) := by
  intro v e
  have hmm := minExp_le_maxExp c hq
  have he : e = clipI (rawExp c v) c.minExp c.maxExp := by
    show clipExpWith c (magIn c x) _ = _
    unfold clipExpWith; rw [if_neg hx, qf_one c hq, one_mul]
  obtain ⟨h1, h2⟩ := rawExp_floor_spec c hq hf v hv
  refine ⟨abs_quantWith c x _, ?_, ?_⟩
  · intro hlt
    have : e ≤ rawExp c v := by rw [he] at hlt ⊢; exact le_clipI_of hmm hlt
    exact le_trans (pow2_le_pow2 this) h1
  · intro hlt
    have : rawExp c v ≤ e := by rw [he] at hlt ⊢; exact clipI_le_of hmm hlt
    exact lt_of_lt_of_le h2 (pow2_le_pow2 (by omega))

/-- the exact choice is one of the admissible ones: every `∀ admissible` theorem covers `quant` -/
theorem C03_exact_admissible (c : Cfg) (hq : c.quad = false) (x : ℚ) (hv : 0 < logArg c x) :
    Admissible c x (quant c x) :=
  ⟨rawExp c (logArg c x), rawExp_adm c hq _ hv, rfl⟩


/-! ## a power-of-two `max_value` is never exceeded -/

theorem C03_le_max (c : Cfg) (hq : c.quad = false) (he : 0 < c.eps) (k : ℤ)
    (hm : c.maxValue = some (pow2 k)) (hk : c.minExp ≤ k) (x : ℚ) (r : ℤ)
    (ha : RawAdm c (logArg c x) r) : |quantWith c x r| ≤ pow2 k := by
  rw [abs_quantWith]
  apply pow2_le_pow2
  unfold clipExpWith
  split_ifs
  · exact hk
  · rw [qf_one c hq, one_mul]
    have hpos : ∀ m, c.maxValue = some m → 0 < m := by
      intro m h; rw [hm] at h; cases h; exact pow2_pos k
    have hr : r ≤ k := rawAdm_le_of_le_pow2 c hq (xFilter_pos c he hpos _)
      (xFilter_le_mv c _ hm _) ha
    have := clipI_le_max (r := r) (minExp_le_maxExp c hq)
    omega

/-- when `max_value = 2^k` lies below the smallest code the clause cannot hold (no code is
    `≤ max_value`): `quantized_po2(2, max_value=2^-3)` has `min_exp = -2` and maps 0 to `2^-2`. -/
theorem C03_le_max_counterexample :
    let c : Cfg := { relu := false, bits := 2, maxValue := some (pow2 (-3)), negSlope := 0,
                     floorMode := false, quad := false, eps := epsF32 }
    c.minExp = -2 ∧ ∀ r : ℤ, ¬ |quantWith c 0 r| ≤ pow2 (-3) := by
  intro c
  have hmin : c.minExp = -2 := by
    simp [c, Cfg.minExp, Cfg.effBits, needSign, pow2_eq_zpow]; norm_num
  refine ⟨hmin, ?_⟩
  intro r
  rw [C03_zero_to_min c (by norm_num [c, epsF32]) r, hmin, abs_of_pos (pow2_pos _)]
  intro h
  have := pow2_lt_pow2 (show (-3 : ℤ) < -2 by norm_num)
  linarith

/-! ## monotone on each sign -/

theorem C03_mono_pos (c : Cfg) (hq : c.quad = false) (hw : c.WF) {x x' : ℚ} (hx : 0 ≤ x)
    (h : x ≤ x') : quant c x ≤ quant c x' := by
  have hx' : 0 ≤ x' := le_trans hx h
  rw [quant_eq, quant_eq, signOut_of_nonneg c hx, signOut_of_nonneg c hx', magIn_of_nonneg c hx,
    magIn_of_nonneg c hx', one_mul, one_mul]
  exact pow2_le_pow2 (expDet_mono c hq hw.epsPos hw.mvPos h)

theorem C03_mono_neg (c : Cfg) (hq : c.quad = false) (hw : c.WF) {x x' : ℚ} (hx' : x' < 0)
    (h : x ≤ x') : quant c x ≤ quant c x' := by
  have hx : x < 0 := lt_of_le_of_lt h hx'
  rcases neg_cases c hw.slope hx with ⟨s, hs, h1, h2, hall⟩ | ⟨_, hs0, h1, h2⟩
  · obtain ⟨h1', h2'⟩ := hall x' hx'
    rw [quant_eq, quant_eq, h1, h2, h1', h2']
    have : expDet c (-x' * s) ≤ expDet c (-x * s) :=
      expDet_mono c hq hw.epsPos hw.mvPos (by nlinarith)
    have := pow2_le_pow2 this
    linarith
  · rcases neg_cases c hw.slope hx' with ⟨s, hs, _, _, hall⟩ | ⟨_, _, h1', h2'⟩
    · -- impossible: the slope is zero, so x' is in the zero branch as well
      obtain ⟨h1x, _⟩ := hall x hx
      rw [h1] at h1x; norm_num at h1x
    · rw [quant_eq, quant_eq, h1, h2, h1', h2']

/-- band robustness of monotonicity: with arbitrary admissible roundings an order inversion of
    the exponents can only happen in "rnd" mode and only when both arguments of the logarithm sit
    in the band of one and the same breakpoint (the one between `r - 1` and `r`); "floor" mode
    never inverts. -/
theorem C03_mono_band (c : Cfg) (hq : c.quad = false) {v v' : ℚ} (hv : 0 < v) (h : v ≤ v') {r r' : ℤ}
    (ha : RawAdm c v r) (ha' : RawAdm c v' r') :
    r ≤ r' ∨ (c.floorMode = false ∧ r' = r - 1 ∧ bandLo c r ≤ key c v ∧ key c v' ≤ bandHi c (r - 1)) := by
  rcases le_or_gt r r' with hle | hlt
  · exact Or.inl hle
  · obtain ⟨hf, this⟩ := rawAdm_order c hq hv h ha ha' hlt
    subst this
    exact Or.inr ⟨hf, rfl, ((rawAdm_rnd c hf _ _).mp ha).1, ((rawAdm_rnd c hf _ _).mp ha').2⟩

/-! ## idempotent when no leaky slope is configured

  `C03_idem` holds for both rounding modes and EVERY admissible float rounding on both passes
  (before fix 40deb9c "floor" mode failed at exact powers of two; `C03_idem_floor_pow2_regression`
  pins the repaired behaviour).  The hypothesis `EpsOK` is what is still missing in "floor" mode
  for configurations with `min_exp < -24` (`C03_idem_floor_eps_counterexample`, recorded finding). -/

/-- what the first pass guarantees about its exponent: it is the smallest code or a code `≥ eps`,
    and never above `max_value` -/
theorem C03_first_pass_code (c : Cfg) (hq : c.quad = false) (hw : c.WF) (hmv : MvOK c) (heps : EpsOK c)
    (x : ℚ) (r : ℤ) (ha : RawAdm c (logArg c x) r) :
    let e := clipExpWith c (magIn c x) r
    (e = c.minExp ∨ c.eps ≤ pow2 e) ∧ ∀ m, c.maxValue = some m → pow2 e ≤ m := by
  intro e
  have hmm := minExp_le_maxExp c hq
  constructor
  · show clipExpWith c (magIn c x) r = c.minExp ∨ c.eps ≤ pow2 (clipExpWith c (magIn c x) r)
    unfold clipExpWith
    split_ifs with hlt
    · exact Or.inl rfl
    · rw [qf_one c hq, one_mul]
      have hge : ∀ m, c.maxValue = some m → c.eps ≤ m := by
        intro m hm
        rcases hmv with h | ⟨k, hk, _, hk2⟩
        · rw [h] at hm; cases hm
        · rw [hk] at hm; cases hm; exact hk2
      have hv : c.eps ≤ logArg c x := eps_le_xFilter c _ hge
      rcases heps (logArg c x) r hv ha with h | h
      · by_cases hr : r ≤ c.maxExp
        · by_cases hr2 : c.minExp ≤ r
          · rw [clipI_id hr2 hr]; exact Or.inr h
          · left; unfold clipI; rw [if_pos (by omega)]
        · right
          have : clipI r c.minExp c.maxExp = c.maxExp := by unfold clipI; split_ifs <;> omega
          rw [this]
          have h0 : pow2 0 ≤ pow2 c.maxExp := pow2_le_pow2 (maxExp_nonneg c hq)
          rw [pow2_zero] at h0
          linarith [hw.epsLe]
      · left; unfold clipI; split_ifs <;> omega
  · intro m hm
    rcases hmv with h | ⟨k, hk, hk1, _⟩
    · rw [h] at hm; cases hm
    · have := C03_le_max c hq hw.epsPos k hk hk1 x r ha
      rw [abs_quantWith] at this
      rw [hk] at hm; cases hm; exact this

/-- such a code `s·2^e` is a fixed point of the second pass whenever the second logarithm is
    rounded to `e` itself -/
theorem C03_code_fixed_point (c : Cfg) (hq : c.quad = false) (hw : c.WF) (hs : c.negSlope = 0) (s : ℚ)
    (hs1 : s = 1 ∨ (s = -1 ∧ c.relu = false)) (e : ℤ) (he1 : c.minExp ≤ e) (he2 : e ≤ c.maxExp)
    (hcode : e = c.minExp ∨ c.eps ≤ pow2 e) (hle : ∀ m, c.maxValue = some m → pow2 e ≤ m) (r : ℤ)
    (hr : ¬ pow2 e < c.eps → r = e) : quantWith c (s * pow2 e) r = s * pow2 e := by
  have hp := pow2_pos e
  have hsign : signOut c (s * pow2 e) = s := by
    rcases hs1 with h | ⟨h, hr⟩
    · rw [h, one_mul]; exact signOut_of_nonneg c hp.le
    · rw [h]; unfold signOut; simp [hr]; intro h'; linarith
  have hmag : magIn c (s * pow2 e) = pow2 e := by
    rcases hs1 with h | ⟨h, hr⟩
    · rw [h, one_mul]; exact magIn_of_nonneg c hp.le
    · rw [h]; unfold magIn rabs; simp [hr]; intro h'; linarith
  unfold quantWith
  rw [hsign, hmag]
  congr 1
  unfold clipExpWith
  split_ifs with hlt
  · rcases hcode with h | h
    · rw [h]
    · exact absurd hlt (not_lt.mpr h)
  · rw [qf_one c hq, one_mul, hr hlt, clipI_id he1 he2]

theorem C03_idem (c : Cfg) (hq : c.quad = false) (hw : c.WF)
    (hs : c.negSlope = 0) (hmv : MvOK c) (heps : EpsOK c) (x y z : ℚ)
    (h1 : Admissible c x y) (h2 : Admissible c y z) : z = y := by
  obtain ⟨r1, ha1, rfl⟩ := h1
  obtain ⟨r2, ha2, rfl⟩ := h2
  obtain ⟨hcode, hle⟩ := C03_first_pass_code c hq hw hmv heps x r1 ha1
  obtain ⟨hm1, hm2⟩ := clipExpWith_mem c hq (magIn c x) r1
  set e := clipExpWith c (magIn c x) r1 with he
  have hsx : signOut c x = 1 ∨ (signOut c x = -1 ∧ c.relu = false) := by
    rcases signOut_cases c x with h | h
    · exact Or.inl h
    · right; refine ⟨h, ?_⟩
      by_contra hr
      have hr' : c.relu = true := by cases hc : c.relu <;> simp_all
      unfold signOut posBranch at h; simp [hr', hs] at h; norm_num at h
  have hq1 : quantWith c x r1 = signOut c x * pow2 e := rfl
  rw [hq1] at ha2 ⊢
  apply C03_code_fixed_point c hq hw hs (signOut c x) hsx e hm1 hm2 hcode hle r2
  intro hge
  -- the argument of the second logarithm is 2^e itself, where neither mode leaves a choice
  have hmag : magIn c (signOut c x * pow2 e) = pow2 e := by
    have hp := pow2_pos e
    rcases hsx with h | ⟨h, hr⟩
    · rw [h, one_mul]; exact magIn_of_nonneg c hp.le
    · rw [h]; unfold magIn rabs; simp [hr]; intro h'; linarith
  have hv : logArg c (signOut c x * pow2 e) = pow2 e := by
    unfold logArg; rw [hmag]; exact xFilter_id c _ hge hle
  rw [hv] at ha2
  exact rawAdm_pow2 c hq e r2 ha2

/-! ## `min()` / `max()` enclose every output -/

/-- upper bound, every configuration (leaky slopes included): `|q(x)| ≤ max()` -/
theorem C03_abs_le_max (c : Cfg) (hq : c.quad = false) (hw : c.WF) (hmv : MvOK c) (x : ℚ) (r : ℤ)
    (ha : RawAdm c (logArg c x) r) : |quantWith c x r| ≤ qmax c := by
  rcases hmv with h | ⟨k, hk, hk1, _⟩
  · have : qmax c = rmax 1 (pow2 c.maxExp) := by unfold qmax truthy; rw [h]
    rw [this, abs_quantWith]
    exact le_trans (pow2_le_pow2 (clipExpWith_mem c hq _ r).2) (le_rmax_right _ _)
  · have : qmax c = rmax 1 (pow2 k) := by
      unfold qmax truthy; rw [hk]; simp [pow2_ne_zero]
    rw [this]
    exact le_trans (C03_le_max c hq hw.epsPos k hk hk1 x r ha) (le_rmax_right _ _)

theorem C03_minmax_enclose (c : Cfg) (hq : c.quad = false) (hw : c.WF) (hmv : MvOK c)
    (x : ℚ) (r : ℤ) (ha : RawAdm c (logArg c x) r) :
    qmin c ≤ quantWith c x r ∧ quantWith c x r ≤ qmax c := by
  have habs := C03_abs_le_max c hq hw hmv x r ha
  have h2 : quantWith c x r ≤ qmax c := le_trans (le_abs_self _) habs
  refine ⟨?_, h2⟩
  cases hr : c.relu
  · have : qmin c = - qmax c := by unfold qmin; simp [hr]
    rw [this]; linarith [neg_abs_le (quantWith c x r)]
  · by_cases hnl : c.negSlope = 0
    · have : qmin c = pow2 c.minExp := by unfold qmin; simp [hr, hnl]
      rw [this]
      have hs : signOut c x = 1 := by unfold signOut posBranch; simp [hr, hnl]
      unfold quantWith; rw [hs, one_mul]
      exact pow2_le_pow2 (clipExpWith_mem c hq _ r).1
    · have : qmin c = - qmax c := by unfold qmin; simp [hr, hnl]
      rw [this]; linarith [neg_abs_le (quantWith c x r)]

/-- regression witness of fix 06b857d: `quantized_relu_po2(4, negative_slope=0.25)`:
    `q(-1000) = -128` and `min() = -128` (was `-2`). -/
theorem C03_minmax_leaky_regression :
    let c : Cfg := { relu := true, bits := 4, maxValue := none, negSlope := 1 / 4,
                     floorMode := false, quad := false, eps := epsF32 }
    RawAdm c (logArg c (-1000)) 8 ∧ quantWith c (-1000) 8 = -128 ∧ qmin c = -128 := by
  intro c
  have hmin : c.minExp = -8 := by simp [c, Cfg.minExp, Cfg.effBits, needSign]
  have hmax : c.maxExp = 7 := by simp [c, Cfg.maxExp, Cfg.maxExp0, Cfg.effBits, needSign]
  have hmag : magIn c (-1000) = 250 := by simp [c, magIn, posBranch]; norm_num
  have hlog : logArg c (-1000) = 250 := by
    unfold logArg; rw [hmag]; simp [c, xFilter, epsF32]; norm_num
  refine ⟨?_, ?_, ?_⟩
  · rw [hlog, rawAdm_rnd c rfl]; unfold RndAdm key bandLo bandHi
    simp only [c, beta, pow2_eq_zpow]; norm_num
  · unfold quantWith clipExpWith
    rw [hmag, hmin, hmax]
    simp [c, signOut, posBranch, Cfg.qf, clipI, epsF32, pow2_eq_zpow]; norm_num
  · unfold qmin qmax; rw [hmax]; simp [c, truthy, rmax, pow2_eq_zpow]; norm_num

/-! ## the epsilon hypothesis is satisfiable by the real epsilon -/

theorem epsF32_pos : 0 < epsF32 := by norm_num [epsF32]

/-- "rnd": float32(1e-7) satisfies `EpsOK` for every configuration -/
theorem C03_epsOK_rnd (c : Cfg) (hq : c.quad = false) (hf : c.floorMode = false) (he : c.eps = epsF32) :
    EpsOK c := by
  intro v r hv ha
  have hkey : key c c.eps ≤ bandHi c r :=
    le_trans (key_mono c hq (by rw [he]; exact epsF32_pos.le) hv) ((rawAdm_rnd c hf _ _).mp ha).2
  rw [key_nq c hq, bandHi_eq, he] at hkey
  rw [he]
  by_cases hr : r ≤ -24
  · exfalso
    have h1 : pow2 (2 * r + 1) ≤ pow2 (-47) := pow2_le_pow2 (by omega)
    have h2 : epsF32 * epsF32 ≤ pow2 (-47) * ((1 + beta) * (1 + beta)) :=
      le_trans hkey (mul_le_mul_of_nonneg_right h1 sq_add_pos.le)
    rw [pow2_eq_zpow] at h2
    norm_num [epsF32, beta] at h2
  · left
    have h1 : pow2 (-23) ≤ pow2 r := pow2_le_pow2 (by omega)
    have h2 : epsF32 ≤ pow2 (-23) := by rw [pow2_eq_zpow]; norm_num [epsF32]
    linarith

/-- "floor": float32(1e-7) satisfies `EpsOK` when `min_exp ≥ -24` (at most 4 effective bits) -/
theorem C03_epsOK_floor (c : Cfg) (hq : c.quad = false) (hf : c.floorMode = true) (he : c.eps = epsF32)
    (hmin : -24 ≤ c.minExp) : EpsOK c := by
  intro v r hv ha
  have hpos : 0 < v := lt_of_lt_of_le (by rw [he]; exact epsF32_pos) hv
  obtain ⟨_, _, h2⟩ := (fun h => h) (show r = rawExp c v ∧ pow2 r ≤ v ∧ v < pow2 (r + 1) from by
    have hr := rawAdm_floor_unique c hq hf v hpos r ha
    rw [hr]; exact ⟨rfl, rawExp_floor_spec c hq hf v hpos⟩)
  rw [he] at hv ⊢
  by_cases hr : r ≤ -25
  · exfalso
    have h1 : pow2 (r + 1) ≤ pow2 (-24) := pow2_le_pow2 (by omega)
    have h3 : epsF32 < pow2 (-24) := lt_of_le_of_lt hv (lt_of_lt_of_le h2 h1)
    rw [pow2_eq_zpow] at h3
    norm_num [epsF32] at h3
  · by_cases hr2 : r = -24
    · right; omega
    · left
      have h1 : pow2 (-23) ≤ pow2 r := pow2_le_pow2 (by omega)
      have h3 : epsF32 ≤ pow2 (-23) := by rw [pow2_eq_zpow]; norm_num [epsF32]
      linarith

/-! ## repaired defects (regression witnesses) and recorded defects (known/C03.json) -/

/-- regression witness of fix 40deb9c ("floor" + float logarithm): at the code `2^15` the float
    rounding of the logarithm may be 15 (or, inside a band, a neighbour), but every admissible
    evaluation returns `2^15` — before the fix `quantized_po2(8, log2_rounding="floor")(32768.)`
    was `16384.` -/
theorem C03_idem_floor_pow2_regression :
    let c : Cfg := { relu := false, bits := 8, maxValue := none, negSlope := 0,
                     floorMode := true, quad := false, eps := epsF32 }
    Admissible c 32768 32768 ∧ ∀ z, Admissible c 32768 z → z = 32768 := by
  intro c
  have hmin : c.minExp = -64 := by simp [c, Cfg.minExp, Cfg.effBits, needSign]
  have hmax : c.maxExp = 63 := by simp [c, Cfg.maxExp, Cfg.maxExp0, Cfg.effBits, needSign]
  have hmag : magIn c 32768 = 32768 := magIn_of_nonneg c (by norm_num)
  have hp : (32768 : ℚ) = pow2 15 := by rw [pow2_eq_zpow]; norm_num
  have hlog : logArg c 32768 = pow2 15 := by
    unfold logArg; rw [hmag]; simp [c, xFilter, epsF32]; norm_num [hp.symm]
  have hq15 : quantWith c 32768 15 = 32768 := by
    unfold quantWith clipExpWith
    rw [hmag, signOut_of_nonneg c (by norm_num), hmin, hmax, one_mul,
      clipI_id (by norm_num) (by norm_num)]
    simp [c, Cfg.qf, epsF32, pow2_eq_zpow]; norm_num
  constructor
  · refine ⟨15, ?_, hq15.symm⟩
    rw [hlog]
    have := rawExp_adm c rfl (pow2 15) (pow2_pos 15)
    rwa [rawExp_pow2_floor c rfl rfl] at this
  · rintro z ⟨r, ha, rfl⟩
    rw [hlog] at ha
    rw [rawAdm_pow2 c rfl 15 r ha]; exact hq15

/-- "floor" + epsilon floor: `x = eps` is sent to `2^-24 < eps`, and `2^-24` is sent to the
    smallest code `2^-64` by every rounding: `q(q(x)) ≠ q(x)` (needs `min_exp < -24`). -/
theorem C03_idem_floor_eps_counterexample :
    let c : Cfg := { relu := false, bits := 8, maxValue := none, negSlope := 0,
                     floorMode := true, quad := false, eps := epsF32 }
    quant c epsF32 = pow2 (-24) ∧ ∀ r : ℤ, quantWith c (pow2 (-24)) r = pow2 (-64) := by
  intro c
  have hmin : c.minExp = -64 := by simp [c, Cfg.minExp, Cfg.effBits, needSign]
  have hmax : c.maxExp = 63 := by simp [c, Cfg.maxExp, Cfg.maxExp0, Cfg.effBits, needSign]
  constructor
  · have hmag : magIn c epsF32 = epsF32 := magIn_of_nonneg c epsF32_pos.le
    have hlog : logArg c epsF32 = epsF32 := by unfold logArg; rw [hmag]; simp [c, xFilter]
    have hraw : rawExp c epsF32 = -24 := by
      have : rawExp c epsF32 = floorLog2Rat epsF32 := by simp [c, rawExp]
      rw [this]
      apply floorLog2Rat_unique <;> · rw [pow2_eq_zpow]; norm_num [epsF32]
    unfold quant quantWith clipExpWith
    rw [hlog, hraw, hmag, signOut_of_nonneg c epsF32_pos.le, hmin, hmax]
    simp [c, Cfg.qf, clipI]
  · intro r
    have hp : (0 : ℚ) ≤ pow2 (-24) := (pow2_pos _).le
    unfold quantWith clipExpWith
    rw [magIn_of_nonneg c hp, signOut_of_nonneg c hp, hmin, one_mul]
    have : pow2 (-24) < c.eps := by rw [pow2_eq_zpow]; norm_num [c, epsF32]
    rw [if_pos this]

/-- quadratic approximation doubles the clipped exponent: `quantized_po2(4, quadratic_approximation
    =True)` has `max_exp = 2`, `max() = 4`, and `q(100) = 16`. -/
theorem C03_quad_range_counterexample :
    let c : Cfg := { relu := false, bits := 4, maxValue := none, negSlope := 0,
                     floorMode := false, quad := true, eps := epsF32 }
    c.maxExp = 2 ∧ qmax c = 4 ∧ RawAdm c (logArg c 100) 3 ∧ quantWith c 100 3 = 16 := by
  intro c
  have hmin : c.minExp = -4 := by simp [c, Cfg.minExp, Cfg.effBits, needSign]
  have hmax : c.maxExp = 2 := by simp [c, Cfg.maxExp, Cfg.maxExp0, Cfg.effBits, needSign]
  have hmag : magIn c 100 = 100 := magIn_of_nonneg c (by norm_num)
  have hlog : logArg c 100 = 100 := by
    unfold logArg; rw [hmag]; simp [c, xFilter, epsF32]; norm_num
  refine ⟨hmax, ?_, ?_, ?_⟩
  · unfold qmax; rw [hmax]; simp [c, truthy, rmax, pow2_eq_zpow]; norm_num
  · rw [hlog, rawAdm_rnd c rfl]; unfold RndAdm key bandLo bandHi; simp only [c, beta, pow2_eq_zpow]; norm_num
  · unfold quantWith clipExpWith
    rw [hmag, signOut_of_nonneg c (by norm_num), hmin, hmax]
    simp [c, Cfg.qf, clipI, epsF32, pow2_eq_zpow]; norm_num

/-- float32 underflow: `quantized_relu_po2(8)` has `min_exp = -128`; the float32 layer returns 0
    for the input 0 whereas the smallest code is `2^-128` (which `min()` reports). -/
theorem C03_underflow_counterexample :
    let c : Cfg := { relu := true, bits := 8, maxValue := none, negSlope := 0,
                     floorMode := false, quad := false, eps := epsF32 }
    ∀ r : ℤ, quantWith c 0 r = pow2 (-128) ∧ quantFWith c 0 r = some 0 ∧ qmin c = pow2 (-128) := by
  intro c r
  have hmin : c.minExp = -128 := by simp [c, Cfg.minExp, Cfg.effBits, needSign]
  have h0 : quantWith c 0 r = pow2 (-128) := by
    rw [C03_zero_to_min c (by norm_num [c, epsF32]) r, hmin]
  refine ⟨h0, ?_, ?_⟩
  · have hd : daz 0 = 0 := by unfold daz rabs; simp
    have he : clipExpWith c (magIn c 0) r = -128 := by
      unfold clipExpWith; rw [magIn_of_nonneg c le_rfl, hmin]; simp [c, epsF32]
    unfold quantFWith
    simp only [hd, he]
    simp [pow2F, steBase, steOut, rnd32, c]
  · unfold qmin; rw [hmin]; simp [c]

/-! ## float32 layer: when it equals the exact layer, and when it does not -/

/-- If the input is not subnormal, the selected exponent is a normal float32 exponent and the
    difference `xq - base` of the straight-through expression is a float32 (`rnd32` leaves it
    alone), then the float32 evaluation returns exactly the exact-layer output. -/
theorem C03_f32_exact (c : Cfg) (x : ℚ) (r : ℤ) (hx : daz x = x)
    (h1 : -126 ≤ clipExpWith c (magIn c x) r) (h2 : clipExpWith c (magIn c x) r ≤ 127) (b : ℚ)
    (hb : steBase c x = some b)
    (hd : rnd32 (quantWith c x r - b) = some (quantWith c x r - b)) :
    quantFWith c x r = some (quantWith c x r) := by
  have hp : pow2F (clipExpWith c (magIn c x) r) = some (pow2 (clipExpWith c (magIn c x) r)) := by
    unfold pow2F; rw [if_neg (by omega), if_neg (by omega)]
  have hq : signOut c x * pow2 (clipExpWith c (magIn c x) r) = quantWith c x r := rfl
  unfold quantFWith
  simp only [hx, hp, hb, hq]
  unfold steOut
  rw [hd]
  simp only
  rw [show b + (quantWith c x r - b) = quantWith c x r by ring]
  exact rnd32_pow2 _ (signOut_cases c x) _ h1 h2

/-- the hypothesis of `C03_f32_exact` is satisfiable: `quantized_po2(4)` at `x = 3`, `r = 2`
    (`xq - x = 1`) -/
example : let c : Cfg := { relu := false, bits := 4, maxValue := none, negSlope := 0,
                           floorMode := false, quad := false, eps := epsF32 }
    quantWith c 3 2 = 4 ∧ quantFWith c 3 2 = some 4 := by
  intro c
  have hmin : c.minExp = -4 := by simp [c, Cfg.minExp, Cfg.effBits, needSign]
  have hmax : c.maxExp = 3 := by simp [c, Cfg.maxExp, Cfg.maxExp0, Cfg.effBits, needSign]
  have he : clipExpWith c (magIn c 3) 2 = 2 := by
    unfold clipExpWith; rw [magIn_of_nonneg c (by norm_num), hmin, hmax]
    simp [c, Cfg.qf, clipI, epsF32]; norm_num
  have hq : quantWith c 3 2 = 4 := by
    unfold quantWith; rw [he, signOut_of_nonneg c (by norm_num), pow2_eq_zpow]; norm_num
  refine ⟨hq, ?_⟩
  rw [← hq]
  apply C03_f32_exact c 3 2 _ (by rw [he]; norm_num) (by rw [he]; norm_num) 3 (by simp [c, steBase])
  · rw [hq]
    have := rnd32_pow2 1 (Or.inl rfl) 0 (by norm_num) (by norm_num)
    rw [pow2_zero] at this
    norm_num at this ⊢
    exact this
  · unfold daz rabs; rw [pow2_eq_zpow]; norm_num

/-- straight-through cancellation: `quantized_po2(4)(1e10)`: the selected code is 8, but
    `-1e10 + 8` rounds to `-1e10` in float32 and the float32 layer returns 0. -/
theorem C03_ste_cancel_counterexample :
    let c : Cfg := { relu := false, bits := 4, maxValue := none, negSlope := 0,
                     floorMode := false, quad := false, eps := epsF32 }
    RawAdm c (logArg c 10000000000) 33 ∧ quantWith c 10000000000 33 = 8 ∧
    quantFWith c 10000000000 33 = some 0 := by
  intro c
  have hmin : c.minExp = -4 := by simp [c, Cfg.minExp, Cfg.effBits, needSign]
  have hmax : c.maxExp = 3 := by simp [c, Cfg.maxExp, Cfg.maxExp0, Cfg.effBits, needSign]
  have hmag : magIn c 10000000000 = 10000000000 := magIn_of_nonneg c (by norm_num)
  have hlog : logArg c 10000000000 = 10000000000 := by
    unfold logArg; rw [hmag]; simp [c, xFilter, epsF32]; norm_num
  have he : clipExpWith c (magIn c 10000000000) 33 = 3 := by
    unfold clipExpWith; rw [hmag, hmin, hmax]
    simp [c, Cfg.qf, clipI, epsF32]; norm_num
  have hq : quantWith c 10000000000 33 = 8 := by
    unfold quantWith; rw [he, signOut_of_nonneg c (by norm_num), pow2_eq_zpow]; norm_num
  have hd : daz 10000000000 = 10000000000 := by unfold daz rabs; rw [pow2_eq_zpow]; norm_num
  -- float32(8 - 1e10) = -1e10
  have hr : rnd32 (8 - 10000000000) = some (-10000000000) := by
    have ha : rabs (8 - 10000000000 : ℚ) = 9999999992 := by unfold rabs; norm_num
    have hfl : floorLog2Rat (9999999992 : ℚ) = 33 := by
      apply floorLog2Rat_unique <;> · rw [pow2_eq_zpow]; norm_num
    have hrh : roundHalfEven ((9999999992 : ℚ) / pow2 (33 - 23)) = 9765625 := by
      have := roundHalfEven_up ((9999999992 : ℚ) / pow2 (33 - 23)) 9765624
        (by rw [pow2_eq_zpow]; norm_num) (by rw [pow2_eq_zpow]; norm_num)
      rw [this]; norm_num
    unfold rnd32
    rw [if_neg (by norm_num)]
    simp only [ha, hfl, hrh]
    rw [pow2_eq_zpow, pow2_eq_zpow, pow2_eq_zpow]
    norm_num
  refine ⟨?_, hq, ?_⟩
  · rw [hlog, rawAdm_rnd c rfl]; unfold RndAdm key bandLo bandHi; simp only [c, beta, pow2_eq_zpow]; norm_num
  · have hp : pow2F 3 = some 8 := by unfold pow2F; rw [pow2_eq_zpow]; norm_num
    unfold quantFWith
    simp only [hd, he, hp]
    have hb : steBase c 10000000000 = some 10000000000 := by simp [c, steBase]
    rw [hb, signOut_of_nonneg c (by norm_num)]
    simp only [one_mul]
    unfold steOut
    rw [hr]
    simp only
    rw [show (10000000000 : ℚ) + -10000000000 = 0 by norm_num]
    exact rnd32_zero

/-! ## non-vacuity: the hypotheses are satisfiable by real configurations -/

/-- the default `quantized_po2(8)` is well formed, has `MvOK` and (in "rnd" mode) `EpsOK` -/
example : let c : Cfg := { relu := false, bits := 8, maxValue := none, negSlope := 0,
                           floorMode := false, quad := false, eps := epsF32 }
    c.WF ∧ MvOK c ∧ EpsOK c := by
  intro c
  refine ⟨⟨by simp [c], epsF32_pos, by norm_num [c, epsF32], by simp [c], by simp [c], by simp [c]⟩,
    Or.inl rfl, C03_epsOK_rnd c rfl rfl rfl⟩

/-- `quantized_relu_po2(3, max_value=4, negative_slope=1/8, log2_rounding="floor")`: well formed,
    `MvOK` with `k = 2`, `EpsOK` (min_exp = -4 ≥ -24) -/
example : let c : Cfg := { relu := true, bits := 3, maxValue := some (pow2 2), negSlope := 1 / 8,
                           floorMode := true, quad := false, eps := epsF32 }
    c.WF ∧ MvOK c ∧ EpsOK c := by
  intro c
  have hmin : c.minExp = -4 := by
    have : (1 : ℚ) < pow2 2 := by rw [pow2_eq_zpow]; norm_num
    simp [c, Cfg.minExp, Cfg.effBits, needSign, this]
  refine ⟨⟨by simp [c], epsF32_pos, by norm_num [c, epsF32], ?_, by norm_num [c], by simp [c]⟩,
    Or.inr ⟨2, rfl, by rw [hmin]; norm_num, by rw [pow2_eq_zpow]; norm_num [c, epsF32]⟩,
    C03_epsOK_floor c rfl rfl rfl (by rw [hmin]; norm_num)⟩
  intro m hm
  simp only [c, Option.some.injEq] at hm
  rw [← hm]; exact pow2_pos 2

/-! ## strengthening round (seed C03-5): argument spellings, stochastic flag, object histories

  `Ctor` is the constructor call as written (every numeric argument with its spelling), `RawAdmS`
  adds `use_stochastic_rounding` and the learning phase, `Obj` is one quantizer object over a
  history of re-configurations (cached exponent range + live attributes). -/

/-- the stored configuration — hence every output, the exponent interval and every theorem above —
    depends on the VALUES of the constructor arguments only, not on how they are spelled (python
    int / float, numpy scalar of any type, 0-d ndarray, tf constant / variable) -/
theorem C03_ctor_value_only (k k' : Ctor) (eps : ℚ) (h : k.SameValues k') : k.cfg eps = k'.cfg eps := by
  obtain ⟨h1, h2, h3, h4, -, h6, h7⟩ := h
  unfold Ctor.cfg
  rw [h1, h2, h3, h4, h6, h7]

/-- the exponent interval of a constructor call: `[-2^n, 2^n - 1]`, `n = bits - 1 - s` (relu
    variant `bits - s`), where `s = 0` iff the VALUE of `max_value` is `≤ 1` — whatever its type
    (this is what seed C03-5 breaks for numpy scalars other than float64) -/
theorem C03_ctor_exp_interval (k : Ctor) (eps : ℚ) (hq : k.quad = false) :
    let c := k.cfg eps
    let n := (if k.relu then k.bits else k.bits - 1) -
      (match k.maxValue with | none => 1 | some m => if 1 < m.val then 1 else 0)
    c.minExp = -(2 : ℤ) ^ n ∧ c.maxExp = (2 : ℤ) ^ n - 1 := by
  intro c n
  obtain ⟨h1, h2, h3⟩ := C03_exp_interval c hq
  have hn : c.effBits = n := by
    rw [h3]
    show (if k.relu then k.bits else k.bits - 1) -
      (match k.maxValue.map (·.val) with | none => 1 | some m => if 1 < m then 1 else 0) = n
    cases hm : k.maxValue <;> simp [n, hm]
  rw [← hn]; exact ⟨h1, h2⟩

/-- `min()/max()` as python evaluates them are the proved `qmin/qmax` for EVERY spelling of `bits`
    — python int / float, numpy float, numpy integer of either width, 0-d ndarray, tf constant /
    variable: `min()` never raises and no power wraps around.  (Before the fix round this was
    `C03_form_minmax_partial` + `C03_npint_minmax_partial`: numpy integers were excluded, resp.
    needed `max_exp < w - 1` and excluded the plain relu variant's `min()`.) -/
theorem C03_form_minmax (bf : NumForm) (c : Cfg) :
    qmaxForm bf c = qmax c ∧ qminForm bf c = some (qmin c) := by
  have h1 : qmaxForm bf c = qmax c := rfl
  refine ⟨h1, ?_⟩
  unfold qminForm qmin
  rw [h1]
  by_cases hr : c.relu = true <;> by_cases hs : c.negSlope = 0 <;> simp [hr, hs]

/-- hence `min()/max()` of a quantizer built from ANY spelling of the constructor call enclose
    every output (the last clause of the property, for the call as written) -/
theorem C03_ctor_minmax_enclose (k : Ctor) (eps : ℚ) (hq : k.quad = false) (hw : (k.cfg eps).WF)
    (hmv : MvOK (k.cfg eps)) (x : ℚ) (r : ℤ) (ha : RawAdm (k.cfg eps) (logArg (k.cfg eps) x) r) :
    ∃ lo, qminForm k.bitsForm (k.cfg eps) = some lo ∧ lo ≤ quantWith (k.cfg eps) x r ∧
      quantWith (k.cfg eps) x r ≤ qmaxForm k.bitsForm (k.cfg eps) := by
  obtain ⟨h1, h2⟩ := C03_form_minmax k.bitsForm (k.cfg eps)
  have he := C03_minmax_enclose (k.cfg eps) hq hw hmv x r ha
  exact ⟨_, h2, he.1, h1 ▸ he.2⟩

/-- regression witness of the former finding `C03-numpy-int-bits` (a), former
    `C03_npint_min_raises_counterexample`: `quantized_relu_po2(np.int64(4)).min()` used to raise
    (`2**np.int64(-8)`: "Integers to negative integer powers are not allowed"); it is `2^-8` now,
    as for a python-int `bits` -/
theorem C03_npint_min_fixed_witness :
    let k : Ctor := { relu := true, bits := 4, bitsForm := .npInt64, maxValue := none, negSlope := ⟨.pyInt, 0⟩,
                      stochastic := false, quad := false, floorMode := false }
    qminForm k.bitsForm (k.cfg epsF32) = some (pow2 (-8)) ∧
    qminForm .pyInt (k.cfg epsF32) = some (pow2 (-8)) := by
  intro k
  have : (k.cfg epsF32).minExp = -8 := by
    simp [k, Ctor.cfg, Cfg.minExp, Cfg.effBits, needSign]
  constructor
  · show qminForm NumForm.npInt64 (k.cfg epsF32) = some (pow2 (-8))
    simp only [qminForm, this]
    simp [k, Ctor.cfg]
  · simp only [qminForm, this]
    simp [k, Ctor.cfg]

/-- regression witness of the former finding `C03-numpy-int-bits` (b), former
    `C03_npint_max_wraps_counterexample`: `quantized_po2(np.int64(8)).max()` used to be `1.0`
    (`2**np.int64(63)` wraps) while `q(2^40) = 2^40`; it is `2^63` now and encloses that output -/
theorem C03_npint_max_fixed_witness :
    let k : Ctor := { relu := false, bits := 8, bitsForm := .npInt64, maxValue := none, negSlope := ⟨.pyInt, 0⟩,
                      stochastic := false, quad := false, floorMode := false }
    let c := k.cfg epsF32
    qmaxForm k.bitsForm c = pow2 63 ∧ qminForm k.bitsForm c = some (- pow2 63) ∧
    RawAdm c (logArg c (pow2 40)) 40 ∧ quantWith c (pow2 40) 40 = pow2 40 ∧
    quantWith c (pow2 40) 40 ≤ qmaxForm k.bitsForm c ∧
    qmaxForm .pyInt c = pow2 63 := by
  intro k c
  have hmin : c.minExp = -64 := by simp [c, k, Ctor.cfg, Cfg.minExp, Cfg.effBits, needSign]
  have hmax : c.maxExp = 63 := by simp [c, k, Ctor.cfg, Cfg.maxExp, Cfg.maxExp0, Cfg.effBits, needSign]
  have hp : (0 : ℚ) ≤ pow2 40 := (pow2_pos 40).le
  have hmag : magIn c (pow2 40) = pow2 40 := magIn_of_nonneg c hp
  have hlog : logArg c (pow2 40) = pow2 40 := by
    unfold logArg; rw [hmag]; simp [c, k, Ctor.cfg, xFilter, epsF32, pow2_eq_zpow]; norm_num
  have hq : ∀ bf, qmaxForm bf c = pow2 63 := by
    intro bf
    unfold qmaxForm; rw [hmax]
    simp [c, k, Ctor.cfg, truthy, rmax, pow2_eq_zpow]; norm_num
  have hy : quantWith c (pow2 40) 40 = pow2 40 := by
    unfold quantWith clipExpWith
    rw [hmag, hmin, hmax, signOut_of_nonneg c hp]
    simp [c, k, Ctor.cfg, Cfg.qf, clipI, epsF32, pow2_eq_zpow]; norm_num
  refine ⟨hq _, ?_, ?_, hy, ?_, hq _⟩
  · have hr : c.relu = false := rfl
    unfold qminForm; rw [hq]; simp [hr]
  · rw [hlog, rawAdm_rnd c rfl]; unfold RndAdm key bandLo bandHi
    simp only [c, k, Ctor.cfg, beta, pow2_eq_zpow]; norm_num
  · rw [hy, hq]; exact pow2_le_pow2 (by norm_num)

/-! ### `use_stochastic_rounding` and the learning phase -/

/-- inference phase: the stochastic flag changes nothing (both rounding modes) -/
theorem C03_stochastic_inference (c : Cfg) (st : Bool) (v : ℚ) (r : ℤ) :
    RawAdmS c st false v r ↔ RawAdm c v r := by
  unfold RawAdmS; cases c.floorMode <;> simp

/-- `log2_rounding = "floor"` is tested before the stochastic branch: with "floor" the flag changes
    nothing in EITHER phase (seed C08-5 swaps the two tests) -/
theorem C03_stochastic_floor (c : Cfg) (hf : c.floorMode = true) (st tr : Bool) (v : ℚ) (r : ℤ) :
    RawAdmS c st tr v r ↔ RawAdm c v r := by
  unfold RawAdmS; simp [hf]

theorem C03_stochastic_admissible_inference (c : Cfg) (st : Bool) (x y : ℚ) :
    AdmissibleS c st false x y ↔ Admissible c x y := by
  unfold AdmissibleS Admissible
  constructor
  · rintro ⟨r, h, rfl⟩; exact ⟨r, (C03_stochastic_inference c st _ r).mp h, rfl⟩
  · rintro ⟨r, h, rfl⟩; exact ⟨r, (C03_stochastic_inference c st _ r).mpr h, rfl⟩

/-- "floor" with the stochastic flag, either phase: the output is the exact floor output -/
theorem C03_stochastic_floor_eq_exact (c : Cfg) (hq : c.quad = false) (hf : c.floorMode = true)
    (hw : c.WF) (st tr : Bool) (x y : ℚ) (h : AdmissibleS c st tr x y) : y = quant c x := by
  obtain ⟨r, ha, rfl⟩ := h
  exact C03_floor_admissible_eq_exact c hq hf hw x _ ⟨r, (C03_stochastic_floor c hf st tr _ r).mp ha, rfl⟩

/-- every phase, every flag: the output is a signed power of two with an in-range exponent
    (`C03_is_po2`, `C03_sign`, `C03_zero_to_min`, `C03_relu_negative_to_min`, `C03_leaky_negative`
    hold for EVERY rounded logarithm `r`, so they cover the training-phase stochastic choice) -/
theorem C03_stochastic_is_po2 (c : Cfg) (hq : c.quad = false) (st tr : Bool) (x y : ℚ)
    (h : AdmissibleS c st tr x y) : ∃ e : ℤ, c.minExp ≤ e ∧ e ≤ c.maxExp ∧ |y| = pow2 e := by
  obtain ⟨r, -, rfl⟩ := h
  exact C03_is_po2 c hq x r

/-- training phase, "rnd": `stochastic_round_po2` picks one of the two powers of two that bracket
    the input -/
theorem C03_stochastic_training_bracket (c : Cfg) (hq : c.quad = false) (hf : c.floorMode = false)
    (v : ℚ) (hv : 0 < v) (r : ℤ) (h : RawAdmS c true true v r) : pow2 (r - 1) ≤ v ∧ v < pow2 (r + 1) := by
  have hs : StochAdm c v r := by unfold RawAdmS at h; simpa [hf] using h
  have hfe : floorExp c v = floorLog2Rat v := by unfold floorExp; simp [hq]
  obtain ⟨h1, h2⟩ := floorLog2Rat_spec v hv
  rcases hs with h | h <;> rw [h, hfe]
  · exact ⟨le_trans (pow2_le_pow2 (by omega)) h1, h2⟩
  · exact ⟨by rw [show floorLog2Rat v + 1 - 1 = floorLog2Rat v by ring]; exact h1,
      lt_of_lt_of_le h2 (pow2_le_pow2 (by omega))⟩

/-! ### one object over a history of re-configurations -/

theorem C03_obj_init_coherent (k : Ctor) : (Obj.init k).Coherent := rfl

/-- a fresh object computes with the configuration of its constructor call -/
theorem C03_obj_init_view (k : Ctor) (eps : ℚ) (hb : (Obj.init k).BitsOK) :
    (Obj.init k).view eps = k.cfg eps := by
  unfold Obj.BitsOK at hb
  unfold Obj.view Obj.init Ctor.cfg Cfg.effBits at *
  simp only at hb ⊢
  congr 1
  cases hr : k.relu <;> simp [hr] at hb ⊢ <;> omega

/-- while the cache is coherent the object behaves exactly like a fresh twin built from its
    current attributes … -/
theorem C03_obj_coherent_view (o : Obj) (eps : ℚ) (hb : o.BitsOK) (hc : o.Coherent) :
    o.view eps = o.fresh eps := by
  unfold Obj.BitsOK at hb
  unfold Obj.Coherent Obj.fresh Cfg.effBits at hc
  unfold Obj.view Obj.fresh
  simp only at hc ⊢
  congr 1
  rw [hc]
  cases hr : o.relu <;> simp [hr] at hb ⊢ <;> omega

/-- … safe steps keep it coherent … -/
theorem C03_obj_step_coherent (o : Obj) (s : Step) (hb : o.BitsOK) (hc : o.Coherent) (hs : s.Safe o) :
    (o.step s).BitsOK ∧ (o.step s).Coherent := by
  unfold Obj.BitsOK Obj.Coherent Obj.fresh Cfg.effBits at *
  cases s <;> simp only [Obj.step, Step.Safe] at hs ⊢
  · rw [hs]; exact ⟨hb, hc⟩
  · exact ⟨hb, hc⟩
  · exact ⟨hb, hc⟩
  · exact ⟨hb, hc⟩
  · rw [hs]; exact ⟨hb, hc⟩

/-- … so after ANY history of safe re-configurations the k-th use equals a fresh twin's -/
theorem C03_obj_history_fresh (o : Obj) (steps : List Step) (eps : ℚ) (hb : o.BitsOK)
    (hc : o.Coherent) (hs : SafeRun o steps) : (o.run steps).view eps = (o.run steps).fresh eps := by
  induction steps generalizing o with
  | nil => exact C03_obj_coherent_view o eps hb hc
  | cons s rest ih =>
    obtain ⟨h1, h2⟩ := hs
    obtain ⟨hb', hc'⟩ := C03_obj_step_coherent o s hb hc h1
    exact ih (o.step s) hb' hc' h2

/-- recorded finding `C03-stale-exponent-range`: `q = quantized_po2(4); q.max_value = 0.5`: the
    clamp follows the new `max_value`, the exponent range stays `[-4, 3]` (a fresh
    `quantized_po2(4, 0.5)` has `[-8, 7]`): `q(2^-6) = 2^-4`, fresh twin `2^-6` -/
theorem C03_obj_stale_counterexample :
    let k : Ctor := { relu := false, bits := 4, bitsForm := .pyInt, maxValue := none, negSlope := ⟨.pyInt, 0⟩,
                      stochastic := false, quad := false, floorMode := false }
    let o := (Obj.init k).step (.setMaxValue (some (1 / 2)))
    let cv := o.view epsF32
    let cf := o.fresh epsF32
    cv.minExp = -4 ∧ cf.minExp = -8 ∧
    RawAdm cv (logArg cv (1 / 64)) (-6) ∧ RawAdm cf (logArg cf (1 / 64)) (-6) ∧
    quantWith cv (1 / 64) (-6) = 1 / 16 ∧ quantWith cf (1 / 64) (-6) = 1 / 64 := by
  intro k o cv cf
  have hv1 : cv.minExp = -4 := by
    simp [cv, o, k, Obj.view, Obj.step, Obj.init, Ctor.cfg, Cfg.minExp, Cfg.effBits, needSign]
  have hv2 : cv.maxExp = 3 := by
    simp [cv, o, k, Obj.view, Obj.step, Obj.init, Ctor.cfg, Cfg.maxExp, Cfg.maxExp0, Cfg.effBits, needSign]
  have hf1 : cf.minExp = -8 := by
    simp [cf, o, k, Obj.fresh, Obj.step, Obj.init, Ctor.cfg, Cfg.minExp, Cfg.effBits, needSign]
    norm_num
  have hf2 : cf.maxExp = 7 := by
    simp [cf, o, k, Obj.fresh, Obj.step, Obj.init, Ctor.cfg, Cfg.maxExp, Cfg.maxExp0, Cfg.effBits, needSign]
    norm_num
  have hmagv : magIn cv (1 / 64) = 1 / 64 := magIn_of_nonneg cv (by norm_num)
  have hmagf : magIn cf (1 / 64) = 1 / 64 := magIn_of_nonneg cf (by norm_num)
  have hlogv : logArg cv (1 / 64) = 1 / 64 := by
    unfold logArg; rw [hmagv]
    simp [cv, o, k, Obj.view, Obj.step, Obj.init, Ctor.cfg, xFilter, epsF32]; norm_num
  have hlogf : logArg cf (1 / 64) = 1 / 64 := by
    unfold logArg; rw [hmagf]
    simp [cf, o, k, Obj.fresh, Obj.step, Obj.init, Ctor.cfg, xFilter, epsF32]; norm_num
  refine ⟨hv1, hf1, ?_, ?_, ?_, ?_⟩
  · rw [hlogv, rawAdm_rnd cv rfl]; unfold RndAdm key bandLo bandHi
    simp only [cv, o, k, Obj.view, Obj.step, Obj.init, Ctor.cfg, beta, pow2_eq_zpow]; norm_num
  · rw [hlogf, rawAdm_rnd cf rfl]; unfold RndAdm key bandLo bandHi
    simp only [cf, o, k, Obj.fresh, Obj.step, Obj.init, Ctor.cfg, beta, pow2_eq_zpow]; norm_num
  · unfold quantWith clipExpWith
    rw [hmagv, hv1, hv2, signOut_of_nonneg cv (by norm_num)]
    simp [cv, o, k, Obj.view, Obj.step, Obj.init, Ctor.cfg, Cfg.qf, clipI, epsF32, pow2_eq_zpow]; norm_num
  · unfold quantWith clipExpWith
    rw [hmagf, hf1, hf2, signOut_of_nonneg cf (by norm_num)]
    simp [cf, o, k, Obj.fresh, Obj.step, Obj.init, Ctor.cfg, Cfg.qf, clipI, epsF32, pow2_eq_zpow]; norm_num

/-! ### `negative_slope > 1` -/

/-- regression witness: `quantized_relu_po2(4, negative_slope=2)`: `q(-3) = -8` (`3·2 = 6`,
    log2-nearest exponent 3), inside `[min(), max()] = [-128, 128]` -/
theorem C03_slope_gt_one_regression :
    let c : Cfg := { relu := true, bits := 4, maxValue := none, negSlope := 2,
                     floorMode := false, quad := false, eps := epsF32 }
    c.WF ∧ RawAdm c (logArg c (-3)) 3 ∧ quantWith c (-3) 3 = -8 ∧ qmin c = -128 := by
  intro c
  have hmin : c.minExp = -8 := by simp [c, Cfg.minExp, Cfg.effBits, needSign]
  have hmax : c.maxExp = 7 := by simp [c, Cfg.maxExp, Cfg.maxExp0, Cfg.effBits, needSign]
  have hmag : magIn c (-3) = 6 := by simp [c, magIn, posBranch]; norm_num
  have hlog : logArg c (-3) = 6 := by
    unfold logArg; rw [hmag]; simp [c, xFilter, epsF32]; norm_num
  refine ⟨⟨by simp [c], epsF32_pos, by norm_num [c, epsF32], by simp [c], by norm_num [c], by simp [c]⟩,
    ?_, ?_, ?_⟩
  · rw [hlog, rawAdm_rnd c rfl]; unfold RndAdm key bandLo bandHi
    simp only [c, beta, pow2_eq_zpow]; norm_num
  · unfold quantWith clipExpWith
    rw [hmag, hmin, hmax]
    simp [c, signOut, posBranch, Cfg.qf, clipI, epsF32, pow2_eq_zpow]; norm_num
  · unfold qmin qmax; rw [hmax]; simp [c, truthy, rmax, pow2_eq_zpow]; norm_num

set_option exponentiation.threshold 600 in
/-- recorded finding `C03-slope-overflow`: `quantized_relu_po2(4, negative_slope=2)` at
    `x = -FLT_MAX`: the exact layer selects `-2^7`, but `K.relu(x, 2) = 2·x` overflows in float32
    and the float32 layer has no finite result (the real code returns NaN) -/
theorem C03_slope_overflow_counterexample :
    let c : Cfg := { relu := true, bits := 4, maxValue := none, negSlope := 2,
                     floorMode := false, quad := false, eps := epsF32 }
    let x : ℚ := -340282346638528859811704183484516925440
    RawAdm c (logArg c x) 129 ∧ quantWith c x 129 = -128 ∧ quantFWith c x 129 = none := by
  intro c x
  have hmin : c.minExp = -8 := by simp [c, Cfg.minExp, Cfg.effBits, needSign]
  have hmax : c.maxExp = 7 := by simp [c, Cfg.maxExp, Cfg.maxExp0, Cfg.effBits, needSign]
  have hmag : magIn c x = 680564693277057719623408366969033850880 := by
    simp [c, x, magIn, posBranch]; norm_num
  have hlog : logArg c x = 680564693277057719623408366969033850880 := by
    unfold logArg; rw [hmag]; simp [c, xFilter, epsF32]; norm_num
  have hd : daz x = x := by unfold daz rabs; rw [pow2_eq_zpow]; norm_num [x]
  refine ⟨?_, ?_, ?_⟩
  · rw [hlog, rawAdm_rnd c rfl]; unfold RndAdm key bandLo bandHi
    simp only [c, beta, pow2_eq_zpow]
    constructor <;> norm_num
  · unfold quantWith clipExpWith
    rw [hmag, hmin, hmax]
    simp [c, x, signOut, posBranch, Cfg.qf, clipI, epsF32, pow2_eq_zpow]; norm_num
  · -- float32(2 * x) overflows
    have hr : rnd32 (2 * x) = none := by
      have ha : rabs (2 * x) = 680564693277057719623408366969033850880 := by
        unfold rabs; norm_num [x]
      have hfl : floorLog2Rat (680564693277057719623408366969033850880 : ℚ) = 128 := by
        apply floorLog2Rat_unique <;> · rw [pow2_eq_zpow]; norm_num
      have hrh : roundHalfEven ((680564693277057719623408366969033850880 : ℚ) / pow2 (128 - 23)) = 16777215 := by
        have : (680564693277057719623408366969033850880 : ℚ) / pow2 (128 - 23) = ((16777215 : ℤ) : ℚ) := by
          rw [pow2_eq_zpow]; norm_num
        rw [this]; exact roundHalfEven_int _
      unfold rnd32
      rw [if_neg (by norm_num [x])]
      simp only [ha, hfl, hrh]
      rw [pow2_eq_zpow, pow2_eq_zpow, pow2_eq_zpow]
      norm_num
    have hb : steBase c x = none := by
      have hx : ¬ (0 : ℚ) ≤ x := by norm_num [x]
      have hs : ¬ c.negSlope = 0 := by norm_num [c]
      unfold steBase
      simp only [show c.relu = true from rfl, if_true, hx, if_false,
        show c.maxValue = none from rfl, show c.negSlope = 2 from rfl]
      exact hr
    unfold quantFWith
    simp only [hd, hb]
    split <;> simp_all

end QKV.Props.C03
