/-
  C10 — quantizer strings parse as the equivalent Python call and str(q) re-parses to q.

  Property (verbatim, properties.jsonl): A quantizer given as text - the form used in layer
  arguments, conversion dictionaries and AutoQKeras configurations - is built with exactly the
  positional and keyword arguments that evaluating the same call expression in Python would give
  (integers, floats, booleans, None, quoted strings, number lists), never executing arbitrary
  code, and malformed argument order is rejected.  The text a quantizer prints for itself parses
  back to a quantizer that computes the same function.

  What is proved (after the fix round — `known/C10.json` lists what was repaired):
  * `C10_parse_eq_python`: on the generated grammar — `name(arg,…,key=arg,…)`, arguments
    `None/True/False`, signed decimal integers, signed decimal floats with optional exponent,
    quoted strings, lists of numbers, any keywords — the safe_eval model returns exactly Python's
    reading, the two `SyntaxError` verdicts (positional after keyword, repeated keyword) included.
    Still carved out with counterexample theorems: literals Python rejects but `int()` accepts
    (`08`), the old blank-separated list `[2 3]`, a second `(`.
  * `C10_order_rejected`, `C10_repeated_keyword_rejected`, `C10_no_code`.
  * `C10_str_slots`: for every quantizer of every class, Python's call binding of the values the
    printed flags denote gives, for every option `__str__` can express, an argument `==` the
    option (the former wrong-slot / omitted-option / raising defects are `…_fixed_witness`).
  * `C10_str_roundtrip`: when moreover every printed text is a literal of the grammar
    (`Readable`, decidable; floats are the only texts it is not proved for in general),
    `get_quantizer(str(q))` runs the constructor body on such arguments; closed universal forms
    for `quantized_tanh` / `quantized_sigmoid`.
  * second fix round: the scale is tested with `is not None` in every class
    (`C10_str_alpha_tested_not_none`; closed form `C10_str_roundtrip_bits_alpha`: every integer
    scale, 0 included) and list-valued axes print item by item in every class
    (`C10_str_axes_printed_as_lists`; closed form `C10_str_roundtrip_bits_list_axes`: every list
    of integers); the former counterexamples are `C10_str_falsy_alpha_fixed_witness` and
    `C10_str_tracked_list_fixed_witness`.
    Kept as `C10_str_counterexample_qnoise_factor`: `qnoise_factor` is never printed.
  * strengthening round 3 (seed C10-7): `C10_str_float_options_table` +
    `C10_str_float_conversion_exact`: every statement that prints a float-valued option prints
    EVERY float by `repr` (all digits) and denotes the float itself; readability of that text
    (`Readable`) stays a per-instance decision: `C10_str_roundtrip_long_floats_partial` decides
    it for every class × float option × 19 values with 7–15 significant digits.
  Model: QKV.Model.Parse / QKV.Model.Print.  This file holds ONLY property theorems.
-/
import QKV.Lemmas.Print
import QKV.Lemmas.Config
namespace QKV.Props.C10
open QKV.Py

/-- the generated grammar: identifier name, well-formed literal arguments, identifier keywords -/
structure Grammar (name : String) (as : List Arg) : Prop where
  name : isIdent name = true
  args : ∀ a ∈ as, a.wf = true

private theorem Grammar.rd {name : String} {as : List Arg} (g : Grammar name as) :
    ∀ a ∈ as, a.rd = true := fun a ha => Arg.rd_of_wf a (g.args a ha)

/-! ## literals -/

/-- `GetArg` reads every literal of the grammar exactly as Python evaluates it
    (all digit-string lengths, all string contents over the allowed alphabet) -/
theorem C10_getarg_literal (l : Lit) (h : l.wf = true) : getArg l.text = l.val :=
  getArg_lit l (Lit.rd_of_wf l h)

/-- the decimal text of every natural number reads back as that integer, so `str(int)`
    flags (bit widths, axes, exponents) re-parse exactly for all values -/
theorem C10_getarg_nat (n : Nat) : getArg (toString n).toList = .int n := by
  have ht : (toString n).toList = signText false ++ Nat.toDigits 10 n := by
    simp [signText]
  rw [ht, getArg_int false _ (allDigits_toDigits n), digitsVal_toDigits]
  rfl

/-- … and so does the text of every integer, negative ones included -/
theorem C10_getarg_int (i : Int) : getArg (toString i).toList = .int i := by
  rw [← intLit_text, getArg_lit _ (intLit_rd i), intLit_val]

/-! ## the call -/

/-- **safe_eval = Python on the grammar.**  For every call expression of the generated
    grammar (number lists included) the arguments safe_eval extracts are exactly the ones
    Python's own evaluation of the expression gives — including the `SyntaxError` for a
    positional argument after a keyword argument and for a repeated keyword. -/
theorem C10_parse_eq_python (name : String) (as : List Arg) (g : Grammar name as) :
    parseCall (render name as) = pyCall name as := by
  rw [parseCall_render name as g.name g.rd]
  unfold pyCall
  cases h : argPosAfterKw as
  · by_cases hk : (argKeys as).Nodup
    · simp only [Bool.false_eq_true, if_false, hk, if_true]
      rw [itemKwargs_render as g.rd [] (by simpa [Env.keys] using hk)]
      rfl
    · simp only [Bool.false_eq_true, if_false, hk]
  · rfl

/-- the accepted case spelled out: positional values in order, keyword values by name -/
theorem C10_parse_ok (name : String) (as : List Arg) (g : Grammar name as)
    (ho : argPosAfterKw as = false) (hk : (argKeys as).Nodup) :
    parseCall (render name as) = .ok ⟨name, argVals as, argKwargs as, true⟩ := by
  rw [C10_parse_eq_python name as g]
  simp [pyCall, ho, hk]

/-- **malformed order is rejected**: any positional argument after a keyword argument gives
    `SyntaxError`, whatever else the call contains (repeated keywords included) -/
theorem C10_order_rejected (name : String) (as : List Arg) (g : Grammar name as)
    (h : argPosAfterKw as = true) : parseCall (render name as) = .error .syntaxError := by
  rw [parseCall_render name as g.name g.rd, h]
  rfl

/-- **a repeated keyword is rejected**, as Python rejects it -/
theorem C10_repeated_keyword_rejected (name : String) (as : List Arg) (g : Grammar name as)
    (h : ¬ (argKeys as).Nodup) : parseCall (render name as) = .error .syntaxError := by
  rw [C10_parse_eq_python name as g]
  by_cases ho : argPosAfterKw as = true
  · simp [pyCall, ho]
  · simp [pyCall, ho, h]

/-- **no code is executed**: whatever the text, each extracted argument is one of the five
    literal forms computed from the token's characters … -/
theorem C10_no_code_arg (s : List Char) :
    getArg s = .bool true ∨ getArg s = .bool false ∨ (∃ n, pyNum s = some n ∧ getArg s = n.toVal) ∨
      getArg s = .none ∨ getArg s = .list (listOfNums s) ∨
      getArg s = .str (String.ofList (s.drop 1).dropLast) := by
  unfold getArg
  split
  · exact Or.inl rfl
  · split
    · exact Or.inr (Or.inl rfl)
    · split
      · rename_i n hn; exact Or.inr (Or.inr (Or.inl ⟨n, hn, rfl⟩))
      · split
        · exact Or.inr (Or.inr (Or.inr (Or.inl rfl)))
        · split
          · exact Or.inr (Or.inr (Or.inr (Or.inr (Or.inl rfl))))
          · exact Or.inr (Or.inr (Or.inr (Or.inr (Or.inr rfl))))

/-- … and the only thing `get_quantizer(text)` runs for a registered name is that class's
    constructor on those literals -/
theorem C10_no_code (s : List Char) (q : Q) (h : safeEval s = .ok q) :
    ∃ c cls, parseCall s = .ok c ∧ lookup c.name = some cls ∧ construct cls c.args c.kwargs = .ok q := by
  unfold safeEval at h
  split at h
  · cases h
  · rename_i c hc
    split at h
    · cases h
    · rename_i cls hl
      exact ⟨c, cls, hc, hl, h⟩

/-! ## texts `__str__` prints that are not Python: numpy-style lists -/

/-- **blank-separated lists.**  `GetArg` reads every list in the form `str(numpy.ndarray)`
    prints for an array-valued option — any number of items, any number (≥ 1) of blanks between
    two items, any padding after `[` and before `]`, integers, floats, `2.` with no fraction
    digits, exponents — as the list of its numbers.  The blank IS the separator: the items are
    the maximal blank-free runs. -/
theorem C10_getarg_numpy_list (pre : Nat) (ns : List (NumLit × Nat))
    (h : (Lit.blist pre ns).rd = true) :
    getArg (Lit.blist pre ns).text = .list (ns.map fun p => p.1.num) :=
  getArg_blist pre ns h

/-- **the call with the denoted values, for every readable argument list** — the grammar of
    `C10_parse_eq_python` plus what is not Python syntax but is printed by `__str__` or accepted
    by `int()`: numpy-style lists anywhere (positional or keyword), leading zeros.  Same verdicts. -/
theorem C10_parse_denoted (name : String) (as : List Arg) (hname : isIdent name = true)
    (hrd : ∀ a ∈ as, a.rd = true) : parseCall (render name as) = pyCall name as := by
  rw [parseCall_render name as hname hrd]
  unfold pyCall
  cases h : argPosAfterKw as
  · by_cases hk : (argKeys as).Nodup
    · simp only [Bool.false_eq_true, if_false, hk, if_true]
      rw [itemKwargs_render as hrd [] (by simpa [Env.keys] using hk)]
      rfl
    · simp only [Bool.false_eq_true, if_false, hk]
  · rfl

/-! ## overrides and histories: `safe_eval(text, table, *params, **kwparams)` -/

/-- without overrides `safe_eval` is the plain reading of the text -/
theorem C10_overrides_none (s : List Char) : parseCallWith s [] [] = parseCall s := by
  unfold parseCallWith
  cases h : parseCall s with
  | error e => rfl
  | ok c =>
    have hc : c.called = false → c.args = [] ∧ c.kwargs = [] := by
      intro hcalled
      unfold parseCall at h
      split at h
      · split at h
        · cases h
        · simp only [Except.ok.injEq] at h; subst h; cases hcalled
      · simp only [Except.ok.injEq] at h; subst h; exact ⟨rfl, rfl⟩
      · simp only [Except.ok.injEq] at h; subst h; exact ⟨rfl, rfl⟩
    obtain ⟨n, a, k, cd⟩ := c
    cases cd with
    | true => simp [overrideKw]
    | false =>
      obtain ⟨ha, hk⟩ := hc rfl
      simp only at ha hk
      subst ha; subst hk
      rfl

/-- **what the overrides do, and nothing else**: the positional arguments of the text stay in
    front, in order; a keyword reads the LAST override given for it, otherwise the value of the
    text; the name is the text's.  (No other argument appears: a keyword that is neither in the
    text nor among the overrides is absent.) -/
theorem C10_overrides_merge (s : List Char) (params : List PyVal) (kw : Env) (c : Call)
    (h : parseCall s = .ok c) :
    ∃ c', parseCallWith s params kw = .ok c' ∧ c'.name = c.name ∧ c'.args = c.args ++ params ∧
      ∀ k, c'.kwargs.lookup k = match kw.reverse.lookup k with
        | some v => some v
        | none => c.kwargs.lookup k := by
  unfold parseCallWith
  rw [h]
  exact ⟨_, rfl, rfl, rfl, fun k => lookup_overrideKw c.kwargs kw k⟩

/-- **the specification of a history is pointwise**: in a process that answers the requests
    `pre`, then `r`, then `post`, the answer to `r` is the answer `r` gets on its own — whatever
    texts were parsed before, with whatever overrides, under whatever names.  (The model has no
    state; an implementation that memoises `GetParams` and hands out the cached containers, so
    that an override or a caller's mutation leaks into a later parse of the same argument text,
    is outside it, and the tie replays histories against this statement.) -/
theorem C10_session_pointwise (pre post : List Request) (r : Request) :
    (runSession (pre ++ r :: post))[pre.length]? = some (answer r) ∧
    runSession (pre ++ r :: post) = runSession pre ++ answer r :: runSession post := by
  constructor
  · simp [runSession]
  · simp [runSession]

/-- the leak of seed C10-5 stated on the model: after
    `safe_eval("quantized_bits(4,0,1)", table, keep_negative=False)` the text still reads without
    the keyword, under its own and under any other name -/
theorem C10_session_witness :
    runSession [⟨"quantized_bits(4,0,1)".toList, [], [("keep_negative", .bool false)]⟩,
                ⟨"quantized_bits(4,0,1)".toList, [], []⟩, ⟨"quantized_relu(4,0,1)".toList, [], []⟩]
      = [.ok ⟨"quantized_bits", [.int 4, .int 0, .int 1], [("keep_negative", .bool false)], true⟩,
         .ok ⟨"quantized_bits", [.int 4, .int 0, .int 1], [], true⟩,
         .ok ⟨"quantized_relu", [.int 4, .int 0, .int 1], [], true⟩] := by decide +kernel

/-! ## where safe_eval is still NOT Python (outside the grammar) -/

/-- the blank-separated list of the unrepaired parser is still understood (not Python syntax) -/
theorem C10_parse_counterexample_list_space :
    parseCall "f(a=[2 3])".toList = .ok ⟨"f", [], [("a", .list [.int 2, .int 3])], true⟩ ∧
    parseCall "f([2 3])".toList = .ok ⟨"f", [.list [.int 2, .int 3]], [], true⟩ ∧
    parseCall "f(a=2 3)".toList = .ok ⟨"f", [], [("a", .list [.int 2, .int 3])], true⟩ := by
  decide +kernel
/-- text Python rejects or reads differently is accepted: `08` → 8, `true` → "ru", `x` → "" -/
theorem C10_parse_counterexample_nonliterals :
    parseCall "f(08)".toList = .ok ⟨"f", [.int 8], [], true⟩ ∧
    parseCall "f(true)".toList = .ok ⟨"f", [.str "ru"], [], true⟩ ∧
    parseCall "f(x)".toList = .ok ⟨"f", [.str ""], [], true⟩ := by decide +kernel
/-- more than one "(" anywhere and every argument is silently dropped -/
theorem C10_parse_counterexample_second_paren :
    parseCall "quantized_bits(4,alpha='a(b')".toList = .ok ⟨"quantized_bits", [], [], false⟩ := by
  decide +kernel

/-! ## repaired parser defects: regression witnesses (the old failing inputs) -/

/-- Python list literals are read: as a keyword value, positionally, with one element, empty
    (was: SyntaxError / two empty strings / the string "2" / the empty string) -/
theorem C10_parse_list_fixed_witness :
    parseCall "binary(scale_axis=[2,3])".toList
      = .ok ⟨"binary", [], [("scale_axis", .list [.int 2, .int 3])], true⟩ ∧
    parseCall "f([2,3])".toList = .ok ⟨"f", [.list [.int 2, .int 3]], [], true⟩ ∧
    parseCall "f(a=[2])".toList = .ok ⟨"f", [], [("a", .list [.int 2])], true⟩ ∧
    parseCall "f(a=[])".toList = .ok ⟨"f", [], [("a", .list [])], true⟩ ∧
    parseCall "f(a=[1, 2.5], b=3)".toList
      = .ok ⟨"f", [], [("a", .list [.int 1, .float (5 / 2)]), ("b", .int 3)], true⟩ := by
  decide +kernel
/-- a repeated keyword is a `SyntaxError`, as in Python (was: the last value silently kept) -/
theorem C10_parse_repeated_kw_fixed_witness :
    let as := [Arg.kw "a" (.int false ['1']), Arg.kw "a" (.int false ['2'])]
    parseCall (render "f" as) = .error .syntaxError ∧ pyCall "f" as = .error .syntaxError := by
  decide +kernel
/-- a blank between a keyword value and the next `,` / `)` is ignored
    (was: `'one'`, `"x'"`, `'rue'`) -/
theorem C10_parse_trailing_blank_fixed_witness :
    parseCall "f(a=None )".toList = .ok ⟨"f", [], [("a", .none)], true⟩ ∧
    parseCall "f(a='x' ,b=True )".toList
      = .ok ⟨"f", [], [("a", .str "x"), ("b", .bool true)], true⟩ := by decide +kernel

/-! ## str(q) round trip -/

/-- every printed flag is the text of a grammar literal denoting the flag's value -/
def Readable (fl : List Flag) (as : List Arg) : Prop := List.Forall₂ FlagLit fl as

private theorem lookup_name (c : Cls) : lookup c.name = some c := by cases c <;> decide
private theorem ident_name (c : Cls) : isIdent c.name = true := by cases c <;> decide +kernel

/-- **every option lands in its own slot (all 14 classes, all option values).**
    Bind the values the printed flags of `str(q)` denote — positional flags in order, keyword
    flags by name — with Python's call binding: it succeeds, and for every option `__str__`
    can express the bound argument is `==` the option `q` holds (printed in its own slot, or
    omitted exactly when it `==` its default).  `Typed q`: each `if …: flags.append(…)`
    statement is locally correct for the value it sees (decidable; it fails only for ill-typed
    options such as a string where a flag is expected). -/
theorem C10_str_slots (q : Q) (fl : List Flag) (hf : flagsF q = .ok fl) (ht : Typed q) :
    ∃ e', bind (params q.cls) (posVals fl) (kwVals fl) = .ok e' ∧
      ∀ k ∈ printedNames q.cls, (e'.get k).pyEq (q.get k) = true :=
  flags_bind q fl hf ht

/-- whenever the printed flags are readable, `str(q)` is the rendering of a grammar call,
    Python's reading of that call has exactly the denoted values as arguments, and
    `get_quantizer(str(q))` is the constructor applied to them (safe_eval adds no deviation) -/
theorem C10_str_reparse_eq_python (q : Q) (fl : List Flag) (as : List Arg)
    (hf : flagsF q = .ok fl) (hr : Readable fl as) :
    printQ q = .ok (String.ofList (render q.cls.name as)) ∧
    pyCall q.cls.name as = .ok ⟨q.cls.name, posVals fl, kwVals fl, true⟩ ∧
    reparse q = construct q.cls (posVals fl) (kwVals fl) := by
  obtain ⟨hrd, htext, hvals, hkw, hord⟩ := flagLit_facts fl as hr
  obtain ⟨hshape, hnd⟩ := flagsF_shape q fl hf
  have hp : printQ q = .ok (String.ofList (render q.cls.name as)) := by
    unfold printQ render
    rw [hf, htext]
  have hord' : argPosAfterKw as = false := by rw [hord, hshape]
  have hkeys : (argKeys as).Nodup := by
    unfold argKeys; rw [hkw]; exact hnd
  have hpy : pyCall q.cls.name as = .ok ⟨q.cls.name, posVals fl, kwVals fl, true⟩ := by
    unfold pyCall
    simp only [hord', Bool.false_eq_true, if_false, hkeys, if_true, hvals, hkw]
  refine ⟨hp, hpy, ?_⟩
  unfold reparse safeEval
  rw [hp]
  simp only [String.toList_ofList, parseCall_render _ as (ident_name q.cls) hrd, hord',
    Bool.false_eq_true, if_false, hkeys, if_true,
    itemKwargs_render as hrd [] (by simpa [Env.keys] using hkeys), lookup_name, hvals, hkw,
    List.nil_append]

/-- **str round trip.**  For a quantizer whose printed flags are readable and whose `__str__`
    statements are locally correct, `get_quantizer(str(q))` runs the constructor body (`init`:
    argument checks and normalisations) on an argument list in which every option `__str__`
    can express is `==` the option of `q`. -/
theorem C10_str_roundtrip (q : Q) (fl : List Flag) (as : List Arg)
    (hf : flagsF q = .ok fl) (hr : Readable fl as) (ht : Typed q) :
    ∃ e', reparse q = init q.cls e' ∧
      ∀ k ∈ printedNames q.cls, (e'.get k).pyEq (q.get k) = true := by
  obtain ⟨e', hb, hall⟩ := C10_str_slots q fl hf ht
  refine ⟨e', ?_, hall⟩
  rw [(C10_str_reparse_eq_python q fl as hf hr).2.2]
  unfold construct
  rw [hb]

/-- the same with the readability witness computed (`readFlags` finds the literal of every
    flag text and checks it): the form used for concrete instances -/
theorem C10_str_roundtrip_checked (q : Q) (fl : List Flag) (as : List Arg)
    (hf : flagsF q = .ok fl) (hr : readFlags fl = some as) (ht : Typed q) :
    ∃ e', reparse q = init q.cls e' ∧
      ∀ k ∈ printedNames q.cls, (e'.get k).pyEq (q.get k) = true :=
  C10_str_roundtrip q fl as hf (readFlags_sound fl as hr) ht

/-- … and with all hypotheses decided for a concrete call `cls(*args, **kw)` -/
theorem C10_str_roundtrip_instance (c : Cls) (args : List PyVal) (kw : Env)
    (h : roundTripHyps c args kw = true) :
    ∃ q e', construct c args kw = .ok q ∧ reparse q = init q.cls e' ∧
      ∀ k ∈ printedNames q.cls, (e'.get k).pyEq (q.get k) = true := by
  unfold roundTripHyps at h
  cases hq : construct c args kw with
  | error e => rw [hq] at h; cases h
  | ok q =>
    rw [hq] at h
    simp only [Bool.and_eq_true, decide_eq_true_eq] at h
    obtain ⟨h1, ht⟩ := h
    cases hf : flagsF q with
    | error e => rw [hf] at h1; cases h1
    | ok fl =>
      rw [hf] at h1
      simp only at h1
      cases hr : readFlags fl with
      | none => rw [hr] at h1; cases h1
      | some as =>
        obtain ⟨e', h2, h3⟩ := C10_str_roundtrip_checked q fl as hf hr ht
        exact ⟨q, e', rfl, h2, h3⟩

/-! ### the complete option set (strengthening round, seed C10-3)

  "Denotes the same function" is judged on EVERY constructor argument: an option the text omits
  is rebuilt at the constructor default of the rebuilt class, so the statement that omits it must
  be anchored at that class's own default — not at the default of a sibling class that shares the
  printing code (`temperature`: 6.0 for `bernoulli` / `stochastic_binary`, 8.0 for
  `stochastic_ternary`). -/

/-- **an option is omitted only at the default of its own class** — every class, every statement
    of its `__str__`, every option value (of a kind a truthiness test can judge; the `!= c` and
    `is not None` tests need no restriction): if the statement's condition does not hold, the
    value is `==` the constructor default of that class. -/
theorem C10_str_omitted_is_default (c : Cls) (s : FlagSpec) (hs : s ∈ posSpec c ++ kwSpec c)
    (v : PyVal) (hk : s.cond.kindOK (defaultOf c s.name) v = true)
    (hc : s.cond.holds v = false) : (defaultOf c s.name).pyEq v = true :=
  omitted_eq_default _ _ _ (anchored_all c s hs) hk hc

/-- the statement tables are exhaustive up to four names: what `__str__` cannot express is
    `qnoise_factor`, `var_name`, `use_variables`, `post_training_scale`, and nothing at all for
    the classes without those parameters (the three stochastic classes among them) -/
theorem C10_str_unprinted_table (c : Cls) :
    (∀ k ∈ unprinted c, k ∈ ["qnoise_factor", "var_name", "use_variables", "post_training_scale"]) ∧
    (c ∈ [Cls.bernoulli, .ternary, .stochastic_ternary, .binary, .stochastic_binary, .quantized_ulaw,
          .quantized_tanh, .quantized_sigmoid] → unprinted c = []) := by
  cases c <;> decide +kernel

/-- **str round trip, complete option set.**  For a quantizer whose printed flags are readable,
    whose printed texts denote the values they print (`Denotes`) and whose truthiness-tested
    options are flags / numbers / None (`Kinded`) — no "omitted ⇒ default" hypothesis: that is
    `C10_str_omitted_is_default` — `get_quantizer(str(q))` runs the constructor body on arguments
    in which EVERY constructor parameter is accounted for: a parameter `__str__` can express is
    `==` the option of `q`; every other parameter is the constructor default; so the whole option
    set is `==` the original as soon as the unprintable options are at their defaults. -/
theorem C10_str_roundtrip_complete (q : Q) (fl : List Flag) (as : List Arg)
    (hf : flagsF q = .ok fl) (hr : Readable fl as) (hd : Denotes q) (hk : Kinded q) :
    ∃ e', reparse q = init q.cls e' ∧
      (∀ k ∈ paramNames q.cls, k ∉ unprinted q.cls → (e'.get k).pyEq (q.get k) = true) ∧
      (∀ k ∈ unprinted q.cls, e'.get k = defaultOf q.cls k) ∧
      ((∀ k ∈ unprinted q.cls, (defaultOf q.cls k).pyEq (q.get k) = true) →
        ∀ k ∈ paramNames q.cls, (e'.get k).pyEq (q.get k) = true) := by
  obtain ⟨e', hb, hp, hu⟩ := flags_bind_full q fl hf (typed_of_denotes q hd hk)
  have hre : reparse q = init q.cls e' := by
    rw [(C10_str_reparse_eq_python q fl as hf hr).2.2]
    unfold construct
    rw [hb]
  have h1 : ∀ k ∈ paramNames q.cls, k ∉ unprinted q.cls → (e'.get k).pyEq (q.get k) = true := by
    intro k hk1 hk2
    rcases param_printed_or_unprinted q.cls k hk1 with h | h
    · exact hp k h
    · exact absurd h hk2
  refine ⟨e', hre, h1, hu, fun hdef k hk1 => ?_⟩
  by_cases hk2 : k ∈ unprinted q.cls
  · rw [hu k hk2]; exact hdef k hk2
  · exact h1 k hk1 hk2

/-- … with all hypotheses decided for a concrete call `cls(*args, **kw)` -/
theorem C10_str_roundtrip_complete_instance (c : Cls) (args : List PyVal) (kw : Env)
    (h : completeHyps c args kw = true) :
    ∃ q e', construct c args kw = .ok q ∧ reparse q = init q.cls e' ∧
      ∀ k ∈ paramNames q.cls, (e'.get k).pyEq (q.get k) = true := by
  unfold completeHyps at h
  cases hq : construct c args kw with
  | error e => rw [hq] at h; cases h
  | ok q =>
    rw [hq] at h
    simp only [Bool.and_eq_true, decide_eq_true_eq] at h
    obtain ⟨⟨⟨h1, hd⟩, hk⟩, hu⟩ := h
    cases hf : flagsF q with
    | error e => rw [hf] at h1; cases h1
    | ok fl =>
      rw [hf] at h1
      simp only at h1
      cases hr : readFlags fl with
      | none => rw [hr] at h1; cases h1
      | some as =>
        obtain ⟨e', h2, _, _, h3⟩ :=
          C10_str_roundtrip_complete q fl as hf (readFlags_sound fl as hr) hd hk
        exact ⟨q, e', rfl, h2, h3 hu⟩

/-- **closed form, `quantized_tanh`**: for every bit width and every combination of the three
    flags (the class whose flags used to land in each other's slots) the string round trip
    rebuilds a quantizer whose every constructor argument is `==` the original's. -/
theorem C10_str_roundtrip_tanh (b : Nat) (u s r : Bool) :
    let q : Q := ⟨.quantized_tanh, [("bits", .int b), ("use_stochastic_rounding", .bool u),
      ("symmetric", .bool s), ("use_real_tanh", .bool r)]⟩
    ∃ q', reparse q = .ok q' ∧ q'.cls = .quantized_tanh ∧
      ∀ k ∈ paramNames .quantized_tanh, (q'.get k).pyEq (q.get k) = true := by
  intro q
  -- the flags are integers: the bit width, then 0/1 up to the last flag that is set
  let mk : Int → Flag := fun i => ⟨none, .int i, toString i⟩
  let bi : Bool → Int := fun x => if x then 1 else 0
  let ints : List Int := (b : Int) ::
    (if u || s || r then bi u :: (if s || r then bi s :: (if r then [bi r] else []) else []) else [])
  have hf : flagsF q = .ok (ints.map mk) := by cases u <;> cases s <;> cases r <;> rfl
  have hread : ∀ (l : List Int), Readable (l.map mk) (l.map fun i => .pos (intLit i)) := by
    intro l
    induction l with
    | nil => exact List.Forall₂.nil
    | cons i t ih => exact List.Forall₂.cons (flagLit_int none (fun k hk => by cases hk) i) ih
  have ht : Typed q := by
    refine ⟨fun sp hsp => ?_, fun sp hsp => ?_⟩
    · have h : sp ∈ ([⟨"bits", .always, .str⟩, ⟨"use_stochastic_rounding", .truthy, .int⟩,
          ⟨"symmetric", .truthy, .int⟩, ⟨"use_real_tanh", .truthy, .int⟩] : List FlagSpec) := hsp
      simp only [List.mem_cons, List.not_mem_nil, or_false] at h
      rcases h with rfl | rfl | rfl | rfl
      · exact semOK_always_str _ _ _
      · cases u <;> rfl
      · cases s <;> rfl
      · cases r <;> rfl
    · have h : sp ∈ ([] : List FlagSpec) := hsp
      cases h
  obtain ⟨e', hre, hall⟩ := C10_str_roundtrip q _ _ hf (hread ints) ht
  refine ⟨⟨.quantized_tanh, e'⟩, ?_, rfl, ?_⟩
  · rw [hre]; rfl
  · intro k hk
    exact hall k hk

/-- **closed form, `quantized_sigmoid`** (same statement for the other class whose flags
    shifted): every bit width, every combination of the three flags -/
theorem C10_str_roundtrip_sigmoid (b : Nat) (sy re u : Bool) :
    let q : Q := ⟨.quantized_sigmoid, [("bits", .int b), ("symmetric", .bool sy),
      ("use_real_sigmoid", .bool re), ("use_stochastic_rounding", .bool u)]⟩
    ∃ q', reparse q = .ok q' ∧ q'.cls = .quantized_sigmoid ∧
      ∀ k ∈ paramNames .quantized_sigmoid, (q'.get k).pyEq (q.get k) = true := by
  intro q
  let mk : Int → Flag := fun i => ⟨none, .int i, toString i⟩
  let bi : Bool → Int := fun x => if x then 1 else 0
  let ints : List Int := (b : Int) ::
    (if sy || re || u then bi sy :: (if re || u then bi re :: (if u then [bi u] else []) else []) else [])
  have hf : flagsF q = .ok (ints.map mk) := by cases sy <;> cases re <;> cases u <;> rfl
  have hread : ∀ (l : List Int), Readable (l.map mk) (l.map fun i => .pos (intLit i)) := by
    intro l
    induction l with
    | nil => exact List.Forall₂.nil
    | cons i t ih => exact List.Forall₂.cons (flagLit_int none (fun k hk => by cases hk) i) ih
  have ht : Typed q := by
    refine ⟨fun sp hsp => ?_, fun sp hsp => ?_⟩
    · have h : sp ∈ ([⟨"bits", .always, .str⟩, ⟨"symmetric", .truthy, .int⟩,
          ⟨"use_real_sigmoid", .truthy, .int⟩, ⟨"use_stochastic_rounding", .truthy, .int⟩] :
          List FlagSpec) := hsp
      simp only [List.mem_cons, List.not_mem_nil, or_false] at h
      rcases h with rfl | rfl | rfl | rfl
      · exact semOK_always_str _ _ _
      · cases sy <;> rfl
      · cases re <;> rfl
      · cases u <;> rfl
    · have h : sp ∈ ([] : List FlagSpec) := hsp
      cases h
  obtain ⟨e', hre, hall⟩ := C10_str_roundtrip q _ _ hf (hread ints) ht
  refine ⟨⟨.quantized_sigmoid, e'⟩, ?_, rfl, ?_⟩
  · rw [hre]; rfl
  · intro k hk
    exact hall k hk

/-- **closed form, `bernoulli` and `stochastic_binary`**: every scale option (`None`, `"auto"`,
    `"auto_po2"`), EVERY integer temperature — 6, the own default (omitted), and 8, the default of
    `stochastic_ternary` (printed), included — and both values of `use_real_sigmoid`: the string
    round trip rebuilds a quantizer whose every constructor argument is `==` the original's.
    No hypotheses. -/
theorem C10_str_roundtrip_bernoulli (sb : Bool) (a : AutoAlpha) (t : Int) (b : Bool) :
    let c : Cls := if sb then .stochastic_binary else .bernoulli
    let q : Q := ⟨c, [("alpha", a.val), ("temperature", .int t), ("use_real_sigmoid", .bool b)]⟩
    ∃ q', reparse q = .ok q' ∧ q'.cls = c ∧ ∀ k ∈ paramNames c, (q'.get k).pyEq (q.get k) = true := by
  intro c q
  have hf := flags_bernoulli sb a t b
  have hr := readable_append (readable_append a.readable
      (readable_if (t = 6) _ _ (flagLit_int (some "temperature") (fun k hk => by cases hk; decide +kernel) t)))
      (readable_if (b = true) _ _ (zeroFlagLit "use_real_sigmoid" (by decide +kernel)))
  have hd : Denotes q := by
    refine ⟨fun s hs => ?_, fun s hs => ?_⟩
    · have h : s ∈ ([] : List FlagSpec) := by cases sb <;> exact hs
      cases h
    · have h : s ∈ ([⟨"alpha", .notNone, .alpha⟩, ⟨"temperature", .ne (.float 6), .str⟩,
          ⟨"use_real_sigmoid", .falsy, .int⟩] : List FlagSpec) := by cases sb <;> exact hs
      simp only [List.mem_cons, List.not_mem_nil, or_false] at h
      rcases h with rfl | rfl | rfl
      · exact denotesOK_id _ _ _ (Or.inr (Or.inl rfl))
      · exact denotesOK_id _ _ _ (Or.inl rfl)
      · cases sb <;> cases b <;> rfl
  have hk : Kinded q := by
    intro s hs
    have h : s ∈ ([⟨"alpha", .notNone, .alpha⟩, ⟨"temperature", .ne (.float 6), .str⟩,
        ⟨"use_real_sigmoid", .falsy, .int⟩] : List FlagSpec) := by cases sb <;> exact hs
    simp only [List.mem_cons, List.not_mem_nil, or_false] at h
    rcases h with rfl | rfl | rfl
    · rfl
    · rfl
    · cases sb <;> cases b <;> rfl
  obtain ⟨e', hre, _, _, hall⟩ := C10_str_roundtrip_complete q _ _ hf hr hd hk
  have hun : unprinted q.cls = [] := by cases sb <;> rfl
  refine ⟨⟨c, e'⟩, ?_, rfl, ?_⟩
  · rw [hre]; cases sb <;> rfl
  · exact hall (fun k hk' => by rw [hun] at hk'; cases hk')


/-- **closed form, `stochastic_ternary`** (the class of seed C10-3): every scale option, EVERY
    integer temperature — 8, the own default (omitted), and 6, the default of the two sibling
    classes (printed: `stochastic_ternary(temperature=6)`), included —, both values of
    `use_real_sigmoid`, every integer `number_of_unrolls`, no threshold: every constructor
    argument of the rebuilt quantizer is `==` the original's.  No hypotheses.  (A printing helper
    shared with `bernoulli` that omits the temperature at 6 falsifies this statement at `t = 6`.) -/
theorem C10_str_roundtrip_stochastic_ternary (a : AutoAlpha) (t n : Int) (b : Bool) :
    let q : Q := ⟨.stochastic_ternary,
      [("alpha", a.val), ("threshold", .none), ("temperature", .int t), ("use_real_sigmoid", .bool b),
       ("number_of_unrolls", .int n)]⟩
    ∃ q', reparse q = .ok q' ∧ q'.cls = .stochastic_ternary ∧
      ∀ k ∈ paramNames .stochastic_ternary, (q'.get k).pyEq (q.get k) = true := by
  intro q
  have hf := flags_sternary a t n b
  have hr := readable_append (readable_append (readable_append a.readable
      (readable_if (t = 8) _ _ (flagLit_int (some "temperature") (fun k hk => by cases hk; decide +kernel) t)))
      (readable_if (b = true) _ _ (zeroFlagLit "use_real_sigmoid" (by decide +kernel))))
      (readable_if (n = 5) _ _ (flagLit_int (some "number_of_unrolls") (fun k hk => by cases hk; decide +kernel) n))
  have hd : Denotes q := by
    refine ⟨fun s hs => ?_, fun s hs => ?_⟩
    · have h0 : s ∈ ([] : List FlagSpec) := hs
      cases h0
    have h : s ∈ ([⟨"alpha", .notNone, .alpha⟩, ⟨"threshold", .notNone, .str⟩,
        ⟨"temperature", .ne (.float 8), .str⟩, ⟨"use_real_sigmoid", .falsy, .lit "0" (.int 0)⟩,
        ⟨"number_of_unrolls", .ne (.int 5), .str⟩] : List FlagSpec) := hs
    simp only [List.mem_cons, List.not_mem_nil, or_false] at h
    rcases h with rfl | rfl | rfl | rfl | rfl
    · exact denotesOK_id _ _ _ (Or.inr (Or.inl rfl))
    · exact denotesOK_id _ _ _ (Or.inl rfl)
    · exact denotesOK_id _ _ _ (Or.inl rfl)
    · cases b <;> rfl
    · exact denotesOK_id _ _ _ (Or.inl rfl)
  have hk : Kinded q := by
    intro s hs
    have h : s ∈ ([⟨"alpha", .notNone, .alpha⟩, ⟨"threshold", .notNone, .str⟩,
        ⟨"temperature", .ne (.float 8), .str⟩, ⟨"use_real_sigmoid", .falsy, .lit "0" (.int 0)⟩,
        ⟨"number_of_unrolls", .ne (.int 5), .str⟩] : List FlagSpec) := hs
    simp only [List.mem_cons, List.not_mem_nil, or_false] at h
    rcases h with rfl | rfl | rfl | rfl | rfl
    · rfl
    · rfl
    · rfl
    · cases b <;> rfl
    · rfl
  obtain ⟨e', hre, _, _, hall⟩ := C10_str_roundtrip_complete q _ _ hf hr hd hk
  have hall' := hall (fun k hk' => by cases hk')
  have hth : e'.get "threshold" = .none :=
    eq_none_of_pyEq_none _ (hall' "threshold"
      (show "threshold" ∈ paramNames .stochastic_ternary by decide +kernel))
  have hinit : init .stochastic_ternary e' = .ok ⟨.stochastic_ternary, e'⟩ := by
    unfold init check
    simp only [hth]
    rfl
  exact ⟨⟨.stochastic_ternary, e'⟩, by rw [hre]; exact hinit, rfl, hall'⟩

/-! ### the former failures of the str direction, now regression witnesses
    (each evaluates the model at the old failing input; replayed on the real code by the tie) -/

/-- outcome of `get_quantizer(str(cls(**kw)))`: the printed text and the rebuilt instance -/
def strTrip (c : Cls) (kw : Env) : Except Err (String × Except Err Q) :=
  match construct c [] kw with
  | .error e => .error e
  | .ok q => match printQ q with
    | .error e => .ok ("", .error e)
    | .ok s => .ok (s, safeEval s.toList)

private def slot (r : Except Err (String × Except Err Q)) (k : String) : Option PyVal :=
  match r with
  | .ok (_, .ok q) => some (q.get k)
  | _ => none
private def text (r : Except Err (String × Except Err Q)) : Option String :=
  match r with
  | .ok (s, _) => some s
  | _ => none

/-- `quantized_tanh(symmetric=True)` printed "quantized_tanh(8,1)" (→ use_stochastic_rounding);
    now the skipped slot is printed -/
theorem C10_str_tanh_symmetric_fixed_witness :
    let r := strTrip .quantized_tanh [("symmetric", .bool true)]
    text r = some "quantized_tanh(8,0,1)" ∧ slot r "use_stochastic_rounding" = some (.int 0) ∧
      slot r "symmetric" = some (.int 1) := by decide +kernel
theorem C10_str_tanh_real_fixed_witness :
    let r := strTrip .quantized_tanh [("use_real_tanh", .bool true)]
    text r = some "quantized_tanh(8,0,0,1)" ∧ slot r "use_stochastic_rounding" = some (.int 0) ∧
      slot r "use_real_tanh" = some (.int 1) := by decide +kernel
/-- `quantized_sigmoid(use_real_sigmoid=True)` printed "quantized_sigmoid(8,1)" (→ symmetric) -/
theorem C10_str_sigmoid_real_fixed_witness :
    let r := strTrip .quantized_sigmoid [("use_real_sigmoid", .bool true)]
    text r = some "quantized_sigmoid(8,0,1)" ∧ slot r "symmetric" = some (.int 0) ∧
      slot r "use_real_sigmoid" = some (.int 1) := by decide +kernel
theorem C10_str_sigmoid_stochastic_fixed_witness :
    let r := strTrip .quantized_sigmoid [("use_stochastic_rounding", .bool true)]
    text r = some "quantized_sigmoid(8,0,0,1)" ∧ slot r "symmetric" = some (.int 0) ∧
      slot r "use_stochastic_rounding" = some (.int 1) := by decide +kernel
/-- `quantized_relu(negative_slope=0.25)` printed "quantized_relu(8,0,0.25)" (→ use_sigmoid) -/
theorem C10_str_relu_slope_fixed_witness :
    let r := strTrip .quantized_relu [("negative_slope", .float (1 / 4))]
    text r = some "quantized_relu(8,0,0,0.25)" ∧ slot r "use_sigmoid" = some (.int 0) ∧
      slot r "negative_slope" = some (.float (1 / 4)) := by decide +kernel
/-- `quantized_relu(use_stochastic_rounding=True)` printed "quantized_relu(8,0,0,1)"
    (→ negative_slope=1) -/
theorem C10_str_relu_stochastic_fixed_witness :
    let r := strTrip .quantized_relu [("use_stochastic_rounding", .bool true)]
    text r = some "quantized_relu(8,0,0,0.0,1)" ∧ slot r "negative_slope" = some (.float 0) ∧
      slot r "use_stochastic_rounding" = some (.int 1) := by decide +kernel
/-- `quantized_relu_po2(negative_slope=0.25)` printed "quantized_relu_po2(8,0.25)" (→ max_value) -/
theorem C10_str_relu_po2_slope_fixed_witness :
    let r := strTrip .quantized_relu_po2 [("negative_slope", .float (1 / 4))]
    text r = some "quantized_relu_po2(8,None,0.25)" ∧ slot r "max_value" = some .none ∧
      slot r "negative_slope" = some (.float (1 / 4)) := by decide +kernel
/-- `quantized_po2(max_value=0.5)` printed the bound through `int()`: "quantized_po2(8,0)";
    an integral bound keeps its integer text -/
theorem C10_str_po2_max_value_fixed_witness :
    let r := strTrip .quantized_po2 [("max_value", .float (1 / 2))]
    text r = some "quantized_po2(8,0.5)" ∧ slot r "max_value" = some (.float (1 / 2)) ∧
      text (strTrip .quantized_po2 [("max_value", .float 4)]) = some "quantized_po2(8,4)" := by
  decide +kernel
/-- options `__str__` never printed are printed as keywords when they differ from the default -/
theorem C10_str_omitted_options_fixed_witness :
    slot (strTrip .quantized_bits [("alpha", .str "auto"), ("scale_axis", .int 0)]) "scale_axis"
        = some (.int 0) ∧
    slot (strTrip .quantized_relu [("relu_upper_bound", .float (3 / 2))]) "relu_upper_bound"
        = some (.float (3 / 2)) ∧
    slot (strTrip .quantized_bits [("use_ste", .bool false)]) "use_ste" = some (.bool false) ∧
    slot (strTrip .quantized_po2 [("log2_rounding", .str "floor")]) "log2_rounding"
        = some (.str "floor") ∧
    text (strTrip .quantized_bits [("alpha", .str "auto_po2"), ("scale_axis", .int 0),
        ("elements_per_scale", .int 2), ("min_po2_exponent", .int (-1))])
      = some "quantized_bits(8,0,1,alpha='auto_po2',scale_axis=0,elements_per_scale=2,min_po2_exponent=-1)" := by
  decide +kernel
/-- list-valued keyword options print in Python syntax, which safe_eval now reads -/
theorem C10_str_binary_list_fixed_witness :
    let r := strTrip .binary [("scale_axis", .list [.int 2, .int 3])]
    text r = some "binary(scale_axis=[2,3])" ∧
      slot r "scale_axis" = some (.list [.int 2, .int 3]) := by decide +kernel
/-- `str(quantized_hswish(...))` no longer raises (it raised for every instance) -/
theorem C10_str_hswish_fixed_witness :
    let r := strTrip .quantized_hswish []
    text r = some "quantized_hswish(8,0,0,relu_shift=3,relu_upper_bound=6)" ∧
      slot r "relu_shift" = some (.int 3) := by decide +kernel
/-- `str(quantized_linear(alpha=<number>))` no longer raises UnboundLocalError -/
theorem C10_str_linear_alpha_fixed_witness :
    let r := strTrip .quantized_linear [("alpha", .float 2)]
    text r = some "quantized_linear(8,0,1,alpha=2.0)" ∧ slot r "alpha" = some (.float 2) := by
  decide +kernel
/-- po2 quantizers with stochastic rounding and no max_value no longer raise TypeError -/
theorem C10_str_po2_stochastic_fixed_witness :
    text (strTrip .quantized_po2 [("use_stochastic_rounding", .bool true)])
      = some "quantized_po2(8,None,1)" ∧
    slot (strTrip .quantized_po2 [("use_stochastic_rounding", .bool true)]) "max_value"
      = some .none ∧
    text (strTrip .quantized_relu_po2 [("use_stochastic_rounding", .bool true)])
      = some "quantized_relu_po2(8,None,0,1)" := by decide +kernel
/-- strings that were read back correctly before are unchanged -/
theorem C10_str_unchanged_witness :
    text (strTrip .quantized_relu [("bits", .int 4), ("integer", .int 2)]) = some "quantized_relu(4,2)" ∧
    text (strTrip .quantized_bits [("alpha", .int 1)]) = some "quantized_bits(8,0,0,alpha=1)" ∧
    text (strTrip .quantized_relu [("bits", .int 6), ("integer", .int 4), ("use_sigmoid", .int 1)])
      = some "quantized_relu(6,4,1)" ∧
    text (strTrip .quantized_po2 [("bits", .int 4), ("max_value", .int 8)]) = some "quantized_po2(4,8)" ∧
    text (strTrip .binary []) = some "binary()" := by decide +kernel

/-- the cross-default points of the option lattice, evaluated in the model (replayed on the real
    code by the tie): the temperature that is the default of the SIBLING classes is printed and
    read back — `stochastic_ternary` at 6.0 (default 8.0), `bernoulli` / `stochastic_binary` at
    8.0 (default 6.0) — and each class omits exactly its own default -/
theorem C10_str_cross_default_witness :
    (let r := strTrip .stochastic_ternary [("alpha", .str "auto"), ("temperature", .float 6)]
     text r = some "stochastic_ternary(alpha='auto',temperature=6.0)" ∧
       slot r "temperature" = some (.float 6)) ∧
    (let r := strTrip .bernoulli [("temperature", .float 8)]
     text r = some "bernoulli(temperature=8.0)" ∧ slot r "temperature" = some (.float 8)) ∧
    (let r := strTrip .stochastic_binary [("temperature", .float 8)]
     text r = some "stochastic_binary(temperature=8.0)" ∧ slot r "temperature" = some (.float 8)) ∧
    text (strTrip .stochastic_ternary [("temperature", .float 8)]) = some "stochastic_ternary()" ∧
    text (strTrip .bernoulli [("temperature", .float 6)]) = some "bernoulli()" ∧
    text (strTrip .quantized_relu [("negative_slope", .int 0)]) = some "quantized_relu(8,0)" ∧
    (let r := strTrip .quantized_hswish [("relu_upper_bound", .none)]
     slot r "relu_upper_bound" = some .none) ∧
    (let r := strTrip .ternary [("threshold", .float 0), ("number_of_unrolls", .int 0)]
     text r = some "ternary(threshold=0.0,number_of_unrolls=0)" ∧
       slot r "threshold" = some (.float 0) ∧ slot r "number_of_unrolls" = some (.int 0)) := by
  decide +kernel

/-! ### second fix round: a scale of 0 is printed; list-valued axes print as lists
    (the former `C10_str_counterexample_falsy_alpha` and `C10_str_counterexample_tracked_list`) -/

/-- `quantized_bits.__str__` / `quantized_hswish.__str__` tested the scale with `if self.alpha:`
    where the sibling classes test `is not None`: `alpha=0` / `0.0` (accepted by the constructor;
    the quantizer is the zero function) was not printed and the rebuilt quantizer had
    `alpha=None`.  After the fix the old failing inputs print the scale and read it back, and
    satisfy every hypothesis of the complete round trip (`Kinded` no longer excludes them).
    `quantized_linear` is unchanged. -/
theorem C10_str_falsy_alpha_fixed_witness :
    (let r := strTrip .quantized_bits [("alpha", .float 0)]
     text r = some "quantized_bits(8,0,0,alpha=0.0)" ∧ slot r "alpha" = some (.float 0)) ∧
    (let r := strTrip .quantized_hswish [("alpha", .int 0)]
     text r = some "quantized_hswish(8,0,0,relu_shift=3,relu_upper_bound=6,alpha=0)" ∧
       slot r "alpha" = some (.int 0)) ∧
    (let r := strTrip .quantized_linear [("alpha", .float 0)]
     text r = some "quantized_linear(8,0,1,alpha=0.0)" ∧ slot r "alpha" = some (.float 0)) ∧
    completeHyps .quantized_bits [] [("alpha", .float 0)] = true ∧
    completeHyps .quantized_hswish [] [("alpha", .int 0)] = true ∧
    completeHyps .quantized_linear [] [("alpha", .float 0)] = true := by
  decide +kernel

/-- **one rule for the scale in every class.**  Whatever class prints an option named `alpha`
    tests it with `is not None` (never by truthiness), so the hypothesis `Kinded` of
    `C10_str_roundtrip_complete` puts no restriction on the scale: every value — 0, 0.0 and
    False included — is of a kind the test can judge. -/
theorem C10_str_alpha_tested_not_none (c : Cls) (s : FlagSpec) (hs : s ∈ posSpec c ++ kwSpec c)
    (hn : s.name = "alpha") : s.cond = .notNone ∧ ∀ d v, s.cond.kindOK d v = true := by
  have h : ((posSpec c ++ kwSpec c).all fun s => s.name != "alpha" || s.cond == .notNone) = true := by
    cases c <;> decide +kernel
  have h1 := List.all_eq_true.1 h s hs
  simp only [hn, bne_self_eq_false, Bool.false_or, beq_iff_eq] at h1
  exact ⟨h1, fun d v => by rw [h1]; rfl⟩

/-- **closed form, `quantized_bits` with a numeric scale**: every bit width and EVERY integer
    scale — 0, the value the old truthiness test dropped, included — round-trips: every
    constructor argument of the rebuilt quantizer is `==` the original's.  No hypotheses. -/
theorem C10_str_roundtrip_bits_alpha (b : Nat) (n : Int) :
    let q : Q := ⟨.quantized_bits, bitsEnv b (.int 0) (.int n) .none .none⟩
    ∃ q', reparse q = .ok q' ∧ q'.cls = .quantized_bits ∧
      ∀ k ∈ paramNames .quantized_bits, (q'.get k).pyEq (q.get k) = true := by
  intro q
  have hf := flags_bits_alpha b n
  have hr : Readable _ _ :=
    List.Forall₂.cons (flagLit_int none (fun k hk => by cases hk) (b : Int))
      (List.Forall₂.cons (flagLit_int none (fun k hk => by cases hk) 0)
        (List.Forall₂.cons (flagLit_int none (fun k hk => by cases hk) 0)
          (List.Forall₂.cons
            (flagLit_int (some "alpha") (fun k hk => by cases hk; decide +kernel) n)
            List.Forall₂.nil)))
  have hd : Denotes q := by
    refine ⟨fun s hs => ?_, fun s hs => ?_⟩
    · have h : s ∈ ([⟨"bits", .always, .str⟩, ⟨"integer", .always, .npRe⟩,
          ⟨"symmetric", .always, .int⟩] : List FlagSpec) := hs
      simp only [List.mem_cons, List.not_mem_nil, or_false] at h
      rcases h with rfl | rfl | rfl
      · exact denotesOK_id _ _ _ (Or.inl rfl)
      · rfl
      · rfl
    · have h : s ∈ kwSpec .quantized_bits := hs
      simp only [kwSpec, List.mem_cons, List.not_mem_nil, or_false] at h
      rcases h with rfl | rfl | rfl | rfl | rfl | rfl | rfl | rfl
      · rfl
      · exact denotesOK_id _ _ _ (Or.inr (Or.inl rfl))
      · rfl
      · rfl
      · rfl
      · rfl
      · rfl
      · rfl
  have hk : Kinded q := by
    intro s hs
    have h : s ∈ posSpec .quantized_bits ++ kwSpec .quantized_bits := hs
    simp only [posSpec, kwSpec, List.cons_append, List.nil_append, List.mem_cons, List.not_mem_nil,
      or_false] at h
    rcases h with rfl | rfl | rfl | rfl | rfl | rfl | rfl | rfl | rfl | rfl | rfl <;> rfl
  obtain ⟨e', hre, _, _, hall⟩ := C10_str_roundtrip_complete q _ _ hf hr hd hk
  have hall' := hall (fun k hk' => by
    have h : k ∈ (["qnoise_factor", "var_name", "use_variables", "post_training_scale"] : List String) := hk'
    simp only [List.mem_cons, List.not_mem_nil, or_false] at h
    rcases h with rfl | rfl | rfl | rfl <;> rfl)
  have hpts : e'.get "post_training_scale" = .none :=
    eq_none_of_pyEq_none _ (hall' "post_training_scale"
      (show "post_training_scale" ∈ paramNames .quantized_bits by decide +kernel))
  have hal : (e'.get "alpha").isStr = false := by
    have h := hall' "alpha" (show "alpha" ∈ paramNames .quantized_bits by decide +kernel)
    have h' : (e'.get "alpha").pyEq (.int n) = true := h
    cases hv : e'.get "alpha" <;> simp [hv, PyVal.pyEq, PyVal.numVal, PyVal.isStr] at h' ⊢
  have hinit : init .quantized_bits e' = .ok ⟨.quantized_bits, e'⟩ := by
    unfold init check normInit
    simp only [hpts, hal]
    rfl
  exact ⟨⟨.quantized_bits, e'⟩, by rw [hre]; exact hinit, rfl, hall'⟩

/-- `BaseQuantizer` is a `tf.Module`: a Python list assigned to an attribute is wrapped for
    tracking, and `__str__` printed `str()` of the wrapper — `scale_axis=ListWrapper([0,1])`,
    whose second "(" makes `safe_eval` drop EVERY argument
    (`C10_parse_counterexample_second_paren`): the rebuilt quantizer was the default
    `quantized_bits(8,0,0)`.  After the fix the four classes with list-valued axes print them
    item by item, as `binary` always did; the old failing inputs read back completely. -/
theorem C10_str_tracked_list_fixed_witness :
    (let r := strTrip .quantized_bits
        [("bits", .int 4), ("alpha", .str "auto"), ("scale_axis", .list [.int 0, .int 1])]
     text r = some "quantized_bits(4,0,1,alpha='auto',scale_axis=[0,1])" ∧
       slot r "bits" = some (.int 4) ∧ slot r "alpha" = some (.str "auto") ∧
       slot r "scale_axis" = some (.list [.int 0, .int 1])) ∧
    (let r := strTrip .quantized_bits
        [("alpha", .str "auto"), ("scale_axis", .int 0), ("elements_per_scale", .list [.int 2, .int 2])]
     text r = some "quantized_bits(8,0,1,alpha='auto',scale_axis=0,elements_per_scale=[2,2])" ∧
       slot r "elements_per_scale" = some (.list [.int 2, .int 2])) ∧
    (let r := strTrip .quantized_linear
        [("bits", .int 4), ("alpha", .str "auto"), ("scale_axis", .list [.int 0, .int 1])]
     text r = some "quantized_linear(4,0,1,alpha='auto',scale_axis=[0,1])" ∧
       slot r "bits" = some (.int 4) ∧ slot r "scale_axis" = some (.list [.int 0, .int 1])) ∧
    (let r := strTrip .quantized_hswish
        [("bits", .int 4), ("alpha", .str "auto"), ("scale_axis", .list [.int 0, .int 1])]
     text r = some "quantized_hswish(4,0,1,relu_shift=3,relu_upper_bound=6,alpha='auto',scale_axis=[0,1])" ∧
       slot r "bits" = some (.int 4) ∧ slot r "scale_axis" = some (.list [.int 0, .int 1])) ∧
    (let r := strTrip .binary [("alpha", .str "auto"), ("scale_axis", .list [.int 0, .int 1])]
     text r = some "binary(alpha='auto',scale_axis=[0,1])" ∧
       slot r "scale_axis" = some (.list [.int 0, .int 1])) ∧
    completeHyps .quantized_bits [] [("alpha", .str "auto"), ("scale_axis", .list [.int 0, .int 1])] = true ∧
    completeHyps .quantized_linear [] [("alpha", .str "auto"), ("scale_axis", .list [.int 0, .int 1])] = true ∧
    completeHyps .quantized_hswish [] [("alpha", .str "auto"), ("scale_axis", .list [.int 0, .int 1])] = true := by
  decide +kernel

/-- **one rule for the axes in every class.**  Whatever class prints `scale_axis` or
    `elements_per_scale` prints it when it is not None, item by item when it is a list. -/
theorem C10_str_axes_printed_as_lists (c : Cls) (s : FlagSpec) (hs : s ∈ posSpec c ++ kwSpec c)
    (hn : s.name = "scale_axis" ∨ s.name = "elements_per_scale") :
    s.cond = .notNone ∧ s.conv = .intOrList := by
  have h : ((posSpec c ++ kwSpec c).all fun s =>
      !(s.name == "scale_axis" || s.name == "elements_per_scale") ||
        (s.cond == .notNone && s.conv == .intOrList)) = true := by
    cases c <;> decide +kernel
  have h1 := List.all_eq_true.1 h s hs
  have h2 : (s.name == "scale_axis" || s.name == "elements_per_scale") = true := by
    rcases hn with hn | hn <;> simp [hn]
  simp only [h2, Bool.not_true, Bool.false_or, Bool.and_eq_true, beq_iff_eq] at h1
  exact h1

/-- **closed form, list-valued axes of `quantized_bits`**: every bit width, EVERY list of
    integers as `scale_axis` and EVERY list of integers as `elements_per_scale` (any lengths,
    the empty list included) under `alpha='auto'`: the text is a call of the grammar, and
    `get_quantizer(str(q))` runs the constructor body on arguments that are all `==` the
    original's.  No hypotheses.  (With the tracked-list text this statement is false for every
    list: the rebuilt quantizer was the default.) -/
theorem C10_str_roundtrip_bits_list_axes (b : Nat) (l m : List Int) :
    let q : Q := ⟨.quantized_bits,
      bitsEnv b (.bool true) (.str "auto") (.list (l.map Num.int)) (.list (m.map Num.int))⟩
    ∃ e', reparse q = init .quantized_bits e' ∧
      ∀ k ∈ paramNames .quantized_bits, (e'.get k).pyEq (q.get k) = true := by
  intro q
  have hf := flags_bits_axes b l m
  have hr : Readable _ _ :=
    List.Forall₂.cons (flagLit_int none (fun k hk => by cases hk) (b : Int))
      (List.Forall₂.cons (flagLit_int none (fun k hk => by cases hk) 0)
        (List.Forall₂.cons (flagLit_int none (fun k hk => by cases hk) 1)
          (List.Forall₂.cons (show FlagLit ⟨some "alpha", .str "auto", "'auto'"⟩ (.kw "alpha" (.str false "auto".toList)) by
            decide +kernel)
            (List.Forall₂.cons
              (flagLit_intList (some "scale_axis") (fun k hk => by cases hk; decide +kernel) l)
              (List.Forall₂.cons
                (flagLit_intList (some "elements_per_scale") (fun k hk => by cases hk; decide +kernel) m)
                List.Forall₂.nil)))))
  have hd : Denotes q := by
    refine ⟨fun s hs => ?_, fun s hs => ?_⟩
    · have h : s ∈ ([⟨"bits", .always, .str⟩, ⟨"integer", .always, .npRe⟩,
          ⟨"symmetric", .always, .int⟩] : List FlagSpec) := hs
      simp only [List.mem_cons, List.not_mem_nil, or_false] at h
      rcases h with rfl | rfl | rfl
      · exact denotesOK_id _ _ _ (Or.inl rfl)
      · rfl
      · rfl
    · have h : s ∈ kwSpec .quantized_bits := hs
      simp only [kwSpec, List.mem_cons, List.not_mem_nil, or_false] at h
      rcases h with rfl | rfl | rfl | rfl | rfl | rfl | rfl | rfl
      · rfl
      · rfl
      · rfl
      · exact denotesOK_id _ _ _ (Or.inr (Or.inr (Or.inr rfl)))
      · rfl
      · exact denotesOK_id _ _ _ (Or.inr (Or.inr (Or.inr rfl)))
      · rfl
      · rfl
  have hk : Kinded q := by
    intro s hs
    have h : s ∈ posSpec .quantized_bits ++ kwSpec .quantized_bits := hs
    simp only [posSpec, kwSpec, List.cons_append, List.nil_append, List.mem_cons, List.not_mem_nil,
      or_false] at h
    rcases h with rfl | rfl | rfl | rfl | rfl | rfl | rfl | rfl | rfl | rfl | rfl <;> rfl
  obtain ⟨e', hre, _, _, hall⟩ := C10_str_roundtrip_complete q _ _ hf hr hd hk
  exact ⟨e', hre, hall (fun k hk' => by
    have h : k ∈ (["qnoise_factor", "var_name", "use_variables", "post_training_scale"] : List String) := hk'
    simp only [List.mem_cons, List.not_mem_nil, or_false] at h
    rcases h with rfl | rfl | rfl | rfl <;> rfl)⟩

/-- array-valued (per-channel) options print as `str(numpy.ndarray)` — blanks, no commas — and
    read back as the list of the same numbers: the scale of `quantized_linear`, the integer bits
    of `quantized_bits` / `quantized_relu` (ndarray or tf.Variable, as QAdaptiveActivation stores
    them).  A blank is the item separator here: removing the blanks of the text
    (`"[1 2 0]"` → `"[120]"`) changes what it denotes. -/
theorem C10_str_array_option_witness :
    (let r := strTrip .quantized_linear
        [("bits", .int 4), ("alpha", .list [.float (1 / 2), .float (1 / 4), .float 2])]
     text r = some "quantized_linear(4,0,1,alpha=[0.5  0.25 2.  ])" ∧
       slot r "alpha" = some (.list [.float (1 / 2), .float (1 / 4), .float 2])) ∧
    (let r := strTrip .quantized_bits
        [("integer", .list [.int 10, .int 2, .int 0]), ("symmetric", .int 1), ("alpha", .float 1)]
     text r = some "quantized_bits(8,[10  2  0],1,alpha=1.0)" ∧
       slot r "integer" = some (.list [.int 10, .int 2, .int 0])) ∧
    (let r := strTrip .quantized_relu [("integer", .list [.int 1, .int 2, .int 0])]
     text r = some "quantized_relu(8,[1 2 0])" ∧
       slot r "integer" = some (.list [.int 1, .int 2, .int 0])) ∧
    parseCall "quantized_relu(8,[1 2 0])".toList
      = .ok ⟨"quantized_relu", [.int 8, .list [.int 1, .int 2, .int 0]], [], true⟩ ∧
    parseCall ("quantized_relu(8,[1 2 0])".toList.filter (· != ' '))
      = .ok ⟨"quantized_relu", [.int 8, .list [.int 120]], [], true⟩ := by
  decide +kernel

/-! ### float-valued options are printed by `str(x)` — the full shortest repr, never a rounded text
    (strengthening round 3, seed C10-7: `_po2_max_value_to_str` as `"{:g}".format(x)` keeps six
    significant digits, `2**-9` printed `0.00195312`) -/

/-- names of the options that take a float in some class (`qnoise_factor` is not printed at all) -/
def floatOptionNames : List String :=
  ["max_value", "alpha", "negative_slope", "relu_upper_bound", "threshold", "temperature", "u",
   "relu_shift"]

/-- the conversions through which `__str__` prints an option that may hold a float -/
def Conv.keepsFloat : Conv → Bool
  | .str | .alpha | .po2max | .np | .npRe | .intOrList => true
  | _ => false

/-- **no statement of any `__str__` shortens a float.**  Every statement of every class that
    prints one of the float-valued options goes through a conversion that keeps floats
    (`str(x)`, the quoted-if-string form, `_po2_max_value_to_str`, `str(np.array(x))`) — none
    through `str(int(x))`, a constant text or a fixed-precision format. -/
theorem C10_str_float_options_table (c : Cls) (s : FlagSpec) (hs : s ∈ posSpec c ++ kwSpec c)
    (hn : s.name ∈ floatOptionNames) : Conv.keepsFloat s.conv = true := by
  revert s
  cases c <;> decide

/-- **… and each such conversion prints EVERY float by `repr` and denotes the float itself**
    (all rationals `q`, i.e. all binary64 values and all decimals): the text is `reprFloat q`
    and the denoted value is `q` — except `_po2_max_value_to_str` on an integral value, which
    prints the integer text of the SAME number (`4.0` → `4`).  The seeded `"{:g}"` helper
    falsifies this at every `q` with more than six significant digits. -/
theorem C10_str_float_conversion_exact (cv : Conv) (h : Conv.keepsFloat cv = true) (q : Rat) :
    ∃ r, cv.apply (.float q) = .ok r ∧ r.1.pyEq (.float q) = true ∧
      (r = (.float q, reprFloat q) ∨
       (cv = .po2max ∧ q = (truncRat q : Rat) ∧ r = (.int (truncRat q), toString (truncRat q)))) := by
  cases cv <;> simp only [Conv.keepsFloat, Bool.false_eq_true] at h
  · exact ⟨_, rfl, PyVal.pyEq_refl _, Or.inl rfl⟩
  · exact ⟨(.float q, reprFloat q), by simp [Conv.apply, alphaText, PyVal.isStr, PyVal.pyStr],
      PyVal.pyEq_refl _, Or.inl rfl⟩
  · exact ⟨(.float q, reprFloat q), by simp [Conv.apply, listOrScalar, PyVal.pyStr],
      PyVal.pyEq_refl _, Or.inl rfl⟩
  · by_cases hq : q = (truncRat q : Rat)
    · refine ⟨(.int (truncRat q), toString (truncRat q)), ?_, ?_, Or.inr ⟨rfl, hq, rfl⟩⟩
      · simp only [Conv.apply, po2MaxValue, PyVal.pyInt, PyVal.numVal]
        rw [if_pos (by rw [beq_iff_eq]; exact hq)]
      · simp only [PyVal.pyEq, PyVal.numVal]
        rw [beq_iff_eq]; exact hq.symm
    · refine ⟨(.float q, reprFloat q), ?_, PyVal.pyEq_refl _, Or.inl rfl⟩
      simp only [Conv.apply, po2MaxValue, PyVal.pyInt, PyVal.numVal]
      rw [if_neg (by rw [beq_iff_eq]; exact hq)]
      rfl
  · exact ⟨(.float q, reprFloat q), by simp [Conv.apply, alphaText, PyVal.isStr, PyVal.pyStr],
      PyVal.pyEq_refl _, Or.inl rfl⟩
  · exact ⟨(.float q, reprFloat q), by simp [Conv.apply, PyVal.pyStr], PyVal.pyEq_refl _, Or.inl rfl⟩

/-- float values whose shortest repr needs 7–15 significant digits (inside the domain of
    `reprFloat`): small powers of two, integers above 10^6, 7–10 digit decimals, values next to
    the defaults 6.0 / 255.0 / 1.0, dyadic neighbours of √2 and √2/2, negative values -/
def longFloats : List Rat :=
  [1 / 512, 1 / 1024, 1 / 4096, 1 / 8192, 1048577, 3000001, 16777217, 2469135 / 2,
   1234567 / 10000000, 12345678 / 100000000, 6000001 / 1000000, 25500001 / 100000,
   7999999999 / 1000000000, 10000001 / 10000000, 11586 / 8192, 11585 / 8192, 11585 / 16384,
   -1 / 512, -1234567 / 10000000]

/-- `C10_str_roundtrip_complete` needs `Readable`: the text `reprFloat q` must be a float literal
    of the grammar whose decimal value is `q` itself.  That is NOT proved for all `q` (general
    readability of `reprFloat`: digits of `|q|·10^k`, zero padding, sign); it is DECIDED per
    instance.  This is the decision for every class × every float option × every value of
    `longFloats` that the constructor accepts: all hypotheses of the complete round trip hold, so
    `get_quantizer(str(q))` has every constructor argument `==` the original's. -/
theorem C10_str_roundtrip_long_floats_partial :
    ∀ c ∈ Cls.all, ∀ o ∈ floatOptionNames, o ∈ paramNames c → ∀ v ∈ longFloats,
      (∃ q, construct c [] [(o, .float v)] = .ok q) →
        completeHyps c [] [(o, .float v)] = true := by
  have h : (Cls.all.all fun c => floatOptionNames.all fun o =>
      !(paramNames c).contains o || longFloats.all fun v =>
        match construct c [] [(o, .float v)] with
        | .error _ => true
        | .ok _ => completeHyps c [] [(o, .float v)]) = true := by decide +kernel
  intro c hc o ho hp v hv ⟨q, hq⟩
  rw [List.all_eq_true] at h
  have h1 := h c hc
  rw [List.all_eq_true] at h1
  have h2 := h1 o ho
  rw [Bool.or_eq_true] at h2
  rcases h2 with h2 | h2
  · simp only [Bool.not_eq_true', List.contains_eq_mem, decide_eq_false_iff_not] at h2
    exact absurd hp h2
  · rw [List.all_eq_true] at h2
    have h3 := h2 v hv
    rw [hq] at h3
    exact h3

/-- the seed's failing inputs evaluated in the model: the bound is printed with all its digits in
    the `max_value` slot and read back as the same number, under every rounding mode of its
    consumer; an integral bound above 10^6 keeps its integer text (`"{:g}"` prints `3e+06`) -/
theorem C10_str_po2_long_max_value_witness :
    (let r := strTrip .quantized_po2 [("max_value", .float (1 / 512)), ("log2_rounding", .str "floor")]
     text r = some "quantized_po2(8,0.001953125,log2_rounding='floor')" ∧
       slot r "max_value" = some (.float (1 / 512))) ∧
    (let r := strTrip .quantized_po2 [("max_value", .float (1234567 / 10000000))]
     text r = some "quantized_po2(8,0.1234567)" ∧
       slot r "max_value" = some (.float (1234567 / 10000000))) ∧
    (let r := strTrip .quantized_relu_po2
        [("max_value", .float 3000001), ("negative_slope", .float (1 / 8192))]
     text r = some "quantized_relu_po2(8,3000001,0.0001220703125)" ∧
       slot r "max_value" = some (.int 3000001) ∧
       slot r "negative_slope" = some (.float (1 / 8192))) ∧
    (let r := strTrip .quantized_po2
        [("max_value", .float (11586 / 8192)), ("quadratic_approximation", .bool true)]
     text r = some "quantized_po2(8,1.414306640625,quadratic_approximation=1)" ∧
       slot r "max_value" = some (.float (11586 / 8192))) ∧
    (let r := strTrip .quantized_ulaw [("u", .float (25500001 / 100000))]
     text r = some "quantized_ulaw(8,0,0,255.00001)" ∧
       slot r "u" = some (.float (25500001 / 100000))) ∧
    (let r := strTrip .stochastic_ternary [("temperature", .float (7999999999 / 1000000000))]
     text r = some "stochastic_ternary(temperature=7.999999999)" ∧
       slot r "temperature" = some (.float (7999999999 / 1000000000))) := by
  decide +kernel

/-! ### kept: `qnoise_factor` is never printed (recorded finding, see notes/C10.md) -/

/-- `qnoise_factor` is training-time state (a tensor under QAdaptiveActivation, a variable under
    the QNoiseScheduler) and is still not part of the text: the rebuilt quantizer has 1.0 -/
theorem C10_str_counterexample_qnoise_factor :
    slot (strTrip .quantized_bits [("qnoise_factor", .float (1 / 2))]) "qnoise_factor"
        = some (.float 1) ∧
    slot (strTrip .quantized_relu [("qnoise_factor", .float (1 / 2))]) "qnoise_factor"
        = some (.float 1) ∧
    "qnoise_factor" ∉ printedNames .quantized_bits := by decide +kernel

/-! ## non-vacuity -/

/-- a grammar call with every literal kind, mixed positional / keyword -/
example : Grammar "quantized_bits"
    [.pos (.int false ['4']), .pos (.int true ['1', '2']), .kw "alpha" (.str false "auto_po2".toList),
     .kw "x" (.float true ['1'] ['5', '0'] (some (true, ['3']))), .kw "y" .none, .kw "z" (.bool true),
     .kw "w" (.list [.int false ['2'], .float true ['0'] ['5'] none]), .pos (.list [])] :=
  ⟨by decide, by decide⟩

/-- the hypotheses of the round-trip theorem (`roundTripHyps` decides them) hold for instances
    with float, string and list flags -/
example :
    roundTripHyps .quantized_relu [.int 4, .int 2]
      [("negative_slope", .float (1 / 4)), ("relu_upper_bound", .float (3 / 2)),
       ("use_ste", .bool false)] = true ∧
    roundTripHyps .quantized_bits [.int 4, .int 1]
      [("alpha", .str "auto_po2"), ("scale_axis", .int 0), ("elements_per_scale", .int 2)] = true ∧
    roundTripHyps .binary []
      [("alpha", .str "auto_po2"), ("scale_axis", .list [.int 0, .int 1]),
       ("elements_per_scale", .list [.int 2, .int 2])] = true ∧
    roundTripHyps .bernoulli [] [("alpha", .str "auto"), ("temperature", .float (9 / 2))] = true ∧
    roundTripHyps .quantized_relu_po2 []
      [("max_value", .float (1 / 2)), ("use_stochastic_rounding", .bool true),
       ("log2_rounding", .str "floor")] = true ∧
    roundTripHyps .quantized_hswish [] [("alpha", .str "auto"), ("scale_axis", .int 0)] = true := by
  decide +kernel

/-- numpy-style lists are in the readable grammar (and not in the Python one) -/
example :
    (Lit.blist 0 [(.float false ['0'] ['5'] none, 2), (.float false ['0'] ['2', '5'] none, 1),
      (.float false ['2'] [] none, 2)]).rd = true ∧
    (Lit.blist 0 [(.float false ['0'] ['5'] none, 2), (.float false ['0'] ['2', '5'] none, 1),
      (.float false ['2'] [] none, 2)]).text = "[0.5  0.25 2.  ]".toList ∧
    (Lit.blist 1 [(.int false ['1'], 1), (.int true ['2'], 0)]).wf = false := by decide +kernel

/-- per-channel options printed as `str(numpy.ndarray)` satisfy the round-trip hypotheses:
    array-valued alpha of quantized_linear, per-channel integer bits of quantized_bits / relu -/
example :
    completeHyps .quantized_linear [.int 4]
      [("alpha", .list [.float (1 / 2), .float (1 / 4), .float 2])] = true ∧
    completeHyps .quantized_bits []
      [("integer", .list [.int 10, .int 2, .int 0]), ("alpha", .float 1), ("symmetric", .int 1)] = true ∧
    completeHyps .quantized_relu [] [("integer", .list [.int 1, .int 2, .int 0])] = true ∧
    -- a one-channel array loses its brackets ("[3]" -> "3"): the text denotes the scalar
    completeHyps .quantized_relu [] [("integer", .list [.int 3])] = false ∧
    -- list-valued axes of quantized_bits / quantized_linear print item by item (second fix round)
    completeHyps .quantized_bits [] [("alpha", .str "auto"), ("scale_axis", .list [.int 0, .int 1]),
      ("elements_per_scale", .list [.int 2, .int 2])] = true ∧
    completeHyps .quantized_linear [] [("alpha", .str "auto"), ("scale_axis", .list [.int 0, .int 1])] = true := by
  decide +kernel

/-- the complete-option-set hypotheses hold at the cross-default points and for falsy-but-legal
    option values -/
example :
    completeHyps .stochastic_ternary []
      [("alpha", .str "auto"), ("temperature", .float 6), ("number_of_unrolls", .int 0)] = true ∧
    completeHyps .bernoulli [] [("alpha", .str "auto_po2"), ("temperature", .float 8)] = true ∧
    completeHyps .ternary [] [("threshold", .float 0)] = true ∧
    completeHyps .quantized_ulaw [.int 4, .int 1] [("u", .float 0)] = true ∧
    completeHyps .quantized_relu [] [("relu_upper_bound", .float 0), ("negative_slope", .int 0)] = true := by
  decide +kernel

/-- the anchoring clause does exclude something: the statement of the seeded change — one helper
    for the three stochastic classes that omits `temperature` at 6.0 — is not anchored at the
    default 8.0 of `stochastic_ternary`, and its omission at 6.0 is not an omission of the default -/
example : Cond.anchored (.float 8) (.ne (.float 6)) = false ∧
    (Cond.ne (.float 6)).holds (.float 6) = false ∧ (PyVal.float 8).pyEq (.float 6) = false := by
  decide +kernel

/-- `Kinded` does exclude something: `None` where a flag is expected — `if self.x:` omits it, the
    rebuilt quantizer has `False`, and `None != False`.  (It no longer excludes `alpha=0`: the
    scale is tested with `is not None` since the second fix round.) -/
example : (¬ Kinded ⟨.quantized_bits, (params .quantized_bits).map fun p =>
      if p.1 == "use_stochastic_rounding" then (p.1, .none) else p⟩) ∧
    Kinded ⟨.quantized_bits, (params .quantized_bits).map fun p =>
      if p.1 == "alpha" then (p.1, .int 0) else p⟩ := by decide +kernel

/-- `Typed` does exclude something: a fraction where a flag is expected (`str(int(0.5))` is "0") -/
example : ¬ Typed ⟨.quantized_tanh, [("bits", .int 8), ("use_stochastic_rounding", .float (1 / 2)),
    ("symmetric", .bool false), ("use_real_tanh", .bool false)]⟩ := by decide +kernel

/-- strengthening round 3: the hypotheses of `C10_str_roundtrip_long_floats_partial` are
    satisfiable (a long max_value is accepted) and do exclude something (the constructor rejects
    a negative bound and a slope that is not a power of two); the float-conversion theorem speaks
    about a conversion that is NOT exact on floats too: `str(int(x))` — used for flags only, never
    for an option of `floatOptionNames` (`C10_str_float_options_table`) — prints `0` for 0.5;
    outside the domain of `reprFloat` (1/3, 2^-20) the model has no text: such values are judged
    by the clause oracle only -/
example : (construct .quantized_po2 [] [("max_value", .float (1 / 512))]).toBool = true ∧
    (construct .quantized_po2 [] [("max_value", .float (-1 / 512))]).toBool = false ∧
    (construct .quantized_relu [] [("negative_slope", .float (1234567 / 10000000))]).toBool = false ∧
    Conv.keepsFloat .int = false ∧ Conv.int.apply (.float (1 / 2)) = .ok (.int 0, "0") ∧
    reprFloat (1 / 3) = "<float>" ∧ reprFloat (1 / 1048576) = "<float>" ∧
    reprFloat (1 / 512) = "0.001953125" := by decide +kernel

end QKV.Props.C10
