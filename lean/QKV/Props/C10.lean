/-
  C10 — quantizer strings parse as the equivalent Python call and str(q) re-parses to q.

  Property (verbatim, properties.jsonl): A quantizer given as text - the form used in layer
  arguments, conversion dictionaries and AutoQKeras configurations - is built with exactly the
  positional and keyword arguments that evaluating the same call expression in Python would give
  (integers, floats, booleans, None, quoted strings, number lists), never executing arbitrary
  code, and malformed argument order is rejected.  The text a quantizer prints for itself parses
  back to a quantizer that computes the same function.

  What is proved, and what the unchanged code violates:
  * `C10_parse_eq_python`: on the generated grammar — `name(arg,…,key=arg,…)`, arguments
    `None/True/False`, signed decimal integers, signed decimal floats with optional exponent,
    quoted strings, keywords pairwise distinct — the safe_eval model returns exactly Python's
    reading.  Carved out with counterexample theorems: bracketed lists (`[2,3]`, `[2]`, `[]`),
    repeated keywords, literals Python rejects but `int()` accepts (`08`).
  * `C10_order_rejected`, `C10_no_code`.
  * `C10_str_roundtrip_partial`: `get_quantizer(str(q))` rebuilds `q` whenever `str(q)` is the
    rendering of a call whose Python evaluation constructs `q` (`Printable`); the observed
    failures are `C10_str_counterexample_*`.
  Model: QKV.Model.Parse / QKV.Model.Print.  This file holds ONLY property theorems.
-/
import QKV.Lemmas.Parse
import QKV.Lemmas.Config
namespace QKV.Props.C10
open QKV.Py

/-- the generated grammar: identifier name, well-formed literal arguments, identifier keywords -/
structure Grammar (name : String) (as : List Arg) : Prop where
  name : isIdent name = true
  args : ∀ a ∈ as, a.wf = true

/-! ## literals -/

/-- `GetArg` reads every literal of the grammar exactly as Python evaluates it
    (all digit-string lengths, all string contents over the allowed alphabet) -/
theorem C10_getarg_literal (l : Lit) (h : l.wf = true) : getArg l.text = l.val := getArg_lit l h

/-- the decimal text of every natural number reads back as that integer, so `str(int)`
    flags (bit widths, axes, exponents) re-parse exactly for all values -/
theorem C10_getarg_nat (n : Nat) : getArg (toString n).toList = .int n := by
  have hd : allDigits (Nat.toDigits 10 n) = true := by
    rw [allDigits_iff]
    refine ⟨Nat.toDigits_ne_nil, fun c hc => ?_⟩
    have := Nat.isDigit_of_mem_toDigits (by decide) (by decide) hc
    simp only [Char.isDigit, Bool.and_eq_true, decide_eq_true_eq] at this
    simp only [isDig, Bool.and_eq_true, decide_eq_true_eq]
    have h1 : (48 : UInt32).toNat ≤ c.val.toNat := UInt32.le_iff_toNat_le.1 this.1
    have h2 : c.val.toNat ≤ (57 : UInt32).toNat := UInt32.le_iff_toNat_le.1 this.2
    exact ⟨h1, h2⟩
  have hv : digitsVal (Nat.toDigits 10 n) = n := by
    have := Nat.ofDigitChars_ten_toDigits (n := n)
    simpa [Nat.ofDigitChars, digitsVal, digitVal] using this
  have ht : (toString n).toList = signText false ++ Nat.toDigits 10 n := by
    simp [signText]
  rw [ht, getArg_int false _ hd, hv]
  rfl

/-! ## the call -/

/-- **safe_eval = Python on the grammar.**  For every call expression of the generated
    grammar with pairwise distinct keywords, the arguments safe_eval extracts are exactly the
    ones Python's own evaluation of the expression gives — including the `SyntaxError` for a
    positional argument after a keyword argument. -/
theorem C10_parse_eq_python (name : String) (as : List Arg) (g : Grammar name as)
    (hk : (argKeys as).Nodup) : parseCall (render name as) = pyCall name as := by
  rw [parseCall_render name as g.name g.args]
  unfold pyCall
  cases h : argPosAfterKw as
  · simp only [Bool.false_eq_true, if_false, hk, if_true]
    rw [itemKwargs_render as g.args [] (by simpa [Env.keys] using hk)]
    rfl
  · rfl

/-- the accepted case spelled out: positional values in order, keyword values by name -/
theorem C10_parse_ok (name : String) (as : List Arg) (g : Grammar name as)
    (ho : argPosAfterKw as = false) (hk : (argKeys as).Nodup) :
    parseCall (render name as) = .ok ⟨name, argVals as, argKwargs as, true⟩ := by
  rw [C10_parse_eq_python name as g hk]
  simp [pyCall, ho, hk]

/-- **malformed order is rejected**: any positional argument after a keyword argument gives
    `SyntaxError`, whatever else the call contains (repeated keywords included) -/
theorem C10_order_rejected (name : String) (as : List Arg) (g : Grammar name as)
    (h : argPosAfterKw as = true) : parseCall (render name as) = .error .syntaxError := by
  rw [parseCall_render name as g.name g.args, h]
  rfl

/-- **no code is executed**: whatever the text, each extracted argument is one of the five
    literal forms computed from the token's characters … -/
theorem C10_no_code_arg (s : List Char) :
    getArg s = .bool true ∨ getArg s = .bool false ∨ (∃ n, pyNum s = some n ∧ getArg s = n.toVal) ∨
      getArg s = .none ∨ getArg s = .list (listOfNums s) ∨
      getArg s = .str (String.ofList (s.drop 1).dropLast) := by
  unfold getArg
  split
  · exact Or.inl rfl
  · split
    · exact Or.inr (Or.inl rfl)
    · split
      · rename_i n hn; exact Or.inr (Or.inr (Or.inl ⟨n, hn, rfl⟩))
      · split
        · exact Or.inr (Or.inr (Or.inr (Or.inl rfl)))
        · split
          · exact Or.inr (Or.inr (Or.inr (Or.inr (Or.inl rfl))))
          · exact Or.inr (Or.inr (Or.inr (Or.inr (Or.inr rfl))))

/-- … and the only thing `get_quantizer(text)` runs for a registered name is that class's
    constructor on those literals -/
theorem C10_no_code (s : List Char) (q : Q) (h : safeEval s = .ok q) :
    ∃ c cls, parseCall s = .ok c ∧ lookup c.name = some cls ∧ construct cls c.args c.kwargs = .ok q := by
  unfold safeEval at h
  split at h
  · cases h
  · rename_i c hc
    split at h
    · cases h
    · rename_i cls hl
      exact ⟨c, cls, hc, hl, h⟩

/-! ## where safe_eval is NOT Python (carved out of the grammar) -/

/-- Python list syntax: `[2,3]` as a keyword value is cut at the comma → `SyntaxError` -/
theorem C10_parse_counterexample_list_kw :
    parseCall "binary(scale_axis=[2,3])".toList = .error .syntaxError := by decide +kernel
/-- positional `[2,3]` becomes two empty strings, `[2]` the string "2", `[]` the empty string -/
theorem C10_parse_counterexample_list_pos :
    parseCall "f([2,3])".toList = .ok ⟨"f", [.str "", .str ""], [], true⟩ ∧
    parseCall "f(a=[2])".toList = .ok ⟨"f", [], [("a", .str "2")], true⟩ ∧
    parseCall "f(a=[])".toList = .ok ⟨"f", [], [("a", .str "")], true⟩ := by decide +kernel
/-- the only list form that is understood is not Python: space separated, keyword only -/
theorem C10_parse_counterexample_list_space :
    parseCall "f(a=[2 3])".toList = .ok ⟨"f", [], [("a", .list [.int 2, .int 3])], true⟩ ∧
    parseCall "f([2 3])".toList = .error .parseException := by decide +kernel
/-- a repeated keyword is a `SyntaxError` in Python; safe_eval silently keeps the last value -/
theorem C10_parse_counterexample_repeated_kw :
    let as := [Arg.kw "a" (.int false ['1']), Arg.kw "a" (.int false ['2'])]
    parseCall (render "f" as) = .ok ⟨"f", [], [("a", .int 2)], true⟩ ∧
      pyCall "f" as = .error .syntaxError := by decide +kernel
/-- text Python rejects or reads differently is accepted: `08` → 8, `true` → "ru", `x` → "" -/
theorem C10_parse_counterexample_nonliterals :
    parseCall "f(08)".toList = .ok ⟨"f", [.int 8], [], true⟩ ∧
    parseCall "f(true)".toList = .ok ⟨"f", [.str "ru"], [], true⟩ ∧
    parseCall "f(x)".toList = .ok ⟨"f", [.str ""], [], true⟩ := by decide +kernel
/-- more than one "(" anywhere and every argument is silently dropped -/
theorem C10_parse_counterexample_second_paren :
    parseCall "quantized_bits(4,alpha='a(b')".toList = .ok ⟨"quantized_bits", [], [], false⟩ := by
  decide +kernel

/-! ## str(q) round trip -/

/-- `str(q)` is the rendering of a grammar call whose Python evaluation constructs `q` -/
def Printable (q : Q) : Prop :=
  ∃ as, Grammar q.cls.name as ∧ (argKeys as).Nodup ∧
    printQ q = .ok (String.ofList (render q.cls.name as)) ∧
    (match pyCall q.cls.name as with
     | .ok c => construct q.cls c.args c.kwargs
     | .error e => .error e) = .ok q

private theorem lookup_name (c : Cls) : lookup c.name = some c := by cases c <;> decide

/-- whenever `str(q)` lies in the grammar, `get_quantizer(str(q))` does exactly what Python's
    evaluation of `str(q)` would do (safe_eval adds no deviation of its own) -/
theorem C10_str_reparse_eq_python (q : Q) (as : List Arg) (g : Grammar q.cls.name as)
    (hk : (argKeys as).Nodup) (hp : printQ q = .ok (String.ofList (render q.cls.name as))) :
    reparse q = match pyCall q.cls.name as with
      | .ok c => construct q.cls c.args c.kwargs
      | .error e => .error e := by
  unfold reparse safeEval
  rw [hp]
  simp only [String.toList_ofList, C10_parse_eq_python _ as g hk]
  cases h : pyCall q.cls.name as with
  | error e => rfl
  | ok c =>
    have hn : c.name = q.cls.name := by
      unfold pyCall at h
      split at h
      · cases h
      · cases h; rfl
    simp only [hn, lookup_name]

/-- **str round trip (partial).**  A printable quantizer is rebuilt by `get_quantizer(str(q))`
    as an instance with identical class and stored arguments, hence with the same function. -/
theorem C10_str_roundtrip_partial (q : Q) (h : Printable q) :
    reparse q = .ok q ∧ ∀ {α : Type} (apply : Q → α) (q' : Q), reparse q = .ok q' → apply q' = apply q := by
  obtain ⟨as, g, hk, hp, hc⟩ := h
  have h1 : reparse q = .ok q := (C10_str_reparse_eq_python q as g hk hp).trans hc
  refine ⟨h1, ?_⟩
  intro α apply q' h'
  rw [h1] at h'; cases h'; rfl

/-! ### counterexamples of the str direction (each replayed on the real code) -/

/-- outcome of `get_quantizer(str(cls(**kw)))`: the printed text and the rebuilt instance -/
def strTrip (c : Cls) (kw : Env) : Except Err (String × Except Err Q) :=
  match construct c [] kw with
  | .error e => .error e
  | .ok q => match printQ q with
    | .error e => .ok ("", .error e)
    | .ok s => .ok (s, safeEval s.toList)

private def slot (r : Except Err (String × Except Err Q)) (k : String) : Option PyVal :=
  match r with
  | .ok (_, .ok q) => some (q.get k)
  | _ => none
private def text (r : Except Err (String × Except Err Q)) : Option String :=
  match r with
  | .ok (s, _) => some s
  | _ => none
private def outcome (r : Except Err (String × Except Err Q)) : Option Err :=
  match r with
  | .ok (_, .error e) => some e
  | _ => none

/-- `quantized_tanh(symmetric=True)` prints "quantized_tanh(8,1)"; the 1 re-parses into
    `use_stochastic_rounding` and `symmetric` is lost -/
theorem C10_str_counterexample_tanh_symmetric :
    let r := strTrip .quantized_tanh [("symmetric", .bool true)]
    text r = some "quantized_tanh(8,1)" ∧ slot r "use_stochastic_rounding" = some (.int 1) ∧
      slot r "symmetric" = some (.bool false) := by decide +kernel
/-- `quantized_tanh(use_real_tanh=True)` lands in `use_stochastic_rounding` as well -/
theorem C10_str_counterexample_tanh_real :
    let r := strTrip .quantized_tanh [("use_real_tanh", .bool true)]
    text r = some "quantized_tanh(8,1)" ∧ slot r "use_stochastic_rounding" = some (.int 1) ∧
      slot r "use_real_tanh" = some (.bool false) := by decide +kernel
/-- `quantized_sigmoid(use_real_sigmoid=True)` prints "quantized_sigmoid(8,1)" → `symmetric` -/
theorem C10_str_counterexample_sigmoid_real :
    let r := strTrip .quantized_sigmoid [("use_real_sigmoid", .bool true)]
    text r = some "quantized_sigmoid(8,1)" ∧ slot r "symmetric" = some (.int 1) ∧
      slot r "use_real_sigmoid" = some (.bool false) := by decide +kernel
theorem C10_str_counterexample_sigmoid_stochastic :
    let r := strTrip .quantized_sigmoid [("use_stochastic_rounding", .bool true)]
    text r = some "quantized_sigmoid(8,1)" ∧ slot r "symmetric" = some (.int 1) ∧
      slot r "use_stochastic_rounding" = some (.bool false) := by decide +kernel
/-- `quantized_relu(negative_slope=0.25)` prints "quantized_relu(8,0,0.25)" → `use_sigmoid` -/
theorem C10_str_counterexample_relu_slope :
    let r := strTrip .quantized_relu [("negative_slope", .float (1 / 4))]
    text r = some "quantized_relu(8,0,0.25)" ∧ slot r "use_sigmoid" = some (.float (1 / 4)) ∧
      slot r "negative_slope" = some (.float 0) := by decide +kernel
/-- `quantized_relu_po2(negative_slope=0.25)` → `max_value` slot -/
theorem C10_str_counterexample_relu_po2_slope :
    let r := strTrip .quantized_relu_po2 [("negative_slope", .float (1 / 4))]
    text r = some "quantized_relu_po2(8,0.25)" ∧ slot r "max_value" = some (.float (1 / 4)) ∧
      slot r "negative_slope" = some (.int 0) := by decide +kernel
/-- `quantized_po2(max_value=0.5)` prints the bound through `int()`: "quantized_po2(8,0)" -/
theorem C10_str_counterexample_po2_max_value :
    let r := strTrip .quantized_po2 [("max_value", .float (1 / 2))]
    text r = some "quantized_po2(8,0)" ∧ slot r "max_value" = some (.int 0) := by decide +kernel
/-- `quantized_ulaw(u=100.0)` prints fine but options `__str__` never prints are lost, e.g.
    `quantized_bits(scale_axis=0)`, `quantized_relu(relu_upper_bound=1.5)` -/
theorem C10_str_counterexample_omitted_options :
    slot (strTrip .quantized_bits [("alpha", .str "auto"), ("scale_axis", .int 0)]) "scale_axis"
        = some .none ∧
    slot (strTrip .quantized_relu [("relu_upper_bound", .float (3 / 2))]) "relu_upper_bound"
        = some .none ∧
    slot (strTrip .quantized_bits [("qnoise_factor", .float (1 / 2))]) "qnoise_factor"
        = some (.float 1) := by decide +kernel
/-- list-valued keyword options print in Python syntax, which safe_eval cannot read -/
theorem C10_str_counterexample_binary_list :
    let r := strTrip .binary [("scale_axis", .list [.int 2, .int 3])]
    text r = some "binary(scale_axis=[2,3])" ∧ outcome r = some .syntaxError := by decide +kernel
/-- `str(quantized_hswish(...))` raises for every instance (assert on a str being an int) -/
theorem C10_str_counterexample_hswish (q : Q) (h : q.cls = .quantized_hswish) :
    printQ q = .error .assertionError := by
  unfold printQ flags; rw [h]
/-- `str(quantized_linear(alpha=<number>))` raises UnboundLocalError -/
theorem C10_str_counterexample_linear_alpha :
    outcome (strTrip .quantized_linear [("alpha", .float 2)]) = some .unboundLocal := by
  decide +kernel
/-- po2 quantizers with stochastic rounding and no max_value: `int(None)` raises TypeError -/
theorem C10_str_counterexample_po2_stochastic :
    outcome (strTrip .quantized_po2 [("use_stochastic_rounding", .bool true)]) = some .typeError ∧
    outcome (strTrip .quantized_relu_po2 [("use_stochastic_rounding", .bool true)])
      = some .typeError := by decide +kernel

/-! ## non-vacuity -/

/-- a grammar call with every literal kind, mixed positional / keyword -/
example : Grammar "quantized_bits"
    [.pos (.int false ['4']), .pos (.int true ['1', '2']), .kw "alpha" (.str false "auto_po2".toList),
     .kw "x" (.float true ['1'] ['5', '0'] (some (true, ['3']))), .kw "y" .none, .kw "z" (.bool true)] :=
  ⟨by decide, by decide⟩

/-- `quantized_bits(4, 1, alpha="auto")` is `Printable` -/
example : ∃ q, construct .quantized_bits [.int 4, .int 1] [("alpha", .str "auto")] = .ok q ∧
    Printable q := by
  refine ⟨_, rfl, [.pos (.int false ['4']), .pos (.int false ['1']), .pos (.int false ['1']),
    .kw "alpha" (.str false "auto".toList)], ⟨by decide, by decide⟩, by decide, ?_, ?_⟩
  · decide +kernel
  · decide +kernel

/-- `bernoulli(alpha="auto", temperature=4.5)` is `Printable` (a float flag) -/
example : ∃ q, construct .bernoulli [] [("alpha", .str "auto"), ("temperature", .float (9 / 2))] = .ok q ∧
    Printable q := by
  refine ⟨_, rfl, [.kw "alpha" (.str false "auto".toList),
    .kw "temperature" (.float false ['4'] ['5'] none)], ⟨by decide, by decide⟩, by decide, ?_, ?_⟩
  · decide +kernel
  · decide +kernel

end QKV.Props.C10
