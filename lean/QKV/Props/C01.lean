/-
  C01 — fixed-point quantizers emit only representable codes of the declared format.

  Property (verbatim): For every fixed-point quantizer configuration (total bits, integer bits,
  signedness, symmetry; the plain, ReLU, leaky-ReLU, tanh and sigmoid variants, with no scale or
  a constant scale) and every finite input of magnitude below 2^24 quantization steps, each
  output element is an integer multiple of the format's step 2^(integer bits - fraction bits)
  and lies between the smallest and the largest code of that format, so at most 2^bits distinct
  values can ever appear. The quantizer's own min() and max() enclose every output and range()
  enumerates exactly the reachable set.

  Model: QKV.Model.FixedQ (exact rationals; every tie rule `t`).  All statements are for ALL bit
  widths, integer-bit settings and rational inputs.  Only property theorems here.
-/
import QKV.Lemmas.FixedQ
import QKV.Model.QTypes
namespace QKV.Props.C01
open QKV

/-! ## quantized_bits -/

/-- every output is `alpha · k · step` with `k` a code of the format -/
theorem C01_bits_on_lattice (t : Tie) (c : BitsCfg) (h : 0 < c.ub) (x : ℚ) :
    ∃ k : ℤ, c.lo ≤ k ∧ k ≤ c.hi ∧ qbits t c x = c.gain * (k : ℚ) * c.step := by
  rw [qbits_eq_sq t c h]; exact sq_lattice t c.step c.gain x c.lo_le_hi

/-- the code interval has at most `2^bits` elements -/
theorem C01_bits_card (c : BitsCfg) (h : 0 < c.ub) : c.hi - c.lo + 1 ≤ tp c.bits := by
  unfold BitsCfg.hi BitsCfg.lo
  rw [twoPow_eq_tp]
  have hub : c.ub = c.bits - (if c.keepNeg then 1 else 0) := rfl
  cases hk : c.keepNeg <;> simp only [hk, if_true, if_false, Bool.false_eq_true] at hub ⊢
  · rw [hub]; simp
  · have : tp c.bits = 2 * tp c.ub := by
      have e : c.bits = c.ub + 1 := by omega
      rw [e, tp_succ (by omega)]
    rw [this]; split <;> omega

/-- for a non-symmetric format the codes are exactly qtools' two's-complement range, and the
    step is qtools' lsb: the unscaled output is a value of type (bits, integer, keep_negative) -/
theorem C01_bits_valFixed (t : Tie) (c : BitsCfg) (h : 0 < c.ub) (hs : c.symmetric = false)
    (ha : c.alpha = none) (x : ℚ) : ValFixed c.bits c.integer c.keepNeg (qbits t c x) := by
  obtain ⟨k, h1, h2, hk⟩ := C01_bits_on_lattice t c h x
  refine ⟨k, ?_, ?_, ?_⟩
  · unfold BitsCfg.lo at h1
    have hub : c.ub = c.bits - (if c.keepNeg then 1 else 0) := rfl
    rw [twoPow_eq_tp] at h1
    cases hk' : c.keepNeg <;> simp only [hk', hs, if_true, if_false, Bool.false_eq_true] at h1 hub ⊢
    · rw [fixedLo_unsigned]; exact h1
    · rw [fixedLo_signed, ← hub]; omega
  · unfold BitsCfg.hi at h2
    have hub : c.ub = c.bits - (if c.keepNeg then 1 else 0) := rfl
    rw [twoPow_eq_tp] at h2
    cases hk' : c.keepNeg <;> simp only [hk', if_true, if_false, Bool.false_eq_true] at hub ⊢
    · rw [fixedHi_unsigned]; rw [hub] at h2; simpa using h2
    · rw [fixedHi_signed, ← hub]; exact h2
  · rw [hk]
    have : c.gain = 1 := by simp [BitsCfg.gain, ha]
    rw [this, one_mul]
    congr 1
    unfold BitsCfg.step fixedLsb
    have hub : c.ub = c.bits - (if c.keepNeg then 1 else 0) := rfl
    cases hk' : c.keepNeg <;> simp only [hk', b2i, if_true, if_false, Bool.false_eq_true] at hub ⊢ <;>
      (congr 1; omega)

/-- one-bit signed `quantized_bits` is the binary quantizer: outputs `±alpha` -/
theorem C01_bits_one_bit (t : Tie) (c : BitsCfg) (h : ¬ 0 < c.ub) (hk : c.keepNeg = true) (x : ℚ) :
    qbits t c x = c.gain ∨ qbits t c x = - c.gain := by
  unfold qbits signPM
  rw [if_neg h]
  simp only [hk, if_true]
  split
  · right; ring
  · left; ring

/-- `min()` and `max()` enclose every output when there is no scale (or the scale is 1) -/
theorem C01_bits_minmax (t : Tie) (c : BitsCfg) (hg : c.gain = 1) (hb : 1 ≤ c.bits) (x : ℚ) :
    qbitsMin c ≤ qbits t c x ∧ qbits t c x ≤ qbitsMax c := by
  by_cases h : 0 < c.ub
  · obtain ⟨k, h1, h2, hk⟩ := C01_bits_on_lattice t c h x
    rw [hk, hg, one_mul]
    have hstep : (tp c.ub : ℚ) * c.step = pow2 c.integer := by
      unfold BitsCfg.step
      rw [tp_cast (by omega), ← pow2_add]; congr 1; ring
    have hsp := c.step_pos
    have hk2 : (k : ℚ) ≤ (tp c.ub : ℚ) - 1 := by
      have : k ≤ tp c.ub - 1 := by simpa [BitsCfg.hi, twoPow_eq_tp] using h2
      exact_mod_cast this
    have hpi := pow2_pos c.integer
    constructor
    · unfold qbitsMin
      cases hkn : c.keepNeg
      · simp only [Bool.not_false, if_true]
        have : 0 ≤ k := by simpa [BitsCfg.lo, hkn] using h1
        have : (0 : ℚ) ≤ k := by exact_mod_cast this
        positivity
      · simp only [Bool.not_true, Bool.false_eq_true, if_false, if_pos h]
        have hk1 : (-(tp c.ub : ℚ)) ≤ k := by
          have : -tp c.ub ≤ k := by
            have := h1; simp only [BitsCfg.lo, hkn, if_true, twoPow_eq_tp] at this
            split at this <;> omega
          exact_mod_cast this
        have : -pow2 c.integer ≤ (k : ℚ) * c.step := by rw [← hstep]; nlinarith
        split <;> linarith
    · unfold qbitsMax
      rw [if_pos h]
      have : (k : ℚ) * c.step ≤ pow2 c.integer := by rw [← hstep]; nlinarith
      split <;> linarith
  · unfold qbitsMin qbitsMax qbits signPM
    simp only [if_neg h, hg, one_mul]
    cases hkn : c.keepNeg
    · -- unsigned with zero magnitude bits cannot have bits ≥ 1
      exfalso
      have : c.ub = c.bits := by simp [BitsCfg.ub, BitsCfg.ub.b2i', hkn]
      omega
    · simp only [Bool.not_true, Bool.false_eq_true, if_false, if_true]
      split <;> constructor <;> norm_num

/-- COUNTEREXAMPLE (known finding C01-bits-alpha-minmax): `max()` ignores a constant `alpha`:
    `quantized_bits(4, 0, alpha=2).max() = 1` but `q(5) = 2·(7/8) = 7/4`. -/
theorem C01_bits_minmax_counterexample :
    let c : BitsCfg := { bits := 4, integer := 0, symmetric := false, keepNeg := true, alpha := some 2 }
    qbits .even c 5 = 7 / 4 ∧ qbitsMax c = 1 := by
  constructor
  · decide +kernel
  · decide +kernel

/-- `range()` lists exactly the reachable outputs (signed, non-symmetric, no scale, ≥ 2 bits) -/
theorem C01_bits_range_exact (t : Tie) (c : BitsCfg) (hb : 2 ≤ c.bits) (l : List ℚ)
    (hr : qbitsRange c = some l) (y : ℚ) : y ∈ l ↔ ∃ x, qbits t c x = y := by
  unfold qbitsRange at hr
  split at hr
  · cases hr
  · rename_i hcond
    simp only [Bool.or_eq_true, Bool.not_eq_true', decide_eq_true_eq, not_or, Bool.not_eq_true,
      Bool.not_eq_false'] at hcond
    obtain ⟨⟨hsym, hkn⟩, halpha⟩ := hcond
    have hkn : c.keepNeg = true := by simpa using hkn
    have hsym : c.symmetric = false := by simpa using hsym
    have hgain : c.gain = 1 := by
      by_cases h : c.alpha = none
      · simp [BitsCfg.gain, h]
      · have : c.alpha = some 1 := by
          by_contra h2; exact halpha (by simp [h, h2])
        simp [BitsCfg.gain, this]
    have hub : c.ub = c.bits - 1 := by simp [BitsCfg.ub, BitsCfg.ub.b2i', hkn]
    have hub0 : 0 < c.ub := by omega
    have hstep : c.step = pow2 (c.integer - c.bits + 1) := by
      unfold BitsCfg.step; rw [hub]; congr 1; ring
    have hlo : c.lo = - tp (c.bits - 1) := by simp [BitsCfg.lo, hkn, hsym, hub, twoPow_eq_tp]
    have hhi : c.hi = tp (c.bits - 1) - 1 := by simp [BitsCfg.hi, hub, twoPow_eq_tp]
    have hn : twoPow c.bits = 2 * tp (c.bits - 1) := by
      rw [twoPow_eq_tp]
      have e : c.bits = (c.bits - 1) + 1 := by ring
      conv_lhs => rw [e]
      rw [tp_succ (by omega)]
    have hh := tp_pos (c.bits - 1)
    simp only [Option.some.injEq] at hr
    subst hr
    simp only [List.mem_map, List.mem_range]
    constructor
    · rintro ⟨i, hi, rfl⟩
      set k : ℤ := if twoPow (c.bits - 1) ≤ (i : ℤ) then (i : ℤ) - 2 * twoPow (c.bits - 1) else (i : ℤ)
        with hkdef
      have hi' : (i : ℤ) < 2 * tp (c.bits - 1) := by
        have : (i : ℤ) < ((twoPow c.bits).toNat : ℤ) := by exact_mod_cast hi
        rw [Int.toNat_of_nonneg (by rw [hn]; omega), hn] at this; exact this
      have hk1 : c.lo ≤ k := by
        rw [hlo, hkdef, twoPow_eq_tp]; split <;> omega
      have hk2 : k ≤ c.hi := by
        rw [hhi, hkdef, twoPow_eq_tp]; split <;> omega
      refine ⟨(k : ℚ) * c.step, ?_⟩
      rw [qbits_eq_sq t c hub0, hgain, sq_code t c.step_pos hk1 hk2, hstep]
    · rintro ⟨x, rfl⟩
      obtain ⟨k, h1, h2, hk⟩ := C01_bits_on_lattice t c hub0 x
      rw [hlo] at h1; rw [hhi] at h2
      by_cases hk0 : 0 ≤ k
      · refine ⟨k.toNat, ?_, ?_⟩
        · have : ((k.toNat : ℕ) : ℤ) < ((twoPow c.bits).toNat : ℤ) := by
            rw [Int.toNat_of_nonneg hk0, Int.toNat_of_nonneg (by rw [hn]; omega), hn]; omega
          exact_mod_cast this
        · simp only [Int.toNat_of_nonneg hk0, twoPow_eq_tp]
          rw [if_neg (by omega), hk, hgain, hstep]; ring
      · refine ⟨(k + 2 * tp (c.bits - 1)).toNat, ?_, ?_⟩
        · have h0 : 0 ≤ k + 2 * tp (c.bits - 1) := by omega
          have : (((k + 2 * tp (c.bits - 1)).toNat : ℕ) : ℤ) < ((twoPow c.bits).toNat : ℤ) := by
            rw [Int.toNat_of_nonneg h0, Int.toNat_of_nonneg (by rw [hn]; omega), hn]; omega
          exact_mod_cast this
        · have h0 : 0 ≤ k + 2 * tp (c.bits - 1) := by omega
          simp only [Int.toNat_of_nonneg h0, twoPow_eq_tp]
          rw [if_pos (by omega), hk, hgain, hstep]
          push_cast; ring

/-- COUNTEREXAMPLE (known finding C01-bits-1bit-range): for one bit `range()` lists
    `{0, −2^integer}` while the quantizer emits `±1`. -/
theorem C01_bits_range_one_bit_counterexample :
    let c : BitsCfg := { bits := 1, integer := 0, symmetric := false, keepNeg := true, alpha := none }
    qbitsRange c = some [0, -1] ∧ qbits .even c 3 = 1 := by
  constructor <;> decide +kernel

/-! ## quantized_relu -/

theorem C01_relu_plain_on_lattice (t : Tie) (c : ReluCfg) (h : c.slopeLog = none) (x : ℚ) :
    ∃ k : ℤ, 0 ≤ k ∧ k ≤ c.hi ∧ qrelu t c x = (k : ℚ) * c.step := by
  rw [qrelu_plain_eq_sq t c h]
  obtain ⟨k, h1, h2, hk⟩ := sq_lattice t c.step 1 x c.zero_le_hi
  exact ⟨k, h1, h2, by rw [hk]; ring⟩

/-- leaky ReLU with `negative_slope = 2^-s`, `s ≤` magnitude bits: outputs are integer multiples
    of the step with codes in `[−2^(nsb − s), 2^nsb − 1]` (at most `2^bits` of them) -/
theorem C01_relu_leaky_on_lattice (t : Tie) (c : ReluCfg) (s : ℕ) (h : c.slopeLog = some s)
    (hs : (s : ℤ) ≤ c.nsb) (x : ℚ) :
    ∃ k : ℤ, - tp (c.nsb - s) ≤ k ∧ k ≤ c.hi ∧ qrelu t c x = (k : ℚ) * c.step := by
  have hsp := c.step_pos
  have hslope : c.slope = pow2 (-(s : ℤ)) := by simp [ReluCfg.slope, h]
  have hslp := pow2_pos (-(s : ℤ))
  have hsm : c.slope * (twoPow c.nsb : ℚ) = (tp (c.nsb - s) : ℚ) := by
    rw [hslope, twoPow_eq_tp, tp_cast (by omega), tp_cast (by omega), ← pow2_add]; congr 1; ring
  have hsmpos : (0 : ℚ) < (tp (c.nsb - s) : ℚ) := by exact_mod_cast tp_pos _
  have hmi : pow2 c.integer * c.slope = (tp (c.nsb - s) : ℚ) * c.step := by
    unfold ReluCfg.step
    rw [hslope, tp_cast (by omega), ← pow2_add, ← pow2_add]; congr 1; ring
  unfold qrelu
  simp only [h]
  rw [hsm]
  rcases le_or_gt 0 x with hx | hx
  · -- non-negative input: the leaky term vanishes
    have hp : 0 ≤ x / c.step * c.slope := by rw [hslope]; positivity
    have hr : 0 ≤ roundTie t (x / c.step * c.slope) := by
      have := roundTie_mono t hp
      have e : roundTie t (0 : ℚ) = 0 := by simpa using roundTie_int t 0
      omega
    have hrq : (0 : ℚ) ≤ ((roundTie t (x / c.step * c.slope) : ℤ) : ℚ) / (tp (c.nsb - s) : ℚ) := by
      have : (0 : ℚ) ≤ ((roundTie t (x / c.step * c.slope) : ℤ) : ℚ) := by exact_mod_cast hr
      positivity
    obtain ⟨k, h1, h2, hk⟩ := sq_lattice t c.step 1 x c.zero_le_hi
    refine ⟨k, by have := tp_pos (c.nsb - s); omega, h2, ?_⟩
    unfold sq at hk
    rw [if_neg (by linarith)]
    rcases lt_or_eq_of_le hrq with hlt | heq
    · rw [if_pos hlt]; linarith
    · rw [if_neg (by rw [← heq]; exact lt_irrefl 0), ← heq]; linarith
  · -- negative input: the positive part saturates at 0
    have hpneg : x / c.step ≤ ((0 : ℤ) : ℚ) := by
      have : x / c.step < 0 := div_neg_of_neg_of_pos hx hsp
      push_cast; exact this.le
    rw [rc_sat_lo t c.zero_le_hi hpneg]
    have hp : x / c.step * c.slope ≤ ((0 : ℤ) : ℚ) := by
      have : x / c.step < 0 := div_neg_of_neg_of_pos hx hsp
      push_cast; rw [hslope]; nlinarith
    have hr : roundTie t (x / c.step * c.slope) ≤ 0 := by
      have := roundTie_mono t hp; rwa [roundTie_int] at this
    set k2 := roundTie t (x / c.step * c.slope) with hk2
    have hz := c.zero_le_hi
    by_cases hlow : ((k2 : ℤ) : ℚ) / (tp (c.nsb - s) : ℚ) < -1
    · refine ⟨- tp (c.nsb - s), le_rfl, by have := tp_pos (c.nsb - s); omega, ?_⟩
      rw [if_pos hlow, hmi]; push_cast; ring
    · rw [if_neg hlow]
      have hk2q : ((k2 : ℤ) : ℚ) ≤ 0 := by exact_mod_cast hr
      have hnp : ¬ (0 : ℚ) < ((k2 : ℤ) : ℚ) / (tp (c.nsb - s) : ℚ) := by
        rw [not_lt]; exact div_nonpos_of_nonpos_of_nonneg hk2q hsmpos.le
      rw [if_neg hnp]
      refine ⟨k2, ?_, by omega, ?_⟩
      · push Not at hlow
        rw [le_div_iff₀ hsmpos] at hlow
        have : ((-(tp (c.nsb - s)) : ℤ) : ℚ) ≤ ((k2 : ℤ) : ℚ) := by push_cast; linarith
        exact_mod_cast this
      · rw [hmi]; push_cast; field_simp; simp

theorem C01_relu_card (c : ReluCfg) (s : ℕ) (h : c.slopeLog = some s) (hs : (s : ℤ) ≤ c.nsb)
    (hn : 0 ≤ c.nsb) : c.hi - (- tp (c.nsb - s)) + 1 ≤ tp c.bits := by
  have hb : c.bits = c.nsb + 1 := by simp [ReluCfg.nsb, h]
  rw [hb, tp_succ hn]
  unfold ReluCfg.hi; rw [twoPow_eq_tp]
  have : tp (c.nsb - s) ≤ tp c.nsb := tp_mono (by omega)
  omega

/-- COUNTEREXAMPLE (known finding C01-relu-slope-below-lsb): a slope below `2^-(bits-1)` yields
    outputs that are not multiples of the step: `quantized_relu(2, 0, negative_slope=1/4)(−2)`
    is `−1/4` with step `1/2`. -/
theorem C01_relu_slope_below_lsb_counterexample :
    let c : ReluCfg := { bits := 2, integer := 0, slopeLog := some 2 }
    c.step = 1 / 2 ∧ qrelu .even c (-2) = -1 / 4 := by
  constructor <;> decide +kernel

/-- `quantized_relu.range()` (plain) lists exactly the reachable outputs -/
theorem C01_relu_range_exact (t : Tie) (c : ReluCfg) (hb : 0 ≤ c.bits) (l : List ℚ)
    (hr : qreluRange c = some l) (y : ℚ) : y ∈ l ↔ ∃ x, qrelu t c x = y := by
  unfold qreluRange at hr
  split at hr
  · cases hr
  · rename_i hsl
    have hnsb : c.nsb = c.bits := by simp [ReluCfg.nsb, hsl]
    have hstep : c.step = pow2 (c.integer - c.bits) := by unfold ReluCfg.step; rw [hnsb]
    have hhi : c.hi = tp c.bits - 1 := by unfold ReluCfg.hi; rw [hnsb, twoPow_eq_tp]
    simp only [Option.some.injEq] at hr
    subst hr
    simp only [List.mem_map, List.mem_range]
    constructor
    · rintro ⟨i, hi, rfl⟩
      have hi' : (i : ℤ) < tp c.bits := by
        have : (i : ℤ) < ((twoPow c.bits).toNat : ℤ) := by exact_mod_cast hi
        rwa [Int.toNat_of_nonneg (by rw [twoPow_eq_tp]; exact (tp_pos _).le), twoPow_eq_tp] at this
      refine ⟨((i : ℤ) : ℚ) * c.step, ?_⟩
      rw [qrelu_plain_eq_sq t c hsl, sq_code t c.step_pos (by omega) (by rw [hhi]; omega), hstep]
    · rintro ⟨x, rfl⟩
      obtain ⟨k, h1, h2, hk⟩ := C01_relu_plain_on_lattice t c hsl x
      refine ⟨k.toNat, ?_, ?_⟩
      · have : ((k.toNat : ℕ) : ℤ) < ((twoPow c.bits).toNat : ℤ) := by
          rw [Int.toNat_of_nonneg h1, Int.toNat_of_nonneg (by rw [twoPow_eq_tp]; exact (tp_pos _).le),
            twoPow_eq_tp]; omega
        exact_mod_cast this
      · rw [Int.toNat_of_nonneg h1, hk, hstep]

/-- `quantized_relu.min()/max()` enclose the plain outputs -/
theorem C01_relu_minmax (t : Tie) (c : ReluCfg) (h : c.slopeLog = none) (hb : 1 ≤ c.bits) (x : ℚ) :
    qreluMin c ≤ qrelu t c x ∧ qrelu t c x ≤ qreluMax c := by
  obtain ⟨k, h1, h2, hk⟩ := C01_relu_plain_on_lattice t c h x
  have hnsb : c.nsb = c.bits := by simp [ReluCfg.nsb, h]
  have hsp := c.step_pos
  have hk1 : (0 : ℚ) ≤ k := by exact_mod_cast h1
  have hk2 : (k : ℚ) ≤ (tp c.nsb : ℚ) - 1 := by
    have : k ≤ tp c.nsb - 1 := by simpa [ReluCfg.hi, twoPow_eq_tp] using h2
    exact_mod_cast this
  have hstep : (tp c.nsb : ℚ) * c.step = pow2 c.integer := by
    unfold ReluCfg.step; rw [tp_cast (by omega), ← pow2_add]; congr 1; ring
  rw [hk]
  constructor
  · simp only [qreluMin, h]; positivity
  · unfold qreluMax
    rw [if_pos (by omega)]
    have : (k : ℚ) * c.step ≤ pow2 c.integer := by rw [← hstep]; nlinarith
    split <;> linarith

/-! ## quantized_linear -/

theorem C01_linear_on_lattice (t : Tie) (c : LinCfg) (h : c.signFn = false) (x : ℚ) :
    ∃ k : ℤ, c.lo ≤ k ∧ k ≤ c.hi ∧ qlinear t c x = (k : ℚ) * c.qs := by
  rw [qlinear_eq_sq t c h]
  exact ⟨_, (rc_bounds t _ c.lo_le_hi).1, (rc_bounds t _ c.lo_le_hi).2, rfl⟩

/-- `min()` and `max()` are the end codes times the scale, hence enclose every output, for
    every constant positive scale -/
theorem C01_linear_minmax (t : Tie) (c : LinCfg) (h : c.signFn = false) (hq : 0 < c.qs) (x : ℚ) :
    qlinearMin c ≤ qlinear t c x ∧ qlinear t c x ≤ qlinearMax c := by
  obtain ⟨k, h1, h2, hk⟩ := C01_linear_on_lattice t c h x
  rw [hk]
  simp only [qlinearMin, qlinearMax, h, Bool.false_eq_true, if_false]
  have h1' : (c.lo : ℚ) ≤ k := by exact_mod_cast h1
  have h2' : (k : ℚ) ≤ c.hi := by exact_mod_cast h2
  constructor <;> nlinarith

/-- one-bit signed `quantized_linear` is a sign function: `±qs/2` -/
theorem C01_linear_sign (t : Tie) (c : LinCfg) (h : c.signFn = true) (x : ℚ) :
    qlinear t c x = c.qs / 2 ∨ qlinear t c x = - (c.qs / 2) := by
  unfold qlinear
  simp only [h, if_true]
  set s := x / c.qs
  have key : ∀ v : ℚ, -1 / 2 ≤ v → v ≤ 1 / 2 →
      roundTie t (v - 1 / 2) = 0 ∨ roundTie t (v - 1 / 2) = -1 := by
    intro v h1 h2
    have a := roundTie_mono t (show ((-1 : ℤ) : ℚ) ≤ v - 1 / 2 by push_cast; linarith)
    have b := roundTie_mono t (show v - 1 / 2 ≤ ((0 : ℤ) : ℚ) by push_cast; linarith)
    rw [roundTie_int] at a b
    omega
  have : roundTie t ((if s < -1 / 2 then -1 / 2 else if 1 / 2 < s then 1 / 2 else s) - 1 / 2) = 0 ∨
      roundTie t ((if s < -1 / 2 then -1 / 2 else if 1 / 2 < s then 1 / 2 else s) - 1 / 2) = -1 := by
    apply key <;> split <;> (try split) <;> linarith
  rcases this with e | e <;> rw [e]
  · left; push_cast; ring
  · right; push_cast; ring

theorem C01_linear_card (c : LinCfg) (h : 0 ≤ c.ub) : c.hi - c.lo + 1 ≤ tp c.bits := by
  unfold LinCfg.hi LinCfg.lo
  rw [twoPow_eq_tp]
  have hub : c.ub = c.bits - (if c.keepNeg then 1 else 0) := rfl
  cases hk : c.keepNeg <;> simp only [hk, if_true, if_false, Bool.false_eq_true] at hub ⊢
  · rw [hub]; simp
  · have : tp c.bits = 2 * tp c.ub := by
      have e : c.bits = c.ub + 1 := by omega
      rw [e, tp_succ h]
    rw [this]; split <;> omega

/-! ## quantized_tanh / quantized_sigmoid — for EVERY surrogate value `p` -/

theorem C01_tanh_on_lattice (t : Tie) (bits : ℤ) (sym : Bool) (p : ℚ) :
    ∃ k : ℤ, - tp (bits - 1) + (if sym then 1 else 0) ≤ k ∧ k ≤ tp (bits - 1) - 1 ∧
      qtanhP t bits sym p = (k : ℚ) / (tp (bits - 1) : ℚ) := by
  have hle : - tp (bits - 1) + (if sym then 1 else 0) ≤ tp (bits - 1) - 1 := by
    have := tp_pos (bits - 1); split <;> omega
  exact ⟨_, (rc_bounds t _ hle).1, (rc_bounds t _ hle).2, rfl⟩

theorem C01_sigmoid_on_lattice (t : Tie) (bits : ℤ) (sym : Bool) (p : ℚ) (hb : sym = true → 1 ≤ bits) :
    ∃ k : ℤ, (if sym then 1 else 0) ≤ k ∧ k ≤ tp bits - 1 ∧
      qsigmoidP t bits sym p = (k : ℚ) / (tp bits : ℚ) := by
  have hle : (if sym then (1 : ℤ) else 0) ≤ tp bits - 1 := by
    cases sym
    · have := tp_pos bits; simp; omega
    · have h1 := hb rfl
      have := tp_mono h1; rw [tp_one] at this; simp; omega
  exact ⟨_, (rc_bounds t _ hle).1, (rc_bounds t _ hle).2, rfl⟩

/-- the tanh / sigmoid quantizers' `min()` and `max()` (`±(1 − 2^-(bits-1))`, `[sym·2^-bits,
    1 − 2^-bits]`) enclose every output, for every surrogate value -/
theorem C01_tanh_minmax (t : Tie) (bits : ℤ) (sym : Bool) (p : ℚ) :
    (-1 + (if sym then 1 else 0) / (tp (bits - 1) : ℚ)) ≤ qtanhP t bits sym p ∧
    qtanhP t bits sym p ≤ 1 - 1 / (tp (bits - 1) : ℚ) := by
  obtain ⟨k, h1, h2, hk⟩ := C01_tanh_on_lattice t bits sym p
  rw [hk]
  have hm : (0 : ℚ) < (tp (bits - 1) : ℚ) := by exact_mod_cast tp_pos _
  have h1' : (-(tp (bits - 1) : ℚ) + (if sym then 1 else 0)) ≤ (k : ℚ) := by
    have : ((- tp (bits - 1) + (if sym then 1 else 0) : ℤ) : ℚ) ≤ (k : ℚ) := by exact_mod_cast h1
    push_cast at this; split at this <;> simp_all
  have h2' : (k : ℚ) ≤ (tp (bits - 1) : ℚ) - 1 := by exact_mod_cast h2
  constructor
  · rw [le_div_iff₀ hm]
    have : (-1 + (if sym then 1 else 0) / (tp (bits - 1) : ℚ)) * (tp (bits - 1) : ℚ)
        = -(tp (bits - 1) : ℚ) + (if sym then 1 else 0) := by field_simp
    rw [this]; exact h1'
  · rw [div_le_iff₀ hm]
    have : (1 - 1 / (tp (bits - 1) : ℚ)) * (tp (bits - 1) : ℚ) = (tp (bits - 1) : ℚ) - 1 := by
      field_simp
    rw [this]; exact h2'

/-! ## non-vacuity -/

example : (0 : ℤ) < ({ bits := 8, integer := 0, symmetric := false, keepNeg := true,
                        alpha := none } : BitsCfg).ub := by decide
example : qbitsRange { bits := 3, integer := 0, symmetric := false, keepNeg := true, alpha := none }
    = some [0, 1/4, 1/2, 3/4, -1, -3/4, -1/2, -1/4] := by decide +kernel
example : qrelu .even { bits := 4, integer := 1, slopeLog := some 2 } (-3) = -1/2 := by decide +kernel

end QKV.Props.C01
