/-
  C01 — fixed-point quantizers emit only representable codes of the declared format.

  Property (verbatim): For every fixed-point quantizer configuration (total bits, integer bits,
  signedness, symmetry; the plain, ReLU, leaky-ReLU, tanh and sigmoid variants, with no scale or
  a constant scale) and every finite input of magnitude below 2^24 quantization steps, each
  output element is an integer multiple of the format's step 2^(integer bits - fraction bits)
  and lies between the smallest and the largest code of that format, so at most 2^bits distinct
  values can ever appear. The quantizer's own min() and max() enclose every output and range()
  enumerates exactly the reachable set.

  Model: QKV.Model.FixedQ (exact rationals; every tie rule `t`).  All statements are for ALL bit
  widths, integer-bit settings and rational inputs.  Only property theorems here.
-/
import QKV.Lemmas.FixedQ
import QKV.Lemmas.FixedQObj
import QKV.Model.QTypes
namespace QKV.Props.C01
open QKV

/-! ## quantized_bits -/

/-- every output is `alpha · k · step` with `k` a code of the format -/
theorem C01_bits_on_lattice (t : Tie) (c : BitsCfg) (h : 0 < c.ub) (x : ℚ) :
    ∃ k : ℤ, c.lo ≤ k ∧ k ≤ c.hi ∧ qbits t c x = c.gain * (k : ℚ) * c.step := by
  rw [qbits_eq_sq t c h]; exact sq_lattice t c.step c.gain x c.lo_le_hi

/-- the code interval has at most `2^bits` elements -/
theorem C01_bits_card (c : BitsCfg) (h : 0 < c.ub) : c.hi - c.lo + 1 ≤ tp c.bits := by
  unfold BitsCfg.hi BitsCfg.lo
  rw [twoPow_eq_tp]
  have hub : c.ub = c.bits - (if c.keepNeg then 1 else 0) := rfl
  cases hk : c.keepNeg <;> simp only [hk, if_true, if_false, Bool.false_eq_true] at hub ⊢
  · rw [hub]; simp
  · have : tp c.bits = 2 * tp c.ub := by
      have e : c.bits = c.ub + 1 := by omega
      rw [e, tp_succ (by omega)]
    rw [this]; split <;> omega

/-- for a non-symmetric format the codes are exactly qtools' two's-complement range, and the
    step is qtools' lsb: the unscaled output is a value of type (bits, integer, keep_negative) -/
theorem C01_bits_valFixed (t : Tie) (c : BitsCfg) (h : 0 < c.ub) (hs : c.symmetric = false)
    (ha : c.alpha = none) (x : ℚ) : ValFixed c.bits c.integer c.keepNeg (qbits t c x) := by
  obtain ⟨k, h1, h2, hk⟩ := C01_bits_on_lattice t c h x
  refine ⟨k, ?_, ?_, ?_⟩
  · unfold BitsCfg.lo at h1
    have hub : c.ub = c.bits - (if c.keepNeg then 1 else 0) := rfl
    rw [twoPow_eq_tp] at h1
    cases hk' : c.keepNeg <;> simp only [hk', hs, if_true, if_false, Bool.false_eq_true] at h1 hub ⊢
    · rw [fixedLo_unsigned]; exact h1
    · rw [fixedLo_signed, ← hub]; omega
  · unfold BitsCfg.hi at h2
    have hub : c.ub = c.bits - (if c.keepNeg then 1 else 0) := rfl
    rw [twoPow_eq_tp] at h2
    cases hk' : c.keepNeg <;> simp only [hk', if_true, if_false, Bool.false_eq_true] at hub ⊢
    · rw [fixedHi_unsigned]; rw [hub] at h2; simpa using h2
    · rw [fixedHi_signed, ← hub]; exact h2
  · rw [hk]
    have : c.gain = 1 := by simp [BitsCfg.gain, ha]
    rw [this, one_mul]
    congr 1
    unfold BitsCfg.step fixedLsb
    have hub : c.ub = c.bits - (if c.keepNeg then 1 else 0) := rfl
    cases hk' : c.keepNeg <;> simp only [hk', b2i, if_true, if_false, Bool.false_eq_true] at hub ⊢ <;>
      (congr 1; omega)

/-- one-bit signed `quantized_bits` is the binary quantizer: outputs `±alpha` -/
theorem C01_bits_one_bit (t : Tie) (c : BitsCfg) (h : ¬ 0 < c.ub) (hk : c.keepNeg = true) (x : ℚ) :
    qbits t c x = c.gain ∨ qbits t c x = - c.gain := by
  unfold qbits signPM
  rw [if_neg h]
  simp only [hk, if_true]
  split
  · right; ring
  · left; ring

/-- `min()` and `max()` enclose every output when there is no scale (or the scale is 1) -/
theorem C01_bits_minmax (t : Tie) (c : BitsCfg) (hg : c.gain = 1) (hb : 1 ≤ c.bits) (x : ℚ) :
    qbitsMin c ≤ qbits t c x ∧ qbits t c x ≤ qbitsMax c := by
  by_cases h : 0 < c.ub
  · obtain ⟨k, h1, h2, hk⟩ := C01_bits_on_lattice t c h x
    rw [hk, hg, one_mul]
    have hstep : (tp c.ub : ℚ) * c.step = pow2 c.integer := by
      unfold BitsCfg.step
      rw [tp_cast (by omega), ← pow2_add]; congr 1; ring
    have hsp := c.step_pos
    have hk2 : (k : ℚ) ≤ (tp c.ub : ℚ) - 1 := by
      have : k ≤ tp c.ub - 1 := by simpa [BitsCfg.hi, twoPow_eq_tp] using h2
      exact_mod_cast this
    have hpi := pow2_pos c.integer
    constructor
    · unfold qbitsMin
      cases hkn : c.keepNeg
      · simp only [Bool.not_false, if_true]
        have : 0 ≤ k := by simpa [BitsCfg.lo, hkn] using h1
        have : (0 : ℚ) ≤ k := by exact_mod_cast this
        positivity
      · simp only [Bool.not_true, Bool.false_eq_true, if_false, if_pos h]
        have hk1 : (-(tp c.ub : ℚ)) ≤ k := by
          have : -tp c.ub ≤ k := by
            have := h1; simp only [BitsCfg.lo, hkn, if_true, twoPow_eq_tp] at this
            split at this <;> omega
          exact_mod_cast this
        have : -pow2 c.integer ≤ (k : ℚ) * c.step := by rw [← hstep]; nlinarith
        split <;> linarith
    · unfold qbitsMax
      rw [if_pos h]
      have : (k : ℚ) * c.step ≤ pow2 c.integer := by rw [← hstep]; nlinarith
      split <;> linarith
  · unfold qbitsMin qbitsMax qbits signPM
    simp only [if_neg h, hg, one_mul]
    cases hkn : c.keepNeg
    · -- unsigned with zero magnitude bits cannot have bits ≥ 1
      exfalso
      have : c.ub = c.bits := by simp [BitsCfg.ub, BitsCfg.ub.b2i', hkn]
      omega
    · simp only [Bool.not_true, Bool.false_eq_true, if_false, if_true]
      split <;> constructor <;> norm_num

/-- COUNTEREXAMPLE (known finding C01-bits-alpha-minmax): `max()` ignores a constant `alpha`:
    `quantized_bits(4, 0, alpha=2).max() = 1` but `q(5) = 2·(7/8) = 7/4`. -/
theorem C01_bits_minmax_counterexample :
    let c : BitsCfg := { bits := 4, integer := 0, symmetric := false, keepNeg := true, alpha := some 2 }
    qbits .even c 5 = 7 / 4 ∧ qbitsMax c = 1 := by
  constructor
  · decide +kernel
  · decide +kernel

/-- `range()` lists exactly the reachable outputs (signed, non-symmetric, no scale, ≥ 2 bits) -/
theorem C01_bits_range_exact (t : Tie) (c : BitsCfg) (hb : 2 ≤ c.bits) (l : List ℚ)
    (hr : qbitsRange c = some l) (y : ℚ) : y ∈ l ↔ ∃ x, qbits t c x = y := by
  unfold qbitsRange at hr
  split at hr
  · cases hr
  · rename_i hcond
    simp only [Bool.or_eq_true, Bool.not_eq_true', decide_eq_true_eq, not_or, Bool.not_eq_true,
      Bool.not_eq_false'] at hcond
    obtain ⟨⟨hsym, hkn⟩, halpha⟩ := hcond
    have hkn : c.keepNeg = true := by simpa using hkn
    have hsym : c.symmetric = false := by simpa using hsym
    have hgain : c.gain = 1 := by
      by_cases h : c.alpha = none
      · simp [BitsCfg.gain, h]
      · have : c.alpha = some 1 := by
          by_contra h2; exact halpha (by simp [h, h2])
        simp [BitsCfg.gain, this]
    have hub : c.ub = c.bits - 1 := by simp [BitsCfg.ub, BitsCfg.ub.b2i', hkn]
    have hub0 : 0 < c.ub := by omega
    have hstep : c.step = pow2 (c.integer - c.bits + 1) := by
      unfold BitsCfg.step; rw [hub]; congr 1; ring
    have hlo : c.lo = - tp (c.bits - 1) := by simp [BitsCfg.lo, hkn, hsym, hub, twoPow_eq_tp]
    have hhi : c.hi = tp (c.bits - 1) - 1 := by simp [BitsCfg.hi, hub, twoPow_eq_tp]
    have hn : twoPow c.bits = 2 * tp (c.bits - 1) := by
      rw [twoPow_eq_tp]
      have e : c.bits = (c.bits - 1) + 1 := by ring
      conv_lhs => rw [e]
      rw [tp_succ (by omega)]
    have hh := tp_pos (c.bits - 1)
    simp only [Option.some.injEq] at hr
    subst hr
    simp only [List.mem_map, List.mem_range]
    constructor
    · rintro ⟨i, hi, rfl⟩
      set k : ℤ := if twoPow (c.bits - 1) ≤ (i : ℤ) then (i : ℤ) - 2 * twoPow (c.bits - 1) else (i : ℤ)
        with hkdef
      have hi' : (i : ℤ) < 2 * tp (c.bits - 1) := by
        have : (i : ℤ) < ((twoPow c.bits).toNat : ℤ) := by exact_mod_cast hi
        rw [Int.toNat_of_nonneg (by rw [hn]; omega), hn] at this; exact this
      have hk1 : c.lo ≤ k := by
        rw [hlo, hkdef, twoPow_eq_tp]; split <;> omega
      have hk2 : k ≤ c.hi := by
        rw [hhi, hkdef, twoPow_eq_tp]; split <;> omega
      refine ⟨(k : ℚ) * c.step, ?_⟩
      rw [qbits_eq_sq t c hub0, hgain, sq_code t c.step_pos hk1 hk2, hstep]
    · rintro ⟨x, rfl⟩
      obtain ⟨k, h1, h2, hk⟩ := C01_bits_on_lattice t c hub0 x
      rw [hlo] at h1; rw [hhi] at h2
      by_cases hk0 : 0 ≤ k
      · refine ⟨k.toNat, ?_, ?_⟩
        · have : ((k.toNat : ℕ) : ℤ) < ((twoPow c.bits).toNat : ℤ) := by
            rw [Int.toNat_of_nonneg hk0, Int.toNat_of_nonneg (by rw [hn]; omega), hn]; omega
          exact_mod_cast this
        · simp only [Int.toNat_of_nonneg hk0, twoPow_eq_tp]
          rw [if_neg (by omega), hk, hgain, hstep]; ring
      · refine ⟨(k + 2 * tp (c.bits - 1)).toNat, ?_, ?_⟩
        · have h0 : 0 ≤ k + 2 * tp (c.bits - 1) := by omega
          have : (((k + 2 * tp (c.bits - 1)).toNat : ℕ) : ℤ) < ((twoPow c.bits).toNat : ℤ) := by
            rw [Int.toNat_of_nonneg h0, Int.toNat_of_nonneg (by rw [hn]; omega), hn]; omega
          exact_mod_cast this
        · have h0 : 0 ≤ k + 2 * tp (c.bits - 1) := by omega
          simp only [Int.toNat_of_nonneg h0, twoPow_eq_tp]
          rw [if_pos (by omega), hk, hgain, hstep]
          push_cast; ring

/-- COUNTEREXAMPLE (known finding C01-bits-1bit-range): for one bit `range()` lists
    `{0, −2^integer}` while the quantizer emits `±1`. -/
theorem C01_bits_range_one_bit_counterexample :
    let c : BitsCfg := { bits := 1, integer := 0, symmetric := false, keepNeg := true, alpha := none }
    qbitsRange c = some [0, -1] ∧ qbits .even c 3 = 1 := by
  constructor <;> decide +kernel

/-! ## quantized_relu -/

theorem C01_relu_plain_on_lattice (t : Tie) (c : ReluCfg) (h : c.slopeLog = none) (x : ℚ) :
    ∃ k : ℤ, 0 ≤ k ∧ k ≤ c.hi ∧ qrelu t c x = (k : ℚ) * c.step := by
  rw [qrelu_plain_eq_sq t c h]
  obtain ⟨k, h1, h2, hk⟩ := sq_lattice t c.step 1 x c.zero_le_hi
  exact ⟨k, h1, h2, by rw [hk]; ring⟩

/-- leaky ReLU with `negative_slope = 2^-s`, `s ≤` magnitude bits: outputs are integer multiples
    of the step with codes in `[−2^(nsb − s), 2^nsb − 1]` (at most `2^bits` of them) -/
theorem C01_relu_leaky_on_lattice (t : Tie) (c : ReluCfg) (s : ℕ) (h : c.slopeLog = some s)
    (hs : (s : ℤ) ≤ c.nsb) (x : ℚ) :
    ∃ k : ℤ, - tp (c.nsb - s) ≤ k ∧ k ≤ c.hi ∧ qrelu t c x = (k : ℚ) * c.step := by
  have hsp := c.step_pos
  have hslope : c.slope = pow2 (-(s : ℤ)) := by simp [ReluCfg.slope, h]
  have hslp := pow2_pos (-(s : ℤ))
  have hsm : c.slope * (twoPow c.nsb : ℚ) = (tp (c.nsb - s) : ℚ) := by
    rw [hslope, twoPow_eq_tp, tp_cast (by omega), tp_cast (by omega), ← pow2_add]; congr 1; ring
  have hsmpos : (0 : ℚ) < (tp (c.nsb - s) : ℚ) := by exact_mod_cast tp_pos _
  have hmi : pow2 c.integer * c.slope = (tp (c.nsb - s) : ℚ) * c.step := by
    unfold ReluCfg.step
    rw [hslope, tp_cast (by omega), ← pow2_add, ← pow2_add]; congr 1; ring
  unfold qrelu
  simp only [h]
  rw [hsm]
  rcases le_or_gt 0 x with hx | hx
  · -- non-negative input: the leaky term vanishes
    have hp : 0 ≤ x / c.step * c.slope := by rw [hslope]; positivity
    have hr : 0 ≤ roundTie t (x / c.step * c.slope) := by
      have := roundTie_mono t hp
      have e : roundTie t (0 : ℚ) = 0 := by simpa using roundTie_int t 0
      omega
    have hrq : (0 : ℚ) ≤ ((roundTie t (x / c.step * c.slope) : ℤ) : ℚ) / (tp (c.nsb - s) : ℚ) := by
      have : (0 : ℚ) ≤ ((roundTie t (x / c.step * c.slope) : ℤ) : ℚ) := by exact_mod_cast hr
      positivity
    obtain ⟨k, h1, h2, hk⟩ := sq_lattice t c.step 1 x c.zero_le_hi
    refine ⟨k, by have := tp_pos (c.nsb - s); omega, h2, ?_⟩
    unfold sq at hk
    rw [if_neg (by linarith)]
    rcases lt_or_eq_of_le hrq with hlt | heq
    · rw [if_pos hlt]; linarith
    · rw [if_neg (by rw [← heq]; exact lt_irrefl 0), ← heq]; linarith
  · -- negative input: the positive part saturates at 0
    have hpneg : x / c.step ≤ ((0 : ℤ) : ℚ) := by
      have : x / c.step < 0 := div_neg_of_neg_of_pos hx hsp
      push_cast; exact this.le
    rw [rc_sat_lo t c.zero_le_hi hpneg]
    have hp : x / c.step * c.slope ≤ ((0 : ℤ) : ℚ) := by
      have : x / c.step < 0 := div_neg_of_neg_of_pos hx hsp
      push_cast; rw [hslope]; nlinarith
    have hr : roundTie t (x / c.step * c.slope) ≤ 0 := by
      have := roundTie_mono t hp; rwa [roundTie_int] at this
    set k2 := roundTie t (x / c.step * c.slope) with hk2
    have hz := c.zero_le_hi
    by_cases hlow : ((k2 : ℤ) : ℚ) / (tp (c.nsb - s) : ℚ) < -1
    · refine ⟨- tp (c.nsb - s), le_rfl, by have := tp_pos (c.nsb - s); omega, ?_⟩
      rw [if_pos hlow, hmi]; push_cast; ring
    · rw [if_neg hlow]
      have hk2q : ((k2 : ℤ) : ℚ) ≤ 0 := by exact_mod_cast hr
      have hnp : ¬ (0 : ℚ) < ((k2 : ℤ) : ℚ) / (tp (c.nsb - s) : ℚ) := by
        rw [not_lt]; exact div_nonpos_of_nonpos_of_nonneg hk2q hsmpos.le
      rw [if_neg hnp]
      refine ⟨k2, ?_, by omega, ?_⟩
      · push Not at hlow
        rw [le_div_iff₀ hsmpos] at hlow
        have : ((-(tp (c.nsb - s)) : ℤ) : ℚ) ≤ ((k2 : ℤ) : ℚ) := by push_cast; linarith
        exact_mod_cast this
      · rw [hmi]; push_cast; field_simp; simp

theorem C01_relu_card (c : ReluCfg) (s : ℕ) (h : c.slopeLog = some s) (hs : (s : ℤ) ≤ c.nsb)
    (hn : 0 ≤ c.nsb) : c.hi - (- tp (c.nsb - s)) + 1 ≤ tp c.bits := by
  have hb : c.bits = c.nsb + 1 := by simp [ReluCfg.nsb, h]
  rw [hb, tp_succ hn]
  unfold ReluCfg.hi; rw [twoPow_eq_tp]
  have : tp (c.nsb - s) ≤ tp c.nsb := tp_mono (by omega)
  omega

/-- COUNTEREXAMPLE (known finding C01-relu-slope-below-lsb): a slope below `2^-(bits-1)` yields
    outputs that are not multiples of the step: `quantized_relu(2, 0, negative_slope=1/4)(−2)`
    is `−1/4` with step `1/2`. -/
theorem C01_relu_slope_below_lsb_counterexample :
    let c : ReluCfg := { bits := 2, integer := 0, slopeLog := some 2 }
    c.step = 1 / 2 ∧ qrelu .even c (-2) = -1 / 4 := by
  constructor <;> decide +kernel

/-- `quantized_relu.range()` (plain) lists exactly the reachable outputs -/
theorem C01_relu_range_exact (t : Tie) (c : ReluCfg) (hb : 0 ≤ c.bits) (l : List ℚ)
    (hr : qreluRange c = some l) (y : ℚ) : y ∈ l ↔ ∃ x, qrelu t c x = y := by
  unfold qreluRange at hr
  split at hr
  · cases hr
  · rename_i hsl
    have hnsb : c.nsb = c.bits := by simp [ReluCfg.nsb, hsl]
    have hstep : c.step = pow2 (c.integer - c.bits) := by unfold ReluCfg.step; rw [hnsb]
    have hhi : c.hi = tp c.bits - 1 := by unfold ReluCfg.hi; rw [hnsb, twoPow_eq_tp]
    simp only [Option.some.injEq] at hr
    subst hr
    simp only [List.mem_map, List.mem_range]
    constructor
    · rintro ⟨i, hi, rfl⟩
      have hi' : (i : ℤ) < tp c.bits := by
        have : (i : ℤ) < ((twoPow c.bits).toNat : ℤ) := by exact_mod_cast hi
        rwa [Int.toNat_of_nonneg (by rw [twoPow_eq_tp]; exact (tp_pos _).le), twoPow_eq_tp] at this
      refine ⟨((i : ℤ) : ℚ) * c.step, ?_⟩
      rw [qrelu_plain_eq_sq t c hsl, sq_code t c.step_pos (by omega) (by rw [hhi]; omega), hstep]
    · rintro ⟨x, rfl⟩
      obtain ⟨k, h1, h2, hk⟩ := C01_relu_plain_on_lattice t c hsl x
      refine ⟨k.toNat, ?_, ?_⟩
      · have : ((k.toNat : ℕ) : ℤ) < ((twoPow c.bits).toNat : ℤ) := by
          rw [Int.toNat_of_nonneg h1, Int.toNat_of_nonneg (by rw [twoPow_eq_tp]; exact (tp_pos _).le),
            twoPow_eq_tp]; omega
        exact_mod_cast this
      · rw [Int.toNat_of_nonneg h1, hk, hstep]

/-- `quantized_relu.min()/max()` enclose the plain outputs -/
theorem C01_relu_minmax (t : Tie) (c : ReluCfg) (h : c.slopeLog = none) (hb : 1 ≤ c.bits) (x : ℚ) :
    qreluMin c ≤ qrelu t c x ∧ qrelu t c x ≤ qreluMax c := by
  obtain ⟨k, h1, h2, hk⟩ := C01_relu_plain_on_lattice t c h x
  have hnsb : c.nsb = c.bits := by simp [ReluCfg.nsb, h]
  have hsp := c.step_pos
  have hk1 : (0 : ℚ) ≤ k := by exact_mod_cast h1
  have hk2 : (k : ℚ) ≤ (tp c.nsb : ℚ) - 1 := by
    have : k ≤ tp c.nsb - 1 := by simpa [ReluCfg.hi, twoPow_eq_tp] using h2
    exact_mod_cast this
  have hstep : (tp c.nsb : ℚ) * c.step = pow2 c.integer := by
    unfold ReluCfg.step; rw [tp_cast (by omega), ← pow2_add]; congr 1; ring
  rw [hk]
  constructor
  · simp only [qreluMin, h]; positivity
  · unfold qreluMax
    rw [if_pos (by omega)]
    have : (k : ℚ) * c.step ≤ pow2 c.integer := by rw [← hstep]; nlinarith
    split <;> linarith

/-! ## quantized_linear -/

theorem C01_linear_on_lattice (t : Tie) (c : LinCfg) (h : c.signFn = false) (x : ℚ) :
    ∃ k : ℤ, c.lo ≤ k ∧ k ≤ c.hi ∧ qlinear t c x = (k : ℚ) * c.qs := by
  rw [qlinear_eq_sq t c h]
  exact ⟨_, (rc_bounds t _ c.lo_le_hi).1, (rc_bounds t _ c.lo_le_hi).2, rfl⟩

/-- `min()` and `max()` are the end codes times the scale, hence enclose every output, for
    every constant positive scale -/
theorem C01_linear_minmax (t : Tie) (c : LinCfg) (h : c.signFn = false) (hq : 0 < c.qs) (x : ℚ) :
    qlinearMin c ≤ qlinear t c x ∧ qlinear t c x ≤ qlinearMax c := by
  obtain ⟨k, h1, h2, hk⟩ := C01_linear_on_lattice t c h x
  rw [hk]
  simp only [qlinearMin, qlinearMax, h, Bool.false_eq_true, if_false]
  have h1' : (c.lo : ℚ) ≤ k := by exact_mod_cast h1
  have h2' : (k : ℚ) ≤ c.hi := by exact_mod_cast h2
  constructor <;> nlinarith

/-- one-bit signed `quantized_linear` is a sign function: `±qs/2` -/
theorem C01_linear_sign (t : Tie) (c : LinCfg) (h : c.signFn = true) (x : ℚ) :
    qlinear t c x = c.qs / 2 ∨ qlinear t c x = - (c.qs / 2) := by
  unfold qlinear
  simp only [h, if_true]
  set s := x / c.qs
  have key : ∀ v : ℚ, -1 / 2 ≤ v → v ≤ 1 / 2 →
      roundTie t (v - 1 / 2) = 0 ∨ roundTie t (v - 1 / 2) = -1 := by
    intro v h1 h2
    have a := roundTie_mono t (show ((-1 : ℤ) : ℚ) ≤ v - 1 / 2 by push_cast; linarith)
    have b := roundTie_mono t (show v - 1 / 2 ≤ ((0 : ℤ) : ℚ) by push_cast; linarith)
    rw [roundTie_int] at a b
    omega
  have : roundTie t ((if s < -1 / 2 then -1 / 2 else if 1 / 2 < s then 1 / 2 else s) - 1 / 2) = 0 ∨
      roundTie t ((if s < -1 / 2 then -1 / 2 else if 1 / 2 < s then 1 / 2 else s) - 1 / 2) = -1 := by
    apply key <;> split <;> (try split) <;> linarith
  rcases this with e | e <;> rw [e]
  · left; push_cast; ring
  · right; push_cast; ring

theorem C01_linear_card (c : LinCfg) (h : 0 ≤ c.ub) : c.hi - c.lo + 1 ≤ tp c.bits := by
  unfold LinCfg.hi LinCfg.lo
  rw [twoPow_eq_tp]
  have hub : c.ub = c.bits - (if c.keepNeg then 1 else 0) := rfl
  cases hk : c.keepNeg <;> simp only [hk, if_true, if_false, Bool.false_eq_true] at hub ⊢
  · rw [hub]; simp
  · have : tp c.bits = 2 * tp c.ub := by
      have e : c.bits = c.ub + 1 := by omega
      rw [e, tp_succ h]
    rw [this]; split <;> omega

/-! ## quantized_tanh / quantized_sigmoid — for EVERY surrogate value `p` -/

theorem C01_tanh_on_lattice (t : Tie) (bits : ℤ) (sym : Bool) (p : ℚ) :
    ∃ k : ℤ, - tp (bits - 1) + (if sym then 1 else 0) ≤ k ∧ k ≤ tp (bits - 1) - 1 ∧
      qtanhP t bits sym p = (k : ℚ) / (tp (bits - 1) : ℚ) := by
  have hle : - tp (bits - 1) + (if sym then 1 else 0) ≤ tp (bits - 1) - 1 := by
    have := tp_pos (bits - 1); split <;> omega
  exact ⟨_, (rc_bounds t _ hle).1, (rc_bounds t _ hle).2, rfl⟩

theorem C01_sigmoid_on_lattice (t : Tie) (bits : ℤ) (sym : Bool) (p : ℚ) (hb : sym = true → 1 ≤ bits) :
    ∃ k : ℤ, (if sym then 1 else 0) ≤ k ∧ k ≤ tp bits - 1 ∧
      qsigmoidP t bits sym p = (k : ℚ) / (tp bits : ℚ) := by
  have hle : (if sym then (1 : ℤ) else 0) ≤ tp bits - 1 := by
    cases sym
    · have := tp_pos bits; simp; omega
    · have h1 := hb rfl
      have := tp_mono h1; rw [tp_one] at this; simp; omega
  exact ⟨_, (rc_bounds t _ hle).1, (rc_bounds t _ hle).2, rfl⟩

/-- the tanh / sigmoid quantizers' `min()` and `max()` (`±(1 − 2^-(bits-1))`, `[sym·2^-bits,
    1 − 2^-bits]`) enclose every output, for every surrogate value -/
theorem C01_tanh_minmax (t : Tie) (bits : ℤ) (sym : Bool) (p : ℚ) :
    (-1 + (if sym then 1 else 0) / (tp (bits - 1) : ℚ)) ≤ qtanhP t bits sym p ∧
    qtanhP t bits sym p ≤ 1 - 1 / (tp (bits - 1) : ℚ) := by
  obtain ⟨k, h1, h2, hk⟩ := C01_tanh_on_lattice t bits sym p
  rw [hk]
  have hm : (0 : ℚ) < (tp (bits - 1) : ℚ) := by exact_mod_cast tp_pos _
  have h1' : (-(tp (bits - 1) : ℚ) + (if sym then 1 else 0)) ≤ (k : ℚ) := by
    have : ((- tp (bits - 1) + (if sym then 1 else 0) : ℤ) : ℚ) ≤ (k : ℚ) := by exact_mod_cast h1
    push_cast at this; split at this <;> simp_all
  have h2' : (k : ℚ) ≤ (tp (bits - 1) : ℚ) - 1 := by exact_mod_cast h2
  constructor
  · rw [le_div_iff₀ hm]
    have : (-1 + (if sym then 1 else 0) / (tp (bits - 1) : ℚ)) * (tp (bits - 1) : ℚ)
        = -(tp (bits - 1) : ℚ) + (if sym then 1 else 0) := by field_simp
    rw [this]; exact h1'
  · rw [div_le_iff₀ hm]
    have : (1 - 1 / (tp (bits - 1) : ℚ)) * (tp (bits - 1) : ℚ) = (tp (bits - 1) : ℚ) - 1 := by
      field_simp
    rw [this]; exact h2'

/-! ## Strengthening round: per-channel constant scales, `relu_upper_bound` / `is_quantized_clip`,
       `use_sigmoid` -/

/-! ### quantized_linear with a per-channel scale tensor -/

/-- `range()` (scalar scale) lists exactly the reachable outputs, for every positive scale -/
theorem C01_linear_range_exact (t : Tie) (c : LinCfg) (h : c.signFn = false) (hq : 0 < c.qs) (y : ℚ) :
    y ∈ qlinearRange c ↔ ∃ x, qlinear t c x = y := by
  rw [qlinearRange_eq_codes c h]
  simp only [List.mem_map, LinCfg.mem_codes]
  constructor
  · rintro ⟨k, ⟨h1, h2⟩, rfl⟩
    refine ⟨(k : ℚ) * c.qs, ?_⟩
    rw [qlinear_eq_sq t c h]
    have : (k : ℚ) * c.qs / c.qs = (k : ℚ) := by field_simp
    rw [this, rc_int t h1 h2]
  · rintro ⟨x, rfl⟩
    obtain ⟨k, h1, h2, hk⟩ := C01_linear_on_lattice t c h x
    exact ⟨k, ⟨h1, h2⟩, hk.symm⟩

/-- every element is a code of ITS channel's format: `k · alpha_j · 2^(integer − ub)` -/
theorem C01_linear_pc_on_lattice (t : Tie) (c : LinCfg) (h : c.signFn = false) (as row : List ℚ) (j : ℕ)
    (hj : j < as.length) (hr : j < row.length) :
    ∃ k : ℤ, c.lo ≤ k ∧ k ≤ c.hi ∧
      (qlinearPC t c as row)[j]'(by simp [qlinearPC]; omega) = (k : ℚ) * (c.chan as[j]).qs := by
  rw [qlinearPC_getElem t c as row j hj hr]
  exact C01_linear_on_lattice t (c.chan as[j]) h row[j]

/-- per-channel `min()` / `max()` (tensors `clip_min · qs`, `clip_max · qs`) enclose every output
    ELEMENT-WISE: entry `j` of the reporters bounds column `j` -/
theorem C01_linear_pc_minmax (t : Tie) (c : LinCfg) (h : c.signFn = false) (as row : List ℚ) (j : ℕ)
    (hj : j < as.length) (hr : j < row.length) (ha : 0 < as[j]) :
    (qlinearMinPC c as)[j]'(by simp [qlinearMinPC]; omega) ≤
        (qlinearPC t c as row)[j]'(by simp [qlinearPC]; omega) ∧
    (qlinearPC t c as row)[j]'(by simp [qlinearPC]; omega) ≤
        (qlinearMaxPC c as)[j]'(by simp [qlinearMaxPC]; omega) := by
  rw [qlinearPC_getElem t c as row j hj hr]
  simp only [qlinearMinPC, qlinearMaxPC, List.getElem_map]
  exact C01_linear_minmax t (c.chan as[j]) h (c.chan_qs_pos ha) row[j]

/-- a SCALAR bound for all channels must use a scale `M` that dominates every channel's scale —
    for the lower bound as well, because `clip_min ≤ 0`: `clip_min · M ≤ out ≤ clip_max · M` -/
theorem C01_linear_pc_scalar_bound (t : Tie) (c : LinCfg) (h : c.signFn = false) (a x M : ℚ)
    (ha : 0 < a) (hM : (c.chan a).qs ≤ M) :
    (c.lo : ℚ) * M ≤ qlinear t (c.chan a) x ∧ qlinear t (c.chan a) x ≤ (c.hi : ℚ) * M := by
  obtain ⟨k, h1, h2, hk⟩ := C01_linear_on_lattice t (c.chan a) h x
  rw [hk]
  have hq := c.chan_qs_pos ha
  have hlo : (c.lo : ℚ) ≤ 0 := by exact_mod_cast c.lo_le_zero
  have hhi : (0 : ℚ) ≤ (c.hi : ℚ) := by exact_mod_cast c.zero_le_hi
  have h1' : (c.lo : ℚ) ≤ k := by exact_mod_cast h1
  have h2' : (k : ℚ) ≤ c.hi := by exact_mod_cast h2
  constructor
  · calc (c.lo : ℚ) * M ≤ (c.lo : ℚ) * (c.chan a).qs := by nlinarith
      _ ≤ (k : ℚ) * (c.chan a).qs := by nlinarith
  · calc (k : ℚ) * (c.chan a).qs ≤ (c.hi : ℚ) * (c.chan a).qs := by nlinarith
      _ ≤ (c.hi : ℚ) * M := by nlinarith

/-- … in particular `clip_min · K.max(quantization_scale)` and `clip_max · K.max(quantization_scale)` -/
theorem C01_linear_pc_scalar_bound_max (t : Tie) (c : LinCfg) (h : c.signFn = false) (as : List ℚ)
    (a x : ℚ) (hmem : a ∈ as) (ha : 0 < a) :
    (c.lo : ℚ) * lmax (as.map fun b => (c.chan b).qs) ≤ qlinear t (c.chan a) x ∧
    qlinear t (c.chan a) x ≤ (c.hi : ℚ) * lmax (as.map fun b => (c.chan b).qs) :=
  C01_linear_pc_scalar_bound t c h a x _ ha (le_lmax (List.mem_map.mpr ⟨a, hmem, rfl⟩))

/-- COUNTEREXAMPLE to the other reduction: `clip_min · K.min(quantization_scale)` does NOT enclose the
    outputs: `quantized_linear(2, 0, symmetric=0, alpha=[[0.5, 1, 2]])`, `x = −3` in channel 1 gives
    `−1` (code −2, a legal code) but `clip_min · min(qs) = −2 · 1/4 = −1/2` -/
theorem C01_linear_pc_min_of_min_counterexample :
    let c : LinCfg := { bits := 2, integer := 0, symmetric := false, keepNeg := true, alpha := none }
    let as : List ℚ := [1/2, 1, 2]
    qlinearPC .even c as [-3, -3, -3] = [-1/2, -1, -2] ∧
    (c.lo : ℚ) * lmin (as.map fun b => (c.chan b).qs) = -1/2 ∧
    qlinearMinPC c as = [-1/2, -1, -2] := by
  refine ⟨by decide +kernel, by decide +kernel, by decide +kernel⟩

/-- `range()` with the channels along the FIRST axis of the scale (`alpha` of shape `[C, 1]`): row `j`
    is the scalar `range()` of channel `j`, hence (C01_linear_range_exact) exactly its reachable set -/
theorem C01_linear_pc_range_first (c : LinCfg) (h : c.signFn = false) (as : List ℚ) :
    qlinearRangeFirst c as = as.map fun a => qlinearRange (c.chan a) := by
  unfold qlinearRangeFirst
  apply List.map_congr_left
  intro a _
  rw [qlinearRange_eq_codes (c.chan a) h]; rfl

/-- COUNTEREXAMPLE (known finding C01-linear-range-per-channel): with the channels along the LAST axis
    (`alpha` of shape `[1, C]` / `[C]`) and as many channels as codes, `range()` multiplies code `j` by
    scale `j`: `quantized_linear(2, 0, 1, alpha=[[0.5, 1, 2]]).range() = [[0, 0.5, −1]]`, while channel 0
    emits `−1/4` -/
theorem C01_linear_pc_range_last_counterexample :
    let c : LinCfg := { bits := 2, integer := 0, symmetric := true, keepNeg := true, alpha := none }
    qlinearRangeLast c [1/2, 1, 2] = some [0, 1/2, -1] ∧ qlinear .even (c.chan (1/2)) (-3) = -1/4 := by
  refine ⟨by decide +kernel, by decide +kernel⟩

/-! ### the quantized_linear object: which attributes are live -/

theorem C01_linear_obj_fresh (t : Tie) (c : LinCfg) (x : ℚ) :
    (LinObj.construct c).call t x = qlinear t c x := rfl

/-- `symmetric` assigned after construction is honoured (read by `get_clip_bounds` in every call) -/
theorem C01_linear_obj_symmetric_live (t : Tie) (c : LinCfg) (s : Bool) (x : ℚ) :
    ((LinObj.construct c).setSymmetric s).call t x = qlinear t { c with symmetric := s } x := rfl

/-- COUNTEREXAMPLE (known finding C01-linear-alpha-reassign): `alpha` assigned after construction is
    NOT honoured — the scale stored by `__init__` stays: `q = quantized_linear(4, 0, 1); q.alpha = 2.0`
    declares the step `2 · 2^-3 = 1/4` but `q(7/8) = 7/8` -/
theorem C01_linear_obj_alpha_stale_counterexample :
    let c : LinCfg := { bits := 4, integer := 0, symmetric := true, keepNeg := true, alpha := none }
    let o := (LinObj.construct c).setAlpha (some 2)
    o.cfg.qs = 1/4 ∧ o.call .even (7/8) = 7/8 ∧ ¬ ∃ k : ℤ, (7/8 : ℚ) = (k : ℚ) * (1/4) := by
  refine ⟨by decide +kernel, by decide +kernel, ?_⟩
  rintro ⟨k, hk⟩
  have : (2 : ℚ) * (k : ℚ) = 7 := by linarith
  have : (2 : ℤ) * k = 7 := by exact_mod_cast this
  omega

/-! ### quantized_bits with a per-channel scale -/

theorem C01_bits_pc_on_lattice (t : Tie) (c : BitsCfg) (h : 0 < c.ub) (as row : List ℚ) (j : ℕ)
    (hj : j < as.length) (hr : j < row.length) :
    ∃ k : ℤ, c.lo ≤ k ∧ k ≤ c.hi ∧
      (qbitsPC t c as row)[j]'(by simp [qbitsPC]; omega) = as[j] * (k : ℚ) * c.step := by
  rw [qbitsPC_getElem t c as row j hj hr]
  exact C01_bits_on_lattice t (c.chan as[j]) h row[j]

/-- the scalar `min()` / `max()` of `quantized_bits` (which ignore `alpha`) enclose the outputs of
    every channel whose scale is at most 1 -/
theorem C01_bits_minmax_gain_le_one (t : Tie) (c : BitsCfg) (hg0 : 0 ≤ c.gain) (hg1 : c.gain ≤ 1)
    (hb : 1 ≤ c.bits) (x : ℚ) : qbitsMin c ≤ qbits t c x ∧ qbits t c x ≤ qbitsMax c := by
  set c0 : BitsCfg := { c with alpha := none } with hc0
  have hgain0 : c0.gain = 1 := rfl
  have hfac : qbits t c x = c.gain * qbits t c0 x := by
    unfold qbits
    have e1 : c0.ub = c.ub := rfl
    have e2 : c0.step = c.step := rfl
    have e3 : c0.lo = c.lo := rfl
    have e4 : c0.hi = c.hi := rfl
    have e5 : c0.keepNeg = c.keepNeg := rfl
    rw [e1, e2, e3, e4, e5, hgain0]
    split <;> ring
  have hmm := C01_bits_minmax t c0 hgain0 hb x
  have hmin : qbitsMin c0 = qbitsMin c := rfl
  have hmax : qbitsMax c0 = qbitsMax c := rfl
  rw [hmin, hmax] at hmm
  have hmin0 : qbitsMin c ≤ 0 := by
    unfold qbitsMin
    have := pow2_pos c.integer
    split
    · exact le_rfl
    · split
      · split <;> linarith
      · norm_num
  have hmax0 : 0 ≤ qbitsMax c := by
    unfold qbitsMax
    have := pow2_pos c.integer
    split
    · split <;> linarith
    · norm_num
  rw [hfac]
  obtain ⟨h1, h2⟩ := hmm
  constructor <;> nlinarith

/-! ### quantized_relu: `relu_upper_bound` / `is_quantized_clip` -/

/-- with `is_quantized_clip` (the default) or without an upper bound the call is the plain quantizer.
    (Until the fix of C02-relu-upper-zero this also held for the falsy bound `0.0`; now that bound clamps like any other:
    `C01_reluU_zero_bound`.) -/
theorem C01_reluU_default (t : Tie) (c : ReluCfg)
    (h : c.qclip = true ∨ c.upper = none) (x : ℚ) : qreluU t c x = qrelu t c x := by
  apply qreluU_of_clamp_none
  rcases h with h | h
  · exact ReluCfg.clamp_of_qclip h
  · exact ReluCfg.clamp_of_no_upper h

/-- every given bound is respected, whatever its value (in particular `relu_upper_bound = 0.0`):
    no output of `quantized_relu(is_quantized_clip=False, relu_upper_bound=u)` exceeds `u` -/
theorem C01_reluU_le_bound (t : Tie) (c : ReluCfg) (u : ℚ) (hq : c.qclip = false)
    (hu : c.upper = some u) (x : ℚ) : qreluU t c x ≤ u := by
  unfold qreluU
  rw [ReluCfg.clamp_of_upper hq hu]
  exact clampTo_le_bound u _

/-- the bound `0.0` of a plain ReLU: every output is the code `0` (regression of C02-relu-upper-zero) -/
theorem C01_reluU_zero_bound (t : Tie) (c : ReluCfg) (h : c.slopeLog = none) (hq : c.qclip = false)
    (hu : c.upper = some 0) (x : ℚ) : qreluU t c x = 0 :=
  qreluU_zero_bound t c h hq hu x

/-- whatever the options, no output exceeds the largest code: an upper bound ABOVE the largest code
    must not let larger values through -/
theorem C01_reluU_le_top (t : Tie) (c : ReluCfg) (hs : ∀ s : ℕ, c.slopeLog = some s → (s : ℤ) ≤ c.nsb)
    (x : ℚ) : qreluU t c x ≤ (c.hi : ℚ) * c.step := by
  refine le_trans (clampTo_le _ _) ?_
  have hsp := c.step_pos
  cases hsl : c.slopeLog with
  | none =>
    obtain ⟨k, _, h2, hk⟩ := C01_relu_plain_on_lattice t c hsl x
    rw [hk]
    have : (k : ℚ) ≤ c.hi := by exact_mod_cast h2
    nlinarith
  | some s =>
    obtain ⟨k, _, h2, hk⟩ := C01_relu_leaky_on_lattice t c s hsl (hs s hsl) x
    rw [hk]
    have : (k : ℚ) ≤ c.hi := by exact_mod_cast h2
    nlinarith

/-- an upper bound at or above the largest code never triggers -/
theorem C01_reluU_bound_above_top (t : Tie) (c : ReluCfg)
    (hs : ∀ s : ℕ, c.slopeLog = some s → (s : ℤ) ≤ c.nsb) (u : ℚ) (hu : c.clamp = some u)
    (htop : (c.hi : ℚ) * c.step ≤ u) (x : ℚ) : qreluU t c x = qrelu t c x := by
  have hd := C01_reluU_default t { c with qclip := true } (Or.inl rfl) x
  have hle : qrelu t c x ≤ (c.hi : ℚ) * c.step := by
    have h := C01_reluU_le_top t { c with qclip := true } hs x
    rw [hd] at h
    exact h
  unfold qreluU
  rw [hu, clampTo_of_le (le_trans hle htop)]

/-- plain ReLU with an ON-GRID upper bound `j·step` (or none): still a code of the format -/
theorem C01_reluU_plain_on_lattice (t : Tie) (c : ReluCfg) (h : c.slopeLog = none)
    (hc : ∀ u, c.clamp = some u → ∃ j : ℤ, 0 ≤ j ∧ u = (j : ℚ) * c.step) (x : ℚ) :
    ∃ k : ℤ, 0 ≤ k ∧ k ≤ c.hi ∧ qreluU t c x = (k : ℚ) * c.step := by
  obtain ⟨k, h1, h2, hk⟩ := C01_relu_plain_on_lattice t c h x
  cases hcl : c.clamp with
  | none => exact ⟨k, h1, h2, by rw [qreluU_of_clamp_none t hcl, hk]⟩
  | some u =>
    obtain ⟨j, hj, rfl⟩ := hc u hcl
    refine ⟨min k j, le_min h1 hj, le_trans (min_le_left _ _) h2, ?_⟩
    unfold qreluU
    rw [hcl, hk, clampTo_lattice c.step_pos]

/-- leaky ReLU with an on-grid upper bound -/
theorem C01_reluU_leaky_on_lattice (t : Tie) (c : ReluCfg) (s : ℕ) (h : c.slopeLog = some s)
    (hs : (s : ℤ) ≤ c.nsb)
    (hc : ∀ u, c.clamp = some u → ∃ j : ℤ, - tp (c.nsb - s) ≤ j ∧ u = (j : ℚ) * c.step) (x : ℚ) :
    ∃ k : ℤ, - tp (c.nsb - s) ≤ k ∧ k ≤ c.hi ∧ qreluU t c x = (k : ℚ) * c.step := by
  obtain ⟨k, h1, h2, hk⟩ := C01_relu_leaky_on_lattice t c s h hs x
  cases hcl : c.clamp with
  | none => exact ⟨k, h1, h2, by rw [qreluU_of_clamp_none t hcl, hk]⟩
  | some u =>
    obtain ⟨j, hj, rfl⟩ := hc u hcl
    refine ⟨min k j, le_min h1 hj, le_trans (min_le_left _ _) h2, ?_⟩
    unfold qreluU
    rw [hcl, hk, clampTo_lattice c.step_pos]

/-- `min()` / `max()` enclose the plain outputs for every non-negative upper bound -/
theorem C01_reluU_minmax (t : Tie) (c : ReluCfg) (h : c.slopeLog = none) (hb : 1 ≤ c.bits)
    (hc : ∀ u, c.clamp = some u → 0 ≤ u) (x : ℚ) :
    qreluMin c ≤ qreluU t c x ∧ qreluU t c x ≤ qreluMax c := by
  obtain ⟨h1, h2⟩ := C01_relu_minmax t c h hb x
  constructor
  · have h0 : qreluMin c = 0 := by simp [qreluMin, h]
    rw [h0] at h1 ⊢
    unfold qreluU clampTo
    cases hcl : c.clamp with
    | none => exact h1
    | some u => simp only; split
                · exact h1
                · exact hc u hcl
  · exact le_trans (clampTo_le _ _) h2

/-- COUNTEREXAMPLE (known finding C01-relu-upper-offgrid): an upper bound that is not a multiple of
    the step is emitted as is: `quantized_relu(4, 1, is_quantized_clip=False, relu_upper_bound=1.3)(2)`
    is `1.3`, not a multiple of the step `1/8` -/
theorem C01_reluU_offgrid_counterexample :
    let c : ReluCfg := { bits := 4, integer := 1, slopeLog := none, upper := some (13/10), qclip := false }
    c.step = 1/8 ∧ qreluU .even c 2 = 13/10 ∧ ¬ ∃ k : ℤ, (13/10 : ℚ) = (k : ℚ) * (1/8) := by
  refine ⟨by decide +kernel, by decide +kernel, ?_⟩
  rintro ⟨k, hk⟩
  have : (5 : ℚ) * (k : ℚ) = 52 := by linarith
  have : (5 : ℤ) * k = 52 := by exact_mod_cast this
  omega

/-- COUNTEREXAMPLE (known finding C01-relu-range-ignores-upper): `range()` lists all `2^bits` codes
    although an active upper bound makes the upper ones unreachable:
    `quantized_relu(3, 2, is_quantized_clip=False, relu_upper_bound=2.0)`: `5/2` is listed, no output
    exceeds `2` -/
theorem C01_reluU_range_upper_counterexample :
    let c : ReluCfg := { bits := 3, integer := 2, slopeLog := none, upper := some 2, qclip := false }
    (∃ l, qreluRange c = some l ∧ (5/2 : ℚ) ∈ l) ∧ ∀ (t : Tie) (x : ℚ), qreluU t c x ≤ 2 := by
  refine ⟨⟨_, rfl, by decide +kernel⟩, ?_⟩
  intro t x
  exact clampTo_le_bound 2 _

/-! ### quantized_relu(use_sigmoid=1) on the surrogate value -/

/-- plain `use_sigmoid`: codes `0 … 2^bits − 1` of the declared step, for every surrogate value -/
theorem C01_reluSig_plain_on_lattice (t : Tie) (c : ReluCfg) (h : c.slopeLog = none) (hn : 0 ≤ c.nsb)
    (s : ℚ) : ∃ k : ℤ, 0 ≤ k ∧ k ≤ c.hi ∧ qreluSigP t c s = (k : ℚ) * c.step := by
  have hm := c.m_step hn
  have hmpos : (0 : ℚ) < ((tp c.nsb : ℤ) : ℚ) := by exact_mod_cast tp_pos _
  have hhi : c.hi = tp c.nsb - 1 := by unfold ReluCfg.hi; rw [twoPow_eq_tp]
  have hone := tp_ge_one c.nsb
  unfold qreluSigP
  simp only [h, twoPow_eq_tp]
  generalize roundTie t (s * ((tp c.nsb : ℤ) : ℚ)) = r
  have hv : 2 * ((r : ℚ) / ((tp c.nsb : ℤ) : ℚ)) - 1 = ((2 * r - tp c.nsb : ℤ) : ℚ) / ((tp c.nsb : ℤ) : ℚ) := by
    push_cast; field_simp
  rw [hv]
  unfold rclip
  split
  · exact ⟨0, le_rfl, by omega, by simp⟩
  · rename_i h0
    split
    · refine ⟨tp c.nsb - 1, by omega, by omega, ?_⟩
      rw [← hm]; push_cast; field_simp
    · rename_i h1
      push Not at h0 h1
      refine ⟨2 * r - tp c.nsb, ?_, ?_, ?_⟩
      · have : (0 : ℚ) ≤ ((2 * r - tp c.nsb : ℤ) : ℚ) := by
          have := mul_le_mul_of_nonneg_right h0 hmpos.le
          rw [div_mul_cancel₀ _ hmpos.ne'] at this; linarith
        exact_mod_cast this
      · have : ((2 * r - tp c.nsb : ℤ) : ℚ) ≤ ((tp c.nsb - 1 : ℤ) : ℚ) := by
          have := mul_le_mul_of_nonneg_right h1 hmpos.le
          rw [div_mul_cancel₀ _ hmpos.ne'] at this
          have e : (1 - 1 / ((tp c.nsb : ℤ) : ℚ)) * ((tp c.nsb : ℤ) : ℚ) = ((tp c.nsb : ℤ) : ℚ) - 1 := by field_simp
          rw [e] at this; push_cast at this ⊢; linarith
        have : 2 * r - tp c.nsb ≤ tp c.nsb - 1 := by exact_mod_cast this
        omega
      · rw [← hm]; field_simp

/-! ## Strengthening round 2: histories on ONE object (`QKV.Model.FixedQObj`)

  A quantizer object is called, its reporters are read, its attributes are assigned,
  `_set_trainable_parameter()` is invoked, it is handed to layers — in any order, any number of times.
  The property must hold for the k-th use exactly as for a fresh object: every observation is answered
  from the configuration the object has NOW.  In the model this refinement is by construction; the
  theorems below state what it buys (and the harness ties the real objects to the machine step by step). -/

/-- observations leave no trace: the state after a history is the fold of its EVENTS -/
theorem C01_hist_final_events {S E Q A : Type} (M : ObjSpec S E Q A) (s : S) (h : List (HStep E Q)) :
    M.final s h = (ObjSpec.events h).foldl M.apply s := M.final_eq_foldl s h

/-- the k-th use: a question asked after ANY history is answered as the function of the state reached,
    and the earlier answers are unaffected -/
theorem C01_hist_ask_after {S E Q A : Type} (M : ObjSpec S E Q A) (s : S) (h : List (HStep E Q)) (q : Q) :
    M.run s (h ++ [.ask q]) = M.run s h ++ [M.answer (M.final s h) q] := M.run_snoc_ask s h q

/-- two histories with the same events — whatever calls and reporter reads are interleaved, e.g. none at
    all — leave the object in the same state: having been used leaves no trace (this is what a cache
    filled at the first use breaks) -/
theorem C01_hist_asks_irrelevant {S E Q A : Type} (M : ObjSpec S E Q A) (s : S) (h h' : List (HStep E Q))
    (e : ObjSpec.events h = ObjSpec.events h') (q : Q) :
    M.answer (M.final s h) q = M.answer (M.final s h') q := by
  rw [M.final_of_events_eq s e]

/-! ### quantized_linear -/

/-- `bits`, `integer`, `keep_negative` never change -/
theorem C01_hist_linear_readonly (t : Tie) (s : LinSt) (h : List (HStep LinEv Ask)) :
    ((linSpec t).final s h).cfg.bits = s.cfg.bits ∧ ((linSpec t).final s h).cfg.integer = s.cfg.integer ∧
    ((linSpec t).final s h).cfg.keepNeg = s.cfg.keepNeg := by
  refine (linSpec t).final_invariant
    (fun f => f.cfg.bits = s.cfg.bits ∧ f.cfg.integer = s.cfg.integer ∧ f.cfg.keepNeg = s.cfg.keepNeg)
    ?_ s ⟨rfl, rfl, rfl⟩ h
  intro f e ⟨h1, h2, h3⟩
  obtain ⟨a1, a2, a3⟩ := f.apply_readonly e
  exact ⟨a1.trans h1, a2.trans h2, a3.trans h3⟩

/-- whatever the history (attribute assignments, stale or data-dependent scales included), a call emits
    a code of the format the attributes describe NOW — `lo` follows the current `symmetric` — times the
    scale in force -/
theorem C01_hist_linear_on_lattice (t : Tie) (s0 : LinSt) (h : List (HStep LinEv Ask)) (x p : ℚ)
    (hsf : ((linSpec t).final s0 h).cfg.signFn = false) :
    ∃ k : ℤ, ((linSpec t).final s0 h).cfg.lo ≤ k ∧ k ≤ ((linSpec t).final s0 h).cfg.hi ∧
      (linSpec t).answer ((linSpec t).final s0 h) (.call x p) =
        .val ((k : ℚ) * ((linSpec t).final s0 h).effective.qs) := by
  set s := (linSpec t).final s0 h
  obtain ⟨k, h1, h2, hk⟩ := C01_linear_on_lattice t s.effective (by rw [LinSt.effective_signFn]; exact hsf) x
  exact ⟨k, h1, h2, by show Ans.val _ = _; rw [hk]⟩

/-- `min()` / `max()` of the object as it is NOW enclose what it emits NOW, and `range()` lists exactly
    that (positive scale in force) -/
theorem C01_hist_linear_reporters (t : Tie) (s0 : LinSt) (h : List (HStep LinEv Ask)) (x p : ℚ)
    (hsf : ((linSpec t).final s0 h).cfg.signFn = false) (hq : 0 < ((linSpec t).final s0 h).effective.qs) :
    ∃ mn mx y : ℚ, ∃ l : List ℚ,
      (linSpec t).answer ((linSpec t).final s0 h) .min = .val mn ∧
      (linSpec t).answer ((linSpec t).final s0 h) .max = .val mx ∧
      (linSpec t).answer ((linSpec t).final s0 h) .range = .list l ∧
      (linSpec t).answer ((linSpec t).final s0 h) (.call x p) = .val y ∧ mn ≤ y ∧ y ≤ mx ∧ y ∈ l ∧
      ∀ z ∈ l, ∃ x', (linSpec t).answer ((linSpec t).final s0 h) (.call x' p) = .val z := by
  set s := (linSpec t).final s0 h
  have hs' : s.effective.signFn = false := by rw [LinSt.effective_signFn]; exact hsf
  obtain ⟨h1, h2⟩ := C01_linear_minmax t s.effective hs' hq x
  refine ⟨_, _, _, _, rfl, rfl, rfl, rfl, h1, h2, ?_, ?_⟩
  · exact (C01_linear_range_exact t s.effective hs' hq _).mpr ⟨x, rfl⟩
  · intro z hz
    obtain ⟨x', hx'⟩ := (C01_linear_range_exact t s.effective hs' hq z).mp hz
    exact ⟨x', by show Ans.val _ = _; rw [hx']⟩

/-- as long as no constant is assigned to `alpha`, the object behaves exactly as a FRESH quantizer built
    from its current attributes (the twin of the harness) -/
theorem C01_hist_linear_fresh (t : Tie) (c : LinCfg) (auto : Bool) (h : List (HStep LinEv Ask))
    (hk : ∀ e ∈ ObjSpec.events h, e.keepsScale)
    (hna : ((linSpec t).final (LinSt.construct c auto) h).auto = false) (q : Ask) :
    (linSpec t).answer ((linSpec t).final (LinSt.construct c auto) h) q =
      (linSpec t).answer (LinSt.construct ((linSpec t).final (LinSt.construct c auto) h).cfg false) q := by
  have hc : ((linSpec t).final (LinSt.construct c auto) h).Consistent :=
    (linSpec t).final_invariant_on LinSt.Consistent LinEv.keepsScale
      (fun s e he hs => s.consistent_apply e he hs) _ (LinSt.consistent_construct c auto) h hk
  set s := (linSpec t).final (LinSt.construct c auto) h
  have he : s.effective = (LinSt.construct s.cfg false).effective := by
    unfold LinSt.effective LinSt.construct
    simp only [Bool.false_eq_true, if_false]
    rw [hc hna]
  cases q <;> simp only [linSpec, LinSt.answer] <;> rw [he]

/-- `_set_trainable_parameter()` on an `alpha=None` object — whatever was asked of it before, and
    whichever scale the data then dictates — leaves the SYMMETRIC format: no code below `-(2^ub - 1)` -/
theorem C01_hist_linear_trainable_symmetric (t : Tie) (c : LinCfg) (ha : c.alpha = none) (hkn : c.keepNeg = true)
    (hb : c.signFn = false) (pre : List (HStep LinEv Ask)) (hpre : ObjSpec.events pre = []) (a x p : ℚ) :
    ∃ k : ℤ, -(twoPow c.ub - 1) ≤ k ∧ k ≤ twoPow c.ub - 1 ∧
      (linSpec t).answer ((linSpec t).final (LinSt.construct c false) (pre ++ [.ev .trainable, .ev (.rescale a)]))
        (.call x p) = .val ((k : ℚ) * (a * pow2 (c.integer - c.ub))) := by
  have hfin : (linSpec t).final (LinSt.construct c false) (pre ++ [.ev .trainable, .ev (.rescale a)]) =
      { cfg := { c with symmetric := true }, auto := true, stored := some a } := by
    rw [ObjSpec.final_append, ObjSpec.final_eq_foldl _ _ pre, hpre]
    simp [ObjSpec.final, linSpec, LinSt.apply, LinSt.construct, ha]
  rw [hfin]
  have hsf : ({ cfg := { c with symmetric := true }, auto := true, stored := some a } : LinSt).effective.signFn
      = false := hb
  obtain ⟨k, h1, h2, hk⟩ := C01_linear_on_lattice t
    ({ cfg := { c with symmetric := true }, auto := true, stored := some a } : LinSt).effective hsf x
  refine ⟨k, ?_, ?_, ?_⟩
  · have : ({ cfg := { c with symmetric := true }, auto := true, stored := some a } : LinSt).effective.lo
        = -(twoPow c.ub - 1) := by
      have e : ({ cfg := { c with symmetric := true }, auto := true, stored := some a } : LinSt).effective.lo
          = (if c.keepNeg then -twoPow c.ub + 1 else 0) := rfl
      rw [e, hkn]; simp only [if_true]; ring
    rw [this] at h1; exact h1
  · exact h2
  · show Ans.val _ = _
    rw [hk]; rfl

/-- COUNTEREXAMPLE (known finding C01-linear-alpha-reassign, as a history): call, assign `alpha = 2.0`,
    call again — the second call still uses the scale stored by `__init__` -/
theorem C01_hist_linear_alpha_stale_counterexample :
    let c : LinCfg := { bits := 4, integer := 0, symmetric := true, keepNeg := true, alpha := none }
    (linSpec .even).run (LinSt.construct c false)
        [.ask (.call (7/8) 0), .ev (.setAlpha (some 2)), .ask (.call (7/8) 0), .ask .max] =
      [.val (7/8), .val (7/8), .val (7/8)] ∧
    ((linSpec .even).final (LinSt.construct c false) [.ev (.setAlpha (some 2))]).cfg.qs = 1/4 := by
  refine ⟨by decide +kernel, by decide +kernel⟩

/-! ### quantized_bits -/

/-- whatever the history, with a constant (or no) scale a call emits a code of the format the
    attributes describe NOW (every attribute of `quantized_bits` is live) -/
theorem C01_hist_bits_on_lattice (t : Tie) (s0 : BitsSt) (h : List (HStep BitsEv Ask)) (x p : ℚ)
    (hna : ((bitsSpec t).final s0 h).auto = false) (hub : 0 < ((bitsSpec t).final s0 h).cfg.ub) :
    ∃ k : ℤ, ((bitsSpec t).final s0 h).cfg.lo ≤ k ∧ k ≤ ((bitsSpec t).final s0 h).cfg.hi ∧
      (bitsSpec t).answer ((bitsSpec t).final s0 h) (.call x p) =
        .val (((bitsSpec t).final s0 h).cfg.gain * (k : ℚ) * ((bitsSpec t).final s0 h).cfg.step) := by
  set s := (bitsSpec t).final s0 h
  obtain ⟨k, h1, h2, hk⟩ := C01_bits_on_lattice t s.cfg hub x
  refine ⟨k, h1, h2, ?_⟩
  simp only [bitsSpec, BitsSt.answer, hna, Bool.false_eq_true, if_false]
  rw [hk]

/-- under a data-dependent scale `s` (after `_set_trainable_parameter()`) every output is a code of the
    symmetric format `-(2^(bits-1) - 1) … 2^(bits-1) - 1` of size `s · 2^integer` -/
theorem C01_bitsAuto_on_lattice (c : BitsCfg) (s x : ℚ) (hs : 0 < s) :
    ∃ k : ℤ, -(tp (c.bits - 1) - 1) ≤ k ∧ k ≤ tp (c.bits - 1) - 1 ∧
      qbitsAuto c s x = (k : ℚ) * (s * pow2 c.integer) := qbitsAuto_code c s x hs

/-- `_set_trainable_parameter()` on an `alpha=None` `quantized_bits` — whatever was asked before — turns
    it into the symmetric auto-scale quantizer; any other alpha is left alone -/
theorem C01_hist_bits_trainable (t : Tie) (c : BitsCfg) (pre : List (HStep BitsEv Ask))
    (hpre : ObjSpec.events pre = []) :
    (bitsSpec t).final (BitsSt.construct c) (pre ++ [.ev .trainable]) =
      (if c.alpha.isNone then { cfg := { c with symmetric := true }, auto := true, scale := 1 }
       else BitsSt.construct c) := by
  rw [ObjSpec.final_append, ObjSpec.final_eq_foldl _ _ pre, hpre]
  cases ha : c.alpha <;> simp [ObjSpec.final, bitsSpec, BitsSt.apply, BitsSt.construct, ha]

/-! ### quantized_relu, quantized_tanh, quantized_sigmoid -/

/-- whatever the history, a plain (`use_sigmoid = 0`) call does not exceed the largest code of the
    format the attributes describe NOW -/
theorem C01_hist_relu_le_top (t : Tie) (s0 : ReluSt) (h : List (HStep ReluEv Ask)) (x p : ℚ)
    (hus : ((reluSpec t).final s0 h).useSigmoid = false)
    (hs : ∀ k : ℕ, ((reluSpec t).final s0 h).cfg.slopeLog = some k → (k : ℤ) ≤ ((reluSpec t).final s0 h).cfg.nsb) :
    ∃ y : ℚ, (reluSpec t).answer ((reluSpec t).final s0 h) (.call x p) = .val y ∧
      y ≤ (((reluSpec t).final s0 h).cfg.hi : ℚ) * ((reluSpec t).final s0 h).cfg.step := by
  set s := (reluSpec t).final s0 h
  refine ⟨qreluU t s.cfg x, ?_, C01_reluU_le_top t s.cfg hs x⟩
  simp only [reluSpec, ReluSt.answer, hus, Bool.false_eq_true, if_false]

/-- … and with the default options it is a code `0 … 2^bits − 1` of the CURRENT step -/
theorem C01_hist_relu_plain_on_lattice (t : Tie) (s0 : ReluSt) (h : List (HStep ReluEv Ask)) (x p : ℚ)
    (hus : ((reluSpec t).final s0 h).useSigmoid = false)
    (hsl : ((reluSpec t).final s0 h).cfg.slopeLog = none)
    (hc : ((reluSpec t).final s0 h).cfg.clamp = none) :
    ∃ k : ℤ, 0 ≤ k ∧ k ≤ ((reluSpec t).final s0 h).cfg.hi ∧
      (reluSpec t).answer ((reluSpec t).final s0 h) (.call x p) =
        .val ((k : ℚ) * ((reluSpec t).final s0 h).cfg.step) := by
  set s := (reluSpec t).final s0 h
  obtain ⟨k, h1, h2, hk⟩ := C01_relu_plain_on_lattice t s.cfg hsl x
  refine ⟨k, h1, h2, ?_⟩
  simp only [reluSpec, ReluSt.answer, hus, Bool.false_eq_true, if_false]
  rw [qreluU_of_clamp_none t hc, hk]

/-- tanh / sigmoid: a code of the format of the CURRENT `bits` / `symmetric`, for every surrogate value -/
theorem C01_hist_tanh_on_lattice (t : Tie) (s0 : SurSt) (h : List (HStep SurEv Ask)) (x p : ℚ) :
    ∃ k : ℤ, - tp (((tanhSpec t).final s0 h).bits - 1) + (if ((tanhSpec t).final s0 h).symmetric then 1 else 0) ≤ k ∧
      k ≤ tp (((tanhSpec t).final s0 h).bits - 1) - 1 ∧
      (tanhSpec t).answer ((tanhSpec t).final s0 h) (.call x p) =
        .val ((k : ℚ) / (tp (((tanhSpec t).final s0 h).bits - 1) : ℚ)) := by
  set s := (tanhSpec t).final s0 h
  obtain ⟨k, h1, h2, hk⟩ := C01_tanh_on_lattice t s.bits s.symmetric p
  exact ⟨k, h1, h2, by show Ans.val _ = _; rw [hk]⟩

theorem C01_hist_sigmoid_on_lattice (t : Tie) (s0 : SurSt) (h : List (HStep SurEv Ask)) (x p : ℚ)
    (hb : ((sigmoidSpec t).final s0 h).symmetric = true → 1 ≤ ((sigmoidSpec t).final s0 h).bits) :
    ∃ k : ℤ, (if ((sigmoidSpec t).final s0 h).symmetric then 1 else 0) ≤ k ∧
      k ≤ tp ((sigmoidSpec t).final s0 h).bits - 1 ∧
      (sigmoidSpec t).answer ((sigmoidSpec t).final s0 h) (.call x p) =
        .val ((k : ℚ) / (tp ((sigmoidSpec t).final s0 h).bits : ℚ)) := by
  set s := (sigmoidSpec t).final s0 h
  obtain ⟨k, h1, h2, hk⟩ := C01_sigmoid_on_lattice t s.bits s.symmetric p hb
  exact ⟨k, h1, h2, by show Ans.val _ = _; rw [hk]⟩

/-! ## Strengthening round 3 (seed C02-7): `use_stochastic_rounding` × the learning phase

  The code set does not depend on HOW `_round_through` rounds: the clip that follows it puts every
  integer it may return on the lattice.  So the "codes only" clause holds under every flag, learning
  phase and draw (training included) — `qbitsR ρ` etc. for an arbitrary rounding step `ρ`, and the
  `q…S` corollaries for `_round_through` as coded.  (`quantized_linear` clips BEFORE rounding: there the
  rounding step has to return an adjacent integer, which `_round_through` does: `roundThroughI_adjacent`.) -/

theorem C01_bits_on_lattice_any_round (ρ : ℚ → ℤ) (c : BitsCfg) (h : 0 < c.ub) (x : ℚ) :
    ∃ k : ℤ, c.lo ≤ k ∧ k ≤ c.hi ∧ qbitsR ρ c x = c.gain * (k : ℚ) * c.step := by
  refine ⟨iclip (ρ (x / c.step)) c.lo c.hi, (iclip_bounds c.lo_le_hi).1, (iclip_bounds c.lo_le_hi).2, ?_⟩
  unfold qbitsR; rw [if_pos h]

/-- every flag, learning phase and draw -/
theorem C01_bits_stoch_on_lattice (t : Tie) (r : RoundMode) (c : BitsCfg) (h : 0 < c.ub) (x : ℚ) :
    ∃ k : ℤ, c.lo ≤ k ∧ k ≤ c.hi ∧ qbitsS t r c x = c.gain * (k : ℚ) * c.step :=
  C01_bits_on_lattice_any_round _ c h x

theorem C01_relu_plain_on_lattice_any_round (ρ ρ2 : ℚ → ℤ) (c : ReluCfg) (h : c.slopeLog = none) (x : ℚ) :
    ∃ k : ℤ, 0 ≤ k ∧ k ≤ c.hi ∧ qreluR ρ ρ2 c x = (k : ℚ) * c.step := by
  refine ⟨iclip (ρ (x / c.step)) 0 c.hi, (iclip_bounds c.zero_le_hi).1, (iclip_bounds c.zero_le_hi).2, ?_⟩
  unfold qreluR; simp only [h]

/-- `quantized_relu` (plain, no active upper bound) under every flag, phase and draw -/
theorem C01_relu_plain_stoch_on_lattice (t : Tie) (r : RoundMode) (c : ReluCfg) (h : c.slopeLog = none)
    (hc : c.clamp = none) (x : ℚ) :
    ∃ k : ℤ, 0 ≤ k ∧ k ≤ c.hi ∧ qreluUS t r c x = (k : ℚ) * c.step := by
  obtain ⟨k, h1, h2, hk⟩ := C01_relu_plain_on_lattice_any_round (r.rho t) (r.rho2 t) c h x
  exact ⟨k, h1, h2, by unfold qreluUS qreluUR; rw [hc]; exact hk⟩

theorem C01_linear_on_lattice_adjacent_round (ρ : ℚ → ℤ) (hρ : Adjacent ρ) (c : LinCfg) (h : c.signFn = false)
    (x : ℚ) : ∃ k : ℤ, c.lo ≤ k ∧ k ≤ c.hi ∧ qlinearR ρ c x = (k : ℚ) * c.qs := by
  have hlh : (c.lo : ℚ) ≤ (c.hi : ℚ) := by exact_mod_cast c.lo_le_hi
  unfold qlinearR
  simp only [h, Bool.false_eq_true, if_false]
  refine ⟨_, ?_, ?_, rfl⟩ <;>
  · split
    · first | exact (hρ.mem (le_refl _) hlh).1 | exact (hρ.mem (le_refl _) hlh).2
    · split
      · first | exact (hρ.mem hlh (le_refl _)).1 | exact (hρ.mem hlh (le_refl _)).2
      · first | exact (hρ.mem (not_lt.mp ‹_›) (not_lt.mp ‹_›)).1 | exact (hρ.mem (not_lt.mp ‹_›) (not_lt.mp ‹_›)).2

theorem C01_linear_stoch_on_lattice (t : Tie) (r : RoundMode) (c : LinCfg) (h : c.signFn = false) (x : ℚ) :
    ∃ k : ℤ, c.lo ≤ k ∧ k ≤ c.hi ∧ qlinearS t r c x = (k : ℚ) * c.qs :=
  C01_linear_on_lattice_adjacent_round _ (RoundMode.rho_adjacent t r) c h x

theorem C01_tanh_stoch_on_lattice (t : Tie) (r : RoundMode) (bits : ℤ) (sym : Bool) (p : ℚ) :
    ∃ k : ℤ, - tp (bits - 1) + (if sym then 1 else 0) ≤ k ∧ k ≤ tp (bits - 1) - 1 ∧
      qtanhPS t r bits sym p = (k : ℚ) / (tp (bits - 1) : ℚ) := by
  have hle : - tp (bits - 1) + (if sym then 1 else 0) ≤ tp (bits - 1) - 1 := by
    have := tp_pos (bits - 1); split <;> omega
  exact ⟨_, (iclip_bounds hle).1, (iclip_bounds hle).2, rfl⟩

theorem C01_sigmoid_stoch_on_lattice (t : Tie) (r : RoundMode) (bits : ℤ) (sym : Bool) (p : ℚ)
    (hb : sym = true → 1 ≤ bits) :
    ∃ k : ℤ, (if sym then 1 else 0) ≤ k ∧ k ≤ tp bits - 1 ∧
      qsigmoidPS t r bits sym p = (k : ℚ) / (tp bits : ℚ) := by
  obtain ⟨k0, hk1, hk2, _⟩ := C01_sigmoid_on_lattice t bits sym p hb
  have hle : (if sym then (1 : ℤ) else 0) ≤ tp bits - 1 := le_trans hk1 hk2
  exact ⟨_, (iclip_bounds hle).1, (iclip_bounds hle).2, rfl⟩

/-- with the learning phase off (or the flag off) the flagged quantizer is the plain one, so everything
    above — reporters, `range()`, cardinality — carries over; `quantized_bits` spelled out -/
theorem C01_bits_stoch_inference_eq (t : Tie) (r : RoundMode) (hd : r.Det) (c : BitsCfg) (x : ℚ) :
    qbitsS t r c x = qbits t c x := by
  unfold qbitsS; rw [RoundMode.rho_det t hd]; rfl

/-! ## non-vacuity -/

example : (0 : ℤ) < ({ bits := 8, integer := 0, symmetric := false, keepNeg := true,
                        alpha := none } : BitsCfg).ub := by decide
example : qbitsRange { bits := 3, integer := 0, symmetric := false, keepNeg := true, alpha := none }
    = some [0, 1/4, 1/2, 3/4, -1, -3/4, -1/2, -1/4] := by decide +kernel
example : qrelu .even { bits := 4, integer := 1, slopeLog := some 2 } (-3) = -1/2 := by decide +kernel
example : qreluU .even { bits := 4, integer := 1, slopeLog := none, upper := some (3/2), qclip := false } 7
    = 3/2 := by decide +kernel
example : qreluU .even { bits := 4, integer := 1, slopeLog := none, upper := some 6, qclip := false } 7
    = 15/8 := by decide +kernel
example : qlinearMinPC { bits := 2, integer := 0, symmetric := false, keepNeg := true, alpha := none }
    [1/2, 1, 2] = [-1/2, -1, -2] := by decide +kernel

-- seed C01-5 in the model: call, flip `symmetric`, call at the negative edge: the CURRENT format's end code
example : (linSpec .even).run
    (LinSt.construct { bits := 4, integer := 0, symmetric := false, keepNeg := true, alpha := none } false)
    [.ask (.call (-5) 0), .ev (.setSymmetric true), .ask (.call (-5) 0), .ask .min] =
    [.val (-1), .val (-7/8), .val (-7/8)] := by decide +kernel
-- seed C02-5 in the model: min() read, handed to a layer as kernel quantizer, auto scale 1/8
example : (linSpec .even).run
    (LinSt.construct { bits := 4, integer := 0, symmetric := false, keepNeg := true, alpha := none } false)
    [.ask .min, .ev .trainable, .ev (.rescale 1), .ask (.call (-1) 0)] = [.val (-1), .val (-7/8)] := by
  decide +kernel
example : qbitsAuto { bits := 4, integer := 0, symmetric := true, keepNeg := true, alpha := none } (1/8) (-1)
    = -7/8 := by decide +kernel

end QKV.Props.C01
