/-
  C16 — qtools multiplier output types represent every product of their operand types.

  Property (verbatim, properties.jsonl): for every pair of weight and input data types that
  qtools distinguishes (fixed-point signed/unsigned, power-of-two signed/unsigned, ternary,
  binary ±1, binary 0/1, floating point) and every pair of values those types can hold, the
  product is exactly representable in the output type that the multiplier factory reports,
  except for the product of two most-negative two's-complement codes; zero is always
  representable.  The reported implementation kind is the one the operand kinds call for.

  This file holds ONLY property theorems (and non-vacuity examples).  Model:
  QKV.Model.QTypes / QKV.Model.Mult.  All bit widths are unbounded integers.
-/
import QKV.Lemmas.MultShape
namespace QKV.Props.C16
open QKV

/-! ## well-formed operand records (what `convert_qkeras_quantizer` can produce) -/

/-- fixed point: mode 0, at least one bit, a mode-0 class name -/
structure WFfixed (q : QRec) : Prop where
  mode : q.mode = 0
  bits : 1 ≤ q.bits
  nb : q.name.hasBinary = false
  nt : q.name.hasTernary = false
  np : q.name.hasPo2 = false
  nf : q.isFloat = false

/-- power of two: mode 1, at least one non-sign bit, po2 class name, max value none or 2^k -/
structure WFpo2 (q : QRec) : Prop where
  mode : q.mode = 1
  nsb : 1 ≤ q.bits - b2i q.signed
  name : q.name.hasPo2 = true
  nb : q.name.hasBinary = false
  nt : q.name.hasTernary = false
  nf : q.isFloat = false
  mv : q.maxValPo2 = none ∨ ∃ k : ℤ, q.maxValPo2 = some (pow2 k)

structure WFternary (q : QRec) : Prop where
  mode : q.mode = 2
  name : q.name.hasTernary = true
  signed : q.signed = true
  nf : q.isFloat = false

structure WFbinPM (q : QRec) : Prop where
  mode : q.mode = 3
  name : q.name.hasBinary = true
  nt : q.name.hasTernary = false
  signed : q.signed = true
  nf : q.isFloat = false

/-- 0/1 binary: `binary(use_01=True)`, `bernoulli`, or 1-bit `quantized_relu(1,1)` -/
structure WFbin01 (q : QRec) : Prop where
  mode : q.mode = 4
  bits : q.bits = 1
  intBits : q.intBits = 1
  signed : q.signed = false
  nf : q.isFloat = false

/-- most negative value of a signed operand type (the stated exception, read for every
    signed kind: two's-complement minimum, `−2^max_exp`, or `−1`). -/
def IsMostNeg (q : QRec) (v : ℚ) : Prop :=
  q.signed = true ∧
  match q.mode with
  | 0 => v = (fixedLo q.bits true : ℚ) * pow2 (fixedLsb q.bits q.intBits true)
  | 1 => v = - pow2 (po2MaxExpRaw q)
  | 2 => v = -1
  | 3 => v = -1
  | _ => False

/-- the excepted operand pair: both at their most negative value -/
def Exceptional (w x : QRec) (a b : ℚ) : Prop := IsMostNeg w a ∧ IsMostNeg x b

/-! ## fixed × fixed : FixedPointMultiplier -/

theorem C16_fixed_fixed (w x : QRec) (hw : WFfixed w) (hx : WFfixed x) (a b : ℚ)
    (ha : Val w a) (hb : Val x b) (hex : ¬ Exceptional w x a b) :
    ∃ o, makeMultiplier w x = some (.fixedMul, o) ∧ Val o (a * b) := by
  refine ⟨mkFixedMul w x tQuantizedBits, ?_, ?_⟩
  · simp [makeMultiplier, hw.mode, hx.mode, mulTable, mkImpl, OutTemplate.toRec]
  · have hwb := hw.bits
    have hxb := hx.bits
    simp only [Val, hw.mode, hx.mode] at ha hb
    simp only [Val, mkFixedMul, tQuantizedBits]
    refine valFixed_mul (sw := w.signed) (sx := x.signed) ?_ ?_ ?_ ?_ ?_ ha hb ?_
    · exact Bool.or_comm _ _
    · cases w.signed <;> cases x.signed <;> simp [magBits, b2i] <;> ring
    · cases w.signed <;> cases x.signed <;> simp [fixedLsb, b2i] <;> ring
    · cases w.signed <;> simp [magBits, b2i] <;> omega
    · cases x.signed <;> simp [magBits, b2i] <;> omega
    · rintro ⟨hws, hxs, rfl, rfl⟩
      apply hex
      exact ⟨⟨hws, by simp [hw.mode]⟩, ⟨hxs, by simp [hx.mode]⟩⟩


/-! ## fixed × po2 and po2 × fixed : Shifter -/

private theorem shifter_core (p q : QRec) (hq : WFfixed q) (hp : WFpo2 p) (a b : ℚ)
    (ha : Val q a) (hb : Val p b) (hex : ¬ (IsMostNeg q a ∧ IsMostNeg p b)) (o : QRec)
    (hob : o.bits = (if !q.signed && p.signed then q.bits + (getExp p).2 + (getExp p).1 + 1
                     else q.bits + (getExp p).2 + (getExp p).1))
    (hoi : o.intBits = q.intBits + (getExp p).2) (hos : o.signed = (q.signed || p.signed)) :
    ValFixed o.bits o.intBits o.signed (a * b) := by
  have hqb := hq.bits
  simp only [Val, hq.mode, hp.mode] at ha hb
  obtain ⟨e, he1, he2, hbv⟩ := hb
  have hhalf := po2Half_pos p
  have hmx : po2MaxExpRaw p ≤ (getExp p).2 := by
    simp only [getExp, imax_eq_max]; exact le_max_right _ _
  have hmx0 : 0 ≤ (getExp p).2 := by
    simp only [getExp, imax_eq_max]; exact le_max_left _ _
  have key : ∀ neg : Bool, (neg = true → p.signed = true) →
      b = (if neg then - pow2 e else pow2 e) → ValFixed o.bits o.intBits o.signed (a * b) := by
    intro neg hneg hb
    rw [hb]
    refine valFixed_mul_po2 (sq := q.signed) (sp := p.signed) (mn := (getExp p).1)
      (mx := (getExp p).2) hos ?_ ?_ ?_ (by simpa [getExp] using he1) (le_trans he2 hmx) hneg ha ?_
    · rw [hos, hob]; cases q.signed <;> cases p.signed <;> simp [magBits, b2i] <;> ring
    · rw [hos, hob, hoi]; cases q.signed <;> cases p.signed <;> simp [fixedLsb, b2i] <;> ring
    · cases q.signed <;> simp [magBits, b2i] <;> omega
    · rintro ⟨hqs, hn, hemx, hav⟩
      apply hex
      refine ⟨⟨hqs, by simp only [hq.mode]; exact hav⟩, ⟨hneg hn, ?_⟩⟩
      simp only [hp.mode]
      have : po2MaxExpRaw p = e := by
        simp only [getExp, imax_eq_max] at hemx
        rcases le_or_gt 0 (po2MaxExpRaw p) with h | h
        · rw [max_eq_right h] at hemx; omega
        · rw [max_eq_left h.le] at hemx; omega
      rw [hb, hn, this]; simp
  rcases hbv with hbv | ⟨hps, hbv⟩
  · exact key false (by simp) (by simpa using hbv)
  · exact key true (fun _ => hps) (by simpa using hbv)

theorem C16_fixed_po2 (w x : QRec) (hw : WFfixed w) (hx : WFpo2 x) (a b : ℚ)
    (ha : Val w a) (hb : Val x b) (hex : ¬ Exceptional w x a b) :
    ∃ o, makeMultiplier w x = some (.shifter, o) ∧ Val o (a * b) := by
  refine ⟨mkShifter w x tQuantizedBits, ?_, ?_⟩
  · simp [makeMultiplier, hw.mode, hx.mode, mulTable, mkImpl, OutTemplate.toRec]
  · have h := shifter_core x w hw hx a b ha hb hex (mkShifter w x tQuantizedBits)
      (by simp [mkShifter, hw.mode]) (by simp [mkShifter, hw.mode])
      (by simp [mkShifter, hw.mode])
    simpa [Val, mkShifter, hw.mode, tQuantizedBits] using h

theorem C16_po2_fixed (w x : QRec) (hw : WFpo2 w) (hx : WFfixed x) (a b : ℚ)
    (ha : Val w a) (hb : Val x b) (hex : ¬ Exceptional w x a b) :
    ∃ o, makeMultiplier w x = some (.shifter, o) ∧ Val o (a * b) := by
  refine ⟨mkShifter w x tQuantizedBits, ?_, ?_⟩
  · simp [makeMultiplier, hw.mode, hx.mode, mulTable, mkImpl, OutTemplate.toRec]
  · have h := shifter_core w x hx hw b a hb ha (fun h => hex ⟨h.2, h.1⟩)
      (mkShifter w x tQuantizedBits)
      (by simp [mkShifter, hw.mode]) (by simp [mkShifter, hw.mode])
      (by simp [mkShifter, hw.mode])
    rw [mul_comm]
    simpa [Val, mkShifter, hw.mode, tQuantizedBits] using h


/-! ## the factory never changes the `mode` of the output template -/

theorem mode_mkImpl (impl : MulImpl) (w x o : QRec) : (mkImpl impl w x o).mode = o.mode := by
  cases impl <;> simp only [mkImpl, mkFixedMul, mkShifter, mkMux, mkAnd, mkXor, mkAdder,
    mkFloatMul, po2Rename] <;> (repeat' split) <;> rfl

/-! ## ternary / ±1 / 0-1 operands with each other : Mux, XorGate, AndGate -/

theorem C16_small (w x : QRec) (hw : w.mode = 2 ∨ w.mode = 3 ∨ w.mode = 4)
    (hx : x.mode = 2 ∨ x.mode = 3 ∨ x.mode = 4) (a b : ℚ) (ha : Val w a) (hb : Val x b) :
    ∃ impl o, makeMultiplier w x = some (impl, o) ∧ Val o (a * b) := by
  rcases hw with hw | hw | hw <;> rcases hx with hx | hx | hx <;>
    simp only [Val, hw, hx] at ha hb <;>
    simp only [makeMultiplier, hw, hx, mulTable] <;>
    refine ⟨_, _, rfl, ?_⟩ <;>
    simp only [Val, mode_mkImpl, OutTemplate.toRec, tTernary, tBinary, if_true, if_false,
      Bool.false_eq_true] <;>
    rcases ha with rfl | rfl | rfl <;> rcases hb with rfl | rfl | rfl <;> norm_num

/-! ## floating point -/

theorem C16_float (w x : QRec) (hw : w.mode ≤ 5) (hx : x.mode ≤ 5) (h5 : w.mode = 5 ∨ x.mode = 5)
    (a b : ℚ) :
    ∃ o, makeMultiplier w x = some (.floatMul, o) ∧ Val o (a * b) ∧ o.isFloat = true ∧
      o.bits = imax (if x.isFloat then x.bits else 0) (if w.isFloat then w.bits else 0) := by
  have hwm : w.mode = 0 ∨ w.mode = 1 ∨ w.mode = 2 ∨ w.mode = 3 ∨ w.mode = 4 ∨ w.mode = 5 := by omega
  have hxm : x.mode = 0 ∨ x.mode = 1 ∨ x.mode = 2 ∨ x.mode = 3 ∨ x.mode = 4 ∨ x.mode = 5 := by omega
  rcases h5 with h5 | h5 <;> rcases hwm with h | h | h | h | h | h <;>
    rcases hxm with h' | h' | h' | h' | h' | h' <;>
    first
    | omega
    | (simp only [makeMultiplier, h, h', mulTable]
       refine ⟨_, rfl, ?_, ?_, ?_⟩
       · simp only [Val, mode_mkImpl, OutTemplate.toRec, tFloat]
       · simp [mkImpl, mkFloatMul]
       · simp [mkImpl, mkFloatMul])

/-! ### floating-point cells: the width rule, read on value sets

`Val` says nothing about a mode-5 record (`True`).  The statements below give the width rule of
`C16_float` its meaning: with the IEEE interchange formats as value sets (`ValFloat`), the reported
output type contains every value of every floating-point operand type, hence every product with the
factors `1`, `-1` and `0` of the other operand — which is what fails as soon as the width is taken
from the narrower operand. -/

/-- the three widths with a value set -/
def IsFloatWidth (b : ℤ) : Prop := b = 16 ∨ b = 32 ∨ b = 64

/-- a format with at least the precision and at least the exponent range holds every value -/
theorem C16_float_fmt_mono (p p' : ℕ) (emax emax' : ℤ) (hp : p ≤ p') (he : emax ≤ emax') (v : ℚ)
    (h : ValFloatFmt p emax v) : ValFloatFmt p' emax' v := by
  obtain ⟨m, e, h1, h2, h3, h4, rfl⟩ := h
  obtain ⟨k, rfl⟩ := Nat.exists_eq_add_of_le hp
  refine ⟨m * ((2 ^ k : ℕ) : ℤ), e - (k : ℤ), ?_, ?_, ?_, ?_, ?_⟩
  · have hk : (0 : ℤ) < ((2 ^ k : ℕ) : ℤ) := by positivity
    have : -(((2 ^ p : ℕ) : ℤ)) * ((2 ^ k : ℕ) : ℤ) < m * ((2 ^ k : ℕ) : ℤ) :=
      mul_lt_mul_of_pos_right h1 hk
    push_cast at this ⊢
    rw [pow_add]; linarith
  · have hk : (0 : ℤ) < ((2 ^ k : ℕ) : ℤ) := by positivity
    have : m * ((2 ^ k : ℕ) : ℤ) < ((2 ^ p : ℕ) : ℤ) * ((2 ^ k : ℕ) : ℤ) :=
      mul_lt_mul_of_pos_right h2 hk
    push_cast at this ⊢
    rw [pow_add]; linarith
  · push_cast; omega
  · push_cast; omega
  · have : pow2 e = pow2 (k : ℤ) * pow2 (e - (k : ℤ)) := by
      rw [← pow2_add]; congr 1; ring
    rw [this, pow2_natCast]; push_cast; ring

/-- value sets grow with the width: fp16 ⊆ fp32 ⊆ fp64 -/
theorem C16_float_width_mono (b b' : ℤ) (hb : IsFloatWidth b) (hb' : IsFloatWidth b') (hle : b ≤ b')
    (v : ℚ) (h : ValFloat b v) : ValFloat b' v := by
  rcases hb with rfl | rfl | rfl <;> rcases hb' with rfl | rfl | rfl <;>
    first
    | omega
    | exact h
    | (simp only [ValFloat, floatFmt] at h ⊢
       exact C16_float_fmt_mono _ _ _ _ (by norm_num) (by norm_num) v h)

/-- value sets are symmetric -/
theorem C16_float_neg (b : ℤ) (v : ℚ) (h : ValFloat b v) : ValFloat b (-v) := by
  unfold ValFloat at h ⊢
  split
  · rename_i p emax hf
    rw [hf] at h
    obtain ⟨m, e, h1, h2, h3, h4, rfl⟩ := h
    exact ⟨-m, e, by omega, by omega, h3, h4, by push_cast; ring⟩
  · trivial

/-- zero is a value of every floating-point type -/
theorem C16_float_zero (b : ℤ) : ValFloat b 0 := by
  unfold ValFloat
  split
  · rename_i p emax hf
    have hfm : IsFloatWidth b := by
      unfold floatFmt at hf
      split_ifs at hf with h1 h2 h3
      · exact Or.inl h1
      · exact Or.inr (Or.inl h2)
      · exact Or.inr (Or.inr h3)
    have hpos : (0 : ℤ) < ((2 ^ p : ℕ) : ℤ) := by positivity
    refine ⟨0, (1 - emax) - ((p : ℤ) - 1), by omega, hpos, le_rfl, ?_, by simp⟩
    rcases hfm with rfl | rfl | rfl <;> simp [floatFmt] at hf <;> obtain ⟨rfl, rfl⟩ := hf <;> norm_num
  · trivial

/-- **C16_float, value form.**  Whenever an operand is floating point the factory reports a floating
    multiplier whose output is a floating-point record, its width is the LARGER of the floating-point
    operand widths (equal to the width of the only floating operand when there is one), and — with
    IEEE value sets — the output type holds every value `a` of every floating operand type together
    with `a·1`, `a·(−1)`, `a·0`: the products with the unit factors of the other operand. -/
theorem C16_float_holds_operands (w x : QRec) (hw : w.mode ≤ 5) (hx : x.mode ≤ 5)
    (h5 : w.mode = 5 ∨ x.mode = 5)
    (hwf : w.isFloat = true ↔ w.mode = 5) (hxf : x.isFloat = true ↔ x.mode = 5)
    (hwb : w.mode = 5 → IsFloatWidth w.bits) (hxb : x.mode = 5 → IsFloatWidth x.bits) :
    ∃ o, makeMultiplier w x = some (.floatMul, o) ∧ o.isFloat = true ∧ IsFloatWidth o.bits ∧
      (w.mode = 5 → x.mode = 5 → o.bits = max w.bits x.bits) ∧
      (w.mode = 5 → x.mode ≠ 5 → o.bits = w.bits) ∧
      (w.mode ≠ 5 → x.mode = 5 → o.bits = x.bits) ∧
      (w.mode = 5 → ∀ a, ValFloat w.bits a →
          ValFloat o.bits (a * 1) ∧ ValFloat o.bits (a * (-1)) ∧ ValFloat o.bits (a * 0)) ∧
      (x.mode = 5 → ∀ b, ValFloat x.bits b →
          ValFloat o.bits (1 * b) ∧ ValFloat o.bits ((-1) * b) ∧ ValFloat o.bits (0 * b)) := by
  obtain ⟨o, hmk, -, hof, hob⟩ := C16_float w x hw hx h5 0 0
  rw [imax_eq_max] at hob
  have hpos : ∀ b, IsFloatWidth b → 0 < b := by rintro b (rfl | rfl | rfl) <;> norm_num
  -- the width in the three situations
  have hww : w.mode = 5 → x.mode = 5 → o.bits = max w.bits x.bits := by
    intro h1 h2
    rw [hob, if_pos (hxf.2 h2), if_pos (hwf.2 h1), max_comm]
  have hwo : w.mode = 5 → x.mode ≠ 5 → o.bits = w.bits := by
    intro h1 h2
    have : x.isFloat = false := by
      cases hxx : x.isFloat with
      | false => rfl
      | true => exact absurd (hxf.1 hxx) h2
    rw [hob, this, if_pos (hwf.2 h1)]
    simp only [Bool.false_eq_true, if_false]
    exact max_eq_right (hpos _ (hwb h1)).le
  have hxo : w.mode ≠ 5 → x.mode = 5 → o.bits = x.bits := by
    intro h1 h2
    have : w.isFloat = false := by
      cases hww' : w.isFloat with
      | false => rfl
      | true => exact absurd (hwf.1 hww') h1
    rw [hob, this, if_pos (hxf.2 h2)]
    simp only [Bool.false_eq_true, if_false]
    exact max_eq_left (hpos _ (hxb h2)).le
  have hwidth : IsFloatWidth o.bits := by
    by_cases h1 : w.mode = 5 <;> by_cases h2 : x.mode = 5
    · rw [hww h1 h2]
      rcases le_total w.bits x.bits with h | h
      · rw [max_eq_right h]; exact hxb h2
      · rw [max_eq_left h]; exact hwb h1
    · rw [hwo h1 h2]; exact hwb h1
    · rw [hxo h1 h2]; exact hxb h2
    · omega
  have hge_w : w.mode = 5 → w.bits ≤ o.bits := by
    intro h1
    by_cases h2 : x.mode = 5
    · rw [hww h1 h2]; exact le_max_left _ _
    · rw [hwo h1 h2]
  have hge_x : x.mode = 5 → x.bits ≤ o.bits := by
    intro h2
    by_cases h1 : w.mode = 5
    · rw [hww h1 h2]; exact le_max_right _ _
    · rw [hxo h1 h2]
  refine ⟨o, hmk, hof, hwidth, hww, hwo, hxo, ?_, ?_⟩
  · intro h1 a ha
    have := C16_float_width_mono _ _ (hwb h1) hwidth (hge_w h1) a ha
    refine ⟨by simpa using this, by simpa using C16_float_neg _ _ this, by simpa using C16_float_zero _⟩
  · intro h2 b hb
    have := C16_float_width_mono _ _ (hxb h2) hwidth (hge_x h2) b hb
    refine ⟨by simpa using this, by simpa using C16_float_neg _ _ this, by simpa using C16_float_zero _⟩

/-- Why the width must be the LARGER one (regression witness for "the weight decides the width"):
    `65536 = 2^16` is an fp32 value, `1` is an fp16 value, their product is no fp16 value (the largest
    finite fp16 magnitude is 65504), while the factory's answer for fp16 weights × fp32 inputs is a
    32-bit record that holds it. -/
theorem C16_float_narrow_width_witness :
    ValFloat 16 1 ∧ ValFloat 32 65536 ∧ ¬ ValFloat 16 (1 * 65536) ∧
    (∃ o, makeMultiplier (tFloat 16) (tFloat 32) = some (.floatMul, o) ∧ o.bits = 32 ∧
      ValFloat o.bits (1 * 65536)) ∧
    (∃ o, makeMultiplier (tFloat 32) (tFloat 16) = some (.floatMul, o) ∧ o.bits = 32) := by
  have h1 : ValFloat 16 1 := ⟨1, 0, by norm_num, by norm_num, by norm_num, by norm_num, by simp [pow2]⟩
  have h2 : ValFloat 32 65536 :=
    ⟨1, 16, by norm_num, by norm_num, by norm_num, by norm_num, by simp [pow2]⟩
  refine ⟨h1, h2, ?_, ⟨_, rfl, by decide, by simpa [mkImpl, mkFloatMul, tFloat, imax,
    OutTemplate.toRec] using h2⟩, ⟨_, rfl, by decide⟩⟩
  rintro ⟨m, e, hm1, hm2, he1, he2, hv⟩
  have hm2' : (m : ℚ) < 2048 := by exact_mod_cast hm2
  have hp5 : pow2 e ≤ pow2 5 := pow2_le_pow2 (by norm_num at he2 ⊢; omega)
  have hp5' : pow2 5 = 32 := by simp [pow2]
  have hpe : 0 < pow2 e := pow2_pos e
  have : (m : ℚ) * pow2 e < 65536 := by
    by_cases hm0 : (m : ℚ) ≤ 0
    · have : (m : ℚ) * pow2 e ≤ 0 := mul_nonpos_of_nonpos_of_nonneg hm0 hpe.le
      linarith
    · push_neg at hm0
      calc (m : ℚ) * pow2 e ≤ (m : ℚ) * 32 := by rw [← hp5']; exact mul_le_mul_of_nonneg_left hp5 hm0.le
        _ < 2048 * 32 := by linarith
        _ = 65536 := by norm_num
  norm_num at hv
  linarith

/-! ## histories on one impl object: re-conversion

`convertOnto` is `convert_qkeras_quantizer` on an object that already went through conversions.
For every class each conversion rewrites all fields that depend on the quantizer, so the record after
ANY history is the record of a fresh conversion of the last quantizer — in particular a po2 object
converted from a capped and then from an uncapped quantizer carries no cap, and (since the repair of
C16-relu-reconvert-sign: `QuantizedRelu.convert_qkeras_quantizer` now assigns `is_signed` instead of only
ever setting it) a relu object converted from a leaky and then from a plain relu is unsigned again. -/

/-- a first conversion on a freshly constructed object is `ofQuantizer` (every class) -/
theorem C16_convert_fresh (q : QKerasQ) (f : QRec) (hf : freshOf q.cls = some f) :
    convertOnto f q = ofQuantizer q := by
  unfold freshOf at hf
  unfold convertOnto ofQuantizer
  split at hf
  all_goals first
    | (rename_i hq; injection hf with hf; subst hf; (try simp only [hq])
       all_goals first | rfl | (cases q.use01 <;> rfl) | (cases q.negSlopeNonzero <;> rfl))
    | (cases hf)

/-- re-conversion: after a conversion from `q`, a conversion from `q2` of the same class gives the
    record of a fresh conversion of `q2` (EVERY class; the exception `quantized_relu` fell with the
    repair of C16-relu-reconvert-sign) -/
theorem C16_reconvert_step (q q2 : QKerasQ) (hc : q2.cls = q.cls)
    (r : QRec) (h : ofQuantizer q = some r) : convertOnto r q2 = ofQuantizer q2 := by
  unfold ofQuantizer at h
  unfold convertOnto ofQuantizer
  rw [hc]
  split at h
  all_goals first
    | (rename_i hq; injection h with h; subst h; (try simp only [hq])
       all_goals first | rfl | (cases q2.use01 <;> cases q.use01 <;> rfl))
    | (cases h)

/-- every class the factory knows has a constructor state and a conversion -/
theorem ofQuantizer_isSome_of_fresh (q : QKerasQ) (h : (freshOf q.cls).isSome) :
    (ofQuantizer q).isSome := by
  unfold freshOf at h
  unfold ofQuantizer
  split at h <;> simp_all

/-- **any history**: on one impl object of ANY class the factory knows, after an arbitrary
    sequence of conversions the record is the one a FRESH object gets from the last quantizer.  (A
    `PowerOfTwo` object converted from `quantized_po2(b, max_value=M)` and then from
    `quantized_po2(b)` carries no cap: `ofQuantizer` of the latter has `maxValPo2 = none`; a
    `QuantizedRelu` object converted from a leaky and then from a plain relu is unsigned.)  The
    hypothesis `cls ≠ "quantized_relu"` was dropped with the repair of C16-relu-reconvert-sign. -/
theorem C16_reconvert_history (cls : String)
    (hcls : (freshOf cls).isSome) (qs : List QKerasQ) (q : QKerasQ)
    (hall : ∀ x ∈ qs ++ [q], x.cls = cls) :
    convertHistory cls (qs ++ [q]) = ofQuantizer q := by
  induction qs using List.reverseRecOn generalizing q with
  | nil =>
    have hq : q.cls = cls := hall q (by simp)
    obtain ⟨f, hf⟩ := Option.isSome_iff_exists.mp hcls
    simp only [convertHistory, List.nil_append, List.foldl_cons, List.foldl_nil, hf, hq, if_true]
    exact C16_convert_fresh q f (hq ▸ hf)
  | append_singleton qs p ih =>
    have hq : q.cls = cls := hall q (by simp)
    have hp : p.cls = cls := hall p (by simp)
    have ihp := ih p (fun x hx => hall x (by
      simp only [List.mem_append, List.mem_singleton] at hx ⊢
      rcases hx with hx | hx
      · exact Or.inl (Or.inl hx)
      · exact Or.inl (Or.inr hx)))
    have hsome : (ofQuantizer p).isSome := ofQuantizer_isSome_of_fresh p (hp ▸ hcls)
    obtain ⟨r, hrp⟩ := Option.isSome_iff_exists.mp hsome
    unfold convertHistory at ihp ⊢
    rw [List.foldl_append, ihp, hrp]
    simp only [List.foldl_cons, List.foldl_nil, hq, if_true]
    exact C16_reconvert_step p q (hq.trans hp.symm) r hrp

/-- REGRESSION WITNESS (former findings C16-relu-reconvert-sign / -product, repaired).  One
    `QuantizedRelu` object converted from `quantized_relu(4, 1, negative_slope=0.25)` and then from
    `quantized_relu(4, 1)`: the record used to keep "signed" (4 bits, 1 integer bit, lsb 2^-2, codes
    −8…7) where a fresh conversion says unsigned (lsb 2^-3, codes 0…15), so the value 1/8, which
    `quantized_relu(4,1)` emits, was no value of the re-converted record and every multiplier built
    from the reused object was sized for the wrong lattice.  Now the history ends in the fresh record,
    which holds 1/8; the old record (`stale`) is shown not to. -/
theorem C16_reconvert_relu_fixed_witness :
    let a : QKerasQ := { cls := "quantized_relu", bits := 4, integer := 1, negSlopeNonzero := true }
    let b : QKerasQ := { cls := "quantized_relu", bits := 4, integer := 1, negSlopeNonzero := false }
    let fresh : QRec := { mode := 0, name := .quantized_relu, bits := 4, intBits := 1, signed := false,
                          isFloat := false, isPo2 := false, maxValPo2 := none, use01 := false }
    let stale : QRec := { fresh with signed := true }
    convertHistory "quantized_relu" [a, b] = some fresh ∧ ofQuantizer b = some fresh ∧
      convertHistory "quantized_relu" [a] = some stale ∧
      stale ≠ fresh ∧ Val fresh (1 / 8) ∧ ¬ Val stale (1 / 8) := by
  refine ⟨by decide, by decide, by decide, by decide, ?_, ?_⟩
  · exact ⟨1, by decide, by decide, by simp [fixedLsb, b2i, pow2]⟩
  · rintro ⟨k, _, _, hk⟩
    have hl : fixedLsb 4 1 true = -2 := by decide
    simp only [hl] at hk
    have h4 : pow2 (-2) = 1 / 4 := by rw [pow2_eq_zpow]; norm_num
    rw [h4] at hk
    have h2 : ((2 * k : ℤ) : ℚ) = 1 := by push_cast; linarith
    have h3 : (2 * k : ℤ) = 1 := by exact_mod_cast h2
    omega

/-- non-vacuity of `C16_reconvert_history` for the class that used to be excluded -/
example : convertHistory "quantized_relu"
    [{ cls := "quantized_relu", bits := 4, integer := 1, negSlopeNonzero := true },
     { cls := "quantized_relu", bits := 6, integer := 2, negSlopeNonzero := false }] =
    ofQuantizer { cls := "quantized_relu", bits := 6, integer := 2, negSlopeNonzero := false } :=
  C16_reconvert_history "quantized_relu" (by decide) [_] _ (by simp)

/-! ## fixed × (ternary | ±1 binary) : Mux -/

private theorem mux_unit_core (q : QRec) (hq : WFfixed q) (a u : ℚ) (ha : Val q a)
    (hu : u = -1 ∨ u = 0 ∨ u = 1) (hex : ¬ (IsMostNeg q a ∧ u = -1)) (o : QRec)
    (hob : o.bits = if !q.signed then q.bits + 1 else q.bits)
    (hoi : o.intBits = q.intBits) (hos : o.signed = true) :
    ValFixed o.bits o.intBits o.signed (a * u) := by
  have hqb := hq.bits
  simp only [Val, hq.mode] at ha
  have key : ∀ neg : Bool, u = (if neg then - pow2 0 else pow2 0) →
      ValFixed o.bits o.intBits o.signed (a * u) := by
    intro neg hb
    rw [hb]
    refine valFixed_mul_po2 (sq := q.signed) (sp := true) (mn := 0) (mx := 0)
      (by rw [hos]; simp) ?_ ?_ ?_ (by simp) (by simp) (fun _ => rfl) ha ?_
    · rw [hos, hob]; cases q.signed <;> simp [magBits, b2i]
    · rw [hos, hob, hoi]; cases q.signed <;> simp [fixedLsb, b2i]
    · cases q.signed <;> simp [magBits, b2i] <;> omega
    · rintro ⟨hqs, hn, _, hav⟩
      apply hex
      refine ⟨⟨hqs, by simp only [hq.mode]; exact hav⟩, ?_⟩
      rw [hb, hn]; simp [pow2_zero]
  rcases hu with rfl | rfl | rfl
  · exact key true (by simp [pow2_zero])
  · rw [mul_zero]; exact valFixed_zero
  · exact key false (by simp [pow2_zero])

private theorem unit_of_val {x : QRec} (hx : x.mode = 2 ∨ x.mode = 3) {b : ℚ} (hb : Val x b) :
    b = -1 ∨ b = 0 ∨ b = 1 := by
  rcases hx with hx | hx <;> simp only [Val, hx] at hb
  · exact hb
  · rcases hb with h | h
    · exact Or.inl h
    · exact Or.inr (Or.inr h)

private theorem mostNeg_unit {x : QRec} (hx : x.mode = 2 ∨ x.mode = 3) (hs : x.signed = true)
    {b : ℚ} (hb : b = -1) : IsMostNeg x b := by
  rcases hx with hx | hx <;> exact ⟨hs, by simp only [hx]; exact hb⟩

theorem C16_fixed_unit (w x : QRec) (hw : WFfixed w) (hx : WFternary x ∨ WFbinPM x) (a b : ℚ)
    (ha : Val w a) (hb : Val x b) (hex : ¬ Exceptional w x a b) :
    ∃ o, makeMultiplier w x = some (.mux, o) ∧ Val o (a * b) := by
  have hxm : x.mode = 2 ∨ x.mode = 3 := by
    rcases hx with h | h
    · exact Or.inl h.mode
    · exact Or.inr h.mode
  have hxs : x.signed = true := by rcases hx with h | h <;> exact h.signed
  have hwn : (w.name.hasBinary || w.name.hasTernary) = false := by simp [hw.nb, hw.nt]
  refine ⟨mkMux w x tQuantizedBits, ?_, ?_⟩
  · rcases hxm with h | h <;>
      simp [makeMultiplier, hw.mode, h, mulTable, mkImpl, OutTemplate.toRec]
  · have hu := unit_of_val hxm hb
    have h := mux_unit_core w hw a b ha hu (fun h => hex ⟨h.1, mostNeg_unit hxm hxs h.2⟩)
      (mkMux w x tQuantizedBits)
      (by rw [mkMux_qbits_wother w x hwn]; simp [hxs])
      (by rw [mkMux_qbits_wother w x hwn])
      (by rw [mkMux_qbits_wother w x hwn]; simp [hxs])
    have hmode : (mkMux w x tQuantizedBits).mode = 0 := mode_mkImpl .mux w x tQuantizedBits
    simpa only [Val, hmode] using h

theorem C16_unit_fixed (w x : QRec) (hw : WFternary w ∨ WFbinPM w) (hx : WFfixed x) (a b : ℚ)
    (ha : Val w a) (hb : Val x b) (hex : ¬ Exceptional w x a b) :
    ∃ o, makeMultiplier w x = some (.mux, o) ∧ Val o (a * b) := by
  have hwm : w.mode = 2 ∨ w.mode = 3 := by
    rcases hw with h | h
    · exact Or.inl h.mode
    · exact Or.inr h.mode
  have hws : w.signed = true := by rcases hw with h | h <;> exact h.signed
  have hwn : (w.name.hasBinary || w.name.hasTernary) = true := by
    rcases hw with h | h
    · simp [h.name]
    · simp [h.name]
  refine ⟨mkMux w x tQuantizedBits, ?_, ?_⟩
  · rcases hwm with h | h <;>
      simp [makeMultiplier, hx.mode, h, mulTable, mkImpl, OutTemplate.toRec]
  · have hu := unit_of_val hwm ha
    have h := mux_unit_core x hx b a hb hu (fun h => hex ⟨mostNeg_unit hwm hws h.2, h.1⟩)
      (mkMux w x tQuantizedBits)
      (by rw [mkMux_qbits_wunit w x hwn]; simp [hws])
      (by rw [mkMux_qbits_wunit w x hwn])
      (by rw [mkMux_qbits_wunit w x hwn]; simp [hws])
    have hmode : (mkMux w x tQuantizedBits).mode = 0 := mode_mkImpl .mux w x tQuantizedBits
    rw [mul_comm]
    simpa only [Val, hmode] using h

/-! ## fixed × 0/1 binary : AndGate -/

theorem C16_fixed_bin01 (w x : QRec) (hw : WFfixed w) (hx : WFbin01 x) (a b : ℚ)
    (ha : Val w a) (hb : Val x b) :
    ∃ o, makeMultiplier w x = some (.andGate, o) ∧ Val o (a * b) := by
  refine ⟨mkAnd w x tQuantizedBits, ?_, ?_⟩
  · simp [makeMultiplier, hw.mode, hx.mode, mulTable, mkImpl, OutTemplate.toRec]
  · have hmode : (mkAnd w x tQuantizedBits).mode = 0 := mode_mkImpl .andGate w x tQuantizedBits
    have hwn : ¬ (w.mode = 4) := by rw [hw.mode]; decide
    have hwb := hw.bits
    simp only [Val, hw.mode, hx.mode] at ha hb
    simp only [Val, hmode, mkAnd_qbits, hwn, if_false, hx.bits, hx.signed, Bool.false_or]
    have hb1 : imax 1 w.bits = w.bits := by rw [imax_eq_max]; omega
    rw [hb1]
    rcases hb with rfl | rfl
    · rw [mul_zero]; exact valFixed_zero
    · rw [mul_one]; exact ha

/-- any 0/1 weight type (`binary(use_01=True)`, `bernoulli`, 1-bit `quantized_relu`) with a
    fixed-point input.  Before the repair "fix: AndGate takes int_bits from the input for every
    0/1 weight type" this held only for the class name `binary`. -/
theorem C16_bin01_fixed (w x : QRec) (hw : WFbin01 w) (hx : WFfixed x) (a b : ℚ)
    (ha : Val w a) (hb : Val x b) :
    ∃ o, makeMultiplier w x = some (.andGate, o) ∧ Val o (a * b) := by
  refine ⟨mkAnd w x tQuantizedBits, ?_, ?_⟩
  · simp [makeMultiplier, hw.mode, hx.mode, mulTable, mkImpl, OutTemplate.toRec]
  · have hmode : (mkAnd w x tQuantizedBits).mode = 0 := mode_mkImpl .andGate w x tQuantizedBits
    have hxb := hx.bits
    simp only [Val, hw.mode, hx.mode] at ha hb
    simp only [Val, hmode, mkAnd_qbits, hw.mode, if_true, hw.bits, hw.signed, Bool.or_false]
    have hb1 : imax x.bits 1 = x.bits := by rw [imax_eq_max]; omega
    rw [hb1]
    rcases ha with rfl | rfl
    · rw [zero_mul]; exact valFixed_zero
    · rw [one_mul]; exact hb

/-- regression witness of the repaired defect: `bernoulli × quantized_bits(8,0,1)` now reports
    the input's type `(8, 0, signed)` and holds the product 1 · 2^-7. -/
theorem C16_and_intbits_fixed_witness :
    let w : QRec := { tBinary true with name := .bernoulli }
    let x : QRec := { tQuantizedBits with bits := 8, intBits := 0, signed := true }
    ∃ o, makeMultiplier w x = some (.andGate, o) ∧ o.bits = 8 ∧ o.intBits = 0 := by
  exact ⟨_, rfl, rfl, rfl⟩

/-! ## po2 × po2 : Adder (of exponents) -/

private theorem raw_of_mv {q : QRec} (h : q.maxValPo2 = none ∨ ∃ k : ℤ, q.maxValPo2 = some (pow2 k)) :
    (q.maxValPo2 = none ∧ po2MaxExpRaw q = po2Half q - 1) ∨
    (∃ k : ℤ, q.maxValPo2 = some (pow2 k) ∧ po2MaxExpRaw q = min k (po2Half q - 1)) := by
  rcases h with h | ⟨k, h⟩
  · left; exact ⟨h, by simp [po2MaxExpRaw, h]⟩
  · right
    refine ⟨k, h, ?_⟩
    have : ¬ pow2 k ≤ 0 := not_le.mpr (pow2_pos k)
    simp [po2MaxExpRaw, h, this, ceilLog2Rat_pow2, imin_eq_min]

theorem C16_po2_po2 (w x : QRec) (hw : WFpo2 w) (hx : WFpo2 x) (a b : ℚ)
    (ha : Val w a) (hb : Val x b) :
    ∃ o, makeMultiplier w x = some (.adder, o) ∧ Val o (a * b) := by
  refine ⟨mkAdder w x tPowerOfTwo, ?_, ?_⟩
  · simp [makeMultiplier, hw.mode, hx.mode, mulTable, mkImpl, OutTemplate.toRec]
  · have hmode : (mkAdder w x tPowerOfTwo).mode = 1 := mode_mkImpl .adder w x tPowerOfTwo
    simp only [Val, hw.mode, hx.mode] at ha hb
    simp only [Val, hmode]
    obtain ⟨e1, ha1, ha2, hav⟩ := ha
    obtain ⟨e2, hb1, hb2, hbv⟩ := hb
    set o := mkAdder w x tPowerOfTwo with ho
    have hob : o.bits = imax (x.bits - b2i x.signed) (w.bits - b2i w.signed) + 1
        + b2i (x.signed || w.signed) := by rw [ho, mkAdder_po2]
    have hos : o.signed = (x.signed || w.signed) := by rw [ho, mkAdder_po2]
    have hom : o.maxValPo2 = mulMaxVal x.maxValPo2 w.maxValPo2 := by rw [ho, mkAdder_po2]
    -- exponent range of the output
    have hhalf : po2Half w + po2Half x ≤ po2Half o := by
      rw [po2Half_eq, po2Half_eq, po2Half_eq, hob, hos]
      exact tp_add_le hw.nsb hx.nsb (by rw [imax_eq_max, max_comm]; omega)
    have hraw : po2MaxExpRaw w + po2MaxExpRaw x ≤ po2MaxExpRaw o := by
      have hw' := po2MaxExpRaw_le w
      have hx' := po2MaxExpRaw_le x
      rcases raw_of_mv hw.mv with ⟨hwm, hwr⟩ | ⟨kw, hwm, hwr⟩ <;>
        rcases raw_of_mv hx.mv with ⟨hxm, hxr⟩ | ⟨kx, hxm, hxr⟩
      · have : po2MaxExpRaw o = po2Half o - 1 := by simp [po2MaxExpRaw, hom, hwm, hxm, mulMaxVal]
        omega
      · have : po2MaxExpRaw o = po2Half o - 1 := by simp [po2MaxExpRaw, hom, hwm, hxm, mulMaxVal]
        omega
      · have : po2MaxExpRaw o = po2Half o - 1 := by simp [po2MaxExpRaw, hom, hwm, hxm, mulMaxVal]
        omega
      · have hm : o.maxValPo2 = some (pow2 (kx + kw)) := by
          rw [hom, hwm, hxm]; simp [mulMaxVal, pow2_add]
        rcases raw_of_mv (Or.inr ⟨_, hm⟩) with ⟨h, _⟩ | ⟨k, h1, h2⟩
        · rw [hm] at h; cases h
        · rw [hm] at h1
          have hk : k = kx + kw := (pow2_injective (Option.some.inj h1)).symm
          rw [h2, hk, hwr, hxr]
          have := min_le_left kw (po2Half w - 1)
          have := min_le_left kx (po2Half x - 1)
          have := min_le_right kw (po2Half w - 1)
          have := min_le_right kx (po2Half x - 1)
          exact le_min (by omega) (by omega)
    refine ⟨e1 + e2, by omega, by omega, ?_⟩
    rw [pow2_add]
    rcases hav with rfl | ⟨hws, rfl⟩ <;> rcases hbv with rfl | ⟨hxs, rfl⟩
    · left; ring
    · right; exact ⟨by rw [hos, hxs]; rfl, by ring⟩
    · right; exact ⟨by rw [hos, hws]; simp, by ring⟩
    · left; ring

/-- regression witness of the repaired defect ("fix: po2*po2 Adder sizes the exponent from
    non-sign bits"): `quantized_po2(4) × quantized_relu_po2(4)` is now a 6-bit signed po2 type
    (exponents −16…15) and holds 2^-4 · 2^-8 = 2^-12; before the repair it was 5 bits (−8…7). -/
theorem C16_adder_mixed_sign_fixed_witness :
    let w : QRec := { tPowerOfTwo with bits := 4, intBits := 4, signed := true }
    let x : QRec := { tPowerOfTwo with name := .quantized_relu_po2, bits := 4, intBits := 4,
                                       signed := false }
    ∃ o, makeMultiplier w x = some (.adder, o) ∧ o.bits = 6 ∧ po2Half o = 16 := by
  exact ⟨_, rfl, by decide, by decide⟩

/-! ## po2 × (ternary | ±1 | 0/1) : Mux / AndGate with a po2 output type -/

/-- every NON-ZERO product of a po2 value with −1/0/1 is in the reported po2 type -/
theorem C16_po2_unit_nonzero (w x : QRec) (hw : WFpo2 w)
    (hx : WFternary x ∨ WFbinPM x ∨ WFbin01 x) (a b : ℚ) (ha : Val w a) (hb : Val x b)
    (hnz : b ≠ 0) :
    ∃ impl o, makeMultiplier w x = some (impl, o) ∧ Val o (a * b) := by
  have hwn : (w.name.hasBinary || w.name.hasTernary) = false := by simp [hw.nb, hw.nt]
  have hwnb : ¬ (w.name = .binary ∧ w.use01 = true) := by
    rintro ⟨h, _⟩; have := hw.nb; rw [h] at this; simp [QName.hasBinary] at this
  simp only [Val, hw.mode] at ha
  rcases hx with hx | hx | hx
  · refine ⟨.mux, mkMux w x tPowerOfTwo, by
      simp [makeMultiplier, hw.mode, hx.mode, mulTable, mkImpl, OutTemplate.toRec], ?_⟩
    have hmode : (mkMux w x tPowerOfTwo).mode = 1 := mode_mkImpl .mux w x tPowerOfTwo
    simp only [Val, hx.mode] at hb
    simp only [Val, hmode]
    have hsame : ValPo2 (mkMux w x tPowerOfTwo) a := by
      refine valPo2_of_same ?_ ?_ ?_ ha <;> rw [mkMux_po2_wpo2 w x hwn hw.name] <;>
        cases w.signed <;> simp [hx.signed, b2i]
    have hs : (mkMux w x tPowerOfTwo).signed = true := by
      rw [mkMux_po2_wpo2 w x hwn hw.name]; simp [hx.signed]
    rcases hb with rfl | rfl | rfl
    · rw [mul_neg, mul_one]; exact valPo2_neg hs hsame
    · exact absurd rfl hnz
    · rw [mul_one]; exact hsame
  · refine ⟨.mux, mkMux w x tPowerOfTwo, by
      simp [makeMultiplier, hw.mode, hx.mode, mulTable, mkImpl, OutTemplate.toRec], ?_⟩
    have hmode : (mkMux w x tPowerOfTwo).mode = 1 := mode_mkImpl .mux w x tPowerOfTwo
    simp only [Val, hx.mode] at hb
    simp only [Val, hmode]
    have hsame : ValPo2 (mkMux w x tPowerOfTwo) a := by
      refine valPo2_of_same ?_ ?_ ?_ ha <;> rw [mkMux_po2_wpo2 w x hwn hw.name] <;>
        cases w.signed <;> simp [hx.signed, b2i]
    have hs : (mkMux w x tPowerOfTwo).signed = true := by
      rw [mkMux_po2_wpo2 w x hwn hw.name]; simp [hx.signed]
    rcases hb with rfl | rfl
    · rw [mul_neg, mul_one]; exact valPo2_neg hs hsame
    · rw [mul_one]; exact hsame
  · refine ⟨.andGate, mkAnd w x tPowerOfTwo, by
      simp [makeMultiplier, hw.mode, hx.mode, mulTable, mkImpl, OutTemplate.toRec], ?_⟩
    have hmode : (mkAnd w x tPowerOfTwo).mode = 1 := mode_mkImpl .andGate w x tPowerOfTwo
    simp only [Val, hx.mode] at hb
    simp only [Val, hmode]
    have hwb : 1 ≤ w.bits := by have := hw.nsb; cases w.signed <;> simp [b2i] at this <;> omega
    have hb1 : imax 1 w.bits = w.bits := by rw [imax_eq_max]; omega
    have hsame : ValPo2 (mkAnd w x tPowerOfTwo) a := by
      refine valPo2_of_same ?_ ?_ ?_ ha <;> rw [mkAnd_po2] <;>
        simp [hx.signed, hx.bits, hb1, hw.name]
    rcases hb with rfl | rfl
    · exact absurd rfl hnz
    · rw [mul_one]; exact hsame

/-- COUNTEREXAMPLE (known finding C16-po2-zero): a po2 output type has no code for 0, so the
    product `2^e · 0` of a po2 weight with a ternary (or 0/1) input is not representable in the
    type the factory reports — the "zero is always representable" clause fails for these cells. -/
theorem C16_po2_zero_counterexample :
    let w : QRec := { tPowerOfTwo with bits := 4, intBits := 4, signed := true }
    Val w 1 ∧ Val tTernary 0 ∧ Val (tBinary true) 0 ∧
    (∃ o, makeMultiplier w tTernary = some (.mux, o) ∧ ¬ Val o (1 * 0)) ∧
    (∃ o, makeMultiplier w (tBinary true) = some (.andGate, o) ∧ ¬ Val o (1 * 0)) := by
  refine ⟨⟨0, by decide, by decide, Or.inl (by simp [pow2])⟩, by simp [Val, tTernary],
    by simp [Val, tBinary], ⟨_, rfl, ?_⟩, ⟨_, rfl, ?_⟩⟩ <;>
  · rintro ⟨e, _, _, h3⟩
    have := pow2_pos e
    rcases h3 with h3 | ⟨_, h3⟩ <;> linarith

/-! ## zero is representable wherever the output type is not po2 -/

theorem C16_zero (w x : QRec) (impl : MulImpl) (o : QRec)
    (h : makeMultiplier w x = some (impl, o)) (hm : o.mode ≠ 1) (hm3 : o.mode ≠ 3) :
    Val o 0 := by
  unfold Val
  split
  · exact valFixed_zero
  · rename_i h1; exact absurd h1 hm
  · simp
  · rename_i h3; exact absurd h3 hm3
  · simp
  · trivial

/-! ## implementation kind -/

/-- the table entry is the kind the operand kinds call for (all 36 cells) -/
theorem C16_impl_kind (wm xm : Nat) (hw : wm ≤ 5) (hx : xm ≤ 5) :
    (mulTable wm xm).map (·.1) = some (specImpl wm xm) := by
  have hwm : wm = 0 ∨ wm = 1 ∨ wm = 2 ∨ wm = 3 ∨ wm = 4 ∨ wm = 5 := by omega
  have hxm : xm = 0 ∨ xm = 1 ∨ xm = 2 ∨ xm = 3 ∨ xm = 4 ∨ xm = 5 := by omega
  rcases hwm with rfl | rfl | rfl | rfl | rfl | rfl <;>
    rcases hxm with rfl | rfl | rfl | rfl | rfl | rfl <;> rfl

theorem C16_impl_kind_factory (w x : QRec) (hw : w.mode ≤ 5) (hx : x.mode ≤ 5) :
    ∃ o, makeMultiplier w x = some (specImpl w.mode x.mode, o) := by
  have h := C16_impl_kind w.mode x.mode hw hx
  unfold makeMultiplier
  rcases hm : mulTable w.mode x.mode with _ | ⟨impl, t⟩
  · rw [hm] at h; cases h
  · rw [hm] at h
    simp only [Option.map_some, Option.some.injEq] at h
    exact ⟨_, by rw [h]⟩

/-! ## non-vacuity: concrete operands meeting the hypotheses -/

example : WFfixed { tQuantizedBits with bits := 8, intBits := 0, signed := true } :=
  ⟨rfl, by decide, rfl, rfl, rfl, rfl⟩
example : WFpo2 { tPowerOfTwo with bits := 4, intBits := 4, signed := true,
                                   maxValPo2 := some (pow2 2) } :=
  ⟨rfl, by decide, rfl, rfl, rfl, rfl, Or.inr ⟨2, rfl⟩⟩
/-- the hypotheses of `C16_float_holds_operands` are met by the records qtools builds for "fp16" / "fp32" -/
example : (tFloat 16).mode ≤ 5 ∧ ((tFloat 16).isFloat = true ↔ (tFloat 16).mode = 5) ∧
    ((tFloat 16).mode = 5 → IsFloatWidth (tFloat 16).bits) ∧ IsFloatWidth (tFloat 32).bits ∧
    ((tQuantizedBits).isFloat = true ↔ (tQuantizedBits).mode = 5) := by
  refine ⟨by decide, by decide, fun _ => Or.inl rfl, Or.inr (Or.inl rfl), by decide⟩
example : ValFloat 32 (1 + 1 / 8388608) ∧ ValFloat 16 (65504) :=
  ⟨⟨8388609, -23, by norm_num, by norm_num, by norm_num, by norm_num,
    by rw [pow2_eq_zpow]; norm_num⟩,
   ⟨2047, 5, by norm_num, by norm_num, by norm_num, by norm_num, by rw [pow2_eq_zpow]; norm_num⟩⟩
example : WFternary tTernary := ⟨rfl, rfl, rfl, rfl⟩
example : WFbinPM (tBinary false) := ⟨rfl, rfl, rfl, rfl, rfl⟩
example : WFbin01 (tBinary true) := ⟨rfl, rfl, rfl, rfl, rfl⟩
example : Val { tQuantizedBits with bits := 8, intBits := 0, signed := true } (-1) :=
  ⟨-128, by decide, by decide, by simp [fixedLsb, b2i, tQuantizedBits, pow2]⟩

end QKV.Props.C16
