/-
  C15 — Batch-norm folding and unfolding preserve the network function at inference.

  "In inference mode a folded convolution+batch-norm layer without quantizers computes the same
   output as the convolution followed by batch normalisation with the same parameters, for both
   folding modes, and with quantizers it computes the convolution with the quantized folded kernel
   plus the quantized folded bias, where folded kernel = kernel*gamma/sqrt(var+eps) and folded bias
   = (bias-mean)*gamma/sqrt(var+eps)+beta.  Replacing folded layers by plain quantized layers
   (unfolding) and converting a conv+BN model to a folded model both leave inference predictions
   unchanged."

  All statements are over ℚ, for every geometry (batch, extent, kernel, strides, dilation, padding,
  channel counts, depth multiplier), every tensor content and every value of the `rsqrt` oracle `rs`
  (so in particular for the real 1/sqrt).  PARTIAL: the float32 rounding of the fold
  (`inv*kernel` rounded before the convolution instead of the convolution output being scaled) is
  not visible over ℚ; the harness bounds it (2 ulp × fan-in) on the real code.

  Fixed (d42f1d8): center=False used to raise (`inv * (bias - mean) + beta` with
  `beta = None`); with `if beta is None: beta = 0.` the folded layers are total and equal
  conv → BatchNormalization(center=False) (C15_callable, C15_center_false_regression; C15_fold_identity
  has no hypothesis on beta any more).

  Fixed (90019a5): QConv2DBatchnorm accepted `data_format` and did not forward it to QConv2D, so
  the layer took the process-wide image data format whatever was asked for.  Both constructors now
  build the requested layout, an omitted argument meaning the process-wide format (§8:
  C15_ctor_data_format, C15_ctor_fold_identity, regression witness
  C15_conv_data_format_fixed_witness).

  Findings mirrored here:
   * convert_to_folded_model / model_quantize(enable_bn_folding=True) delete the BatchNormalization
     layers and never transfer their parameters: the returned model computes a different function
     (C15_to_folded_as_coded_counterexample); what is proved is the intended conversion
     (C15_to_folded) and the as-coded one when the deleted batch norms are identities (…_partial).

  Strengthening round: every statement quantifies over both data formats (`Geom.cf`; §8), and §9
  puts HISTORIES on one layer object inside the theorems — `get_folded_weights`, `unfold_model` and
  inference calls used repeatedly, interleaved with parameter replacements that are not training
  steps (`variable.assign`, `set_weights` / `load_weights` with any `_iteration` value, quantizer
  attributes replaced): the k-th use equals the first use of a fresh object holding the current
  parameters (C15_history_fresh_twin), unfolding at any point uses the CURRENT parameters
  (C15_history_unfold_current, C15_history_folded_weights_current).

  Fix round Q (fix 41c6274): §11 states the conversion on a DAG with ORDERED, n-ary input lists:
  the rewiring keeps every consumer's input order (C15_convert_input_order, C15_rewire_input_order)
  and, with the parameters carried over, every surviving node computes the source tensor for EVERY
  merge function of the ordered input list (C15_convert_graph_function, _output); the old failing
  model `Subtract([bn(conv_a), conv_b])` is the regression witness
  (C15_rewire_input_order_fixed_witness).

  Strengthening round T15 (seed C15-8): §10 states `unfold_model` on the LIST `model.layers` with
  the `trainable` attribute of every layer — clone from the configuration (arbitrary fresh
  variables), then `_clone_weights` for EVERY pair: the returned layers are the expected ones for
  every fresh initialisation and every assignment of the flags (frozen layers, a frozen model,
  layers owning non-trainable variables only), and the model built from them over any DAG computes
  the source model's function (C15_unfold_layers_spec, _trainable_irrelevant, _weights, _function).
-/
import QKV.Lemmas.Fold
namespace QKV.Fold

/-! ### 1. the fold identity -/

/-- one output element, any geometry, conv2d: convolving with the channel-scaled kernel and adding
    the folded bias IS batch-norm applied to the convolution (+ bias) -/
theorem C15_fold_identity_conv (g : Geom) (cout : ℕ) (x k : T) (b oh ow co : ℕ) (h : co < cout)
    (inv bias mean beta : ℚ) (invv : T) (hinv : invv.getD co 0 = inv) :
    conv2dAt g cout x (scaleKernelConv cout invv k) b oh ow co + (inv * (bias - mean) + beta)
      = inv * (conv2dAt g cout x k b oh ow co + bias - mean) + beta := by
  rw [conv2dAt_scale g cout x k invv b oh ow co h, hinv]; ring

/-- the same for depthwise_conv2d with any depth multiplier: the `[cin, dm]` reshape of `inv`
    scales exactly output channel `co = c*dm + m` -/
theorem C15_fold_identity_depthwise (g : Geom) (dm : ℕ) (x k : T) (b oh ow co : ℕ)
    (h : co < g.cin * dm) (inv bias mean beta : ℚ) (invv : T) (hinv : invv.getD co 0 = inv) :
    dwconv2dAt g dm x (scaleKernelDw g.cin dm invv k) b oh ow co + (inv * (bias - mean) + beta)
      = inv * (dwconv2dAt g dm x k b oh ow co + bias - mean) + beta := by
  rw [dwconv2dAt_scale g dm x k invv b oh ow co h, hinv]; ring

/-- the reference: stock conv layer (no quantizers, no activation) followed by stock batch norm -/
def convThenBN (L : Folded) (rs : ℚ → ℚ) (x : T) : T :=
  L.bn.infer rs L.cfg.chan
    (Plain.call { cfg := L.cfg, kernel := L.kernel, bias := L.bias, qk := none, qb := none, act := none } x)

/-- whole layer, both classes, both folding modes, with or without bias / gamma: without quantizers
    the folded layer at inference equals conv → BN with the same parameters -/
theorem C15_fold_identity (L : Folded) (rs : ℚ → ℚ) (bs : BatchStats) (x : T)
    (hq : L.qk = none) (hb : L.qb = none) (ha : L.act = none) :
    L.callInference rs bs x = some (convThenBN L rs x) := by
  have hsel : selectStats L.mode false L.bn bs = (L.bn.var, L.bn.var, L.bn.mean) := by
    unfold selectStats; cases L.mode <;> simp
  unfold Folded.callInference convThenBN BN.infer Plain.call
  simp only [hsel, hq, hb, ha, foldedBias, applyOpt]
  congr 1
  set inv := mulGamma L.bn.gamma (rsqrtVec rs L.bn.var L.bn.eps) with hinv
  rw [biasAdd_convOp]
  cases hbias : L.bias with
  | none =>
    simp only
    unfold convOp
    rw [mapIdx_tabulate]
    apply tabulate_congr
    intro t ht
    have hpos := cout_pos_of_lt_outLen ht
    rw [atFlat_scale _ _ _ _ _ hpos, getD_tabulate _ (chan_lt _ _ hpos)]
    ring
  | some bv =>
    simp only
    rw [biasAdd_convOp, mapIdx_tabulate]
    apply tabulate_congr
    intro t ht
    have hpos := cout_pos_of_lt_outLen ht
    rw [atFlat_scale _ _ _ _ _ hpos, getD_tabulate _ (chan_lt _ _ hpos)]
    ring

/-- non-vacuity: a 1x1 conv2d, 1 channel, x = [3], kernel = [2], bias 1, gamma 4, beta 5, mean 1,
    rs ≡ 1/2: folded = conv→BN = 2*4/2*3 + (4/2*(1-1)+5) = 17 -/
def exGeom : Geom := { n := 1, h := 1, w := 1, cin := 1, kh := 1, kw := 1, sh := 1, sw := 1, dh := 1, dw := 1, same := false }
def exBN : BN := { gamma := some [4], beta := some [5], mean := [1], var := [1], eps := 0 }
def exL : Folded := { cfg := ⟨.conv, exGeom, 1⟩, mode := .ema, kernel := [2], bias := some [1], bn := exBN,
                      qk := none, qb := none, act := none }
example : exL.callInference (fun _ => 1/2) noStats [3] = some [17] := by decide +kernel
example : convThenBN exL (fun _ => 1/2) [3] = [17] := by decide +kernel

/-! ### 2. both folding modes at inference -/

/-- at inference `ema_stats_folding` and `batch_stats_folding` are the same function -/
theorem C15_modes_agree (L : Folded) (rs : ℚ → ℚ) (bs : BatchStats) (x : T) :
    ({ L with mode := .ema } : Folded).callInference rs bs x
      = ({ L with mode := .batch } : Folded).callInference rs bs x := by
  unfold Folded.callInference selectStats; simp

/-- … and neither looks at the statistics of the current batch -/
theorem C15_inference_ignores_batch_stats (L : Folded) (rs : ℚ → ℚ) (bs bs' : BatchStats) (x : T) :
    L.callInference rs bs x = L.callInference rs bs' x := by
  unfold Folded.callInference selectStats; cases L.mode <;> simp

/-! ### 3. quantized form -/

/-- with quantizers the inference output is the convolution with the QUANTIZED folded kernel plus
    the QUANTIZED folded bias (then the activation), the folded weights being those of
    `get_folded_weights()`; any quantizers `Qk`, `Qb` -/
theorem C15_quantized_form (L : Folded) (rs : ℚ → ℚ) (bs : BatchStats) (x : T) (fk fb : T)
    (hw : L.foldedWeights rs = some (fk, fb)) :
    L.callInference rs bs x
      = some (applyOpt L.act (biasAdd L.cfg.chan (convOp L.cfg x (applyOpt L.qk fk)) (applyOpt L.qb fb))) := by
  have hsel : selectStats L.mode false L.bn bs = (L.bn.var, L.bn.var, L.bn.mean) := by
    unfold selectStats; cases L.mode <;> simp
  unfold Folded.foldedWeights at hw
  unfold Folded.callInference
  simp only [hsel]
  cases hfb : foldedBias L.cfg.cout (mulGamma L.bn.gamma (rsqrtVec rs L.bn.var L.bn.eps)) L.bias L.bn.mean L.bn.beta with
  | none => simp [hfb] at hw
  | some v =>
    simp only [hfb, Option.some.injEq, Prod.mk.injEq] at hw
    obtain ⟨h1, h2⟩ := hw
    simp only [h1, h2]

/-- shape hypothesis for the element-wise description: the batch-norm vectors have one entry per
    output channel -/
structure WellShaped (L : Folded) : Prop where
  pos : 0 < L.cfg.cout
  var : L.bn.var.length = L.cfg.cout
  gamma : ∀ gm, L.bn.gamma = some gm → gm.length = L.cfg.cout

/-- `gamma * rsqrt(var + eps)` for channel `c` (gamma = 1 when scale=False) -/
def invSpec (bn : BN) (rs : ℚ → ℚ) (c : ℕ) : ℚ :=
  (match bn.gamma with | none => 1 | some gm => gm.getD c 0) * rs (bn.var.getD c 0 + bn.eps)

theorem getD_inv (bn : BN) (rs : ℚ → ℚ) (c : ℕ) (hc : c < bn.var.length) :
    (mulGamma bn.gamma (rsqrtVec rs bn.var bn.eps)).getD c 0 = invSpec bn rs c := by
  unfold mulGamma invSpec rsqrtVec
  cases bn.gamma with
  | none => simp [List.getD_eq_getElem?_getD, hc]
  | some gm =>
    simp only
    rw [getD_mapIdx_mul_right _ (fun c => gm.getD c 0)]
    simp only [List.getD_eq_getElem?_getD, List.getElem?_map, List.getElem?_eq_getElem hc,
      Option.map_some, Option.getD_some]
    ring

/-- output channel of flat kernel element `t` -/
def kernelChannel (c : LayerCfg) (t : ℕ) : ℕ :=
  match c.cls with
  | .conv => t % c.cm
  | .dw => (t / c.cm % c.g.cin) * c.cm + t % c.cm

theorem kernelChannel_lt (c : LayerCfg) (t : ℕ) (h : 0 < c.cout) : kernelChannel c t < c.cout := by
  unfold kernelChannel LayerCfg.cout at *
  cases hc : c.cls with
  | conv => simp only [hc] at h ⊢; exact Nat.mod_lt _ h
  | dw =>
    simp only [hc] at h ⊢
    have hcin : 0 < c.g.cin := Nat.pos_of_mul_pos_right h
    have hdm : 0 < c.cm := Nat.pos_of_mul_pos_left h
    have h1 : t / c.cm % c.g.cin < c.g.cin := Nat.mod_lt _ hcin
    have h2 : t % c.cm < c.cm := Nat.mod_lt _ hdm
    nlinarith

theorem getD_scaleKernel (c : LayerCfg) (inv k : T) (t : ℕ) :
    (scaleKernel c inv k).getD t 0 = inv.getD (kernelChannel c t) 0 * k.getD t 0 := by
  unfold scaleKernel kernelChannel scaleKernelConv scaleKernelDw
  cases c.cls with
  | conv => exact getD_mapIdx_mul k (fun t => inv.getD (t % c.cm) 0) t
  | dw => exact getD_mapIdx_mul k (fun t => inv.getD ((t / c.cm % c.g.cin) * c.cm + t % c.cm) 0) t

example : WellShaped exL := ⟨by decide, by decide, by intro gm h; cases h; decide⟩

/-- `get_folded_weights()` element by element is the formula of the property:
    folded kernel = kernel * gamma * rsqrt(var+eps) on the kernel's output channel,
    folded bias   = (bias - mean) * gamma * rsqrt(var+eps) + beta   (beta = 0 when center=False) -/
theorem C15_folded_weights_spec (L : Folded) (rs : ℚ → ℚ) (fk fb : T) (hs : WellShaped L)
    (hw : L.foldedWeights rs = some (fk, fb)) :
    fk.length = L.kernel.length ∧ fb.length = L.cfg.cout ∧
    (∀ t, t < L.kernel.length →
        fk.getD t 0 = L.kernel.getD t 0 * invSpec L.bn rs (kernelChannel L.cfg t)) ∧
    (∀ c, c < L.cfg.cout →
        fb.getD c 0 = ((match L.bias with | none => 0 | some b => b.getD c 0) - L.bn.mean.getD c 0)
            * invSpec L.bn rs c + (match L.bn.beta with | none => 0 | some bt => bt.getD c 0)) := by
  unfold Folded.foldedWeights at hw
  simp only [foldedBias, Option.some.injEq, Prod.mk.injEq] at hw
  obtain ⟨h1, h2⟩ := hw
  subst h1 h2
  refine ⟨?_, ?_, ?_, ?_⟩
  · unfold scaleKernel scaleKernelConv scaleKernelDw; cases L.cfg.cls <;> simp
  · exact length_tabulate _ _
  · intro t _
    rw [getD_scaleKernel, getD_inv _ _ _ (by rw [hs.var]; exact kernelChannel_lt _ _ hs.pos)]
    ring
  · intro c hc
    rw [getD_tabulate _ hc, getD_inv _ _ _ (by rw [hs.var]; exact hc)]
    cases L.bias <;> cases L.bn.beta <;> (dsimp only; ring)

/-! ### 4. unfolding -/

/-- `unfold_model`: the plain quantized layer that receives `get_folded_weights()` (and keeps the
    quantizers, geometry and activation, with `use_bias=True`) computes the same function as the
    folded layer at inference — any quantizers, both classes, both modes -/
theorem C15_unfold (L : Folded) (rs : ℚ → ℚ) (bs : BatchStats) (x : T) :
    (L.unfold rs).map (fun P => P.call x) = L.callInference rs bs x := by
  unfold Folded.unfold
  cases hw : L.foldedWeights rs with
  | none =>
    unfold Folded.foldedWeights at hw
    have hsel : selectStats L.mode false L.bn bs = (L.bn.var, L.bn.var, L.bn.mean) := by
      unfold selectStats; cases L.mode <;> simp
    unfold Folded.callInference
    simp only [hsel]
    cases hfb : foldedBias L.cfg.cout (mulGamma L.bn.gamma (rsqrtVec rs L.bn.var L.bn.eps)) L.bias L.bn.mean L.bn.beta with
    | none => simp
    | some v => simp [hfb] at hw
  | some w =>
    obtain ⟨fk, fb⟩ := w
    rw [C15_quantized_form L rs bs x fk fb hw]
    simp [Plain.call]

/-- the unfolded layer holds the UNQUANTIZED folded weights and always has a bias -/
theorem C15_unfold_weights (L : Folded) (rs : ℚ → ℚ) (P : Plain) (h : L.unfold rs = some P) :
    L.foldedWeights rs = some (P.kernel, P.bias.getD []) ∧ P.bias.isSome ∧ P.cfg = L.cfg := by
  unfold Folded.unfold at h
  cases hw : L.foldedWeights rs with
  | none => simp [hw] at h
  | some w =>
    obtain ⟨fk, fb⟩ := w
    simp only [hw, Option.some.injEq] at h
    subst h
    simp

example : (exL.unfold (fun _ => 1/2)).map (fun P => (P.kernel, P.bias)) = some ([4], some [5]) := by
  decide +kernel

/-- `unfold_model(m)` computes the same function as `m`, for every network (sequential or
    branched, any other layers), whenever the unfolding exists -/
theorem C15_unfold_model (rs : ℚ → ℚ) (x : T) (n n' : Net) (h : n.unfoldAll rs = some n') :
    n'.eval rs x = n.eval rs x := by
  induction n generalizing n' with
  | input => simp only [Net.unfoldAll, Option.some.injEq] at h; subst h; rfl
  | conv i P a ih =>
    simp only [Net.unfoldAll, Option.map_eq_some_iff] at h
    obtain ⟨a', ha, rfl⟩ := h
    simp only [Net.eval, ih a' ha]
  | bn j p cout a ih =>
    simp only [Net.unfoldAll, Option.map_eq_some_iff] at h
    obtain ⟨a', ha, rfl⟩ := h
    simp only [Net.eval, ih a' ha]
  | folded i L a ih =>
    simp only [Net.unfoldAll, Option.bind_eq_some_iff, Option.map_eq_some_iff] at h
    obtain ⟨P, hP, a', ha, rfl⟩ := h
    simp only [Net.eval, ih a' ha]
    cases a.eval rs x with
    | none => rfl
    | some v =>
      have := C15_unfold L rs noStats v
      rw [hP] at this
      simpa using this
  | un i f a ih =>
    simp only [Net.unfoldAll, Option.map_eq_some_iff] at h
    obtain ⟨a', ha, rfl⟩ := h
    simp only [Net.eval, ih a' ha]
  | bin i f a b iha ihb =>
    simp only [Net.unfoldAll, Option.bind_eq_some_iff, Option.map_eq_some_iff] at h
    obtain ⟨a', ha, b', hb, rfl⟩ := h
    simp only [Net.eval, iha a' ha, ihb b' hb]

/-- the unfolding of every network exists (center=False included, since d42f1d8) -/
theorem C15_unfold_model_exists (rs : ℚ → ℚ) (n : Net) : (n.unfoldAll rs).isSome := by
  induction n with
  | input => simp [Net.unfoldAll]
  | conv i P a ih => obtain ⟨a', ha⟩ := Option.isSome_iff_exists.mp ih; simp [Net.unfoldAll, ha]
  | bn j p c a ih => obtain ⟨a', ha⟩ := Option.isSome_iff_exists.mp ih; simp [Net.unfoldAll, ha]
  | folded i L a ih =>
    obtain ⟨a', ha⟩ := Option.isSome_iff_exists.mp ih
    simp [Net.unfoldAll, ha, Folded.unfold, Folded.foldedWeights, foldedBias]
  | un i f a ih => obtain ⟨a', ha⟩ := Option.isSome_iff_exists.mp ih; simp [Net.unfoldAll, ha]
  | bin i f a b iha ihb =>
    obtain ⟨a', ha⟩ := Option.isSome_iff_exists.mp iha
    obtain ⟨b', hb⟩ := Option.isSome_iff_exists.mp ihb
    simp [Net.unfoldAll, ha, hb]

/-! ### 5. center=False (fixed: d42f1d8) -/

/-- FULL STATEMENT (was `C15_callable_partial` with hypothesis `beta.isSome`, next to
    `C15_center_false_counterexample`): the folded layer, its folded weights and its unfolding are
    defined for every configuration — center=False included — and every input -/
theorem C15_callable (L : Folded) (rs : ℚ → ℚ) (bs : BatchStats) (x : T) :
    (L.callInference rs bs x).isSome ∧ (L.foldedWeights rs).isSome ∧ (L.unfold rs).isSome := by
  unfold Folded.unfold Folded.callInference Folded.foldedWeights foldedBias
  simp

/-- center=False is conv → BatchNormalization(center=False): `C15_fold_identity` at `beta = none`,
    where the reference `BN.infer` uses offset 0 -/
theorem C15_center_false (L : Folded) (rs : ℚ → ℚ) (bs : BatchStats) (x : T)
    (hq : L.qk = none) (hb : L.qb = none) (ha : L.act = none) (_h : L.bn.beta = none) :
    L.callInference rs bs x = some (convThenBN L rs x) :=
  C15_fold_identity L rs bs x hq hb ha

/-- REGRESSION WITNESS of the repaired defect: the layer of `exL` with center=False
    (x = 3, kernel 2, bias 1, gamma 4, mean 1, rs ≡ 1/2) used to raise; it now returns
    2*4/2*3 + 4/2*(1-1) + 0 = 12, the value of conv → BN(center=False), and its folded weights are
    ([4], [0]) -/
theorem C15_center_false_regression :
    let L : Folded := { exL with bn := { exBN with beta := none } }
    L.callInference (fun _ => 1/2) noStats [3] = some [12] ∧ convThenBN L (fun _ => 1/2) [3] = [12] ∧
      L.foldedWeights (fun _ => 1/2) = some ([4], [0]) := by
  refine ⟨?_, ?_, ?_⟩ <;> decide +kernel

/-! ### 6. converting a conv+BN network to a folded network -/

/-- INTENDED conversion (every selected `conv → BatchNormalization` pair becomes one folded layer
    carrying both parameter sets): the network function is unchanged, for every set `S` of fold
    sites, either folding mode, sequential or branched networks, arbitrary other layers.
    Hypothesis: the convs in front of batch norms are stock (no quantizer, linear activation);
    center=False batch norms are fine since d42f1d8. -/
theorem C15_to_folded (S : ℕ → Bool) (mode : FoldMode) (rs : ℚ → ℚ) (x : T) (n : Net)
    (hf : n.foldable) : (n.fold S mode).eval rs x = n.eval rs x := by
  fun_induction Net.fold S mode n with
  | case1 => rfl
  | case2 i P a ih => simp only [Net.eval]; rw [ih hf]
  | case3 j p cout i P a hS ih =>
    obtain ⟨hact, hqk, hqb, hco, hfa⟩ := hf
    simp only [Net.eval]
    rw [ih hfa]
    cases a.eval rs x with
    | none => rfl
    | some v =>
      simp only [Option.bind_some, Option.map_some]
      have := C15_fold_identity (foldLayer P p mode) rs noStats v hqk hqb hact
      rw [this]
      unfold convThenBN foldLayer
      simp only [hco]
      have hP : ({ cfg := P.cfg, kernel := P.kernel, bias := P.bias, qk := none, qb := none, act := none } : Plain) = P := by
        cases P; simp_all
      rw [hP]
  | case4 j p cout i P a hS ih =>
    obtain ⟨_, _, _, _, hfa⟩ := hf
    simp only [Net.eval]; rw [ih hfa]
  | case5 j p cout a hne ih =>
    have hfa : a.foldable := by
      cases a <;> first | exact hf | (exfalso; exact hne _ _ _ rfl)
    simp only [Net.eval]; rw [ih hfa]
  | case6 i L a ih => simp only [Net.eval]; rw [ih hf]
  | case7 i f a ih => simp only [Net.eval]; rw [ih hf]
  | case8 i f a b iha ihb => simp only [Net.eval]; rw [iha hf.1, ihb hf.2]

/-- a sequential conv → BN chain followed by a branch: hypotheses satisfiable, fold non-trivial -/
def exPlain : Plain := { cfg := ⟨.conv, exGeom, 1⟩, kernel := [2], bias := some [1], qk := none, qb := none, act := none }
def exNet : Net := .bin 3 (fun u v => List.zipWith (· + ·) u v) (.bn 2 exBN exPlain.cfg.chan (.conv 1 exPlain .input)) .input
example : exNet.foldable := by
  simp [exNet, Net.foldable, exPlain, exBN]
example : (exNet.fold (fun _ => true) .ema) =
    .bin 3 (fun u v => List.zipWith (· + ·) u v) (.folded 1 (foldLayer exPlain exBN .ema) .input) .input := rfl
example : exNet.eval (fun _ => 1/2) [3] = some [20] := by decide +kernel

/-- COUNTEREXAMPLE (finding C15-to-folded-drops-bn): what `convert_to_folded_model` really returns
    — the BatchNormalization layers deleted, their parameters dropped — computes a different
    function: conv(x)=2*3+1=7 instead of BN(conv(x))=17 -/
theorem C15_to_folded_as_coded_counterexample :
    let n : Net := .bn 2 exBN exPlain.cfg.chan (.conv 1 exPlain .input)
    n.eval (fun _ => 1/2) [3] = some [17] ∧ (n.dropBN (fun _ => true)).eval (fun _ => 1/2) [3] = some [7] := by
  constructor <;> decide +kernel

/-- COUNTEREXAMPLE (finding C15-fold-site-with-activation): the selection rule does not look at the
    conv layer's own activation.  Conv2D(activation=relu) → BN is selected, but the folded layer
    applies the activation AFTER the batch norm: relu(BN(conv x)) ≠ BN(relu(conv x)) — here with
    x = -3: conv = -5, BN(relu(-5)) = BN(0) = 4/2*(0-1)+5 = 3, folded = relu(4/2*(-5-1)+5) = relu(-7) = 0 -/
theorem C15_to_folded_activation_counterexample :
    let P : Plain := { exPlain with act := some relu }
    let n : Net := .bn 2 exBN exPlain.cfg.chan (.conv 1 P .input)
    n.eval (fun _ => 1/2) [-3] = some [3] ∧ (n.fold (fun _ => true) .ema).eval (fun _ => 1/2) [-3] = some [0] := by
  constructor <;> decide +kernel

/-- every deleted batch norm acts as the identity -/
def Net.droppedTrivial (S : ℕ → Bool) (rs : ℚ → ℚ) : Net → Prop
  | .input => True
  | .conv _ _ a => a.droppedTrivial S rs
  | .bn _ p ch (.conv i _ a) => (S i = true → ∀ y, p.infer rs ch y = y) ∧ a.droppedTrivial S rs
  | .bn _ _ _ a => a.droppedTrivial S rs
  | .folded _ _ a => a.droppedTrivial S rs
  | .un _ _ a => a.droppedTrivial S rs
  | .bin _ _ a b => a.droppedTrivial S rs ∧ b.droppedTrivial S rs

/-- PARTIAL: the as-coded conversion preserves the function exactly when the deleted batch norms
    do nothing -/
theorem C15_to_folded_as_coded_partial (S : ℕ → Bool) (rs : ℚ → ℚ) (x : T) (n : Net)
    (h : n.droppedTrivial S rs) : (n.dropBN S).eval rs x = n.eval rs x := by
  fun_induction Net.dropBN S n with
  | case1 => rfl
  | case2 i P a ih => simp only [Net.eval]; rw [ih h]
  | case3 j p cout i P a hS ih =>
    obtain ⟨h1, h2⟩ := h
    simp only [Net.eval]; rw [ih h2]
    cases a.eval rs x with
    | none => rfl
    | some v => simp [h1 hS]
  | case4 j p cout i P a hS ih =>
    simp only [Net.eval]; rw [ih h.2]
  | case5 j p cout a hne ih =>
    have ha : a.droppedTrivial S rs := by
      cases a <;> first | exact h | (exfalso; exact hne _ _ _ rfl)
    simp only [Net.eval]; rw [ih ha]
  | case6 i L a ih => simp only [Net.eval]; rw [ih h]
  | case7 i f a ih => simp only [Net.eval]; rw [ih h]
  | case8 i f a b iha ihb => simp only [Net.eval]; rw [iha h.1, ihb h.2]

/-! ### 7. the fold-site selection of `convert_to_folded_model` -/

/-- a selected site is a stock Conv2D / DepthwiseConv2D whose ONLY successor is a
    BatchNormalization layer (so nothing else reads the un-normalised convolution output) -/
theorem C15_foldSite_sound (g : Graph) (i j : ℕ) (h : foldSite g i = some j) :
    (kindAt g i = .conv2d ∨ kindAt g i = .dwconv2d) ∧ successors g i = [j] ∧ j < g.length ∧ kindAt g j = .bn := by
  unfold foldSite at h
  split at h
  · rename_i hk
    split at h
    · rename_i j' hs
      split at h
      · rename_i hj
        simp only [Option.some.injEq] at h
        subst h
        exact ⟨hk, hs, hj.1, hj.2⟩
      · simp at h
    · simp at h
  · simp at h

/-- … and every such layer is selected -/
theorem C15_foldSite_complete (g : Graph) (i j : ℕ)
    (hk : kindAt g i = .conv2d ∨ kindAt g i = .dwconv2d) (hs : successors g i = [j])
    (hj : j < g.length) (hb : kindAt g j = .bn) : foldSite g i = some j := by
  unfold foldSite
  simp [hk, hs, hj, hb]

/-- input → Conv2D → BN → Add(·, input): site 1 (BN 2) -/
example : foldSites [⟨.input, []⟩, ⟨.conv2d, [0]⟩, ⟨.bn, [1]⟩, ⟨.other, [2, 0]⟩] = [1] := by decide
/-- a Conv2D read by its BN and by a second layer is not folded -/
example : foldSites [⟨.input, []⟩, ⟨.conv2d, [0]⟩, ⟨.bn, [1]⟩, ⟨.other, [2, 1]⟩] = [] := by decide

/-! ### 8. data_format

  Every theorem above is stated for an arbitrary `Geom`, hence for both layouts (`cf = false`:
  NHWC, `cf = true`: NCHW — the input read `xAt`, the output order `atFlat`, the channel of a flat
  index `chan` used by `bias_add` and by the batch norm all follow the layout).  The constructors of
  BOTH classes build the layout that was asked for; an omitted `data_format` is the process-wide
  `K.image_data_format()` of the moment of construction (`ctorCfg`, `resolveFormat`).
  Fixed (90019a5): `QConv2DBatchnorm.__init__` used to accept `data_format` and drop it, so the
  layer took the process-wide format whatever was asked for (C15_conv_data_format_fixed_witness). -/

/-- a channels_first depthwise layer is not the channels_last one on the same flat data (the layout
    is really modelled): 1x1 kernel [1, 10] on 2 channels, x = [1,2,3,4] read as NCHW (1,2,1,2)
    gives [1,2,30,40], read as NHWC (1,1,2,2) gives [1,20,3,40] -/
def exGeomCF : Geom := { n := 1, h := 1, w := 2, cin := 2, kh := 1, kw := 1, sh := 1, sw := 1, dh := 1, dw := 1,
                         same := false, cf := true }
def exBN2 : BN := { gamma := none, beta := none, mean := [0, 0], var := [1, 1], eps := 0 }
def exDwCF : Folded := { cfg := ⟨.dw, exGeomCF, 1⟩, mode := .ema, kernel := [1, 10], bias := none, bn := exBN2,
                         qk := none, qb := none, act := none }
example : exDwCF.callInference (fun _ => 1) noStats [1, 2, 3, 4] = some [1, 2, 30, 40] := by decide +kernel
example : ({ exDwCF with cfg := ⟨.dw, { exGeomCF with cf := false }, 1⟩ } : Folded).callInference
    (fun _ => 1) noStats [1, 2, 3, 4] = some [1, 20, 3, 40] := by decide +kernel
example : convThenBN exDwCF (fun _ => 1) [1, 2, 3, 4] = [1, 2, 30, 40] := by decide +kernel

/-- THE CONSTRUCTORS HONOUR `data_format` (both classes, every process-wide setting): the layer
    that is built has the REQUESTED layout, or the process-wide one when the argument is omitted;
    nothing else of the configuration changes.  (Full statement; before fix 90019a5 only
    `_partial`: the conv class ignored the argument.) -/
theorem C15_ctor_data_format (globalCF : Bool) (df : Option Bool) (c : LayerCfg) :
    (ctorCfg globalCF df c).g.cf = (match df with | some f => f | none => globalCF) ∧
      (ctorCfg globalCF df c).cls = c.cls ∧ (ctorCfg globalCF df c).cm = c.cm ∧
      (ctorCfg globalCF df c).g = { c.g with cf := (match df with | some f => f | none => globalCF) } := by
  cases df <;> simp [ctorCfg, resolveFormat]

/-- an explicit `data_format` never looks at the process-wide setting -/
theorem C15_ctor_explicit_ignores_global (g g' : Bool) (f : Bool) (c : LayerCfg) :
    ctorCfg g (some f) c = ctorCfg g' (some f) c := rfl

/-- `ctorCfg` is the IDENTITY on a configuration whose layout is the requested one (both classes):
    asking for the layout `c` describes builds exactly `c` … -/
theorem C15_ctor_identity (globalCF : Bool) (c : LayerCfg) : ctorCfg globalCF (some c.g.cf) c = c := rfl

/-- … and with the argument omitted, exactly `c` when `c` describes the process-wide layout -/
theorem C15_ctor_identity_omitted (c : LayerCfg) : ctorCfg c.g.cf none c = c := rfl

/-- the two classes are treated alike: the class of the layer plays no role for the layout -/
theorem C15_ctor_class_uniform (globalCF : Bool) (df : Option Bool) (g : Geom) (cm cm' : ℕ) :
    (ctorCfg globalCF df ⟨.conv, g, cm⟩).g = (ctorCfg globalCF df ⟨.dw, g, cm'⟩).g := rfl

/-- `get_config()` stores the resolved format, so `from_config` and
    `convert_folded_layer_to_unfolded` (which build the next layer from that config) rebuild the same
    configuration under ANY process-wide setting -/
theorem C15_ctor_config_roundtrip (g g' : Bool) (df : Option Bool) (c : LayerCfg) :
    ctorCfg g' (ctorCfg g df c).configFormat (ctorCfg g df c) = ctorCfg g df c := rfl

/-- the requested folded layer: the configuration `L.cfg` in the layout that was asked for -/
def Folded.requested (L : Folded) (globalCF : Bool) (df : Option Bool) : Folded :=
  { L with cfg := { L.cfg with g := { L.cfg.g with cf := resolveFormat globalCF df } } }

/-- consequence for the FUNCTION (both classes, both modes, every process-wide setting, every
    request): without quantizers the layer that the constructor builds computes conv → batch norm in
    the REQUESTED layout (the process-wide one when none was requested) with the same parameters.
    (Was C15_ctor_conv_data_format_partial + C15_conv_data_format_counterexample.) -/
theorem C15_ctor_fold_identity (L : Folded) (globalCF : Bool) (df : Option Bool) (rs : ℚ → ℚ)
    (bs : BatchStats) (x : T) (hq : L.qk = none) (hb : L.qb = none) (ha : L.act = none) :
    ({ L with cfg := ctorCfg globalCF df L.cfg } : Folded).callInference rs bs x
      = some (convThenBN (L.requested globalCF df) rs x) :=
  C15_fold_identity (L.requested globalCF df) rs bs x hq hb ha

/-- REGRESSION WITNESS of the repaired defect (finding C15-conv-data-format-ignored, fix 90019a5):
    `QConv2DBatchnorm(2, (1,1), data_format="channels_first")` under the default process-wide format,
    input of shape (1,2,2,2), kernel [[1,2],[10,20]] (cin x cout), identity batch norm.  The old
    constructor built the channels_last layer, which returns [21,42,43,86,65,130,87,174]; the layer
    that is built now returns what Conv2D(channels_first) → BatchNormalization(axis=1) returns,
    [51,62,73,84,102,124,146,168].  The other direction (process-wide channels_first, explicit
    channels_last — the old constructor built channels_first) gives the NHWC values. -/
theorem C15_conv_data_format_fixed_witness :
    let g : Geom := { n := 1, h := 2, w := 2, cin := 2, kh := 1, kw := 1, sh := 1, sw := 1, dh := 1, dw := 1,
                      same := false, cf := true }
    let req : Folded := { cfg := ⟨.conv, g, 2⟩, mode := .ema, kernel := [1, 2, 10, 20], bias := none, bn := exBN2,
                          qk := none, qb := none, act := none }
    let built : Folded := { req with cfg := ctorCfg false (some true) req.cfg }
    let builtLast : Folded := { req with cfg := ctorCfg true (some false) req.cfg }
    let x : T := [1, 2, 3, 4, 5, 6, 7, 8]
    built.callInference (fun _ => 1) noStats x = some [51, 62, 73, 84, 102, 124, 146, 168] ∧
      convThenBN req (fun _ => 1) x = [51, 62, 73, 84, 102, 124, 146, 168] ∧
      builtLast.callInference (fun _ => 1) noStats x = some [21, 42, 43, 86, 65, 130, 87, 174] ∧
      convThenBN (req.requested true (some false)) (fun _ => 1) x = [21, 42, 43, 86, 65, 130, 87, 174] ∧
      -- omitted argument: the process-wide format decides
      ({ req with cfg := ctorCfg true none req.cfg } : Folded).callInference (fun _ => 1) noStats x
        = some [51, 62, 73, 84, 102, 124, 146, 168] ∧
      ({ req with cfg := ctorCfg false none req.cfg } : Folded).callInference (fun _ => 1) noStats x
        = some [21, 42, 43, 86, 65, 130, 87, 174] := by
  refine ⟨?_, ?_, ?_, ?_, ?_, ?_⟩ <;> decide +kernel

/-- the hypotheses of C15_ctor_fold_identity are satisfiable and the statement is not vacuous: the
    six (process-wide format, request) combinations give two different layouts -/
example : (ctorCfg false (some true) ⟨.conv, exGeomCF, 2⟩).g.cf = true ∧
    (ctorCfg true (some false) ⟨.conv, exGeomCF, 2⟩).g.cf = false ∧
    (ctorCfg true none ⟨.dw, exGeomCF, 2⟩).g.cf = true ∧ (ctorCfg false none ⟨.dw, exGeomCF, 2⟩).g.cf = false := by
  decide

/-! ### 9. histories on one layer object

  Uses of the SAME object one after the other — `get_folded_weights`, `unfold_model`, inference
  calls (on inputs of any shape), interleaved with replacements of the parameters that are not
  training steps (`variable.assign`, `set_weights` / `load_weights` with any `iteration` value).
  The k-th use behaves exactly like the first use of a fresh object holding the current parameters. -/

/-- observing a layer does not change it -/
theorem C15_history_observers_pure (rs : ℚ → ℚ) (o : Obj) (op : Op) (h : op.observer = true) :
    (o.step rs op).1 = o := by
  cases op <;> simp_all [Obj.step, Op.observer]

/-- no observation depends on the `_iteration` counter (nothing is keyed on the training step) -/
theorem C15_history_iteration_irrelevant (rs : ℚ → ℚ) (L : Folded) (i j : ℤ) (op : Op)
    (h : op.observer = true) :
    (({ L := L, iteration := i } : Obj).step rs op).2 = (({ L := L, iteration := j } : Obj).step rs op).2 := by
  cases op <;> simp_all [Obj.step, Op.observer]

theorem Obj.run_append (rs : ℚ → ℚ) (o : Obj) (ops ops' : List Op) :
    o.run rs (ops ++ ops') = (((o.run rs ops).1.run rs ops').1, (o.run rs ops).2 ++ ((o.run rs ops).1.run rs ops').2) := by
  induction ops generalizing o with
  | nil => simp [Obj.run]
  | cons op ops ih => simp [Obj.run, ih]

/-- FRESH TWIN: after ANY history `ops` the next observation is the one a fresh object (never used,
    `_iteration = -1`) built from the current parameters gives; the earlier observations are not
    disturbed -/
theorem C15_history_fresh_twin (rs : ℚ → ℚ) (o : Obj) (ops : List Op) (op : Op) (h : op.observer = true) :
    (o.run rs (ops ++ [op])).2
      = (o.run rs ops).2 ++ [(({ L := (o.run rs ops).1.L } : Obj).step rs op).2] ∧
    (o.run rs (ops ++ [op])).1 = (o.run rs ops).1 := by
  rw [Obj.run_append]
  constructor
  · have := C15_history_iteration_irrelevant rs (o.run rs ops).1.L (o.run rs ops).1.iteration (-1) op h
    simp only [Obj.run, List.cons.injEq, and_true, List.append_cancel_left_eq]
    exact this
  · simp only [Obj.run]
    exact C15_history_observers_pure rs _ op h

/-- `unfold_model` at ANY point of a history: the unfolded layer holds `get_folded_weights()` of the
    CURRENT parameters and computes what the folded layer computes NOW -/
theorem C15_history_unfold_current (rs : ℚ → ℚ) (o : Obj) (ops : List Op) (n h w : ℕ) (x : T) :
    ((o.run rs ops).1.step rs (.unfold n h w x)).2
      = .unfolded (((o.run rs ops).1.L.onInput n h w).foldedWeights rs)
                  (((o.run rs ops).1.L.onInput n h w).callInference rs noStats x) := by
  generalize (o.run rs ops).1 = o'
  simp only [Obj.step]
  have hu := C15_unfold (o'.L.onInput n h w) rs noStats x
  cases hU : (o'.L.onInput n h w).unfold rs with
  | none =>
    have := (C15_callable (o'.L.onInput n h w) rs noStats x).2.2
    simp [hU] at this
  | some P =>
    have hw := (C15_unfold_weights _ rs P hU).1
    rw [hU] at hu
    simp only [Option.map_some] at hu ⊢
    rw [hw, ← hu]

/-- the folded weights do not depend on the input shape the layer is used on -/
theorem C15_foldedWeights_onInput (L : Folded) (rs : ℚ → ℚ) (n h w : ℕ) :
    (L.onInput n h w).foldedWeights rs = L.foldedWeights rs := by
  unfold Folded.foldedWeights Folded.onInput LayerCfg.withInput scaleKernel LayerCfg.cout
  rfl

/-- `get_folded_weights()` at ANY point of a history is the formula of the property evaluated on
    the CURRENT kernel, bias and batch-norm vectors -/
theorem C15_history_folded_weights_current (rs : ℚ → ℚ) (o : Obj) (ops : List Op)
    (hs : WellShaped (o.run rs ops).1.L) :
    ∃ fk fb, ((o.run rs ops).1.step rs .getFolded).2 = .weights (some (fk, fb)) ∧
      (∀ t, t < (o.run rs ops).1.L.kernel.length →
        fk.getD t 0 = (o.run rs ops).1.L.kernel.getD t 0
                        * invSpec (o.run rs ops).1.L.bn rs (kernelChannel (o.run rs ops).1.L.cfg t)) ∧
      (∀ c, c < (o.run rs ops).1.L.cfg.cout →
        fb.getD c 0 = ((match (o.run rs ops).1.L.bias with | none => 0 | some b => b.getD c 0)
              - (o.run rs ops).1.L.bn.mean.getD c 0) * invSpec (o.run rs ops).1.L.bn rs c
            + (match (o.run rs ops).1.L.bn.beta with | none => 0 | some bt => bt.getD c 0)) := by
  generalize (o.run rs ops).1 = o' at *
  have hc := (C15_callable o'.L rs noStats []).2.1
  obtain ⟨⟨fk, fb⟩, hw⟩ := Option.isSome_iff_exists.mp hc
  refine ⟨fk, fb, by simp [Obj.step, hw], ?_, ?_⟩
  · exact (C15_folded_weights_spec o'.L rs fk fb hs hw).2.2.1
  · exact (C15_folded_weights_spec o'.L rs fk fb hs hw).2.2.2

/-- reading a variable -/
def Folded.get (L : Folded) : Slot → Option T
  | .kernel => some L.kernel
  | .bias => L.bias
  | .gamma => L.bn.gamma
  | .beta => L.bn.beta
  | .mean => some L.bn.mean
  | .var => some L.bn.var

/-- `variable.assign(v)`: that variable now reads `v`, every other variable and the whole
    configuration (geometry, folding mode, epsilon, quantizers, activation) are untouched -/
theorem C15_assign_spec (L L' : Folded) (s : Slot) (v : T) (h : L.assign s v = some L') :
    L'.get s = some v ∧ (∀ s', s' ≠ s → L'.get s' = L.get s') ∧
      L'.cfg = L.cfg ∧ L'.mode = L.mode ∧ L'.bn.eps = L.bn.eps ∧ L'.qk = L.qk ∧ L'.qb = L.qb ∧ L'.act = L.act := by
  cases s <;> simp only [Folded.assign] at h
  case kernel => cases h; refine ⟨rfl, ?_, rfl, rfl, rfl, rfl, rfl, rfl⟩; intro s' hs; cases s' <;> simp_all [Folded.get]
  case mean => cases h; refine ⟨rfl, ?_, rfl, rfl, rfl, rfl, rfl, rfl⟩; intro s' hs; cases s' <;> simp_all [Folded.get]
  case var => cases h; refine ⟨rfl, ?_, rfl, rfl, rfl, rfl, rfl, rfl⟩; intro s' hs; cases s' <;> simp_all [Folded.get]
  case bias =>
    split at h
    · cases h; refine ⟨rfl, ?_, rfl, rfl, rfl, rfl, rfl, rfl⟩; intro s' hs; cases s' <;> simp_all [Folded.get]
    · cases h
  case gamma =>
    split at h
    · cases h; refine ⟨rfl, ?_, rfl, rfl, rfl, rfl, rfl, rfl⟩; intro s' hs; cases s' <;> simp_all [Folded.get]
    · cases h
  case beta =>
    split at h
    · cases h; refine ⟨rfl, ?_, rfl, rfl, rfl, rfl, rfl, rfl⟩; intro s' hs; cases s' <;> simp_all [Folded.get]
    · cases h

/-- `set_weights(get_weights())` is the identity on the object (checkpoint round trip) -/
theorem C15_setWeights_getWeights (o : Obj) : o.setWeights o.getWeights = some o := by
  obtain ⟨⟨cfg, mode, kernel, bias, ⟨gamma, beta, mean, var, eps⟩, qk, qb, act⟩, it⟩ := o
  cases bias <;> cases gamma <;> cases beta <;>
    simp [Obj.setWeights, Obj.getWeights, takeIf, Rat.floor_intCast]

/-- `set_weights(ws)` succeeds exactly on lists laid out like `get_weights()` — kernel, the
    existing ones of bias / gamma / beta, then iteration, moving mean, moving variance — and then the
    object holds exactly these arrays, WHATEVER `iteration` value the list carries; the
    configuration (geometry, folding mode, epsilon, quantizers, activation) is untouched -/
theorem C15_setWeights_spec (o o' : Obj) (ws : List T) (h : o.setWeights ws = some o') :
    o'.L.cfg = o.L.cfg ∧ o'.L.mode = o.L.mode ∧ o'.L.bn.eps = o.L.bn.eps ∧ o'.L.qk = o.L.qk ∧
      o'.L.qb = o.L.qb ∧ o'.L.act = o.L.act ∧
      o'.L.bias.isSome = o.L.bias.isSome ∧ o'.L.bn.gamma.isSome = o.L.bn.gamma.isSome ∧
      o'.L.bn.beta.isSome = o.L.bn.beta.isSome ∧
      ∃ it, ws = o'.L.kernel :: (o'.L.bias.toList ++ (o'.L.bn.gamma.toList ++ (o'.L.bn.beta.toList
                ++ [it, o'.L.bn.mean, o'.L.bn.var]))) ∧ o'.iteration = (it.getD 0 0).floor := by
  unfold Obj.setWeights at h
  cases ws with
  | nil => simp at h
  | cons k r0 =>
    simp only [Option.bind_eq_some_iff] at h
    obtain ⟨br, hb, gr, hg, tr, ht, h⟩ := h
    obtain ⟨hb1, hb2⟩ := takeIf_some hb
    obtain ⟨hg1, hg2⟩ := takeIf_some hg
    obtain ⟨ht1, ht2⟩ := takeIf_some ht
    split at h
    · rename_i it m v hr
      simp only [Option.some.injEq] at h
      subst h
      refine ⟨rfl, rfl, rfl, rfl, rfl, rfl, hb1, hg1, ht1, it, ?_, rfl⟩
      simp only
      rw [hb2, hg2, ht2, hr]
    · simp at h
/-- the quantizer attributes replaced on a live layer: the folded weights are untouched, and every
    later inference call is the quantized form with the NEW quantizers on the current folded weights -/
theorem C15_history_reconfigure (rs : ℚ → ℚ) (o : Obj) (qk qb : Option (T → T)) :
    ((o.step rs (.reconfigure qk qb)).1.step rs .getFolded).2 = (o.step rs .getFolded).2 ∧
    ∀ (n h w : ℕ) (x fk fb : T), (o.L.onInput n h w).foldedWeights rs = some (fk, fb) →
      ((o.step rs (.reconfigure qk qb)).1.step rs (.predict n h w x)).2
        = .out (some (applyOpt o.L.act (biasAdd (o.L.onInput n h w).cfg.chan
            (convOp (o.L.onInput n h w).cfg x (applyOpt qk fk)) (applyOpt qb fb)))) := by
  constructor
  · simp [Obj.step, Folded.foldedWeights]
  · intro n h w x fk fb hw
    simp only [Obj.step]
    have := C15_quantized_form (({ o.L with qk := qk, qb := qb } : Folded).onInput n h w) rs noStats x fk fb
      (by simpa [Folded.foldedWeights, Folded.onInput] using hw)
    rw [this]
    rfl

/-- unfolding after ANY sequence of parameter replacements inside a network preserves the function
    of the network as it is THEN -/
theorem C15_history_unfold_model (rs : ℚ → ℚ) (x : T) (n : Net) (edits : List (ℕ × Slot × T)) (n' : Net)
    (h : (edits.foldl (fun m e => m.assign e.1 e.2.1 e.2.2) n).unfoldAll rs = some n') :
    n'.eval rs x = (edits.foldl (fun m e => m.assign e.1 e.2.1 e.2.2) n).eval rs x :=
  C15_unfold_model rs x _ n' h

/-- a history on the layer of `exL` (kernel 2, bias 1, gamma 4, beta 5, mean 1, rs ≡ 1/2):
    get_folded_weights → ([4],[5]); kernel := 3; get_folded_weights → ([6],[5]) (a memo keyed on
    `_iteration` would still say ([4],[5])); set_weights([kernel 1, bias 3, gamma 2, beta 0,
    iteration -1, mean 1, var 1]) → unfold gives the layer ([1],[2]) computing 1*3+2 = 5 = the
    folded layer's output; assigning a bias to a layer without bias raises -/
example : (({ L := exL } : Obj).run (fun _ => 1/2)
      [.getFolded, .assign .kernel [3], .getFolded,
       .setWeights [[1], [3], [2], [0], [-1], [1], [1]], .unfold 1 1 1 [3], .predict 1 1 1 [3]]).2
    = [.weights (some ([4], [5])), .done true, .weights (some ([6], [5])), .done true,
       .unfolded (some ([1], [2])) (some [5]), .out (some [5])] := by decide +kernel
example : (({ L := { exL with bias := none } } : Obj).step (fun _ => 1/2) (.assign .bias [3])).2 = .done false := by
  decide +kernel
example : (({ L := exL } : Obj).step (fun _ => 1/2) (.setWeights [[1], [3]])).2 = .done false := by
  decide +kernel

/-! ### 10. `unfold_model` over `model.layers`: every layer's weights are transferred

  Strengthening round (seed C15-8).  §4 talks about the network expression; here `unfold_model` is
  the code's two passes over the LIST of layers — clone every layer from its configuration (fresh
  variables `init`, arbitrary), then `_clone_weights` for every pair — and every layer carries its
  `trainable` attribute.  The result is the expected unfolded layer list for EVERY fresh
  initialisation and EVERY assignment of the trainable flags: frozen layers, a frozen model and
  layers that own non-trainable variables only (`BatchNormalization(center=False, scale=False)`)
  are transferred like all others. -/

/-- one pair of the loop: whatever the clone was initialised with, after `_clone_weights` it is the
    expected unfolded layer — all variables, trainable or not -/
theorem C15_unfold_layer_transfer (rs : ℚ → ℚ) (init : List T) (l : MLayer) :
    transferOne (fun _ => false) rs init l = l.unfolded rs := by
  obtain ⟨op, tr⟩ := l
  cases op with
  | input => rfl
  | conv P => rfl
  | bn p ch => rfl
  | folded L =>
    simp only [transferOne, MLayer.unfolded, LayerOp.unfolded, LayerOp.cloneFresh, cloneWeights, Folded.unfold,
      Bool.false_eq_true, if_false]
    cases hw : L.foldedWeights rs with
    | none => rfl
    | some w => rfl
  | un f => rfl
  | bin f => rfl

theorem transferFrom_eq (rs : ℚ → ℚ) (init : ℕ → List T) (i : ℕ) (ls : List MLayer) :
    transferFrom (fun _ => false) rs init i ls = unfoldedLayers rs ls := by
  induction ls generalizing i with
  | nil => rfl
  | cons l ls ih => simp only [transferFrom, unfoldedLayers, C15_unfold_layer_transfer, ih]

/-- `unfold_model(m).layers` is the expected layer list (folded layers replaced by the plain layers
    holding `get_folded_weights()`, every other layer with ALL its variables), for every fresh
    initialisation of the clones -/
theorem C15_unfold_layers_spec (rs : ℚ → ℚ) (init : ℕ → List T) (ls : List MLayer) :
    unfoldLayers rs init ls = unfoldedLayers rs ls := transferFrom_eq rs init 0 ls

/-- nothing of the fresh initialisation survives -/
theorem C15_unfold_layers_init_irrelevant (rs : ℚ → ℚ) (init init' : ℕ → List T) (ls : List MLayer) :
    unfoldLayers rs init ls = unfoldLayers rs init' ls := by
  rw [C15_unfold_layers_spec, C15_unfold_layers_spec]

theorem unfoldedLayers_ops (rs : ℚ → ℚ) (ls ks : List MLayer) (h : ls.map (·.op) = ks.map (·.op)) :
    (unfoldedLayers rs ls).map (List.map (·.op)) = (unfoldedLayers rs ks).map (List.map (·.op)) := by
  induction ls generalizing ks with
  | nil => cases ks with
    | nil => rfl
    | cons k ks => simp at h
  | cons l ls ih =>
    cases ks with
    | nil => simp at h
    | cons k ks =>
      simp only [List.map_cons, List.cons.injEq] at h
      obtain ⟨h1, h2⟩ := h
      have := ih ks h2
      simp only [unfoldedLayers, MLayer.unfolded, h1]
      cases hk : k.op.unfolded rs with
      | none => rfl
      | some o =>
        simp only [Option.map_some, Option.bind_some]
        cases ha : unfoldedLayers rs ls with
        | none => cases hb : unfoldedLayers rs ks with
          | none => rfl
          | some b => simp [ha, hb] at this
        | some a => cases hb : unfoldedLayers rs ks with
          | none => simp [ha, hb] at this
          | some b =>
            simp only [ha, hb, Option.map_some, Option.some.injEq] at this
            simp [this]

/-- TRAINABILITY IS NOT PART OF WHAT IS TRANSFERRED: two models with the same layers and ANY two
    assignments of the `trainable` flags (all trainable / some layers frozen / the whole model
    frozen) unfold to the same layers with the same variables -/
theorem C15_unfold_layers_trainable_irrelevant (rs : ℚ → ℚ) (init init' : ℕ → List T) (ls ks : List MLayer)
    (h : ls.map (·.op) = ks.map (·.op)) :
    (unfoldLayers rs init ls).map (List.map (·.op)) = (unfoldLayers rs init' ks).map (List.map (·.op)) := by
  rw [C15_unfold_layers_spec, C15_unfold_layers_spec]; exact unfoldedLayers_ops rs ls ks h

/-- … and the flags themselves are carried over (`trainable` is part of the configuration) -/
theorem C15_unfold_layers_flags (rs : ℚ → ℚ) (init : ℕ → List T) (ls ls' : List MLayer)
    (h : unfoldLayers rs init ls = some ls') : ls'.map (·.trainable) = ls.map (·.trainable) := by
  rw [C15_unfold_layers_spec] at h
  induction ls generalizing ls' with
  | nil => simp only [unfoldedLayers, Option.some.injEq] at h; subst h; rfl
  | cons l ls ih =>
    simp only [unfoldedLayers, Option.bind_eq_some_iff, Option.map_eq_some_iff] at h
    obtain ⟨l', hl, r, hr, rfl⟩ := h
    simp only [MLayer.unfolded, Option.map_eq_some_iff] at hl
    obtain ⟨o, _, rfl⟩ := hl
    simp [ih r hr]

/-- the unfolded layer list always exists -/
theorem C15_unfold_layers_exists (rs : ℚ → ℚ) (init : ℕ → List T) (ls : List MLayer) :
    (unfoldLayers rs init ls).isSome := by
  rw [C15_unfold_layers_spec]
  induction ls with
  | nil => rfl
  | cons l ls ih =>
    obtain ⟨r, hr⟩ := Option.isSome_iff_exists.mp ih
    obtain ⟨op, tr⟩ := l
    cases op <;>
      simp [unfoldedLayers, MLayer.unfolded, LayerOp.unfolded, hr, Folded.unfold, Folded.foldedWeights, foldedBias]

theorem unfoldedLayers_pointwise (rs : ℚ → ℚ) (ls ls' : List MLayer) (h : unfoldedLayers rs ls = some ls') (i : ℕ) :
    (opsOf ls i).unfolded rs = some (opsOf ls' i) := by
  induction ls generalizing ls' i with
  | nil => simp only [unfoldedLayers, Option.some.injEq] at h; subst h; simp [opsOf, LayerOp.unfolded]
  | cons l ls ih =>
    simp only [unfoldedLayers, Option.bind_eq_some_iff, Option.map_eq_some_iff] at h
    obtain ⟨l', hl, r, hr, rfl⟩ := h
    simp only [MLayer.unfolded, Option.map_eq_some_iff] at hl
    obtain ⟨o, ho, rfl⟩ := hl
    cases i with
    | zero => simpa [opsOf] using ho
    | succ j => simpa [opsOf] using ih r hr j

/-- reading the network through the layer list: the expression of the unfolded layer list is the
    unfolding (`Net.unfoldAll`, §4) of the expression of the source list, for every DAG -/
theorem toNet_unfolded (rs : ℚ → ℚ) (g : Graph) (ops ops' : ℕ → LayerOp)
    (h : ∀ i, (ops i).unfolded rs = some (ops' i)) (fuel i : ℕ) :
    (toNet g ops fuel i).unfoldAll rs = some (toNet g ops' fuel i) := by
  induction fuel generalizing i with
  | zero => rfl
  | succ fuel ih =>
    have hi := h i
    simp only [toNet]
    cases ho : ops i with
    | input => rw [ho] at hi; simp only [LayerOp.unfolded, Option.some.injEq] at hi; rw [← hi]; rfl
    | conv P =>
      rw [ho] at hi; simp only [LayerOp.unfolded, Option.some.injEq] at hi; rw [← hi]
      simp only [Net.unfoldAll, ih, Option.map_some]
    | bn p c =>
      rw [ho] at hi; simp only [LayerOp.unfolded, Option.some.injEq] at hi; rw [← hi]
      simp only [Net.unfoldAll, ih, Option.map_some]
    | folded L =>
      rw [ho] at hi; simp only [LayerOp.unfolded, Option.map_eq_some_iff] at hi
      obtain ⟨P, hP, hi⟩ := hi
      rw [← hi]
      simp only [Net.unfoldAll, ih, hP, Option.map_some, Option.bind_some]
    | un f =>
      rw [ho] at hi; simp only [LayerOp.unfolded, Option.some.injEq] at hi; rw [← hi]
      simp only [Net.unfoldAll, ih, Option.map_some]
    | bin f =>
      rw [ho] at hi; simp only [LayerOp.unfolded, Option.some.injEq] at hi; rw [← hi]
      simp only [Net.unfoldAll, ih, Option.map_some, Option.bind_some]

/-- THE FUNCTION: for every DAG `g` over the layer list, every output node, every fresh
    initialisation and every assignment of the trainable flags, the model made of the layers that
    `unfold_model` returns computes what the source model computes -/
theorem C15_unfold_layers_function (rs : ℚ → ℚ) (x : T) (g : Graph) (init : ℕ → List T) (ls ls' : List MLayer)
    (h : unfoldLayers rs init ls = some ls') (fuel out : ℕ) :
    (toNet g (opsOf ls') fuel out).eval rs x = (toNet g (opsOf ls) fuel out).eval rs x := by
  rw [C15_unfold_layers_spec] at h
  exact C15_unfold_model rs x _ _ (toNet_unfolded rs g _ _ (unfoldedLayers_pointwise rs ls ls' h) fuel out)

/-- every variable of every non-folded layer arrives unchanged, and a folded layer's clone holds
    exactly `[folded kernel, folded bias]` -/
theorem C15_unfold_layers_weights (rs : ℚ → ℚ) (init : ℕ → List T) (ls ls' : List MLayer)
    (h : unfoldLayers rs init ls = some ls') (i : ℕ) :
    (∀ L, opsOf ls i = .folded L →
        ∃ w, L.foldedWeights rs = some w ∧ (opsOf ls' i).weights = [w.1, w.2]) ∧
    ((∀ L, opsOf ls i ≠ .folded L) → (opsOf ls' i).weights = (opsOf ls i).weights) := by
  rw [C15_unfold_layers_spec] at h
  have hp := unfoldedLayers_pointwise rs ls ls' h i
  constructor
  · intro L hL
    rw [hL] at hp
    simp only [LayerOp.unfolded, Option.map_eq_some_iff] at hp
    obtain ⟨P, hP, hp⟩ := hp
    obtain ⟨hw, hb, _⟩ := C15_unfold_weights L rs P hP
    refine ⟨_, hw, ?_⟩
    rw [← hp]
    cases hb' : P.bias with
    | none => simp [hb'] at hb
    | some b => simp [LayerOp.weights, hb']
  · intro hne
    cases ho : opsOf ls i with
    | folded L => exact absurd ho (hne L)
    | input => rw [ho] at hp; simp only [LayerOp.unfolded, Option.some.injEq] at hp; rw [← hp]
    | conv P => rw [ho] at hp; simp only [LayerOp.unfolded, Option.some.injEq] at hp; rw [← hp]
    | bn p c => rw [ho] at hp; simp only [LayerOp.unfolded, Option.some.injEq] at hp; rw [← hp]
    | un f => rw [ho] at hp; simp only [LayerOp.unfolded, Option.some.injEq] at hp; rw [← hp]
    | bin f => rw [ho] at hp; simp only [LayerOp.unfolded, Option.some.injEq] at hp; rw [← hp]

/-- WHY A GUARD ON TRAINABILITY IS WRONG (the family of seed C15-8): a transfer loop that skips the
    layers without TRAINABLE weights leaves a frozen layer's clone at its fresh initialisation — a
    frozen 1×1 conv with kernel 2 / bias 1, clone initialised with kernel 7 / bias 0 — while the
    loop as coded delivers kernel 2 / bias 1 whatever the flag says -/
theorem C15_unfold_layers_trainable_guard_witness :
    ((transferFrom (fun l => l.trainableWeights.isEmpty) (fun _ => 1/2) (fun _ => [[7], [0]]) 0
        [{ op := .conv exPlain, trainable := false }]).map (List.map (·.op.weights)) = some [[[7], [0]]]) ∧
    ((unfoldLayers (fun _ => 1/2) (fun _ => [[7], [0]])
        [{ op := .conv exPlain, trainable := false }]).map (List.map (·.op.weights)) = some [[[2], [1]]]) ∧
    ((transferFrom (fun l => l.trainableWeights.isEmpty) (fun _ => 1/2) (fun _ => [[7], [0]]) 0
        [{ op := .conv exPlain, trainable := true }]).map (List.map (·.op.weights)) = some [[[2], [1]]]) := by
  decide +kernel

/-- non-vacuity: a frozen folded layer, an affine-free batch norm (non-trainable variables only)
    and a frozen plain conv; clones initialised with 7s: the unfolded list holds the folded weights
    ([4],[5]), the moving statistics ([1],[1]) and the conv's (2, 1) -/
example : (unfoldLayers (fun _ => 1/2) (fun _ => [[7], [7], [7], [7]])
      [{ op := .folded exL, trainable := false },
       { op := .bn { exBN with gamma := none, beta := none } exPlain.cfg.chan },
       { op := .conv exPlain, trainable := false }]).map (List.map (·.op.weights))
    = some [[[4], [5]], [[1], [1]], [[2], [1]]] := by decide +kernel


/-! ### 11. `convert_to_folded_model` on a DAG with ORDERED input lists (fix round Q, fix 41c6274)

  The rewiring of `convert_to_folded_model` (also reached through
  `model_quantize(enable_bn_folding=True)`) used to feed a multi-input layer its inputs in the
  order of `graph.predecessors()` — the edge added for a removed batch norm last — so
  `Subtract([bn(conv_a), conv_b])` came back as `conv_b - conv_a`.  The repaired code keeps every
  input at its position.  `OGraph` (Model/Fold.lean) has n-ary nodes with ordered input lists and an
  arbitrary function of the ordered list at every merge. -/

theorem getD_map_range {α : Type} (n k : ℕ) (f : ℕ → α) (d : α) (h : k < n) :
    ((List.range n).map f).getD k d = f k := by
  simp [List.getD_eq_getElem?_getD, h]

theorem OGraph.valF_fuel (rs : ℚ → ℚ) (x : T) (g : OGraph) :
    ∀ f f' k, k < f → k < f' → g.valF rs x f k = g.valF rs x f' k := by
  intro f
  induction f with
  | zero => intro f' k h; omega
  | succ f ih =>
    intro f' k h h'
    cases f' with
    | zero => omega
    | succ f' =>
      simp only [OGraph.valF]
      congr 2
      apply List.map_congr_left
      intro i _
      split
      · apply ih <;> omega
      · rfl

/-- the forward equation of the ordered DAG -/
theorem OGraph.val_eq (rs : ℚ → ℚ) (x : T) (g : OGraph) (k : ℕ) :
    g.val rs x k = (allSome ((g.node k).ins.map fun i => if i < k then g.val rs x i else none)).bind
      ((g.node k).op.apply rs x) := by
  unfold OGraph.val
  conv_lhs => rw [OGraph.valF]
  congr 2
  apply List.map_congr_left
  intro i _
  split
  · apply OGraph.valF_fuel <;> omega
  · rfl

theorem shape_getD (g : OGraph) (k : ℕ) :
    (g.shape.getD k ⟨.other, []⟩) = ⟨(g.node k).kind, (g.node k).ins⟩ := by
  unfold OGraph.shape OGraph.node
  by_cases h : k < g.length
  · simp [List.getD_eq_getElem?_getD, h]
  · simp [List.getD_eq_getElem?_getD, h, ONode.dead]

theorem shape_length (g : OGraph) : g.shape.length = g.length := by simp [OGraph.shape]


theorem kindAt_lt (g : Graph) (i : ℕ) (h : kindAt g i ≠ .other) : i < g.length := by
  by_contra hn
  apply h
  unfold kindAt
  simp [List.getD_eq_getElem?_getD, Nat.not_lt.1 hn]

theorem mem_bnToDelete (g : Graph) (p : ℕ) : p ∈ bnToDelete g ↔ ∃ i, foldSite g i = some p := by
  unfold bnToDelete
  simp only [List.mem_filterMap, List.mem_range]
  constructor
  · rintro ⟨i, _, h⟩; exact ⟨i, h⟩
  · rintro ⟨i, h⟩
    refine ⟨i, ?_, h⟩
    apply kindAt_lt
    rcases (C15_foldSite_sound g i p h).1 with hk | hk <;> rw [hk] <;> decide

/-- nothing but the batch norm reads a fold site -/
theorem site_only_successor (g : Graph) (i j : ℕ) (h : foldSite g i = some j) (k : ℕ) (hk : k < g.length)
    (hi : i ∈ (g.getD k ⟨.other, []⟩).preds) : k = j := by
  have hs := (C15_foldSite_sound g i j h).2.1
  unfold successors at hs
  have hmem : k ∈ (List.range g.length).filter fun j => (g.getD j ⟨.other, []⟩).preds.contains i := by
    rw [List.mem_filter]
    exact ⟨List.mem_range.2 hk, by simpa using hi⟩
  simp only at hs
  split at hs
  · rename_i he
    simp only [List.isEmpty_iff] at he
    rw [he] at hmem; simp at hmem
  · rw [hs] at hmem; simpa using hmem

theorem site_not_deleted (g : Graph) (i j : ℕ) (h : foldSite g i = some j) : i ∉ bnToDelete g := by
  intro hd
  obtain ⟨c, hc⟩ := (mem_bnToDelete g i).1 hd
  have h1 := (C15_foldSite_sound g c i hc).2.2.2
  rcases (C15_foldSite_sound g i j h).1 with hk | hk <;> rw [hk] at h1 <;> cases h1

theorem redirect_kept (g : Graph) (p : ℕ) (h : p ∉ bnToDelete g) : redirect g p = p := by
  unfold redirect; simp [h]


/-- well-formed source model: inbound layers come earlier in `model.layers`; behind every selected
    site sits a stock linear conv whose batch norm has that conv as its single input and
    normalises the conv's channel axis -/
structure OGraph.WF (g : OGraph) : Prop where
  topo : ∀ k i, i ∈ (g.node k).ins → i < k
  site : ∀ i j, foldSite g.shape i = some j →
    ∃ P p, (g.node i).op = .conv P ∧ (g.node j).op = .bn p P.cfg.chan ∧ (g.node j).ins = [i] ∧
      P.act = none ∧ P.qk = none ∧ P.qb = none

theorem convert_length (g : OGraph) (mode : FoldMode) : (g.convert mode).length = g.length := by
  simp [OGraph.convert]

theorem convert_node (g : OGraph) (mode : FoldMode) (k : ℕ) (hk : k < g.length) :
    (g.convert mode).node k =
      (match foldSite g.shape k, (g.node k).op with
       | some j, .conv P =>
         match (g.node j).op with
         | .bn p _ => ⟨.other, rewiredIns g.shape (g.node k).ins, .folded (foldLayer P p mode)⟩
         | _ => ⟨(g.node k).kind, rewiredIns g.shape (g.node k).ins, (g.node k).op⟩
       | _, _ => ⟨(g.node k).kind, rewiredIns g.shape (g.node k).ins, (g.node k).op⟩) := by
  unfold OGraph.convert
  rw [OGraph.node, getD_map_range _ _ _ _ hk]
  rfl

theorem convert_ins (g : OGraph) (mode : FoldMode) (k : ℕ) (hk : k < g.length) :
    ((g.convert mode).node k).ins = rewiredIns g.shape (g.node k).ins := by
  rw [convert_node g mode k hk]
  split
  · split <;> rfl
  · rfl

theorem redirect_deleted (g : OGraph) (hw : g.WF) (c i : ℕ) (h : foldSite g.shape c = some i) :
    redirect g.shape i = c := by
  obtain ⟨P, p, _, _, hins, _⟩ := hw.site c i h
  have hd : i ∈ bnToDelete g.shape := (mem_bnToDelete _ _).2 ⟨c, h⟩
  unfold redirect
  rw [if_pos (by simpa using hd), shape_getD, hins]
  rfl

/-- THE FUNCTION on the ordered DAG: every surviving node of the converted model (rewired inputs in
    the consumers' own order, every site conv replaced by the folded layer that carries the conv
    weights and the removed batch norm's parameters) computes the tensor of the source node it
    stands for — for every DAG, every arity, EVERY merge function `f` of the ordered input list
    (Subtract, Concatenate, Dot, … included), every set of sites the selection rule finds, either
    folding mode, every `rs` -/
theorem C15_convert_graph_function (g : OGraph) (hw : g.WF) (mode : FoldMode) (rs : ℚ → ℚ) (x : T) :
    ∀ k, k < g.length → k ∉ bnToDelete g.shape →
      (g.convert mode).val rs x k = g.val rs x (carrier g.shape k) := by
  intro k
  induction k using Nat.strong_induction_on with
  | _ k ih =>
  intro hk hnd
  have hin : ((rewiredIns g.shape (g.node k).ins).map fun i => if i < k then (g.convert mode).val rs x i else none) =
      (g.node k).ins.map fun i => if i < k then g.val rs x i else none := by
    unfold rewiredIns
    rw [List.map_map]
    apply List.map_congr_left
    intro i hi
    have hik := hw.topo k i hi
    simp only [Function.comp]
    by_cases hd : i ∈ bnToDelete g.shape
    · obtain ⟨c, hc⟩ := (mem_bnToDelete _ _).1 hd
      obtain ⟨P, p, _, _, hins, _⟩ := hw.site c i hc
      have hci : c < i := hw.topo i c (by rw [hins]; simp)
      rw [redirect_deleted g hw c i hc, if_pos (by omega), if_pos hik,
        ih c (by omega) (by omega) (site_not_deleted _ c i hc)]
      simp [carrier, hc]
    · rw [redirect_kept _ _ hd]
      simp only [if_pos hik]
      rw [ih i hik (by omega) hd]
      have : foldSite g.shape i = none := by
        by_contra hne
        obtain ⟨j, hj⟩ := Option.ne_none_iff_exists'.1 hne
        have hkj := site_only_successor g.shape i j hj k (by rw [shape_length]; exact hk)
          (by rw [shape_getD]; exact hi)
        exact hnd (hkj ▸ (mem_bnToDelete _ _).2 ⟨i, hj⟩)
      simp [carrier, this]
  rw [OGraph.val_eq, convert_ins g mode k hk, hin]
  cases hs : foldSite g.shape k with
  | none =>
    have hnode : ((g.convert mode).node k).op = (g.node k).op := by
      rw [convert_node g mode k hk, hs]
    rw [hnode]
    simp only [carrier, hs, Option.getD_none]
    rw [← OGraph.val_eq]
  | some j =>
    obtain ⟨P, p, hop, hbn, hins, hact, hqk, hqb⟩ := hw.site k j hs
    have hnode : ((g.convert mode).node k).op = .folded (foldLayer P p mode) := by
      rw [convert_node g mode k hk, hs, hop]
      simp only [hbn]
    have hkj : k < j := hw.topo j k (by rw [hins]; simp)
    rw [hnode]
    simp only [carrier, hs, Option.getD_some]
    rw [OGraph.val_eq rs x g j, hins, hbn]
    simp only [List.map_cons, List.map_nil, if_pos hkj]
    rw [OGraph.val_eq rs x g k, hop]
    cases allSome ((g.node k).ins.map fun i => if i < k then g.val rs x i else none) with
    | none => rfl
    | some vs =>
      match vs with
      | [] => rfl
      | [v] =>
        simp only [Option.bind_some, NOp.apply, allSome, Option.map_some]
        have := C15_fold_identity (foldLayer P p mode) rs noStats v hqk hqb hact
        rw [this]
        unfold convThenBN foldLayer
        have hP : ({ cfg := P.cfg, kernel := P.kernel, bias := P.bias, qk := none, qb := none, act := none } : Plain) = P := by
          cases P; simp_all
        simp only [hP]
      | _ :: _ :: _ => rfl


/-- … in particular the model output: the output layer of the source model (a removed batch norm is
    represented by its folded conv) gives the same predictions -/
theorem C15_convert_graph_output (g : OGraph) (hw : g.WF) (mode : FoldMode) (rs : ℚ → ℚ) (x : T) (out : ℕ)
    (ho : out < g.length) (hs : foldSite g.shape out = none) :
    (g.convert mode).val rs x (redirect g.shape out) = g.val rs x out := by
  by_cases hd : out ∈ bnToDelete g.shape
  · obtain ⟨c, hc⟩ := (mem_bnToDelete _ _).1 hd
    obtain ⟨P, p, _, _, hins, _⟩ := hw.site c out hc
    have hco : c < out := hw.topo out c (by rw [hins]; simp)
    rw [redirect_deleted g hw c out hc,
      C15_convert_graph_function g hw mode rs x c (by omega) (site_not_deleted _ c out hc)]
    simp [carrier, hc]
  · rw [redirect_kept _ _ hd, C15_convert_graph_function g hw mode rs x out ho hd]
    simp [carrier, hs]

/-- INPUT ORDER (repaired code, fix 41c6274): in the returned model every layer has as many inputs
    as in the source model, and position by position the input is the source input itself, or —
    when that was a removed batch norm — the conv in front of it.  Any arity, any DAG. -/
theorem C15_convert_input_order (g : OGraph) (hw : g.WF) (mode : FoldMode) (k : ℕ) (hk : k < g.length) :
    ((g.convert mode).node k).ins.length = (g.node k).ins.length ∧
    ∀ (pos p : ℕ), (g.node k).ins[pos]? = some p →
      (p ∉ bnToDelete g.shape → ((g.convert mode).node k).ins[pos]? = some p) ∧
      (∀ c, foldSite g.shape c = some p → ((g.convert mode).node k).ins[pos]? = some c) := by
  rw [convert_ins g mode k hk]
  unfold rewiredIns
  refine ⟨by simp, ?_⟩
  intro pos p hp
  rw [List.getElem?_map, hp]
  refine ⟨fun hd => ?_, fun c hc => ?_⟩
  · rw [Option.map_some, redirect_kept _ _ hd]
  · rw [Option.map_some, redirect_deleted g hw c p hc]

/-- the same for the model `convert_to_folded_model` itself returns (layers unchanged) -/
theorem C15_rewire_input_order (g : OGraph) (hw : g.WF) (k : ℕ) (hk : k < g.length) :
    (g.rewire.node k).ins.length = (g.node k).ins.length ∧
    (g.rewire.node k).op = (g.node k).op ∧
    ∀ (pos p : ℕ), (g.node k).ins[pos]? = some p →
      (p ∉ bnToDelete g.shape → (g.rewire.node k).ins[pos]? = some p) ∧
      (∀ c, foldSite g.shape c = some p → (g.rewire.node k).ins[pos]? = some c) := by
  have hn : g.rewire.node k = { g.node k with ins := rewiredIns g.shape (g.node k).ins } := by
    unfold OGraph.rewire
    rw [OGraph.node, getD_map_range _ _ _ _ hk]
  rw [hn]
  unfold rewiredIns
  refine ⟨by simp, rfl, ?_⟩
  intro pos p hp
  simp only [List.getElem?_map, hp, Option.map_some]
  exact ⟨fun hd => by rw [redirect_kept _ _ hd], fun c hc => by rw [redirect_deleted g hw c p hc]⟩

/-! the old failing model: `Subtract([bn(conv_a), conv_b])` -/
def exSub : List T → T
  | [u, v] => List.zipWith (· - ·) u v
  | _ => []
def exPlainB : Plain := { exPlain with kernel := [5], bias := none }
def exOG : OGraph :=
  [⟨.input, [], .input⟩, ⟨.conv2d, [0], .conv exPlain⟩, ⟨.bn, [1], .bn exBN exPlain.cfg.chan⟩,
   ⟨.conv2d, [0], .conv exPlainB⟩, ⟨.other, [2, 3], .merge exSub⟩]

example : exOG.WF := by
  constructor
  · intro k i h
    match k with
    | 0 | 1 | 2 | 3 | 4 => simp [OGraph.node, exOG] at h <;> omega
    | k + 5 => simp [OGraph.node, exOG, ONode.dead] at h
  · intro i j h
    have hi : i < 5 := kindAt_lt exOG.shape i (by
      rcases (C15_foldSite_sound _ i j h).1 with hk | hk <;> rw [hk] <;> decide)
    match i, hi with
    | 0, _ => exact absurd (h.symm.trans (by decide : foldSite exOG.shape 0 = none)) (by simp)
    | 2, _ => exact absurd (h.symm.trans (by decide : foldSite exOG.shape 2 = none)) (by simp)
    | 3, _ => exact absurd (h.symm.trans (by decide : foldSite exOG.shape 3 = none)) (by simp)
    | 4, _ => exact absurd (h.symm.trans (by decide : foldSite exOG.shape 4 = none)) (by simp)
    | 1, _ =>
      have : j = 2 := by
        have : foldSite exOG.shape 1 = some 2 := by decide
        rw [this] at h; exact (Option.some.inj h).symm
      subst this
      exact ⟨exPlain, exBN, rfl, rfl, rfl, rfl, rfl, rfl⟩

/-- regression witness of the repaired defect (fix 41c6274): the merge of the returned model reads
    `[conv_a, conv_b]` (it read `[conv_b, conv_a]`), and with the parameters carried over the
    folded model computes the source model's 2 = 17 - 15 (it computed -2) -/
theorem C15_rewire_input_order_fixed_witness :
    rewiredIns exOG.shape [2, 3] = [1, 3] ∧ rewiredInsOld exOG.shape [2, 3] = [3, 1] ∧
    ((exOG.convert .ema).node 4).ins = [1, 3] ∧
    exOG.val (fun _ => 1/2) [3] 4 = some [2] ∧
    (exOG.convert .ema).val (fun _ => 1/2) [3] 4 = some [2] ∧
    OGraph.val (fun _ => 1/2) [3]
      ((exOG.convert .ema).set 4 ⟨.other, rewiredInsOld exOG.shape [2, 3], .merge exSub⟩) 4 = some [-2] := by
  refine ⟨by decide, by decide, by decide +kernel, by decide +kernel, by decide +kernel, by decide +kernel⟩

end QKV.Fold
