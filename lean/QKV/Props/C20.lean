/-
  C20 — AutoQKeras trials respect the search limits and score smaller models higher.

  Property (verbatim, properties.jsonl): Every trial model that the AutoQKeras hyper-model can
  generate, for any choice of hyper-parameters, uses only quantizers taken from the quantization
  configuration whose bit width does not exceed the limit set for that layer class or name pattern
  and tensor role, keeps layers outside the limits and the selected layer indexes unquantized,
  shares one choice among layers grouped by a pattern, and has the architecture of the reference
  model (up to the requested filter scaling).  The forgiving-factor bonus is zero when trial and
  reference sizes coincide, strictly decreasing in trial size, positive for smaller and negative
  for larger trials, and for dense, convolution and activation layers the size model counts each
  tensor's elements times the bits of the quantizer applied to it (the reference width where none
  is applied).

  This file holds ONLY property theorems (and non-vacuity examples).  Models: QKV.Model.AutoQ,
  QKV.Model.Forgiving; predicates (`ValidOracle`, `resolveKey`, `AllowedAt`, `GroupsOK`, `groupOf`,
  `Included`, `InScope`, `delta` over ℝ) are defined in QKV.Lemmas.AutoQ / QKV.Lemmas.Forgiving.
  The hyper-parameter source is an arbitrary function `env.choose`; nothing below restricts it, so
  every statement holds for ALL hyper-parameter assignments.
-/
import QKV.Lemmas.AutoQ
import QKV.Lemmas.Forgiving
namespace QKV.Props.C20
open QKV QKV.AutoQ QKV.Forgiving

/-! ## 1. one `_get_quantizer` call: configured quantizer, within the limit -/

/-- Whatever the tuner answers and whatever the group cache holds (as long as the cache was built
    by earlier calls, `GroupsOK`), a returned `(q, bits)` is an entry of a configuration field that
    the head dispatch maps to the list position used, and the limit entry `limit[key][idx]` of the
    layer's pattern (first match) or class admits it. -/
theorem C20_within_limit (env : Env) (st st' : St) (head lname cls : String) (isLinear : Bool)
    (q : String) (b : Int) (hG : GroupsOK env st.groups)
    (h : getQuantizer env st head lname cls isLinear = .ok (some (q, b), st')) :
    ∃ key, resolveKey env lname cls = some key ∧
      AllowedAt env key (headField isLinear head lname).2 q b :=
  let ⟨_, _, _, hs⟩ := getQuantizer_spec hG h
  let ⟨key, hk, hA, _⟩ := hs q b rfl
  ⟨key, hk, hA⟩

/-- the same, spelled out: a numeric limit bounds the bit width, a list limit contains the name -/
theorem C20_within_limit_explicit (env : Env) (st st' : St) (head lname cls : String)
    (isLinear : Bool) (q : String) (b : Int) (hG : GroupsOK env st.groups)
    (h : getQuantizer env st head lname cls isLinear = .ok (some (q, b), st'))
    (key : String) (l : List LimVal) (hkey : resolveKey env lname cls = some key)
    (hl : alookup key env.limit = some (.vals l)) :
    (∀ L, pyIndex l (headField isLinear head lname).2 = some (.num L) → b ≤ L) ∧
    (∀ qs, pyIndex l (headField isLinear head lname).2 = some (.lst qs) → q ∈ qs) ∧
    (∃ field qd, (field, (headField isLinear head lname).2) ∈ fieldIndexTable ∧
        alookup field env.config = some qd ∧ (q, b) ∈ qd) := by
  obtain ⟨key', hk', l', lv, field, qd, hl', hlv, hf, hqd, hmem, hok⟩ :=
    C20_within_limit env st st' head lname cls isLinear q b hG h
  rw [hkey] at hk'; cases hk'
  rw [hl] at hl'; cases hl'
  refine ⟨?_, ?_, field, qd, hf, hqd, hmem⟩
  · intro L hL; rw [hlv] at hL; cases hL; exact hok
  · intro qs hqs; rw [hlv] at hqs; cases hqs; exact hok

/-- a choice that is not served from the group cache comes from the field of the head itself -/
theorem C20_fresh_choice_field (env : Env) (st st' : St) (head lname cls : String) (isLinear : Bool)
    (q : String) (b : Int) (hG : GroupsOK env st.groups)
    (h : getQuantizer env st head lname cls isLinear = .ok (some (q, b), st'))
    (hfresh : patternOf env lname = none) :
    ∃ key, resolveKey env lname cls = some key ∧
      AllowedField env key (headField isLinear head lname).1 (headField isLinear head lname).2 q b :=
  let ⟨_, _, _, hs⟩ := getQuantizer_spec hG h
  let ⟨key, hk, _, _, hF⟩ := hs q b rfl
  ⟨key, hk, hF (Or.inr hfresh)⟩

/-- the empty cache (`self.groups = {}` at the start of `build`) satisfies the invariant, and every
    call preserves it -/
theorem C20_groups_invariant (env : Env) : GroupsOK env [] := by
  intro key idx q b h; simp [alookup] at h

theorem C20_groups_invariant_step (env : Env) (st st' : St) (head lname cls : String)
    (isLinear : Bool) (r : Option (String × Int)) (hG : GroupsOK env st.groups)
    (h : getQuantizer env st head lname cls isLinear = .ok (r, st')) : GroupsOK env st'.groups :=
  (getQuantizer_spec hG h).1

/-! ## 2. layers outside the limit get no quantizer -/

/-- class not a key of `limit` and no key matches the layer name → `(None, -1)`, nothing asked of
    the tuner, cache untouched -/
theorem C20_outside_unquantized (env : Env) (st st' : St) (head lname cls : String) (isLinear : Bool)
    (r : Option (String × Int)) (hG : GroupsOK env st.groups)
    (hcls : alookup cls env.limit = none)
    (hpat : ∀ p ∈ limKeys env.limit, env.matches p lname = false)
    (h : getQuantizer env st head lname cls isLinear = .ok (r, st')) : r = none ∧ st' = st := by
  obtain ⟨_, _, hn, hs⟩ := getQuantizer_spec hG h
  have hres : resolveKey env lname cls = none := by
    unfold resolveKey
    rw [firstMatch_none (m := fun p => env.matches p lname) hpat]
    simp [hcls]
  cases r with
  | none => exact ⟨rfl, (hn rfl).1⟩
  | some qb =>
    obtain ⟨q, b⟩ := qb
    obtain ⟨key, hk, _⟩ := hs q b rfl
    rw [hres] at hk; cases hk

/-- and the call does succeed whenever the configuration has the field the head selects -/
theorem C20_outside_unquantized_total (env : Env) (st : St) (head lname cls : String)
    (isLinear : Bool) (hcls : alookup cls env.limit = none)
    (hpat : ∀ p ∈ limKeys env.limit, env.matches p lname = false)
    (hf : (alookup (headField isLinear head lname).1 env.config).isSome) :
    getQuantizer env st head lname cls isLinear = .ok (none, st) := by
  unfold getQuantizer
  simp only
  cases hq : alookup (headField isLinear head lname).1 env.config with
  | none => rw [hq] at hf; cases hf
  | some qd =>
    simp only
    rw [firstMatch_none (m := fun p => env.matches p lname) hpat]
    simp [hcls]

/-! ## 3. layers grouped by one pattern share one choice -/

/-- In ANY sequence of `_get_quantizer` calls on one hyper-model, two calls whose layers are grouped
    by the same pattern (first matching key) and that address the same list position return the
    same `(quantizer, bits)`.  Induction over the call list with the cache as invariant. -/
theorem C20_group_shared (env : Env) (st st' : St) (calls : List Call)
    (rs : List (Option (String × Int))) (hG : GroupsOK env st.groups)
    (h : runCalls env st calls = .ok (rs, st')) :
    (calls.zip rs).Pairwise fun x y =>
      (groupOf env x.1).isSome → groupOf env x.1 = groupOf env y.1 → x.2 = y.2 :=
  runCalls_shared hG h

/-! ## 4. `quantize_model`: selection by `layer_indexes`, architecture -/

/-- every entry of the dictionary handed to `model_quantize` belongs to a selected layer -/
theorem C20_entries_selected (env : Env) (tn : Tune) (layers : List Layer) (o : QmOut)
    (h : quantizeModel env tn layers = .ok o) :
    ∀ x ∈ o.qdict, ∃ j L, layers[j]? = some L ∧ L.name = x.1 ∧ Included tn j :=
  (quantizeModel_shape h).2

/-- with distinct layer names (Keras guarantees them): a layer whose index is not in
    `layer_indexes` has no entry — it reaches `model_quantize` unquantized -/
theorem C20_excluded_unquantized (env : Env) (tn : Tune) (layers : List Layer) (o : QmOut)
    (hnd : (layers.map Layer.name).Nodup)
    (h : quantizeModel env tn layers = .ok o) (j : Nat) (L : Layer) (hj : layers[j]? = some L)
    (hex : ¬ Included tn j) : ∀ x ∈ o.qdict, x.1 ≠ L.name := by
  intro x hx heq
  obtain ⟨j', L', hj', hn, hinc⟩ := C20_entries_selected env tn layers o h x hx
  have h1 : (layers.map Layer.name)[j]? = some L.name := by simp [hj]
  have h2 : (layers.map Layer.name)[j']? = some L.name := by simp [hj', hn, heq]
  have hlt : j < (layers.map Layer.name).length := by
    by_contra hge
    rw [List.getElem?_eq_none (by omega)] at h1; cases h1
  have : j = j' := (List.getElem?_inj hlt hnd).mp (by rw [h1, h2])
  subst this
  exact hex hinc

/-- a layer whose index is not in `layer_indexes` is handed to `model_quantize` exactly as it was in
    the reference model — same position, class, activation, and `units` / `filters` NOT rescaled even
    under filter tuning — for every selection, the empty one included -/
theorem C20_excluded_unchanged (env : Env) (tn : Tune) (layers : List Layer) (o : QmOut)
    (h : quantizeModel env tn layers = .ok o) (j : Nat) (L : Layer) (hj : layers[j]? = some L)
    (hex : ¬ Included tn j) : o.arch[j]? = some L :=
  quantizeModel_excluded h j L hj hex

/-- an EMPTY selection (`layer_indexes = []`, `()`, `range(0)` — not `None`) selects no layer: the
    dictionary handed to `model_quantize` is empty and the layer list is the reference list, for all
    tuner answers, limits and filter-tuning modes.  (`none` = "no selection given" is a different
    value: see the example below.) -/
theorem C20_empty_selection_unquantized (env : Env) (tn : Tune) (layers : List Layer) (o : QmOut)
    (hsel : tn.layerIndexes = some []) (h : quantizeModel env tn layers = .ok o) :
    o.qdict = [] ∧ o.arch = layers := by
  have hno : ∀ j, ¬ Included tn j := by
    intro j hinc; unfold Included at hinc; rw [hsel] at hinc; simp at hinc
  constructor
  · rcases hq : o.qdict with _ | ⟨x, t⟩
    · rfl
    · obtain ⟨j, _, _, _, hinc⟩ := C20_entries_selected env tn layers o h x (by rw [hq]; simp)
      exact absurd hinc (hno j)
  · obtain ⟨⟨nf, _, hall⟩, _⟩ := quantizeModel_shape h
    have hlen : layers.length = o.arch.length := hall.length_eq
    apply List.ext_getElem?
    intro j
    by_cases hj : j < layers.length
    · rw [quantizeModel_excluded h j layers[j] (by simp [hj]) (hno j)]
      simp [hj]
    · rw [List.getElem?_eq_none (by omega), List.getElem?_eq_none (by omega)]

/-- `layer_indexes` counts through membership only: a list, tuple, range, set or array with the same
    members (any order, duplicates) gives the same dictionary, layer list and tuner calls -/
theorem C20_selection_membership_only (env : Env) (tn : Tune) (ix ix' : List Nat) (layers : List Layer)
    (hsel : tn.layerIndexes = some ix) (hmem : ∀ i, i ∈ ix ↔ i ∈ ix') :
    quantizeModel env { tn with layerIndexes := some ix' } layers = quantizeModel env tn layers :=
  quantizeModel_sel env tn ix ix' layers hsel hmem

/-- the model handed to `model_quantize` has the reference layer list: same names, classes, bias
    flags and activations in the same order; `units`/`filters` are either unchanged or
    `max(int(size·f), 1)` for a factor `f` offered by `filter_range` -/
def ArchPreserved (L L' : Layer) : Prop :=
  L'.name = L.name ∧ L'.cls = L.cls ∧ L'.useBias = L.useBias ∧ L'.act = L.act ∧
  (L'.size = L.size ∨ ∃ f ∈ filterRange, L'.size = scaled L.size f)

theorem C20_architecture (env : Env) (tn : Tune) (layers : List Layer) (o : QmOut)
    (hv : ValidOracleF tn.chooseF) (h : quantizeModel env tn layers = .ok o) :
    List.Forall₂ ArchPreserved layers o.arch := by
  obtain ⟨⟨nf, hnf, hall⟩, _⟩ := quantizeModel_shape h
  have hnfm : nf ∈ filterRange := by
    rcases hnf with rfl | rfl
    · simp [filterRange]
    · exact hv _
  refine List.Forall₂.imp ?_ hall
  intro L L' ⟨h1, h2, h3, h4, h5⟩
  refine ⟨h1, h2, h3, h4, ?_⟩
  rcases h5 with h5 | ⟨_, _, f, hf, hs⟩
  · exact Or.inl h5
  · rcases hf with rfl | rfl
    · exact Or.inr ⟨_, hnfm, hs⟩
    · exact Or.inr ⟨_, hv _, hs⟩

/-- without filter tuning the layer list is handed over unchanged -/
theorem C20_architecture_none (env : Env) (tn : Tune) (layers : List Layer) (o : QmOut)
    (hn : tunes tn = false) (h : quantizeModel env tn layers = .ok o) : o.arch = layers := by
  obtain ⟨⟨nf, _, hall⟩, _⟩ := quantizeModel_shape h
  have : List.Forall₂ (fun L L' => L' = L) layers o.arch := by
    refine List.Forall₂.imp ?_ hall
    intro L L' ⟨h1, h2, h3, h4, h5⟩
    rcases h5 with h5 | ⟨ht, _⟩
    · cases L; cases L'; simp_all
    · rw [hn] at ht; cases ht
  have key : ∀ a b : List Layer, List.Forall₂ (fun L L' => L' = L) a b → b = a := by
    intro a b hab
    induction hab with
    | nil => rfl
    | cons hab _ ih => rw [hab, ih]
  exact key _ _ this

/-! ## 5. the dictionary handed to `model_quantize`, per layer and role (after fixes F1–F3) -/

/-- the role is decided by the suffix alone, whatever the layer is called (fix F3) -/
theorem C20_head_role (n : String) :
    headField false (n ++ "_kernel") n = ("kernel", 0) ∧
    headField false (n ++ "_bias") n = ("bias", 1) ∧
    headField false (n ++ "_activation") n = ("activation", -1) ∧
    headField false (n ++ "_recurrent_activation") n = ("recurrent_activation", -1) ∧
    headField false (n ++ "_pointwise_kernel") n = ("kernel", 0) ∧
    headField false (n ++ "_recurrent_kernel") n = ("kernel", 0) ∧
    headField true (n ++ "_activation") n = ("linear", 0) := by
  simp only [headField_suffix]
  decide

/-- Every quantizer string of the dictionary (kernel / depthwise / pointwise / recurrent kernel,
    bias, fused activation, recurrent activation; string entries of `Activation` layers) belongs
    to a layer `L` of that name, and for THAT layer's pattern-or-class key `limit[key][pos(role)]`
    admits it (`QOK`, i.e. `AllowedAt`): an entry of a configuration field of that position with
    bits ≤ the numeric limit / member of the list limit.  For ALL tuner oracles.  (With distinct
    layer names `L` is the layer itself.) -/
theorem C20_model_within_limit (env : Env) (tn : Tune) (layers : List Layer) (o : QmOut)
    (h : quantizeModel env tn layers = .ok o) : ∀ x ∈ o.qdict, EntryOK env layers x.1 x.2 :=
  quantizeModel_within h

/-- spelled out for a numeric limit of a weight-layer entry -/
theorem C20_model_within_limit_numeric (env : Env) (tn : Tune) (layers : List Layer) (o : QmOut)
    (h : quantizeModel env tn layers = .ok o) (name : String) (d : List (String × Option String))
    (hx : (name, QEntry.dict d) ∈ o.qdict) (key q : String) (hq : (key, some q) ∈ d) :
    ∃ L ∈ layers, L.name = name ∧ ∃ suf lkey b, roleSuffix key = some suf ∧
      resolveKey env L.name L.cls = some lkey ∧
      ∀ l Lim, alookup lkey env.limit = some (.vals l) →
        pyIndex l (roleField false suf.toList).2 = some (.num Lim) → b ≤ Lim := by
  obtain ⟨L, hL, hn, suf, hs, lkey, b, hk, l', lv, field, qd, hl', hlv, _, _, _, hok⟩ :=
    C20_model_within_limit env tn layers o h (name, .dict d) hx key q hq
  refine ⟨L, hL, hn, suf, lkey, b, hs, hk, ?_⟩
  intro l Lim hl hp
  rw [hl] at hl'; cases hl'
  rw [hp] at hlv; cases hlv
  exact hok

private def cexConfig : Config :=
  [("kernel", [("binary", 1), ("ternary", 2), ("quantized_bits(4,0,1)", 4)]),
   ("bias", [("quantized_bits(4,0,1)", 4)]),
   ("activation", [("binary", 1), ("quantized_relu(3,1)", 3)]),
   ("linear", [("ternary", 2)])]

private def cexEnv : Env :=
  { limit := [("sep_1", .vals [.num 1, .num 4, .num 3]), ("SeparableConv2D", .vals [.num 4, .num 4, .num 3]),
              ("Dense", .vals [.num 4, .num 4, .num 2])],
    config := cexConfig,
    «matches» := fun p n => p == n,
    choose := fun _ l => if "quantized_bits(4,0,1)" ∈ l then "quantized_bits(4,0,1)" else l.headD "" }

private def cexLayers : List Layer :=
  [{ name := "sep_1", cls := "SeparableConv2D", size := 2 },
   { name := "sep_2", cls := "SeparableConv2D", size := 2 },
   { name := "kernel_fc", cls := "Dense", act := "relu", size := 4 }]

/-- regression witness of F1: `sep_1` (1-bit pattern limit) keeps its own 1-bit pointwise
    quantizer although `sep_2` chooses a 4-bit one -/
theorem C20_pointwise_per_layer_regression :
    (quantizeModel cexEnv {} cexLayers).toOption.map (fun o => (alookup "sep_1" o.qdict, alookup "sep_2" o.qdict)) =
      some (some (.dict [("depthwise_quantizer", some "binary"),
                         ("pointwise_quantizer", some "binary"),
                         ("bias_quantizer", some "quantized_bits(4,0,1)")]),
            some (.dict [("depthwise_quantizer", some "quantized_bits(4,0,1)"),
                         ("pointwise_quantizer", some "quantized_bits(4,0,1)"),
                         ("bias_quantizer", some "quantized_bits(4,0,1)")])) := by decide

/-- regression witness of F2 and F3: a Dense/relu layer NAMED `kernel_fc`, activations limited to
    2 bits: bias from the bias list, the fused activation is the configured 1-bit `binary`, and that
    is what `model_quantize` (activation_bits = 4) puts on the layer -/
theorem C20_fused_activation_regression :
    (quantizeModel cexEnv {} cexLayers).toOption.map
        (fun o => (alookup "kernel_fc" o.qdict,
                   (applied (alookup "kernel_fc" o.qdict)
                      { name := "kernel_fc", cls := "Dense", act := "relu", size := 4 } 4).activation)) =
      some (some (.dict [("kernel_quantizer", some "quantized_bits(4,0,1)"),
                         ("bias_quantizer", some "quantized_bits(4,0,1)"),
                         ("activation_quantizer", some "binary")]),
            some "binary") := by decide

/-- the oracle used in the witnesses is a valid tuner -/
example : ValidOracle cexEnv.choose := by
  intro nm l hl
  show (if "quantized_bits(4,0,1)" ∈ l then "quantized_bits(4,0,1)" else l.headD "") ∈ l
  split
  · assumption
  · cases l with
    | nil => exact absurd rfl hl
    | cons a t => simp

/-- layer names containing the role words are dispatched like any other (were F3 counterexamples) -/
theorem C20_head_suffix_regression :
    headField false "kernel_fc_bias" "kernel_fc" = ("bias", 1) ∧
    headField false "kernel_fc_activation" "kernel_fc" = ("activation", -1) ∧
    headField false "fc_bias_x_activation" "fc_bias_x" = ("activation", -1) := by decide

/-! ## 5b. the limit the hyper-model works with is the DOCUMENTED completion of the user's dictionary

Sections 1–5 are relative to `env.limit`, the dictionary `_get_quantizer` reads — i.e. the one the
constructor left in `self.limit`.  The statements below close the gap to the dictionary the USER wrote:
`_adjust_limit` fills a missing slot with the default of THAT tensor role (weight, bias, recurrent,
activation), never with another role's. -/

/-- the slices `limit[name] + default[length:2] + default[-1:]` / `+ default[length:]` are the
    role-wise completion `docEntry`, for every normalised default (3 or 4 entries), every class name
    and every user list -/
theorem C20_adjust_entry_documented (d : List LimVal) (hd : d.length = 3 ∨ d.length = 4)
    (name : String) (l : List LimVal) (e : LimEntry) (h : adjustEntry d name (.vals l) = .ok e) :
    e = .vals (docEntry d name l) :=
  adjustEntry_doc hd h

/-- role by role.  Non-recurrent class with fewer than 3 values: three slots, weight and bias from the
    user or the weight / bias default, and the slot `_get_quantizer` reads for activations
    (index −1) is the ACTIVATION default — the last entry of the default list, never its recurrent
    entry.  Recurrent class with fewer than 4 values (4-entry default): four slots, the third one from
    the recurrent default. -/
theorem C20_adjust_roles (d : List LimVal) (hd : d.length = 3 ∨ d.length = 4) (name : String)
    (l : List LimVal) :
    (name ∉ SEQUENCE → l.length < 3 →
       (docEntry d name l).length = 3 ∧
       pyIndex (docEntry d name l) 0 = slotOr l 0 (defWeight d) ∧
       pyIndex (docEntry d name l) 1 = slotOr l 1 (defBias d) ∧
       pyIndex (docEntry d name l) (-1) = defActivation d) ∧
    (name ∈ SEQUENCE → l.length < 4 → d.length = 4 →
       (docEntry d name l).length = 4 ∧
       pyIndex (docEntry d name l) 0 = slotOr l 0 (defWeight d) ∧
       pyIndex (docEntry d name l) 1 = slotOr l 1 (defBias d) ∧
       pyIndex (docEntry d name l) 2 = slotOr l 2 (defRecurrent d) ∧
       pyIndex (docEntry d name l) (-1) = slotOr l 3 (defActivation d)) := by
  constructor
  · intro hs hl
    unfold docEntry
    simp only [hs, if_false, hl, if_true]
    rcases hd with hd | hd
    · rcases d with _ | ⟨a, _ | ⟨b, _ | ⟨c, _ | ⟨e4, t⟩⟩⟩⟩ <;> simp at hd
      rcases l with _ | ⟨x, _ | ⟨y, _ | ⟨z, t'⟩⟩⟩ <;>
        first
        | (exfalso; simp only [List.length_cons] at hl; omega)
        | (simp [slotOr, defWeight, defBias, defActivation, pyIndex])
    · rcases d with _ | ⟨a, _ | ⟨b, _ | ⟨c, _ | ⟨e4, _ | ⟨f, t⟩⟩⟩⟩⟩ <;> simp at hd
      rcases l with _ | ⟨x, _ | ⟨y, _ | ⟨z, t'⟩⟩⟩ <;>
        first
        | (exfalso; simp only [List.length_cons] at hl; omega)
        | (simp [slotOr, defWeight, defBias, defActivation, pyIndex])
  · intro hs hl h4
    unfold docEntry
    simp only [hs, if_true, hl]
    rcases d with _ | ⟨a, _ | ⟨b, _ | ⟨c, _ | ⟨e4, _ | ⟨f, t⟩⟩⟩⟩⟩ <;> simp at h4
    rcases l with _ | ⟨x, _ | ⟨y, _ | ⟨z, _ | ⟨u, t'⟩⟩⟩⟩ <;>
      first
      | (exfalso; simp only [List.length_cons] at hl; omega)
      | (simp [slotOr, defWeight, defBias, defRecurrent, defActivation, pyIndex])

/-- the whole constructor: same keys in the same order; keys that are no registered class (patterns,
    "Activation", "default", …) keep their value; a registered class carries the documented entry -/
theorem C20_adjust_limit_documented (U L : Limit) (h : adjustLimit U = .ok L) :
    ∃ d, normDefault (alookup "default" U) = .ok d ∧ (d.length = 3 ∨ d.length = 4) ∧
      limKeys L = limKeys U ∧
      (∀ k, k ∉ REGISTERED → alookup k L = alookup k U) ∧
      (∀ k, k ∈ REGISTERED → alookup k U = none → alookup k L = none) ∧
      (∀ k e, k ∈ REGISTERED → alookup k U = some e →
         ∃ l, e = .vals l ∧ alookup k L = some (.vals (docEntry d k l))) := by
  unfold adjustLimit at h
  cases hd : normDefault (alookup "default" U) with
  | error err => rw [hd] at h; cases h
  | ok d =>
    rw [hd] at h
    dsimp only at h
    have hlen := normDefault_length hd
    obtain ⟨h1, h2, h3, h4⟩ := adjustLoop_spec (by decide : REGISTERED.Nodup) h
    refine ⟨d, rfl, hlen, h1, h2, h4, ?_⟩
    intro k e hk he
    obtain ⟨e', ha, hL⟩ := h3 k e hk he
    cases e with
    | scalar n => simp [adjustEntry] at ha
    | vals l => exact ⟨l, rfl, by rw [hL, adjustEntry_doc hlen ha]⟩

/-- **Within the limit the user SET.**  Constructor + `quantize_model`, all tuner oracles: every
    quantizer string of the dictionary handed to `model_quantize` is admitted (`EntryOK`) under the
    completed dictionary `L`, and `L` is the documented completion of the user's dictionary
    (`C20_adjust_limit_documented`). -/
theorem C20_model_within_user_limit (env : Env) (tn : Tune) (layers : List Layer) (L : Limit)
    (o : QmOut) (h : quantizeModelUser env tn layers = .ok (L, o)) :
    adjustLimit env.limit = .ok L ∧
      ∀ x ∈ o.qdict, EntryOK { env with limit := L } layers x.1 x.2 := by
  unfold quantizeModelUser at h
  cases ha : adjustLimit env.limit with
  | error e => rw [ha] at h; cases h
  | ok lim =>
    rw [ha] at h
    dsimp only at h
    cases hq : quantizeModel { env with limit := lim } tn layers with
    | error e => rw [hq] at h; cases h
    | ok o' =>
      rw [hq] at h
      simp only [Except.ok.injEq, Prod.mk.injEq] at h
      obtain ⟨rfl, rfl⟩ := h
      exact ⟨rfl, C20_model_within_limit _ tn layers _ hq⟩

/-- **The fused activation of a non-recurrent layer stays within the ACTIVATION default.**
    User dictionary with a 4-entry default `[weight, bias, recurrent, a]` (numeric activation default
    `a`), a registered non-recurrent class `cls` with a partial entry (0, 1 or 2 values), a layer of
    that class selected by no pattern key: whatever the tuner answers, the `activation_quantizer`
    written for that layer is an entry `(q, b)` of a configuration field of the activation position
    with `b ≤ a` — however large the recurrent default is. -/
theorem C20_fused_activation_within_activation_default (env : Env) (tn : Tune) (layers : List Layer)
    (L : Limit) (o : QmOut) (h : quantizeModelUser env tn layers = .ok (L, o))
    (w b r : LimVal) (a : Int)
    (hdef : alookup "default" env.limit = some (.vals [w, b, r, .num a]))
    (cls : String) (hreg : cls ∈ REGISTERED) (hseq : cls ∉ SEQUENCE) (l : List LimVal)
    (hcls : alookup cls env.limit = some (.vals l)) (hl : l.length < 3)
    (name : String) (dd : List (String × Option String)) (hx : (name, QEntry.dict dd) ∈ o.qdict)
    (q : String) (hq : ("activation_quantizer", some q) ∈ dd)
    (hlay : ∀ Ly ∈ layers, Ly.name = name →
        Ly.cls = cls ∧ ∀ p ∈ limKeys env.limit, env.matches p Ly.name = false) :
    ∃ bq field qd, bq ≤ a ∧ (field, (-1 : Int)) ∈ fieldIndexTable ∧
      alookup field env.config = some qd ∧ (q, bq) ∈ qd := by
  obtain ⟨hadj, hall⟩ := C20_model_within_user_limit env tn layers L o h
  obtain ⟨d, hd, hlen, hkeys, _, _, hdoc⟩ := C20_adjust_limit_documented env.limit L hadj
  -- the default list
  have hd' : d = [w, b, r, .num a] := by
    rw [hdef] at hd
    simp [normDefault] at hd
    exact hd.symm
  obtain ⟨l', hl', hL⟩ := hdoc cls _ hreg hcls
  cases hl'
  -- the entry of the dictionary
  obtain ⟨Ly, hLy, hn, suf, hsuf, key, bq, hkey, l2, lv, field, qd, hl2, hlv, hfi, hcfg, hmem, hok⟩ :=
    hall (name, .dict dd) hx "activation_quantizer" q hq
  have hsuf' : suf = "_activation" := by
    simp [roleSuffix] at hsuf
    exact hsuf.symm
  subst hsuf'
  obtain ⟨hc, hnm⟩ := hlay Ly hLy hn
  -- no pattern matches: the key is the class
  have hfm : firstMatch (fun p => env.matches p Ly.name) (limKeys L) = none := by
    rw [hkeys]; exact firstMatch_none hnm
  have hkey' : key = cls := by
    simp only [resolveKey, hfm] at hkey
    split at hkey
    · rw [← hc]; exact (Option.some.inj hkey).symm
    · cases hkey
  subst hkey'
  have hidx : (roleField false "_activation".toList).2 = -1 := by decide
  rw [hidx] at hlv hfi
  simp only at hl2
  rw [hL] at hl2
  cases hl2
  have hact := ((C20_adjust_roles d hlen key l).1 hseq hl).2.2.2
  rw [hact, hd'] at hlv
  simp [defActivation] at hlv
  subst hlv
  exact ⟨bq, field, qd, hok, hfi, hcfg, hmem⟩

private def padEnv : Env :=
  { limit := [("default", .vals [.num 4, .num 4, .num 8, .num 2]), ("Dense", .vals [.num 4])],
    config := [("kernel", [("binary", 1), ("quantized_bits(4,0,1)", 4)]),
               ("bias", [("quantized_bits(4,0,1)", 4), ("quantized_bits(8,3,1)", 8)]),
               ("activation", [("binary", 1), ("quantized_relu(3,1)", 3), ("quantized_relu(6,2)", 6)]),
               ("linear", [("ternary", 2)])],
    «matches» := fun _ _ => false,
    choose := fun _ l => l.getLastD "" }

/-- regression witness for "short entries are padded with `default[length:3]`": limit
    `{"default": [4, 4, 8, 2], "Dense": [4]}`, a Dense/relu layer, a tuner that always takes the WIDEST
    option offered: the hyper-model's Dense entry is `[4, 4, 2]` (not `[4, 4, 8]`) and the fused
    activation is the 1-bit `binary`, the only configured activation within 2 bits -/
theorem C20_short_entry_activation_regression :
    (quantizeModelUser padEnv {} [{ name := "d0", cls := "Dense", act := "relu", size := 4 }]).toOption.map
        (fun r => (alookup "Dense" r.1, alookup "d0" r.2.qdict)) =
      some (some (.vals [.num 4, .num 4, .num 2]),
            some (.dict [("kernel_quantizer", some "quantized_bits(4,0,1)"),
                         ("bias_quantizer", some "quantized_bits(4,0,1)"),
                         ("activation_quantizer", some "binary")])) := by decide

/-- the hypotheses of `C20_fused_activation_within_activation_default` are met by the witness's input -/
example : alookup "default" padEnv.limit = some (.vals [.num 4, .num 4, .num 8, .num 2]) ∧
    "Dense" ∈ REGISTERED ∧ "Dense" ∉ SEQUENCE ∧ alookup "Dense" padEnv.limit = some (.vals [.num 4]) ∧
    (∀ p ∈ limKeys padEnv.limit, padEnv.matches p "d0" = false) := by
  refine ⟨rfl, by decide, by decide, rfl, fun _ _ => rfl⟩

/-! ### non-vacuity of §1–§4 -/

private def exEnv : Env :=
  { limit := [("^d[01]$", .vals [.num 2, .num 8, .num 3]), ("Dense", .vals [.num 4, .num 4, .num 3])],
    config := cexConfig,
    «matches» := fun p n => p == "^d[01]$" && (n == "d0" || n == "d1"),
    choose := fun _ l => l.getLastD "" }

example : (getQuantizer exEnv {} "d0_kernel" "d0" "Dense" false).toOption.map (·.1) =
    some (some ("ternary", 2)) := by decide

example : (getQuantizer exEnv {} "d_out_kernel" "d_out" "Dense" false).toOption.map (·.1) =
    some (some ("quantized_bits(4,0,1)", 4)) := by decide

example : (runCalls exEnv {} [{ head := "d0_kernel", lname := "d0", cls := "Dense" },
                              { head := "d1_kernel", lname := "d1", cls := "Dense" }]).toOption.map (·.1) =
    some [some ("ternary", 2), some ("ternary", 2)] := by decide

example : (getQuantizer exEnv {} "bn_kernel" "bn" "BatchNormalization" false).toOption.map (·.1) =
    some none := by decide

example : ValidOracleF (fun _ _ => (3 : Rat) / 2) := by intro nm; simp [filterRange]

/-- `layer_indexes = []` and `layer_indexes = None` are different selections: nothing vs everything -/
example : ¬ Included { layerIndexes := some [] } 1 ∧ Included { layerIndexes := none } 1 := by
  constructor
  · intro h; simp [Included] at h
  · trivial

/-! ## 6. forgiving factor (formula of forgiving_factor.py over ℝ, `Real.log`) -/

/-- zero when trial and reference sizes coincide -/
theorem C20_delta_zero (δp δn rate ref : ℝ) : delta δp δn rate ref ref = 0 :=
  delta_self δp δn rate ref

/-- strictly decreasing in the trial size on (0, ∞) -/
theorem C20_delta_strictAnti (δp δn rate ref : ℝ) (hp : 0 < δp) (hn : 0 < δn) (hr : 1 < rate)
    (h0 : 0 < ref) : StrictAntiOn (delta δp δn rate ref) (Set.Ioi 0) :=
  delta_strictAntiOn hp hn hr h0

/-- positive for smaller, negative for larger trials -/
theorem C20_delta_sign (δp δn rate ref trial : ℝ) (hp : 0 < δp) (hn : 0 < δn) (hr : 1 < rate)
    (h0 : 0 < ref) (ht : 0 < trial) :
    (trial < ref → 0 < delta δp δn rate ref trial) ∧ (ref < trial → delta δp δn rate ref trial < 0) :=
  ⟨fun h => delta_pos_of_lt hp hr ht h, fun h => delta_neg_of_gt hn hr h0 h⟩

/-- the formula the theorems are about is literally the one in the file -/
theorem C20_delta_formula (δp δn rate ref trial : ℝ) :
    delta δp δn rate ref trial =
      if trial < ref then δp * (Real.log (ref / trial) / Real.log rate)
      else δn * (Real.log (ref / trial) / Real.log rate) :=
  delta_eq δp δn rate ref trial

example : (0 : ℝ) < 0.08 ∧ (1 : ℝ) < 2 ∧ (0 : ℝ) < 3408 := by norm_num

/-! ### 6b. the bonus as the search computes it: `get_reference(model)`, `get_trial(model)`, `delta()`
    on ONE `ForgivingFactorBits` object (`Model/Forgiving.lean`: `FFB`, `getReference`, `getTrial`,
    `deltaObj`).  "Reference size" in the property is the value `get_reference` RETURNS
    (= `AutoQKHyperModel.reference_size` = size of the reference model × `stress`). -/

/-- the attribute `delta()` reads is the value `get_reference` returned — fresh or cached object, every
    stress, every number type -/
theorem C20_reference_attribute_returned {α : Type} (mul : α → α → α) (o : FFB α) (size : α) :
    (getReference mul o size).2.referenceSize = some (getReference mul o size).1 :=
  getReference_attr mul o size

/-- a fresh object returns (and stores) the model size times `stress` -/
theorem C20_reference_stressed (stress size : ℝ) :
    (getReference (· * ·) ({ stress := stress } : FFB ℝ) size).1 = size * stress :=
  getReference_fresh _ _ _ rfl

/-- the reference is computed once: a later `get_reference` (another model, `stress` re-assigned in
    between) returns the first value and changes nothing -/
theorem C20_reference_cached {α : Type} (mul : α → α → α) (o : FFB α) (s1 s2 σ : α) :
    getReference mul { (getReference mul o s1).2 with stress := σ } s2 =
      ((getReference mul o s1).1, { (getReference mul o s1).2 with stress := σ }) :=
  getReference_cached mul o s1 s2 σ

/-- scoring through the API: after `get_reference(model)` returned `r`, any number of earlier trials,
    and `get_trial(model)` returned `t`, `delta()` is the forgiving-factor formula at `(r, t)`:
    zero when `t = r`, positive below, negative above, strictly decreasing in `t` — with
    `r = size(reference) · stress` on a fresh object, for EVERY stress > 0. -/
theorem C20_delta_api (δp δn rate : ℝ) (o : FFB ℝ) (refSize : ℝ) (ts : List ℝ) (t : ℝ) :
    let r := (getReference (· * ·) o refSize).1
    let d := fun t => deltaObj (delta δp δn rate) (trials (getReference (· * ·) o refSize).2 (ts ++ [t]))
    d t = some (delta δp δn rate r t) ∧
    (t = r → d t = some 0) ∧
    (0 < δp → 0 < δn → 1 < rate → 0 < r → 0 < t →
      (t < r → ∃ x, d t = some x ∧ 0 < x) ∧ (r < t → ∃ x, d t = some x ∧ x < 0)) := by
  intro r d
  have hd : ∀ t, d t = some (delta δp δn rate r t) := fun t => deltaObj_api _ _ o refSize ts t
  refine ⟨hd t, ?_, ?_⟩
  · intro h; rw [hd, h, delta_self]
  · intro hp hn hr h0 ht
    exact ⟨fun h => ⟨_, hd t, delta_pos_of_lt hp hr ht h⟩, fun h => ⟨_, hd t, delta_neg_of_gt hn hr h0 h⟩⟩

/-- two trials scored on one object against one reference: the larger one gets the strictly smaller bonus -/
theorem C20_delta_api_strictAnti (δp δn rate : ℝ) (o : FFB ℝ) (refSize : ℝ) (ts ts' : List ℝ) (t1 t2 : ℝ)
    (hp : 0 < δp) (hn : 0 < δn) (hr : 1 < rate)
    (h0 : 0 < (getReference (· * ·) o refSize).1) (h1 : 0 < t1) (h12 : t1 < t2) :
    ∃ d1 d2,
      deltaObj (delta δp δn rate) (trials (getReference (· * ·) o refSize).2 (ts ++ [t1])) = some d1 ∧
      deltaObj (delta δp δn rate) (trials (getReference (· * ·) o refSize).2 (ts' ++ [t2])) = some d2 ∧
      d2 < d1 :=
  ⟨_, _, deltaObj_api _ _ o refSize ts t1, deltaObj_api _ _ o refSize ts' t2,
    delta_strictAntiOn hp hn hr h0 (Set.mem_Ioi.mpr h1) (Set.mem_Ioi.mpr (lt_trans h1 h12)) h12⟩

/-- stress ½, reference model of 776 bits: the reference is 388, and a 388-bit trial scores 0 -/
example : (getReference (· * ·) ({ stress := 1/2 } : FFB ℝ) 776).1 = 388 := by
  rw [C20_reference_stressed]; norm_num

/-! ## 7. size model -/

/-- With every class counted (`{"default": ["parameters", "activations"]}`), for models made of
    dense / convolution / activation layers `compute_model_size` returns the sum over layers of
    Σ_weight-tensors elements × bits(applied quantizer, else ref_bits)
      + output elements × bits(activation quantizer, else ref_bits; `output_bits` for
        softmax / sigmoid-layer; nothing for linear),
    and total = parameters + activations. -/
theorem C20_size_bits (c : SzCfg) (hc : c.config = [("default", ["parameters", "activations"])])
    (layers : List SzLayer) (h : ∀ L ∈ layers, InScope L) :
    ∃ r, computeModelSize c layers = some r ∧ r.total = (layers.map (layerBits c)).sum ∧
      r.total = r.pSize + r.aSize :=
  computeModelSize_sum c hc layers h

example : InScope { name := "d", cls := "QDense", weights := [(24, some 1), (4, some 4)], outElems := 4,
                    actBits := some 3 } := by
  refine ⟨Or.inr (Or.inl (by decide)), ?_⟩
  rintro ⟨_, h, _⟩; cases h

example : layerBits {} { name := "d", cls := "QDense", weights := [(24, some 1), (4, some 4)], outElems := 4,
                         actBits := some 3 } = 24 * 1 + 4 * 4 + 3 * 4 := by decide

/-! ### 7b. the size of a trial counts the tensors of the TRIAL model — on a USED object, after
    `get_reference`, for layers that keep the name of a reference layer (strengthening round V20)

`FFBM` (`Model/Forgiving.lean`) is the `ForgivingFactorBits` object with its size configuration, the
scalar attributes and the cached statistics (`reference_size_dict`, `trial_size_dict`).  The
theorems quantify over ALL object states, hence over every history of public calls. -/

/-- `get_trial(model)` on an object in ANY state (reference statistics present or not, earlier
    trials, stress re-assigned): the returned size is Σ elements × bits over the tensors of THIS
    model, `trial_size_dict` holds for every layer its own tensors' numbers, and nothing of the
    reference is touched. -/
theorem C20_trial_size_any_state {α : Type} (ofInt : Int → α) (o : FFBM α)
    (hc : o.cfg.config = [("default", ["parameters", "activations"])])
    (layers : List SzLayer) (h : ∀ L ∈ layers, InScope L) :
    ∃ s o', getTrialM ofInt o layers = some (ofInt s.total, o') ∧
      s.total = (layers.map (layerBits o.cfg)).sum ∧
      s.rows = layers.map (rowSpec o.cfg) ∧
      s.total = s.pSize + s.aSize ∧
      o'.trialStats = some s ∧ o'.base.trialSize = some (ofInt s.total) ∧
      o'.refStats = o.refStats ∧ o'.base.referenceSize = o.base.referenceSize ∧ o'.cfg = o.cfg := by
  obtain ⟨r, hr, hrows, htot, hpa⟩ := computeModelSize_rows o.cfg hc layers h
  refine ⟨r, { o with base := { o.base with trialSize := some (ofInt r.total) }, trialStats := some r },
    ?_, htot, hrows, hpa, rfl, rfl, rfl, rfl, rfl⟩
  rw [getTrialM_eq, hr]
  rfl

/-- the same after an arbitrary HISTORY of public calls (`get_reference` of any models, `get_trial`
    of any models, `stress` re-assigned) on an object created with size configuration `o.cfg` -/
theorem C20_trial_size_after_history {α : Type} (ofInt : Int → α) (mul : α → α → α) (o : FFBM α)
    (evs : List (MEv α))
    (hc : o.cfg.config = [("default", ["parameters", "activations"])])
    (layers : List SzLayer) (h : ∀ L ∈ layers, InScope L) :
    ∃ s o', getTrialM ofInt (stateM ofInt mul o evs) layers = some (ofInt s.total, o') ∧
      s.total = (layers.map (layerBits o.cfg)).sum ∧
      s.rows = layers.map (rowSpec o.cfg) ∧
      o'.trialStats = some s := by
  have hcfg := stateM_cfg ofInt mul evs o
  obtain ⟨s, o', h1, h2, h3, _, h5, _⟩ :=
    C20_trial_size_any_state ofInt (stateM ofInt mul o evs) (by rw [hcfg]; exact hc) layers h
  rw [hcfg] at h2 h3
  exact ⟨s, o', h1, h2, h3, h5⟩

/-- the k-th use equals a fresh twin, for EVERY size configuration and every layer class
    (BatchNormalization, InputLayer, uncounted classes included): two objects with the same size
    configuration — whatever their histories — measure one model alike, total and rows. -/
theorem C20_trial_size_fresh_twin {α : Type} (ofInt : Int → α) (o₁ o₂ : FFBM α) (hc : o₁.cfg = o₂.cfg)
    (layers : List SzLayer) :
    (getTrialM ofInt o₁ layers).map (·.1) = (getTrialM ofInt o₂ layers).map (·.1) ∧
    (getTrialM ofInt o₁ layers).map (fun r => r.2.trialStats.map (·.rows)) =
      (getTrialM ofInt o₂ layers).map (fun r => r.2.trialStats.map (·.rows)) := by
  rw [getTrialM_eq, getTrialM_eq, hc]
  cases computeModelSize o₂.cfg layers <;> exact ⟨rfl, rfl⟩

/-- `get_reference` on a fresh object keeps the rows of the REFERENCE model and returns size × stress;
    a later `get_trial` leaves them alone (`C20_trial_size_any_state`) -/
theorem C20_reference_stats_kept {α : Type} (ofInt : Int → α) (mul : α → α → α) (o : FFBM α)
    (hf : o.base.referenceSize = none) (layers : List SzLayer) (s : SizeOut)
    (hs : computeModelSize o.cfg layers = some s) :
    ∃ o', getReferenceM ofInt mul o layers = some (mul (ofInt s.total) o.base.stress, o') ∧
      o'.refStats = some s ∧ o'.base.referenceSize = some (mul (ofInt s.total) o.base.stress) ∧
      o'.cfg = o.cfg := by
  refine ⟨{ o with base := { o.base with referenceSize := some (mul (ofInt s.total) o.base.stress) },
                     refStats := some s }, ?_, rfl, rfl, rfl⟩
  unfold getReferenceM getReference
  simp [hf, hs]

/-- What filter tuning does to an UNQUANTIZED layer downstream of a scaled one (dense chain, Keras
    shape inference): its parameter row is `ref_bits × (inputs × units [+ units])` with the inputs
    of the TRIAL, so it is strictly larger when the layer before it was widened and strictly smaller
    when it was narrowed — never the reference's number. -/
theorem C20_downstream_unquantized_row_follows_input (c : SzCfg) (d : DenseSpec) (hq : d.q = none)
    (hr : 0 < c.refBits) (hu : 0 < d.units) (n n' : Nat) (hn : n < n') :
    paramSize c (denseLayer n d) =
        c.refBits * ((n * d.units : Nat) : Int) + (if d.useBias then c.refBits * (d.units : Int) else 0) ∧
      paramSize c (denseLayer n d) < paramSize c (denseLayer n' d) := by
  refine ⟨paramSize_denseLayer_plain c n d hq, ?_⟩
  rw [paramSize_denseLayer_plain c n d hq, paramSize_denseLayer_plain c n' d hq]
  have h1 : ((n * d.units : Nat) : Int) < ((n' * d.units : Nat) : Int) := by
    exact_mod_cast Nat.mul_lt_mul_of_pos_right hn hu
  have h2 := mul_lt_mul_of_pos_left h1 hr
  linarith

/-- the failing input of seed C20-12 as a regression: `Input(8) → d0(8) → d1(6) → out(3)`, reference
    measured first, then the trial in which `d0` was quantized (binary kernel, 4-bit bias) and
    halved: the row of the untouched `d1` is 8 × (4 × 6 + 6) = 240 bits (the reference's is 432),
    the trial total is the sum of the trial's rows, and the reference statistics stay. -/
theorem C20_downstream_row_regression :
    let c : SzCfg := {}
    let ref := denseChain 8 [{ name := "d0", units := 8, actName := "relu" },
                             { name := "d1", units := 6, actName := "relu" }, { name := "out", units := 3 }]
    let trial := denseChain 8 [{ name := "d0", units := 4, q := some (some 1, some 4), actBits := some 1 },
                               { name := "d1", units := 6, actName := "relu" }, { name := "out", units := 3 }]
    let o : FFBM Int := { cfg := c, base := { stress := 1 } }
    (runM id (· * ·) o [.ref ref, .trial trial]).map (fun r => (r.1, r.2.trialStats.map fun s =>
        s.rows.map fun w => (w.name, w.parameters, w.activations))) =
      [(some 1288, none),
       (some (32 + 16 + 4 + 240 + 48 + 168), some [("d0", 32 + 16, 4), ("d1", 240, 48), ("out", 168, 0)])] := by
  decide

example : InScope (denseLayer 4 { name := "d1", units := 6, actName := "relu" }) := by
  refine ⟨Or.inl (by decide), ?_⟩
  rintro ⟨h, _⟩; revert h; decide

/-! ## 8. the score the tuner maximises: `AutoQKHyperModel.adjusted_score` (`Model/Forgiving.lean`:
    `scoreWith`, `selectMetric`; over ℝ the arithmetic is exact, the float32 evaluation `scoreF` is
    tied to the real code by the driver's `score` stream). -/

/-- the real-number score: `metric * (1 + delta)` -/
noncomputable def score (metric d : ℝ) : ℝ := scoreWith (· * ·) (· + ·) 1 metric d

/-- a trial of exactly the reference size keeps its metric -/
theorem C20_score_reference (δp δn rate ref metric : ℝ) :
    score metric (delta δp δn rate ref ref) = metric := by
  rw [delta_self]; simp [score, scoreWith]

/-- "score smaller models higher": with the same positive metric, the strictly smaller trial gets the
    strictly larger score — every reference, every pair of sizes, every admissible parameter triple -/
theorem C20_score_strictAnti (δp δn rate ref metric t1 t2 : ℝ) (hp : 0 < δp) (hn : 0 < δn) (hr : 1 < rate)
    (h0 : 0 < ref) (hm : 0 < metric) (h1 : 0 < t1) (h12 : t1 < t2) :
    score metric (delta δp δn rate ref t2) < score metric (delta δp δn rate ref t1) := by
  have hd := delta_strictAntiOn hp hn hr h0 (Set.mem_Ioi.mpr h1) (Set.mem_Ioi.mpr (lt_trans h1 h12)) h12
  simp only [score, scoreWith]
  exact mul_lt_mul_of_pos_left (by linarith) hm

/-- the bonus never reorders two trials of the SAME size: the better metric wins whenever the factor
    `1 + delta` is positive (it is for every trial not larger than the reference) -/
theorem C20_score_metric_monotone (d m1 m2 : ℝ) (hd : 0 < 1 + d) (h : m1 < m2) : score m1 d < score m2 d := by
  simp only [score, scoreWith]
  exact mul_lt_mul_of_pos_right h hd

/-- a positive metric is raised below the reference size and lowered above it -/
theorem C20_score_sign (δp δn rate ref metric trial : ℝ) (hp : 0 < δp) (hn : 0 < δn) (hr : 1 < rate)
    (h0 : 0 < ref) (ht : 0 < trial) (hm : 0 < metric) :
    (trial < ref → metric < score metric (delta δp δn rate ref trial)) ∧
    (ref < trial → score metric (delta δp δn rate ref trial) < metric) := by
  simp only [score, scoreWith]
  constructor
  · intro h; have := delta_pos_of_lt (δn := δn) hp hr ht h; nlinarith
  · intro h; have := delta_neg_of_gt (δp := δp) hn hr h0 h; nlinarith

/-- metric selection, stated outright: a callable is always used as given; `None`, "accuracy" and "acc"
    pick the accuracy by the two static shapes; every other string is categorical accuracy -/
theorem C20_score_metric_selection (m : MetricArg) (ytRank ypRank ytLast ypLast : Int) :
    (m = .fn → selectMetric m ytRank ypRank ytLast ypLast = .custom) ∧
    (m = .none ∨ m = .str "accuracy" ∨ m = .str "acc" →
      selectMetric m ytRank ypRank ytLast ypLast =
        if ypLast = 1 then .binary
        else if ytRank < ypRank ∨ (ytLast = 1 ∧ 1 < ypLast) then .sparse else .categorical) ∧
    (∀ s, m = .str s → s ≠ "" → s ≠ "accuracy" → s ≠ "acc" →
      selectMetric m ytRank ypRank ytLast ypLast = .categorical) := by
  refine ⟨?_, ?_, ?_⟩
  · rintro rfl; rfl
  · intro h
    have key : selectMetric m ytRank ypRank ytLast ypLast =
        (if (ypLast == 1) = true then MetricKind.binary
         else if (decide (ytRank < ypRank) || (ytLast == 1 && decide (ypLast > 1))) = true then .sparse
         else .categorical) := by
      rcases h with rfl | rfl | rfl <;> simp [selectMetric]
    rw [key]
    by_cases h1 : ypLast = 1
    · simp [h1]
    · by_cases h2 : ytRank < ypRank <;> by_cases h3 : ytLast = 1 <;> by_cases h4 : 1 < ypLast <;>
        simp [h1, h2, h3, h4]
  · rintro s rfl h0 h1 h2
    simp [selectMetric, h0, h1, h2]

/-- the shape rule never reads the metric's value: one-column predictions are binary even with sparse labels -/
example : selectMetric .none 1 2 1 1 = .binary ∧ selectMetric (.str "acc") 1 2 1 10 = .sparse ∧
    selectMetric (.str "accuracy") 2 2 10 10 = .categorical ∧ selectMetric (.str "mse") 1 2 1 1 = .categorical ∧
    selectMetric .fn 1 2 1 1 = .custom := by decide

/-- hypotheses of `C20_score_strictAnti` are met; the float32 score of the driver at a concrete point:
    metric ¾, delta ⅛ → 27/32 -/
example : (0 : ℝ) < 8 ∧ (1 : ℝ) < 2 ∧ (0 : ℝ) < 3408 ∧ (0 : ℝ) < 0.75 ∧ (0 : ℝ) < 100 ∧ (100 : ℝ) < 200 := by
  norm_num


/-! ### 8b. the float32 evaluation the driver runs (`scoreF`) -/

private theorem one_plus_zero_f32 : rndP 24 (rnd64 ((1 : Rat) + 0)) = 1 := by decide +kernel

/-- float level: at the reference size (delta = 0) the float32 score IS the float32 metric, bit for bit —
    for every float32 metric value (`rndP 24 m = m`) -/
theorem C20_scoreF_reference (m : Rat) (hm : rndP 24 m = m) : scoreF m 0 = m := by
  unfold scoreF scoreWith
  simp only [one_plus_zero_f32, mul_one, hm]

/-- float level: a zero metric scores zero whatever the bonus -/
theorem C20_scoreF_zero_metric (d : Rat) : scoreF 0 d = 0 := by
  simp [scoreF, scoreWith, rndP]

/-- ¾ is a float32 value: the hypothesis of `C20_scoreF_reference` is satisfiable; and a concrete bonus -/
example : rndP 24 (3/4 : Rat) = 3/4 ∧ scoreF (3/4) (1/8) = 27/32 := by decide +kernel

end QKV.Props.C20
