import QKV.Model.AutoQ
import QKV.Model.Forgiving
namespace QKV.Props.C20
theorem C20_placeholder : True := trivial
end QKV.Props.C20
