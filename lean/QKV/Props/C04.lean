import QKV.Model.BinTer
namespace QKV.Props.C04
theorem C04_placeholder : (1 : Nat) = 1 := rfl
end QKV.Props.C04
