/-
  C04 — "Binary quantizers return scale times a code in {-1,+1} (or {0,1} in 0/1 mode) whose sign is the
  sign of the input (zero counts as positive), and ternary quantizers return scale times a code in
  {-1,0,+1} that is zero exactly when the input magnitude is below the threshold. With a data-dependent
  scale the scale is non-negative, constant per output channel (or per configured group), equal to the
  least-squares optimum sum(x*code)/sum(code^2) of its group, and for the power-of-two mode an exact
  power of two clipped to the configured exponent bounds."

  Model: Model/BinTer.lean (binary.__call__, ternary.__call__, _get_least_squares_scale,
  _clip_po2_scale) over Model/TensorQ.lean (_get_scaling_axis, _validate_axis_and_eps,
  _get_unrolled_shape, _get_rolled_back_shape, _get_scale_mean at index level), any rank, any shape.
  All statements hold for EVERY float context `c : Fl` (rounding function, logarithm oracle, epsilon)
  unless they say `Fl.exact`; in particular for the float32 context the driver runs against the code.

  What the code really computes (and the theorems therefore say):
   * the scale is `mean(x·q) / (mean(q·q) + K.epsilon())`, i.e. `Σx·q / (Σq² + n·ε)`: the least-squares
     optimum shrunk by the factor `Σq² / (Σq² + n·ε)` (`C04_least_squares`, `C04_least_squares_vs_optimum`);
   * in the `auto` branch of ternary the threshold of a pass is half the scale of the previous pass and
     the tie `|x| = threshold` gives code 0 (tf.round is half-to-even), whereas the fixed-threshold
     branch gives a non-zero code at `|x| = threshold` (`>=`);
   * the value returned is `x + stop_gradient(-x + scale·code)`, two float32 additions: exact model = the
     product itself (`C04_ste_exact`), float32 = `ste`; when `scale·code` is absorbed by a huge `|x|`
     the result is 0 (`C04_ste_absorb_counterexample`, recorded finding — the only one left);
   * since the fix round: a zero input counts as positive wherever it is not below the threshold (threshold 0),
     negative scale axes are counted from the end, exponent bounds are float powers in every numeric form,
     numpy inputs take the tensor path everywhere (section "repaired defects" at the end);
   * since fix round N: the order in which a list `scale_axis` names its axes (with the `elements_per_scale`
     entries following their axes) does not matter — `_validate_axis_and_eps` sorts the pairs before the
     shape helpers, which need ascending axes, walk through them (`C04_axes_order_irrelevant*`).
-/
import QKV.Lemmas.BinTer
import QKV.Lemmas.TensorQ
import QKV.Model.BinTerSR
namespace QKV.Props.C04
open QKV QKV.Tn QKV.BT

/-! ### list plumbing -/

private theorem mem_zip_map_self {α β : Type} (g : α → β) (l : List α) (p : α × β)
    (h : p ∈ l.zip (l.map g)) : p.2 = g p.1 := by
  induction l with
  | nil => simp at h
  | cons a t ih =>
    simp only [List.map_cons, List.zip_cons_cons, List.mem_cons] at h
    rcases h with h | h
    · rw [h]
    · exact ih h

private theorem mem_zip_map_zip {α β γ : Type} (f : β × α → γ) (x : List α) (s : List β) (p : α × γ)
    (h : p ∈ x.zip ((s.zip x).map f)) : ∃ b, p.2 = f (b, p.1) := by
  induction x generalizing s with
  | nil => simp at h
  | cons a t ih =>
    cases s with
    | nil => simp at h
    | cons b s' =>
      simp only [List.zip_cons_cons, List.map_cons, List.mem_cons] at h
      rcases h with h | h
      · exact ⟨b, by rw [h]⟩
      · exact ih s' h

/-! ### binary: codes and sign -/

/-- the code set: {-1,+1}, or {0,1} in 0/1 mode -/
theorem C04_binary_code_set (use01 : Bool) (x : ℚ) :
    if use01 then (binCode use01 x = 0 ∨ binCode use01 x = 1) else (binCode use01 x = -1 ∨ binCode use01 x = 1) := by
  cases use01
  · simpa using binCode_pm x
  · simpa using binCode_01 x

/-- the code is +1 exactly for non-negative inputs (zero counts as positive), in both modes -/
theorem C04_binary_sign (use01 : Bool) (x : ℚ) : binCode use01 x = 1 ↔ 0 ≤ x := binCode_eq_one_iff use01 x

/-- every element of `binary(...)(x)`, any rank / shape / configuration / float context:
    output = (rounded) scale × code, the code is the sign code of that element's input -/
theorem C04_binary_codes (c : Fl) (cfg : BinCfg) (shape : List ℕ) (x : List ℚ) (es : List Elt)
    (h : binary c cfg shape x = .ok es) :
    ∀ e ∈ es, e.y = c.r (e.scale * e.code) ∧ e.code = binCode cfg.use01 e.x := by
  have key : ∀ scales : List ℚ, ∀ e ∈ (((x.zip (x.map (binCode cfg.use01))).zip scales).map fun p =>
      ({ x := p.1.1, code := p.1.2, scale := p.2, y := c.r (p.2 * p.1.2) } : Elt)),
      e.y = c.r (e.scale * e.code) ∧ e.code = binCode cfg.use01 e.x := by
    intro scales e he
    obtain ⟨p, hp, rfl⟩ := List.mem_map.1 he
    exact ⟨rfl, mem_zip_map_self _ _ _ (List.of_mem_zip hp).1⟩
  unfold binary at h
  cases ha : cfg.alpha with
  | none => simp only [ha] at h; cases h; exact key _
  | const a => simp only [ha] at h; cases h; exact key _
  | auto =>
    simp only [ha] at h
    cases hk : keys cfg.grp shape with
    | error e => simp [hk] at h
    | ok v => obtain ⟨pk, ck⟩ := v; simp only [hk] at h; cases h; exact key _
  | autoPo2 =>
    simp only [ha] at h
    cases hk : keys cfg.grp shape with
    | error e => simp [hk] at h
    | ok v => obtain ⟨pk, ck⟩ := v; simp only [hk] at h; cases h; exact key _
  | arr ash vals =>
    simp only [ha] at h
    cases hs : arrScales ash vals shape with
    | error e => simp [hs] at h
    | ok s => simp only [hs] at h; cases h; exact key _

/-- in exact arithmetic the output IS scale × code -/
theorem C04_binary_codes_exact (eps : ℚ) (cfg : BinCfg) (shape : List ℕ) (x : List ℚ) (es : List Elt)
    (h : binary (Fl.exact eps) cfg shape x = .ok es) : ∀ e ∈ es, e.y = e.scale * e.code :=
  fun e he => (C04_binary_codes _ cfg shape x es h e he).1

/-! ### ternary: codes, threshold, sign -/

/-- fixed-threshold branch, EVERY threshold (the legal, falsy 0 included — no `0 < t` hypothesis since the
    fix of `C04-ternary-zero-threshold`): code ∈ {-1,0,1}, zero exactly below the threshold, otherwise the
    sign of the input with zero counting as positive, i.e. the sign proper for every non-zero input -/
theorem C04_ternary_codes_fixed (t x : ℚ) :
    (terCodeFixed t x = -1 ∨ terCodeFixed t x = 0 ∨ terCodeFixed t x = 1) ∧
    (terCodeFixed t x = 0 ↔ |x| < t) ∧ (terCodeFixed t x ≠ 0 → terCodeFixed t x = sgnPos x) ∧
    (x ≠ 0 → terCodeFixed t x ≠ 0 → terCodeFixed t x = sgn x) :=
  ⟨terCodeFixed_cases t x, terCodeFixed_eq_zero_iff t x, terCodeFixed_sign t x, terCodeFixed_sign_ne t x⟩

/-- … and for a positive threshold (a non-zero code then implies a non-zero input) the statement in its
    former shape: a non-zero code is `sgn x` -/
theorem C04_ternary_codes_fixed_pos {t : ℚ} (ht : 0 < t) (x : ℚ) :
    (terCodeFixed t x = -1 ∨ terCodeFixed t x = 0 ∨ terCodeFixed t x = 1) ∧
    (terCodeFixed t x = 0 ↔ |x| < t) ∧ (terCodeFixed t x ≠ 0 → terCodeFixed t x = sgn x) :=
  ⟨terCodeFixed_cases t x, terCodeFixed_eq_zero_iff t x,
    fun h => terCodeFixed_sign_ne t x (terCodeFixed_ne_zero_of_pos ht h) h⟩

/-- the sign convention at zero: `sgnPos x = 1 ↔ 0 ≤ x` (as for binary), `sgnPos x = sgn x` off zero -/
theorem C04_ternary_sign_convention (x : ℚ) : (sgnPos x = 1 ↔ 0 ≤ x) ∧ (x ≠ 0 → sgnPos x = sgn x) :=
  ⟨sgnPos_eq_one_iff x, fun h => sgnPos_eq_sgn h⟩

/-- `auto` branch, one pass with current scale `s`, any float context: code ∈ {-1,0,1}, sign-correct, and
    a zero scale (all-zero group: 0/0 and x/0 paths of the float code) gives code 0 -/
theorem C04_ternary_codes_auto (c : Fl) (s x : ℚ) :
    (terCodeAuto c s x = -1 ∨ terCodeAuto c s x = 0 ∨ terCodeAuto c s x = 1) ∧
    (terCodeAuto c s x ≠ 0 → terCodeAuto c s x = sgn x) ∧ (s = 0 → terCodeAuto c s x = 0) :=
  ⟨terCodeAuto_cases c s x, terCodeAuto_sign c s x, fun h => by simp [terCodeAuto, h]⟩

/-- `auto` branch in exact arithmetic: zero exactly when `|x| ≤ s/2`, the threshold of the pass
    (the tie goes to zero: `tf.round` is half-to-even) -/
theorem C04_ternary_auto_threshold (eps : ℚ) {s : ℚ} (hs : 0 < s) (x : ℚ) :
    terCodeAuto (Fl.exact eps) s x = 0 ↔ |x| ≤ s / 2 := terCodeAuto_exact_eq_zero_iff eps hs x

private theorem terLoop_succ (c : Fl) (po2 : Bool) (rank : ℕ) (pk ck : List (List ℕ)) (x : List ℚ) (n : ℕ)
    (st : TerState) :
    terLoop c po2 rank pk ck x (n + 1) st = terStep c po2 rank pk ck x (terLoop c po2 rank pk ck x n st) := by
  induction n generalizing st with
  | zero => rfl
  | succ n ih => rw [terLoop, ih (terStep c po2 rank pk ck x st)]; rfl

/-- every element of `ternary(...)(x)`, any rank / shape / float context: output = (rounded) scale × code;
    fixed branch: the code is the threshold code of its input; auto branch: the code is the pass code of
    its input for the scale `sp` the previous pass left at that position -/
theorem C04_ternary_codes (c : Fl) (cfg : TerCfg) (shape : List ℕ) (x : List ℚ) (es : List Elt)
    (h : ternary c cfg shape x = .ok es) :
    ∀ e ∈ es, e.y = c.r (e.scale * e.code) ∧
      (e.code = terCodeFixed cfg.thres e.x ∨ ∃ sp, e.code = terCodeAuto c sp e.x) := by
  have fixed : ∀ scales : List ℚ, ∀ e ∈ (((x.zip (x.map (terCodeFixed cfg.thres))).zip scales).map fun p =>
      ({ x := p.1.1, code := p.1.2, scale := p.2, y := c.r (p.2 * p.1.2) } : Elt)),
      e.y = c.r (e.scale * e.code) ∧
        (e.code = terCodeFixed cfg.thres e.x ∨ ∃ sp, e.code = terCodeAuto c sp e.x) := by
    intro scales e he
    obtain ⟨p, hp, rfl⟩ := List.mem_map.1 he
    exact ⟨rfl, Or.inl (mem_zip_map_self _ _ _ (List.of_mem_zip hp).1)⟩
  have auto : ∀ (po2 : Bool) (pk ck : List (List ℕ)) (s0 : List ℚ) (n : ℕ),
      let st := terLoop c po2 shape.length pk ck x (n + 1) { q := [], s := s0 }
      ∀ e ∈ (((x.zip st.q).zip st.s).map fun p =>
        ({ x := p.1.1, code := p.1.2, scale := p.2, y := c.r (p.2 * p.1.2) } : Elt)),
      e.y = c.r (e.scale * e.code) ∧
        (e.code = terCodeFixed cfg.thres e.x ∨ ∃ sp, e.code = terCodeAuto c sp e.x) := by
    intro po2 pk ck s0 n st e he
    obtain ⟨p, hp, rfl⟩ := List.mem_map.1 he
    refine ⟨rfl, Or.inr ?_⟩
    have hq := (List.of_mem_zip hp).1
    have : st.q = ((terLoop c po2 shape.length pk ck x n { q := [], s := s0 }).s.zip x).map
        (fun p => terCodeAuto c p.1 p.2) := by
      show (terLoop c po2 shape.length pk ck x (n + 1) _).q = _
      rw [terLoop_succ]; rfl
    rw [this] at hq
    obtain ⟨b, hb⟩ := mem_zip_map_zip _ _ _ _ hq
    exact ⟨b, hb⟩
  unfold ternary at h
  cases ha : cfg.alpha <;> simp only [ha] at h
  case none => cases h; exact fixed _
  case const => cases h; exact fixed _
  case arr ash vals =>
    cases hs : arrScales ash vals shape with
    | error e => simp [hs] at h
    | ok s => simp only [hs] at h; cases h; exact fixed _
  all_goals
    by_cases hu : cfg.unrolls = 0
    · simp [hu] at h
    · simp only [hu, if_false] at h
      obtain ⟨n, hn⟩ := Nat.exists_eq_succ_of_ne_zero hu
      cases hk : keys { chLast := cfg.chLast, sa := AxisSpec.none, eps := EpsSpec.none } shape with
      | error e => simp [hk] at h
      | ok v =>
        obtain ⟨pk, ck⟩ := v
        simp only [hk] at h
        cases h
        rw [hn]
        exact auto _ pk ck _ n

/-! ### the scale: one value per group -/

/-- any rank ≥ 2: positions with the same consumer key (the cell of the reduced tensor their scale is read
    from) get the same scale -/
theorem C04_scale_group_constant (c : Fl) (po2 : Bool) (minE maxE : Option ℤ) (rank : ℕ) (hr : ¬ rank ≤ 1)
    (pk ck : List (List ℕ)) (x q : List ℚ) (i j : ℕ) (hi : i < ck.length) (hj : j < ck.length)
    (h : ck[i] = ck[j]) :
    (lsScales c po2 minE maxE rank pk ck x q)[i]'(by simp [lsScales, hr, hi]) =
      (lsScales c po2 minE maxE rank pk ck x q)[j]'(by simp [lsScales, hr, hj]) := by
  simp [lsScales, hr, h]

/-- the scale of a position is the group statistic of exactly the elements whose producer key equals the
    position's consumer key -/
theorem C04_scale_is_group_statistic (c : Fl) (po2 : Bool) (minE maxE : Option ℤ) (rank : ℕ) (hr : ¬ rank ≤ 1)
    (pk ck : List (List ℕ)) (x q : List ℚ) (i : ℕ) (hi : i < ck.length) :
    (lsScales c po2 minE maxE rank pk ck x q)[i]'(by simp [lsScales, hr, hi]) =
      lsFinish c po2 minE maxE (lsRaw c (groupOf pk (x.zip q) ck[i])) := by
  simp [lsScales, hr]

/-- `elements_per_scale = None`, any rank ≥ 2, any `scale_axis` (None / int / list), both data formats:
    every element reads its scale from the very cell it was accumulated into (producer key = consumer key) -/
theorem C04_group_contains_self (g : Grp) (hg : g.eps = .none) (shape : List ℕ) (hr : ¬ shape.length ≤ 1)
    (pk ck : List (List ℕ)) (h : keys g shape = .ok (pk, ck)) : pk = ck := by
  unfold keys at h
  simp only [hr, if_false, hg] at h
  cases h
  apply List.map_congr_left
  intro i hi
  exact zeroAxes_eq_bcast shape _ i (List.mem_range.1 hi)

/-- … and two positions share a cell iff their multi-indices agree on every axis that is not reduced -/
theorem C04_same_group_iff (axes shape : List ℕ) (i j : ℕ) :
    zeroAxes axes (unravel shape i) = zeroAxes axes (unravel shape j) ↔
      ∀ d, d < shape.length → d ∉ axes → (unravel shape i).getD d 0 = (unravel shape j).getD d 0 := by
  rw [zeroAxes_eq_iff _ _ _ (by rw [unravel_length, unravel_length]), unravel_length]

/-- … and the reduced axes are exactly the complement of the documented scale axes: the last axis
    (channels_last) / the first axis (channels_first) for `scale_axis=None`, axis `a` for an int, the
    listed axes for a list — every rank -/
theorem C04_reduced_axes (chLast : Bool) (sa : AxisSpec) (len d : ℕ) (hd : d < len) :
    d ∈ scalingAxis chLast sa len ↔ ¬ keptAxis chLast sa len d := scalingAxis_spec chLast sa len d hd

/-- `elements_per_scale` path, checked on concrete shapes (the general statement needs the row-major
    reshape lemma and is not proved — `_partial`): producer key = consumer key, and the groups are the
    2×4 blocks / the blocks of 4 columns the docstring promises -/
theorem C04_group_eps_partial :
    (match keys ⟨true, .many [0, 1], .many [2, 4]⟩ [4, 8] with
      | .ok (pk, ck) => pk == ck && pk == (List.range 32).map (fun i => [i / 8 / 2, 0, i % 8 / 4, 0])
      | .error _ => false) = true ∧
    (match keys ⟨true, .one 1, .one 4⟩ [4, 8] with
      | .ok (pk, ck) => pk == ck && pk == (List.range 32).map (fun i => [0, i % 8 / 4, 0])
      | .error _ => false) = true ∧
    (match keys ⟨false, .many [1, 2], .one 2⟩ [2, 4, 2] with
      | .ok (pk, ck) => pk == ck && pk == (List.range 16).map (fun i => [0, i / 2 % 4 / 2, 0, 0, 0])
      | .error _ => false) = true := by
  refine ⟨by decide, by decide, by decide⟩

/-! ### the scale: non-negative, least squares, power of two -/

private theorem groupOf_subset {α : Type} (pk : List (List ℕ)) (vals : List α) (k : List ℕ) :
    ∀ v ∈ groupOf pk vals k, v ∈ vals := by
  intro v hv
  unfold groupOf at hv
  obtain ⟨p, hp, rfl⟩ := List.mem_map.1 hv
  exact (List.of_mem_zip (List.mem_filter.1 hp).1).2

/-- the data-dependent scale of `_get_least_squares_scale` is non-negative whenever every code has the
    sign of its input (or is zero) — any rank, grouping, float context that keeps signs, ε ≥ 0 -/
theorem C04_scale_nonneg (c : Fl) (hc : c.SignPres) (he : 0 ≤ c.eps) (po2 : Bool) (minE maxE : Option ℤ)
    (rank : ℕ) (pk ck : List (List ℕ)) (x q : List ℚ) (hq : ∀ p ∈ x.zip q, 0 ≤ p.1 * p.2) :
    ∀ s ∈ lsScales c po2 minE maxE rank pk ck x q, 0 ≤ s := by
  intro s hs
  unfold lsScales at hs
  split_ifs at hs
  · obtain ⟨p, hp, rfl⟩ := List.mem_map.1 hs
    exact lsFinish_nonneg c po2 minE maxE (lsRaw1_nonneg hc he (hq p hp))
  · obtain ⟨k, _, rfl⟩ := List.mem_map.1 hs
    exact lsFinish_nonneg c po2 minE maxE
      (lsRaw_nonneg hc he (fun p hp => hq p (groupOf_subset pk _ k p hp)))

/-- binary, alpha ∈ {auto, auto_po2}: every exposed scale is non-negative -/
theorem C04_binary_scale_nonneg (c : Fl) (hc : c.SignPres) (he : 0 ≤ c.eps) (cfg : BinCfg)
    (ha : cfg.alpha = .auto ∨ cfg.alpha = .autoPo2) (shape : List ℕ) (x : List ℚ) (es : List Elt)
    (h : binary c cfg shape x = .ok es) : ∀ e ∈ es, 0 ≤ e.scale := by
  have hq : ∀ p ∈ x.zip (x.map (binCode cfg.use01)), 0 ≤ p.1 * p.2 := by
    intro p hp; rw [mem_zip_map_self _ _ _ hp]; exact binCode_mul_nonneg _ _
  unfold binary at h
  rcases ha with ha | ha <;> simp only [ha] at h <;>
  · cases hk : keys cfg.grp shape with
    | error e => simp [hk] at h
    | ok v =>
      obtain ⟨pk, ck⟩ := v
      simp only [hk] at h
      cases h
      intro e he'
      obtain ⟨p, hp, rfl⟩ := List.mem_map.1 he'
      exact C04_scale_nonneg c hc he _ _ _ _ pk ck x _ hq _ (List.of_mem_zip hp).2

/-- the coded formula, exact arithmetic: `s·(Σq² + n·ε) = Σx·q` for every non-empty group -/
theorem C04_least_squares (eps : ℚ) (he : 0 < eps) (g : List (ℚ × ℚ)) (hg : g ≠ []) :
    lsRaw (Fl.exact eps) g * ((g.map fun p => p.2 * p.2).sum + (g.length : ℚ) * eps)
      = (g.map fun p => p.1 * p.2).sum := lsRaw_exact_identity eps he g hg

/-- relation to the optimum `LS = Σx·q / Σq²`: `s = LS · Σq²/(Σq² + n·ε)`; the two differ by the relative
    amount `n·ε/(Σq² + n·ε)` — 1e-7 for ±1 codes, but up to n·1e-7 for sparse {0,1} / ternary codes -/
theorem C04_least_squares_vs_optimum (eps : ℚ) (he : 0 < eps) (g : List (ℚ × ℚ)) (hg : g ≠ [])
    (hq : 0 < (g.map fun p => p.2 * p.2).sum) :
    lsRaw (Fl.exact eps) g
      = ((g.map fun p => p.1 * p.2).sum / (g.map fun p => p.2 * p.2).sum)
        * ((g.map fun p => p.2 * p.2).sum / ((g.map fun p => p.2 * p.2).sum + (g.length : ℚ) * eps)) :=
  lsRaw_exact_vs_optimum eps he g hg hq

/-- auto_po2: for EVERY rounding function and EVERY value of the float logarithm (band-robust) the scale is
    an exact power of two whose exponent respects `min_po2_exponent` and the effective `max_po2_exponent` -/
theorem C04_po2_scale (c : Fl) (minE maxE : Option ℤ) (rank : ℕ) (pk ck : List (List ℕ)) (x q : List ℚ) :
    ∀ s ∈ lsScales c true minE maxE rank pk ck x q, ∃ e : ℤ, s = pow2 e ∧
      (∀ a, minE = some a → a ≤ e) ∧ (∀ b, effMax minE maxE = some b → e ≤ b) := by
  intro s hs
  unfold lsScales at hs
  split_ifs at hs
  · obtain ⟨p, _, rfl⟩ := List.mem_map.1 hs; exact lsFinish_po2 c minE maxE _
  · obtain ⟨k, _, rfl⟩ := List.mem_map.1 hs; exact lsFinish_po2 c minE maxE _

/-- binary(alpha="auto_po2"): every exposed scale is such a power of two -/
theorem C04_binary_po2_scale (c : Fl) (cfg : BinCfg) (ha : cfg.alpha = .autoPo2) (shape : List ℕ)
    (x : List ℚ) (es : List Elt) (h : binary c cfg shape x = .ok es) :
    ∀ e ∈ es, ∃ k : ℤ, e.scale = pow2 k ∧
      (∀ a, cfg.minE = some a → a ≤ k) ∧ (∀ b, effMax cfg.minE cfg.maxE = some b → k ≤ b) := by
  unfold binary at h
  simp only [ha] at h
  cases hk : keys cfg.grp shape with
  | error e => simp [hk] at h
  | ok v =>
    obtain ⟨pk, ck⟩ := v
    simp only [hk] at h
    cases h
    intro e he
    obtain ⟨p, hp, rfl⟩ := List.mem_map.1 he
    have := C04_po2_scale c cfg.minE cfg.maxE shape.length pk ck x (x.map (binCode cfg.use01)) _
      (List.of_mem_zip hp).2
    simpa using this

/-! ### the straight-through wrapper -/

/-- exact arithmetic: `x + (-x + y) = y` -/
theorem C04_ste_exact (eps x y : ℚ) : ste (Fl.exact eps) x y = y := by
  unfold ste Fl.exact; ring

/-- float arithmetic: as soon as `-x + y` rounds to `-x` (|x| ≥ 2^25·|y| in float32: e.g. x = 1e8, y = 1,
    where -99999999 is not a float32) the returned value is 0: a code 0 leaks out of `binary` -/
theorem C04_ste_absorb_counterexample (c : Fl) (x y : ℚ) (h0 : c.r 0 = 0) (habs : c.r (-x + y) = -x) :
    ste c x y = 0 := by
  unfold ste; rw [habs]; simpa using h0

/-! ### constant scales: every argument form, ndarray alpha -/

/-- "same value ⇒ same behaviour": whatever Python type carries a scalar alpha (python float / int / bool,
    numpy float32 / float64 / int32 / int64, eager tensor, variable) the dispatch yields the constant
    `float(alpha)`, i.e. the configuration the python float of the same value gives -/
theorem C04_alpha_form_invariant (f g : NumForm) (v : ℚ) :
    alphaOfArg (.num f v) = .ok (.const v) ∧ alphaOfArg (.num f v) = alphaOfArg (.num g v) := ⟨rfl, rfl⟩

private theorem mk_mem {c : Fl} {x codes s : List ℚ} {e : Elt}
    (he : e ∈ ((x.zip codes).zip s).map fun p =>
      ({ x := p.1.1, code := p.1.2, scale := p.2, y := c.r (p.2 * p.1.2) } : Elt)) :
    (e.x, e.code) ∈ x.zip codes ∧ e.scale ∈ s ∧ e.y = c.r (e.scale * e.code) := by
  obtain ⟨p, hp, rfl⟩ := List.mem_map.1 he
  exact ⟨(List.of_mem_zip hp).1, (List.of_mem_zip hp).2, rfl⟩

/-- binary with alpha None or a constant: every element carries exactly that scale (`q.scale` = alpha, 1 for
    None) and the output is (rounded) alpha × sign code -/
theorem C04_binary_const_scale (c : Fl) (cfg : BinCfg) (a : ℚ)
    (ha : (cfg.alpha = .none ∧ a = 1) ∨ cfg.alpha = .const a) (shape : List ℕ) (x : List ℚ) (es : List Elt)
    (h : binary c cfg shape x = .ok es) :
    ∀ e ∈ es, e.scale = a ∧ e.y = c.r (a * binCode cfg.use01 e.x) := by
  have hc := C04_binary_codes c cfg shape x es h
  have key : ∀ e ∈ es, e.scale = a := by
    unfold binary at h
    rcases ha with ⟨ha, rfl⟩ | ha <;> simp only [ha] at h <;> cases h <;> intro e he <;>
      · obtain ⟨_, hs, _⟩ := mk_mem he
        obtain ⟨_, _, hsa⟩ := List.mem_map.1 hs
        exact hsa.symm
  intro e he
  obtain ⟨hy, hcode⟩ := hc e he
  exact ⟨key e he, by rw [hy, key e he, hcode]⟩

/-- ternary (fixed-threshold branch) with alpha None or a constant: scale = alpha, output = alpha × code -/
theorem C04_ternary_const_scale (c : Fl) (cfg : TerCfg) (a : ℚ)
    (ha : (cfg.alpha = .none ∧ a = 1) ∨ cfg.alpha = .const a) (shape : List ℕ) (x : List ℚ) (es : List Elt)
    (h : ternary c cfg shape x = .ok es) :
    ∀ e ∈ es, e.scale = a ∧ e.y = c.r (a * terCodeFixed cfg.thres e.x) := by
  unfold ternary at h
  rcases ha with ⟨ha, rfl⟩ | ha <;> simp only [ha] at h <;> cases h <;> intro e he <;>
    · obtain ⟨hxc, hs, hy⟩ := mk_mem he
      obtain ⟨_, _, hsa⟩ := List.mem_map.1 hs
      have hcode := mem_zip_map_self _ _ _ hxc
      simp only at hcode
      exact ⟨hsa.symm, by rw [hy, ← hsa, hcode]⟩

private theorem mk_map_scale {c : Fl} (x codes s : List ℚ) (h1 : codes.length = x.length)
    (h2 : s.length = x.length) :
    ((((x.zip codes).zip s).map fun p =>
      ({ x := p.1.1, code := p.1.2, scale := p.2, y := c.r (p.2 * p.1.2) } : Elt)).map (·.scale)) = s := by
  rw [List.map_map]
  have : ((fun e : Elt => e.scale) ∘ fun p : (ℚ × ℚ) × ℚ =>
      ({ x := p.1.1, code := p.1.2, scale := p.2, y := c.r (p.2 * p.1.2) } : Elt)) = Prod.snd := rfl
  rw [this]
  apply List.map_snd_zip
  simp [List.length_zip, h1, h2]

/-- an `np.ndarray` alpha (per-channel, per-row, 0-d …): `q.scale` broadcast to the input is, position by
    position, the array entry numpy broadcasting selects — for binary … -/
theorem C04_binary_array_scale (c : Fl) (cfg : BinCfg) (ash : List ℕ) (vals : List ℚ)
    (ha : cfg.alpha = .arr ash vals) (shape : List ℕ) (x : List ℚ) (hx : x.length = prodL shape)
    (es : List Elt) (h : binary c cfg shape x = .ok es) :
    es.map (·.scale) = (List.range (prodL shape)).map fun i => vals.getD (arrIdx ash shape i) 0 := by
  unfold binary at h
  simp only [ha] at h
  cases hs : arrScales ash vals shape with
  | error e => simp [hs] at h
  | ok s =>
    simp only [hs] at h
    cases h
    unfold arrScales at hs
    split_ifs at hs
    cases hs
    exact mk_map_scale _ _ _ (by simp) (by simp [hx])

/-- … and for ternary -/
theorem C04_ternary_array_scale (c : Fl) (cfg : TerCfg) (ash : List ℕ) (vals : List ℚ)
    (ha : cfg.alpha = .arr ash vals) (shape : List ℕ) (x : List ℚ) (hx : x.length = prodL shape)
    (es : List Elt) (h : ternary c cfg shape x = .ok es) :
    es.map (·.scale) = (List.range (prodL shape)).map fun i => vals.getD (arrIdx ash shape i) 0 := by
  unfold ternary at h
  simp only [ha] at h
  cases hs : arrScales ash vals shape with
  | error e => simp [hs] at h
  | ok s =>
    simp only [hs] at h
    cases h
    unfold arrScales at hs
    split_ifs at hs
    cases hs
    exact mk_map_scale _ _ _ (by simp) (by simp [hx])

/-- two positions whose multi-indices agree on every (right-aligned) axis where the array is not of size 1
    read the same entry: a per-channel array gives one scale per channel, whatever the rank -/
theorem C04_array_alpha_same_entry (ash shape : List ℕ) (i j : ℕ)
    (h : ∀ d, d < ash.length → ash.getD d 1 ≠ 1 →
      (unravel shape i).getD (d + (shape.length - ash.length)) 0 =
        (unravel shape j).getD (d + (shape.length - ash.length)) 0) :
    arrIdx ash shape i = arrIdx ash shape j := by
  unfold arrIdx arrMIdx
  congr 1
  apply List.map_congr_left
  intro d hd
  by_cases h1 : ash.getD d 1 = 1
  · rw [if_pos h1, if_pos h1]
  · rw [if_neg h1, if_neg h1]; exact h d (List.mem_range.1 hd) h1

/-- a 0-d array behaves as the constant of the same value -/
theorem C04_scalar_array_alpha (c : Fl) (cfg : BinCfg) (v : ℚ) (shape : List ℕ) (x : List ℚ)
    (hx : x.length = prodL shape) :
    binary c { cfg with alpha := .arr [] [v] } shape x = binary c { cfg with alpha := .const v } shape x := by
  have hs : arrScales [] [v] shape = .ok (x.map fun _ => v) := by
    unfold arrScales bcastOk
    simp only [List.length_nil, Nat.zero_le, decide_true, List.range_zero, List.all_nil, Bool.and_self,
      List.length_cons, prodL, beq_self_eq_true, if_true]
    congr 1
    have : ∀ i, [v].getD (arrIdx [] shape i) 0 = v := by
      intro i; simp [arrIdx, arrMIdx, ravel]
    simp only [this]
    rw [List.map_const', List.map_const', List.length_range, ← hx]
  unfold binary
  simp only [hs]

/-! ### live objects: stochastic variants in the inference phase, histories -/

private theorem binCall_ok {c : Fl} {env : Env} {o : BinObj} {shape : List ℕ} {x : List ℚ} {es : List Elt}
    (h : (o.call c env shape x).1 = .ok es) :
    ∃ cfg, o.a.cfg env shape.length = .ok cfg ∧ binary c cfg shape x = .ok es ∧
      (o.call c env shape x).2 = { o with scale := some (es.map (·.scale)) } := by
  unfold BinObj.call at h ⊢
  cases hc : o.a.cfg env shape.length with
  | error e => simp [hc] at h
  | ok cfg =>
    cases hb : binary c cfg shape x with
    | error e => simp [hc, hb] at h
    | ok es' =>
      simp only [hc, hb] at h ⊢
      have hes : es' = es := by simpa using h
      subst hes
      exact ⟨cfg, rfl, hb, rfl⟩

private theorem terCall_ok {c : Fl} {env : Env} {o : TerObj} {shape : List ℕ} {x : List ℚ} {es : List Elt}
    (h : (o.call c env shape x).1 = .ok es) :
    ∃ cfg, o.a.cfg c env = .ok cfg ∧ ternary c cfg shape x = .ok es ∧
      (o.call c env shape x).2 = { o with scale := some (es.map (·.scale)) } := by
  unfold TerObj.call at h ⊢
  cases hc : o.a.cfg c env with
  | error e => simp [hc] at h
  | ok cfg =>
    cases hb : ternary c cfg shape x with
    | error e => simp [hc, hb] at h
    | ok es' =>
      simp only [hc, hb] at h ⊢
      have hes : es' = es := by simpa using h
      subst hes
      exact ⟨cfg, rfl, hb, rfl⟩

private theorem binCfg_use01 {env : Env} {a : BinAttrs} {rank : ℕ} {cfg : BinCfg}
    (hc : a.cfg env rank = .ok cfg) : cfg.use01 = a.use01 := by
  unfold BinAttrs.cfg at hc
  cases ha : alphaOfArg a.alpha with
  | error e => simp [ha] at hc
  | ok al =>
    simp only [ha] at hc
    cases hx : a.axis al rank with
    | error e => simp [hx] at hc
    | ok sa =>
    simp only [hx] at hc
    cases al <;> simp only at hc
    case autoPo2 =>
      cases h1 : expOfArg a.minE <;> cases h2 : expOfArg a.maxE <;> simp only [h1, h2] at hc <;>
        first | (cases hc; rfl) | (cases hc)
    all_goals (cases hc; rfl)

/-- every successful call on a live `binary` object — whatever its attributes, the data format, whatever
    happened to the object before; `stochastic_binary` in the inference phase is such an object
    (`BinAttrs.ofStochastic`) — returns (rounded) scale × sign code and leaves exactly the scales it used
    in `q.scale` -/
theorem C04_object_call_codes (c : Fl) (env : Env) (o : BinObj) (shape : List ℕ) (x : List ℚ) (es : List Elt)
    (h : (o.call c env shape x).1 = .ok es) :
    (∀ e ∈ es, e.y = c.r (e.scale * e.code) ∧ e.code = binCode o.a.use01 e.x) ∧
      (o.call c env shape x).2.scale = some (es.map (·.scale)) ∧ (o.call c env shape x).2.a = o.a := by
  obtain ⟨cfg, hc, hb, h2⟩ := binCall_ok h
  refine ⟨?_, by rw [h2], by rw [h2]⟩
  rw [← binCfg_use01 hc]
  exact C04_binary_codes c cfg shape x es hb

/-- the same for `ternary` objects (and `stochastic_ternary` in the inference phase) -/
theorem C04_ternary_object_call_codes (c : Fl) (env : Env) (o : TerObj) (shape : List ℕ) (x : List ℚ)
    (es : List Elt) (h : (o.call c env shape x).1 = .ok es) :
    (∀ e ∈ es, e.y = c.r (e.scale * e.code) ∧ (e.code = -1 ∨ e.code = 0 ∨ e.code = 1) ∧
        (e.code ≠ 0 → e.code = sgnPos e.x) ∧ (e.x ≠ 0 → e.code ≠ 0 → e.code = sgn e.x)) ∧
      (o.call c env shape x).2.scale = some (es.map (·.scale)) ∧ (o.call c env shape x).2.a = o.a := by
  obtain ⟨cfg, hc, hb, h2⟩ := terCall_ok h
  refine ⟨?_, by rw [h2], by rw [h2]⟩
  intro e he
  obtain ⟨hy, hcode⟩ := C04_ternary_codes c cfg shape x es hb e he
  refine ⟨hy, ?_, ?_, ?_⟩
  · rcases hcode with hcode | ⟨sp, hcode⟩ <;> rw [hcode]
    · exact terCodeFixed_cases _ _
    · exact terCodeAuto_cases _ _ _
  · rcases hcode with hcode | ⟨sp, hcode⟩ <;> rw [hcode]
    · exact terCodeFixed_sign _ _
    · exact terCodeAuto_sign_pos _ _ _
  · intro hx
    rcases hcode with hcode | ⟨sp, hcode⟩ <;> rw [hcode]
    · exact terCodeFixed_sign_ne _ _ hx
    · exact terCodeAuto_sign _ _ _

/-- a call never reads `self.scale`: an object that has been used before behaves like its fresh twin
    (same attributes, never called), and on success both end with the same `q.scale` -/
theorem C04_call_as_fresh_twin (c : Fl) (env : Env) (o : BinObj) (shape : List ℕ) (x : List ℚ) :
    (o.call c env shape x).1 = ((BinObj.new o.a).call c env shape x).1 ∧
      (∀ es, (o.call c env shape x).1 = .ok es →
        (o.call c env shape x).2.scale = ((BinObj.new o.a).call c env shape x).2.scale) := by
  unfold BinObj.call BinObj.new
  cases hc : o.a.cfg env shape.length with
  | error e => simp
  | ok cfg =>
    cases hb : binary c cfg shape x with
    | error e => simp [hb]
    | ok es => simp [hb]

theorem C04_ternary_call_as_fresh_twin (c : Fl) (env : Env) (o : TerObj) (shape : List ℕ) (x : List ℚ) :
    (o.call c env shape x).1 = ((TerObj.new o.a).call c env shape x).1 ∧
      (∀ es, (o.call c env shape x).1 = .ok es →
        (o.call c env shape x).2.scale = ((TerObj.new o.a).call c env shape x).2.scale) := by
  unfold TerObj.call TerObj.new
  cases hc : o.a.cfg c env with
  | error e => simp
  | ok cfg =>
    cases hb : ternary c cfg shape x with
    | error e => simp [hb]
    | ok es => simp [hb]

private theorem binCall_attrs (c : Fl) (env : Env) (o : BinObj) (shape : List ℕ) (x : List ℚ) :
    (o.call c env shape x).2.a = o.a := by
  unfold BinObj.call
  cases hc : o.a.cfg env shape.length with
  | error e => rfl
  | ok cfg => cases hb : binary c cfg shape x <;> simp [hb]

/-- any history of calls (tensors of any shapes and ranks), attribute changes, `_set_trainable_parameter`
    and data-format switches: the attributes afterwards are the attribute changes applied in order (calls
    change none of them) and the data format is the last one set -/
theorem C04_history_attrs (c : Fl) (ops : List BinOp) (st : BinSt) :
    (binRun c st ops).obj.a = ops.foldl BinAttrs.set st.obj.a ∧
      (binRun c st ops).env = ops.foldl Env.step st.env := by
  induction ops generalizing st with
  | nil => exact ⟨rfl, rfl⟩
  | cons op ops ih =>
    have h1 : (binStep c st op).obj.a = st.obj.a.set op ∧ (binStep c st op).env = st.env.step op := by
      cases op <;> try exact ⟨rfl, rfl⟩
      case call shape x => exact ⟨binCall_attrs c st.env st.obj shape x, rfl⟩
      case callNp shape x => exact ⟨binCall_attrs c st.env st.obj shape x, rfl⟩
    have := ih (binStep c st op)
    simp only [binRun, List.foldl_cons] at this ⊢
    rw [this.1, this.2, h1.1, h1.2]
    exact ⟨rfl, rfl⟩

/-- the k-th use is a first use: after ANY history, a call returns what a freshly constructed object with
    the attributes now in force returns under the data format now in force, and on success `q.scale` is the
    scale of THIS call (not of an earlier one) -/
theorem C04_history_call_as_fresh (c : Fl) (ops : List BinOp) (st : BinSt) (shape : List ℕ) (x : List ℚ) :
    let twin := BinObj.new (ops.foldl BinAttrs.set st.obj.a)
    let env := ops.foldl Env.step st.env
    let st' := binRun c st (ops ++ [.call shape x])
    st'.outs = (binRun c st ops).outs ++ [(twin.call c env shape x).1] ∧
      (∀ es, (twin.call c env shape x).1 = .ok es → st'.obj.scale = some (es.map (·.scale))) := by
  intro twin env st'
  have hst : st' = binStep c (binRun c st ops) (.call shape x) := by
    simp only [st', binRun, List.foldl_append, List.foldl_cons, List.foldl_nil]
  obtain ⟨ha, he⟩ := C04_history_attrs c ops st
  have hf := C04_call_as_fresh_twin c (binRun c st ops).env (binRun c st ops).obj shape x
  rw [ha, he] at hf
  refine ⟨?_, ?_⟩
  · rw [hst]
    show (binRun c st ops).outs ++ [((binRun c st ops).obj.call c (binRun c st ops).env shape x).1] = _
    rw [he, hf.1]
  · intro es hes
    rw [hst]
    show ((binRun c st ops).obj.call c (binRun c st ops).env shape x).2.scale = _
    rw [he]
    have h1 : ((binRun c st ops).obj.call c env shape x).1 = .ok es := by rw [hf.1]; exact hes
    rw [hf.2 es h1]
    exact (C04_object_call_codes c env twin shape x es hes).2.1

theorem C04_ternary_history_attrs (c : Fl) (ops : List TerOp) (st : TerSt) :
    (terRun c st ops).obj.a = ops.foldl TerAttrs.set st.obj.a ∧
      (terRun c st ops).env = ops.foldl Env.stepT st.env := by
  induction ops generalizing st with
  | nil => exact ⟨rfl, rfl⟩
  | cons op ops ih =>
    have h1 : (terStepH c st op).obj.a = st.obj.a.set op ∧ (terStepH c st op).env = st.env.stepT op := by
      cases op <;> try exact ⟨rfl, rfl⟩
      case call shape x =>
        refine ⟨?_, rfl⟩
        show (st.obj.call c st.env shape x).2.a = st.obj.a
        unfold TerObj.call
        cases hc : st.obj.a.cfg c st.env with
        | error e => rfl
        | ok cfg => cases hb : ternary c cfg shape x <;> simp [hb]
    have := ih (terStepH c st op)
    simp only [terRun, List.foldl_cons] at this ⊢
    rw [this.1, this.2, h1.1, h1.2]
    exact ⟨rfl, rfl⟩

theorem C04_ternary_history_call_as_fresh (c : Fl) (ops : List TerOp) (st : TerSt) (shape : List ℕ)
    (x : List ℚ) :
    let twin := TerObj.new (ops.foldl TerAttrs.set st.obj.a)
    let env := ops.foldl Env.stepT st.env
    let st' := terRun c st (ops ++ [.call shape x])
    st'.outs = (terRun c st ops).outs ++ [(twin.call c env shape x).1] ∧
      (∀ es, (twin.call c env shape x).1 = .ok es → st'.obj.scale = some (es.map (·.scale))) := by
  intro twin env st'
  have hst : st' = terStepH c (terRun c st ops) (.call shape x) := by
    simp only [st', terRun, List.foldl_append, List.foldl_cons, List.foldl_nil]
  obtain ⟨ha, he⟩ := C04_ternary_history_attrs c ops st
  have hf := C04_ternary_call_as_fresh_twin c (terRun c st ops).env (terRun c st ops).obj shape x
  rw [ha, he] at hf
  refine ⟨?_, ?_⟩
  · rw [hst]
    show (terRun c st ops).outs ++ [((terRun c st ops).obj.call c (terRun c st ops).env shape x).1] = _
    rw [he, hf.1]
  · intro es hes
    rw [hst]
    show ((terRun c st ops).obj.call c (terRun c st ops).env shape x).2.scale = _
    rw [he]
    have h1 : ((terRun c st ops).obj.call c env shape x).1 = .ok es := by rw [hf.1]; exact hes
    rw [hf.2 es h1]
    exact (C04_ternary_object_call_codes c env twin shape x es hes).2.1

/-! ### histories against the CONFIGURED axes; two objects configured with one Python object
  (second strengthening round, seed C04-7: an in-place normalisation of a list-valued `scale_axis` froze the
  axes against the rank of the first tensor, for the object itself and for every object sharing the list) -/

private theorem binStep2_view (c : Fl) (st : BinSt2) (w' w : Which) (op : BinOp) :
    (binStep2 c st (w', op)).view w = binRun c (st.view w) (if w' = w then [op] else op.onOther) := by
  cases w' <;> cases w <;> cases op <;> rfl

theorem C04_shared_argument_independent (c : Fl) (ops : List (Which × BinOp)) (st : BinSt2) (w : Which) :
    (binRun2 c st ops).view w = binRun c (st.view w) (projOps w ops) := by
  induction ops generalizing st with
  | nil => rfl
  | cons p ops ih =>
    obtain ⟨w', op⟩ := p
    have := ih (binStep2 c st (w', op))
    simp only [binRun2, List.foldl_cons] at this ⊢
    rw [this, binStep2_view]
    simp only [projOps, binRun, List.foldl_append]

private theorem projOps_snoc (w : Which) (ops : List (Which × BinOp)) (op : BinOp) :
    projOps w (ops ++ [(w, op)]) = projOps w ops ++ [op] := by
  induction ops with
  | nil => simp [projOps]
  | cons p ops ih => obtain ⟨w', o⟩ := p; simp [projOps, ih]

/-- … hence the k-th use of an object of a pair is a first use too: whatever was done to EITHER object
    before, a call returns what a fresh object with this object's attributes now in force returns -/
theorem C04_pair_call_as_fresh (c : Fl) (ops : List (Which × BinOp)) (st : BinSt2) (w : Which)
    (shape : List ℕ) (x : List ℚ) :
    let own := projOps w ops
    let twin := BinObj.new (own.foldl BinAttrs.set (st.view w).obj.a)
    let env := own.foldl Env.step st.env
    ((binRun2 c st (ops ++ [(w, .call shape x)])).view w).outs =
        ((binRun2 c st ops).view w).outs ++ [(twin.call c env shape x).1] ∧
      (∀ es, (twin.call c env shape x).1 = .ok es →
        ((binRun2 c st (ops ++ [(w, .call shape x)])).view w).obj.scale = some (es.map (·.scale))) := by
  intro own twin env
  rw [C04_shared_argument_independent, C04_shared_argument_independent, projOps_snoc]
  have h := C04_history_call_as_fresh c (projOps w ops) (st.view w) shape x
  have henv : (st.view w).env = st.env := by cases w <;> rfl
  simp only [henv] at h
  exact h

/-- the k-th call of ANY history is `binary` under the configuration read off the attributes NOW in force
    and the rank of the CURRENT tensor (negative scale axes are counted against THIS rank, not against the
    rank of an earlier call): every tensor-level theorem above (`C04_scale_group_constant`,
    `C04_scale_is_group_statistic`, `C04_binary_scale_nonneg`, `C04_binary_po2_scale`, …) applies to it -/
theorem C04_history_call_config (c : Fl) (ops : List BinOp) (st : BinSt) (shape : List ℕ) (x : List ℚ)
    (es : List Elt)
    (h : (binRun c st (ops ++ [.call shape x])).outs = (binRun c st ops).outs ++ [.ok es]) :
    ∃ cfg, (ops.foldl BinAttrs.set st.obj.a).cfg (ops.foldl Env.step st.env) shape.length = .ok cfg ∧
      binary c cfg shape x = .ok es ∧
      (binRun c st (ops ++ [.call shape x])).obj.scale = some (es.map (·.scale)) ∧
      (binRun c st (ops ++ [.call shape x])).obj.a = ops.foldl BinAttrs.set st.obj.a := by
  have hf := C04_history_call_as_fresh c ops st shape x
  simp only at hf
  rw [hf.1] at h
  have hes := List.append_cancel_left h
  simp only [List.cons.injEq, and_true] at hes
  obtain ⟨cfg, hc, hb, _⟩ := binCall_ok hes
  refine ⟨cfg, hc, hb, hf.2 es hes, ?_⟩
  have ha := (C04_history_attrs c (ops ++ [.call shape x]) st).1
  rw [ha, List.foldl_append]
  rfl

private theorem terStep2_view (c : Fl) (st : TerSt2) (w' w : Which) (op : TerOp) :
    (terStep2 c st (w', op)).view w = terRun c (st.view w) (if w' = w then [op] else op.onOther) := by
  cases w' <;> cases w <;> cases op <;> rfl

/-- the same for two `ternary` / `stochastic_ternary` objects configured with one ndarray alpha / threshold -/
theorem C04_ternary_shared_argument_independent (c : Fl) (ops : List (Which × TerOp)) (st : TerSt2) (w : Which) :
    (terRun2 c st ops).view w = terRun c (st.view w) (projOpsT w ops) := by
  induction ops generalizing st with
  | nil => rfl
  | cons p ops ih =>
    obtain ⟨w', op⟩ := p
    have := ih (terStep2 c st (w', op))
    simp only [terRun2, List.foldl_cons] at this ⊢
    rw [this, terStep2_view]
    simp only [projOpsT, terRun, List.foldl_append]

/-- the scenario of seed C04-7 in the model: `binary(alpha="auto", scale_axis=[-1])` used on a rank-2
    tensor and then on a rank-4 tensor has, on the second call, one scale per index of the LAST axis of the
    rank-4 tensor (positions 0,2 / 1,3), its attributes are what they were, and a second object built from
    the same list sees nothing of it -/
example :
    let a : BinAttrs := ⟨false, .str "auto", .many [-1], .none, .none, .none⟩
    let st := binRun2 (Fl.exact (1/10000000)) ⟨⟨true⟩, BinObj.new a, BinObj.new a, [], []⟩
      [(.fst, .call [2, 2] [1, 2, -3, 4]), (.snd, .call [1, 2, 1, 2] [1, -2, 3, -4]), (.fst, .call [1, 2, 1, 2] [1, -2, 3, -4])]
    (match st.fst.scale, st.snd.scale with
      | some s, some t => s == t && s[0]! == s[2]! && s[1]! == s[3]! && s[0]! != s[1]!
      | _, _ => false) = true ∧ st.fst.a.sa = .many [-1] ∧ st.snd.a.sa = .many [-1] := by
  refine ⟨by decide +kernel, by decide +kernel, by decide +kernel⟩

/-! ### repaired defects at the edges of the argument space: full theorems + regression witnesses

  The five defects below were recorded by the strengthening round with `_counterexample` / `_partial`
  theorems and have since been repaired in qkeras (fix round, `known/C04.json` → `fixed`).  The model now
  has the repaired behaviour; each `_counterexample` became a `_fixed_witness` that evaluates the model at
  the formerly failing input, each `_partial` lost its restricting hypothesis. -/

/-- `threshold = 0` (legal, falsy), input 0: `|0| < 0` is false and the code is now +1 (zero counts as
    positive), where `cast(|x| >= 0) * sign(0)` used to give the code 0 -/
theorem C04_ternary_zero_threshold_fixed_witness :
    terCodeFixed 0 0 = 1 ∧ ¬ (|(0 : ℚ)| < 0) ∧ terCodeFixed 0 (-3) = -1 ∧ terCodeFixed (1/2) 0 = 0 := by
  refine ⟨by decide +kernel, by simp, by decide +kernel, by decide +kernel⟩

/-- a numpy array as input behaves like the tensor of the same values on EVERY path (formerly
    `C04_numpy_input_partial`, which needed `elements_per_scale = None`) -/
theorem C04_numpy_input (c : Fl) (env : Env) (o : BinObj) (shape : List ℕ) (x : List ℚ) :
    o.callNp c env shape x = o.call c env shape x := rfl

/-- the formerly failing input: `binary(alpha="auto", scale_axis=0, elements_per_scale=2)(np.array(2×2))`
    used to raise AttributeError; it now returns the scales the tensor of the same values gets -/
theorem C04_numpy_input_fixed_witness :
    let o := BinObj.new ⟨false, .str "auto", .one 0, .one 2, .none, .none⟩
    (match (o.callNp (Fl.exact (1/10000000)) ⟨true⟩ [2, 2] [1, -1, 2, -2]).1 with
      | .ok es => es.map (·.scale) == [3/2, 3/2, 3/2, 3/2].map (· / (1 + 1/10000000)) | .error _ => false) = true := by
  decide +kernel

/-- non-negative axes mean what they say, in every form, for every rank -/
theorem C04_axis_arg_nonneg (len : ℕ) (l : List ℕ) (a : ℕ) :
    axisOfArg len (.many (l.map Int.ofNat)) = .ok (.many l) ∧
      axisOfArg len (.one (Int.ofNat a)) = .ok (.one a) := by
  constructor
  · have h : ∀ t : List ℕ, (t.map Int.ofNat).filterMap
        (fun a => if normAxis len a < 0 then Option.none else some (normAxis len a).toNat) = t := by
      intro t
      induction t with
      | nil => rfl
      | cons n t ih =>
        rw [List.map_cons, List.filterMap_cons]
        have h0 : ¬ (Int.ofNat n < 0) := by simp
        have h1 : normAxis len (Int.ofNat n) = Int.ofNat n := by unfold normAxis; rw [if_neg h0]
        simp only [h1, h0, if_false, ih]
        rfl
    show Except.ok (AxisSpec.many _) = _
    rw [h]
  · have h0 : ¬ (Int.ofNat a < 0) := by simp
    have h1 : normAxis len (Int.ofNat a) = Int.ofNat a := by unfold normAxis; rw [if_neg h0]
    show (if normAxis len (Int.ofNat a) < 0 then Except.error Err.valueError
      else Except.ok (AxisSpec.one (normAxis len (Int.ofNat a)).toNat)) = _
    rw [h1, if_neg h0]
    rfl

/-- negative axes are counted from the end (formerly `C04_axis_arg_partial`, which covered non-negative
    axes only, and `C04_negative_axis_counterexample`): for a tensor of rank `len`, the axis `k - len`
    (`k < len`: the axes `-len … -1`) is the axis `k`, as an int and inside a list — so a negative spelling
    and the non-negative spelling of the same axes give the same configuration -/
theorem C04_axis_arg_negative (len : ℕ) (ks : List ℕ) (hk : ∀ k ∈ ks, k < len) (k : ℕ) (hk1 : k < len) :
    axisOfArg len (.many (ks.map fun k : ℕ => (k : ℤ) - (len : ℤ))) = .ok (.many ks) ∧
      axisOfArg len (.one ((k : ℤ) - len)) = .ok (.one k) := by
  have hn : ∀ j : ℕ, j < len → normAxis len ((j : ℤ) - len) = (j : ℤ) := by
    intro j hj
    unfold normAxis
    have : (j : ℤ) - len < 0 := by omega
    rw [if_pos this]; ring
  constructor
  · have h : ∀ t : List ℕ, (∀ j ∈ t, j < len) → (t.map fun k : ℕ => (k : ℤ) - (len : ℤ)).filterMap
        (fun a => if normAxis len a < 0 then Option.none else some (normAxis len a).toNat) = t := by
      intro t
      induction t with
      | nil => intro _; rfl
      | cons n t ih =>
        intro ht
        rw [List.map_cons, List.filterMap_cons]
        have h1 := hn n (ht n (by simp))
        have h0 : ¬ ((n : ℤ) < 0) := by omega
        simp only [h1, h0, if_false, Int.toNat_natCast]
        rw [ih (fun j hj => ht j (by simp [hj]))]
    show Except.ok (AxisSpec.many _) = _
    rw [h ks hk]
  · have h0 : ¬ ((k : ℤ) < 0) := by omega
    show (if normAxis len ((k : ℤ) - len) < 0 then Except.error Err.valueError
      else Except.ok (AxisSpec.one (normAxis len ((k : ℤ) - len)).toNat)) = _
    rw [hn k hk1, if_neg h0, Int.toNat_natCast]

/-- mixed lists: every entry of a list is normalised on its own -/
theorem C04_axis_arg_mixed (len : ℕ) (l : List ℤ) (hl : ∀ a ∈ l, -(len : ℤ) ≤ a) :
    axisOfArg len (.many l) = .ok (.many (l.map fun a => (normAxis len a).toNat)) := by
  have h : ∀ t : List ℤ, (∀ a ∈ t, -(len : ℤ) ≤ a) → t.filterMap
      (fun a => if normAxis len a < 0 then Option.none else some (normAxis len a).toNat)
        = t.map fun a => (normAxis len a).toNat := by
    intro t
    induction t with
    | nil => intro _; rfl
    | cons n t ih =>
      intro ht
      rw [List.map_cons, List.filterMap_cons]
      have hge := ht n (by simp)
      have h0 : ¬ (normAxis len n < 0) := by
        unfold normAxis; split_ifs <;> omega
      simp only [h0, if_false]
      rw [ih (fun a ha => ht a (by simp [ha]))]
  show Except.ok (AxisSpec.many _) = _
  rw [h l hl]

/-- the formerly failing inputs: `scale_axis=[-1]` on a rank-2 tensor used to behave as `[]` (ONE scale for
    the whole tensor) and `scale_axis=-1` used to raise; both are now the last axis, whose complement
    `[0]` is reduced: one scale per channel; `[0,-1]` is `[0,1]` (it used to behave as `[0]`) -/
theorem C04_negative_axis_fixed_witness :
    axisOfArg 2 (.many [-1]) = .ok (.many [1]) ∧ axisOfArg 2 (.one (-1)) = .ok (.one 1) ∧
    axisOfArg 2 (.many [0, -1]) = .ok (.many [0, 1]) ∧
    scalingAxis true (.many [1]) 2 = [0] ∧ scalingAxis true (.one 1) 2 = [0] ∧
    axisOfArg 3 (.one (-2)) = .ok (.one 1) := by
  refine ⟨by decide +kernel, by decide +kernel, by decide +kernel, by decide, by decide, by decide +kernel⟩

/-- exponent bounds: EVERY form gives the same bounds as the python int of the same value (formerly
    `C04_exp_form_partial`, which needed `0 ≤ e` for the numpy integers) -/
theorem C04_exp_form_invariant (e : ℤ) : expOfArg (.npInt e) = expOfArg (.py e) ∧ expOfArg (.py e) = .ok (some e) :=
  ⟨rfl, rfl⟩

/-- the formerly failing input: `min_po2_exponent=np.int64(-3)` used to raise in `2**min_po2_exponent` -/
theorem C04_exp_form_fixed_witness :
    expOfArg (.npInt (-3)) = .ok (some (-3)) ∧ expOfArg (.py (-3)) = .ok (some (-3)) := ⟨rfl, rfl⟩

/-! ### the order of a `scale_axis` list is free (fix round N)

  `scale_axis=[1, 0], elements_per_scale=[2, 2]` used to raise (`Incompatible shapes`) where `[0, 1]` worked,
  and `elements_per_scale` of 1 in a non-ascending list gave a silently wrong grouping: `_get_unrolled_shape` /
  `_get_rolled_back_shape` walk the list in the order given and shift every later axis by one per axis
  handled, i.e. presume ascending axes.  Since the fix `_validate_axis_and_eps` hands the (axis, elements)
  pairs over in ascending order.  The configured grouping is a SET of pairs: -/

private theorem scalingAxis_perm (chLast : Bool) {l l' : List ℕ} (h : l.Perm l') (len : ℕ) :
    scalingAxis chLast (.many l) len = scalingAxis chLast (.many l') len := by
  simp only [scalingAxis]
  apply List.filter_congr
  intro i _
  rw [Bool.eq_iff_iff]
  simp [h.mem_iff]

/-- ANY two listings of the same (axis, elements_per_scale) pairs — every permutation, for every rank, every
    shape, both data formats, whether the configuration is accepted or rejected — give the same verdict and the
    same producer and consumer key for every position: the same partition into scale groups -/
theorem C04_axes_order_irrelevant (chLast : Bool) (ps qs : List (ℕ × ℕ)) (h : ps.Perm qs) (shape : List ℕ) :
    keys ⟨chLast, .many (ps.map (·.1)), .many (ps.map (·.2))⟩ shape
      = keys ⟨chLast, .many (qs.map (·.1)), .many (qs.map (·.2))⟩ shape := by
  unfold keys
  simp only [validateAxisEps_perm shape h]

/-- … with ONE `elements_per_scale` for all listed axes -/
theorem C04_axes_order_irrelevant_int_eps (chLast : Bool) (l l' : List ℕ) (h : l.Perm l') (e : ℕ)
    (shape : List ℕ) : keys ⟨chLast, .many l, .one e⟩ shape = keys ⟨chLast, .many l', .one e⟩ shape := by
  unfold keys
  simp only [validateAxisEps_perm_int shape h e]

/-- … and without `elements_per_scale` (this route never depended on the order: `i not in scale_axis`) -/
theorem C04_axes_order_irrelevant_no_eps (chLast : Bool) (l l' : List ℕ) (h : l.Perm l') (shape : List ℕ) :
    keys ⟨chLast, .many l, .none⟩ shape = keys ⟨chLast, .many l', .none⟩ shape := by
  unfold keys
  simp only [scalingAxis_perm chLast h]

/-- the two-axis case spelled out: `scale_axis=[a, b], elements_per_scale=[ea, eb]` is
    `scale_axis=[b, a], elements_per_scale=[eb, ea]` -/
theorem C04_axes_order_irrelevant_swap (chLast : Bool) (a b ea eb : ℕ) (shape : List ℕ) :
    keys ⟨chLast, .many [a, b], .many [ea, eb]⟩ shape = keys ⟨chLast, .many [b, a], .many [eb, ea]⟩ shape :=
  C04_axes_order_irrelevant chLast [(a, ea), (b, eb)] [(b, eb), (a, ea)] (List.Perm.swap _ _ _) shape

/-- reversing both lists -/
theorem C04_axes_order_irrelevant_reverse (chLast : Bool) (ps : List (ℕ × ℕ)) (shape : List ℕ) :
    keys ⟨chLast, .many (ps.map (·.1)).reverse, .many (ps.map (·.2)).reverse⟩ shape
      = keys ⟨chLast, .many (ps.map (·.1)), .many (ps.map (·.2))⟩ shape := by
  rw [← List.map_reverse, ← List.map_reverse]
  exact C04_axes_order_irrelevant chLast ps.reverse ps (List.reverse_perm ps) shape

/-- every listing is its ascending spelling (axes non-decreasing), and a strictly ascending listing is worked on
    as it stands — nothing changed for the configurations that used to work -/
theorem C04_axes_order_irrelevant_canonical (chLast : Bool) (ps : List (ℕ × ℕ)) (shape : List ℕ) :
    keys ⟨chLast, .many (ps.map (·.1)), .many (ps.map (·.2))⟩ shape
        = keys ⟨chLast, .many ((sortPairs ps).map (·.1)), .many ((sortPairs ps).map (·.2))⟩ shape ∧
      ((sortPairs ps).map (·.1)).Pairwise (· ≤ ·) ∧
      ((ps.map (·.1)).Pairwise (· < ·) → sortPairs ps = ps) :=
  ⟨C04_axes_order_irrelevant chLast ps (sortPairs ps) (sortPairs_perm ps).symm shape,
   sortPairs_axes_ascending ps, sortPairs_of_axes_ascending⟩

/-- hence the scales, the codes and the outputs of `binary` (alpha "auto" / "auto_po2", any float context) do
    not depend on the order of the listing either -/
theorem C04_axes_order_irrelevant_binary (c : Fl) (cfg : BinCfg) (ps qs : List (ℕ × ℕ)) (h : ps.Perm qs)
    (shape : List ℕ) (x : List ℚ) :
    binary c { cfg with grp := ⟨cfg.grp.chLast, .many (ps.map (·.1)), .many (ps.map (·.2))⟩ } shape x
      = binary c { cfg with grp := ⟨cfg.grp.chLast, .many (qs.map (·.1)), .many (qs.map (·.2))⟩ } shape x := by
  simp only [binary, C04_axes_order_irrelevant cfg.grp.chLast ps qs h shape]

private theorem filterMap_norm_of_inRange (len : ℕ) (l : List ℤ) (h : AxisArg.inRange len (.many l) = true) :
    l.filterMap (fun a => if normAxis len a < 0 then Option.none else some (normAxis len a).toNat)
      = l.map fun a => (normAxis len a).toNat := by
  induction l with
  | nil => rfl
  | cons n t ih =>
    simp only [AxisArg.inRange, List.all_cons, Bool.and_eq_true, decide_eq_true_eq] at h
    have h0 : ¬ (normAxis len n < 0) := by omega
    rw [List.filterMap_cons, List.map_cons]
    simp only [h0, if_false]
    rw [ih (by simpa [AxisArg.inRange] using h.2)]

private theorem binary_congr (c : Fl) (c1 c2 : BinCfg) (shape : List ℕ) (x : List ℚ)
    (h1 : c1.use01 = c2.use01) (h2 : c1.alpha = c2.alpha) (h3 : c1.minE = c2.minE) (h4 : c1.maxE = c2.maxE)
    (hk : (c1.alpha = .auto ∨ c1.alpha = .autoPo2) → keys c1.grp shape = keys c2.grp shape) :
    binary c c1 shape x = binary c c2 shape x := by
  obtain ⟨u1, a1, g1, mn1, mx1⟩ := c1
  obtain ⟨u2, a2, g2, mn2, mx2⟩ := c2
  simp only at h1 h2 h3 h4 hk
  subst h1 h2 h3 h4
  cases a1 with
  | none => rfl
  | const a => rfl
  | arr sh v => rfl
  | auto => simp only [binary, hk (Or.inl rfl)]
  | autoPo2 => simp only [binary, hk (Or.inr rfl)]

/-- the axes a call works with, for two listings of the same pairs -/
private theorem axis_perm (a : BinAttrs) (ps qs : List (ℤ × ℕ)) (h : ps.Perm qs) (al : Alpha) (chLast : Bool)
    (shape : List ℕ) :
    match ({ a with sa := .many (ps.map (·.1)), eps := .many (ps.map (·.2)) } : BinAttrs).axis al shape.length,
          ({ a with sa := .many (qs.map (·.1)), eps := .many (qs.map (·.2)) } : BinAttrs).axis al shape.length with
    | .error e1, .error e2 => e1 = e2
    | .ok s1, .ok s2 => (al = .auto ∨ al = .autoPo2) →
        keys ⟨chLast, s1, .many (ps.map (·.2))⟩ shape = keys ⟨chLast, s2, .many (qs.map (·.2))⟩ shape
    | _, _ => False := by
  by_cases hr : shape.length ≤ 1
  · -- rank ≤ 1: no grouping at all
    have hk : ∀ g g' : Grp, keys g shape = keys g' shape := by
      intro g g'; unfold keys; simp only [hr, if_true]
    cases al <;> simp only [BinAttrs.axis, hr, if_true] <;> intro _ <;> exact hk _ _
  · have hin : AxisArg.inRange shape.length (.many (ps.map (·.1))) = AxisArg.inRange shape.length (.many (qs.map (·.1))) := by
      simp only [AxisArg.inRange]; exact (h.map _).all_eq
    have main : (match (if AxisArg.inRange shape.length (.many (ps.map (·.1))) then
                    (Except.ok (AxisSpec.many ((ps.map (·.1)).filterMap fun a => if normAxis shape.length a < 0 then Option.none else some (normAxis shape.length a).toNat)) : Except Err AxisSpec)
                  else .error .assert),
                 (if AxisArg.inRange shape.length (.many (qs.map (·.1))) then
                    (Except.ok (AxisSpec.many ((qs.map (·.1)).filterMap fun a => if normAxis shape.length a < 0 then Option.none else some (normAxis shape.length a).toNat)) : Except Err AxisSpec)
                  else .error .assert) with
        | .error e1, .error e2 => e1 = e2
        | .ok s1, .ok s2 => keys ⟨chLast, s1, .many (ps.map (·.2))⟩ shape = keys ⟨chLast, s2, .many (qs.map (·.2))⟩ shape
        | _, _ => False) := by
      rw [← hin]
      by_cases hi : AxisArg.inRange shape.length (.many (ps.map (·.1))) = true
      · have hi' := hi; rw [hin] at hi'
        rw [if_pos hi, if_pos hi, filterMap_norm_of_inRange _ _ hi, filterMap_norm_of_inRange _ _ hi']
        simp only
        let f : ℤ × ℕ → ℕ × ℕ := fun p => ((normAxis shape.length p.1).toNat, p.2)
        have e1 : ∀ l : List (ℤ × ℕ), (l.map (·.1)).map (fun a => (normAxis shape.length a).toNat) = (l.map f).map (·.1) := by
          intro l; simp [f, List.map_map, Function.comp_def]
        have e2 : ∀ l : List (ℤ × ℕ), l.map (·.2) = (l.map f).map (·.2) := by
          intro l; simp [f, List.map_map, Function.comp_def]
        rw [e1 ps, e1 qs, e2 ps, e2 qs]
        exact C04_axes_order_irrelevant chLast _ _ (h.map f) shape
      · rw [if_neg hi, if_neg hi]
    cases al with
    | none => simp [BinAttrs.axis]
    | const v => simp [BinAttrs.axis]
    | arr sh v => simp [BinAttrs.axis]
    | auto =>
      simp only [BinAttrs.axis, hr, if_false, axisOfArg]
      revert main
      generalize (if AxisArg.inRange shape.length (AxisArg.many (List.map (fun x => x.1) ps)) = true then _ else _ : Except Err AxisSpec) = r1
      generalize (if AxisArg.inRange shape.length (AxisArg.many (List.map (fun x => x.1) qs)) = true then _ else _ : Except Err AxisSpec) = r2
      intro main
      cases r1 <;> cases r2 <;> simp_all
    | autoPo2 =>
      simp only [BinAttrs.axis, hr, if_false, axisOfArg]
      revert main
      generalize (if AxisArg.inRange shape.length (AxisArg.many (List.map (fun x => x.1) ps)) = true then _ else _ : Except Err AxisSpec) = r1
      generalize (if AxisArg.inRange shape.length (AxisArg.many (List.map (fun x => x.1) qs)) = true then _ else _ : Except Err AxisSpec) = r2
      intro main
      cases r1 <;> cases r2 <;> simp_all

private theorem cfg_perm (c : Fl) (env : Env) (a : BinAttrs) (ps qs : List (ℤ × ℕ)) (h : ps.Perm qs)
    (shape : List ℕ) (x : List ℚ) :
    match ({ a with sa := .many (ps.map (·.1)), eps := .many (ps.map (·.2)) } : BinAttrs).cfg env shape.length,
          ({ a with sa := .many (qs.map (·.1)), eps := .many (qs.map (·.2)) } : BinAttrs).cfg env shape.length with
    | .error e1, .error e2 => e1 = e2
    | .ok c1, .ok c2 => binary c c1 shape x = binary c c2 shape x
    | _, _ => False := by
  unfold BinAttrs.cfg
  simp only
  cases ha : alphaOfArg a.alpha with
  | error e => simp
  | ok al =>
    simp only
    have hax := axis_perm a ps qs h al env.chLast shape
    cases h1 : ({ a with sa := .many (ps.map (·.1)), eps := .many (ps.map (·.2)) } : BinAttrs).axis al shape.length <;>
    cases h2 : ({ a with sa := .many (qs.map (·.1)), eps := .many (qs.map (·.2)) } : BinAttrs).axis al shape.length <;>
    rw [h1, h2] at hax <;> simp only at hax ⊢
    · exact hax
    · cases al with
      | autoPo2 =>
        cases expOfArg a.minE <;> cases expOfArg a.maxE <;> simp only
        exact binary_congr c _ _ shape x rfl rfl rfl rfl (fun _ => hax (Or.inr rfl))
      | auto => exact binary_congr c _ _ shape x rfl rfl rfl rfl (fun _ => hax (Or.inl rfl))
      | none => exact binary_congr c _ _ shape x rfl rfl rfl rfl (fun hh => by simp at hh)
      | const v => exact binary_congr c _ _ shape x rfl rfl rfl rfl (fun hh => by simp at hh)
      | arr sh v => exact binary_congr c _ _ shape x rfl rfl rfl rfl (fun hh => by simp at hh)

/-- … on the live object, with the axes as Python hands them over (negative axes counted from the end,
    `[-1, 0]`, `[-1, -2]`, mixed signs): for ANY attributes, data format, rank, shape, input and float context,
    two objects whose `scale_axis` / `elements_per_scale` lists are two listings of the same pairs return the
    same result (outputs, codes, scales — or the same rejection) and leave the same `q.scale` -/
theorem C04_axes_order_irrelevant_call (c : Fl) (env : Env) (a : BinAttrs) (ps qs : List (ℤ × ℕ)) (h : ps.Perm qs)
    (shape : List ℕ) (x : List ℚ) :
    let o1 := BinObj.new { a with sa := .many (ps.map (·.1)), eps := .many (ps.map (·.2)) }
    let o2 := BinObj.new { a with sa := .many (qs.map (·.1)), eps := .many (qs.map (·.2)) }
    (o1.call c env shape x).1 = (o2.call c env shape x).1 ∧
      (o1.call c env shape x).2.scale = (o2.call c env shape x).2.scale := by
  intro o1 o2
  have hc := cfg_perm c env a ps qs h shape x
  simp only [BinObj.call, o1, o2, BinObj.new]
  revert hc
  cases ({ a with sa := .many (ps.map (·.1)), eps := .many (ps.map (·.2)) } : BinAttrs).cfg env shape.length <;>
  cases ({ a with sa := .many (qs.map (·.1)), eps := .many (qs.map (·.2)) } : BinAttrs).cfg env shape.length <;>
  simp only <;> intro hc
  · exact ⟨by rw [hc], trivial⟩
  · exact hc.elim
  · exact hc.elim
  · rw [hc]
    split <;> simp

/-- the formerly failing input `binary(alpha="auto", scale_axis=[1, 0], elements_per_scale=[2, 2])` on a 4×4
    tensor: accepted, producer key = consumer key, the groups are the 2×2 blocks, exactly as for `[0, 1]`;
    `[1, 0]` with `[4, 2]` is `[0, 1]` with `[2, 4]`; the scales of a block-constant tensor are the block
    magnitudes (÷ (1+ε)); on the live object `[-1, 0]` / `[-1, -2]` with `[4, 2]` are `[0, 1]` with `[2, 4]` (two
    scales, one per pair of rows).  Last line: the walk in the order LISTED, which the code used to take — shape
    `[4,1,2,2]` with both unrolled axes at 1: not the blocks (hence `Incompatible shapes` on roll-back) -/
theorem C04_axes_order_irrelevant_fixed_witness :
    (match keys ⟨true, .many [1, 0], .many [2, 2]⟩ [4, 4], keys ⟨true, .many [0, 1], .many [2, 2]⟩ [4, 4] with
      | .ok (pk, ck), .ok (pk', ck') =>
        pk == ck && pk == pk' && ck == ck' && pk == (List.range 16).map (fun i => [i / 4 / 2, 0, i % 4 / 2, 0])
      | _, _ => false) = true ∧
    validateAxisEps [4, 4] (.many [1, 0]) (.many [4, 2]) = .ok ([0, 1], [2, 4], false) ∧
    (match binary (Fl.exact (1/10000000)) ⟨false, .auto, ⟨true, .many [1, 0], .many [2, 2]⟩, none, none⟩ [4, 4]
        [1, -1, 2, 2, 1, 1, -2, 2, 3, 3, 4, -4, -3, 3, 4, 4] with
      | .ok es => es.map (·.scale) == [1, 1, 2, 2, 1, 1, 2, 2, 3, 3, 4, 4, 3, 3, 4, 4].map (· / (1 + 1/10000000))
      | .error _ => false) = true ∧
    (let x : List ℚ := [1, -1, 2, 2, 1, 1, -2, 2, 3, 3, 4, -4, -3, 3, 4, 4]
     let o (sa : List ℤ) (eps : List ℕ) := BinObj.new ⟨false, .str "auto", .many sa, .many eps, .none, .none⟩
     match ((o [-1, 0] [4, 2]).call (Fl.exact (1/10000000)) ⟨true⟩ [4, 4] x).1,
           ((o [0, 1] [2, 4]).call (Fl.exact (1/10000000)) ⟨true⟩ [4, 4] x).1,
           ((o [-1, -2] [4, 2]).call (Fl.exact (1/10000000)) ⟨true⟩ [4, 4] x).1 with
      | .ok es, .ok es', .ok es'' =>
        es.map (·.scale) == es'.map (·.scale) && es''.map (·.scale) == es'.map (·.scale) &&
          es.map (·.scale) == ([3/2, 3/2, 3/2, 3/2, 3/2, 3/2, 3/2, 3/2, 7/2, 7/2, 7/2, 7/2, 7/2, 7/2, 7/2, 7/2] : List ℚ).map
            (· / (1 + 1/10000000))
      | _, _, _ => false) = true ∧
    unrolledShape [4, 4] [1, 0] [2, 2] = ([4, 1, 2, 2], [1, 1]) := by
  refine ⟨by decide +kernel, by decide +kernel, by decide +kernel, by decide +kernel, by decide +kernel⟩

/-! ### non-vacuity -/

/-- the hypotheses `binary … = .ok es` / `keys … = .ok (pk, ck)` are satisfiable: the grouping of a
    rank-4 kernel with the default axis succeeds and has one key per output channel -/
example : (match keys ⟨true, .none, .none⟩ [2, 1, 2, 3] with
    | .ok (pk, ck) => pk == ck && pk == (List.range 12).map (fun i => [0, 0, 0, i % 3])
    | .error _ => false) = true := by decide
example : ∃ es, binary (Fl.exact (1/10000000)) ⟨false, .const 2, ⟨true, .none, .none⟩, none, none⟩ [2] [0, -1]
    = .ok es := ⟨_, rfl⟩
example : ∃ es, ternary (Fl.exact (1/10000000)) ⟨.none, 33/100, true, 5⟩ [2] [0, -1] = .ok es := ⟨_, rfl⟩
example : (Fl.exact (1/10000000)).SignPres := Fl.exact_signPres _
example : (Fl.f32 (1/10000000)).SignPres := Fl.f32_signPres _
example : keptAxis true .none 4 3 := by simp [keptAxis]
/-- a per-channel array alpha on a rank-3 tensor: succeeds, one scale per channel -/
example : (match binary (Fl.exact (1/10000000)) ⟨false, .arr [2] [3, 5], ⟨true, .none, .none⟩, none, none⟩ [2, 1, 2]
      [1, -1, 0, -2] with
    | .ok es => es.map (·.scale) == [3, 5, 3, 5] && es.map (·.y) == [3, -5, 3, -5]
    | .error _ => false) = true := by decide +kernel
/-- a history: stochastic_binary(alpha=2 as a python int) used on a rank-1 then a rank-2 tensor, then
    `_set_trainable_parameter` (no effect: alpha is not None) -/
example : ((binRun (Fl.exact (1/10000000)) ⟨⟨true⟩, BinObj.new (BinAttrs.ofStochastic (.num .pyInt 2)), []⟩
    [.call [2] [1, -1], .setTrainable, .call [1, 2] [-1, 0]]).obj.scale) = some [2, 2] := by decide +kernel

/-! ### the option `use_stochastic_rounding` and the learning phase (strengthening round V04, seed C04-12)

`binCodeSR` is the code step of `binary.__call__` as written: `sign`, then (option set) the zeros filled with
`fill` (ones in inference, a random ±1 in training), then the unconditional `k += 1 - |k|` whose mask is
recomputed AFTER the fill, then the `use_01` remap.  Model/BinTerSR.lean. -/

/-- the code is in {-1,+1} ({0,1} in 0/1 mode) for every input, with or without the option, whatever the
    draw of the fill (any ±1): no 0 and no 2 leaks out of the two fill-in steps -/
theorem C04_sr_code_set (usr use01 : Bool) {fill : ℚ} (hf : fill = 1 ∨ fill = -1) (x : ℚ) :
    (use01 = false → (binCodeSR usr use01 fill x = -1 ∨ binCodeSR usr use01 fill x = 1)) ∧
    (use01 = true → (binCodeSR usr use01 fill x = 0 ∨ binCodeSR usr use01 fill x = 1)) := by
  unfold binCodeSR sgn rabs
  rcases hf with rfl | rfl <;> cases usr <;> cases use01 <;> constructor <;> intro h <;>
    simp at h ⊢ <;> split_ifs <;> norm_num at * <;> first | linarith | skip

/-- INFERENCE (fill = 1, "a biased 1"): the code is the plain sign code — zero counts as positive —, with or
    without the option -/
theorem C04_sr_code_inference (usr use01 : Bool) (x : ℚ) : binCodeSR usr use01 1 x = binCode use01 x := by
  unfold binCodeSR binCode sgn rabs
  cases usr <;> cases use01 <;> simp <;> split_ifs <;> norm_num at * <;> first | linarith | skip

/-- a NON-ZERO carrier: the fill is irrelevant (any value at all), the code is the sign code -/
theorem C04_sr_code_nonzero (usr use01 : Bool) (fill : ℚ) {x : ℚ} (hx : x ≠ 0) :
    binCodeSR usr use01 fill x = binCode use01 x := by
  unfold binCodeSR binCode sgn rabs
  rcases lt_trichotomy x 0 with h | h | h
  · cases usr <;> cases use01 <;> simp [h, not_lt.2 h.le] <;> norm_num
  · exact absurd h hx
  · cases usr <;> cases use01 <;> simp [h, not_lt.2 h.le] <;> norm_num

/-- without the option the phase and the draws are irrelevant: the call IS `binary` -/
theorem C04_sr_off_invariant (c : Fl) (cfg : BinCfg) (ph : Phase) (d : SRDraw) (shape : List ℕ) (x : List ℚ) :
    binarySR c cfg false ph d shape x = binary c cfg shape x := by
  have hc : ((x.zip (x.map fun _ => (1 : ℚ))).map fun p => binCodeSR false cfg.use01 p.2 p.1) =
      x.map (binCode cfg.use01) := by
    induction x with
    | nil => rfl
    | cons a t ih =>
      simp only [List.map_cons, List.zip_cons_cons, ih, List.cons.injEq, and_true]
      exact C04_sr_code_inference false cfg.use01 a
  unfold binarySR srCarriers srFills
  cases ph <;> simp only [hc] <;> rfl

/-- INFERENCE PHASE: the option changes nothing — the call IS `binary` (Model/BinTer.lean), for every
    configuration / rank / shape / input / float context; hence every tensor-level theorem above
    (`C04_binary_codes`, `C04_binary_const_scale`, `C04_scale_group_constant`, `C04_least_squares`,
    `C04_binary_po2_scale` …) holds verbatim for `binary(..., use_stochastic_rounding=True)` in inference -/
theorem C04_sr_inference_invariant (c : Fl) (cfg : BinCfg) (usr : Bool) (d : SRDraw) (shape : List ℕ) (x : List ℚ) :
    binarySR c cfg usr .inference d shape x = binary c cfg shape x := by
  have hc : ((x.zip (x.map fun _ => (1 : ℚ))).map fun p => binCodeSR usr cfg.use01 p.2 p.1) =
      x.map (binCode cfg.use01) := by
    induction x with
    | nil => rfl
    | cons a t ih =>
      simp only [List.map_cons, List.zip_cons_cons, ih, List.cons.injEq, and_true]
      exact C04_sr_code_inference usr cfg.use01 a
  unfold binarySR srCarriers srFills
  cases usr <;> simp only [hc] <;> rfl

/-- ANY phase, any draws whose fills are ±1: every element of a successful call is (rounded) scale × code
    with the code in the code set -/
theorem C04_sr_binary_codes (c : Fl) (cfg : BinCfg) (usr : Bool) (ph : Phase) (d : SRDraw)
    (hd : ∀ u ∈ d.u, u = 1 ∨ u = -1) (shape : List ℕ) (x : List ℚ) (es : List Elt)
    (h : binarySR c cfg usr ph d shape x = .ok es) :
    ∀ e ∈ es, e.y = c.r (e.scale * e.code) ∧
      (cfg.use01 = false → (e.code = -1 ∨ e.code = 1)) ∧ (cfg.use01 = true → (e.code = 0 ∨ e.code = 1)) := by
  set xc := srCarriers c cfg.grp.chLast usr ph d shape x with hxc
  have hfill : ∀ u ∈ srFills usr ph d xc, u = 1 ∨ u = -1 := by
    intro u hu
    unfold srFills at hu
    cases usr <;> cases ph <;> simp only at hu
    · obtain ⟨_, _, rfl⟩ := List.mem_map.1 hu; exact Or.inl rfl
    · obtain ⟨_, _, rfl⟩ := List.mem_map.1 hu; exact Or.inl rfl
    · obtain ⟨_, _, rfl⟩ := List.mem_map.1 hu; exact Or.inl rfl
    · exact hd u hu
  have key : ∀ scales : List ℚ, ∀ e ∈ (((xc.zip ((xc.zip (srFills usr ph d xc)).map
      fun p => binCodeSR usr cfg.use01 p.2 p.1)).zip scales).map fun p =>
      ({ x := p.1.1, code := p.1.2, scale := p.2, y := c.r (p.2 * p.1.2) } : Elt)),
      e.y = c.r (e.scale * e.code) ∧
      (cfg.use01 = false → (e.code = -1 ∨ e.code = 1)) ∧ (cfg.use01 = true → (e.code = 0 ∨ e.code = 1)) := by
    intro scales e he
    obtain ⟨p, hp, rfl⟩ := List.mem_map.1 he
    have h2 := (List.of_mem_zip (List.of_mem_zip hp).1).2
    obtain ⟨q, hq, hq2⟩ := List.mem_map.1 h2
    have hf := hfill q.2 (List.of_mem_zip hq).2
    have hs := C04_sr_code_set usr cfg.use01 hf q.1
    refine ⟨rfl, ?_, ?_⟩
    · intro h0; show p.1.2 = -1 ∨ p.1.2 = 1; rw [← hq2]; exact hs.1 h0
    · intro h1; show p.1.2 = 0 ∨ p.1.2 = 1; rw [← hq2]; exact hs.2 h1
  unfold binarySR binaryWith at h
  rw [← hxc] at h
  cases ha : cfg.alpha with
  | none => simp only [ha] at h; cases h; exact key _
  | const a => simp only [ha] at h; cases h; exact key _
  | auto =>
    simp only [ha] at h
    cases hk : keys cfg.grp shape with
    | error e => simp [hk] at h
    | ok v => obtain ⟨pk, ck⟩ := v; simp only [hk] at h; cases h; exact key _
  | autoPo2 =>
    simp only [ha] at h
    cases hk : keys cfg.grp shape with
    | error e => simp [hk] at h
    | ok v => obtain ⟨pk, ck⟩ := v; simp only [hk] at h; cases h; exact key _
  | arr ash vals =>
    simp only [ha] at h
    cases hs : arrScales ash vals shape with
    | error e => simp [hs] at h
    | ok s => simp only [hs] at h; cases h; exact key _

/-- TRAINING PHASE, `stochastic_round(z, 1/8)` with `z = fl(x / f)` as the float computation forms it (no
    rounding is involved in `floor(8 z) / 8` / `ceil(8 z) / 8`): once `|z| ≥ 1/8` BOTH draws keep the strict
    sign of `z` — stochastic rounding can only randomise the code of elements with `|x| < f / 8` -/
theorem C04_sr_round_sign (up : Bool) (z : ℚ) :
    (1 / 8 ≤ z → 1 / 8 ≤ srRound up z) ∧ (z ≤ -(1 / 8) → srRound up z ≤ -(1 / 8)) := by
  unfold srRound
  have e1 : (8 * z).floor = ⌊8 * z⌋ := rfl
  have e2 : (-(8 * z)).floor = ⌊-(8 * z)⌋ := rfl
  rw [e1, e2]
  have h2 : ⌊8 * z⌋ ≤ -⌊-(8 * z)⌋ := by
    have a := Int.floor_le (8 * z)
    have b := Int.floor_le (-(8 * z))
    have : ((⌊8 * z⌋ + ⌊-(8 * z)⌋ : ℤ) : ℚ) ≤ 0 := by push_cast; linarith
    have : ⌊8 * z⌋ + ⌊-(8 * z)⌋ ≤ 0 := by exact_mod_cast this
    omega
  constructor
  · intro hz
    have h1 : (1 : ℤ) ≤ ⌊8 * z⌋ := Int.le_floor.2 (by push_cast; linarith)
    cases up <;> simp only [Bool.false_eq_true, if_false, if_true]
    · have : ((1 : ℤ) : ℚ) ≤ (⌊8 * z⌋ : ℚ) := by exact_mod_cast h1
      push_cast at this; linarith
    · have : ((1 : ℤ) : ℚ) ≤ ((-⌊-(8 * z)⌋ : ℤ) : ℚ) := by exact_mod_cast h1.trans h2
      push_cast at this ⊢; linarith
  · intro hz
    have h1 : -⌊-(8 * z)⌋ ≤ (-1 : ℤ) := by
      have : (1 : ℤ) ≤ ⌊-(8 * z)⌋ := Int.le_floor.2 (by push_cast; linarith)
      omega
    cases up <;> simp only [Bool.false_eq_true, if_false, if_true]
    · have : ((⌊8 * z⌋ : ℤ) : ℚ) ≤ ((-1 : ℤ) : ℚ) := by exact_mod_cast h2.trans h1
      push_cast at this; linarith
    · have : ((-⌊-(8 * z)⌋ : ℤ) : ℚ) ≤ ((-1 : ℤ) : ℚ) := by exact_mod_cast h1
      push_cast at this ⊢; linarith

/-- TRAINING PHASE in exact arithmetic: an element with `|x| ≥ f / 8` (`f > 0` the normaliser of its channel)
    keeps the sign code of the input for every draw of the rounding and of the fill -/
theorem C04_sr_train_sign (eps : ℚ) (use01 up : Bool) (fill : ℚ) {f x : ℚ} (hf : 0 < f) (hx : f / 8 ≤ |x|) :
    binCodeSR true use01 fill (srCarrier (Fl.exact eps) f up x) = binCode use01 x := by
  have hcar : srCarrier (Fl.exact eps) f up x = f * srRound up (x / f) := by
    simp [srCarrier, ste, Fl.exact]
  rw [hcar]
  rcases le_or_gt 0 x with h0 | h0
  · rw [abs_of_nonneg h0] at hx
    have hz : 1 / 8 ≤ x / f := by rw [le_div_iff₀ hf]; linarith
    have hr := (C04_sr_round_sign up (x / f)).1 hz
    have hpos : 0 < f * srRound up (x / f) := mul_pos hf (by linarith)
    rw [C04_sr_code_nonzero true use01 fill hpos.ne']
    unfold binCode; simp [not_lt.2 hpos.le, not_lt.2 h0]
  · rw [abs_of_neg h0] at hx
    have hz : x / f ≤ -(1 / 8) := by rw [div_le_iff₀ hf]; linarith
    have hr := (C04_sr_round_sign up (x / f)).2 hz
    have hneg : f * srRound up (x / f) < 0 := mul_neg_of_pos_of_neg hf (by linarith)
    rw [C04_sr_code_nonzero true use01 fill hneg.ne]
    unfold binCode; simp [hneg, h0]

/-- every code `srAdmissible` lists (what the driver hands to the harness for a training call) is in the
    code set, in every float context -/
theorem C04_sr_admissible_code_set (c : Fl) (use01 : Bool) (f x : ℚ) :
    ∀ k ∈ srAdmissible c use01 f x,
      (use01 = false → (k = -1 ∨ k = 1)) ∧ (use01 = true → (k = 0 ∨ k = 1)) := by
  intro k hk
  unfold srAdmissible at hk
  simp only [List.map_cons, List.map_nil, List.mem_cons, List.not_mem_nil, or_false] at hk
  rcases hk with rfl | rfl | rfl | rfl
  · exact C04_sr_code_set true use01 (Or.inl rfl) _
  · exact C04_sr_code_set true use01 (Or.inr rfl) _
  · exact C04_sr_code_set true use01 (Or.inl rfl) _
  · exact C04_sr_code_set true use01 (Or.inr rfl) _

/-- live object, INFERENCE phase: the call with the option (any truth value) is the plain call — result,
    `q.scale` and attributes —, so `C04_object_call_codes`, `C04_call_as_fresh_twin`,
    `C04_history_call_as_fresh` … apply to it -/
theorem C04_sr_object_inference (c : Fl) (env : Env) (usr : Bool) (d : SRDraw) (o : BinObj) (shape : List ℕ)
    (x : List ℚ) : o.callSR c env usr .inference d shape x = o.call c env shape x := by
  unfold BinObj.callSR BinObj.call
  cases hc : o.a.cfg env shape.length with
  | error e => rfl
  | ok cfg => simp only []; rw [C04_sr_inference_invariant]; cases binary c cfg shape x <;> rfl

/-- live object, option OFF: the phase is irrelevant -/
theorem C04_sr_object_off (c : Fl) (env : Env) (ph : Phase) (d : SRDraw) (o : BinObj) (shape : List ℕ)
    (x : List ℚ) : o.callSR c env false ph d shape x = o.call c env shape x := by
  unfold BinObj.callSR BinObj.call
  cases hc : o.a.cfg env shape.length with
  | error e => rfl
  | ok cfg => simp only []; rw [C04_sr_off_invariant]; cases binary c cfg shape x <;> rfl

/-- HISTORIES: on one object the option may be assigned and the learning phase switched between the calls
    (`SROp`); as long as the history never enters the training phase — started in inference — its state
    (object, `q.scale`, environment, all outputs) is that of the plain history of Model/BinTer.lean made of
    its base operations, whatever the option's values and whatever draws are supplied: assigning the option
    leaves no trace in inference -/
theorem C04_sr_history_inference (c : Fl) (draw : ℕ → SRDraw) (ops : List SROp) (s : SRSt)
    (hph : s.ph = .inference) (hops : srInference ops = true) :
    (srRun c draw s ops).st = binRun c s.st (srBase ops) := by
  induction ops generalizing s with
  | nil => rfl
  | cons op t ih =>
    unfold srRun binRun at *
    simp only [List.foldl_cons]
    cases op with
    | setUsr b => exact ih { s with usr := b } hph (by simpa [srInference] using hops)
    | setPhase ph =>
      cases ph with
      | inference => exact ih { s with ph := .inference } rfl (by simpa [srInference] using hops)
      | training => simp [srInference] at hops
    | base bop =>
      have hops' : srInference t = true := by simpa [srInference] using hops
      have hstep : (srStep c draw s (.base bop)).st = binStep c s.st bop ∧
          (srStep c draw s (.base bop)).ph = .inference := by
        cases bop <;> simp only [srStep, binStep, hph, C04_sr_object_inference, BinObj.callNp, and_self]
      rw [ih (srStep c draw s (.base bop)) hstep.2 hops', hstep.1]
      rfl

/-- ternary: the option is legal only with a data-dependent alpha, where in the inference phase it changes
    nothing (`_round_through(…, True)` is `tf.round` there); with alpha None / constant / ndarray the call is
    rejected (`assert not self.use_stochastic_rounding`) -/
theorem C04_sr_ternary_inference (c : Fl) (cfg : TerCfg) (usr : Bool) (shape : List ℕ) (x : List ℚ) :
    (cfg.alpha = .auto ∨ cfg.alpha = .autoPo2 → ternarySRInf c cfg usr shape x = ternary c cfg shape x) ∧
    (ternarySRInf c cfg false shape x = ternary c cfg shape x) ∧
    (cfg.alpha ≠ .auto → cfg.alpha ≠ .autoPo2 → ternarySRInf c cfg true shape x = .error .assert) := by
  unfold ternarySRInf
  refine ⟨?_, rfl, ?_⟩
  · rintro (h | h) <;> cases usr <;> simp [h]
  · intro h1 h2
    cases ha : cfg.alpha <;> simp_all

/-- model witnesses of the seed's scenario: inference with the option on `[0, -0.5, 0.25]`, ±1 and 0/1 mode —
    the zero gets the code 1 (not 2, not 1.5), and a mask computed BEFORE the fill (the seeded change) would
    give `sgn 0 + 1 + 1 = 2` -/
example : binCodeSR true false 1 0 = 1 ∧ binCodeSR true true 1 0 = 1 ∧ binCodeSR true false (-1) 0 = -1 ∧
    binCodeSR true true (-1) 0 = 0 := by decide +kernel
example : (binarySR (Fl.exact (1/10000000)) ⟨false, .const 2, ⟨true, .none, .none⟩, none, none⟩ true .inference
    ⟨[], []⟩ [3] [0, -1/2, 1/4]).map (·.map (·.y)) = .ok [2, -2, 2] := by decide +kernel

end QKV.Props.C04
