/-
  QKV.Props.C01F — float32 transfer theorems for C01/C02.

  C01/C02 are proved about the exact-rational models `qbits`, `qrelu`, `qlinear`
  (Model/FixedQ.lean).  The real code computes in IEEE-754 binary32.  Model/F32.lean transcribes
  `quantized_bits.__call__`, `quantized_relu.__call__`, `quantized_linear.__call__` operation by
  operation with every arithmetic result rounded to binary32 (`rnd32`, round-to-nearest-even):
  `qbitsF`, `qreluF`, `qlinearF`.  The theorems below state that on the stated envelope the
  float32 computation returns EXACTLY the value of the exact model, so every C01/C02 theorem
  about `qbits`/`qrelu`/`qlinear` transfers verbatim to the float32 computation.

  Shape of the result.  Everything up to and including `xq` is exact for EVERY binary32 input
  (no overflow assumed): scaling by powers of two, the straight-through round
  `p + (−p + round p)` (Sterbenz-type), the clip, the rescaling.  An underflowing `p` is harmless
  (it rounds to 0 either way).  The ONLY operation that can be inexact is the final residual
  `−x + xq`; it is exact iff `xq − x` is binary32, which holds when `|x| < 2^24 · step · alpha`
  (`alpha ≤ 1`), saturated inputs included.  Outside that envelope the float32 result really
  differs (`*_counterexample`, reproduced on the real code).
-/
import QKV.Lemmas.F32Q
namespace QKV

/-! ## binary32 basics (restated from Lemmas/F32.lean as obligations) -/

/-- rounding to binary32 fixes binary32 values -/
theorem C01_f32_rnd32_fix {q : ℚ} (h : isF32 q = true) : rnd32 q = q := rnd32_of_isF32 h

/-- grid characterisation: a multiple of `2^g` (`g ≥ −149`) of magnitude `≤ 2^(g+24)` is binary32 -/
theorem C01_f32_grid {g : ℤ} {q : ℚ} (hg : -149 ≤ g) (hm : ∃ k : ℤ, q = (k : ℚ) * pow2 g)
    (hb : |q| ≤ pow2 (g + 24)) (h128 : |q| < pow2 128) : isF32 q = true :=
  isF32_of_isMul_le hg hm hb h128

/-- float32 `_round_through` is exact on every binary32 argument -/
theorem C01_f32_round_through (t : Tie) {p : ℚ} (h : isF32 p = true) :
    roundThroughF t p = ((roundTie t p : ℤ) : ℚ) := roundThroughF_eq t h

/-! ## quantized_bits -/

/-- General form: for any power-of-two `alpha = 2^a` (or none, `a = 0`) the float32 computation
    equals the exact model provided only that the final residual `xq − x` is binary32. -/
theorem C01_f32_transfer_bits_of_resid (t : Tie) (c : BitsCfg) (a : ℤ) (x : ℚ)
    (hub : 0 < c.ub) (hub24 : c.ub ≤ 24) (hs : -100 ≤ c.integer - c.ub) (hi : c.integer ≤ 100)
    (ha : (c.alpha = none ∧ a = 0) ∨ c.alpha = some (pow2 a)) (ha1 : -49 ≤ a) (ha2 : a ≤ 3)
    (hx : isF32 x = true) (ho1 : |x * pow2 c.ub| < pow2 128) (ho2 : |x / c.step| < pow2 128)
    (hres : isF32 (qbits t c x - x) = true) : qbitsF t c x = qbits t c x := by
  have hg : c.gain = pow2 a := by
    rcases ha with ⟨h1, h2⟩ | h1
    · simp [BitsCfg.gain, h1, h2, pow2_zero]
    · simp [BitsCfg.gain, h1]
  exact qbitsF_eq_of_resid t c a x hub hub24 (by omega) (by omega) hg (by omega) (by omega)
    (by omega) (by omega) hx ho1 ho2 hres

/-- Transfer theorem, `alpha = 2^a` with `a ≤ 0` (or none, `a = 0`):
    on `|x| < 2^24 · step · alpha` float32 `quantized_bits` IS the exact model. -/
theorem C01_f32_transfer_bits_alpha (t : Tie) (c : BitsCfg) (a : ℤ) (x : ℚ)
    (hub : 0 < c.ub) (hub24 : c.ub ≤ 24) (hs : -100 ≤ c.integer - c.ub) (hi : c.integer ≤ 100)
    (ha : (c.alpha = none ∧ a = 0) ∨ c.alpha = some (pow2 a)) (ha1 : -49 ≤ a) (ha0 : a ≤ 0)
    (hx : isF32 x = true) (henv : |x| < pow2 24 * (c.step * pow2 a)) :
    qbitsF t c x = qbits t c x := by
  have hg : c.gain = pow2 a := by
    rcases ha with ⟨h1, h2⟩ | h1
    · simp [BitsCfg.gain, h1, h2, pow2_zero]
    · simp [BitsCfg.gain, h1]
  have hs0 := c.step_pos
  have hle1 : pow2 a ≤ 1 := by have := pow2_le_pow2 ha0; rwa [pow2_zero] at this
  have henv' : |x| < pow2 24 * c.step := by
    have : pow2 24 * (c.step * pow2 a) ≤ pow2 24 * c.step := by
      have := mul_le_mul_of_nonneg_left hle1 (mul_pos (pow2_pos 24) hs0).le
      nlinarith
    linarith
  have ho2 : |x / c.step| < pow2 128 := by
    rw [abs_div, abs_of_pos hs0, div_lt_iff₀ hs0]
    have : pow2 24 * c.step ≤ pow2 128 * c.step :=
      mul_le_mul_of_nonneg_right (pow2_le_pow2 (by norm_num)) hs0.le
    linarith
  have ho1 : |x * pow2 c.ub| < pow2 128 := by
    rw [abs_mul, abs_of_pos (pow2_pos _)]
    have h1 := mul_lt_mul_of_pos_right henv' (pow2_pos c.ub)
    have h2 : pow2 24 * c.step * pow2 c.ub = pow2 (24 + c.integer) := by
      unfold BitsCfg.step; rw [← pow2_add, ← pow2_add]; congr 1; ring
    rw [h2] at h1
    exact lt_of_lt_of_le h1 (pow2_le_pow2 (by omega))
  exact C01_f32_transfer_bits_of_resid t c a x hub hub24 hs hi ha ha1 (by omega) hx ho1 ho2
    (qbits_resid_isF32 t c a x hub hg ha0 (by omega) hx henv)

/-- **Transfer theorem** (`alpha = None`): for every binary32 `x` with `|x| < 2^24 · step`,
    `bits − keep_negative ∈ [1, 24]`, `−100 ≤ integer − unsigned_bits`, `integer ≤ 100`,
    and every tie rule, float32 `quantized_bits(...)(x)` equals the exact model `qbits`. -/
theorem C01_f32_transfer_bits (t : Tie) (c : BitsCfg) (x : ℚ)
    (hub : 0 < c.ub) (hub24 : c.ub ≤ 24) (hs : -100 ≤ c.integer - c.ub) (hi : c.integer ≤ 100)
    (ha : c.alpha = none) (hx : isF32 x = true) (henv : |x| < pow2 24 * c.step) :
    qbitsF t c x = qbits t c x :=
  C01_f32_transfer_bits_alpha t c 0 x hub hub24 hs hi (Or.inl ⟨ha, rfl⟩) (by norm_num) le_rfl hx
    (by rw [pow2_zero, mul_one]; exact henv)

/-- non-vacuity: `quantized_bits(8, 0)` at the binary32 value of `0.3f` -/
example : let c : BitsCfg := ⟨8, 0, false, true, none⟩
    isF32 (rnd32 (3 / 10)) = true ∧ |rnd32 (3 / 10)| < pow2 24 * c.step ∧
    qbitsF .even c (rnd32 (3 / 10)) = 19 / 64 := by
  refine ⟨by decide +kernel, by decide +kernel, by decide +kernel⟩

/-- COUNTEREXAMPLE (envelope is needed; reproduced on the real code):
    `quantized_bits(8, 7)(2^25 + 4)` is `128` in float32 — above `max() = 127` — while the exact
    model saturates at `127`: the residual `127 − x` needs 25 bits, rounds (tie to even) to
    `−(2^25 − 124)`, and `x + that = 128`. -/
theorem C01_f32_bits_envelope_counterexample :
    let c : BitsCfg := ⟨8, 7, false, true, none⟩
    isF32 33554436 = true ∧ qbitsF .even c 33554436 = 128 ∧ qbits .even c 33554436 = 127 := by
  refine ⟨by decide +kernel, by decide +kernel, by decide +kernel⟩

/-- COUNTEREXAMPLE (for `alpha < 1` the envelope must shrink by `alpha`; reproduced on the real
    code): `quantized_bits(25, 26, alpha=0.125)(16777211)`: `|x| < 2^24 · step` holds
    (`step = 4`) but `xq = 2097151.5` lies on a finer grid than `x`; float32 returns `2097151`. -/
theorem C01_f32_bits_alpha_counterexample :
    let c : BitsCfg := ⟨25, 26, false, true, some (1 / 8)⟩
    isF32 16777211 = true ∧ (|(16777211 : ℚ)| < pow2 24 * c.step) ∧
    qbitsF .even c 16777211 = 2097151 ∧ qbits .even c 16777211 = 4194303 / 2 := by
  refine ⟨by decide +kernel, by decide +kernel, by decide +kernel, by decide +kernel⟩


/-! ## quantized_relu (negative_slope = 0, is_quantized_clip) -/

/-- General form: float32 plain `quantized_relu` equals the exact model for EVERY binary32 input
    as long as `x * m` and `x * m / m_i` do not overflow.  No `2^24`-steps envelope: saturated
    inputs are replaced by `x_u = m_i − m_f` before the residual is formed. -/
theorem C01_f32_transfer_relu_all (t : Tie) (c : ReluCfg) (x : ℚ) (hsl : c.slopeLog = none)
    (hn0 : 0 ≤ c.bits) (hn24 : c.bits ≤ 24) (hs : -100 ≤ c.integer - c.bits) (hi : c.integer ≤ 100)
    (hx : isF32 x = true) (ho1 : |x * pow2 c.bits| < pow2 128) (ho2 : |x / c.step| < pow2 128) :
    qreluF t c x = qrelu t c x := by
  have hnsb : c.nsb = c.bits := by simp [ReluCfg.nsb, hsl]
  exact qreluF_eq t c x hsl (by omega) (by omega) (by omega) hi hx (by rw [hnsb]; exact ho1) ho2

/-- **Transfer theorem**: for every binary32 `x` with `|x| < 2^24 · step`, `0 ≤ bits ≤ 24`,
    `−100 ≤ integer − bits`, `integer ≤ 100`, float32 `quantized_relu(bits, integer)(x)` equals
    the exact model `qrelu`. -/
theorem C01_f32_transfer_relu (t : Tie) (c : ReluCfg) (x : ℚ) (hsl : c.slopeLog = none)
    (hn0 : 0 ≤ c.bits) (hn24 : c.bits ≤ 24) (hs : -100 ≤ c.integer - c.bits) (hi : c.integer ≤ 100)
    (hx : isF32 x = true) (henv : |x| < pow2 24 * c.step) : qreluF t c x = qrelu t c x := by
  have hnsb : c.nsb = c.bits := by simp [ReluCfg.nsb, hsl]
  have hs0 := c.step_pos
  have ho2 : |x / c.step| < pow2 128 := by
    rw [abs_div, abs_of_pos hs0, div_lt_iff₀ hs0]
    have : pow2 24 * c.step ≤ pow2 128 * c.step :=
      mul_le_mul_of_nonneg_right (pow2_le_pow2 (by norm_num)) hs0.le
    linarith
  have ho1 : |x * pow2 c.bits| < pow2 128 := by
    rw [abs_mul, abs_of_pos (pow2_pos _)]
    have h1 := mul_lt_mul_of_pos_right henv (pow2_pos c.bits)
    have h2 : pow2 24 * c.step * pow2 c.bits = pow2 (24 + c.integer) := by
      unfold ReluCfg.step; rw [hnsb, ← pow2_add, ← pow2_add]; congr 1; ring
    rw [h2] at h1
    exact lt_of_lt_of_le h1 (pow2_le_pow2 (by omega))
  exact C01_f32_transfer_relu_all t c x hsl hn0 hn24 hs hi hx ho1 ho2

/-- non-vacuity, including an input far beyond `2^24` steps (saturates exactly) -/
example : let c : ReluCfg := { bits := 8, integer := 8, slopeLog := none }
    isF32 33554436 = true ∧ qreluF .even c 33554436 = 255 ∧ qrelu .even c 33554436 = 255 ∧
    qreluF .even c (rnd32 (3 / 10)) = 0 ∧ qreluF .even c (rnd32 (37 / 10)) = 4 := by
  refine ⟨by decide +kernel, by decide +kernel, by decide +kernel, by decide +kernel,
    by decide +kernel⟩

/-! ## quantized_linear (not the 1-bit sign function) -/

/-- **Transfer theorem**: for every binary32 `x` with `|x| < 2^24 · quantization_scale`,
    `0 ≤ bits − keep_negative ≤ 24`, `−100 ≤ integer − unsigned_bits`, `integer ≤ 100`, and
    `alpha` none or a power of two `2^a`, `−49 ≤ a ≤ 3` (ANY sign of `a`: for quantized_linear
    `alpha` is part of the lattice step), float32 `quantized_linear(...)(x)` equals `qlinear`. -/
theorem C01_f32_transfer_linear (t : Tie) (c : LinCfg) (a : ℤ) (x : ℚ)
    (hsf : c.signFn = false) (hub : 0 ≤ c.ub) (hub24 : c.ub ≤ 24)
    (hs : -100 ≤ c.integer - c.ub) (hi : c.integer ≤ 100)
    (ha : (c.alpha = none ∧ a = 0) ∨ c.alpha = some (pow2 a)) (ha1 : -49 ≤ a) (ha2 : a ≤ 3)
    (hx : isF32 x = true) (henv : |x| < pow2 24 * c.qs) : qlinearF t c x = qlinear t c x :=
  qlinearF_eq t c a x hsf hub hub24 ha (by omega) (by omega) (by omega) (by omega) hx henv

example : let c : LinCfg := ⟨8, 0, false, true, some (1 / 4)⟩
    c.signFn = false ∧ c.alpha = some (pow2 (-2)) ∧ isF32 (rnd32 (3 / 10)) = true ∧
    |rnd32 (3 / 10)| < pow2 24 * c.qs ∧ qlinearF .even c (rnd32 (3 / 10)) = 127 / 512 := by
  refine ⟨by decide +kernel, by decide +kernel, by decide +kernel, by decide +kernel,
    by decide +kernel⟩

/-- COUNTEREXAMPLE (envelope is needed; reproduced on the real code):
    `quantized_linear(8, 7)(2^25 + 4)` returns `128` in float32, the exact model `127`. -/
theorem C01_f32_linear_envelope_counterexample :
    let c : LinCfg := ⟨8, 7, false, true, none⟩
    isF32 33554436 = true ∧ qlinearF .even c 33554436 = 128 ∧ qlinear .even c 33554436 = 127 := by
  refine ⟨by decide +kernel, by decide +kernel, by decide +kernel⟩

/-! ## the same theorems under the module prefix (the audit of `./check C01F` lists `C01F_*`) -/

alias C01F_rnd32_fix := C01_f32_rnd32_fix
alias C01F_grid := C01_f32_grid
alias C01F_round_through := C01_f32_round_through
alias C01F_transfer_bits := C01_f32_transfer_bits
alias C01F_transfer_bits_alpha := C01_f32_transfer_bits_alpha
alias C01F_transfer_bits_of_resid := C01_f32_transfer_bits_of_resid
alias C01F_transfer_relu := C01_f32_transfer_relu
alias C01F_transfer_relu_all := C01_f32_transfer_relu_all
alias C01F_transfer_linear := C01_f32_transfer_linear
alias C01F_bits_envelope_counterexample := C01_f32_bits_envelope_counterexample
alias C01F_bits_alpha_counterexample := C01_f32_bits_alpha_counterexample
alias C01F_linear_envelope_counterexample := C01_f32_linear_envelope_counterexample

end QKV
