/-
  C13 — saving, cloning or reloading a quantized model preserves its predictions  (partial)

  Property (verbatim): A quantized model rebuilt from its JSON architecture, cloned with the
  library's clone utility, or saved to and reloaded from an HDF5 file (with the same weights)
  produces bit-identical predictions and reports the same quantizers for every layer, for every
  supported quantized layer type and quantizer option. Reloading needs no user-supplied custom
  objects for library classes.

  Model: QKV.Model.LayerConfig (configuration algebra: get_config / from_config of quantizers,
  Clip, QInitializer and every layer class, the constructor's normalisation, the three routes as
  "Keras deserialiser + custom-object table") over the tables of QKV.Model.LayerConfigTables.
  Partial because HDF5 I/O, Keras' own (de)serialiser, `safe_eval` string parsing and the layer
  arithmetic are not in the model: layer semantics is an arbitrary function `Sem` of the class
  name, the forwarded keyword arguments, the arguments in the class' read set, the weights and the
  inputs — every theorem holds for all such functions.

  What is covered, exactly: `C13_layer_roundtrip` returns every constructor argument whose `read`
  flag is set in the table (literals that shape the computation, every `*_quantizer`, every
  activation, the QConv2D mask); initializers, regularizers, constraints, `*_range`, dropout,
  momentum and the folded-batchnorm renorm options are NOT covered (not read at inference).
  `C13_dropped_read_args` shows that `get_config` drops NO read argument of any layer class.

  History.  The tree this check was first built on violated the property in four ways, each of
  which was pinned by a `_counterexample` theorem: quantizer options that get_config dropped
  (C09/F4), quantized_hswish whose config could not be loaded, QAdaptiveActivation.relu_upper_bound,
  and quantized_linear / quantized_hswish missing from the custom-object table (QActivation could
  not be reloaded with them).  The fix round (notes/C13.md) repaired all four in the library; the
  tables mirror the repaired code, the statements that excluded the defective classes are now
  unconditional (`C13_quantizers_closed`, `C13_table_complete`, `C13_quantizer_options_emitted`,
  `C13_dropped_read_args`) and the former counterexamples are regression witnesses
  (`C13_*_fixed_witness`) evaluated at the old failing inputs.  Outside this model (state, not
  configuration) and repaired as well (1555fbd): QAdaptiveActivation quantized with the integer
  bits assigned by the previous call; the behavioural tie keeps the trained-EMA regression models.

  Round T13: Python object identity of quantizer objects (one object in several slots; the in-place
  `_set_trainable_parameter()` of the constructors as a fold over a heap), the clause "reports the
  same quantizers" (`reportedQuantizers`, table `reportedSlots`), and the process-level switch
  `set_internal_sigmoid` (`SigmoidMode`, `ModeSem`) — last section of this file.
-/
import QKV.Lemmas.LayerConfig
import QKV.Model.LayerConfigTables
namespace QKV.Props.C13
open QKV.LC

/-! ## quantizer configs -/

/-- `from_config (get_config q)` succeeds for every class whose emitted keys are constructor
    parameters, and yields: emitted arguments unchanged, dropped arguments at their default. -/
theorem C13_quantizer_roundtrip (s : QSpec) (q : QObj) (hc : s.Closed) :
    qFromConfig s (qGetConfig s q) = .ok (qReloaded s q) :=
  qFromConfig_getConfig s q hc

/-- …and gives back exactly `q` when every dropped argument has its default value. -/
theorem C13_quantizer_roundtrip_exact (s : QSpec) (q : QObj) (hc : s.Closed)
    (h : QSerializable s q) : qFromConfig s (qGetConfig s q) = .ok q := by
  rw [qFromConfig_getConfig s q hc, qReloaded_eq_self s q h]

/-- every emitted constructor argument keeps its value -/
theorem C13_quantizer_emitted_kept (s : QSpec) (q : QObj)
    (hnd : (s.params.map Prod.fst).Nodup) (p : String × PyVal) (hp : p ∈ s.params)
    (he : p.1 ∈ s.emits) : (qReloaded s q).args.lookup p.1 = some (qAttr s q p.1) := by
  unfold qReloaded
  have := lookup_map_some s.params Prod.fst
    (fun p => if p.1 ∈ s.emits then qAttr s q p.1 else p.2) p hp hnd
  simpa [he] using this

/-- every dropped constructor argument falls back to the default -/
theorem C13_quantizer_dropped_default (s : QSpec) (q : QObj)
    (hnd : (s.params.map Prod.fst).Nodup) (p : String × PyVal) (hp : p ∈ s.params)
    (he : p.1 ∉ s.emits) : (qReloaded s q).args.lookup p.1 = some p.2 := by
  unfold qReloaded
  have := lookup_map_some s.params Prod.fst
    (fun p => if p.1 ∈ s.emits then qAttr s q p.1 else p.2) p hp hnd
  simpa [he] using this

/-- the real table: every quantizer class is closed — every key its `get_config` emits is a
    parameter of its constructor (since the fix round also quantized_hswish), so
    `C13_quantizer_roundtrip` applies to all 14 classes … -/
theorem C13_quantizers_closed : ∀ s ∈ qSpecs, s.Closed := by
  have h : ∀ s ∈ qSpecs, ∀ k ∈ s.emits, s.hasParam k = true := by decide
  exact h

/-- … and has distinct parameter names -/
theorem C13_quantizer_params_nodup : ∀ s ∈ qSpecs, (s.params.map Prod.fst).Nodup := by
  decide

/-- quantized_hswish used to emit `keep_negative` / `post_training_scale`, which its constructor
    does not accept (TypeError for EVERY instance).  Regression witness: now
    `from_config (get_config q)` succeeds for EVERY instance, and the default instance comes back
    unchanged. -/
theorem C13_hswish_from_config_fixed_witness :
    (∀ q : QObj, qFromConfig qs_quantized_hswish (qGetConfig qs_quantized_hswish q) =
        .ok (qReloaded qs_quantized_hswish q)) ∧
      qFromConfig qs_quantized_hswish
          (qGetConfig qs_quantized_hswish ⟨"quantized_hswish", qs_quantized_hswish.params, []⟩) =
        .ok ⟨"quantized_hswish", qs_quantized_hswish.params, []⟩ :=
  ⟨fun q => qFromConfig_getConfig qs_quantized_hswish q
      (C13_quantizers_closed qs_quantized_hswish (by simp [qSpecs])), rfl⟩

/-- the (class, option) pairs that get_config drops — the complete list for the real table -/
def droppedOptions : List (String × String) :=
  qSpecs.flatMap fun s => (s.params.filter fun p => !s.emits.contains p.1).map fun p => (s.name, p.1)

/-- after the fix round: only `var_name` / `use_variables` of the six classes that take them
    (they name the quantizer's `tf.Variable`s resp. decide whether its state lives in variables;
    neither changes an inference result) -/
theorem C13_dropped_options_list :
    droppedOptions =
      [("quantized_bits", "var_name"), ("quantized_bits", "use_variables"),
       ("quantized_relu", "var_name"), ("quantized_relu", "use_variables"),
       ("quantized_po2", "var_name"), ("quantized_po2", "use_variables"),
       ("quantized_relu_po2", "var_name"), ("quantized_relu_po2", "use_variables"),
       ("quantized_linear", "var_name"), ("quantized_linear", "use_variables"),
       ("quantized_hswish", "var_name"), ("quantized_hswish", "use_variables")] := by
  decide

/-- every other constructor option of every quantizer class is emitted by `get_config` — with
    `C13_quantizer_emitted_kept`: it survives `from_config (get_config q)` for every instance -/
theorem C13_quantizer_options_emitted :
    ∀ s ∈ qSpecs, ∀ p ∈ s.params, p.1 ≠ "var_name" → p.1 ≠ "use_variables" → p.1 ∈ s.emits := by
  decide

/-- `q` with option `k` set to `v` (all other options at their defaults) -/
def withOption (s : QSpec) (kvs : List (String × PyVal)) : QObj :=
  ⟨s.name, s.params.map fun p => (p.1, (kvs.lookup p.1).getD p.2), []⟩

/-- a default quantized_bits with `scale_axis = 0` -/
def qbitsScaleAxis : QObj := withOption qs_quantized_bits [("scale_axis", .num 0)]

/-- the formerly dropped option, concretely: quantized_bits(scale_axis=0) used to come back with
    scale_axis=None; it now comes back unchanged -/
theorem C13_dropped_option_fixed_witness :
    qFromConfig qs_quantized_bits (qGetConfig qs_quantized_bits qbitsScaleAxis) = .ok qbitsScaleAxis ∧
      qbitsScaleAxis.args.lookup "scale_axis" = some (.num 0) := by
  constructor <;> rfl

/-- … and so do the other recorded (class, option) instances of known/C13.json: the po2 exponent
    bounds of quantized_bits, a list-valued scale_axis / elements_per_scale, quantized_linear and
    binary scale_axis, quantized_relu is_quantized_clip -/
theorem C13_dropped_options_fixed_witness :
    (let q := withOption qs_quantized_bits
        [("alpha", .str "auto_po2"), ("min_po2_exponent", .num (-1)), ("max_po2_exponent", .num 0)]
     qFromConfig qs_quantized_bits (qGetConfig qs_quantized_bits q) = .ok q) ∧
    (let q := withOption qs_quantized_bits
        [("alpha", .str "auto_po2"), ("scale_axis", .list [.num 0, .num 1]),
         ("elements_per_scale", .list [.num 2, .num 3])]
     qFromConfig qs_quantized_bits (qGetConfig qs_quantized_bits q) = .ok q) ∧
    (let q := withOption qs_quantized_linear [("alpha", .str "auto"), ("scale_axis", .num 0)]
     qFromConfig qs_quantized_linear (qGetConfig qs_quantized_linear q) = .ok q) ∧
    (let q := withOption qs_binary [("alpha", .str "auto"), ("scale_axis", .num 0)]
     qFromConfig qs_binary (qGetConfig qs_binary q) = .ok q) ∧
    (let q := withOption qs_quantized_relu
        [("bits", .num 4), ("integer", .num 1), ("is_quantized_clip", .bool false),
         ("relu_upper_bound", .num (13 / 10))]
     qFromConfig qs_quantized_relu (qGetConfig qs_quantized_relu q) = .ok q) := by
  refine ⟨?_, ?_, ?_, ?_, ?_⟩ <;> rfl

/-! ## Clip and QInitializer wrappers -/

/-- `Clip.from_config(Clip.get_config(c))` keeps the two bounds and loses the inner constraint and
    the quantizer (neither is read at inference: constraints act on weight updates). -/
theorem C13_clip_roundtrip (E : Env) (c : ClipObj) :
    clipFromConfig E (clipGetConfig c) = .ok ⟨c.minV, c.maxV, .none, .none⟩ :=
  clip_roundtrip E c

/-- a `QInitializer` whose quantizer is serialisable comes back unchanged -/
theorem C13_qinitializer_roundtrip (E : Env) (i u : PyVal) (v : QVal)
    (h : QValOK E E.quantizerGlobals v) :
    deserInit E (serInit E (.qinit i u v)) = .ok (.qinit i u v) := by
  have := reloads_init_qinit E "" [] false i u v h
  simp only [serArg, deserArg] at this
  cases hd : deserInit E (serInit E (.qinit i u v)) with
  | ok a => rw [hd] at this; simpa [Except.map] using this
  | error e => rw [hd] at this; simp [Except.map] at this

/-! ## layers -/

/-- Round trip of one layer.  Under `LayerOK` (see QKV.Lemmas.LayerConfig: the layer is in its
    post-constructor state, forwarded keyword arguments are not constructor parameters, every
    emitted argument deserialises, every emitted *read* argument comes back unchanged, dropped read
    arguments are at their default) `from_config (get_config L)` succeeds and the result has the
    same class, the same forwarded keyword arguments and the same value for EVERY argument in the
    class' read set. -/
theorem C13_layer_roundtrip (E : Env) (spec : LSpec) (L : Layer) (h : LayerOK E spec L) :
    ∃ L', layerFromConfig E spec (layerGetConfig E spec L) = .ok L' ∧ L'.cls = L.cls ∧
      L'.kwargs = L.kwargs ∧ readArgs spec L' = readArgs spec L :=
  layer_roundtrip E spec L h

/-- the table-side hypotheses of `LayerOK` hold for every class of the real table -/
theorem C13_table_wellformed :
    ∀ s ∈ lSpecs, (s.params.map (·.name)).Nodup ∧
      (∀ p ∈ s.params, p.read = true → p.kind.isLocal = true) ∧
      (∀ p ∈ s.params, p.required = true → p.emitted = true) := by
  decide

/-- the read arguments that `get_config` drops, over the whole real table -/
def droppedReadArgs : List (String × String) :=
  lSpecs.flatMap fun s => (s.params.filter fun p => p.read && !p.emitted).map fun p => (s.name, p.name)

/-- none (QAdaptiveActivation.relu_upper_bound used to be the one exception): the
    `droppedDefault` hypothesis of `LayerOK` is vacuous for every class of the real table -/
theorem C13_dropped_read_args : droppedReadArgs = [] := by
  decide

/-- all constructor arguments that `get_config` drops although the constructor accepts them -/
def droppedArgs : List (String × String) :=
  lSpecs.flatMap fun s => (s.params.filter fun p => !p.emitted).map fun p => (s.name, p.name)

theorem C13_dropped_args_list :
    droppedArgs =
      [("QBatchNormalization", "activation"),
       ("QConv2DBatchnorm", "renorm"), ("QConv2DBatchnorm", "renorm_clipping"),
       ("QConv2DBatchnorm", "renorm_momentum"), ("QConv2DBatchnorm", "fused"),
       ("QConv2DBatchnorm", "virtual_batch_size"), ("QConv2DBatchnorm", "adjustment"),
       ("QDepthwiseConv2DBatchnorm", "renorm"), ("QDepthwiseConv2DBatchnorm", "renorm_clipping"),
       ("QDepthwiseConv2DBatchnorm", "renorm_momentum"), ("QDepthwiseConv2DBatchnorm", "fused"),
       ("QDepthwiseConv2DBatchnorm", "virtual_batch_size"), ("QDepthwiseConv2DBatchnorm", "adjustment")] := by
  decide

/-- sufficient conditions for the per-argument hypotheses of `LayerOK`, by kind -/
theorem C13_readback_quant (E : Env) (t : Bool) (v : QVal) (h : QValOK E E.quantizerGlobals v) :
    deserArg E (.quant t) (serArg E (.quant t) (.q v)) = .ok (.q v) := readBack_quant E t v h

theorem C13_readback_act (E : Env) (a : Act) (h : ActOK E a) :
    deserArg E .act (serArg E .act (.act a)) = .ok (.act a) := readBack_act E a h

theorem C13_readback_qactivation (E : Env) (a : Act) (h : RawActOK E a) :
    deserArg E .rawAct (serArg E .rawAct (.act a)) = .ok (.act a) := readBack_rawAct E a h

theorem C13_readback_literal (E : Env) (v : PyVal) :
    deserArg E .lit (serArg E .lit (.lit v)) = .ok (.lit v) := rfl

theorem C13_readback_mask (E : Env) (v : PyVal) (h : reshapeMask v = .ok v) :
    deserArg E .mask (serArg E .mask (.lit v)) = .ok (.lit v) := readBack_mask E v h

/-- the stored 4-D mask of a 2×2 QConv2D mask is a fixed point of the constructor's reshape
    (mask list ↔ array) -/
example :
    let m : PyVal := .list [.list [.list [.list [.num 1]], .list [.list [.num 0]]],
                            .list [.list [.list [.num 0]], .list [.list [.num 1]]]]
    reshapeMask m = .ok m := by rfl

/-! ## the kernel mask of QConv2D / QConv2DBatchnorm, for every kernel shape

`QConv2D.__init__` stores `np.reshape(mask, (h, w, 1, 1))` with `h, w` the first two dimensions of
the given array, `get_config` writes `self._mask.tolist()`, `from_config` turns the list back into
an array and hands it to the constructor.  QConv2DBatchnorm takes `mask` through `**kwargs` and
hands it to QConv2D's constructor; it inherits both methods. -/

/-- get_config → from_config → constructor gives back the stored mask, for EVERY kernel height and
    width ≥ 1 — unit dimensions ((1, w), (h, 1), (1, 1)) included — and any scalar entries -/
theorem C13_mask_roundtrip_all_shapes (E : Env) (h w : Nat) (f : Nat → Nat → PyVal) (hh : 0 < h)
    (hw : 0 < w) (hs : ∀ i j, (f i j).isScalar = true) :
    deserArg E .mask (serArg E .mask (.lit (mask4 h w f))) = .ok (.lit (mask4 h w f)) :=
  readBack_mask E _ (reshapeMask_mask4 h w f hh hw hs)

/-- the constructor on the (h, w) array the user passes: it stores `mask4 h w f` … -/
theorem C13_mask_constructor_2d (h w : Nat) (f : Nat → Nat → PyVal) (hh : 0 < h) (hw : 0 < w)
    (hs : ∀ i j, (f i j).isScalar = true) : reshapeMask (mask2 h w f) = .ok (mask4 h w f) :=
  reshapeMask_mask2 h w f hh hw hs

/-- … and in general: WHATEVER array literal the constructor accepted (2-D, (h, w, 1), (h, w, 1, 1),
    a mask that broadcasts over the kernel such as (h, 1) or (1, 1)), what it stored is a fixed
    point of the constructor, so the `readBack` hypothesis of `LayerOK` holds for the `mask`
    argument of every layer that was built by the constructor -/
theorem C13_mask_stored_is_fixed_point (E : Env) (v m : PyVal) (h : reshapeMask v = .ok m) :
    reshapeMask m = .ok m ∧ deserArg E .mask (serArg E .mask (.lit m)) = .ok (.lit m) :=
  ⟨reshapeMask_idem v m h, readBack_mask E m (reshapeMask_idem v m h)⟩

/-- the reader needs rank ≥ 2: a scalar or a flat list is rejected with ValueError.  This is why a
    writer that drops a unit axis (e.g. `np.squeeze(self._mask).tolist()`) cannot be read back
    exactly when the kernel has a unit dimension -/
theorem C13_mask_rank_lt_2_rejected (v : PyVal) (hv : v.isScalar = true) (t : List PyVal) :
    (v ≠ .none → reshapeMask v = .error .valueError) ∧
      reshapeMask (.list (v :: t)) = .error .valueError :=
  reshapeMask_rank_lt_2 v hv t

/-- both classes have the `mask` constructor argument (QConv2DBatchnorm: forwarded to QConv2D),
    of kind `mask`, written by `get_config` -/
theorem C13_mask_params :
    ∀ s ∈ [ls_QConv2D, ls_QConv2DBatchnorm],
      ∃ p ∈ s.params, p.name = "mask" ∧ p.emitted = true ∧ p.required = false ∧
        (match p.kind with | .mask => true | _ => false) = true := by
  decide

/-- non-vacuity at the unit shapes: (1, 3), (3, 1) and (1, 1) kernels -/
example :
    reshapeMask (mask4 1 3 fun _ j => .num j) = .ok (mask4 1 3 fun _ j => .num j) ∧
    reshapeMask (mask4 3 1 fun i _ => .num i) = .ok (mask4 3 1 fun i _ => .num i) ∧
    reshapeMask (mask4 1 1 fun _ _ => .bool true) = .ok (mask4 1 1 fun _ _ => .bool true) ∧
    mask4 1 3 (fun _ j => .num j) =
      .list [.list [.list [.list [.num 0]], .list [.list [.num 1]], .list [.list [.num 2]]]] :=
  ⟨reshapeMask_mask4 1 3 _ (by omega) (by omega) (fun _ _ => rfl),
   reshapeMask_mask4 3 1 _ (by omega) (by omega) (fun _ _ => rfl),
   reshapeMask_mask4 1 1 _ (by omega) (by omega) (fun _ _ => rfl), rfl⟩

/-- … and what a squeezing writer would have produced for them is rejected -/
example :
    reshapeMask (.list [.num 0, .num 1, .num 2]) = .error .valueError ∧
    reshapeMask (.num 1) = .error .valueError := ⟨rfl, rfl⟩

/-- a mask that broadcasts over the kernel width ((3, 1) given for a 3×3 kernel) is stored as
    (3, 1, 1, 1) and read back as such -/
example :
    reshapeMask (.list [.list [.num 1], .list [.num 0], .list [.num 1]]) =
      .ok (mask4 3 1 fun i _ => if i = 1 then .num 0 else .num 1) := rfl

/-! ## prediction congruence and the three routes -/

/-- equal views (class, forwarded keyword arguments, read arguments) and equal weights give equal
    layer outputs — for every semantics -/
theorem C13_layer_predict_congr {W V : Type} (E : Env) (S : Sem W V) (L L' : Layer) (w : W)
    (xs : List V) (h : layerView E L' = layerView E L) :
    evalLayer E S L' w xs = evalLayer E S L w xs := by
  unfold evalLayer; rw [h]

/-- lifted over a model (DAG in topological order, any wiring, any length) by induction -/
theorem C13_predict_congr {W V : Type} [Inhabited V] (E : Env) (S : Sem W V) (m m' : Model)
    (ws : Nat → W) (inputs : List V) (h : SameViews E m m') :
    predict E S m ws inputs = predict E S m' ws inputs :=
  evalFrom_congr E S ws m m' h 0 inputs

/-- The three routes (`quantized_model_from_json(to_json)`+`set_weights`, `clone_model`,
    `save`→`load_qmodel`: Keras' deserialiser with the custom-object table, then the same
    weights): for a model all of whose nodes are `NodeOK` the rebuild succeeds without any user
    custom objects and the rebuilt model predicts exactly what the original predicts, for every
    layer semantics, all weights, all inputs.  (QBidirectional nodes are not covered by `NodeOK`.) -/
theorem C13_model_roundtrip_predict_partial {W V : Type} [Inhabited V] (E : Env) (m : Model)
    (h : ∀ n ∈ m, NodeOK E n.node) :
    ∃ m', modelFromConfig E (modelGetConfig E m) = .ok m' ∧
      ∀ (S : Sem W V) (ws : Nat → W) (inputs : List V),
        predict E S m' ws inputs = predict E S m ws inputs := by
  obtain ⟨m', hm', hv⟩ := model_roundtrip E m h
  exact ⟨m', hm', fun S ws inputs => evalFrom_congr E S ws m' m hv 0 inputs⟩

/-! ## the custom-object table -/

/-- every class name of the library that a layer config can contain -/
def libraryClassNames : List String :=
  lSpecs.map (·.name) ++ qSpecs.map (·.name) ++ ["Clip", "QInitializer", "QBidirectional"]

/-- table completeness: EVERY library class a layer config can name is a key of
    `_add_supported_quantized_objects` (quantized_linear / quantized_hswish used to be missing) -/
theorem C13_table_complete : ∀ c ∈ libraryClassNames, customObjects.contains c = true := by
  decide

/-- regression witness for the two formerly missing keys -/
theorem C13_table_missing_fixed_witness :
    ("quantized_linear" ∈ libraryClassNames ∧ customObjects.contains "quantized_linear" = true) ∧
    ("quantized_hswish" ∈ libraryClassNames ∧ customObjects.contains "quantized_hswish" = true) := by
  decide

/-- every key of the table is a library class the model knows (nothing unmodelled in the table) -/
theorem C13_table_keys_modelled : ∀ c ∈ customObjects, c ∈ libraryClassNames := by
  decide

/-- `QActivation(quantized_linear())` -/
def qactLinear : Layer :=
  ⟨"QActivation", [("name", .str "act")], [("activation", .act (.obj ⟨"quantized_linear", qs_quantized_linear.params, []⟩))]⟩

/-- `QActivation(quantized_hswish())` -/
def qactHswish : Layer :=
  ⟨"QActivation", [("name", .str "act")], [("activation", .act (.obj ⟨"quantized_hswish", qs_quantized_hswish.params, []⟩))]⟩

/-- consequence on the routes: the activation dict of `QActivation(quantized_linear())` /
    `QActivation(quantized_hswish())` is resolved through the table; all three routes used to
    raise (`unknownObject`), they now rebuild the very same model -/
theorem C13_qactivation_linear_fixed_witness (cb : QVal → PyVal) :
    modelFromConfig (env cb) (modelGetConfig (env cb) [⟨.q qactLinear, [0]⟩]) =
        .ok [⟨.q qactLinear, [0]⟩] ∧
      modelFromConfig (env cb) (modelGetConfig (env cb) [⟨.q qactHswish, [0]⟩]) =
        .ok [⟨.q qactHswish, [0]⟩] := by
  constructor <;> rfl

/-- in a `*_quantizer` / layer-activation slot the same class IS resolved (quantizers.py globals):
    `get_quantizer` does not use the table -/
example (cb : QVal → PyVal) :
    ∃ v, deserQ (env cb) (env cb).quantizerGlobals
      (serQ (env cb) (.obj ⟨"quantized_linear", qs_quantized_linear.params, []⟩)) = .ok v := by
  exact ⟨_, deserQ_serQ_obj (env cb) _ _ qs_quantized_linear (by rfl)
    (C13_quantizers_closed qs_quantized_linear (by simp [qSpecs])) (by rfl)⟩

/-! ## QAdaptiveActivation.relu_upper_bound -/

/-- `QAdaptiveActivation("quantized_relu", 4, relu_upper_bound=0.5)` after its constructor -/
def adaptiveRelu : Layer :=
  ⟨"QAdaptiveActivation", [("name", .str "a")],
   ls_QAdaptiveActivation.params.map fun p =>
     if p.name == "activation" then (p.name, .lit (.str "quantized_relu"))
     else if p.name == "total_bits" then (p.name, .lit (.num 4))
     else if p.name == "relu_upper_bound" then (p.name, .lit (.num (1/2)))
     else (p.name, p.default)⟩

/-- the reloaded layer used to have relu_upper_bound = None (a read argument changed); it now
    keeps 1/2, and the whole read set is unchanged -/
theorem C13_adaptive_relu_upper_bound_fixed_witness (cb : QVal → PyVal) :
    ∃ L', layerFromConfig (env cb) ls_QAdaptiveActivation
        (layerGetConfig (env cb) ls_QAdaptiveActivation adaptiveRelu) = .ok L' ∧
      L'.args.lookup "relu_upper_bound" = some (.lit (.num (1/2))) ∧
      adaptiveRelu.args.lookup "relu_upper_bound" = some (.lit (.num (1/2))) ∧
      readArgs ls_QAdaptiveActivation L' = readArgs ls_QAdaptiveActivation adaptiveRelu := by
  refine ⟨_, rfl, ?_, ?_, ?_⟩ <;> rfl

/-! ## non-vacuity: a concrete QDense satisfies `LayerOK` -/

/-- `quantized_bits(4, 0, 1, alpha=1)` -/
def qb4 : QObj :=
  ⟨"quantized_bits", qs_quantized_bits.params.map (fun p =>
    if p.1 == "bits" then (p.1, .num 4) else if p.1 == "symmetric" then (p.1, .num 1)
    else if p.1 == "alpha" then (p.1, .num 1) else p), []⟩

theorem qb4_serializable : QSerializable qs_quantized_bits qb4 := by
  refine ⟨rfl, by decide, by decide, ?_, rfl⟩
  simp only [qs_quantized_bits, List.forall_mem_cons]
  refine ⟨?_, ?_, ?_, ?_, ?_, ?_, ?_, ?_, ?_, ?_, ?_, ?_, ?_, ?_, ?_, ?_⟩ <;>
    first | (intro _; rfl) | (intro h; exact absurd (by decide) h) | simp


def heNormal : PyVal := .dict [("class_name", .str "HeNormal"), ("config", .dict [("seed", .none)])]
def zerosInit : PyVal := .dict [("class_name", .str "Zeros"), ("config", .dict [])]

/-- `QDense(3, kernel_quantizer=quantized_bits(4,0,1,alpha=1), name="d")` after its constructor -/
def denseEx : Layer :=
  ⟨"QDense", [("name", .str "d"), ("trainable", .bool true), ("dtype", .str "float32")],
   ls_QDense.params.map fun p =>
     if p.name == "units" then (p.name, .lit (.num 3))
     else if p.name == "activation" then (p.name, .act (.fn "linear"))
     else if p.name == "kernel_quantizer" then (p.name, .q (.obj qb4))
     else if p.name == "kernel_constraint" then (p.name, .constr (.clip ⟨.num (-1), .num 1, .none, .obj qb4⟩))
     else if p.name == "kernel_initializer" then (p.name, .init (.qinit heNormal (.bool true) (.obj qb4)))
     else if p.name == "bias_initializer" then (p.name, .init (.keras zerosInit))
     else (p.name, p.default)⟩

/-- …it satisfies every hypothesis of `C13_layer_roundtrip` -/
theorem denseEx_ok (cb : QVal → PyVal) : LayerOK (env cb) ls_QDense denseEx := by
  have hw := C13_table_wellformed ls_QDense (by simp [lSpecs])
  refine ⟨rfl, hw.1, by decide, rfl, ?_, hw.2.1, hw.2.2, ?_, ?_, ?_⟩
  · simp only [ls_QDense, List.forall_mem_cons]
    refine ⟨?_, ?_, ?_, ?_, ?_, ?_, ?_, ?_, ?_, ?_, ?_, ?_, ?_, ?_, ?_⟩ <;>
      first | (intro _; rfl) | (intro h; exact absurd h (by decide)) | simp
  · simp only [ls_QDense, List.forall_mem_cons]
    refine ⟨?_, ?_, ?_, ?_, ?_, ?_, ?_, ?_, ?_, ?_, ?_, ?_, ?_, ?_, ?_⟩ <;>
      first | (intro _; exact ⟨_, rfl⟩) | (intro h; exact absurd h (by decide)) | simp
  · simp only [ls_QDense, List.forall_mem_cons]
    refine ⟨?_, ?_, ?_, ?_, ?_, ?_, ?_, ?_, ?_, ?_, ?_, ?_, ?_, ?_, ?_⟩ <;>
      first | (intro _ _; rfl) | rfl | (intro _; rfl) | (intro h; exact absurd h (by decide)) | simp
  · simp only [ls_QDense, List.forall_mem_cons]
    refine ⟨?_, ?_, ?_, ?_, ?_, ?_, ?_, ?_, ?_, ?_, ?_, ?_, ?_, ?_, ?_⟩ <;>
      first | (intro _ h; exact absurd h (by decide)) | (intro h; exact absurd h (by decide)) | simp

/-- a three-node model: InputLayer → QDense → Flatten -/
def modelEx : Model :=
  [⟨.keras "InputLayer" [("name", .str "in")], []⟩, ⟨.q denseEx, [0]⟩, ⟨.keras "Flatten" [("name", .str "f")], [1]⟩]

/-- …and every node is covered by `C13_model_roundtrip_predict_partial` -/
theorem modelEx_ok (cb : QVal → PyVal) : ∀ n ∈ modelEx, NodeOK (env cb) n.node := by
  simp only [modelEx, List.forall_mem_cons]
  refine ⟨NodeOK.keras _ _ rfl rfl, NodeOK.q _ ls_QDense rfl rfl rfl (denseEx_ok cb), NodeOK.keras _ _ rfl rfl, ?_⟩
  simp

/-- so the three routes rebuild `modelEx` and the rebuilt model predicts identically, whatever the
    layers compute -/
example {W V : Type} [Inhabited V] (cb : QVal → PyVal) :
    ∃ m', modelFromConfig (env cb) (modelGetConfig (env cb) modelEx) = .ok m' ∧
      ∀ (S : Sem W V) (ws : Nat → W) (inputs : List V),
        predict (env cb) S m' ws inputs = predict (env cb) S modelEx ws inputs :=
  C13_model_roundtrip_predict_partial (env cb) modelEx (modelEx_ok cb)

/-! ## the constructor's post-hoc switch `alpha None → 'auto_po2'` (`_set_trainable_parameter`)

The layer constructors call `_set_trainable_parameter()` on their weight quantizers AFTER the
quantizer was constructed.  A rebuilt model constructs the quantizer from the config (which already
says 'auto_po2') and the constructor calls it again.  At the level of the configuration: -/

/-- the switch is idempotent … -/
theorem C13_set_trainable_idempotent (s : QSpec) (q : QObj) :
    setTrainable s (setTrainable s q) = setTrainable s q := setTrainable_idem s q

/-- … hence so is everything the constructor does to a single argument: the `normal` hypothesis of
    `LayerOK` (re-running the constructor changes no read argument) holds for EVERY argument a
    constructor produced, for every class, every slot and every quantizer -/
theorem C13_constructor_normalisation_idempotent (E : Env) (spec : LSpec) (k : Kind) (a : Arg) :
    normLocal E spec k (normLocal E spec k a) = normLocal E spec k a := normLocal_idem E spec k a

/-- the classes that have the switch: the complete list (each of them is generated as a weight
    quantizer with alpha left at None, as object and as string; bernoulli is random at inference) -/
theorem C13_trainable_classes_list :
    (qSpecs.filter fun s => s.trainable != 0).map (·.name) =
      ["quantized_bits", "bernoulli", "stochastic_ternary", "ternary", "stochastic_binary", "binary",
       "quantized_linear", "quantized_hswish"] := by
  decide

/-- concretely, for `quantized_linear()` in a kernel slot: the constructor result says 'auto_po2' and
    symmetric, its config round trip followed by the constructor gives the very same object -/
theorem C13_default_alpha_linear_witness :
    let q0 : QObj := ⟨"quantized_linear", qs_quantized_linear.params, []⟩
    let q := setTrainable qs_quantized_linear q0
    q0.args.lookup "alpha" = some .none ∧ q.args.lookup "alpha" = some (.str "auto_po2") ∧
      (qFromConfig qs_quantized_linear (qGetConfig qs_quantized_linear q)).map
        (setTrainable qs_quantized_linear) = .ok q := by
  refine ⟨rfl, rfl, rfl⟩

/-! ## stock Keras layers inside the custom-object scope

The three routes deserialise the WHOLE model with the library's table installed as custom objects,
and Keras looks a name up among the custom objects first: a table key that is also a name Keras
resolves itself (its built-in activation names) would replace Keras' function in every stock layer
that uses the name. -/

/-- no key of the table is a built-in Keras activation name (`hard_sigmoid` is both a Keras
    activation and a different function exported by qkeras.quantizers: it must stay out of the table) -/
theorem C13_table_shadows_no_keras_name :
    ∀ n ∈ kerasActivationNames, customObjects.contains n = false := by
  decide

/-- hence a stock layer whose identifier strings are Keras activation names comes back with the same
    config after every route … -/
theorem C13_keras_node_unshadowed (cb : QVal → PyVal) (cfg : Cfg)
    (h : ∀ kv ∈ cfg, identifierKeys.contains kv.1 = true → ∀ s, kv.2 = .str s → s ∈ kerasActivationNames) :
    kerasNodeCfg (env cb) cfg = cfg := by
  apply kerasNodeCfg_id
  intro kv hkv hk s hs
  exact C13_table_shadows_no_keras_name s (h kv hkv hk s hs)

/-- … and is covered by the model round trip (`NodeOK.keras`) -/
theorem C13_keras_node_ok (cb : QVal → PyVal) (c : String) (cfg : Cfg)
    (hc : (env cb).isLibraryClass c = false)
    (h : ∀ kv ∈ cfg, identifierKeys.contains kv.1 = true → ∀ s, kv.2 = .str s → s ∈ kerasActivationNames) :
    NodeOK (env cb) (.keras c cfg) :=
  NodeOK.keras c cfg hc (C13_keras_node_unshadowed cb cfg h)

/-- what the model says of a table that did contain such a name: `Activation("hard_sigmoid")` would
    come back denoting the table's function -/
theorem C13_shadowing_witness (cb : QVal → PyVal) :
    let E' : Env := { env cb with customObjects := "hard_sigmoid" :: customObjects }
    nodeFromConfig E' ⟨"Activation", [("name", .str "a"), ("activation", .str "hard_sigmoid")], [0]⟩ =
        .ok (.keras "Activation" [("name", .str "a"),
          ("activation", .dict [("custom_object", .str "hard_sigmoid")])]) ∧
      nodeFromConfig (env cb) ⟨"Activation", [("name", .str "a"), ("activation", .str "hard_sigmoid")], [0]⟩ =
        .ok (.keras "Activation" [("name", .str "a"), ("activation", .str "hard_sigmoid")]) := by
  constructor <;> rfl

/-! ## `get_config` never raises: plain Python values where the class used to call `.tolist()`

`quantized_bits(alpha="auto_po2", post_training_scale=[0.5])` (or `=0.5`) is accepted by the
constructor (`self.scale = np.array(post_training_scale)`) and quantizes.  `get_config` used to
write `self.post_training_scale.tolist()`: AttributeError for a list / float, so `to_json`, `save`
and `clone_model` raised for every model that held such a quantizer (former finding
C13-qbits-post_training_scale-not-numpy).  It now writes
`np.asarray(self.post_training_scale).tolist()`: no class of the tables calls a numpy method on a
constructor argument any more (`QSpec.tolist = []` everywhere, compared with the live classes on
every run), and serialisation is total. -/

/-- the (class, argument) pairs whose `get_config` entry goes through a bare `.tolist()` — complete
    list: none -/
def tolistOptions : List (String × String) :=
  qSpecs.flatMap fun s => s.tolist.map fun k => (s.name, k)

theorem C13_tolist_options_list : tolistOptions = [] := by
  decide

theorem qSpecs_no_tolist : ∀ s ∈ qSpecs, s.tolist = [] := by
  decide

/-- `quantized_bits(4, alpha="auto_po2", post_training_scale=<[1/2]>)`; `native` says whether the
    value is a plain Python list or a numpy array -/
def qbPts (native : List String) : QObj :=
  { withOption qs_quantized_bits
      [("bits", .num 4), ("alpha", .str "auto_po2"), ("symmetric", .bool true),
       ("post_training_scale", .list [.num (1/2)])] with native := native }

/-- `QDense(3, kernel_quantizer=qbPts native, use_bias=False, kernel_constraint=…)` after its constructor -/
def densePts (native : List String) : Layer :=
  ⟨"QDense", [("name", .str "d")],
   ls_QDense.params.map fun p =>
     if p.name == "units" then (p.name, .lit (.num 3))
     else if p.name == "activation" then (p.name, .act (.fn "linear"))
     else if p.name == "use_bias" then (p.name, .lit (.bool false))
     else if p.name == "kernel_quantizer" then (p.name, .q (.obj (qbPts native)))
     else if p.name == "kernel_constraint" then
       (p.name, .constr (.clip ⟨.num (-1), .num 1, .none, .obj (qbPts native)⟩))
     else if p.name == "kernel_initializer" then (p.name, .init (.keras heNormal))
     else if p.name == "bias_initializer" then (p.name, .init (.keras zerosInit))
     else (p.name, p.default)⟩

/-- REGRESSION WITNESS (former finding C13-qbits-post_training_scale-not-numpy, repaired): with a
    plain Python list the quantizer's, the layer's and the model's serialisation used to raise
    (`rebuild … = .error .attributeError`); now nothing raises and every route rebuilds the layer
    with the same class, forwarded arguments and read arguments — the reloaded quantizer holds the
    numpy array `from_config` makes of the list … -/
theorem C13_post_training_scale_native_fixed_witness (cb : QVal → PyVal) :
    qGetConfigRaises qs_quantized_bits (qbPts ["post_training_scale"]) = false ∧
      layerGetConfigRaises (env cb) ls_QDense (densePts ["post_training_scale"]) = false ∧
      ∃ L', rebuild (env cb) [⟨.q (densePts ["post_training_scale"]), [0]⟩] = .ok [⟨.q L', [0]⟩] ∧
        L'.cls = (densePts ["post_training_scale"]).cls ∧
        L'.kwargs = (densePts ["post_training_scale"]).kwargs ∧
        L'.arg "kernel_quantizer" = .q (.obj (qbPts [])) := by
  refine ⟨by decide, rfl, _, rfl, rfl, rfl, rfl⟩

/-- … exactly as the same quantizer holding a numpy array always was: rebuilt by every route into a
    model with the same class, forwarded arguments and read arguments (same predictions for every
    semantics) -/
theorem C13_post_training_scale_numpy_witness (cb : QVal → PyVal) :
    ∃ L', rebuild (env cb) [⟨.q (densePts []), [0]⟩] = .ok [⟨.q L', [0]⟩] ∧
      L'.cls = (densePts []).cls ∧ L'.kwargs = (densePts []).kwargs ∧
      readArgs ls_QDense L' = readArgs ls_QDense (densePts []) ∧
      L'.arg "kernel_quantizer" = .q (.obj (qbPts [])) := by
  refine ⟨_, rfl, rfl, rfl, rfl, rfl⟩

/-- `get_config` of every quantizer class of the tables is total: whatever Python type the
    arguments have (the hypothesis `q.native = []` of the former `C13_get_config_total_partial`
    is gone) … -/
theorem C13_get_config_total (s : QSpec) (hs : s ∈ qSpecs) (q : QObj) :
    qGetConfigRaises s q = false :=
  qGetConfigRaises_of_no_tolist s q (qSpecs_no_tolist s hs)

/-- … so is `get_config` of every layer, whatever quantizers, activations and initializers it holds
    (formerly `C13_layer_get_config_total_partial`, for numpy-valued arguments only) … -/
theorem C13_layer_get_config_total (cb : QVal → PyVal) (spec : LSpec) (L : Layer) :
    layerGetConfigRaises (env cb) spec L = false :=
  layerGetConfigRaises_of_no_tolist (env cb) qSpecs_no_tolist spec L

/-- … and of every model: the serialisation step of `to_json` / `save` / `clone_model` never
    raises, a route is Keras' deserialiser applied to the written config -/
theorem C13_model_get_config_total (cb : QVal → PyVal) (m : Model) :
    modelGetConfigRaises (env cb) m = false ∧
      rebuild (env cb) m = modelFromConfig (env cb) (modelGetConfig (env cb) m) := by
  have h := modelGetConfigRaises_of_no_tolist (env cb) qSpecs_no_tolist m
  exact ⟨h, rebuild_of_no_raise (env cb) m h⟩

/-- for ANY tables (a class calling `.tolist()` on an argument included): a layer all of whose
    arguments are numpy values where the class calls numpy methods does not raise -/
theorem C13_layer_get_config_numpy (E : Env) (spec : LSpec) (L : Layer)
    (h : ∀ p ∈ spec.params, (L.arg p.name).numpy = true) : layerGetConfigRaises E spec L = false :=
  layerGetConfigRaises_of_numpy E spec L h

/-- … and then the whole route (serialise, then rebuild) succeeds and predicts identically.  This
    is `C13_model_roundtrip_predict_partial` with the serialisation step included. -/
theorem C13_model_rebuild_predict_partial {W V : Type} [Inhabited V] (E : Env) (m : Model)
    (h : ∀ n ∈ m, NodeOK E n.node) (hr : modelGetConfigRaises E m = false) :
    ∃ m', rebuild E m = .ok m' ∧
      ∀ (S : Sem W V) (ws : Nat → W) (inputs : List V),
        predict E S m' ws inputs = predict E S m ws inputs := by
  rw [rebuild_of_no_raise E m hr]
  exact C13_model_roundtrip_predict_partial E m h

/-- with the library's tables the serialisation hypothesis is void (`C13_model_get_config_total`):
    every model whose nodes satisfy `NodeOK` is rebuilt by every route and predicts identically -/
theorem C13_model_rebuild_predict_tables_partial {W V : Type} [Inhabited V] (cb : QVal → PyVal)
    (m : Model) (h : ∀ n ∈ m, NodeOK (env cb) n.node) :
    ∃ m', rebuild (env cb) m = .ok m' ∧
      ∀ (S : Sem W V) (ws : Nat → W) (inputs : List V),
        predict (env cb) S m' ws inputs = predict (env cb) S m ws inputs :=
  C13_model_rebuild_predict_partial (env cb) m h (C13_model_get_config_total cb m).1

/-- the non-vacuity model again, with the serialisation step -/
example {W V : Type} [Inhabited V] (cb : QVal → PyVal) :
    ∃ m', rebuild (env cb) modelEx = .ok m' ∧
      ∀ (S : Sem W V) (ws : Nat → W) (inputs : List V),
        predict (env cb) S m' ws inputs = predict (env cb) S modelEx ws inputs :=
  C13_model_rebuild_predict_partial (env cb) modelEx (modelEx_ok cb) rfl

/-- `quantized_bits(4, 0, 1)`: alpha left at None -/
def qb4None : QObj := withOption qs_quantized_bits [("bits", .num 4), ("symmetric", .num 1)]

/-! ## strengthening round T13: quantizer OBJECTS shared between slots, reported quantizers,
       process-level state -/

/-- The in-place switches of a layer constructor run on quantizer OBJECTS, for every class, every
    heap and every assignment of objects to slots (any sharing): object `j` ends up switched by
    `_set_trainable_parameter()` iff SOME trainable slot refers to it — independent of the order of
    the slots and of how many slots share it — and is otherwise untouched. -/
theorem C13_shared_object_closed_form (E : Env) (spec : LSpec) (ref : String → Option Nat)
    (h : QHeap) (j : Nat) :
    constructHeap E spec ref h j = if touched spec ref j then setTr E (h j) else h j :=
  constructHeap_closed E spec ref h j

/-- One object passed for a trainable slot `t` AND any other slot `k` (kernel and bias, recurrent
    and state, …): what slot `k` computes with, serialises and reports through `get_quantizers()`
    is the SWITCHED object — the three coincide because they dereference the same reference. -/
theorem C13_shared_object_switched_for_every_slot (E : Env) (spec : LSpec)
    (ref : String → Option Nat) (h : QHeap) (t : Param) (ht : t ∈ spec.params)
    (htr : t.kind.isTrainableQuant = true) (i : Nat) (hti : ref t.name = some i) (k : String)
    (hk : ref k = some i) :
    slotValue (constructHeap E spec ref h) ref k = .obj (setTr E (h i)) := by
  have htouched : touched spec ref i = true := by
    unfold touched
    rw [List.any_eq_true]
    exact ⟨t, ht, by simp [htr, hti]⟩
  simp [slotValue, hk, constructHeap_closed, htouched]

/-- an object that no trainable slot refers to is left as the user built it -/
theorem C13_unshared_object_untouched (E : Env) (spec : LSpec) (ref : String → Option Nat)
    (h : QHeap) (i : Nat) (hn : touched spec ref i = false) (k : String) (hk : ref k = some i) :
    slotValue (constructHeap E spec ref h) ref k = .obj (h i) := by
  simp [slotValue, hk, constructHeap_closed, hn]

/-- The quantizer slots of a layer constructed from (possibly shared) objects are in
    post-constructor state: running the constructor's normalisation again — which is what a rebuilt
    layer does with the fresh per-slot objects it gets from the config — changes nothing.  This is
    the `normal` hypothesis of `LayerOK` for every quantizer slot, for every sharing pattern. -/
theorem C13_shared_slot_normal (E : Env) (spec : LSpec) (ref : String → Option Nat) (h : QHeap)
    (p : Param) (hp : p ∈ spec.params) (t : Bool) (hk : p.kind = .quant t) :
    normLocal E spec p.kind (.q (slotValue (constructHeap E spec ref h) ref p.name)) =
      .q (slotValue (constructHeap E spec ref h) ref p.name) := by
  rw [hk]
  cases hr : ref p.name with
  | none => simp [slotValue, hr, normLocal, normQ]
  | some i =>
    cases t with
    | false => simp [slotValue, hr, normLocal, normQ]
    | true =>
      have htouched : touched spec ref i = true := by
        unfold touched
        rw [List.any_eq_true]
        exact ⟨p, hp, by simp [Kind.isTrainableQuant, hk, hr]⟩
      simp only [slotValue, hr, normLocal, normQ_obj, constructHeap_closed, htouched, if_true,
        setTr_idem]

/-- "reports the same quantizers for every layer": under `LayerOK` the rebuilt layer reports, slot
    by slot, the quantizers the original reports (`get_quantizers()` = the slots `slots` in order),
    provided every reported slot is a read argument of the class (`C13_reported_slots_read`). -/
theorem C13_reported_quantizers_roundtrip (E : Env) (spec : LSpec) (L : Layer)
    (h : LayerOK E spec L) (slots : List String)
    (hs : ∀ k ∈ slots, ∃ p ∈ spec.params, p.name = k ∧ p.read = true) :
    ∃ L', layerFromConfig E spec (layerGetConfig E spec L) = .ok L' ∧
      reportedQuantizers slots L' = reportedQuantizers slots L := by
  obtain ⟨L', hL', _, _, hread⟩ := C13_layer_roundtrip E spec L h
  refine ⟨L', hL', ?_⟩
  unfold reportedQuantizers
  apply List.map_congr_left
  intro k hk
  obtain ⟨p, hp, hpk, hpr⟩ := hs k hk
  unfold readArgs at hread
  have hmem : p ∈ spec.params.filter (·.read) := List.mem_filter.mpr ⟨hp, hpr⟩
  have := (List.map_inj_left.mp hread) p hmem
  rw [← hpk]
  simp only [Prod.mk.injEq, true_and] at this
  rw [this]

/-- table fact: every slot a class lists in `get_quantizers()` is a quantizer parameter of the
    class that the inference computation reads; and a class that has `get_quantizers()` lists ALL
    its quantizer parameters -/
def reportedSlotsOK : Bool :=
  reportedSlots.all fun cs =>
    match lSpecs.find? (fun s => s.name == cs.1) with
    | some s =>
      (cs.2.all fun k => s.params.any fun p => p.name == k && p.read && p.kind.isQuant) &&
        (cs.2.isEmpty || s.params.all fun p => !p.kind.isQuant || cs.2.contains p.name)
    | none => false

theorem C13_reported_slots_read : reportedSlotsOK = true := by
  decide

theorem C13_reported_slots_classes : reportedSlots.map Prod.fst = lSpecs.map (·.name) := by
  decide

/-- the `alpha` a slot value carries, as text -/
def alphaOf : QVal → String
  | .obj q =>
    match q.args.lookup "alpha" with
    | some (.str s) => s
    | some .none => "None"
    | _ => "?"
  | _ => "-"

/-- witness of the seeded failure shape: `q = quantized_bits(4, 0, 1)` (alpha None) passed as
    kernel AND bias quantizer of a QLSTM: both slots hold the object switched to
    `alpha='auto_po2'` afterwards — the state a deep copy taken BEFORE the switch would keep
    (`alpha = None`) is not what any slot of the layer, or of any rebuilt layer, holds or reports -/
theorem C13_shared_kernel_bias_witness (cb : QVal → PyVal) :
    let ref : String → Option Nat := fun k =>
      if k == "kernel_quantizer" || k == "bias_quantizer" then some 0 else none
    let h' := constructHeap (env cb) ls_QLSTM ref (fun _ => qb4None)
    alphaOf (slotValue h' ref "kernel_quantizer") = "auto_po2" ∧
      alphaOf (slotValue h' ref "bias_quantizer") = "auto_po2" ∧
      alphaOf (slotValue h' ref "state_quantizer") = "-" ∧
      alphaOf (.obj qb4None) = "None" := by
  refine ⟨rfl, rfl, rfl, rfl⟩

/-- Process-level switch (`set_internal_sigmoid`): no object of the model holds a copy of it —
    whatever the mode was when the original was built and whatever it is when the route runs
    (`built`), the route yields ONE rebuilt model, and under EVERY current mode `now` (the same for
    both) original and rebuilt model predict identically, for every mode-dependent semantics. -/
theorem C13_model_rebuild_predict_any_mode_partial {W V : Type} [Inhabited V] (E : Env) (m : Model)
    (h : ∀ n ∈ m, NodeOK E n.node) (hr : modelGetConfigRaises E m = false) :
    ∃ m', (∀ built : SigmoidMode, rebuildUnder built E m = .ok m') ∧
      ∀ (S : ModeSem W V) (now : SigmoidMode) (ws : Nat → W) (inputs : List V),
        predictUnder E S now m' ws inputs = predictUnder E S now m ws inputs := by
  obtain ⟨m', hm', hp⟩ := C13_model_rebuild_predict_partial (W := W) (V := V) E m h hr
  exact ⟨m', fun _ => hm', fun S now ws inputs => hp (S now) ws inputs⟩

/-- non-vacuity: the example model under every pair of modes -/
example {W V : Type} [Inhabited V] (cb : QVal → PyVal) :
    ∃ m', (∀ built : SigmoidMode, rebuildUnder built (env cb) modelEx = .ok m') ∧
      ∀ (S : ModeSem W V) (now : SigmoidMode) (ws : Nat → W) (inputs : List V),
        predictUnder (env cb) S now m' ws inputs = predictUnder (env cb) S now modelEx ws inputs :=
  C13_model_rebuild_predict_any_mode_partial (env cb) modelEx (modelEx_ok cb) rfl

/-! ## Strengthening round U13 (seeds C13-9 / C13-10)

### base-class constructor arguments that travel through `**kwargs` -/

/-- names of a base-argument table are pairwise different -/
abbrev BaseKwNodup (bks : List BaseKw) : Prop := (bks.map (·.name)).Nodup

theorem lookup_heldKw (bks : List BaseKw) (user : Cfg) (b : BaseKw) (hb : b ∈ bks)
    (hn : BaseKwNodup bks) :
    (heldKw bks user).lookup b.name = some ((user.lookup b.name).getD b.default) := by
  induction bks with
  | nil => cases hb
  | cons a rest ih =>
    simp only [BaseKwNodup, List.map_cons, List.nodup_cons] at hn
    rcases List.mem_cons.mp hb with rfl | hr
    · simp [heldKw, List.lookup]
    · have hne : (b.name == a.name) = false := by
        apply beq_false_of_ne
        intro h
        exact hn.1 (h ▸ List.mem_map_of_mem hr)
      have := ih hr hn.2
      simp only [heldKw, List.map_cons, List.lookup, hne] at this ⊢
      exact this

theorem lookup_kwGetConfig (bks : List BaseKw) (held : Cfg) (b : BaseKw) (hb : b ∈ bks)
    (hn : BaseKwNodup bks) :
    (kwGetConfig bks held).lookup b.name =
      if b.emitted then some ((held.lookup b.name).getD b.default) else none := by
  induction bks with
  | nil => cases hb
  | cons a rest ih =>
    simp only [BaseKwNodup, List.map_cons, List.nodup_cons] at hn
    rcases List.mem_cons.mp hb with rfl | hr
    · by_cases he : b.emitted
      · simp [kwGetConfig, List.filter, he, List.lookup]
      · have hnot : ∀ c ∈ rest.filter (·.emitted), (b.name == c.name) = false := by
          intro c hc
          apply beq_false_of_ne
          intro h
          exact hn.1 (h ▸ List.mem_map_of_mem (List.mem_of_mem_filter hc))
        have hnone : ∀ (l : List BaseKw), (∀ c ∈ l, (b.name == c.name) = false) →
            (l.map fun c => (c.name, (held.lookup c.name).getD c.default)).lookup b.name = none := by
          intro l hl
          induction l with
          | nil => rfl
          | cons c l ihl =>
            simp only [List.map_cons, List.lookup, hl c (List.mem_cons_self ..)]
            exact ihl fun d hd => hl d (List.mem_cons_of_mem _ hd)
        simp only [kwGetConfig, List.filter, he]
        simpa [he] using hnone _ hnot
    · have hne : (b.name == a.name) = false := by
        apply beq_false_of_ne
        intro h
        exact hn.1 (h ▸ List.mem_map_of_mem hr)
      have := ih hr hn.2
      by_cases ha : a.emitted
      · simp only [kwGetConfig, List.filter, ha, List.map_cons, List.lookup, hne] at this ⊢
        exact this
      · simp only [kwGetConfig, List.filter, ha] at this ⊢
        exact this

/-- **Field by field**, for ANY table of base-class arguments and ANY keywords of the caller: after
    `get_config → cls(**config)` an argument the config carries holds the value the original holds, an
    argument the config does not carry is back at the base class' default. -/
theorem C13_base_kwarg_roundtrip (bks : List BaseKw) (hn : BaseKwNodup bks) (user : Cfg)
    (b : BaseKw) (hb : b ∈ bks) :
    (kwFromConfig bks (kwGetConfig bks (heldKw bks user))).lookup b.name =
      some (if b.emitted then (user.lookup b.name).getD b.default else b.default) := by
  rw [kwFromConfig, lookup_heldKw bks _ b hb hn, lookup_kwGetConfig bks _ b hb hn,
    lookup_heldKw bks user b hb hn]
  by_cases he : b.emitted <;> simp [he]

/-- so: when the config carries every argument, the rebuilt layer holds exactly the attributes of the
    original, whatever the caller passed -/
theorem C13_base_kwargs_roundtrip (bks : List BaseKw) (hn : BaseKwNodup bks)
    (he : ∀ b ∈ bks, b.emitted = true) (user : Cfg) :
    kwFromConfig bks (kwGetConfig bks (heldKw bks user)) = heldKw bks user := by
  have hfil : bks.filter (·.emitted) = bks := List.filter_eq_self.mpr he
  simp only [kwFromConfig, heldKw, kwGetConfig, hfil]
  apply List.map_congr_left
  intro b hb
  have h1 := lookup_heldKw bks user b hb hn
  simp only [heldKw] at h1
  have h2 : ((bks.map fun b => (b.name, ((bks.map fun b => (b.name, (user.lookup b.name).getD b.default)).lookup
      b.name).getD b.default)).lookup b.name) = some ((user.lookup b.name).getD b.default) := by
    have := lookup_heldKw bks (heldKw bks user) b hb hn
    simp only [heldKw] at this
    rw [this, h1]; rfl
  rw [h2]; rfl

/-- the (class, argument) pairs of the real tables that `get_config` does not write — complete list.
    None of them is read at inference (dropout seed of the cells, the unused `kernel_*` of the depthwise
    classes, training-time options of batch normalisation). -/
def droppedBaseKwargs : List (String × String) :=
  baseKwargs.flatMap fun (c, bks) => (bks.filter fun b => !b.emitted).map fun b => (c, b.name)

theorem C13_base_kwargs_dropped_list :
    droppedBaseKwargs =
      [("QSimpleRNNCell", "seed"), ("QLSTMCell", "seed"), ("QGRUCell", "seed"),
       ("QDepthwiseConv2D", "kernel_initializer"), ("QDepthwiseConv2D", "kernel_regularizer"),
       ("QDepthwiseConv2D", "kernel_constraint"),
       ("QBatchNormalization", "synchronized"), ("QBatchNormalization", "renorm_clipping"),
       ("QBatchNormalization", "renorm_momentum"),
       ("QDepthwiseConv2DBatchnorm", "kernel_initializer"), ("QDepthwiseConv2DBatchnorm", "kernel_regularizer"),
       ("QDepthwiseConv2DBatchnorm", "kernel_constraint")] := by
  decide

theorem C13_base_kwargs_tables_nodup : ∀ e ∈ baseKwargs, BaseKwNodup e.2 := by
  decide

/-- EVERY base-class argument that the inference computation of a class reads (`groups`,
    `data_format`, `time_major`, `keepdims`) is written by that class' `get_config` -/
theorem C13_base_kwargs_read_emitted :
    ∀ e ∈ baseKwargs, ∀ b ∈ e.2, b.read = true → b.emitted = true := by
  decide

/-- the clause for the real tables: for every layer class, every read base-class argument and every
    value the caller passed for it (and whatever else the caller passed), the rebuilt layer holds the
    original's value -/
theorem C13_base_kwargs_read_survive (cls : String) (bks : List BaseKw) (hc : (cls, bks) ∈ baseKwargs)
    (user : Cfg) (b : BaseKw) (hb : b ∈ bks) (hr : b.read = true) :
    (kwFromConfig bks (kwGetConfig bks (heldKw bks user))).lookup b.name =
      (heldKw bks user).lookup b.name := by
  have hn := C13_base_kwargs_tables_nodup _ hc
  have he := C13_base_kwargs_read_emitted _ hc b hb hr
  rw [C13_base_kwarg_roundtrip bks hn user b hb, lookup_heldKw bks user b hb hn]
  simp [he]

/-- `QGlobalAveragePooling2D(keepdims=True)`: the rebuilt layer keeps the spatial axes too; and what a
    `get_config` that leaves the key out would do (back to the default `False`: output (N, C) instead
    of (N, 1, 1, C)) -/
theorem C13_keepdims_witness :
    let bks : List BaseKw := (baseKwargs.lookup "QGlobalAveragePooling2D").getD []
    let dropped : List BaseKw := bks.map fun b => { b with emitted := false }
    (kwFromConfig bks (kwGetConfig bks (heldKw bks [("keepdims", .bool true)]))).lookup "keepdims"
        = some (.bool true) ∧
      (kwFromConfig dropped (kwGetConfig dropped (heldKw dropped [("keepdims", .bool true)]))).lookup "keepdims"
        = some (.bool false) := by
  constructor <;> rfl

/-! ### the caller's own custom objects -/

/-- membership in a route's table: the library's keys or the caller's -/
theorem C13_route_table_contains (E : Env) (r : Route) (user : List String) (c : String) :
    (routeTable E r user).contains c = (E.customObjects.contains c || user.contains c) := by
  simp only [routeTable, List.contains_eq_mem, List.mem_append, List.mem_filter, Bool.decide_or,
    Bool.decide_and, Bool.not_eq_true', decide_eq_false_iff_not, decide_not]
  by_cases h1 : c ∈ E.customObjects <;> by_cases h2 : c ∈ user <;> simp [h1, h2]

/-- **Reloading needs no user-supplied custom objects for library classes** — on every route and
    whatever dict the caller passes (None, empty, his own classes only, some library classes, both):
    every library class a config can name is a key of the table Keras sees -/
theorem C13_route_table_complete (cb : QVal → PyVal) (r : Route) (user : List String) :
    ∀ c ∈ libraryClassNames, (routeTable (env cb) r user).contains c = true := by
  intro c hc
  rw [C13_route_table_contains]
  have : (env cb).customObjects.contains c = true := C13_table_complete c hc
  rw [this, Bool.true_or]

/-- the caller's keys are in the table too -/
theorem C13_route_table_user_kept (E : Env) (r : Route) (user : List String) :
    ∀ c ∈ user, (routeTable E r user).contains c = true := by
  intro c hc
  rw [C13_route_table_contains]
  simp [List.contains_eq_mem, hc]

/-- a caller who lists nothing, or only library names (`{"QDense": QDense}`), gets exactly the
    library's table: the route is the plain route -/
theorem C13_route_table_library_only (E : Env) (r : Route) (user : List String)
    (h : ∀ k ∈ user, E.customObjects.contains k = true) : routeTable E r user = E.customObjects := by
  have : user.filter (fun k => !E.customObjects.contains k) = [] := by
    apply List.filter_eq_nil_iff.mpr
    intro k hk
    simpa using h k hk
  rw [routeTable, this, List.nil_append]

theorem C13_rebuild_with_library_only (E : Env) (r : Route) (user : List String)
    (h : ∀ k ∈ user, E.customObjects.contains k = true) (m : Model) :
    rebuildWith E r user m = rebuild E m := by
  simp only [rebuildWith, rebuild, Env.withUser, C13_route_table_library_only E r user h]

/-- so the model-level theorem holds on every route for such a caller (None and `{}` included) -/
theorem C13_model_rebuild_with_predict_partial {W V : Type} [Inhabited V] (E : Env) (m : Model)
    (hm : ∀ n ∈ m, NodeOK E n.node) (hr : modelGetConfigRaises E m = false)
    (r : Route) (user : List String) (h : ∀ k ∈ user, E.customObjects.contains k = true) :
    ∃ m', rebuildWith E r user m = .ok m' ∧
      ∀ (S : Sem W V) (ws : Nat → W) (inputs : List V),
        predict E S m' ws inputs = predict E S m ws inputs := by
  rw [C13_rebuild_with_library_only E r user h]
  exact C13_model_rebuild_predict_partial E m hm hr

/-- a caller who names a class of his own (`{"SoftClip": SoftClip}`): on every route the example model
    of library layers is rebuilt exactly as without the argument; and what a route that used the
    caller's dict INSTEAD of the library's table would do: `unknownObject` for the first library layer -/
theorem C13_user_class_witness (cb : QVal → PyVal) :
    (∀ r : Route, rebuildWith (env cb) r ["SoftClip"] modelEx = rebuild (env cb) modelEx) ∧
      modelFromConfig { env cb with customObjects := ["SoftClip"] } (modelGetConfig (env cb) modelEx)
        = .error .unknownObject := by
  refine ⟨fun r => ?_, ?_⟩
  · cases r <;> rfl
  · rfl

/-! ## strengthening round W13: a quantizer slot whose weight a switch turns off
    (`use_bias=False` + `bias_quantizer`, `center=False` + `beta_quantizer`, `scale=False` + `gamma_quantizer`) -/

def Kind.isQuant : Kind → Bool
  | .quant _ => true
  | _ => false

/-- the switches that create / leave out a weight, with the quantizer slot of that weight -/
def weightSwitches : List (String × String) :=
  [("use_bias", "bias_quantizer"), ("center", "beta_quantizer"), ("scale", "gamma_quantizer")]

/-- (class, switch, slot) over the real table: every class that has both arguments -/
def switchedSlots : List (String × String × String) :=
  lSpecs.flatMap fun s =>
    (weightSwitches.filter fun w => s.hasParam w.1 && s.hasParam w.2).map fun w => (s.name, w.1, w.2)

/-- the complete list (the batch-norm folding classes and the recurrent classes / cells included) -/
theorem C13_switched_slots_list :
    switchedSlots =
      [("QDense", "use_bias", "bias_quantizer"), ("QConv1D", "use_bias", "bias_quantizer"),
       ("QConv2D", "use_bias", "bias_quantizer"), ("QConv2DTranspose", "use_bias", "bias_quantizer"),
       ("QSimpleRNNCell", "use_bias", "bias_quantizer"), ("QSimpleRNN", "use_bias", "bias_quantizer"),
       ("QLSTMCell", "use_bias", "bias_quantizer"), ("QLSTM", "use_bias", "bias_quantizer"),
       ("QGRUCell", "use_bias", "bias_quantizer"), ("QGRU", "use_bias", "bias_quantizer"),
       ("QDepthwiseConv2D", "use_bias", "bias_quantizer"), ("QSeparableConv1D", "use_bias", "bias_quantizer"),
       ("QSeparableConv2D", "use_bias", "bias_quantizer"),
       ("QBatchNormalization", "center", "beta_quantizer"), ("QBatchNormalization", "scale", "gamma_quantizer"),
       ("QConv2DBatchnorm", "use_bias", "bias_quantizer"), ("QDepthwiseConv2DBatchnorm", "use_bias", "bias_quantizer"),
       ("QScaleShift", "use_bias", "bias_quantizer")] := by
  decide

/-- in the real table EVERY quantizer slot of EVERY class is written by `get_config` and is in the
    class' read set — in particular the slots of `C13_switched_slots_list`: `C13_layer_roundtrip`
    returns them unchanged whatever the switch says (its statement quantifies over all argument
    values, `use_bias = False` included) -/
theorem C13_quantizer_slots_emitted_read :
    ∀ s ∈ lSpecs, ∀ p ∈ s.params, p.kind.isQuant = true → p.emitted = true ∧ p.read = true := by
  decide

/-- what `get_config` writes for an emitted argument is a function of THAT argument alone: a layer
    `L'` that differs from `L` in any other argument (the switch of the weight, the folding mode, …)
    but holds the same value writes the very same entry -/
theorem C13_config_entry_switch_independent (E : Env) (spec : LSpec) (L L' : Layer) (p : Param)
    (hp : p ∈ spec.params) (he : p.emitted = true) (h : L.arg p.name = L'.arg p.name) :
    (p.name, serArg E p.kind (L.arg p.name)) ∈ layerGetConfig E spec L' := by
  rw [h]
  unfold layerGetConfig
  exact List.mem_append_right _ (List.mem_map.mpr ⟨p, List.mem_filter.mpr ⟨hp, he⟩, rfl⟩)

/-- `QDepthwiseConv2DBatchnorm((2,2), use_bias=False, bias_quantizer=quantized_bits(4,0,1,alpha=1))`:
    the layer that quantizes the bias folded from the batch-norm statistics although the convolution
    has no bias -/
def dwBnNoBias : Layer :=
  ⟨"QDepthwiseConv2DBatchnorm", [("name", .str "dw")],
   ls_QDepthwiseConv2DBatchnorm.params.map fun p =>
     if p.name == "kernel_size" then (p.name, .lit (.list [.num 2, .num 2]))
     else if p.name == "use_bias" then (p.name, .lit (.bool false))
     else if p.name == "activation" then (p.name, .act (.fn "linear"))
     else if p.name == "bias_quantizer" then (p.name, .q (.obj qb4))
     else (p.name, p.default)⟩

/-- its config holds the bias quantizer (not `None`), and the rebuilt layer holds the same
    quantizer and the same switch -/
theorem C13_biasless_bias_quantizer_witness (cb : QVal → PyVal) :
    (layerGetConfig (env cb) ls_QDepthwiseConv2DBatchnorm dwBnNoBias).lookup "bias_quantizer"
        = some (serQ (env cb) (.obj qb4)) ∧
      (layerGetConfig (env cb) ls_QDepthwiseConv2DBatchnorm dwBnNoBias).lookup "use_bias" = some (.bool false) ∧
      ((layerFromConfig (env cb) ls_QDepthwiseConv2DBatchnorm
          (layerGetConfig (env cb) ls_QDepthwiseConv2DBatchnorm dwBnNoBias)).toOption.map
        fun L' => (L'.arg "bias_quantizer", L'.arg "use_bias"))
        = some (.q (.obj qb4), .lit (.bool false)) := by
  refine ⟨rfl, rfl, rfl⟩

end QKV.Props.C13
