/-
  C06 — quantizers stay trainable: gradients are those of the straight-through surrogate.

  Property (verbatim): For every differentiable-by-design quantizer the forward value is the
  quantized value while the gradient with respect to the input equals the gradient of its
  documented unquantized surrogate: identity for the linear fixed-point, power-of-two and
  constant-scale binary/ternary quantizers, the (leaky, optionally bounded) ReLU for the ReLU
  family, tanh' for unscaled binary/ternary, and zero in clipped regions of quantizers that
  document it. Gradients are finite everywhere and never identically zero on the unclipped range.

  Model: QKV.Model.Grad — dual numbers with TensorFlow's gradient conventions as definitions;
  each return expression transcribed.  Statements hold for every input, every tie rule, every
  configuration, and — for the straight-through forms — for EVERY quantized tensor `xq` (so nothing
  inside the quantization, e.g. a data-dependent scale, can leak into the gradient).
-/
import QKV.Lemmas.FixedQ
import QKV.Model.Grad
import QKV.Model.Stoch
namespace QKV.Props.C06
open QKV

/-! ## the straight-through tail shared by bits / relu / po2 / relu_po2 / binary / ternary -/

/-- forward value: `x_u + qnoise_factor·(xq − x_u)` in both forms -/
theorem C06_steMix_val (useSte : Bool) (qf : ℚ) (xu xq : D) :
    (steMix useSte qf xu xq).val = xu.val + qf * (xq.val - xu.val) := by
  cases useSte
  · simp only [steMix, D.add, D.sg, D.smul, Bool.false_eq_true, if_false]; ring
  · simp only [steMix, D.add, D.sg, D.smul, D.neg, if_true]; ring

/-- gradient: that of the surrogate `x_u`, scaled by 1 (STE) or `1 − qnoise_factor` (non-STE);
    independent of `xq` altogether -/
theorem C06_steMix_tan (useSte : Bool) (qf : ℚ) (xu xq : D) :
    (steMix useSte qf xu xq).tan = (if useSte then 1 else 1 - qf) * xu.tan := by
  cases useSte
  · simp only [steMix, D.add, D.sg, D.smul, Bool.false_eq_true, if_false]; ring
  · simp only [steMix, D.add, D.sg, if_true]; ring

theorem C06_no_leak (useSte : Bool) (qf : ℚ) (xu xq xq' : D) :
    (steMix useSte qf xu xq).tan = (steMix useSte qf xu xq').tan := by
  rw [C06_steMix_tan, C06_steMix_tan]

/-! ## quantized_bits -/

private theorem clip_int (k lo hi : ℤ) :
    (if (k : ℚ) < (lo : ℚ) then (lo : ℚ) else if (hi : ℚ) < (k : ℚ) then (hi : ℚ) else (k : ℚ))
      = ((iclip k lo hi : ℤ) : ℚ) ∨ hi < lo := by
  by_cases h : hi < lo
  · right; exact h
  · left
    push Not at h
    rw [iclip_eq]
    by_cases h1 : k < lo
    · have : (k : ℚ) < (lo : ℚ) := by exact_mod_cast h1
      rw [if_pos this, max_eq_right h1.le, min_eq_left h]
    · push Not at h1
      have : ¬ (k : ℚ) < (lo : ℚ) := by push_cast; exact_mod_cast not_lt.mpr h1
      rw [if_neg this, max_eq_left h1]
      by_cases h2 : hi < k
      · have : (hi : ℚ) < (k : ℚ) := by exact_mod_cast h2
        rw [if_pos this, min_eq_right h2.le]
      · push Not at h2
        have : ¬ (hi : ℚ) < (k : ℚ) := by exact_mod_cast not_lt.mpr h2
        rw [if_neg this, min_eq_left h2]

/-- the forward value of the transcribed expression is the C01 value model, mixed by the
    noise factor: with `qnoise_factor = 1` it is exactly `qbits` -/
theorem C06_bits_val (t : Tie) (c : BitsCfg) (h : 0 < c.ub) (useSte : Bool) (qf x : ℚ) :
    (qbitsD t c useSte qf (D.var x)).val = x + qf * (qbits t c x - x) := by
  unfold qbitsD
  rw [C06_steMix_val]
  have hm : (0 : ℚ) < (twoPow c.ub : ℚ) := by rw [twoPow_eq_tp]; exact_mod_cast tp_pos _
  have hmi := pow2_pos c.integer
  have hstep : c.step = pow2 c.integer / (twoPow c.ub : ℚ) := by
    unfold BitsCfg.step
    rw [twoPow_eq_tp, tp_cast h.le, eq_div_iff (pow2_ne_zero _), ← pow2_add]; congr 1; ring
  have hxq : (qbitsXq t c (D.var x)).val = qbits t c x := by
    unfold qbitsXq qbits
    simp only [if_pos h, D.smul, D.var, D.roundThrough, D.add, D.sg, D.neg, D.round, D.clip, rc]
    have e1 : (twoPow c.ub : ℚ) / pow2 c.integer * x = x / c.step := by
      rw [hstep]; field_simp
    have e2 : x / c.step + (-(x / c.step) + ((roundTie t (x / c.step) : ℤ) : ℚ))
        = ((roundTie t (x / c.step) : ℤ) : ℚ) := by ring
    simp only [e1, e2]
    rcases clip_int (roundTie t (x / c.step)) c.lo c.hi with e | e
    · rw [e, hstep]; field_simp
    · exact absurd c.lo_le_hi (not_le.mpr e)
  simp only [D.var] at hxq ⊢
  rw [hxq]

/-- gradient of `quantized_bits`: 1 with the straight-through estimator, `1 − qnoise_factor`
    without — for every input, clipped regions included (identity surrogate) -/
theorem C06_bits_grad (t : Tie) (c : BitsCfg) (useSte : Bool) (qf x : ℚ) :
    (qbitsD t c useSte qf (D.var x)).tan = if useSte then 1 else 1 - qf := by
  unfold qbitsD; rw [C06_steMix_tan]; simp [D.var]

/-! ## quantized_bits with a data-dependent scale (alpha = 'auto' / 'auto_po2' / post-training scale)

  The branch normalises `x = x / m_i` for the scale search and restores `x = m_i * x` before the
  straight-through return.  `scaleOf` is the scale search as a function of the normalised dual
  number — ANY function, with any tangent (K.max is differentiable): the statements hold for all. -/

private theorem sgn_scale {a : ℚ} (ha : 0 < a) (x : ℚ) : D.sgn (a * x) = D.sgn x := by
  unfold D.sgn
  have h1 : a * x < 0 ↔ x < 0 := by
    constructor
    · intro h; by_contra hx; push Not at hx; nlinarith [mul_nonneg ha.le hx]
    · intro h; nlinarith
  have h2 : a * x = 0 ↔ x = 0 := by simp [ha.ne']
  simp only [h1, h2]

private theorem abs_scale {a : ℚ} (ha : 0 < a) (x : ℚ) : D.absv (a * x) = a * D.absv x := by
  unfold D.absv
  have h1 : a * x < 0 ↔ x < 0 := by
    constructor
    · intro h; by_contra hx; push Not at hx; nlinarith [mul_nonneg ha.le hx]
    · intro h; nlinarith
  simp only [h1]; split <;> ring

/-- gradient of the auto-scaled `quantized_bits`: EXACTLY 1 with the straight-through estimator and
    `1 − qnoise_factor` without — for every `integer` (the `x / m_i … m_i * x` bookkeeping cancels),
    every `bits`, `keep_negative`, input and every scale search -/
theorem C06_bits_auto_grad (c : AutoCfg) (useSte : Bool) (qf : ℚ) (scaleOf : D → D) (x : ℚ) :
    (qbitsAutoD c useSte qf scaleOf (D.var x)).tan = if useSte then 1 else 1 - qf := by
  unfold qbitsAutoD
  simp only []
  rw [C06_steMix_tan]
  have h := pow2_ne_zero c.integer
  simp only [D.smul, D.var]
  have : pow2 c.integer * (1 / pow2 c.integer * 1) = 1 := by field_simp
  rw [this, mul_one]

/-- `C06_no_leak` instantiated for this branch: two different scale searches give the same gradient -/
theorem C06_bits_auto_no_leak (c : AutoCfg) (useSte : Bool) (qf : ℚ) (f g : D → D) (x : ℚ) :
    (qbitsAutoD c useSte qf f (D.var x)).tan = (qbitsAutoD c useSte qf g (D.var x)).tan := by
  rw [C06_bits_auto_grad, C06_bits_auto_grad]

/-- forward value of the branch: `x + qf·(xq − x)` with `x` the ORIGINAL input (restored) and `xq` the
    closed form `qbitsAutoVal` for the scale found on the normalised tensor — for every
    `qnoise_factor`, not only 1 -/
theorem C06_bits_auto_val (c : AutoCfg) (useSte : Bool) (qf : ℚ) (scaleOf : D → D) (x : ℚ) :
    (qbitsAutoD c useSte qf scaleOf (D.var x)).val
      = x + qf * (qbitsAutoVal c (scaleOf (D.smul (1 / pow2 c.integer) (D.var x))).val x - x) := by
  unfold qbitsAutoD
  simp only []
  rw [C06_steMix_val]
  have hmi := pow2_pos c.integer
  have hmi' : (0 : ℚ) < 1 / pow2 c.integer := by positivity
  have hm : (twoPow c.ub : ℚ) ≠ 0 := by rw [twoPow_eq_tp]; exact_mod_cast (tp_pos _).ne'
  generalize hs : (scaleOf (D.smul (1 / pow2 c.integer) (D.var x))) = sc
  have hxr : (D.smul (pow2 c.integer) (D.smul (1 / pow2 c.integer) (D.var x))).val = x := by
    simp only [D.smul, D.var]; field_simp
  have hxq : (qbitsAutoXq c sc (D.smul (1 / pow2 c.integer) (D.var x))).val
      = qbitsAutoVal c sc.val x := by
    unfold qbitsAutoXq qbitsAutoVal
    simp only [D.mul, D.smul]
    simp only [D.var, D.sign, D.floor, D.add, D.div, D.abs, D.const, sgn_scale hmi', abs_scale hmi']
    have e : 1 / pow2 c.integer * D.absv x / sc.val + 1 / 2
        = D.absv x / (sc.val * pow2 c.integer) + 1 / 2 := by
      rw [one_div_mul_eq_div, div_div, mul_comm]
    rw [e]
    split
    · simp only []; field_simp
    · simp only []; field_simp
  rw [hxr, hxq]

/-- what the restore is for: WITHOUT `x = m_i * x` the gradient is `2^-integer` times the
    surrogate's (and the forward value is wrong for `qnoise_factor < 1`) -/
theorem C06_bits_auto_unrestored_tan (c : AutoCfg) (useSte : Bool) (qf : ℚ) (scaleOf : D → D) (x : ℚ) :
    (qbitsAutoUnrestoredD c useSte qf scaleOf (D.var x)).tan
      = (if useSte then 1 else 1 - qf) / pow2 c.integer := by
  unfold qbitsAutoUnrestoredD
  simp only []
  rw [C06_steMix_tan]
  simp only [D.smul, D.var]; ring

/-- … hence it is the identity surrogate's gradient only for `integer = 0` -/
theorem C06_bits_auto_unrestored_ne (c : AutoCfg) (h : c.integer ≠ 0) (qf : ℚ) (scaleOf : D → D) (x : ℚ) :
    (qbitsAutoUnrestoredD c true qf scaleOf (D.var x)).tan ≠ 1 := by
  rw [C06_bits_auto_unrestored_tan]
  simp only [if_true]
  intro h1
  have hp := pow2_ne_zero c.integer
  have : pow2 c.integer = pow2 0 := by rw [pow2_zero]; field_simp at h1; linarith
  exact h (pow2_injective this)

/-! ## quantized_relu: gradient of the (leaky, bounded) ReLU -/

/-- derivative of the surrogate `x_u` at `x` -/
def reluXuSlope (c : ReluCfg) (o : ReluOpts) (x : ℚ) : ℚ :=
  let r : ℚ := if 0 < x then 1 else c.slope
  if o.isQuantizedClip then
    (if x ≤ pow2 c.integer - pow2 (c.integer - c.nsb) then r else 0)
  else match o.upper with
    | some u => if x ≤ u then r else 0
    | none => r

theorem C06_relu_grad (c : ReluCfg) (o : ReluOpts) (useSte : Bool) (qf x : ℚ) (xq : D) :
    (qreluD c o useSte qf (D.var x) xq).tan = (if useSte then 1 else 1 - qf) * reluXuSlope c o x := by
  unfold qreluD; rw [C06_steMix_tan]
  congr 1
  unfold reluXu reluXuSlope
  cases o.isQuantizedClip
  · rcases o.upper with _ | u
    · simp [D.relu, D.var]
    · simp only [Bool.false_eq_true, if_false, D.var]
      split <;> rename_i hh <;> simp [D.relu, D.const, hh]
  · simp only [if_true, D.var]
    split <;> rename_i hh <;> simp [D.relu, D.const, hh]

theorem C06_relu_val (c : ReluCfg) (o : ReluOpts) (useSte : Bool) (qf x : ℚ) (xq : D) :
    (qreluD c o useSte qf (D.var x) xq).val
      = (reluXu c o (D.var x)).val + qf * (xq.val - (reluXu c o (D.var x)).val) := by
  unfold qreluD; rw [C06_steMix_val]

/-! ## quantized_linear: identity inside the clip range, zero (times qnoise) outside -/

theorem C06_linear_grad (t : Tie) (c : LinCfg) (h : c.signFn = false) (hq : c.qs ≠ 0) (qf x : ℚ) :
    (qlinearD t c qf (D.var x)).tan
      = if (c.lo : ℚ) ≤ x / c.qs ∧ x / c.qs ≤ (c.hi : ℚ) then 1 else 1 - qf := by
  unfold qlinearD
  simp only [h, Bool.false_eq_true, if_false, D.smul, D.var, D.clip, D.add, D.const, D.roundThrough,
    D.sg, D.neg, D.round, D.sub]
  have e : 1 / c.qs * x = x / c.qs := by ring
  simp only [e]
  split
  · field_simp; ring
  · ring

theorem C06_linear_val (t : Tie) (c : LinCfg) (h : c.signFn = false) (qf x : ℚ) :
    (qlinearD t c qf (D.var x)).val = x + qf * (qlinear t c x - x) := by
  unfold qlinearD qlinear
  simp only [h, Bool.false_eq_true, if_false, D.smul, D.var, D.clip, D.add, D.const, D.roundThrough,
    D.sg, D.neg, D.round, D.sub]
  have e : 1 / c.qs * x = x / c.qs := by ring
  simp only [e]
  ring_nf

/-! ### quantized_linear with a data-dependent (stopped) scale -/

/-- clip bounds of `quantized_linear` in scaled units (`get_clip_bounds`) -/
def linLo (c : LinCfg) : ℚ := if c.signFn then -1/2 else (c.lo : ℚ)
def linHi (c : LinCfg) : ℚ := if c.signFn then 1/2 else (c.hi : ℚ)

/-- gradient for ANY quantization scale `qs` (value and tangent arbitrary — it enters under
    `stop_gradient`): 1 inside the clip range, `1 − qnoise_factor` outside; 1-bit sign function
    included -/
theorem C06_linear_auto_grad (t : Tie) (c : LinCfg) (qs : D) (hq : qs.val ≠ 0) (qf x : ℚ) :
    (qlinearSD t c qs qf (D.var x)).tan
      = if linLo c ≤ x / qs.val ∧ x / qs.val ≤ linHi c then 1 else 1 - qf := by
  unfold qlinearSD linLo linHi
  cases hsf : c.signFn <;>
  · simp only [Bool.false_eq_true, if_false, if_true, D.smul, D.var, D.clip, D.add, D.const,
      D.roundThrough, D.sg, D.neg, D.round, D.sub, D.div, D.mul, mul_zero, zero_add, add_zero]
    split
    · field_simp; ring
    · ring

theorem C06_linear_auto_no_leak (t : Tie) (c : LinCfg) (v d d' : ℚ) (qf x : ℚ) :
    (qlinearSD t c ⟨v, d⟩ qf (D.var x)).tan = (qlinearSD t c ⟨v, d'⟩ qf (D.var x)).tan := by
  unfold qlinearSD
  simp only [D.sg]

/-- forward value for any scale: `x + qf·(round(clip(x/qs))·qs − x)` -/
theorem C06_linear_auto_val (t : Tie) (c : LinCfg) (h : c.signFn = false) (qs : D) (qf x : ℚ) :
    (qlinearSD t c qs qf (D.var x)).val
      = x + qf * (qlinear t { c with alpha := some (qs.val / pow2 (c.integer - c.ub)) } x - x) := by
  have hub : LinCfg.ub { c with alpha := some (qs.val / pow2 (c.integer - c.ub)) } = c.ub := rfl
  have hqs : LinCfg.qs { c with alpha := some (qs.val / pow2 (c.integer - c.ub)) } = qs.val := by
    unfold LinCfg.qs
    rw [hub]
    have := pow2_ne_zero (c.integer - c.ub)
    simp only [Option.getD_some]
    field_simp
  have hsf : LinCfg.signFn { c with alpha := some (qs.val / pow2 (c.integer - c.ub)) } = false := h
  have hlo : LinCfg.lo { c with alpha := some (qs.val / pow2 (c.integer - c.ub)) } = c.lo := rfl
  have hhi : LinCfg.hi { c with alpha := some (qs.val / pow2 (c.integer - c.ub)) } = c.hi := rfl
  unfold qlinearSD qlinear
  rw [hsf, hqs, hlo, hhi]
  simp only [h, Bool.false_eq_true, if_false, D.smul, D.var, D.clip, D.add, D.const, D.roundThrough,
    D.sg, D.neg, D.round, D.sub, D.div, D.mul]
  ring_nf

/-- the constant-scale transcription `qlinearD` is the instance `qs = c.qs` -/
theorem C06_linear_const_scale (t : Tie) (c : LinCfg) (hq : c.qs ≠ 0) (d qf x : ℚ) :
    qlinearSD t c ⟨c.qs, d⟩ qf (D.var x) = qlinearD t c qf (D.var x) := by
  unfold qlinearSD qlinearD
  have e : 1 / c.qs * x = x / c.qs := by ring
  have e2 : c.qs / (c.qs * c.qs) = 1 / c.qs := by field_simp
  cases hsf : c.signFn <;>
  · simp only [Bool.false_eq_true, if_false, if_true, D.smul, D.var, D.clip, D.add, D.const,
      D.roundThrough, D.sg, D.neg, D.round, D.sub, D.div, D.mul, e, mul_zero, zero_add, add_zero,
      sub_zero, one_mul, mul_one, e2]
    congr 1 <;> ring

/-! ## quantized_tanh / quantized_sigmoid: surrogate derivative times the clip mask -/

theorem C06_tanh_grad (t : Tie) (bits : ℤ) (sym : Bool) (p dp : ℚ) :
    (qtanhD t bits sym ⟨p, dp⟩).tan
      = if (-1 + (if sym then 1 else 0) / (twoPow (bits - 1) : ℚ)) ≤
            ((roundTie t ((twoPow (bits - 1) : ℚ) * p) : ℤ) : ℚ) / (twoPow (bits - 1) : ℚ) ∧
           ((roundTie t ((twoPow (bits - 1) : ℚ) * p) : ℤ) : ℚ) / (twoPow (bits - 1) : ℚ)
            ≤ 1 - 1 / (twoPow (bits - 1) : ℚ)
        then dp else 0 := by
  have hm : (twoPow (bits - 1) : ℚ) ≠ 0 := by
    rw [twoPow_eq_tp]; exact_mod_cast (tp_pos _).ne'
  unfold qtanhD
  simp only [D.smul, D.clip, D.roundThrough, D.add, D.sg, D.neg, D.round]
  have e : 1 / (twoPow (bits - 1) : ℚ) * ((twoPow (bits - 1) : ℚ) * p +
      (-((twoPow (bits - 1) : ℚ) * p) + ((roundTie t ((twoPow (bits - 1) : ℚ) * p) : ℤ) : ℚ)))
      = ((roundTie t ((twoPow (bits - 1) : ℚ) * p) : ℤ) : ℚ) / (twoPow (bits - 1) : ℚ) := by
    field_simp; ring
  have e2 : 1 / (twoPow (bits - 1) : ℚ) * ((twoPow (bits - 1) : ℚ) * dp + 0) = dp := by field_simp; ring
  simp only [e, e2]

theorem C06_sigmoid_grad (t : Tie) (bits : ℤ) (sym : Bool) (p dp : ℚ) :
    (qsigmoidD t bits sym ⟨p, dp⟩).tan
      = if ((if sym then 1 else 0) / (twoPow bits : ℚ)) ≤
            ((roundTie t ((twoPow bits : ℚ) * p) : ℤ) : ℚ) / (twoPow bits : ℚ) ∧
           ((roundTie t ((twoPow bits : ℚ) * p) : ℤ) : ℚ) / (twoPow bits : ℚ) ≤ 1 - 1 / (twoPow bits : ℚ)
        then dp else 0 := by
  have hm : (twoPow bits : ℚ) ≠ 0 := by rw [twoPow_eq_tp]; exact_mod_cast (tp_pos _).ne'
  unfold qsigmoidD
  simp only [D.smul, D.clip, D.roundThrough, D.add, D.sg, D.neg, D.round]
  have e : 1 / (twoPow bits : ℚ) * ((twoPow bits : ℚ) * p +
      (-((twoPow bits : ℚ) * p) + ((roundTie t ((twoPow bits : ℚ) * p) : ℤ) : ℚ)))
      = ((roundTie t ((twoPow bits : ℚ) * p) : ℤ) : ℚ) / (twoPow bits : ℚ) := by
    field_simp; ring
  have e2 : 1 / (twoPow bits : ℚ) * ((twoPow bits : ℚ) * dp + 0) = dp := by field_simp; ring
  simp only [e, e2]

/-- the hard-sigmoid surrogate has slope 1/2 on [-1, 1] and 0 outside -/
theorem C06_hardSigmoid_grad (x : ℚ) :
    (hardSigmoidD (D.var x)).tan = if -1 ≤ x ∧ x ≤ 1 then 1 / 2 else 0 := by
  unfold hardSigmoidD
  simp only [D.clip, D.add, D.smul, D.const, D.var]
  have : (0 ≤ 1 / 2 * x + 1 / 2 ∧ 1 / 2 * x + 1 / 2 ≤ 1) ↔ (-1 ≤ x ∧ x ≤ 1) := by
    constructor <;> rintro ⟨a, b⟩ <;> constructor <;> linarith
  simp only [this]
  split <;> simp

/-! ## power-of-two, binary, ternary -/

theorem C06_po2_grad (useSte : Bool) (qf x : ℚ) (xq : D) :
    (qpo2D useSte qf (D.var x) xq).tan = if useSte then 1 else 1 - qf := by
  unfold qpo2D; rw [C06_steMix_tan]; simp [D.var]

theorem C06_relu_po2_grad (slope : ℚ) (mv : Option ℚ) (useSte : Bool) (qf x : ℚ) (xq : D) :
    (qreluPo2D slope mv useSte qf (D.var x) xq).tan
      = (if useSte then 1 else 1 - qf) *
        (match mv with
         | none => (if 0 < x then 1 else slope)
         | some m => if x ≤ m then (if 0 < x then 1 else slope) else 0) := by
  unfold qreluPo2D; rw [C06_steMix_tan]
  congr 1
  unfold reluPo2Xu
  rcases mv with _ | m
  · simp [D.relu, D.var]
  · simp only [D.var]
    split <;> rename_i hh <;> simp [D.relu, D.const, hh]

/-- binary / ternary: `tanh'` without scale, identity with a constant or data-dependent scale -/
theorem C06_binter_grad (alphaNone : Bool) (th th' : ℚ → ℚ) (x : ℚ) (xq : D) :
    (binTerD alphaNone th th' (D.var x) xq).tan = if alphaNone then th' x else 1 := by
  unfold binTerD; rw [C06_steMix_tan]
  cases alphaNone <;> simp [D.fn, D.var]

theorem C06_binter_val (alphaNone : Bool) (th th' : ℚ → ℚ) (x : ℚ) (xq : D) :
    (binTerD alphaNone th th' (D.var x) xq).val = xq.val := by
  unfold binTerD; rw [C06_steMix_val]; ring

/-! ## never identically zero — and the documented exception -/

theorem C06_nonzero (useSte : Bool) (qf : ℚ) (h : useSte = true ∨ qf ≠ 1) (xu xq : D)
    (hx : xu.tan ≠ 0) : (steMix useSte qf xu xq).tan ≠ 0 := by
  rw [C06_steMix_tan]
  apply mul_ne_zero _ hx
  rcases h with h | h
  · simp [h]
  · cases useSte
    · simp only [Bool.false_eq_true, if_false]; intro h0; apply h; linarith
    · simp

/-- COUNTEREXAMPLE (known finding C06-nonste-qf1): with `use_ste=False` and the default
    `qnoise_factor = 1` the gradient is identically zero, for every input and every quantized
    tensor: `(1 − 1)·x_u + stop_gradient(1·xq)`. -/
theorem C06_nonste_qf1_counterexample (xu xq : D) : (steMix false 1 xu xq).tan = 0 := by
  rw [C06_steMix_tan]; simp

/-! ## non-vacuity -/

example : (qbitsD .even { bits := 4, integer := 0, symmetric := false, keepNeg := true, alpha := none }
    true 1 (D.var (3 / 10))) = ⟨1 / 4, 1⟩ := by decide +kernel
example : (qlinearD .even { bits := 4, integer := 0, symmetric := true, keepNeg := true, alpha := none }
    1 (D.var 5)) = ⟨7 / 8, 0⟩ := by decide +kernel
-- auto-scaled quantized_bits(4, 2, 1): scale·m_i = 1/2, x = 5/4 -> code 3, xq = 3/2; at qnoise_factor 1/4
-- the value is 5/4 + (3/2 - 5/4)/4 and the tangent is 1 although the scale search has tangent 7
example : (qbitsAutoD { bits := 4, integer := 2, keepNeg := true } true (1 / 4) (fun _ => ⟨1 / 8, 7⟩)
    (D.var (5 / 4))) = ⟨21 / 16, 1⟩ := by decide +kernel
example : (qbitsAutoUnrestoredD { bits := 4, integer := 2, keepNeg := true } true (1 / 4)
    (fun _ => ⟨1 / 8, 7⟩) (D.var (5 / 4))).tan = 1 / 4 := by decide +kernel
-- quantized_linear(4, 0, 0, alpha='auto') whose scale came out as 1/4: x = 31/16 is in the half-step band
-- above clip_max = 7 (x/qs = 7.75): value 7/4, gradient 0 at qnoise_factor 1
example : (qlinearSD .even { bits := 4, integer := 0, symmetric := false, keepNeg := true, alpha := none }
    ⟨1 / 4, 9⟩ 1 (D.var (31 / 16))) = ⟨7 / 4, 0⟩ := by decide +kernel

/-! ## stochastic rounding inside `_round_through` (both learning phases)

  `use_stochastic_rounding=True` changes WHICH integer the rounding step emits (training phase only), never
  the tangent: both branches of the `smart_cond` are straight-through. -/

/-- the tangent of `_round_through` is the tangent of its argument — for every flag, learning phase,
    precision and draw -/
theorem C06_roundThroughS_tan (t : Tie) (r : Rnd) (a : D) : (D.roundThroughS t r a).tan = a.tan := by
  unfold D.roundThroughS
  split
  · split <;> simp [D.add, D.sg]
  · simp [D.add, D.sg]

theorem C06_roundThroughS_straight (t : Tie) (r : Rnd) : StraightThrough (D.roundThroughS t r) :=
  fun a => C06_roundThroughS_tan t r a

theorem C06_roundThrough_straight (t : Tie) : StraightThrough (D.roundThrough t) := by
  intro a; simp [D.roundThrough, D.add, D.sg]

/-- inference branch (learning phase 0) = the deterministic straight-through rounding, as a dual number
    (value AND tangent), whatever the flag / precision / draw -/
theorem C06_roundThroughS_infer (t : Tie) (r : Rnd) (h : r.phase = false) (a : D) :
    D.roundThroughS t r a = D.roundThrough t a := by
  unfold D.roundThroughS D.roundThrough
  simp [h]

/-- … and so is the call without the flag, in both phases -/
theorem C06_roundThroughS_noflag (t : Tie) (r : Rnd) (h : r.stoch = false) (a : D) :
    D.roundThroughS t r a = D.roundThrough t a := by
  unfold D.roundThroughS D.roundThrough
  simp [h]

/-- training branch: the value is the stochastic rounding of the argument -/
theorem C06_roundThroughS_train_val (t : Tie) (r : Rnd) (hs : r.stoch = true) (hp : r.phase = true) (a : D) :
    (D.roundThroughS t r a).val = D.stochRoundV r.precision r.u a.val := by
  unfold D.roundThroughS
  simp only [hs, hp, if_true, D.add, D.sg, D.neg, D.stochRound]
  ring

/-- `stochastic_round` with precision 1 emits `⌊v⌋` or `⌈v⌉` (an adjacent integer; C08 is about which) -/
theorem C06_stochRound_adjacent (u v : ℚ) :
    D.stochRoundV 1 u v = ((v.floor : ℤ) : ℚ) ∨ D.stochRoundV 1 u v = D.ceilv v := by
  unfold D.stochRoundV
  simp only [div_one, mul_one]
  split
  · left; rfl
  · right; rfl

/-- the value model of `stochastic_round` used here is the one C08's theorems are about -/
theorem C06_stochRound_is_C08 (precision u v : ℚ) :
    D.stochRoundV precision u v = QKV.Stoch.stochasticRound v precision u := rfl

/-- plain `tf.round` (the straight-through residual dropped) is NOT straight-through -/
theorem C06_round_not_straight (t : Tie) : ¬ StraightThrough (D.round t) := by
  intro h
  have := h ⟨0, 1⟩
  simp [D.round] at this

/-! ### quantized_linear for an arbitrary rounding step -/

/-- for EVERY straight-through rounding step: gradient 1 inside the clip range, `1 − qnoise_factor`
    outside (1-bit sign function included) -/
theorem C06_linear_rt_grad (rt : D → D) (hrt : StraightThrough rt) (c : LinCfg) (qs : D)
    (hq : qs.val ≠ 0) (qf x : ℚ) :
    (qlinearRD rt c qs qf (D.var x)).tan
      = if linLo c ≤ x / qs.val ∧ x / qs.val ≤ linHi c then 1 else 1 - qf := by
  unfold qlinearRD linLo linHi
  cases hsf : c.signFn <;>
  · simp only [Bool.false_eq_true, if_false, if_true, D.smul, D.var, D.add, D.const,
      D.sg, D.sub, D.div, D.mul, mul_zero, zero_add, add_zero, hrt _]
    simp only [D.clip]
    split
    · field_simp; ring
    · ring

/-- `use_stochastic_rounding=True`, either learning phase, any draw: the gradient of quantized_linear is
    the one without the flag -/
theorem C06_linear_stoch_grad (t : Tie) (r : Rnd) (c : LinCfg) (qs : D) (hq : qs.val ≠ 0) (qf x : ℚ) :
    (qlinearRD (D.roundThroughS t r) c qs qf (D.var x)).tan = (qlinearSD t c qs qf (D.var x)).tan := by
  rw [C06_linear_rt_grad _ (C06_roundThroughS_straight t r) c qs hq, C06_linear_auto_grad t c qs hq]

/-- the deterministic transcription is the instance `rt = D.roundThrough t` -/
theorem C06_linear_rt_det (t : Tie) (c : LinCfg) (qs : D) (qf : ℚ) (x : D) :
    qlinearRD (D.roundThrough t) c qs qf x = qlinearSD t c qs qf x := rfl

/-- in learning phase 0 the flag changes nothing at all (value and gradient) -/
theorem C06_linear_stoch_infer (t : Tie) (r : Rnd) (h : r.phase = false) (c : LinCfg) (qs : D) (qf : ℚ) (x : D) :
    qlinearRD (D.roundThroughS t r) c qs qf x = qlinearSD t c qs qf x := by
  have : D.roundThroughS t r = D.roundThrough t := funext (C06_roundThroughS_infer t r h)
  rw [this]; rfl

/-- what the residual is for: with plain `tf.round` as the rounding step the gradient of quantized_linear
    is `1 − qnoise_factor` for EVERY input — identically zero at the default factor 1 -/
theorem C06_linear_round_only_tan (t : Tie) (c : LinCfg) (qs : D) (qf x : ℚ) :
    (qlinearRD (D.round t) c qs qf (D.var x)).tan = 1 - qf := by
  unfold qlinearRD
  cases hsf : c.signFn <;>
  · simp only [Bool.false_eq_true, if_false, if_true, D.smul, D.var, D.add, D.const,
      D.sg, D.sub, D.div, D.mul, D.round, mul_zero, zero_add, add_zero, zero_mul]
    ring

/-! ### quantized_tanh / quantized_sigmoid for an arbitrary rounding step -/

theorem C06_tanh_rt_grad (rt : D → D) (hrt : StraightThrough rt) (bits : ℤ) (sym : Bool) (p dp : ℚ) :
    (qtanhRD rt bits sym ⟨p, dp⟩).tan
      = if (-1 + (if sym then 1 else 0) / (twoPow (bits - 1) : ℚ)) ≤
            1 / (twoPow (bits - 1) : ℚ) * (rt ⟨(twoPow (bits - 1) : ℚ) * p, (twoPow (bits - 1) : ℚ) * dp⟩).val ∧
           1 / (twoPow (bits - 1) : ℚ) * (rt ⟨(twoPow (bits - 1) : ℚ) * p, (twoPow (bits - 1) : ℚ) * dp⟩).val
            ≤ 1 - 1 / (twoPow (bits - 1) : ℚ)
        then dp else 0 := by
  have hm : (twoPow (bits - 1) : ℚ) ≠ 0 := by
    rw [twoPow_eq_tp]; exact_mod_cast (tp_pos _).ne'
  unfold qtanhRD
  simp only [D.smul, D.clip, hrt _]
  have e2 : 1 / (twoPow (bits - 1) : ℚ) * ((twoPow (bits - 1) : ℚ) * dp) = dp := by field_simp
  simp only [e2]

theorem C06_sigmoid_rt_grad (rt : D → D) (hrt : StraightThrough rt) (bits : ℤ) (sym : Bool) (p dp : ℚ) :
    (qsigmoidRD rt bits sym ⟨p, dp⟩).tan
      = if ((if sym then 1 else 0) / (twoPow bits : ℚ)) ≤
            1 / (twoPow bits : ℚ) * (rt ⟨(twoPow bits : ℚ) * p, (twoPow bits : ℚ) * dp⟩).val ∧
           1 / (twoPow bits : ℚ) * (rt ⟨(twoPow bits : ℚ) * p, (twoPow bits : ℚ) * dp⟩).val
            ≤ 1 - 1 / (twoPow bits : ℚ)
        then dp else 0 := by
  have hm : (twoPow bits : ℚ) ≠ 0 := by rw [twoPow_eq_tp]; exact_mod_cast (tp_pos _).ne'
  unfold qsigmoidRD
  simp only [D.smul, D.clip, hrt _]
  have e2 : 1 / (twoPow bits : ℚ) * ((twoPow bits : ℚ) * dp) = dp := by field_simp
  simp only [e2]

theorem C06_tanh_rt_det (t : Tie) (bits : ℤ) (sym : Bool) (p : D) :
    qtanhRD (D.roundThrough t) bits sym p = qtanhD t bits sym p := rfl
theorem C06_sigmoid_rt_det (t : Tie) (bits : ℤ) (sym : Bool) (p : D) :
    qsigmoidRD (D.roundThrough t) bits sym p = qsigmoidD t bits sym p := rfl

/-- learning phase 0: `use_stochastic_rounding=True` changes neither value nor gradient -/
theorem C06_tanh_stoch_infer (t : Tie) (r : Rnd) (h : r.phase = false) (bits : ℤ) (sym : Bool) (p : D) :
    qtanhRD (D.roundThroughS t r) bits sym p = qtanhD t bits sym p := by
  have : D.roundThroughS t r = D.roundThrough t := funext (C06_roundThroughS_infer t r h)
  rw [this]; rfl
theorem C06_sigmoid_stoch_infer (t : Tie) (r : Rnd) (h : r.phase = false) (bits : ℤ) (sym : Bool) (p : D) :
    qsigmoidRD (D.roundThroughS t r) bits sym p = qsigmoidD t bits sym p := by
  have : D.roundThroughS t r = D.roundThrough t := funext (C06_roundThroughS_infer t r h)
  rw [this]; rfl

/-- `use_stochastic_rounding=True`, either phase, any draw: surrogate' times the clip mask of the value
    actually emitted -/
theorem C06_tanh_stoch_grad (t : Tie) (r : Rnd) (bits : ℤ) (sym : Bool) (p dp : ℚ) :
    (qtanhRD (D.roundThroughS t r) bits sym ⟨p, dp⟩).tan
      = if (-1 + (if sym then 1 else 0) / (twoPow (bits - 1) : ℚ)) ≤
            1 / (twoPow (bits - 1) : ℚ) *
              (D.roundThroughS t r ⟨(twoPow (bits - 1) : ℚ) * p, (twoPow (bits - 1) : ℚ) * dp⟩).val ∧
           1 / (twoPow (bits - 1) : ℚ) *
              (D.roundThroughS t r ⟨(twoPow (bits - 1) : ℚ) * p, (twoPow (bits - 1) : ℚ) * dp⟩).val
            ≤ 1 - 1 / (twoPow (bits - 1) : ℚ)
        then dp else 0 :=
  C06_tanh_rt_grad _ (C06_roundThroughS_straight t r) bits sym p dp

theorem C06_sigmoid_stoch_grad (t : Tie) (r : Rnd) (bits : ℤ) (sym : Bool) (p dp : ℚ) :
    (qsigmoidRD (D.roundThroughS t r) bits sym ⟨p, dp⟩).tan
      = if ((if sym then 1 else 0) / (twoPow bits : ℚ)) ≤
            1 / (twoPow bits : ℚ) * (D.roundThroughS t r ⟨(twoPow bits : ℚ) * p, (twoPow bits : ℚ) * dp⟩).val ∧
           1 / (twoPow bits : ℚ) * (D.roundThroughS t r ⟨(twoPow bits : ℚ) * p, (twoPow bits : ℚ) * dp⟩).val
            ≤ 1 - 1 / (twoPow bits : ℚ)
        then dp else 0 :=
  C06_sigmoid_rt_grad _ (C06_roundThroughS_straight t r) bits sym p dp

/-- with plain `tf.round` the gradient of quantized_tanh / quantized_sigmoid vanishes identically -/
theorem C06_tanh_round_only_tan (t : Tie) (bits : ℤ) (sym : Bool) (p : D) :
    (qtanhRD (D.round t) bits sym p).tan = 0 := by
  unfold qtanhRD; simp [D.smul, D.clip, D.round]
theorem C06_sigmoid_round_only_tan (t : Tie) (bits : ℤ) (sym : Bool) (p : D) :
    (qsigmoidRD (D.round t) bits sym p).tan = 0 := by
  unfold qsigmoidRD; simp [D.smul, D.clip, D.round]

/-! ### quantized_bits: the rounding step sits under the outer stop_gradient -/

/-- gradient of quantized_bits for ANY rounding step (straight-through or not): 1 | 1 − qf -/
theorem C06_bits_rt_grad (rt : D → D) (c : BitsCfg) (useSte : Bool) (qf x : ℚ) :
    (qbitsRD rt c useSte qf (D.var x)).tan = if useSte then 1 else 1 - qf := by
  unfold qbitsRD; rw [C06_steMix_tan]; simp [D.var]

theorem C06_bits_rt_det (t : Tie) (c : BitsCfg) (useSte : Bool) (qf : ℚ) (x : D) :
    qbitsRD (D.roundThrough t) c useSte qf x = qbitsD t c useSte qf x := rfl

theorem C06_bits_stoch_infer (t : Tie) (r : Rnd) (h : r.phase = false) (c : BitsCfg) (useSte : Bool)
    (qf : ℚ) (x : D) : qbitsRD (D.roundThroughS t r) c useSte qf x = qbitsD t c useSte qf x := by
  have : D.roundThroughS t r = D.roundThrough t := funext (C06_roundThroughS_infer t r h)
  rw [this]; rfl

/-! ## the ReLU family for every legal `negative_slope` (2^-k, 1, 2, 4, …) -/

/-- value and derivative of the surrogate transcription = the documented leaky, bounded ReLU -/
theorem C06_leaky_xu (slope : ℚ) (bound : Option ℚ) (x : ℚ) :
    reluPo2Xu slope bound (D.var x) = ⟨leakyBounded slope bound x, leakyBoundedSlope slope bound x⟩ := by
  unfold reluPo2Xu leakyBounded leakyBoundedSlope
  rcases bound with _ | b
  · simp only [D.relu, D.var]
    by_cases hx : 0 < x <;> simp [hx]
  · simp only [D.var]
    by_cases hh : x ≤ b
    · simp only [hh, if_true, D.relu]
      by_cases hx : 0 < x <;> simp [hx]
    · simp [hh, D.const]

/-- quantized_relu, ANY slope: gradient = (1 | 1 − qf) · slope of the leaky bounded ReLU; value mixes the
    surrogate with the quantized tensor -/
theorem C06_relu_general_grad (slope : ℚ) (integer nsb : ℤ) (o : ReluOpts) (useSte : Bool) (qf x : ℚ) (xq : D) :
    (qreluGD slope integer nsb o useSte qf (D.var x) xq).tan
      = (if useSte then 1 else 1 - qf) * leakyBoundedSlope slope (reluBound integer nsb o) x := by
  unfold qreluGD; rw [C06_steMix_tan, C06_leaky_xu]

theorem C06_relu_general_val (slope : ℚ) (integer nsb : ℤ) (o : ReluOpts) (useSte : Bool) (qf x : ℚ) (xq : D) :
    (qreluGD slope integer nsb o useSte qf (D.var x) xq).val
      = leakyBounded slope (reluBound integer nsb o) x
        + qf * (xq.val - leakyBounded slope (reluBound integer nsb o) x) := by
  unfold qreluGD; rw [C06_steMix_val, C06_leaky_xu]

/-- the 2^-k transcription is the instance `slope = c.slope` -/
theorem C06_relu_general_agrees (c : ReluCfg) (o : ReluOpts) (useSte : Bool) (qf : ℚ) (x xq : D) :
    qreluGD c.slope c.integer c.nsb o useSte qf x xq = qreluD c o useSte qf x xq := by
  unfold qreluGD qreluD reluXu reluBound reluPo2Xu
  cases o.isQuantizedClip
  · rcases o.upper with _ | u <;> simp
  · simp

/-- quantized_relu_po2, ANY slope, value clause (the gradient is `C06_relu_po2_grad`) -/
theorem C06_relu_po2_val (slope : ℚ) (mv : Option ℚ) (useSte : Bool) (qf x : ℚ) (xq : D) :
    (qreluPo2D slope mv useSte qf (D.var x) xq).val
      = leakyBounded slope mv x + qf * (xq.val - leakyBounded slope mv x) := by
  unfold qreluPo2D; rw [C06_steMix_val, C06_leaky_xu]

theorem C06_relu_po2_grad' (slope : ℚ) (mv : Option ℚ) (useSte : Bool) (qf x : ℚ) (xq : D) :
    (qreluPo2D slope mv useSte qf (D.var x) xq).tan
      = (if useSte then 1 else 1 - qf) * leakyBoundedSlope slope mv x := by
  unfold qreluPo2D; rw [C06_steMix_tan, C06_leaky_xu]

/-- `tf.maximum(slope·x, x)` is the leaky ReLU (value and gradient, at every input) exactly when
    `slope ≤ 1`: for the legal slopes 2, 4, … it swaps the two sides -/
theorem C06_leaky_max_form_iff (slope : ℚ) :
    (∀ x : ℚ, leakyMaxForm slope (D.var x) = D.relu (D.var x) slope) ↔ slope ≤ 1 := by
  constructor
  · intro h
    by_contra hs
    push Not at hs
    have := h 1
    simp only [leakyMaxForm, D.relu, D.smul, D.var, mul_one] at this
    rw [if_pos hs.le] at this
    simp at this
    linarith
  · intro hs x
    simp only [leakyMaxForm, D.relu, D.smul, D.var, mul_one]
    by_cases hx : 0 < x
    · have : ¬ x ≤ slope * x ∨ slope = 1 := by
        by_cases h1 : slope = 1
        · right; exact h1
        · left; push Not; have : slope < 1 := lt_of_le_of_ne hs h1; nlinarith
      rcases this with h | h
      · simp [h, hx]
      · simp [h, hx]
    · push Not at hx
      have : x ≤ slope * x := by nlinarith
      simp [this, not_lt.mpr hx]

/-- … concretely, for slope 2: at x = 1 the gradient is 2 (expected 1), at x = −1 it is 1 (expected 2) -/
theorem C06_leaky_max_form_counterexample :
    (leakyMaxForm 2 (D.var 1)).tan = 2 ∧ (D.relu (D.var 1) 2).tan = 1 ∧
    (leakyMaxForm 2 (D.var (-1))).tan = 1 ∧ (D.relu (D.var (-1)) 2).tan = 2 := by
  decide +kernel

/-! ## binary(use_stochastic_rounding=True) in the training phase

  `x = f * _round_through(x / f, True, 0.125)` with `f = tf.stop_gradient(2·min(max|x|, 1))` (repaired by
  7f3e140; before, `f` was differentiable and the arg-max element of every scale group received the rounding
  residues of all elements), and `f = 1` for a group of zeros (c0623bb; before, `x / 0` = NaN).  `f` below is
  ANY dual number — whatever value and tangent `2 * m` carries — the model applies the code's stop_gradient and
  fall-back to it. -/

theorem C06_binSRNorm_tan (f : D) : (binSRNorm f).tan = 0 := by
  unfold binSRNorm; split <;> rfl

theorem C06_binSRNorm_pos (f : D) : 0 < (binSRNorm f).val := by
  unfold binSRNorm; split
  · assumption
  · simp [D.const]

theorem C06_binSRNorm_val (f : D) : (binSRNorm f).val = if 0 < f.val then f.val else 1 := by
  unfold binSRNorm; split <;> rfl

/-- FULL theorem (was `C06_binary_sr_train_partial`, which needed `f.tan = 0` and `f.val ≠ 0`): the training
    carrier is straight-through for EVERY element — the arg-max element of a group with `max|x| ≤ 1` and the
    elements of an all-zero group included; no hypothesis is left -/
theorem C06_binary_sr_train_grad (t : Tie) (f : D) (u : ℚ) (x : D) :
    (binSRTrainX t f u x).tan = x.tan := by
  have hp := (C06_binSRNorm_pos f).ne'
  have h0 := C06_binSRNorm_tan f
  unfold binSRTrainX
  simp only [D.mul, D.div, C06_roundThroughS_tan, h0]
  field_simp
  ring

/-- forward value of the training carrier: `g · stochastic_round(x / g, 1/8)`, `g = f` (1 for a group of zeros) -/
theorem C06_binary_sr_train_val (t : Tie) (f : D) (u : ℚ) (x : D) :
    (binSRTrainX t f u x).val
      = (if 0 < f.val then f.val else 1) * D.stochRoundV (1/8) u (x.val / (if 0 < f.val then f.val else 1)) := by
  unfold binSRTrainX
  rw [show (D.mul (binSRNorm f) (D.roundThroughS t (binSRRnd u) (D.div x (binSRNorm f)))).val
        = (binSRNorm f).val * (D.roundThroughS t (binSRRnd u) (D.div x (binSRNorm f))).val from rfl,
      C06_roundThroughS_train_val t (binSRRnd u) rfl rfl, ← C06_binSRNorm_val]
  rfl

/-- neither repair moves the forward value of a group with a non-zero element: un-stopped, stopped and
    stopped-with-fall-back carriers have the same value there -/
theorem C06_binary_sr_unstopped_val (t : Tie) (f : D) (hf : 0 < f.val) (u : ℚ) (x : D) :
    (binSRTrainXUnstopped t f u x).val = (binSRTrainX t f u x).val ∧
    (binSRTrainXNoFallback t f u x).val = (binSRTrainX t f u x).val := by
  have : binSRNorm f = D.sg f := by unfold binSRNorm; rw [if_pos hf]
  unfold binSRTrainX
  rw [this]
  exact ⟨rfl, rfl⟩

/-- what the stop_gradient is for — closed form of the leak of the un-stopped expression: the tangent is
    `x' + f'·(r − x/f)` (`r` the rounded quotient): through `f'` the rounding residue of EVERY element reaches
    the arg-max element -/
theorem C06_binary_sr_unstopped_tan (t : Tie) (f : D) (hf : f.val ≠ 0) (u : ℚ) (x : D) :
    (binSRTrainXUnstopped t f u x).tan
      = x.tan + f.tan * (D.stochRoundV (1/8) u (x.val / f.val) - x.val / f.val) := by
  unfold binSRTrainXUnstopped binSRRnd
  simp only [D.mul, D.div, D.roundThroughS, if_true, D.add, D.sg, D.neg, D.stochRound]
  field_simp
  ring

/-- where `2 * m` is positive and carries no tangent (every element but the arg-max, `max|x| > 1`) the
    pre-repair form coincides with the code -/
theorem C06_binary_sr_unstopped_agrees (t : Tie) (f : D) (hf : 0 < f.val) (h0 : f.tan = 0) (u : ℚ) (x : D) :
    binSRTrainXUnstopped t f u x = binSRTrainX t f u x := by
  have h1 : D.sg f = f := by cases f; simp_all [D.sg]
  have h2 : binSRNorm f = f := by unfold binSRNorm; rw [if_pos hf, h1]
  unfold binSRTrainXUnstopped binSRTrainX
  rw [h2]

/-- what the fall-back is for: without it the carrier of an all-zero group (`2 * m = 0`) has tangent 0 in
    exact arithmetic — for every input tangent, so never the identity — and is `0 * (x / 0)` = NaN in float32 -/
theorem C06_binary_sr_zero_group_no_fallback (t : Tie) (ft u : ℚ) (x : D) :
    (binSRTrainXNoFallback t ⟨0, ft⟩ u x).tan = 0 := by
  unfold binSRTrainXNoFallback
  simp [D.mul, D.div, D.sg, C06_roundThroughS_tan]

/-- binary with a scale (constant, 'auto', 'auto_po2'), flag set, EITHER learning phase, every draw, every
    `2 * m` (any value, any tangent), every quantized tensor: gradient 1 (was `C06_binary_sr_partial` with
    `f.val ≠ 0`, `f.tan = 0`) -/
theorem C06_binary_sr_grad (t : Tie) (phase : Bool) (th th' : ℚ → ℚ) (f : D) (u x : ℚ) (xq : D) :
    (binSRD t phase false th th' f u (D.var x) xq).tan = 1 := by
  unfold binSRD binSRWith
  rw [C06_steMix_tan]
  cases phase
  · simp [D.var]
  · simp only [if_true, Bool.false_eq_true, if_false, one_mul]
    rw [C06_binary_sr_train_grad t f]; rfl

/-- … and its forward value is the quantized tensor -/
theorem C06_binary_sr_val (t : Tie) (phase alphaNone : Bool) (th th' : ℚ → ℚ) (f : D) (u : ℚ) (x xq : D) :
    (binSRD t phase alphaNone th th' f u x xq).val = xq.val := by
  unfold binSRD binSRWith
  rw [C06_steMix_val]; ring

/-- unscaled binary (alpha=None) with the flag: the gradient is `tanh'` AT THE CARRIER — the input itself in
    phase 0, the stochastically rounded input `g·stochastic_round(x/g, 1/8)` in training (recorded finding
    C06-binary-sr-train-tanh-at-rounded: not `tanh'(x)`); nothing else enters (no leak through `f`) -/
theorem C06_binary_sr_tanh_grad (t : Tie) (phase : Bool) (th th' : ℚ → ℚ) (f : D) (u x : ℚ) (xq : D) :
    (binSRD t phase true th th' f u (D.var x) xq).tan
      = th' (if phase then (if 0 < f.val then f.val else 1)
                * D.stochRoundV (1/8) u (x / (if 0 < f.val then f.val else 1)) else x) := by
  unfold binSRD binSRWith
  rw [C06_steMix_tan]
  cases phase
  · simp [D.var, D.fn]
  · simp only [if_true, one_mul, D.fn]
    rw [C06_binary_sr_train_grad t f, C06_binary_sr_train_val]
    simp [D.var]

/-- an all-zero group in training: the carrier is 0 with tangent 1, so `tanh'(0)` for alpha=None — the
    documented surrogate exactly -/
theorem C06_binary_sr_zero_group (t : Tie) (ft u : ℚ) :
    binSRTrainX t ⟨0, ft⟩ u (D.var 0) = ⟨0, 1⟩ := by
  have hv := C06_binary_sr_train_val t ⟨0, ft⟩ u (D.var 0)
  have ht := C06_binary_sr_train_grad t ⟨0, ft⟩ u (D.var 0)
  have h0 : D.stochRoundV (1 / 8) u 0 = 0 := by
    have hfl : Rat.floor 0 = 0 := by decide +kernel
    unfold D.stochRoundV D.ceilv; simp [hfl]
  simp only [lt_self_iff_false, if_false, D.var, div_one, h0, mul_zero] at hv ht
  cases h : binSRTrainX t ⟨0, ft⟩ u (D.var 0) with
  | mk v tn => simp_all [D.var]

/-- learning phase 0: exactly `binTerD` (the flag changes nothing in the gradient path) -/
theorem C06_binary_sr_infer (t : Tie) (alphaNone : Bool) (th th' : ℚ → ℚ) (f : D) (u : ℚ) (x xq : D) :
    binSRD t false alphaNone th th' f u x xq = binTerD alphaNone th th' x xq := by
  unfold binSRD binSRWith binTerD; simp

/-- REGRESSION WITNESS of 7f3e140 (the former counterexample, known finding C06-binary-sr-train-leak): an
    element x_j = 5/16 (tangent 0 w.r.t. the arg-max element), 2·m = 1 with tangent 2 (max|x| = 1/2 at a
    positive arg-max), draw 0.  The output y_j = 3/8 no longer depends on the arg-max element (derivative 0,
    as for the identity surrogate); the un-stopped expression gave 1/8 -/
theorem C06_binary_sr_train_fixed_witness :
    (binSRD .even true false (fun _ => 0) (fun _ => 0) ⟨1, 2⟩ 0 ⟨5 / 16, 0⟩ (D.const 1)).tan = 0 ∧
    (binSRUnstoppedD .even true false (fun _ => 0) (fun _ => 0) ⟨1, 2⟩ 0 ⟨5 / 16, 0⟩ (D.const 1)).tan = 1 / 8 ∧
    (binSRTrainX .even ⟨1, 2⟩ 0 ⟨5 / 16, 0⟩).val = 3 / 8 := by
  decide +kernel

/-- … and the arg-max element itself (x_i = 1/2, tangent 1, 2·m = 1 with tangent 2): gradient 1; the un-stopped
    expression is straight-through there only because 1/2 / 1 is already a multiple of 1/8 -/
theorem C06_binary_sr_train_fixed_witness_argmax :
    (binSRD .even true false (fun _ => 0) (fun _ => 0) ⟨1, 2⟩ 0 (D.var (1 / 2)) (D.const 1)).tan = 1 := by
  decide +kernel

/-- REGRESSION WITNESS of c0623bb: binary(alpha=1.0, use_stochastic_rounding=True)(zeros) in training —
    value = the quantized tensor, gradient 1 (the real code returned NaN for both) -/
theorem C06_binary_sr_zero_group_fixed_witness :
    binSRD .even true false (fun _ => 0) (fun _ => 0) ⟨0, 0⟩ (1 / 2) (D.var 0) (D.const 1) = ⟨1, 1⟩ ∧
    (binSRTrainXNoFallback .even ⟨0, 0⟩ (1 / 2) (D.var 0)).tan = 0 := by
  decide +kernel

/-- COUNTEREXAMPLE (known finding C06-binary-sr-train-tanh-at-rounded, kept): alpha=None, training, x = 5/16,
    f = 1, draw 0 → the carrier is 3/8 and the gradient is `tanh'(3/8)`, for EVERY derivative function — the
    documented surrogate has `tanh'(5/16)` -/
theorem C06_binary_sr_train_tanh_at_rounded_counterexample (th th' : ℚ → ℚ) (ft : ℚ) (xq : D) :
    (binSRD .even true true th th' ⟨1, ft⟩ 0 (D.var (5 / 16)) xq).tan = th' (3 / 8) := by
  rw [C06_binary_sr_tanh_grad]
  have : D.stochRoundV (1 / 8) 0 (5 / 16 / 1) = 3 / 8 := by decide +kernel
  simp only [if_true, zero_lt_one, this, one_mul]

/-! ## non-vacuity of the new statements -/

-- quantized_linear(4, 0, 1), stochastic rounding, training phase, x = 5/16 (x/qs = 2.5), draw 3/4:
-- fraction 1/2 < 3/4 -> floor -> 2/8, gradient 1; draw 1/4 -> ceil -> 3/8, gradient 1
example : (qlinearRD (D.roundThroughS .even { stoch := true, phase := true, u := 3 / 4 })
    { bits := 4, integer := 0, symmetric := true, keepNeg := true, alpha := none } ⟨1 / 8, 0⟩ 1 (D.var (5 / 16)))
    = ⟨1 / 4, 1⟩ := by decide +kernel
example : (qlinearRD (D.roundThroughS .even { stoch := true, phase := true, u := 1 / 4 })
    { bits := 4, integer := 0, symmetric := true, keepNeg := true, alpha := none } ⟨1 / 8, 0⟩ 1 (D.var (5 / 16)))
    = ⟨3 / 8, 1⟩ := by decide +kernel
-- the same input with the residual dropped: value 1/4 (tie to even), gradient 0
example : (qlinearRD (D.round .even)
    { bits := 4, integer := 0, symmetric := true, keepNeg := true, alpha := none } ⟨1 / 8, 0⟩ 1 (D.var (5 / 16)))
    = ⟨1 / 4, 0⟩ := by decide +kernel
-- quantized_relu_po2(negative_slope=4): surrogate 4x for x < 0 with slope 4
example : reluPo2Xu 4 none (D.var (-1 / 2)) = ⟨-2, 4⟩ := by decide +kernel
example : StraightThrough (D.roundThroughS .even { stoch := true, phase := true, u := 1 / 2 }) :=
  C06_roundThroughS_straight _ _

/-! ## one object over a history (strengthening round, seed C06-7)

  `HObj` (Model/Grad): an object IS its current attributes; a history is any list of attribute updates
  (assignments, setters, `_set_trainable_parameter()` — arbitrary functions of the attributes) and calls.
  Because every transcribed `__call__` reads its options from `self` at call time, the k-th call emits the
  (value, gradient) of a FRESH object constructed with the attributes now in force — for every class of
  this file at once (the statement is generic in the attribute type and in the transcription `f`).  The
  mutated object `HFrozen` (options captured at construction) agrees exactly as long as no update changes
  what `f` reads, which is why fresh objects called once cannot tell the two apart. -/

/-- attributes after a history = the updates applied in order (calls change none) -/
theorem C06_history_attrs {A I : Type} (f : A → I → D) (ops : List (HOp A I)) (o : HObj A) :
    (HObj.run f o ops).attrs = ops.foldl HOp.apply o.attrs := by
  induction ops generalizing o with
  | nil => rfl
  | cons op ops ih =>
    simp only [HObj.run, List.foldl_cons] at ih ⊢
    rw [ih]
    cases op <;> rfl

/-- the k-th use is a first use: after ANY history, a call emits exactly what a freshly constructed twin
    with the attributes now in force emits on that input -/
theorem C06_history_call_as_fresh {A I : Type} (f : A → I → D) (ops : List (HOp A I)) (o : HObj A) (i : I) :
    (HObj.run f o (ops ++ [.call i])).outs
      = (HObj.run f o ops).outs ++ (HObj.run f (HObj.new (ops.foldl HOp.apply o.attrs)) [.call i]).outs := by
  have h := C06_history_attrs f ops o
  simp only [HObj.run, List.foldl_append, List.foldl_cons, List.foldl_nil, HObj.step, HObj.new,
    List.nil_append] at h ⊢
  rw [h]

/-- earlier outputs are never rewritten by later operations -/
theorem C06_history_outs_prefix {A I : Type} (f : A → I → D) (ops : List (HOp A I)) (o : HObj A) :
    ∃ l, (HObj.run f o ops).outs = o.outs ++ l := by
  induction ops generalizing o with
  | nil => exact ⟨[], by simp [HObj.run]⟩
  | cons op ops ih =>
    obtain ⟨l, hl⟩ := ih (HObj.step f o op)
    cases op with
    | set g => exact ⟨l, by simpa [HObj.run, HObj.step] using hl⟩
    | call i => exact ⟨f o.attrs i :: l, by simpa [HObj.run, HObj.step] using hl⟩

/-- binary / ternary / stochastic_* (inference route) after ANY history — attribute assignments,
    `_set_trainable_parameter()`, earlier calls on any tensors: the gradient of the next call is that of the
    surrogate of the CURRENT alpha (tanh' iff it is None now, identity otherwise) and the value is the
    quantized tensor -/
theorem C06_binter_history_grad (th th' : ℚ → ℚ) (ops : List (HOp BTAlpha BTIn)) (a0 : BTAlpha) (x : ℚ) (xq : D) :
    let now := ops.foldl HOp.apply a0
    (HObj.run (btCall th th') (HObj.new a0) (ops ++ [.call ⟨D.var x, xq⟩])).outs.getLast?
      = some (binTerD now.isNone th th' (D.var x) xq) ∧
    (binTerD now.isNone th th' (D.var x) xq).tan = (if now.isNone then th' x else 1) ∧
    (binTerD now.isNone th th' (D.var x) xq).val = xq.val := by
  intro now
  refine ⟨?_, C06_binter_grad _ th th' x xq, C06_binter_val _ th th' x xq⟩
  rw [C06_history_call_as_fresh]
  simp [HObj.run, HObj.step, HObj.new, btCall, now]

/-- what every layer does to `ternary()` / `binary()`: constructed with alpha None, then
    `_set_trainable_parameter()` — identity gradient, as for a fresh `alpha='auto_po2'` object -/
theorem C06_binter_set_trainable_grad (th th' : ℚ → ℚ) (x : ℚ) (xq : D) :
    (HObj.run (btCall th th') (HObj.new BTAlpha.none)
        [.set BTAlpha.setTrainable, .call ⟨D.var x, xq⟩]).outs
      = [binTerD false th th' (D.var x) xq] ∧
    (binTerD false th th' (D.var x) xq).tan = 1 ∧
    (HObj.run (btCall th th') (HObj.new BTAlpha.autoPo2) [.call ⟨D.var x, xq⟩]).outs
      = [binTerD false th th' (D.var x) xq] := by
  refine ⟨rfl, ?_, rfl⟩
  simpa using C06_binter_grad false th th' x xq

/-- the reverse: a constant alpha reset to None — tanh' -/
theorem C06_binter_reset_none_grad (th th' : ℚ → ℚ) (c x : ℚ) (xq : D) :
    (HObj.run (btCall th th') (HObj.new (BTAlpha.const c))
        [.set (fun _ => BTAlpha.none), .call ⟨D.var x, xq⟩]).outs
      = [binTerD true th th' (D.var x) xq] ∧
    (binTerD true th th' (D.var x) xq).tan = th' x := by
  refine ⟨rfl, ?_⟩
  simpa using C06_binter_grad true th th' x xq

/-- `_set_trainable_parameter()` is idempotent and leaves every scaled alpha alone -/
theorem C06_setTrainable_idem (a : BTAlpha) :
    a.setTrainable.setTrainable = a.setTrainable ∧ a.setTrainable.isNone = false ∧
      (a.isNone = false → a.setTrainable = a) := by
  cases a <;> simp [BTAlpha.setTrainable, BTAlpha.isNone]

/-- the straight-through classes (quantized_bits / po2 / relu / relu_po2) after ANY history of `use_ste` /
    `qnoise_factor` re-assignments: gradient `(1 | 1 − qf) · x_u'` and value `x_u + qf (xq − x_u)` for the
    use_ste / qnoise_factor NOW in force -/
theorem C06_ste_history_grad (ops : List (HOp SteAttrs SteIn)) (a0 : SteAttrs) (xu xq : D) :
    let now := ops.foldl HOp.apply a0
    (HObj.run steCall (HObj.new a0) (ops ++ [.call ⟨xu, xq⟩])).outs.getLast?
      = some (steMix now.useSte now.qf xu xq) ∧
    (steMix now.useSte now.qf xu xq).tan = (if now.useSte then 1 else 1 - now.qf) * xu.tan ∧
    (steMix now.useSte now.qf xu xq).val = xu.val + now.qf * (xq.val - xu.val) := by
  intro now
  refine ⟨?_, C06_steMix_tan _ _ xu xq, C06_steMix_val _ _ xu xq⟩
  rw [C06_history_call_as_fresh]
  simp [HObj.run, HObj.step, HObj.new, steCall, now]

/-- the mutated object (the option `__call__` uses captured at construction): every call of every history
    uses the attributes of CONSTRUCTION time -/
theorem C06_frozen_history {A I : Type} (f : A → I → D) (ops : List (HOp A I)) (o : HFrozen A) (i : I) :
    (HFrozen.run f o ops).captured = o.captured ∧
    (HFrozen.run f o (ops ++ [.call i])).outs = (HFrozen.run f o ops).outs ++ [f o.captured i] := by
  have hc : ∀ (ops : List (HOp A I)) (o : HFrozen A), (HFrozen.run f o ops).captured = o.captured := by
    intro ops
    induction ops with
    | nil => intro o; rfl
    | cons op ops ih =>
      intro o
      simp only [HFrozen.run, List.foldl_cons] at ih ⊢
      rw [ih]
      cases op <;> rfl
  refine ⟨hc ops o, ?_⟩
  have := hc ops o
  simp only [HFrozen.run, List.foldl_append, List.foldl_cons, List.foldl_nil, HFrozen.step] at this ⊢
  rw [this]

/-- … hence a fresh mutated object called once (no update in between) is indistinguishable from the real one:
    the check needs histories that CHANGE the attribute -/
theorem C06_frozen_agrees_fresh {A I : Type} (f : A → I → D) (a : A) (i : I) :
    (HFrozen.run f (HFrozen.new a) [.call i]).outs = (HObj.run f (HObj.new a) [.call i]).outs := rfl

/-- COUNTEREXAMPLE for the mutated object (seed C06-7): `ternary()`, then `_set_trainable_parameter()`, then a
    call: it keeps `th' x` where the real object — and a fresh `alpha='auto_po2'` twin — has 1; they differ at
    every point where `tanh' x ≠ 1`, i.e. everywhere but 0, although the forward values are equal -/
theorem C06_binter_frozen_counterexample (th th' : ℚ → ℚ) (x : ℚ) (xq : D) (h : th' x ≠ 1) :
    let ops : List (HOp BTAlpha BTIn) := [.set BTAlpha.setTrainable, .call ⟨D.var x, xq⟩]
    let bad := (HFrozen.run (btCall th th') (HFrozen.new BTAlpha.none) ops).outs
    let good := (HObj.run (btCall th th') (HObj.new BTAlpha.none) ops).outs
    bad = [binTerD true th th' (D.var x) xq] ∧ good = [binTerD false th th' (D.var x) xq] ∧
      (binTerD true th th' (D.var x) xq).tan ≠ (binTerD false th th' (D.var x) xq).tan ∧
      (binTerD true th th' (D.var x) xq).val = (binTerD false th th' (D.var x) xq).val := by
  refine ⟨rfl, rfl, ?_, ?_⟩
  · rw [C06_binter_grad, C06_binter_grad]; simpa using h
  · rw [C06_binter_val, C06_binter_val]

-- non-vacuity: a history with an earlier call, the layer hook, a reset and another hook
example : ((HObj.run (btCall (fun _ => 1 / 2) (fun _ => 3 / 4)) (HObj.new BTAlpha.none)
    [.call ⟨D.var 1, D.const 1⟩, .set BTAlpha.setTrainable, .call ⟨D.var 1, D.const 2⟩,
     .set (fun _ => BTAlpha.none), .call ⟨D.var 1, D.const 1⟩]).outs.map (·.tan)) = [3 / 4, 1, 3 / 4] := by
  decide +kernel
example : ((HFrozen.run (btCall (fun _ => 1 / 2) (fun _ => 3 / 4)) (HFrozen.new BTAlpha.none)
    [.call ⟨D.var 1, D.const 1⟩, .set BTAlpha.setTrainable, .call ⟨D.var 1, D.const 2⟩]).outs.map (·.tan))
    = [3 / 4, 3 / 4] := by decide +kernel

end QKV.Props.C06
