/-
  C02 — fixed-point quantization is the nearest-code projection (round, clip, monotone).

  Property (verbatim): Inside the representable range the output is a representable code nearest
  to the quantizer's underlying activation of the input (the input itself for linear formats,
  otherwise its ReLU, leaky ReLU, tanh or sigmoid surrogate) with absolute error at most half a
  step and ties allowed either way; outside the range it is the nearest end code, and the map is
  monotone non-decreasing in its input. For the linear and plain-ReLU formats with a
  data-independent scale, re-quantizing an already quantized tensor returns it unchanged.

  Same model as C01 (QKV.Model.FixedQ).  For the legacy `quantized_bits` a constant `alpha`
  multiplies the OUTPUT only (`alpha · code · step` of the unscaled input): that is what the
  code does and the statements below say so explicitly.  All statements hold for every tie rule.
-/
import QKV.Lemmas.FixedQ
import QKV.Lemmas.FixedQObj
import QKV.Lemmas.F32
namespace QKV.Props.C02
open QKV

/-! ## quantized_bits -/

/-- in range: the (unscaled) output is within half a step of the input -/
theorem C02_bits_nearest (t : Tie) (c : BitsCfg) (h : 0 < c.ub) (hg : c.gain = 1) (x : ℚ)
    (h1 : (c.lo : ℚ) * c.step ≤ x) (h2 : x ≤ (c.hi : ℚ) * c.step) :
    |qbits t c x - x| ≤ c.step / 2 := by
  rw [qbits_eq_sq t c h, hg]; exact sq_nearest t c.step_pos h1 h2

/-- … and no other code of the format is strictly closer -/
theorem C02_bits_is_code_nearest (t : Tie) (c : BitsCfg) (h : 0 < c.ub) (hg : c.gain = 1) (x : ℚ)
    (h1 : (c.lo : ℚ) * c.step ≤ x) (h2 : x ≤ (c.hi : ℚ) * c.step) (k : ℤ) :
    |qbits t c x - x| ≤ |(k : ℚ) * c.step - x| := by
  rw [qbits_eq_sq t c h, hg]; exact sq_code_nearest t c.step_pos h1 h2 k

/-- with a constant scale: `alpha ·` (nearest code of the unscaled input) -/
theorem C02_bits_nearest_scaled (t : Tie) (c : BitsCfg) (h : 0 < c.ub) (x : ℚ)
    (h1 : (c.lo : ℚ) * c.step ≤ x) (h2 : x ≤ (c.hi : ℚ) * c.step) :
    |qbits t c x - c.gain * x| ≤ |c.gain| * (c.step / 2) := by
  rw [qbits_eq_sq t c h]
  have := sq_nearest t c.step_pos h1 h2
  unfold sq at this ⊢
  have e : c.gain * ((rc t (x / c.step) c.lo c.hi : ℤ) : ℚ) * c.step - c.gain * x
      = c.gain * (1 * ((rc t (x / c.step) c.lo c.hi : ℤ) : ℚ) * c.step - x) := by ring
  rw [e, abs_mul]
  exact mul_le_mul_of_nonneg_left this (abs_nonneg _)

theorem C02_bits_saturate_hi (t : Tie) (c : BitsCfg) (h : 0 < c.ub) (x : ℚ)
    (h2 : (c.hi : ℚ) * c.step ≤ x) : qbits t c x = c.gain * (c.hi : ℚ) * c.step := by
  rw [qbits_eq_sq t c h]; exact sq_sat_hi t c.step_pos _ c.lo_le_hi h2

theorem C02_bits_saturate_lo (t : Tie) (c : BitsCfg) (h : 0 < c.ub) (x : ℚ)
    (h1 : x ≤ (c.lo : ℚ) * c.step) : qbits t c x = c.gain * (c.lo : ℚ) * c.step := by
  rw [qbits_eq_sq t c h]; exact sq_sat_lo t c.step_pos _ c.lo_le_hi h1

/-- monotone non-decreasing for every non-negative constant scale, one-bit case included -/
theorem C02_bits_mono (t : Tie) (c : BitsCfg) (hg : 0 ≤ c.gain) {x y : ℚ} (hxy : x ≤ y) :
    qbits t c x ≤ qbits t c y := by
  by_cases h : 0 < c.ub
  · rw [qbits_eq_sq t c h, qbits_eq_sq t c h]; exact sq_mono t c.step_pos _ _ hg hxy
  · unfold qbits signPM
    simp only [if_neg h]
    have hs : (if x < 0 then (-1 : ℚ) else 1) ≤ (if y < 0 then (-1 : ℚ) else 1) := by
      split <;> split <;> first | (exfalso; linarith) | norm_num
    split
    · exact mul_le_mul_of_nonneg_left hs hg
    · exact mul_le_mul_of_nonneg_left (by linarith) hg

/-- idempotent without scale (alpha None or 1) -/
theorem C02_bits_idem (t : Tie) (c : BitsCfg) (h : 0 < c.ub) (hg : c.gain = 1) (x : ℚ) :
    qbits t c (qbits t c x) = qbits t c x := by
  simp only [qbits_eq_sq t c h, hg]; exact sq_idem t c.step_pos c.lo_le_hi x

/-- COUNTEREXAMPLE (known finding C02-bits-alpha-idem): with a constant `alpha ≠ 1` the legacy
    quantizer is not a projection: `quantized_bits(4,0,alpha=2)`: q(0.3) = 0.5, q(0.5) = 1. -/
theorem C02_bits_idem_counterexample :
    let c : BitsCfg := { bits := 4, integer := 0, symmetric := false, keepNeg := true, alpha := some 2 }
    qbits .even c (3 / 10) = 1 / 2 ∧ qbits .even c (1 / 2) = 1 := by
  constructor <;> decide +kernel

/-! ## quantized_relu -/

private theorem relu_le_hi_step (c : ReluCfg) : (0 : ℚ) ≤ (c.hi : ℚ) * c.step := by
  have : (0 : ℚ) ≤ (c.hi : ℚ) := by exact_mod_cast c.zero_le_hi
  have := c.step_pos; positivity

/-- plain ReLU format: inside `[0, hi·step]` within half a step of `relu(x) = x` -/
theorem C02_relu_nearest (t : Tie) (c : ReluCfg) (h : c.slopeLog = none) (x : ℚ)
    (h1 : 0 ≤ x) (h2 : x ≤ (c.hi : ℚ) * c.step) : |qrelu t c x - x| ≤ c.step / 2 := by
  rw [qrelu_plain_eq_sq t c h]; exact sq_nearest t c.step_pos (by simpa using h1) h2

theorem C02_relu_negative_to_zero (t : Tie) (c : ReluCfg) (h : c.slopeLog = none) (x : ℚ)
    (h1 : x ≤ 0) : qrelu t c x = 0 := by
  rw [qrelu_plain_eq_sq t c h, sq_sat_lo t c.step_pos 1 c.zero_le_hi (by simpa using h1)]; simp

theorem C02_relu_saturate_hi (t : Tie) (c : ReluCfg) (h : c.slopeLog = none) (x : ℚ)
    (h2 : (c.hi : ℚ) * c.step ≤ x) : qrelu t c x = (c.hi : ℚ) * c.step := by
  rw [qrelu_plain_eq_sq t c h, sq_sat_hi t c.step_pos 1 c.zero_le_hi h2]; ring

theorem C02_relu_mono (t : Tie) (c : ReluCfg) (h : c.slopeLog = none) {x y : ℚ} (hxy : x ≤ y) :
    qrelu t c x ≤ qrelu t c y := by
  rw [qrelu_plain_eq_sq t c h, qrelu_plain_eq_sq t c h]
  exact sq_mono t c.step_pos _ _ zero_le_one hxy

theorem C02_relu_idem (t : Tie) (c : ReluCfg) (h : c.slopeLog = none) (x : ℚ) :
    qrelu t c (qrelu t c x) = qrelu t c x := by
  simp only [qrelu_plain_eq_sq t c h]; exact sq_idem t c.step_pos c.zero_le_hi x

/-- leaky ReLU is monotone as well (both the positive and the leaky term are) -/
theorem C02_relu_leaky_mono (t : Tie) (c : ReluCfg) (s : ℕ) (h : c.slopeLog = some s)
    {x y : ℚ} (hxy : x ≤ y) : qrelu t c x ≤ qrelu t c y := by
  have hsp := c.step_pos
  have hslope : c.slope = pow2 (-(s : ℤ)) := by simp [ReluCfg.slope, h]
  have hslp : 0 < c.slope := by rw [hslope]; exact pow2_pos _
  have hm : (0 : ℚ) < (twoPow c.nsb : ℚ) := by rw [twoPow_eq_tp]; exact_mod_cast tp_pos _
  have hsm : 0 < c.slope * (twoPow c.nsb : ℚ) := mul_pos hslp hm
  have hpi := pow2_pos c.integer
  unfold qrelu
  simp only [h]
  have hp : x / c.step ≤ y / c.step := div_le_div_of_nonneg_right hxy hsp.le
  have h1 : ((rc t (x / c.step) 0 c.hi : ℤ) : ℚ) ≤ ((rc t (y / c.step) 0 c.hi : ℤ) : ℚ) := by
    exact_mod_cast rc_mono t 0 c.hi hp
  have h2 : ((roundTie t (x / c.step * c.slope) : ℤ) : ℚ) ≤ ((roundTie t (y / c.step * c.slope) : ℤ) : ℚ) := by
    exact_mod_cast roundTie_mono t (mul_le_mul_of_nonneg_right hp hslp.le)
  have h3 := div_le_div_of_nonneg_right h2 hsm.le
  set rx := ((roundTie t (x / c.step * c.slope) : ℤ) : ℚ) / (c.slope * (twoPow c.nsb : ℚ))
  set ry := ((roundTie t (y / c.step * c.slope) : ℤ) : ℚ) / (c.slope * (twoPow c.nsb : ℚ))
  have hcl : (if rx < -1 then (-1 : ℚ) else if 0 < rx then 0 else rx)
      ≤ (if ry < -1 then (-1 : ℚ) else if 0 < ry then 0 else ry) := by
    split <;> split <;> (try split) <;> (try split) <;> linarith
  have hk : 0 ≤ pow2 c.integer * c.slope := by positivity
  have := mul_le_mul_of_nonneg_left hcl hk
  nlinarith

/-! ## quantized_linear — every constant positive scale -/

theorem C02_linear_nearest (t : Tie) (c : LinCfg) (h : c.signFn = false) (hq : 0 < c.qs) (x : ℚ)
    (h1 : (c.lo : ℚ) * c.qs ≤ x) (h2 : x ≤ (c.hi : ℚ) * c.qs) :
    |qlinear t c x - x| ≤ c.qs / 2 := by
  rw [qlinear_eq_sq t c h]
  have := sq_nearest t hq h1 h2
  unfold sq at this; simpa using this

theorem C02_linear_is_code_nearest (t : Tie) (c : LinCfg) (h : c.signFn = false) (hq : 0 < c.qs)
    (x : ℚ) (h1 : (c.lo : ℚ) * c.qs ≤ x) (h2 : x ≤ (c.hi : ℚ) * c.qs) (k : ℤ) :
    |qlinear t c x - x| ≤ |(k : ℚ) * c.qs - x| := by
  rw [qlinear_eq_sq t c h]
  have := sq_code_nearest t hq h1 h2 k
  unfold sq at this; simpa using this

theorem C02_linear_saturate_hi (t : Tie) (c : LinCfg) (h : c.signFn = false) (hq : 0 < c.qs) (x : ℚ)
    (h2 : (c.hi : ℚ) * c.qs ≤ x) : qlinear t c x = (c.hi : ℚ) * c.qs := by
  rw [qlinear_eq_sq t c h, rc_sat_hi t c.lo_le_hi (by rw [le_div_iff₀ hq]; exact h2)]

theorem C02_linear_saturate_lo (t : Tie) (c : LinCfg) (h : c.signFn = false) (hq : 0 < c.qs) (x : ℚ)
    (h1 : x ≤ (c.lo : ℚ) * c.qs) : qlinear t c x = (c.lo : ℚ) * c.qs := by
  rw [qlinear_eq_sq t c h, rc_sat_lo t c.lo_le_hi (by rw [div_le_iff₀ hq]; exact h1)]

theorem C02_linear_mono (t : Tie) (c : LinCfg) (h : c.signFn = false) (hq : 0 < c.qs) {x y : ℚ}
    (hxy : x ≤ y) : qlinear t c x ≤ qlinear t c y := by
  rw [qlinear_eq_sq t c h, qlinear_eq_sq t c h]
  have : ((rc t (x / c.qs) c.lo c.hi : ℤ) : ℚ) ≤ ((rc t (y / c.qs) c.lo c.hi : ℤ) : ℚ) := by
    exact_mod_cast rc_mono t c.lo c.hi (div_le_div_of_nonneg_right hxy hq.le)
  nlinarith

/-- idempotent for EVERY constant scale (the updated quantizer divides by the scale first) -/
theorem C02_linear_idem (t : Tie) (c : LinCfg) (h : c.signFn = false) (hq : 0 < c.qs) (x : ℚ) :
    qlinear t c (qlinear t c x) = qlinear t c x := by
  obtain ⟨h1, h2⟩ := rc_bounds t (x / c.qs) c.lo_le_hi
  rw [qlinear_eq_sq t c h, qlinear_eq_sq t c h]
  have : ((rc t (x / c.qs) c.lo c.hi : ℤ) : ℚ) * c.qs / c.qs = ((rc t (x / c.qs) c.lo c.hi : ℤ) : ℚ) := by
    field_simp
  rw [this, rc_int t h1 h2]

/-! ## quantized_tanh / quantized_sigmoid — nearest code of the surrogate value, for every `p` -/

theorem C02_tanh_nearest (t : Tie) (bits : ℤ) (sym : Bool) (p : ℚ)
    (h1 : -1 + (if sym then 1 else 0) / (tp (bits - 1) : ℚ) ≤ p) (h2 : p ≤ 1 - 1 / (tp (bits - 1) : ℚ)) :
    |qtanhP t bits sym p - p| ≤ 1 / (2 * (tp (bits - 1) : ℚ)) := by
  have hm : (0 : ℚ) < (tp (bits - 1) : ℚ) := by exact_mod_cast tp_pos _
  unfold qtanhP
  simp only [twoPow_eq_tp]
  have e := rc_err t (p := p * (tp (bits - 1) : ℚ)) (lo := -tp (bits - 1) + (if sym then 1 else 0))
    (hi := tp (bits - 1) - 1)
    (by
      have := mul_le_mul_of_nonneg_right h1 hm.le
      have e2 : (-1 + (if sym then 1 else 0) / (tp (bits - 1) : ℚ)) * (tp (bits - 1) : ℚ)
          = -(tp (bits - 1) : ℚ) + (if sym then 1 else 0) := by field_simp
      rw [e2] at this
      push_cast; split <;> simp_all)
    (by
      have := mul_le_mul_of_nonneg_right h2 hm.le
      have e2 : (1 - 1 / (tp (bits - 1) : ℚ)) * (tp (bits - 1) : ℚ) = (tp (bits - 1) : ℚ) - 1 := by
        field_simp
      rw [e2] at this
      push_cast; exact this)
  set r := ((rc t (p * (tp (bits - 1) : ℚ)) (-tp (bits - 1) + (if sym then 1 else 0))
    (tp (bits - 1) - 1) : ℤ) : ℚ)
  have : r / (tp (bits - 1) : ℚ) - p = (r - p * (tp (bits - 1) : ℚ)) / (tp (bits - 1) : ℚ) := by
    field_simp
  rw [this, abs_div, abs_of_pos hm, div_le_iff₀ hm]
  have : 1 / (2 * (tp (bits - 1) : ℚ)) * (tp (bits - 1) : ℚ) = 1 / 2 := by field_simp
  rw [this]; exact e

theorem C02_tanh_mono (t : Tie) (bits : ℤ) (sym : Bool) {p p' : ℚ} (h : p ≤ p') :
    qtanhP t bits sym p ≤ qtanhP t bits sym p' := by
  have hm : (0 : ℚ) < (tp (bits - 1) : ℚ) := by exact_mod_cast tp_pos _
  unfold qtanhP
  simp only [twoPow_eq_tp]
  apply div_le_div_of_nonneg_right _ hm.le
  exact_mod_cast rc_mono t _ _ (mul_le_mul_of_nonneg_right h hm.le)

theorem C02_sigmoid_mono (t : Tie) (bits : ℤ) (sym : Bool) {p p' : ℚ} (h : p ≤ p') :
    qsigmoidP t bits sym p ≤ qsigmoidP t bits sym p' := by
  have hm : (0 : ℚ) < (tp bits : ℚ) := by exact_mod_cast tp_pos _
  unfold qsigmoidP
  simp only [twoPow_eq_tp]
  apply div_le_div_of_nonneg_right _ hm.le
  exact_mod_cast rc_mono t _ _ (mul_le_mul_of_nonneg_right h hm.le)

theorem C02_sigmoid_nearest (t : Tie) (bits : ℤ) (sym : Bool) (p : ℚ)
    (h1 : (if sym then 1 else 0) / (tp bits : ℚ) ≤ p) (h2 : p ≤ 1 - 1 / (tp bits : ℚ)) :
    |qsigmoidP t bits sym p - p| ≤ 1 / (2 * (tp bits : ℚ)) := by
  have hm : (0 : ℚ) < (tp bits : ℚ) := by exact_mod_cast tp_pos _
  unfold qsigmoidP
  simp only [twoPow_eq_tp]
  have e := rc_err t (p := p * (tp bits : ℚ)) (lo := (if sym then 1 else 0)) (hi := tp bits - 1)
    (by
      have := mul_le_mul_of_nonneg_right h1 hm.le
      have e2 : ((if sym then 1 else 0) / (tp bits : ℚ)) * (tp bits : ℚ) = (if sym then 1 else 0) := by
        field_simp
      rw [e2] at this
      split <;> simp_all)
    (by
      have := mul_le_mul_of_nonneg_right h2 hm.le
      have e2 : (1 - 1 / (tp bits : ℚ)) * (tp bits : ℚ) = (tp bits : ℚ) - 1 := by field_simp
      rw [e2] at this
      push_cast; exact this)
  set r := ((rc t (p * (tp bits : ℚ)) (if sym then 1 else 0) (tp bits - 1) : ℤ) : ℚ)
  have : r / (tp bits : ℚ) - p = (r - p * (tp bits : ℚ)) / (tp bits : ℚ) := by field_simp
  rw [this, abs_div, abs_of_pos hm, div_le_iff₀ hm]
  have : 1 / (2 * (tp bits : ℚ)) * (tp bits : ℚ) = 1 / 2 := by field_simp
  rw [this]; exact e

/-- the exact hard-sigmoid surrogate is monotone, hence so is the whole quantizer in `x` -/
theorem C02_hardSigmoid_mono {x y : ℚ} (h : x ≤ y) : hardSigmoid x ≤ hardSigmoid y := by
  unfold hardSigmoid
  simp only
  split <;> split <;> (try split) <;> (try split) <;> linarith

/-! ## the float32 hard-sigmoid surrogate: the one inexact step of the default tanh / sigmoid path

`hard_sigmoid` computes `0.5 * x + 0.5` in float32 and clips it to `[0, 1]`.  The product by 0.5 is
exact; the sum is rounded once (`rnd32`, IEEE round-to-nearest-even on exact rationals, `Model/F32`).
The rounding error is at most half a unit in the last place, which on `[0, 1)` is `2^-25`: so the
float32 surrogate differs from the exact one by at most `2^-25`, and the quantized output is within
`step/2 + 2^-25` of the exact surrogate — "ties may go either way", nothing more. -/

/-- IEEE round-to-nearest: the error of one rounding is at most half an ulp of the argument's binade -/
theorem C02_rnd32_err (q : ℚ) : |rnd32 q - q| ≤ pow2 (ulpExp q) / 2 := by
  have hu := pow2_pos (ulpExp q)
  unfold rnd32
  split
  · rename_i h0
    subst h0
    simp only [sub_zero, abs_zero]
    exact (div_pos hu (by norm_num)).le
  · have e := roundTie_err .even (q / pow2 (ulpExp q))
    have : ((roundTie .even (q / pow2 (ulpExp q)) : ℤ) : ℚ) * pow2 (ulpExp q) - q =
        (((roundTie .even (q / pow2 (ulpExp q)) : ℤ) : ℚ) - q / pow2 (ulpExp q)) * pow2 (ulpExp q) := by
      field_simp
    rw [this, abs_mul, abs_of_pos hu]
    calc |((roundTie .even (q / pow2 (ulpExp q)) : ℤ) : ℚ) - q / pow2 (ulpExp q)| * pow2 (ulpExp q)
        ≤ 1 / 2 * pow2 (ulpExp q) := mul_le_mul_of_nonneg_right e hu.le
      _ = pow2 (ulpExp q) / 2 := by ring

/-- on `[0, 1)` one ulp is at most `2^-24` -/
theorem ulpExp_le_of_lt_one {q : ℚ} (h0 : 0 < q) (h1 : q < 1) : ulpExp q ≤ -24 := by
  have hfl : floorLog2Rat q < 0 := floorLog2Rat_lt h0 (by simpa [pow2] using h1)
  unfold ulpExp
  rw [show rabs q = q from by unfold rabs; simp [not_lt.mpr h0.le]]
  unfold imax
  split <;> omega

/-- **surrogate error** (DESIGN §4 C02): for every rational `x ∈ [-1, 1]` the float32 evaluation of
    `0.5·x + 0.5` is within `2^-25` of the exact value -/
theorem C02_surrogate_error (x : ℚ) (hx : |x| ≤ 1) :
    |rnd32 (x / 2 + 1 / 2) - (x / 2 + 1 / 2)| ≤ pow2 (-25) := by
  obtain ⟨hlo, hhi⟩ := abs_le.mp hx
  set q := x / 2 + 1 / 2 with hq
  have hq0 : 0 ≤ q := by rw [hq]; linarith
  have hq1 : q ≤ 1 := by rw [hq]; linarith
  rcases eq_or_lt_of_le hq0 with h0 | h0
  · rw [← h0]
    simp [rnd32, (pow2_pos (-25)).le]
  rcases eq_or_lt_of_le hq1 with h1 | h1
  · rw [h1, rnd32_of_isF32 (by decide +kernel : isF32 1 = true)]
    simp [(pow2_pos (-25)).le]
  · calc |rnd32 q - q| ≤ pow2 (ulpExp q) / 2 := C02_rnd32_err q
      _ ≤ pow2 (-24) / 2 := by
          have := pow2_le_pow2 (ulpExp_le_of_lt_one h0 h1)
          linarith
      _ = pow2 (-25) := by
          rw [show (-24 : ℤ) = -25 + 1 from rfl, pow2_add]
          simp [pow2]

/-- hence the hard-sigmoid based `quantized_sigmoid`, evaluated on the FLOAT32 surrogate value, is
    within half a step plus `2^-25` of the EXACT surrogate (inside the code range): nearest code up to
    one float rounding of the surrogate -/
theorem C02_sigmoid_nearest_f32 (t : Tie) (bits : ℤ) (sym : Bool) (x : ℚ) (hx : |x| ≤ 1)
    (h1 : (if sym then 1 else 0) / (tp bits : ℚ) ≤ rnd32 (x / 2 + 1 / 2))
    (h2 : rnd32 (x / 2 + 1 / 2) ≤ 1 - 1 / (tp bits : ℚ)) :
    |qsigmoidP t bits sym (rnd32 (x / 2 + 1 / 2)) - (x / 2 + 1 / 2)| ≤
      1 / (2 * (tp bits : ℚ)) + pow2 (-25) := by
  have a := C02_sigmoid_nearest t bits sym (rnd32 (x / 2 + 1 / 2)) h1 h2
  have b := C02_surrogate_error x hx
  calc |qsigmoidP t bits sym (rnd32 (x / 2 + 1 / 2)) - (x / 2 + 1 / 2)|
      = |(qsigmoidP t bits sym (rnd32 (x / 2 + 1 / 2)) - rnd32 (x / 2 + 1 / 2)) +
          (rnd32 (x / 2 + 1 / 2) - (x / 2 + 1 / 2))| := by ring_nf
    _ ≤ |qsigmoidP t bits sym (rnd32 (x / 2 + 1 / 2)) - rnd32 (x / 2 + 1 / 2)| +
          |rnd32 (x / 2 + 1 / 2) - (x / 2 + 1 / 2)| := abs_add_le _ _
    _ ≤ 1 / (2 * (tp bits : ℚ)) + pow2 (-25) := add_le_add a b

/-- non-vacuity / sharpness: the bound is attained up to a factor 2 — `x = 1 − 2^-24 − 2^-25·…`: the
    float32 sum at `x = -2^-25` (exact value `1/2 − 2^-26`) rounds to `1/2`, an error of exactly `2^-26` -/
example : rnd32 ((-(pow2 (-25))) / 2 + 1 / 2) = 1 / 2 ∧
    |rnd32 ((-(pow2 (-25))) / 2 + 1 / 2) - ((-(pow2 (-25))) / 2 + 1 / 2)| = pow2 (-26) := by
  refine ⟨by decide +kernel, by decide +kernel⟩

/-! ## Strengthening round: `relu_upper_bound` / `is_quantized_clip`, `use_sigmoid`, and the
       module-level surrogate switch `set_internal_sigmoid` -/

/-! ### quantized_relu with every option -/

/-- monotone for every option combination, plain and leaky -/
theorem C02_reluU_mono (t : Tie) (c : ReluCfg) {x y : ℚ} (hxy : x ≤ y) :
    qreluU t c x ≤ qreluU t c y := by
  unfold qreluU
  apply clampTo_mono
  cases h : c.slopeLog with
  | none => exact C02_relu_mono t c h hxy
  | some s => exact C02_relu_leaky_mono t c s h hxy

/-- above the range the output is the end code, clamped by an active upper bound -/
theorem C02_reluU_saturate_hi (t : Tie) (c : ReluCfg) (h : c.slopeLog = none) (x : ℚ)
    (h2 : (c.hi : ℚ) * c.step ≤ x) : qreluU t c x = clampTo c.clamp ((c.hi : ℚ) * c.step) := by
  unfold qreluU; rw [C02_relu_saturate_hi t c h x h2]

/-- … and an upper bound at or ABOVE the largest code leaves the end code: inputs above the range
    are sent to the largest code, never beyond -/
theorem C02_reluU_saturate_hi_top (t : Tie) (c : ReluCfg) (h : c.slopeLog = none) (x : ℚ)
    (h2 : (c.hi : ℚ) * c.step ≤ x) (hc : ∀ u, c.clamp = some u → (c.hi : ℚ) * c.step ≤ u) :
    qreluU t c x = (c.hi : ℚ) * c.step := by
  rw [C02_reluU_saturate_hi t c h x h2]
  cases hcl : c.clamp with
  | none => rfl
  | some u => exact clampTo_of_le (hc u hcl)

/-- nearest code of the float activation `x_u` (`ReluCfg.act`: the ReLU, bounded by the quantized
    range under `is_quantized_clip`, else by `relu_upper_bound`), for EVERY bound (the hypothesis
    "`is_quantized_clip` or a bound other than `0.0`" was dropped with the fix of C02-relu-upper-zero) -/
theorem C02_reluU_nearest (t : Tie) (c : ReluCfg) (h : c.slopeLog = none)
    (x : ℚ) (h0 : 0 ≤ x)
    (ha : c.act x ≤ (c.hi : ℚ) * c.step) : |qreluU t c x - c.act x| ≤ c.step / 2 := by
  have hsp := c.step_pos
  have hlr : c.lrelu x = x := by unfold ReluCfg.lrelu; rw [if_neg (not_lt.mpr h0)]
  have near : x ≤ (c.hi : ℚ) * c.step → |qrelu t c x - x| ≤ c.step / 2 :=
    fun hx => C02_relu_nearest t c h x h0 hx
  have sat : (c.hi : ℚ) * c.step ≤ x → qrelu t c x = (c.hi : ℚ) * c.step :=
    fun hx => C02_relu_saturate_hi t c h x hx
  cases hq : c.qclip with
  | true =>
    rw [qreluU_of_clamp_none t (ReluCfg.clamp_of_qclip hq)]
    unfold ReluCfg.act
    rw [hq, if_pos rfl, hlr]
    split
    · rename_i hx; exact near hx
    · rename_i hx; push Not at hx
      rw [sat hx.le, sub_self, abs_zero]; linarith
  | false =>
    cases hu : c.upper with
    | none =>
      rw [qreluU_of_clamp_none t (ReluCfg.clamp_of_no_upper hu)]
      have hact : c.act x = x := by unfold ReluCfg.act; simp [hq, hu, hlr]
      rw [hact] at ha ⊢
      exact near ha
    | some u =>
      have hcl : c.clamp = some u := ReluCfg.clamp_of_upper hq hu
      have hact : c.act x = if x ≤ u then x else u := by
        unfold ReluCfg.act; simp [hq, hu, hlr]
      rw [hact] at ha ⊢
      unfold qreluU
      rw [hcl]
      unfold clampTo
      simp only
      by_cases hxu : x ≤ u
      · rw [if_pos hxu] at ha ⊢
        have := abs_le.mp (near ha)
        split
        · exact near ha
        · rename_i hqu; push Not at hqu
          rw [abs_le]; constructor <;> linarith
      · rw [if_neg hxu] at ha ⊢
        push Not at hxu
        by_cases hxt : x ≤ (c.hi : ℚ) * c.step
        · have := abs_le.mp (near hxt)
          split
          · rw [abs_le]; constructor <;> linarith
          · rw [sub_self, abs_zero]; linarith
        · push Not at hxt
          rw [sat hxt.le]
          split
          · rw [abs_le]; constructor <;> linarith
          · rw [sub_self, abs_zero]; linarith

/-- idempotent for every on-grid (or inactive) upper bound -/
theorem C02_reluU_idem (t : Tie) (c : ReluCfg) (h : c.slopeLog = none)
    (hc : ∀ u, c.clamp = some u → ∃ j : ℤ, 0 ≤ j ∧ u = (j : ℚ) * c.step) (x : ℚ) :
    qreluU t c (qreluU t c x) = qreluU t c x := by
  obtain ⟨k, h1, h2, hk⟩ := qreluU_plain_lattice t c h hc x
  have hfix : qrelu t c ((k : ℚ) * c.step) = (k : ℚ) * c.step := by
    rw [qrelu_plain_eq_sq t c h]; exact sq_code t c.step_pos h1 h2
  rw [hk]
  unfold qreluU
  rw [hfix]
  cases hcl : c.clamp with
  | none => rfl
  | some u =>
    apply clampTo_of_le
    rw [← hk]; unfold qreluU; rw [hcl]; exact clampTo_le_bound u _

/-- REGRESSION WITNESS (former finding C02-relu-upper-zero, repaired): `relu_upper_bound = 0.0`
    bounded the float activation (`is not None`) but not the quantized value (truthiness):
    `quantized_relu(3, 0, is_quantized_clip=False, relu_upper_bound=0.0)(1)` had activation `0` and
    output `7/8`; now the output is the nearest code `0` of the activation -/
theorem C02_reluU_zero_bound_fixed_witness :
    let c : ReluCfg := { bits := 3, integer := 0, slopeLog := none, upper := some 0, qclip := false }
    c.act 1 = 0 ∧ qreluU .even c 1 = 0 ∧ qrelu .even c 1 = 7/8 ∧ c.step = 1/8 := by
  refine ⟨by decide +kernel, by decide +kernel, by decide +kernel, by decide +kernel⟩

/-- … and for every format, tie rule and input: under the bound `0.0` a plain ReLU emits exactly the
    activation `0` -/
theorem C02_reluU_zero_bound_exact (t : Tie) (c : ReluCfg) (h : c.slopeLog = none)
    (hq : c.qclip = false) (hu : c.upper = some 0) (x : ℚ) (h0 : 0 ≤ x) :
    qreluU t c x = c.act x := by
  rw [qreluU_zero_bound t c h hq hu x]
  unfold ReluCfg.act ReluCfg.lrelu
  rw [hq, hu]
  simp only [Bool.false_eq_true, if_false]
  split
  · rename_i hx; rw [if_neg (not_lt.mpr h0)]; linarith
  · rfl

/-- COUNTEREXAMPLE (known finding C02-relu-upper-offgrid-idem): an off-grid bound is emitted as is
    and re-quantized to a code: `quantized_relu(4,1,is_quantized_clip=False,relu_upper_bound=1.3)`:
    `q(2) = 1.3`, `q(1.3) = 1.25` -/
theorem C02_reluU_offgrid_idem_counterexample :
    let c : ReluCfg := { bits := 4, integer := 1, slopeLog := none, upper := some (13/10), qclip := false }
    qreluU .even c 2 = 13/10 ∧ qreluU .even c (13/10) = 5/4 := by
  refine ⟨by decide +kernel, by decide +kernel⟩

/-! ### quantized_relu(use_sigmoid=1) -/

/-- monotone in the surrogate value, plain and leaky, with every upper-bound option -/
theorem C02_reluSig_mono (t : Tie) (c : ReluCfg) {s s' : ℚ} (h : s ≤ s') :
    qreluSigU t c s ≤ qreluSigU t c s' := by
  unfold qreluSigU
  apply clampTo_mono
  have hm : (0 : ℚ) < (twoPow c.nsb : ℚ) := by rw [twoPow_eq_tp]; exact_mod_cast tp_pos _
  have hone : (1 : ℚ) ≤ (twoPow c.nsb : ℚ) := by rw [twoPow_eq_tp]; exact_mod_cast tp_ge_one _
  have hpi := pow2_pos c.integer
  have hinv : (1 : ℚ) / (twoPow c.nsb : ℚ) ≤ 1 := by rw [div_le_one hm]; exact hone
  have hpos : pow2 c.integer * rclip (2 * ((roundTie t (s * (twoPow c.nsb : ℚ)) : ℚ) / (twoPow c.nsb : ℚ)) - 1)
        0 (1 - 1 / (twoPow c.nsb : ℚ))
      ≤ pow2 c.integer * rclip (2 * ((roundTie t (s' * (twoPow c.nsb : ℚ)) : ℚ) / (twoPow c.nsb : ℚ)) - 1)
        0 (1 - 1 / (twoPow c.nsb : ℚ)) := by
    apply mul_le_mul_of_nonneg_left _ hpi.le
    apply rclip_mono _ (by linarith)
    have : ((roundTie t (s * (twoPow c.nsb : ℚ)) : ℤ) : ℚ) ≤ ((roundTie t (s' * (twoPow c.nsb : ℚ)) : ℤ) : ℚ) := by
      exact_mod_cast roundTie_mono t (mul_le_mul_of_nonneg_right h hm.le)
    have := div_le_div_of_nonneg_right this hm.le
    linarith
  unfold qreluSigP
  simp only
  cases hsl : c.slopeLog with
  | none => simpa using hpos
  | some k =>
    simp only
    have hslope : 0 < c.slope := by simp only [ReluCfg.slope, hsl]; exact pow2_pos _
    have hsm : 0 < c.slope * (twoPow c.nsb : ℚ) := mul_pos hslope hm
    have hneg : rclip (2 * ((roundTie t (s * (twoPow c.nsb : ℚ) * c.slope) : ℚ) / (c.slope * (twoPow c.nsb : ℚ))) - 1)
          (-1) 0
        ≤ rclip (2 * ((roundTie t (s' * (twoPow c.nsb : ℚ) * c.slope) : ℚ) / (c.slope * (twoPow c.nsb : ℚ))) - 1)
          (-1) 0 := by
      apply rclip_mono _ (by norm_num)
      have : ((roundTie t (s * (twoPow c.nsb : ℚ) * c.slope) : ℤ) : ℚ)
          ≤ ((roundTie t (s' * (twoPow c.nsb : ℚ) * c.slope) : ℤ) : ℚ) := by
        exact_mod_cast roundTie_mono t
          (mul_le_mul_of_nonneg_right (mul_le_mul_of_nonneg_right h hm.le) hslope.le)
      have := div_le_div_of_nonneg_right this hsm.le
      linarith
    have hk : 0 ≤ pow2 c.integer * c.slope := by positivity
    have := mul_le_mul_of_nonneg_left hneg hk
    linarith

/-- PARTIAL: `use_sigmoid=1` rounds `sigma·m` and doubles afterwards, so inside the range the output
    is within ONE step (not half a step) of the activation `m_i · (2·sigma − 1)` -/
theorem C02_reluSig_within_step_partial (t : Tie) (c : ReluCfg) (h : c.slopeLog = none) (hn : 0 ≤ c.nsb)
    (s : ℚ) (h1 : 0 ≤ 2 * s - 1) (h2 : 2 * s - 1 ≤ 1 - 1 / ((tp c.nsb : ℤ) : ℚ)) :
    |qreluSigP t c s - pow2 c.integer * (2 * s - 1)| ≤ c.step := by
  have hm := c.m_step hn
  have hmpos : (0 : ℚ) < ((tp c.nsb : ℤ) : ℚ) := by exact_mod_cast tp_pos _
  have hpi := pow2_pos c.integer
  unfold qreluSigP
  simp only [h, twoPow_eq_tp]
  have e := roundTie_err t (s * ((tp c.nsb : ℤ) : ℚ))
  generalize roundTie t (s * ((tp c.nsb : ℤ) : ℚ)) = r at e
  have hd := rclip_dist (v := 2 * ((r : ℚ) / ((tp c.nsb : ℤ) : ℚ)) - 1) h1 h2
  have hv : |2 * ((r : ℚ) / ((tp c.nsb : ℤ) : ℚ)) - 1 - (2 * s - 1)| ≤ 1 / ((tp c.nsb : ℤ) : ℚ) := by
    have : 2 * ((r : ℚ) / ((tp c.nsb : ℤ) : ℚ)) - 1 - (2 * s - 1)
        = 2 * ((r : ℚ) - s * ((tp c.nsb : ℤ) : ℚ)) / ((tp c.nsb : ℤ) : ℚ) := by field_simp; ring
    rw [this, abs_div, abs_of_pos hmpos, div_le_div_iff_of_pos_right hmpos, abs_mul]
    norm_num; linarith
  rw [← mul_sub, abs_mul, abs_of_pos hpi]
  calc pow2 c.integer * |rclip (2 * ((r : ℚ) / ((tp c.nsb : ℤ) : ℚ)) - 1) 0 (1 - 1 / ((tp c.nsb : ℤ) : ℚ)) - (2 * s - 1)|
      ≤ pow2 c.integer * (1 / ((tp c.nsb : ℤ) : ℚ)) :=
        mul_le_mul_of_nonneg_left (le_trans hd hv) hpi.le
    _ = c.step := by rw [← hm]; field_simp

/-- COUNTEREXAMPLE (known finding C02-relu-use-sigmoid-two-step-grid): half a step is not met:
    `quantized_relu(2, 0, use_sigmoid=1)` at surrogate value `39/64`: activation `7/32`, output `0`,
    step `1/4` -/
theorem C02_reluSig_half_step_counterexample :
    let c : ReluCfg := { bits := 2, integer := 0, slopeLog := none }
    qreluSigP .even c (39/64) = 0 ∧ pow2 c.integer * (2 * (39/64 : ℚ) - 1) = 7/32 ∧ c.step = 1/4 := by
  refine ⟨by decide +kernel, by decide +kernel, by decide +kernel⟩

/-! ### the surrogate switch: the mode in force when the quantizer is CALLED -/

theorem C02_smoothSigmoid_mono {x y : ℚ} (h : x ≤ y) : smoothSigmoid x ≤ smoothSigmoid y := by
  unfold smoothSigmoid
  simp only
  split <;> split <;> (try split) <;> (try split) <;> linarith

/-- every internal sigmoid is monotone (the real one by assumption on the oracle `σ`) -/
theorem C02_internalSigmoid_mono (σ : ℚ → ℚ) (hσ : ∀ x y, x ≤ y → σ x ≤ σ y) (m : SigMode) {x y : ℚ}
    (h : x ≤ y) : internalSigmoid σ m x ≤ internalSigmoid σ m y := by
  cases m
  · exact C02_hardSigmoid_mono h
  · exact C02_smoothSigmoid_mono h
  · exact hσ x y h

/-- `quantized_sigmoid`, `quantized_tanh` and `quantized_relu(use_sigmoid=1)` are monotone in the
    INPUT under every mode -/
theorem C02_sigmoidX_mono (t : Tie) (bits : ℤ) (sym : Bool) (σ : ℚ → ℚ) (hσ : ∀ x y, x ≤ y → σ x ≤ σ y)
    (m : SigMode) {x y : ℚ} (h : x ≤ y) :
    qsigmoidX t bits sym σ m x ≤ qsigmoidX t bits sym σ m y :=
  C02_sigmoid_mono t bits sym (C02_internalSigmoid_mono σ hσ m h)

theorem C02_tanhX_mono (t : Tie) (bits : ℤ) (sym : Bool) (σ : ℚ → ℚ) (hσ : ∀ x y, x ≤ y → σ x ≤ σ y)
    (m : SigMode) {x y : ℚ} (h : x ≤ y) :
    qtanhX t bits sym σ m x ≤ qtanhX t bits sym σ m y := by
  apply C02_tanh_mono
  have := C02_internalSigmoid_mono σ hσ m h
  linarith

theorem C02_reluSigX_mono (t : Tie) (c : ReluCfg) (σ : ℚ → ℚ) (hσ : ∀ x y, x ≤ y → σ x ≤ σ y)
    (m : SigMode) {x y : ℚ} (h : x ≤ y) : qreluSigX t c σ m x ≤ qreluSigX t c σ m y := by
  apply C02_reluSig_mono
  apply C02_internalSigmoid_mono σ hσ m
  exact div_le_div_of_nonneg_right h (pow2_pos _).le

/-- nearest code of the surrogate of the CALL-time mode -/
theorem C02_sigmoidX_nearest (t : Tie) (bits : ℤ) (sym : Bool) (σ : ℚ → ℚ) (m : SigMode) (x : ℚ)
    (h1 : (if sym then 1 else 0) / (tp bits : ℚ) ≤ internalSigmoid σ m x)
    (h2 : internalSigmoid σ m x ≤ 1 - 1 / (tp bits : ℚ)) :
    |qsigmoidX t bits sym σ m x - internalSigmoid σ m x| ≤ 1 / (2 * (tp bits : ℚ)) :=
  C02_sigmoid_nearest t bits sym _ h1 h2

/-- constructing quantizer objects at any point of a session changes no output: nothing of the mode
    is captured at construction time -/
theorem C02_session_construct_irrelevant (σ : ℚ → ℚ) (q : ℚ → ℚ) (m : SigMode) (es : List SigEv) :
    runSession σ q m (es.filter fun e => match e with | .construct => false | _ => true)
      = runSession σ q m es := by
  induction es generalizing m with
  | nil => rfl
  | cons e es ih =>
    cases e with
    | setMode m' => simp [List.filter, runSession, ih]
    | construct => simp [List.filter, runSession, ih]
    | call x => simp [List.filter, runSession, ih]

/-- a call that follows `set_internal_sigmoid(m')` uses the surrogate of `m'`, whatever happened
    before (in particular whichever mode was active when the quantizer was constructed) -/
theorem C02_session_call_after_set (σ : ℚ → ℚ) (q : ℚ → ℚ) (m m' : SigMode) (es : List SigEv) (x : ℚ) :
    runSession σ q m (es ++ [.setMode m', .call x])
      = runSession σ q m es ++ [q (internalSigmoid σ m' x)] := by
  induction es generalizing m with
  | nil => simp [runSession]
  | cons e es ih =>
    cases e with
    | setMode m'' => simp [runSession, ih]
    | construct => simp [runSession, ih]
    | call y => simp [runSession, ih]

/-- the order matters: a quantizer that kept the surrogate of its construction-time mode would differ —
    `quantized_sigmoid(2)` at `x = −1.98`: hard surrogate ↦ `0`, smooth surrogate ↦ `1/4` -/
theorem C02_stale_mode_counterexample (σ : ℚ → ℚ) :
    qsigmoidX .even 2 false σ .hard (-99/50) = 0 ∧ qsigmoidX .even 2 false σ .smooth (-99/50) = 1/4 := by
  have h1 : qsigmoidP .even 2 false (hardSigmoid (-99/50)) = 0 := by decide +kernel
  have h2 : qsigmoidP .even 2 false (smoothSigmoid (-99/50)) = 1/4 := by decide +kernel
  exact ⟨h1, h2⟩

/-! ## Strengthening round 2: histories on ONE object (`QKV.Model.FixedQObj`)

  The nearest-code projection is the one of the configuration the object has WHEN IT IS CALLED, whatever
  it went through before (calls, reporter reads, attribute assignments, `_set_trainable_parameter()`,
  being handed to layers). -/

/-- quantized_linear after ANY history: in range the output is within half a step (of the scale in force)
    of the input; the range is the one of the CURRENT `symmetric` -/
theorem C02_hist_linear_nearest (t : Tie) (s0 : LinSt) (h : List (HStep LinEv Ask)) (x p : ℚ)
    (hsf : ((linSpec t).final s0 h).cfg.signFn = false) (hq : 0 < ((linSpec t).final s0 h).effective.qs)
    (h1 : (((linSpec t).final s0 h).cfg.lo : ℚ) * ((linSpec t).final s0 h).effective.qs ≤ x)
    (h2 : x ≤ (((linSpec t).final s0 h).cfg.hi : ℚ) * ((linSpec t).final s0 h).effective.qs) :
    ∃ y : ℚ, (linSpec t).answer ((linSpec t).final s0 h) (.call x p) = .val y ∧
      |y - x| ≤ ((linSpec t).final s0 h).effective.qs / 2 :=
  ⟨_, rfl, C02_linear_nearest t _ (by rw [LinSt.effective_signFn]; exact hsf) hq x h1 h2⟩

/-- … below the range it is the smallest code of the CURRENT format, above it the largest -/
theorem C02_hist_linear_saturate (t : Tie) (s0 : LinSt) (h : List (HStep LinEv Ask)) (x p : ℚ)
    (hsf : ((linSpec t).final s0 h).cfg.signFn = false) (hq : 0 < ((linSpec t).final s0 h).effective.qs) :
    (x ≤ (((linSpec t).final s0 h).cfg.lo : ℚ) * ((linSpec t).final s0 h).effective.qs →
      (linSpec t).answer ((linSpec t).final s0 h) (.call x p) =
        .val ((((linSpec t).final s0 h).cfg.lo : ℚ) * ((linSpec t).final s0 h).effective.qs)) ∧
    ((((linSpec t).final s0 h).cfg.hi : ℚ) * ((linSpec t).final s0 h).effective.qs ≤ x →
      (linSpec t).answer ((linSpec t).final s0 h) (.call x p) =
        .val ((((linSpec t).final s0 h).cfg.hi : ℚ) * ((linSpec t).final s0 h).effective.qs)) := by
  have hs' : ((linSpec t).final s0 h).effective.signFn = false := by rw [LinSt.effective_signFn]; exact hsf
  constructor
  · intro h1
    show Ans.val _ = _
    rw [C02_linear_saturate_lo t _ hs' hq x h1]; rfl
  · intro h2
    show Ans.val _ = _
    rw [C02_linear_saturate_hi t _ hs' hq x h2]; rfl

/-- … and the calls made in one state are monotone in the input -/
theorem C02_hist_linear_mono (t : Tie) (s0 : LinSt) (h : List (HStep LinEv Ask)) {x x' : ℚ} (p p' : ℚ)
    (hsf : ((linSpec t).final s0 h).cfg.signFn = false) (hq : 0 < ((linSpec t).final s0 h).effective.qs)
    (hx : x ≤ x') :
    ∃ y y' : ℚ, (linSpec t).answer ((linSpec t).final s0 h) (.call x p) = .val y ∧
      (linSpec t).answer ((linSpec t).final s0 h) (.call x' p') = .val y' ∧ y ≤ y' :=
  ⟨_, _, rfl, rfl, C02_linear_mono t _ (by rw [LinSt.effective_signFn]; exact hsf) hq hx⟩

/-- the statement seed C02-5 breaks: an `alpha=None` quantized_linear that was USED (any calls / reporter
    reads) and then handed to a layer as kernel quantizer (`_set_trainable_parameter`) saturates at the end
    code of the SYMMETRIC format, `-(2^ub - 1)` steps of the scale the data dictates — not at `-2^ub` -/
theorem C02_hist_linear_trainable_end_code (t : Tie) (c : LinCfg) (ha : c.alpha = none) (hkn : c.keepNeg = true)
    (hb : c.signFn = false) (pre : List (HStep LinEv Ask)) (hpre : ObjSpec.events pre = []) (a x p : ℚ)
    (hapos : 0 < a) (hx : x ≤ -((twoPow c.ub : ℚ) - 1) * (a * pow2 (c.integer - c.ub))) :
    (linSpec t).answer ((linSpec t).final (LinSt.construct c false) (pre ++ [.ev .trainable, .ev (.rescale a)]))
      (.call x p) = .val (-((twoPow c.ub : ℚ) - 1) * (a * pow2 (c.integer - c.ub))) := by
  have hfin : (linSpec t).final (LinSt.construct c false) (pre ++ [.ev .trainable, .ev (.rescale a)]) =
      { cfg := { c with symmetric := true }, auto := true, stored := some a } := by
    rw [ObjSpec.final_append, ObjSpec.final_eq_foldl _ _ pre, hpre]
    simp [ObjSpec.final, linSpec, LinSt.apply, LinSt.construct, ha]
  rw [hfin]
  set e := ({ cfg := { c with symmetric := true }, auto := true, stored := some a } : LinSt).effective with he
  have hsf : e.signFn = false := hb
  have hqs : e.qs = a * pow2 (c.integer - c.ub) := rfl
  have hq : 0 < e.qs := by rw [hqs]; exact mul_pos hapos (pow2_pos _)
  have hlo : (e.lo : ℚ) = -((twoPow c.ub : ℚ) - 1) := by
    have e' : e.lo = (if c.keepNeg then -twoPow c.ub + 1 else 0) := rfl
    rw [e', hkn]; simp only [if_true]; push_cast; ring
  show Ans.val (qlinear t e x) = _
  rw [C02_linear_saturate_lo t e hsf hq x (by rw [hlo, hqs]; exact hx), hlo, hqs]

/-- quantized_bits under a data-dependent scale `s`: inside the symmetric range the output is within half
    a step `s · 2^integer` of the input -/
theorem C02_bitsAuto_nearest (c : BitsCfg) (s x : ℚ) (hs : 0 < s)
    (hx : |x| ≤ ((tp (c.bits - 1) : ℚ) - 1) * (s * pow2 c.integer)) :
    |qbitsAuto c s x - x| ≤ s * pow2 c.integer / 2 := by
  have hp := pow2_pos c.integer
  have hst : 0 < s * pow2 c.integer := mul_pos hs hp
  unfold qbitsAuto
  simp only []
  have htp : (twoPow (c.bits - 1) : ℤ) = tp (c.bits - 1) := rfl
  -- |x / 2^i| / s = |x| / (s 2^i) =: a ≥ 0, v = floor(a + 1/2)
  have habs : (if x / pow2 c.integer < 0 then -(x / pow2 c.integer) else x / pow2 c.integer) / s
      = |x| / (s * pow2 c.integer) := by
    rcases lt_or_ge x 0 with hneg | hpos
    · rw [if_pos (div_neg_of_neg_of_pos hneg hp), abs_of_neg hneg]; field_simp
    · rw [if_neg (not_lt.mpr (div_nonneg hpos hp.le)), abs_of_nonneg hpos]; field_simp
  rw [habs]
  set a := |x| / (s * pow2 c.integer) with ha
  have ha0 : 0 ≤ a := div_nonneg (abs_nonneg x) hst.le
  have hale : a ≤ (tp (c.bits - 1) : ℚ) - 1 := by rw [ha, div_le_iff₀ hst]; exact hx
  obtain ⟨hf1, hf2⟩ := floor_spec (a + 1 / 2)
  set v : ℤ := (a + 1 / 2).floor with hv
  -- in range the clip does not bite: v ≤ half
  have hvle : v ≤ tp (c.bits - 1) - 1 := by
    have : ((v : ℤ) : ℚ) < ((tp (c.bits - 1) - 1 : ℤ) : ℚ) + 1 := by push_cast; linarith
    have : v < tp (c.bits - 1) - 1 + 1 := by exact_mod_cast this
    omega
  have hmin : (if v < twoPow (c.bits - 1) - 1 then v else twoPow (c.bits - 1) - 1) = v := by
    rw [htp]; split
    · rfl
    · omega
  rw [hmin]
  have hva : |(v : ℚ) - a| ≤ 1 / 2 := by rw [abs_le]; constructor <;> linarith
  have hxa : |x| = a * (s * pow2 c.integer) := by rw [ha]; field_simp
  rcases lt_trichotomy x 0 with hneg | hzero | hpos
  · rw [if_pos hneg]
    have hx' : x = -(a * (s * pow2 c.integer)) := by rw [← hxa, abs_of_neg hneg]; ring
    have : s * (pow2 c.integer * (((-1 * v : ℤ)) : ℚ)) - x = -(((v : ℚ) - a) * (s * pow2 c.integer)) := by
      rw [hx']; push_cast; ring
    rw [this, abs_neg, abs_mul, abs_of_pos hst]
    calc |(v : ℚ) - a| * (s * pow2 c.integer) ≤ 1 / 2 * (s * pow2 c.integer) :=
          mul_le_mul_of_nonneg_right hva hst.le
      _ = s * pow2 c.integer / 2 := by ring
  · subst hzero
    have ha0' : a = 0 := by rw [ha]; simp
    simp only [lt_irrefl, if_false]
    simp
    positivity
  · rw [if_neg (not_lt.mpr hpos.le), if_pos hpos]
    have hx' : x = a * (s * pow2 c.integer) := by rw [← hxa, abs_of_pos hpos]
    have : s * (pow2 c.integer * (((1 * v : ℤ)) : ℚ)) - x = ((v : ℚ) - a) * (s * pow2 c.integer) := by
      rw [hx']; push_cast; ring
    rw [this, abs_mul, abs_of_pos hst]
    calc |(v : ℚ) - a| * (s * pow2 c.integer) ≤ 1 / 2 * (s * pow2 c.integer) :=
          mul_le_mul_of_nonneg_right hva hst.le
      _ = s * pow2 c.integer / 2 := by ring

/-- quantized_bits after ANY history with a constant (or no) scale: nearest code of the CURRENT format -/
theorem C02_hist_bits_nearest (t : Tie) (s0 : BitsSt) (h : List (HStep BitsEv Ask)) (x p : ℚ)
    (hna : ((bitsSpec t).final s0 h).auto = false) (hub : 0 < ((bitsSpec t).final s0 h).cfg.ub)
    (hg : ((bitsSpec t).final s0 h).cfg.gain = 1)
    (h1 : (((bitsSpec t).final s0 h).cfg.lo : ℚ) * ((bitsSpec t).final s0 h).cfg.step ≤ x)
    (h2 : x ≤ (((bitsSpec t).final s0 h).cfg.hi : ℚ) * ((bitsSpec t).final s0 h).cfg.step) :
    ∃ y : ℚ, (bitsSpec t).answer ((bitsSpec t).final s0 h) (.call x p) = .val y ∧
      |y - x| ≤ ((bitsSpec t).final s0 h).cfg.step / 2 := by
  set s := (bitsSpec t).final s0 h
  refine ⟨qbits t s.cfg x, ?_, C02_bits_nearest t _ hub hg x h1 h2⟩
  simp only [bitsSpec, BitsSt.answer, hna, Bool.false_eq_true, if_false]

/-- quantized_relu after ANY history (`use_sigmoid = 0`): monotone, for the CURRENT options -/
theorem C02_hist_relu_mono (t : Tie) (s0 : ReluSt) (h : List (HStep ReluEv Ask)) {x x' : ℚ} (p p' : ℚ)
    (hus : ((reluSpec t).final s0 h).useSigmoid = false) (hx : x ≤ x') :
    ∃ y y' : ℚ, (reluSpec t).answer ((reluSpec t).final s0 h) (.call x p) = .val y ∧
      (reluSpec t).answer ((reluSpec t).final s0 h) (.call x' p') = .val y' ∧ y ≤ y' := by
  set s := (reluSpec t).final s0 h
  refine ⟨qreluU t s.cfg x, qreluU t s.cfg x', ?_, ?_, C02_reluU_mono t _ hx⟩ <;>
  simp only [reluSpec, ReluSt.answer, hus, Bool.false_eq_true, if_false]

/-! ## Strengthening round 3 (seed C02-7): `use_stochastic_rounding` × the learning phase

  Every class hands its flag to `_round_through`, which asks `K.learning_phase()` when the quantizer
  is CALLED (`Model/FixedQ.lean`: `roundThroughI`, `RoundMode`, `q…S`).  The property is about the
  deterministic map; these theorems say when the flagged quantizer IS that map: whenever the learning
  phase is off (or the flag is off) at the call, for every draw — so every clause above (nearest,
  saturate, monotone, idempotent) holds for `use_stochastic_rounding=True` at inference, and two calls
  agree.  This is the C02 side of `C08_round_through_inference` / `C08_*_inference` (Props/C08.lean,
  stated there on `QKV.Model.Stoch`). -/

/-- deterministic round mode (flag off, or learning phase off): the call IS the projection -/
theorem C02_bits_inference (t : Tie) (r : RoundMode) (h : r.Det) (c : BitsCfg) (x : ℚ) :
    qbitsS t r c x = qbits t c x := by
  unfold qbitsS; rw [RoundMode.rho_det t h]; rfl

theorem C02_linear_inference (t : Tie) (r : RoundMode) (h : r.Det) (c : LinCfg) (x : ℚ) :
    qlinearS t r c x = qlinear t c x := by
  unfold qlinearS; rw [RoundMode.rho_det t h]; rfl

/-- all options of `quantized_relu` (leaky slope: both `_round_through` calls, both draws) -/
theorem C02_reluU_inference (t : Tie) (r : RoundMode) (h : r.Det) (c : ReluCfg) (x : ℚ) :
    qreluUS t r c x = qreluU t c x := by
  unfold qreluUS; rw [RoundMode.rho_det t h, RoundMode.rho2_det t h]; rfl

theorem C02_reluSig_inference (t : Tie) (r : RoundMode) (h : r.Det) (c : ReluCfg) (s : ℚ) :
    qreluSigUS t r c s = qreluSigU t c s := by
  unfold qreluSigUS; rw [RoundMode.rho_det t h, RoundMode.rho2_det t h]; rfl

theorem C02_tanh_inference (t : Tie) (r : RoundMode) (h : r.Det) (bits : ℤ) (sym : Bool) (p : ℚ) :
    qtanhPS t r bits sym p = qtanhP t bits sym p := by
  unfold qtanhPS; rw [RoundMode.rho_det t h]; rfl

theorem C02_sigmoid_inference (t : Tie) (r : RoundMode) (h : r.Det) (bits : ℤ) (sym : Bool) (p : ℚ) :
    qsigmoidPS t r bits sym p = qsigmoidP t bits sym p := by
  unfold qsigmoidPS; rw [RoundMode.rho_det t h]; rfl

/-- "two calls give the same result": any two deterministic round modes (different draws, flags) agree -/
theorem C02_inference_deterministic (t : Tie) (r r' : RoundMode) (h : r.Det) (h' : r'.Det) :
    (∀ (c : BitsCfg) (x : ℚ), qbitsS t r c x = qbitsS t r' c x) ∧
    (∀ (c : LinCfg) (x : ℚ), qlinearS t r c x = qlinearS t r' c x) ∧
    (∀ (c : ReluCfg) (x : ℚ), qreluUS t r c x = qreluUS t r' c x) ∧
    (∀ (c : ReluCfg) (s : ℚ), qreluSigUS t r c s = qreluSigUS t r' c s) ∧
    (∀ (bits : ℤ) (sym : Bool) (p : ℚ), qtanhPS t r bits sym p = qtanhPS t r' bits sym p) ∧
    (∀ (bits : ℤ) (sym : Bool) (p : ℚ), qsigmoidPS t r bits sym p = qsigmoidPS t r' bits sym p) := by
  refine ⟨fun c x => ?_, fun c x => ?_, fun c x => ?_, fun c s => ?_, fun b sy p => ?_, fun b sy p => ?_⟩
  · rw [C02_bits_inference t r h, C02_bits_inference t r' h']
  · rw [C02_linear_inference t r h, C02_linear_inference t r' h']
  · rw [C02_reluU_inference t r h, C02_reluU_inference t r' h']
  · rw [C02_reluSig_inference t r h, C02_reluSig_inference t r' h']
  · rw [C02_tanh_inference t r h, C02_tanh_inference t r' h']
  · rw [C02_sigmoid_inference t r h, C02_sigmoid_inference t r' h']

/-- the flag set, the training phase off: `quantized_bits` is the nearest-code projection … -/
theorem C02_bits_stoch_inference_nearest (t : Tie) (r : RoundMode) (hp : r.phase = false) (c : BitsCfg)
    (h : 0 < c.ub) (hg : c.gain = 1) (x : ℚ)
    (h1 : (c.lo : ℚ) * c.step ≤ x) (h2 : x ≤ (c.hi : ℚ) * c.step) :
    |qbitsS t r c x - x| ≤ c.step / 2 := by
  rw [C02_bits_inference t r (Or.inr hp)]; exact C02_bits_nearest t c h hg x h1 h2

/-- … saturating at the end codes … -/
theorem C02_bits_stoch_inference_saturate (t : Tie) (r : RoundMode) (hp : r.phase = false) (c : BitsCfg)
    (h : 0 < c.ub) (x : ℚ) :
    ((c.hi : ℚ) * c.step ≤ x → qbitsS t r c x = c.gain * (c.hi : ℚ) * c.step) ∧
    (x ≤ (c.lo : ℚ) * c.step → qbitsS t r c x = c.gain * (c.lo : ℚ) * c.step) := by
  rw [C02_bits_inference t r (Or.inr hp)]
  exact ⟨C02_bits_saturate_hi t c h x, C02_bits_saturate_lo t c h x⟩

/-- … monotone, also ACROSS calls (each call has its own draw) … -/
theorem C02_bits_stoch_inference_mono (t : Tie) (r r' : RoundMode) (hp : r.phase = false) (hp' : r'.phase = false)
    (c : BitsCfg) (hg : 0 ≤ c.gain) {x y : ℚ} (hxy : x ≤ y) : qbitsS t r c x ≤ qbitsS t r' c y := by
  rw [C02_bits_inference t r (Or.inr hp), C02_bits_inference t r' (Or.inr hp')]; exact C02_bits_mono t c hg hxy

/-- … and idempotent (second call, another draw) -/
theorem C02_bits_stoch_inference_idem (t : Tie) (r r' : RoundMode) (hp : r.phase = false) (hp' : r'.phase = false)
    (c : BitsCfg) (h : 0 < c.ub) (hg : c.gain = 1) (x : ℚ) : qbitsS t r' c (qbitsS t r c x) = qbitsS t r c x := by
  rw [C02_bits_inference t r (Or.inr hp), C02_bits_inference t r' (Or.inr hp')]; exact C02_bits_idem t c h hg x

/-- `quantized_linear` with the flag at inference: nearest, saturating, monotone, idempotent -/
theorem C02_linear_stoch_inference (t : Tie) (r r' : RoundMode) (hp : r.phase = false) (hp' : r'.phase = false)
    (c : LinCfg) (h : c.signFn = false) (hq : 0 < c.qs) (x : ℚ) :
    ((c.lo : ℚ) * c.qs ≤ x → x ≤ (c.hi : ℚ) * c.qs → |qlinearS t r c x - x| ≤ c.qs / 2) ∧
    ((c.hi : ℚ) * c.qs ≤ x → qlinearS t r c x = (c.hi : ℚ) * c.qs) ∧
    (x ≤ (c.lo : ℚ) * c.qs → qlinearS t r c x = (c.lo : ℚ) * c.qs) ∧
    (∀ y, x ≤ y → qlinearS t r c x ≤ qlinearS t r' c y) ∧
    qlinearS t r' c (qlinearS t r c x) = qlinearS t r c x := by
  simp only [C02_linear_inference t r (Or.inr hp), C02_linear_inference t r' (Or.inr hp')]
  exact ⟨C02_linear_nearest t c h hq x, C02_linear_saturate_hi t c h hq x, C02_linear_saturate_lo t c h hq x,
    fun y hxy => C02_linear_mono t c h hq hxy, C02_linear_idem t c h hq x⟩

/-- `quantized_relu` (every option) with the flag at inference: monotone across calls; plain ReLU: nearest
    code of the float activation, end code above the range, idempotent for on-grid bounds -/
theorem C02_reluU_stoch_inference (t : Tie) (r r' : RoundMode) (hp : r.phase = false) (hp' : r'.phase = false)
    (c : ReluCfg) (x : ℚ) :
    (∀ y, x ≤ y → qreluUS t r c x ≤ qreluUS t r' c y) ∧
    (c.slopeLog = none → 0 ≤ x → c.act x ≤ (c.hi : ℚ) * c.step → |qreluUS t r c x - c.act x| ≤ c.step / 2) ∧
    (c.slopeLog = none → (c.hi : ℚ) * c.step ≤ x → qreluUS t r c x = clampTo c.clamp ((c.hi : ℚ) * c.step)) ∧
    (c.slopeLog = none → (∀ u, c.clamp = some u → ∃ j : ℤ, 0 ≤ j ∧ u = (j : ℚ) * c.step) →
      qreluUS t r' c (qreluUS t r c x) = qreluUS t r c x) := by
  simp only [C02_reluU_inference t r (Or.inr hp), C02_reluU_inference t r' (Or.inr hp')]
  exact ⟨fun y hxy => C02_reluU_mono t c hxy, fun h h0 ha => C02_reluU_nearest t c h x h0 ha,
    fun h h2 => C02_reluU_saturate_hi t c h x h2, fun h hc => C02_reluU_idem t c h hc x⟩

/-- `quantized_tanh` / `quantized_sigmoid` with the flag at inference: nearest code of the surrogate value,
    monotone across calls -/
theorem C02_tanh_stoch_inference (t : Tie) (r r' : RoundMode) (hp : r.phase = false) (hp' : r'.phase = false)
    (bits : ℤ) (sym : Bool) (p : ℚ) :
    (-1 + (if sym then 1 else 0) / (tp (bits - 1) : ℚ) ≤ p → p ≤ 1 - 1 / (tp (bits - 1) : ℚ) →
      |qtanhPS t r bits sym p - p| ≤ 1 / (2 * (tp (bits - 1) : ℚ))) ∧
    (∀ p', p ≤ p' → qtanhPS t r bits sym p ≤ qtanhPS t r' bits sym p') := by
  simp only [C02_tanh_inference t r (Or.inr hp), C02_tanh_inference t r' (Or.inr hp')]
  exact ⟨C02_tanh_nearest t bits sym p, fun p' h => C02_tanh_mono t bits sym h⟩

theorem C02_sigmoid_stoch_inference (t : Tie) (r r' : RoundMode) (hp : r.phase = false) (hp' : r'.phase = false)
    (bits : ℤ) (sym : Bool) (p : ℚ) :
    ((if sym then 1 else 0) / (tp bits : ℚ) ≤ p → p ≤ 1 - 1 / (tp bits : ℚ) →
      |qsigmoidPS t r bits sym p - p| ≤ 1 / (2 * (tp bits : ℚ))) ∧
    (∀ p', p ≤ p' → qsigmoidPS t r bits sym p ≤ qsigmoidPS t r' bits sym p') := by
  simp only [C02_sigmoid_inference t r (Or.inr hp), C02_sigmoid_inference t r' (Or.inr hp')]
  exact ⟨C02_sigmoid_nearest t bits sym p, fun p' h => C02_sigmoid_mono t bits sym h⟩

/-! ### the learning phase is process-level state: sessions -/

/-- constructing quantizer objects at any point of a session changes no output: the learning phase is
    not captured at construction time -/
theorem C02_phase_session_construct_irrelevant (stoch : Bool) (q : RoundMode → ℚ → ℚ) (ph : Bool)
    (es : List PhaseEv) :
    runPhaseSession stoch q ph (es.filter fun e => match e with | .construct => false | _ => true)
      = runPhaseSession stoch q ph es := by
  induction es generalizing ph with
  | nil => rfl
  | cons e es ih =>
    cases e with
    | setPhase b => simp [List.filter, runPhaseSession, ih]
    | construct => simp [List.filter, runPhaseSession, ih]
    | call x u u2 => simp [List.filter, runPhaseSession, ih]

/-- a call that follows `K.set_learning_phase(b)` runs under `b`, whatever happened before (training
    calls, the phase at construction, earlier switches) -/
theorem C02_phase_session_call_after_set (stoch : Bool) (q : RoundMode → ℚ → ℚ) (ph b : Bool)
    (es : List PhaseEv) (x u u2 : ℚ) :
    runPhaseSession stoch q ph (es ++ [.setPhase b, .call x u u2])
      = runPhaseSession stoch q ph es ++ [q { stoch := stoch, phase := b, u := u, u2 := u2 } x] := by
  induction es generalizing ph with
  | nil => simp [runPhaseSession]
  | cons e es ih =>
    cases e with
    | setPhase b' => simp [runPhaseSession, ih]
    | construct => simp [runPhaseSession, ih]
    | call y v v2 => simp [runPhaseSession, ih]

/-- … so after ANY session, switching the phase off makes the next call of a flagged `quantized_bits`
    the deterministic projection (every draw) -/
theorem C02_phase_session_inference_bits (t : Tie) (stoch : Bool) (c : BitsCfg) (ph : Bool) (es : List PhaseEv)
    (x u u2 : ℚ) :
    runPhaseSession stoch (fun r => qbitsS t r c) ph (es ++ [.setPhase false, .call x u u2])
      = runPhaseSession stoch (fun r => qbitsS t r c) ph es ++ [qbits t c x] := by
  rw [C02_phase_session_call_after_set]
  congr 2
  exact C02_bits_inference t _ (Or.inr rfl) c x

/-! ### the training phase: outside this property, and observably different -/

/-- under EVERY round mode (training draws included) the in-range output is a code less than ONE step
    from the input (`C08`'s "adjacent"); half a step needs a deterministic mode -/
theorem C02_bits_any_mode_within_step_partial (t : Tie) (r : RoundMode) (c : BitsCfg) (h : 0 < c.ub)
    (hg : c.gain = 1) (x : ℚ) (h1 : (c.lo : ℚ) * c.step ≤ x) (h2 : x ≤ (c.hi : ℚ) * c.step) :
    |qbitsS t r c x - x| < c.step := by
  have hs := c.step_pos
  have hadj := RoundMode.rho_adjacent t r
  have hlo : (c.lo : ℚ) ≤ x / c.step := by rw [le_div_iff₀ hs]; exact h1
  have hhi : x / c.step ≤ (c.hi : ℚ) := by rw [div_le_iff₀ hs]; exact h2
  obtain ⟨m1, m2⟩ := hadj.mem hlo hhi
  unfold qbitsS qbitsR
  rw [if_pos h, hg, iclip_id m1 m2]
  have e := hadj.err (x / c.step)
  have hx : x / c.step * c.step = x := by field_simp
  have : 1 * ((r.rho t (x / c.step) : ℤ) : ℚ) * c.step - x
      = (((r.rho t (x / c.step) : ℤ) : ℚ) - x / c.step) * c.step := by
    rw [sub_mul, hx, one_mul]
  rw [this, abs_mul, abs_of_pos hs]
  calc |((r.rho t (x / c.step) : ℤ) : ℚ) - x / c.step| * c.step < 1 * c.step :=
        mul_lt_mul_of_pos_right e hs
    _ = c.step := one_mul _

/-- COUNTEREXAMPLE to the half-step clause in the TRAINING phase (what an inverted phase switch — seed
    C02-7 — shows at inference): `quantized_bits(4,0,1,use_stochastic_rounding=True)(-0.53125)` with a
    draw above the fraction 3/4 gives −0.625, 3/32 = 3/4 of a step away; the projection gives −0.5 -/
theorem C02_bits_training_half_step_counterexample :
    let c : BitsCfg := { bits := 4, integer := 0, symmetric := true, keepNeg := true, alpha := none }
    qbitsS .even { stoch := true, phase := true, u := 9/10 } c (-17/32) = -5/8 ∧
    qbitsS .even { stoch := true, phase := false, u := 9/10 } c (-17/32) = -1/2 ∧
    qbits .even c (-17/32) = -1/2 ∧ c.step = 1/8 := by
  refine ⟨by decide +kernel, by decide +kernel, by decide +kernel, by decide +kernel⟩

/-! ## Strengthening round 4 (seed C02-12): the 1-bit SIGN formats are nearest-code projections too

  `quantized_linear(bits=1, keep_negative=1)` has the two codes `±qs/2` (the shift trick of
  `_scale_clip_and_round`: "otherwise the binary quantizer would have three output values") and
  `quantized_bits(bits=1, keep_negative=1)` the two codes `±alpha` (`sign(x)` with `0 ↦ +1`).  The codes are one
  step apart (`qs`, resp. `2·alpha`): every clause of the property applies to them — the output is one of
  the two codes, in range within half a step, no code strictly closer (at EVERY input), the end code outside,
  monotone, idempotent — and in particular **zero is never an output**. -/

/-- an `Adjacent` rounding (`tf.round`, or the stochastic one with any draw) of a point of `[-1, 0]` is
    `-1` or `0` -/
private theorem adj_unit {ρ : ℚ → ℤ} (hρ : Adjacent ρ) {p : ℚ} (h1 : -1 ≤ p) (h2 : p ≤ 0) : ρ p = -1 ∨ ρ p = 0 := by
  obtain ⟨a, b⟩ := hρ.mem (lo := -1) (hi := 0) (by push_cast; exact h1) (by push_cast; exact h2)
  omega

private theorem sign_clip_bounds (s : ℚ) :
    -1 ≤ (if s < -1 / 2 then -1 / 2 else if 1 / 2 < s then 1 / 2 else s) - 1 / 2 ∧
    (if s < -1 / 2 then -1 / 2 else if 1 / 2 < s then 1 / 2 else s) - 1 / 2 ≤ 0 := by
  constructor <;> split <;> (try split) <;> linarith

/-- THE CODE SET, under every round mode (deterministic or training draws): a 1-bit signed
    `quantized_linear` emits `+qs/2` or `-qs/2` — two output values, never a third -/
theorem C02_linear_sign_codes_any_round (ρ : ℚ → ℤ) (hρ : Adjacent ρ) (c : LinCfg) (h : c.signFn = true) (x : ℚ) :
    qlinearR ρ c x = c.qs / 2 ∨ qlinearR ρ c x = -(c.qs / 2) := by
  unfold qlinearR
  simp only [h, if_true]
  obtain ⟨b1, b2⟩ := sign_clip_bounds (x / c.qs)
  rcases adj_unit hρ b1 b2 with e | e <;> rw [e]
  · right; push_cast; ring
  · left; push_cast; ring

theorem C02_linear_sign_codes (t : Tie) (c : LinCfg) (h : c.signFn = true) (x : ℚ) :
    qlinear t c x = c.qs / 2 ∨ qlinear t c x = -(c.qs / 2) :=
  C02_linear_sign_codes_any_round (roundTie t) (roundTie_adjacent t) c h x

theorem C02_linear_sign_codes_stoch (t : Tie) (r : RoundMode) (c : LinCfg) (h : c.signFn = true) (x : ℚ) :
    qlinearS t r c x = c.qs / 2 ∨ qlinearS t r c x = -(c.qs / 2) :=
  C02_linear_sign_codes_any_round (r.rho t) (RoundMode.rho_adjacent t r) c h x

/-- the statement seed C02-12 breaks: `0` is not an output, whatever the input (zero included), the tie
    rule, the round mode and the (non-zero) scale -/
theorem C02_linear_sign_never_zero (t : Tie) (r : RoundMode) (c : LinCfg) (h : c.signFn = true) (hq : c.qs ≠ 0)
    (x : ℚ) : qlinearS t r c x ≠ 0 ∧ qlinear t c x ≠ 0 := by
  constructor
  · rcases C02_linear_sign_codes_stoch t r c h x with e | e <;> rw [e] <;> intro h0 <;> apply hq <;> linarith
  · rcases C02_linear_sign_codes t c h x with e | e <;> rw [e] <;> intro h0 <;> apply hq <;> linarith

/-- strictly positive inputs take the upper code -/
theorem C02_linear_sign_pos (t : Tie) (c : LinCfg) (h : c.signFn = true) (hq : 0 < c.qs) {x : ℚ} (hx : 0 < x) :
    qlinear t c x = c.qs / 2 := by
  unfold qlinear
  simp only [h, if_true]
  have hs : 0 < x / c.qs := div_pos hx hq
  have hr : roundTie t ((if x / c.qs < -1 / 2 then -1 / 2 else if 1 / 2 < x / c.qs then 1 / 2 else x / c.qs) - 1 / 2)
      = 0 := by
    apply roundTie_small
    rw [abs_lt]
    constructor <;> split <;> (try split) <;> linarith
  rw [hr]; push_cast; ring

/-- strictly negative inputs take the lower code -/
theorem C02_linear_sign_neg (t : Tie) (c : LinCfg) (h : c.signFn = true) (hq : 0 < c.qs) {x : ℚ} (hx : x < 0) :
    qlinear t c x = -(c.qs / 2) := by
  unfold qlinear
  simp only [h, if_true]
  have hs : x / c.qs < 0 := div_neg_of_neg_of_pos hx hq
  set p := (if x / c.qs < -1 / 2 then -1 / 2 else if 1 / 2 < x / c.qs then 1 / 2 else x / c.qs) - 1 / 2 with hp
  have hlt : p < -1 / 2 := by rw [hp]; split <;> (try split) <;> linarith
  obtain ⟨b1, _⟩ := sign_clip_bounds (x / c.qs)
  have hge : roundTie t ((-1 : ℤ) : ℚ) ≤ roundTie t p := roundTie_mono t (by push_cast; exact b1)
  rw [roundTie_int] at hge
  have he := roundTie_err t p
  rw [abs_le] at he
  have hle : ((roundTie t p : ℤ) : ℚ) < 0 := by linarith [he.2]
  have hle' : roundTie t p < 0 := by exact_mod_cast hle
  have hr : roundTie t p = -1 := by omega
  rw [hr]; push_cast; ring

/-- the input zero is the one tie of the format (both codes are half a step away): `tf.round`
    (half to even, `round(-1/2) = 0`) takes the UPPER code -/
theorem C02_linear_sign_zero_even (c : LinCfg) (h : c.signFn = true) : qlinear .even c 0 = c.qs / 2 := by
  unfold qlinear
  simp only [h, if_true, zero_div]
  have hr : roundTie .even ((if (0 : ℚ) < -1 / 2 then -1 / 2 else if (1 : ℚ) / 2 < 0 then 1 / 2 else 0) - 1 / 2) = 0 := by
    have : ((if (0 : ℚ) < -1 / 2 then -1 / 2 else if (1 : ℚ) / 2 < 0 then 1 / 2 else 0) - 1 / 2 : ℚ) = -1 / 2 := by
      norm_num
    rw [this]; decide +kernel
  rw [hr]; push_cast; ring

/-- in range (`-qs/2 ≤ x ≤ qs/2`) within half a step `qs` of the input -/
theorem C02_linear_sign_nearest (t : Tie) (c : LinCfg) (h : c.signFn = true) (hq : 0 < c.qs) (x : ℚ)
    (h1 : -(c.qs / 2) ≤ x) (h2 : x ≤ c.qs / 2) : |qlinear t c x - x| ≤ c.qs / 2 := by
  rcases lt_trichotomy x 0 with hx | hx | hx
  · rw [C02_linear_sign_neg t c h hq hx, abs_le]; constructor <;> linarith
  · rcases C02_linear_sign_codes t c h x with e | e <;> rw [e, hx, abs_le] <;> constructor <;> linarith
  · rw [C02_linear_sign_pos t c h hq hx, abs_le]; constructor <;> linarith

/-- at EVERY input neither code is strictly closer than the output -/
theorem C02_linear_sign_is_code_nearest (t : Tie) (c : LinCfg) (h : c.signFn = true) (hq : 0 < c.qs) (x : ℚ) :
    |qlinear t c x - x| ≤ |c.qs / 2 - x| ∧ |qlinear t c x - x| ≤ |-(c.qs / 2) - x| := by
  rcases lt_trichotomy x 0 with hx | hx | hx
  · rw [C02_linear_sign_neg t c h hq hx]
    refine ⟨?_, le_refl _⟩
    rw [abs_le]; constructor
    · have := neg_abs_le (c.qs / 2 - x); rw [abs_of_pos (by linarith : 0 < c.qs / 2 - x)] at this ⊢; linarith
    · rw [abs_of_pos (by linarith : 0 < c.qs / 2 - x)]; linarith
  · rcases C02_linear_sign_codes t c h x with e | e <;> rw [e, hx] <;> simp [abs_neg]
  · rw [C02_linear_sign_pos t c h hq hx]
    refine ⟨le_refl _, ?_⟩
    rw [abs_of_neg (by linarith : -(c.qs / 2) - x < 0), abs_le]; constructor <;> linarith

/-- outside the range the end code -/
theorem C02_linear_sign_saturate (t : Tie) (c : LinCfg) (h : c.signFn = true) (hq : 0 < c.qs) (x : ℚ) :
    (c.qs / 2 ≤ x → qlinear t c x = c.qs / 2) ∧ (x ≤ -(c.qs / 2) → qlinear t c x = -(c.qs / 2)) :=
  ⟨fun hx => C02_linear_sign_pos t c h hq (by linarith), fun hx => C02_linear_sign_neg t c h hq (by linarith)⟩

/-- monotone non-decreasing -/
theorem C02_linear_sign_mono (t : Tie) (c : LinCfg) (h : c.signFn = true) (hq : 0 < c.qs) {x y : ℚ} (hxy : x ≤ y) :
    qlinear t c x ≤ qlinear t c y := by
  rcases lt_or_ge x 0 with hx | hx
  · rw [C02_linear_sign_neg t c h hq hx]
    rcases C02_linear_sign_codes t c h y with e | e <;> rw [e] <;> linarith
  · rcases lt_or_eq_of_le hx with hx' | hx'
    · rw [C02_linear_sign_pos t c h hq hx', C02_linear_sign_pos t c h hq (lt_of_lt_of_le hx' hxy)]
    · rcases lt_or_eq_of_le hxy with hlt | heq
      · rw [C02_linear_sign_pos t c h hq (by linarith : 0 < y)]
        rcases C02_linear_sign_codes t c h x with e | e <;> rw [e] <;> linarith
      · rw [heq]

/-- both codes are fixed points: re-quantizing an output returns it -/
theorem C02_linear_sign_idem (t : Tie) (c : LinCfg) (h : c.signFn = true) (hq : 0 < c.qs) (x : ℚ) :
    qlinear t c (qlinear t c x) = qlinear t c x := by
  rcases C02_linear_sign_codes t c h x with e | e <;> rw [e]
  · exact C02_linear_sign_pos t c h hq (by linarith)
  · exact C02_linear_sign_neg t c h hq (by linarith)

/-- the flagged 1-bit quantizer in a deterministic round mode (learning phase off, or flag off) satisfies
    all clauses, for every draw -/
theorem C02_linear_sign_stoch_inference (t : Tie) (r r' : RoundMode) (hd : r.Det) (hd' : r'.Det)
    (c : LinCfg) (h : c.signFn = true) (hq : 0 < c.qs) (x : ℚ) :
    (-(c.qs / 2) ≤ x → x ≤ c.qs / 2 → |qlinearS t r c x - x| ≤ c.qs / 2) ∧
    (c.qs / 2 ≤ x → qlinearS t r c x = c.qs / 2) ∧
    (x ≤ -(c.qs / 2) → qlinearS t r c x = -(c.qs / 2)) ∧
    (∀ y, x ≤ y → qlinearS t r c x ≤ qlinearS t r' c y) ∧
    qlinearS t r' c (qlinearS t r c x) = qlinearS t r c x := by
  simp only [C02_linear_inference t r hd, C02_linear_inference t r' hd']
  exact ⟨C02_linear_sign_nearest t c h hq x, (C02_linear_sign_saturate t c h hq x).1,
    (C02_linear_sign_saturate t c h hq x).2, fun y hxy => C02_linear_sign_mono t c h hq hxy,
    C02_linear_sign_idem t c h hq x⟩

/-- histories on ONE 1-bit object (calls, reporter reads, `symmetric` / `alpha` assignments,
    `_set_trainable_parameter()`, data-dependent scales): the call emits one of the two codes of the scale IN
    FORCE, the one on the input's side, never zero -/
theorem C02_hist_linear_sign (t : Tie) (s0 : LinSt) (h : List (HStep LinEv Ask)) (x p : ℚ)
    (hsf : ((linSpec t).final s0 h).cfg.signFn = true) (hq : 0 < ((linSpec t).final s0 h).effective.qs) :
    ∃ y : ℚ, (linSpec t).answer ((linSpec t).final s0 h) (.call x p) = .val y ∧
      (y = ((linSpec t).final s0 h).effective.qs / 2 ∨ y = -(((linSpec t).final s0 h).effective.qs / 2)) ∧
      y ≠ 0 ∧ (0 < x → y = ((linSpec t).final s0 h).effective.qs / 2) ∧
      (x < 0 → y = -(((linSpec t).final s0 h).effective.qs / 2)) := by
  have hs' : ((linSpec t).final s0 h).effective.signFn = true := by rw [LinSt.effective_signFn]; exact hsf
  refine ⟨_, rfl, C02_linear_sign_codes t _ hs' x, ?_, fun hx => C02_linear_sign_pos t _ hs' hq hx,
    fun hx => C02_linear_sign_neg t _ hs' hq hx⟩
  exact (C02_linear_sign_never_zero t { stoch := false, phase := false, u := 0, u2 := 0 } _ hs' hq.ne' x).2

/-! ### `quantized_bits(bits=1, keep_negative=1)`: `alpha · sign(x)`, `sign(0) = +1` -/

/-- closed form of the 1-bit branch, every round mode (it never reaches `_round_through`) -/
theorem C02_bits_sign_eq (t : Tie) (r : RoundMode) (c : BitsCfg) (h : ¬ 0 < c.ub) (hk : c.keepNeg = true) (x : ℚ) :
    qbits t c x = c.gain * signPM x ∧ qbitsS t r c x = c.gain * signPM x := by
  unfold qbitsS qbitsR qbits
  simp only [if_neg h, hk, if_true, and_self]

/-- two codes `±alpha`; zero is never an output -/
theorem C02_bits_sign_codes (t : Tie) (c : BitsCfg) (h : ¬ 0 < c.ub) (hk : c.keepNeg = true) (x : ℚ) :
    (qbits t c x = c.gain ∨ qbits t c x = -c.gain) ∧ (c.gain ≠ 0 → qbits t c x ≠ 0) := by
  rw [(C02_bits_sign_eq t { stoch := false, phase := false, u := 0, u2 := 0 } c h hk x).1]
  unfold signPM
  split
  · exact ⟨Or.inr (by ring), fun hg h0 => hg (by linarith)⟩
  · exact ⟨Or.inl (by ring), fun hg h0 => hg (by linarith)⟩

/-- the unscaled quantizer: in range `[-1, 1]` within half the code distance (`1`), no code strictly closer at
    any input, the end code outside, zero goes to `+1` -/
theorem C02_bits_sign_nearest (t : Tie) (c : BitsCfg) (h : ¬ 0 < c.ub) (hk : c.keepNeg = true) (hg : c.gain = 1)
    (x : ℚ) :
    (-1 ≤ x → x ≤ 1 → |qbits t c x - x| ≤ 1) ∧
    (|qbits t c x - x| ≤ |1 - x| ∧ |qbits t c x - x| ≤ |-1 - x|) ∧
    (0 ≤ x → qbits t c x = 1) ∧ (x < 0 → qbits t c x = -1) := by
  rw [(C02_bits_sign_eq t { stoch := false, phase := false, u := 0, u2 := 0 } c h hk x).1, hg, one_mul]
  unfold signPM
  rcases lt_or_ge x 0 with hx | hx
  · rw [if_pos hx]
    refine ⟨fun h1 h2 => by rw [abs_le]; constructor <;> linarith, ⟨?_, le_refl _⟩, fun h0 => by linarith, fun _ => rfl⟩
    rw [abs_of_pos (by linarith : (0 : ℚ) < 1 - x), abs_le]; constructor <;> linarith
  · rw [if_neg (not_lt.mpr hx)]
    refine ⟨fun h1 h2 => by rw [abs_le]; constructor <;> linarith, ⟨le_refl _, ?_⟩, fun _ => rfl, fun h0 => by linarith⟩
    rw [abs_of_neg (by linarith : (-1 : ℚ) - x < 0), abs_le]; constructor <;> linarith

/-- idempotent for EVERY positive constant scale (the sign of `±alpha` is the sign of the code) -/
theorem C02_bits_sign_idem (t : Tie) (c : BitsCfg) (h : ¬ 0 < c.ub) (hk : c.keepNeg = true) (hg : 0 < c.gain) (x : ℚ) :
    qbits t c (qbits t c x) = qbits t c x := by
  have e := fun y => (C02_bits_sign_eq t { stoch := false, phase := false, u := 0, u2 := 0 } c h hk y).1
  rw [e (qbits t c x), e x]
  unfold signPM
  split
  · rw [if_pos (by nlinarith)]
  · rw [if_neg (by nlinarith)]

/-- what a sign function with `sign(0) = 0` (`tf.sign` without the `+ (1 - |sign|)` repair, or `0.5 * sign`
    instead of the shift-clip-round sequence) would emit at zero is NOT a code of either format: the model's
    answers at the input `0` are the upper codes -/
theorem C02_sign_at_zero_witness :
    qlinear .even { bits := 1, integer := 0, symmetric := true, keepNeg := true, alpha := none } 0 = 1 / 2 ∧
    qlinear .even { bits := 1, integer := 2, symmetric := false, keepNeg := true, alpha := some (1/2) } 0 = 1 ∧
    qbits .even { bits := 1, integer := 0, symmetric := false, keepNeg := true, alpha := some 2 } 0 = 2 := by
  refine ⟨by decide +kernel, by decide +kernel, by decide +kernel⟩

/-! ## non-vacuity -/

example : let c : BitsCfg := { bits := 4, integer := 0, symmetric := false, keepNeg := true, alpha := none }
    (c.lo : ℚ) * c.step ≤ 3 / 10 ∧ (3 / 10 : ℚ) ≤ (c.hi : ℚ) * c.step ∧ qbits .even c (3 / 10) = 1 / 4 := by
  refine ⟨by decide +kernel, by decide +kernel, by decide +kernel⟩

end QKV.Props.C02
