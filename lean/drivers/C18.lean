/- line-protocol driver for C18 (layer data types of a chain, clause oracle, estimator) -/
import QKV.Drv.QRecJson
import QKV.Model.LayerTypes
import QKV.Model.Estimator
import QKV.Model.Po2Range
open Lean QKV QKV.Drv

/-- a qkeras quantizer as the conversion reads it -/
def qkOfJson (j : Json) : Except String QKerasQ := do
  pure { cls := ← getStr j "cls", bits := ← getInt j "bits", integer := ← getInt j "integer",
         keepNegative := ← getBool j "keep_negative", use01 := ← getBool j "use_01",
         negSlopeNonzero := ← getBool j "neg_slope_nonzero", maxValue := ← getOptRat j "max_value" }

/-- a quantizer slot: null, a default-mode string, or a qkeras quantizer object -/
def typeOfJson (j : Json) : Except String (Option QRec) :=
  match j with
  | .null => pure none
  | .str s =>
    match DefaultMode.ofString? s with
    | some m => pure (some (makeDefaultQuantizer m))
    | none => throw s!"unknown default mode {s}"
  | _ => do
    let q ← qkOfJson j
    match ofQuantizer q with
    | some r => pure (some r)
    | none => throw s!"unsupported quantizer {q.cls}"

def optField (j : Json) (k : String) : Json := (j.getObjVal? k).toOption.getD Json.null

def nodeOfJson (j : Json) : Except String Node := do
  let t ← getStr j "t"
  match t with
  | "qact" =>
    let some q ← typeOfJson (← j.getObjVal? "q") | throw "qact without quantizer"
    pure (.qact q)
  | "pass" => pure .pass
  | "layer" =>
    let some kind := LayerKind.ofString? (← getStr j "kind") | throw "unknown layer kind"
    let some w ← typeOfJson (← j.getObjVal? "w") | throw "layer without weight quantizer"
    let b ← typeOfJson (optField j "b")
    let act ← typeOfJson (optField j "act")
    let shape ← getNatList j "shape"
    let ap ← match optField j "scales" with
      | .null => pure none
      | _ => do
        let sc ← getRatList j "scales"
        if sc.isEmpty then pure none else pure (some (autoPo2Shifts sc))
    pure (.layer kind w b shape act ap)
  | _ => throw s!"unknown node {t}"

/-- the constants of a node on the `is_inference=True` route (`wvals`, `bvals`, `unused_b`) -/
def constsOfJson (j : Json) : Except String InfConsts := do
  let lst (k : String) : Except String (List Rat) :=
    match optField j k with
    | .null => pure []
    | _ => getRatList j k
  pure { wv := ← lst "wvals", bv := ← lst "bvals", unusedBias := ← typeOfJson (optField j "unused_b") }

def optRec (q : Option QRec) : Json := match q with | none => Json.null | some r => qrecToJson r

def ltToJson (lt : LayerTypes) : Json :=
  Json.mkObj [("weight", qrecToJson lt.weight), ("bias", optRec lt.bias),
    ("impl", Json.str lt.impl.implementedAs), ("multiplier", qrecToJson lt.multiplier),
    ("kernel_acc", qrecToJson lt.kernelAcc), ("accumulator", qrecToJson lt.accumulator),
    ("fused_accumulator", qrecToJson lt.fusedAccumulator)]

def reportToJson (r : NodeReport) : Json :=
  Json.mkObj [("input", qrecToJson r.input), ("output", qrecToJson r.output),
    ("types", match r.types with | none => Json.null | some lt => ltToJson lt)]

/-- why a value is not a value of a record -/
def whyNot (o : QRec) (s : Rat) : String :=
  if o.mode != 0 then "not-a-code"
  else match codeOf s (fixedLsb o.bits o.intBits o.signed) with
    | none => "resolution"
    | some _ => "range"

def estToJson : EstResult → Json
  | .ok e => Json.mkObj [("ok", Json.num e)]
  | .indexError => Json.mkObj [("err", Json.str "IndexError")]
  | .overflowError => Json.mkObj [("err", Json.str "OverflowError")]

def handle (j : Json) : Except String Json := do
  let op ← getStr j "op"
  match op with
  | "chain" =>
    -- source quantizer (converted, put on the first edge, re-made by the consumer), nodes
    let some src ← typeOfJson (← j.getObjVal? "src") | throw "no source quantizer"
    let nodes ← (← (← j.getObjVal? "nodes").getArr?).toList.mapM nodeOfJson
    let inference := (getBool j "inference").toOption.getD false
    if inference then
      -- the `if is_inference:` block runs per layer while the map is built, before the auto_po2 assert
      -- of the same layer; an IndexError of an earlier layer wins over an AssertionError of a later one
      let cs ← (← (← j.getObjVal? "nodes").getArr?).toList.mapM constsOfJson
      let pairs := nodes.zip cs
      let firstAssert := nodes.findIdx autoPo2Rejects
      let firstIndex := pairs.findIdx fun (n, c) =>
        match inferNode n c with | .indexError => true | .ok _ => false
      if firstIndex < pairs.length ∧ firstIndex ≤ firstAssert then
        return Json.mkObj [("err", Json.str "IndexError")]
      if firstAssert < nodes.length then return Json.mkObj [("err", Json.str "AssertionError")]
      match chainTypesInf (remake src) pairs with
      | .indexError => return Json.mkObj [("err", Json.str "IndexError")]
      | .ok (some rs, counts) =>
        return Json.mkObj [("reports", Json.arr (rs.map reportToJson).toArray),
          ("counts", Json.arr (counts.map fun (a, b) => Json.arr #[Json.num a, Json.num b]).toArray)]
      | .ok (none, _) => return Json.mkObj [("err", Json.str "bad-mode")]
    if nodes.any autoPo2Rejects then return Json.mkObj [("err", Json.str "AssertionError")]
    match chainTypes (remake src) nodes with
    | some rs => pure <| Json.mkObj [("reports", Json.arr (rs.map reportToJson).toArray)]
    | none => pure <| Json.mkObj [("err", Json.str "bad-mode")]
  | "layer_ref" =>
    -- for_reference=True / plain Keras layer
    let some x ← typeOfJson (← j.getObjVal? "x") | throw "no input quantizer"
    let some kind := LayerKind.ofString? (← getStr j "kind") | throw "unknown layer kind"
    let shape ← getNatList j "shape"
    let ub ← getBool j "use_bias"
    let mode (k : String) : Except String (Option DefaultMode) :=
      match optField j k with
      | .str s => match DefaultMode.ofString? s with
        | some m => pure (some m)
        | none => throw s!"unknown mode {s}"
      | _ => pure none
    let some interm ← mode "interm" | throw "no interm quantizer"
    match layerTypesRef kind (remake x) ub shape interm (← mode "keras_quantizer")
        (← mode "keras_accumulator") with
    | some lt => pure <| Json.mkObj [("types", ltToJson lt)]
    | none => pure <| Json.mkObj [("err", Json.str "bad-mode")]
  | "judge" =>
    -- clause oracle: which of the given values are NOT values of the (implementation's) record
    let q ← qrecOfJson (← j.getObjVal? "q")
    let vs ← getRatList j "vals"
    let mut bad : Array Json := #[]
    let mut i : Nat := 0
    for v in vs do
      if !valB q v && bad.size < 4 then
        bad := bad.push (Json.mkObj [("i", Json.num (i : Int)), ("v", ratToJson v),
                                     ("why", Json.str (whyNot q v))])
      i := i + 1
    pure <| Json.mkObj [("n", Json.num (vs.length : Int)), ("bad", Json.arr bad)]
  | "est" =>
    -- one flattened kernel slice per OUTPUT channel (depthwise: channel c·dm + m ↦ k[:, :, c, m])
    let sl ← (← (← j.getObjVal? "slices").getArr?).toList.mapM fun a => do
      (← a.getArr?).toList.mapM ratOfJson
    let bias ← getRatList j "bias"
    let xmin ← getRat j "xmin"
    let xmax ← getRat j "xmax"
    let r := analyzeAccumulator sl bias xmin xmax
    let bounds := (sl.zip bias).map fun (ws, b) => ratToJson (chanBound ws b xmin xmax)
    pure <| Json.mkObj [("result", estToJson r), ("chan_bounds", Json.arr bounds.toArray)]
  | "from_sample" =>
    -- analyze_accumulator_from_sample(mode="conservative"): samples[s] = the layer's input for sample s
    let sl ← (← (← j.getObjVal? "slices").getArr?).toList.mapM fun a => do
      (← a.getArr?).toList.mapM ratOfJson
    let sm ← (← (← j.getObjVal? "samples").getArr?).toList.mapM fun a => do
      (← a.getArr?).toList.mapM ratOfJson
    let bias ← getRatList j "bias"
    let single ← getBool j "single"
    let r := fromSampleRange single sm
    pure <| Json.mkObj [("result", estToJson (analyzeFromSample single sm sl bias)),
                        ("range", Json.arr #[ratToJson r.1, ratToJson r.2])]
  | "populate" =>
    let q ← qrecOfJson (← j.getObjVal? "q")
    pure <| Json.mkObj ((populate q).map fun (k, v) => (k, Json.num v))
  | "po2range" =>
    let (a, b) := po2RealRange (← getInt j "bits") (← getBool j "is_relu") (← getOptRat j "max_value")
    pure <| Json.mkObj [("min_exp", Json.num a), ("max_exp", Json.num b)]
  | _ => throw s!"unknown op {op}"

def main : IO Unit := lineLoop handle
