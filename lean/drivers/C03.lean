/- line-protocol driver for C03 (power-of-two quantizers) -/
import QKV.Drv.Json
import QKV.Model.Po2Quant
open Lean QKV QKV.Drv QKV.Po2Q

def formOfStr (s : String) : Except String NumForm :=
  match s with
  | "pyInt" => pure .pyInt | "pyFloat" => pure .pyFloat | "npFloat16" => pure .npFloat16
  | "npFloat32" => pure .npFloat32 | "npFloat64" => pure .npFloat64 | "npInt32" => pure .npInt32
  | "npInt64" => pure .npInt64 | "ndarrayInt" => pure .ndarrayInt | "ndarrayFloat" => pure .ndarrayFloat
  | "tfConstant" => pure .tfConstant | "tfVariable" => pure .tfVariable
  | _ => throw s!"unknown spelling {s}"

def getForm (j : Json) (k : String) (dflt : NumForm) : Except String NumForm :=
  match j.getObjVal? k with
  | .ok v => do formOfStr (← v.getStr?)
  | .error _ => pure dflt

def getBoolD (j : Json) (k : String) (dflt : Bool) : Except String Bool :=
  match j.getObjVal? k with
  | .ok _ => getBool j k
  | .error _ => pure dflt

/-- the constructor call as written (spellings default to python numbers) -/
def ctorOfJson (j : Json) : Except String Ctor := do
  let mvForm ← getForm j "mv_form" .pyFloat
  pure { relu := ← getBool j "relu", bits := ← getNat j "bits", bitsForm := ← getForm j "bits_form" .pyInt,
         maxValue := (← getOptRat j "max_value").map fun v => ⟨mvForm, v⟩,
         negSlope := ⟨← getForm j "slope_form" .pyFloat, ← getRat j "neg_slope"⟩,
         stochastic := ← getBoolD j "stoch" false,
         quad := ← getBool j "quad", floorMode := ← getBool j "floor" }

def stepOfJson (j : Json) : Except String Step := do
  match ← getStr j "set" with
  | "max_value" => pure (.setMaxValue (← getOptRat j "v"))
  | "neg_slope" => pure (.setNegSlope (← getRat j "v"))
  | "floor" => pure (.setFloor (← getBool j "b"))
  | "stoch" => pure (.setStochastic (← getBool j "b"))
  | "bits" => pure (.setBits (← getNat j "n"))
  | s => throw s!"unknown step {s}"

def histOfJson (j : Json) : Except String (List Step) :=
  match j.getObjVal? "hist" with
  | .ok v => do (← v.getArr?).toList.mapM stepOfJson
  | .error _ => pure []

/-- constructor-time rejections of the real classes -/
def cfgErr (c : Cfg) : Option String :=
  match c.maxValue with
  | some m => if m < 0 then some "value-error" else slopeErr
  | none => slopeErr
where slopeErr : Option String :=
  if c.relu then
    (if c.negSlope < 0 then some "assert"
     else if c.negSlope ≠ 0 ∧ c.negSlope ≠ pow2 (floorLog2Rat c.negSlope) then some "assert" else none)
  else none

def optRatToJson : Option Rat → Json
  | some q => ratToJson q
  | none => Json.null

/-- exact predicate: `y` is `± 2^e`; returns `e` -/
def po2Exp? (y : Rat) : Option Int :=
  if y = 0 then none else
  let a := rabs y
  let e := floorLog2Rat a
  if a = pow2 e then some e else none

def handle (j : Json) : Except String Json := do
  let op ← getStr j "op"
  let cj ← j.getObjVal? "cfg"
  let k ← ctorOfJson cj
  let eps ← getRat cj "eps"
  let training ← getBoolD cj "training" false
  match cfgErr (k.cfg eps) with
  | some e => pure <| Json.mkObj [("err", Json.str e)]
  | none =>
  let o := (Obj.init k).run (← histOfJson cj)
  let c := o.view eps       -- what the code computes with (cached exponent range)
  let cf := o.fresh eps     -- what a new object built from the current attributes computes with
  let st := o.stochastic
  let stale := decide (c.bits ≠ cf.bits)
  match op with
  | "cfg" =>
    pure <| Json.mkObj [("min_exp", Json.num cf.minExp), ("max_exp", Json.num cf.maxExp),
                        ("v_min_exp", Json.num c.minExp), ("v_max_exp", Json.num c.maxExp),
                        ("qmin", optRatToJson (qminForm o.bitsForm c)), ("qmax", ratToJson (qmaxForm o.bitsForm c)),
                        ("s_qmin", ratToJson (qmin cf)), ("s_qmax", ratToJson (qmax cf)),
                        ("stale", Json.bool stale), ("coherent", Json.bool (decide o.Coherent))]
  | "quant" =>
    let xs ← getRatList j "x"
    let ys ← getRatList j "y"      -- implementation outputs, judged here (same length as x)
    if xs.length ≠ ys.length then throw "x / y length mismatch"
    let mut out : Array Json := #[]
    for (x, y) in xs.zip ys do
      let x0 := daz x
      let v := logArg c x0
      let rs := admExpsS c st training v
      let rdet := rawExp c v
      let adm := rs.map fun (r : Int) =>
        Json.arr #[Json.num r, Json.num (clipExpWith c (magIn c x0) r), ratToJson (quantWith c x0 r),
                   optRatToJson (quantFWith c x r), Json.str (regime c x r)]
      -- clause predicates on the implementation's own output, against the FRESH configuration
      let ye := po2Exp? y
      let inRange := match ye with
        | some e => decide (cf.minExp ≤ e ∧ e ≤ cf.maxExp)
        | none => false
      let signOk := decide (y ≠ 0) && (decide (y < 0) == decide (signOut cf x0 < 0))
      let rsf := admExpsS cf st training (logArg cf x0)
      let admExact := rsf.any fun r => decide (quantWith cf x0 r = y)
      let matchF := rs.any fun r => quantFWith c x r == some y
      let leMax := match cf.maxValue with
        | some m => decide (rabs y ≤ m)
        | none => true
      -- regime of the FRESH configuration (which float32 effect, if any, the reference has here)
      let fregime := match rsf with
        | r :: _ => regime cf x r
        | [] => "none"
      out := out.push <| Json.mkObj [
        ("adm", Json.arr adm.toArray), ("det", Json.num rdet),
        ("yd", ratToJson (quant cf x0)), ("fregime", Json.str fregime),
        ("below", Json.bool (decide (magIn cf x0 < cf.eps))),
        ("clamped", Json.bool (match cf.maxValue with | some m => decide (m ≤ magIn cf x0) | none => false)),
        ("ye", match ye with | some e => Json.num e | none => Json.null),
        ("in_range", Json.bool inRange), ("sign_ok", Json.bool signOk),
        ("adm_exact", Json.bool admExact), ("match", Json.bool matchF), ("le_max", Json.bool leMax)]
    pure <| Json.mkObj [("r", Json.arr out)]
  | _ => throw s!"unknown op {op}"

def main : IO Unit := lineLoop handle
