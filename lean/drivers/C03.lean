/- line-protocol driver for C03 (power-of-two quantizers) -/
import QKV.Drv.Json
import QKV.Model.Po2Quant
open Lean QKV QKV.Drv QKV.Po2Q

def cfgOfJson (j : Json) : Except String Cfg := do
  pure { relu := ← getBool j "relu", bits := ← getNat j "bits", maxValue := ← getOptRat j "max_value",
         negSlope := ← getRat j "neg_slope", floorMode := ← getBool j "floor", quad := ← getBool j "quad",
         eps := ← getRat j "eps" }

/-- constructor-time rejections of the real classes -/
def cfgErr (c : Cfg) : Option String :=
  match c.maxValue with
  | some m => if m < 0 then some "value-error" else slopeErr
  | none => slopeErr
where slopeErr : Option String :=
  if c.relu then
    (if c.negSlope < 0 then some "assert"
     else if c.negSlope ≠ 0 ∧ c.negSlope ≠ pow2 (floorLog2Rat c.negSlope) then some "assert" else none)
  else none

def optRatToJson : Option Rat → Json
  | some q => ratToJson q
  | none => Json.null

/-- exact predicate: `y` is `± 2^e`; returns `e` -/
def po2Exp? (y : Rat) : Option Int :=
  if y = 0 then none else
  let a := rabs y
  let e := floorLog2Rat a
  if a = pow2 e then some e else none

def handle (j : Json) : Except String Json := do
  let op ← getStr j "op"
  let c ← cfgOfJson (← j.getObjVal? "cfg")
  match cfgErr c with
  | some e => pure <| Json.mkObj [("err", Json.str e)]
  | none =>
  match op with
  | "cfg" =>
    pure <| Json.mkObj [("min_exp", Json.num c.minExp), ("max_exp", Json.num c.maxExp),
                        ("qmin", ratToJson (qmin c)), ("qmax", ratToJson (qmax c))]
  | "quant" =>
    let xs ← getRatList j "x"
    let ys ← getRatList j "y"      -- implementation outputs, judged here (same length as x)
    if xs.length ≠ ys.length then throw "x / y length mismatch"
    let mut out : Array Json := #[]
    for (x, y) in xs.zip ys do
      let x0 := daz x
      let v := logArg c x0
      let rs := admExps c v
      let rdet := rawExp c v
      let adm := rs.map fun (r : Int) =>
        Json.arr #[Json.num r, Json.num (clipExpWith c (magIn c x0) r), ratToJson (quantWith c x0 r),
                   optRatToJson (quantFWith c x r), Json.str (regime c x r)]
      -- clause predicates on the implementation's own output
      let ye := po2Exp? y
      let inRange := match ye with
        | some e => decide (c.minExp ≤ e ∧ e ≤ c.maxExp)
        | none => false
      let signOk := decide (y ≠ 0) && (decide (y < 0) == decide (signOut c x0 < 0))
      let admExact := rs.any fun r => decide (quantWith c x0 r = y)
      let matchF := rs.any fun r => quantFWith c x r == some y
      let leMax := match c.maxValue with
        | some m => decide (rabs y ≤ m)
        | none => true
      out := out.push <| Json.mkObj [
        ("adm", Json.arr adm.toArray), ("det", Json.num rdet),
        ("yd", ratToJson (quant c x0)),
        ("below", Json.bool (decide (magIn c x0 < c.eps))),
        ("clamped", Json.bool (match c.maxValue with | some m => decide (m ≤ magIn c x0) | none => false)),
        ("ye", match ye with | some e => Json.num e | none => Json.null),
        ("in_range", Json.bool inRange), ("sign_ok", Json.bool signOk),
        ("adm_exact", Json.bool admExact), ("match", Json.bool matchF), ("le_max", Json.bool leMax)]
    pure <| Json.mkObj [("r", Json.arr out)]
  | _ => throw s!"unknown op {op}"

def main : IO Unit := lineLoop handle
