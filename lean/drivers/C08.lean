/- line-protocol driver for C08 (stochastic rounding); runs QKV.Model.Stoch -/
import QKV.Drv.Json
import QKV.Model.Stoch
open Lean QKV QKV.Drv QKV.Stoch

def ratsToJson (l : List Rat) : Json := Json.arr (l.map ratToJson).toArray
def boolsToJson (l : List Bool) : Json := Json.arr (l.map Json.bool).toArray
def intsToJson (l : List Int) : Json := Json.arr (l.map (fun (i : Int) => Json.num (JsonNumber.fromInt i))).toArray

def getRatListD (j : Json) (k : String) (n : Nat) : Except String (List Rat) :=
  match j.getObjVal? k with
  | .ok _ => getRatList j k
  | .error _ => pure (List.replicate n 0)

def getBoolD (j : Json) (k : String) (d : Bool) : Except String Bool :=
  match j.getObjVal? k with
  | .ok _ => getBool j k
  | .error _ => pure d


/-- `alpha` on the wire: `null` (None), `"auto"`, `"auto_po2"`, or an exact rational -/
def alphaOfJson (j : Json) (k : String) : Except String Alpha :=
  match j.getObjVal? k with
  | .error _ => pure .none
  | .ok .null => pure .none
  | .ok (.str "auto") => pure .auto
  | .ok (.str "auto_po2") => pure .autoPo2
  | .ok v => do pure (.num (← ratOfJson v))

def alphaToJson : Alpha → Json
  | .none => .null
  | .auto => .str "auto"
  | .autoPo2 => .str "auto_po2"
  | .num a => ratToJson a

def optRatToJson : Option Rat → Json
  | none => .null
  | some r => ratToJson r

def optRatsToJson : Option (List Rat) → Json
  | none => .null
  | some l => ratsToJson l

def ternObjToJson (o : TernObj) : List (String × Json) :=
  [("alpha", alphaToJson o.alpha), ("threshold", optRatToJson o.threshold),
   ("use_stochastic_rounding", Json.bool o.stoch), ("number_of_unrolls", Json.num (o.unrolls : Int))]

def binObjToJson (o : BinObj) : List (String × Json) :=
  [("use_01", Json.bool o.use01), ("alpha", alphaToJson o.alpha), ("use_stochastic_rounding", Json.bool o.stoch)]

/-- the float-sensitive spots of the "auto_po2" iteration: every pre-rounding scale must be at least
    2^-10 (relative) away from a rounding boundary `sqrt2 * 2^k` of `2^round(log2 .)` — then the float32
    evaluation of the code and the exact one round to the same power of two -/
def bandOk (s : Rat) : Bool :=
  decide (0 < s) && (roundLog2 (s * (1 + pow2 (-10)) + epsK) == roundLog2 (s * (1 - pow2 (-10)) + epsK))

/-- `(scale_0 .. scale_n, band flags)` of the inference iteration on one channel -/
def ternTrace (po2 : Bool) (xs : List Rat) : Nat → Rat → List Rat × List Bool
  | 0, scale => ([scale], [])
  | n + 1, scale =>
    let q := ternCodes false false xs scale []
    let raw := lsScale false xs q
    let r := ternTrace po2 xs n (lsScale po2 xs q)
    (scale :: r.1, (!po2 || bandOk raw) :: r.2)

def zip3 (a b c : List Rat) : List (Rat × Rat × Rat) := (a.zip (b.zip c))

def bitsCfgOfJson (j : Json) : Except String BitsCfg := do
  pure { bits := ← getInt j "bits", integer := ← getInt j "integer",
         symmetric := ← getBool j "symmetric", keepNegative := ← getBool j "keep_negative",
         alpha := ← getRat j "alpha", stoch := ← getBool j "stoch" }

/-- lattice judgments for element with level `p` -/
def latOut (L : Lat) (ps : List Rat) (xcodes : List Rat) : List (String × Json) :=
  [("below", ratsToJson (ps.map L.below)), ("above", ratsToJson (ps.map L.above)),
   ("frac", ratsToJson (ps.map L.frac)), ("clipped", ratsToJson (ps.map L.clipped)),
   ("xcode", boolsToJson (xcodes.map L.isCode)), ("post", ratToJson L.post)]

def handleQ (j : Json) : Except String Json := do
  let op ← getStr j "op"
  match op with
  | "consts" =>
    pure <| Json.mkObj [("act_precision", ratToJson actPrecision),
                        ("bits_precision", ratToJson bitsPrecision), ("eps", ratToJson epsK)]
  | "sr" =>
    let xs ← getRatList j "x"
    let us ← getRatList j "u"
    let π ← getRat j "prec"
    pure <| Json.mkObj [("y", ratsToJson ((xs.zip us).map fun (x, u) => stochasticRound x π u))]
  | "rt" =>
    let xs ← getRatList j "x"
    let us ← getRatList j "u"
    let π ← getRat j "prec"
    let phase ← getBool j "phase"
    let stoch ← getBool j "stoch"
    pure <| Json.mkObj [("y", ratsToJson ((xs.zip us).map fun (x, u) => roundThrough phase stoch π x u))]
  | "srpo2" =>
    let ys ← getRatList j "x"
    let us ← getRatList j "u"
    pure <| Json.mkObj [
      ("y", intsToJson ((ys.zip us).map fun (y, u) => stochasticRoundPo2 y u)),
      ("h_ok", boolsToJson (ys.map fun y => po2H (absR y) (roundLog2 (absR y + epsK))))]
  | "q" =>
    let cls ← getStr j "cls"
    let phase ← getBool j "phase"
    let xs ← getRatList j "x"
    let n := xs.length
    let u1 ← getRatListD j "u1" n
    let u2 ← getRatListD j "u2" n
    match cls with
    | "quantized_bits" =>
      let c ← bitsCfgOfJson j
      let ys := (xs.zip u1).map fun (x, u) => quantizedBits c phase x u
      if 0 < c.bits - b2z c.keepNegative then
        pure <| Json.mkObj ([("y", ratsToJson ys)] ++ latOut (bitsLat c) (xs.map (bitsLevel c)) xs)
      else pure <| Json.mkObj [("y", ratsToJson ys)]
    | "quantized_bits_auto" =>
      -- alpha "auto" / "auto_po2": S = self.scale after the call, broadcast per element (oracle)
      let c ← bitsCfgOfJson j
      let ss ← getRatList j "S"
      pure <| Json.mkObj [("y", ratsToJson ((xs.zip (ss.zip u1)).map fun (x, S, u) =>
                                              quantizedBitsAny true c phase S x u))]
    | "quantized_linear" =>
      let c ← bitsCfgOfJson j
      let ys := (xs.zip u1).map fun (x, u) => quantizedLinear c phase x u
      pure <| Json.mkObj ([("y", ratsToJson ys)] ++ latOut (linLat c) (xs.map (linLevel c)) xs)
    | "quantized_relu" =>
      let c : ReluCfg := { bits := ← getInt j "bits", integer := ← getInt j "integer",
                           negSlope := ← getRat j "neg_slope", stoch := ← getBool j "stoch" }
      let π := (← getOptRat j "prec").getD actPrecision
      let ys := (zip3 xs u1 u2).map fun (x, a, b) => quantizedRelu π c phase x a b
      -- reference lattice: positive side; for x < 0 with a slope the level is p*slope, bounds [-slope*m, 0]
      let L := reluLat c
      let m := pow2 (c.bits - (if c.negSlope = 0 then 0 else 1))
      let Ln : Lat := { L with lo := -(c.negSlope * m), hi := 0 }
      let lv := fun x => reluLevel c x
      let pick := fun (f : Lat → Rat → Rat) (x : Rat) =>
        if 0 ≤ x ∨ c.negSlope = 0 then f L (lv x) else f Ln (lv x * c.negSlope)
      pure <| Json.mkObj [("y", ratsToJson ys),
        ("below", ratsToJson (xs.map (pick Lat.below))), ("above", ratsToJson (xs.map (pick Lat.above))),
        ("frac", ratsToJson (xs.map (pick Lat.frac))), ("clipped", ratsToJson (xs.map (pick Lat.clipped))),
        ("xcode", boolsToJson (xs.map fun x => if 0 ≤ x ∨ c.negSlope = 0 then L.isCode x else Ln.isCode x)),
        ("post", ratToJson L.post)]
    | "quantized_tanh" | "quantized_sigmoid" =>
      -- x carries the oracle value p = tanh(x) / sigmoid(x) computed by the same TF op
      let bits ← getInt j "bits"
      let sym ← getBool j "symmetric"
      let stoch ← getBool j "stoch"
      let π := (← getOptRat j "prec").getD actPrecision
      let isT := cls == "quantized_tanh"
      let L := if isT then tanhLat bits sym else sigmoidLat bits sym
      let m := if isT then pow2 (bits - 1) else pow2 bits
      let ys := (xs.zip u1).map fun (p, u) =>
        if isT then quantizedTanh π bits sym stoch phase p u else quantizedSigmoid π bits sym stoch phase p u
      pure <| Json.mkObj ([("y", ratsToJson ys)] ++ latOut L (xs.map (· * m)) xs)
    | "quantized_po2" | "quantized_relu_po2" =>
      let bits ← getInt j "bits"
      let mv ← getOptRat j "max_value"
      let stoch ← getBool j "stoch"
      let floorMode ← getBoolD j "floor" false
      let quad ← getBoolD j "quad" false
      -- oracle: tf.sqrt(x_filter) of the selected side (only read under quadratic approximation)
      let ss ← getRatListD j "s" n
      let isR := cls == "quantized_relu_po2"
      let ns := (← getOptRat j "neg_slope").getD 0
      let c := if isR then reluPo2CfgOf bits mv stoch floorMode quad else po2CfgOf bits mv stoch floorMode quad
      let ys := (zip3 xs ss (u1.zip u2 |>.map fun _ => 0)).zip (u1.zip u2) |>.map fun ((x, s, _), (a, b)) =>
        if isR then quantizedReluPo2 c ns phase x s a b else quantizedPo2 c phase x s a
      -- the magnitude that is rounded, and the sign of the emitted code
      let mag := fun (x : Rat) =>
        if isR then (if 0 ≤ x ∨ ns = 0 then relu x 0 else relu (-x) 0 * ns) else absR x
      let sg := fun (x : Rat) =>
        if isR then (if 0 ≤ x ∨ ns = 0 then (1 : Rat) else -1) else sgn1 x
      let yf := fun x => po2Filter c (mag x)
      let qf := po2Qf c
      let xss := xs.zip ss
      pure <| Json.mkObj [("y", ratsToJson ys),
        ("below", ratsToJson (xs.map fun x => sg x * pow2 (po2BelowExp c (mag x)))),
        ("above", ratsToJson (xs.map fun x => sg x * pow2 (po2AboveExp c (mag x)))),
        ("frac", ratsToJson (xs.map fun x => po2Frac c (mag x))),
        ("clipped", ratsToJson (xs.map fun x =>
            sg x * (if mag x < epsK then pow2 c.minExp
                    else clip (yf x) (pow2 (qf * c.minExp)) (pow2 (qf * c.maxExp))))),
        ("xcode", boolsToJson (xs.map fun x => po2IsPow c (mag x) && decide (c.minExp ≤ po2Floor c (mag x))
                                      && decide (po2Floor c (mag x) ≤ c.maxExp) && decide (epsK ≤ mag x)
                                      && decide (yf x = mag x))),
        ("bracket_ok", boolsToJson (xs.map fun x =>
            let l := po2Floor c (mag x)
            decide (pow2 (qf * l) ≤ yf x) && decide (yf x < pow2 (qf * (l + 1))))),
        ("h_ok", boolsToJson (xss.map fun (x, s) =>
            let xin := po2Input c (mag x) s
            po2H xin (roundLog2 (xin + epsK)))),
        ("sqrt_ok", boolsToJson (xss.map fun (x, s) =>
            !quad || (decide (0 < s) && decide (yf x * (1 - pow2 (-22)) ≤ s * s)
                      && decide (s * s ≤ yf x * (1 + pow2 (-22)))))),
        ("sqrt_exact", boolsToJson (xss.map fun (x, s) => !quad || decide (s * s = yf x))),
        ("tiny", boolsToJson (xs.map fun x => decide (mag x < epsK))),
        ("min_exp", Json.num c.minExp), ("max_exp", Json.num c.maxExp)]
    | "binary" =>
      let use01 ← getBool j "use_01"
      let stoch ← getBool j "stoch"
      let alpha ← getRat j "alpha"
      let ms ← getRatList j "m"
      let ys := (zip3 xs ms (u1.zip u2 |>.map fun _ => 0)).zip (u1.zip u2) |>.map
        fun ((x, m, _), (a, b)) => binaryQ use01 stoch phase alpha x m a b
      pure <| Json.mkObj [("y", ratsToJson ys)]
    | "ternary_step" =>
      let stoch ← getBool j "stoch"
      let ss ← getRatList j "scale"
      let ys := (zip3 xs ss u1).map fun (x, s, u) => ternaryStep stoch phase x s u
      pure <| Json.mkObj [("y", ratsToJson ys)]
    | "stochastic_binary" =>
      let alpha ← getRat j "alpha"
      let ps ← getRatListD j "p" n
      let ys := (zip3 xs ps u1).map fun (x, p, r) => stochasticBinary phase alpha x p r
      pure <| Json.mkObj [("y", ratsToJson ys)]
    | _ => throw s!"unknown class {cls}"
  | "init" =>
    -- the constructors: arguments -> the attributes the calls read
    let cls ← getStr j "cls"
    let alpha ← alphaOfJson j "alpha"
    match cls with
    | "ternary" =>
      let o := ternaryInit alpha (← getOptRat j "threshold") (← getBoolD j "use_stochastic_rounding" false)
                 (← getNat j "number_of_unrolls")
      pure <| Json.mkObj (ternObjToJson o)
    | "stochastic_ternary" =>
      let o := stochasticTernaryInit alpha (← getOptRat j "threshold") (← getRat j "temperature")
                 (← getBool j "use_real_sigmoid") (← getNat j "number_of_unrolls")
      pure <| Json.mkObj (ternObjToJson o.base ++
        [("temperature", ratToJson o.temperature), ("use_real_sigmoid", Json.bool o.realSigmoid)])
    | "binary" =>
      let o := binaryInit (← getBoolD j "use_01" false) alpha (← getBoolD j "use_stochastic_rounding" false)
      pure <| Json.mkObj (binObjToJson o)
    | "stochastic_binary" =>
      let o := stochasticBinaryInit alpha (← getRat j "temperature") (← getBool j "use_real_sigmoid")
      pure <| Json.mkObj (binObjToJson o.base ++
        [("temperature", ratToJson o.temperature), ("use_real_sigmoid", Json.bool o.realSigmoid)])
    | _ => throw s!"unknown class {cls}"
  | "tcall" =>
    -- whole call at phase 0 on ONE channel (column) of a rank-2 tensor, object built by the constructor
    let cls ← getStr j "cls"
    let alpha ← alphaOfJson j "alpha"
    let thr ← getOptRat j "threshold"
    let n ← getNat j "number_of_unrolls"
    let xs ← getRatList j "x"
    let y ← match cls with
      | "ternary" =>
        pure (ternaryCall (ternaryInit alpha thr (← getBoolD j "use_stochastic_rounding" false) n) false xs [])
      | "stochastic_ternary" =>
        pure (stochasticTernaryCall (stochasticTernaryInit alpha thr (← getRat j "temperature")
                (← getBool j "use_real_sigmoid") n) false xs 0 [] [] [] [])
      | _ => throw s!"unknown class {cls}"
    let po2 := decide (alpha = .autoPo2)
    let tr := if alpha.isAuto then ternTrace po2 xs n (ternStart po2 xs) else ([], [])
    let startOk := !po2 || bandOk (2 * maxAbs xs / 3)
    pure <| Json.mkObj [("y", optRatsToJson y), ("scales", ratsToJson tr.1),
                        ("band_ok", Json.bool (startOk && tr.2.all id))]
  | "binshape" =>
    let shape ← getNatList j "shape"
    pure <| Json.mkObj [("ok", Json.bool (binaryInferShapeOk shape))]
  | _ => throw s!"unknown op {op}"

/-- op "layer": a history of calls on ONE layer object, run through `QKV.Stoch.layerRun` (the
    definition the `C08_layer_*` / `C08_qactivation_*` theorems are about).  Every call is a complete
    "q" line (class, options, input, draws, phase) plus "sig" (id of the input signature); the quantizer
    handed to `layerRun` evaluates that line with the phase and the draws the LAYER passes on, so for
    `traced = true` a replayed call is evaluated with the phase / draws recorded at trace time. -/
def handle (j : Json) : Except String Json := do
  let op ← getStr j "op"
  if op == "layer" then
    let traced ← getBool j "traced"
    let calls ← match j.getObjVal? "calls" with
      | .ok (.arr a) => pure a.toList
      | _ => throw "layer: calls must be an array"
    let hist : List (LCall Json (Json × Json)) ← calls.mapM fun c => do
      pure { phase := ← getBool c "phase", sig := ← getNat c "sig", x := c,
             u := ((c.getObjVal? "u1").toOption.getD .null, (c.getObjVal? "u2").toOption.getD .null) }
    let q := fun (ph : Bool) (line : Json) (u : Json × Json) =>
      let l1 := line.setObjVal! "phase" (Json.bool ph)
      let l2 := if u.1.isNull then l1 else l1.setObjVal! "u1" u.1
      let l3 := if u.2.isNull then l2 else l2.setObjVal! "u2" u.2
      handleQ l3
    let outs ← (layerRun traced q [] hist).mapM id
    pure <| Json.mkObj [("outs", Json.arr outs.toArray),
                        ("qactivation_traced", Json.bool qactivationTraced),
                        ("predict_traced", Json.bool kerasPredictTraced)]
  else handleQ j

def main : IO Unit := lineLoop handle
