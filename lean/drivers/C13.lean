/- line-protocol driver for C13 (layer / quantizer configuration round trips, custom-object table) -/
import QKV.Drv.Json
import QKV.Model.LayerConfigTables
open Lean QKV QKV.Drv QKV.LC

/-! PyVal ↔ JSON: null | bool | {"$r":[n,d]} | string | array | {"$d":{...}} -/

partial def pvOfJson (j : Json) : Except String PyVal := do
  match j with
  | .null => pure .none
  | .bool b => pure (.bool b)
  | .str s => pure (.str s)
  | .num _ => do let q ← ratOfJson j; pure (.num q)
  | .arr a => do let l ← a.toList.mapM pvOfJson; pure (.list l)
  | .obj _ =>
    match j.getObjVal? "$r" with
    | .ok r => do let q ← ratOfJson r; pure (.num q)
    | .error _ =>
      match j.getObjVal? "$d" with
      | .ok (.obj kvs) => do
        let l ← (kvs.toList).mapM fun (k, v) => do let pv ← pvOfJson v; pure (k, pv)
        pure (.dict l)
      | _ => throw s!"bad PyVal object {j.compress}"

partial def pvToJson : PyVal → Json
  | .none => .null
  | .bool b => .bool b
  | .num q => Json.mkObj [("$r", ratToJson q)]
  | .str s => .str s
  | .list l => .arr (l.map pvToJson).toArray
  | .dict d => Json.mkObj [("$d", Json.mkObj (d.map fun (k, v) => (k, pvToJson v)))]

def pairsOfJson (j : Json) : Except String Cfg := do
  let a ← j.getArr?
  a.toList.mapM fun kv => do
    match kv with
    | .arr #[.str k, v] => do let pv ← pvOfJson v; pure (k, pv)
    | _ => throw s!"bad pair {kv.compress}"

def pairsToJson (c : Cfg) : Json := .arr (c.map fun (k, v) => Json.arr #[.str k, pvToJson v]).toArray

def qobjOfJson (j : Json) : Except String QObj := do
  let native ← match j.getObjVal? "native" with
    | .ok (.arr a) => a.toList.mapM fun x => match x with
        | .str s => pure s
        | _ => throw s!"bad native entry {x.compress}"
    | _ => pure []
  pure ⟨← getStr j "cls", ← pairsOfJson (← j.getObjVal? "args"), native⟩
def qobjToJson (q : QObj) : Json :=
  Json.mkObj [("cls", .str q.cls), ("args", pairsToJson q.args), ("native", .arr (q.native.map Json.str).toArray)]

def qvalOfJson (j : Json) : Except String QVal := do
  match j with
  | .null => pure .none
  | _ =>
    match j.getObjVal? "str" with
    | .ok (.str s) => pure (.str s)
    | _ => do let q ← qobjOfJson (← j.getObjVal? "obj"); pure (.obj q)
def qvalToJson : QVal → Json
  | .none => .null
  | .str s => Json.mkObj [("str", .str s)]
  | .obj q => Json.mkObj [("obj", qobjToJson q)]

def actOfJson (j : Json) : Except String Act := do
  match j with
  | .null => pure .none
  | _ =>
    match j.getObjVal? "fn", j.getObjVal? "raw" with
    | .ok (.str s), _ => pure (.fn s)
    | _, .ok (.str s) => pure (.raw s)
    | _, _ => do let q ← qobjOfJson (← j.getObjVal? "obj"); pure (.obj q)
def actToJson : Act → Json
  | .none => .null
  | .fn s => Json.mkObj [("fn", .str s)]
  | .raw s => Json.mkObj [("raw", .str s)]
  | .obj q => Json.mkObj [("obj", qobjToJson q)]

def constrOfJson (j : Json) : Except String Constr := do
  match j with
  | .null => pure .none
  | _ =>
    match j.getObjVal? "keras" with
    | .ok v => do let pv ← pvOfJson v; pure (.keras pv)
    | .error _ => do
      let c ← j.getObjVal? "clip"
      pure (.clip ⟨← pvOfJson (← c.getObjVal? "min"), ← pvOfJson (← c.getObjVal? "max"),
                   ← pvOfJson (← c.getObjVal? "inner"), ← qvalOfJson (← c.getObjVal? "q")⟩)
def constrToJson : Constr → Json
  | .none => .null
  | .keras v => Json.mkObj [("keras", pvToJson v)]
  | .clip c => Json.mkObj [("clip", Json.mkObj [("min", pvToJson c.minV), ("max", pvToJson c.maxV),
                                               ("inner", pvToJson c.inner), ("q", qvalToJson c.quantizer)])]

def initOfJson (j : Json) : Except String Init := do
  match j with
  | .null => pure .none
  | _ =>
    match j.getObjVal? "keras" with
    | .ok v => do let pv ← pvOfJson v; pure (.keras pv)
    | .error _ => do
      let c ← j.getObjVal? "qinit"
      pure (.qinit (← pvOfJson (← c.getObjVal? "inner")) (← pvOfJson (← c.getObjVal? "use_scale"))
                   (← qvalOfJson (← c.getObjVal? "q")))
def initToJson : Init → Json
  | .none => .null
  | .keras v => Json.mkObj [("keras", pvToJson v)]
  | .qinit i u q => Json.mkObj [("qinit", Json.mkObj [("inner", pvToJson i), ("use_scale", pvToJson u),
                                                       ("q", qvalToJson q)])]

def argOfJson (j : Json) : Except String Arg := do
  match j.getObjVal? "lit", j.getObjVal? "q", j.getObjVal? "act", j.getObjVal? "constr", j.getObjVal? "init" with
  | .ok v, _, _, _, _ => do let pv ← pvOfJson v; pure (.lit pv)
  | _, .ok v, _, _, _ => do let q ← qvalOfJson v; pure (.q q)
  | _, _, .ok v, _, _ => do let a ← actOfJson v; pure (.act a)
  | _, _, _, .ok v, _ => do let c ← constrOfJson v; pure (.constr c)
  | _, _, _, _, .ok v => do let i ← initOfJson v; pure (.init i)
  | _, _, _, _, _ => throw s!"bad arg {j.compress}"
def argToJson : Arg → Json
  | .lit v => Json.mkObj [("lit", pvToJson v)]
  | .q v => Json.mkObj [("q", qvalToJson v)]
  | .act a => Json.mkObj [("act", actToJson a)]
  | .constr c => Json.mkObj [("constr", constrToJson c)]
  | .init i => Json.mkObj [("init", initToJson i)]

def layerOfJson (j : Json) : Except String Layer := do
  let a ← (← j.getObjVal? "args").getArr?
  let args ← a.toList.mapM fun kv => do
    match kv with
    | .arr #[.str k, v] => do let x ← argOfJson v; pure (k, x)
    | _ => throw s!"bad arg pair {kv.compress}"
  pure ⟨← getStr j "cls", ← pairsOfJson (← j.getObjVal? "kwargs"), args⟩
def layerToJson (l : Layer) : Json :=
  Json.mkObj [("cls", .str l.cls), ("kwargs", pairsToJson l.kwargs),
              ("args", .arr (l.args.map fun (k, a) => Json.arr #[.str k, argToJson a]).toArray)]

/-! executable equality -/
def cfgBeq (a b : Cfg) : Bool := PyVal.beqD a b
def qobjBeq (a b : QObj) : Bool := a.cls == b.cls && cfgBeq a.args b.args
def qvalBeq : QVal → QVal → Bool
  | .none, .none => true
  | .str a, .str b => a == b
  | .obj a, .obj b => qobjBeq a b
  | _, _ => false
def argBeq : Arg → Arg → Bool
  | .lit a, .lit b => a.beq b
  | .q a, .q b => qvalBeq a b
  | .act .none, .act .none => true
  | .act (.fn a), .act (.fn b) => a == b
  | .act (.raw a), .act (.raw b) => a == b
  | .act (.obj a), .act (.obj b) => qobjBeq a b
  | .constr .none, .constr .none => true
  | .constr (.keras a), .constr (.keras b) => a.beq b
  | .constr (.clip a), .constr (.clip b) =>
    a.minV.beq b.minV && a.maxV.beq b.maxV && a.inner.beq b.inner && qvalBeq a.quantizer b.quantizer
  | .init .none, .init .none => true
  | .init (.keras a), .init (.keras b) => a.beq b
  | .init (.qinit i u q), .init (.qinit i' u' q') => i.beq i' && u.beq u' && qvalBeq q q'
  | _, _ => false

def errStr : Err → String
  | .typeError => "type-error"
  | .unknownObject => "unknown-object"
  | .valueError => "value-error"
  | .attributeError => "attribute-error"

/-- the driver's environment: real tables, constant clip-bound oracle (never exercised by configs
    that `get_config` produced: a wrapped slot always carries its Clip) -/
def E : Env := env (fun _ => .num 1)

def kindToJson : Kind → Json
  | .lit => Json.mkObj [("k", "lit")]
  | .fixed v => Json.mkObj [("k", "fixed"), ("v", pvToJson v)]
  | .quant t => Json.mkObj [("k", "quant"), ("t", .bool t)]
  | .act => Json.mkObj [("k", "act")]
  | .rawAct => Json.mkObj [("k", "rawAct")]
  | .mask => Json.mkObj [("k", "mask")]
  | .constr q c => Json.mkObj [("k", "constr"), ("q", .str q), ("cond", .arr (c.map Json.str).toArray)]
  | .init q c r => Json.mkObj [("k", "init"), ("q", .str q), ("cond", .arr (c.map Json.str).toArray), ("raw", .bool r)]

def tablesJson : Json :=
  Json.mkObj [
    ("quantizers", .arr (qSpecs.map fun s => Json.mkObj [
        ("name", .str s.name), ("params", pairsToJson s.params), ("emits", .arr (s.emits.map Json.str).toArray),
        ("extra", pairsToJson s.extra), ("trainable", Json.num (s.trainable : Int)),
        ("tolist", .arr (s.tolist.map Json.str).toArray)]).toArray),
    ("layers", .arr (lSpecs.map fun s => Json.mkObj [
        ("name", .str s.name), ("none_is_linear", .bool s.noneIsLinear), ("hook", Json.num (s.hook : Int)),
        ("reports", .arr (((reportedSlots.lookup s.name).getD []).map Json.str).toArray),
        ("base_kwargs", .arr (((baseKwargs.lookup s.name).getD []).map fun b => Json.mkObj [
            ("name", .str b.name), ("default", pvToJson b.default), ("emitted", .bool b.emitted),
            ("read", .bool b.read)]).toArray),
        ("params", .arr (s.params.map fun p => Json.mkObj [
            ("name", .str p.name), ("kind", kindToJson p.kind), ("default", argToJson p.default),
            ("required", .bool p.required), ("emitted", .bool p.emitted), ("read", .bool p.read)]).toArray)]).toArray),
    ("custom_objects", .arr (customObjects.map Json.str).toArray),
    ("keras_activation_names", .arr (kerasActivationNames.map Json.str).toArray)]

/-- arguments on which two layers of class `spec` differ -/
def diffArgs (spec : LSpec) (a b : Layer) (onlyRead : Bool) : List String :=
  (spec.params.filter fun p => (!onlyRead || p.read) && !argBeq (a.arg p.name) (b.arg p.name)).map (·.name)

/-- class names that the deserialiser resolves through the custom-object table for this node -/
def tableNames (cls : String) (cfg : Cfg) : List String :=
  let own := if E.isLibraryClass cls then [cls] else []
  let inner (k : String) : List String :=
    match cfg.lookup k with
    | some (.dict d) => match d.lookup "class_name" with | some (.str c) => [c] | _ => []
    | _ => []
  own ++ (if cls == "QBidirectional" then inner "layer" ++ inner "backward_layer" else [])
      ++ (if cls == "QActivation" then inner "activation" else [])

def reloadJson (spec : LSpec) (L : Layer) : Json :=
  let cfg := layerGetConfig E spec L
  match layerFromConfig E spec cfg with
  | .error e => Json.mkObj [("ok", .bool false), ("err", .str (errStr e))]
  | .ok L' =>
    Json.mkObj [("ok", .bool true), ("layer", layerToJson L'),
                ("config2", pvToJson (.dict (layerGetConfig E spec L'))),
                ("changed", .arr ((diffArgs spec L L' false).map Json.str).toArray),
                ("changed_read", .arr ((diffArgs spec L L' true).map Json.str).toArray),
                ("kwargs_same", .bool (cfgBeq L.kwargs L'.kwargs))]

def handle (j : Json) : Except String Json := do
  let op ← getStr j "op"
  match op with
  | "tables" => pure tablesJson
  | "quant" =>
    -- a quantizer instance: its config, and what from_config(get_config) makes of it
    let q ← qobjOfJson (← j.getObjVal? "q")
    match E.findQ q.cls with
    | none => pure <| Json.mkObj [("err", .str "unknown-class")]
    | some s =>
      let cfg := qGetConfig s q
      let r := match qFromConfig s cfg with
        | .error e => Json.mkObj [("ok", .bool false), ("err", .str (errStr e))]
        | .ok q' => Json.mkObj [("ok", .bool true), ("q", qobjToJson q'),
            ("changed", .arr ((s.params.filter fun p =>
                !((q.args.lookup p.1).getD .none).beq ((q'.args.lookup p.1).getD .none)).map
                  (fun p => Json.str p.1)).toArray)]
      pure <| Json.mkObj [("config", pvToJson (.dict cfg)), ("reload", r),
                          ("in_table", .bool (customObjects.contains q.cls))]
  | "layer" =>
    let L ← layerOfJson (← j.getObjVal? "layer")
    match E.findL L.cls with
    | none => pure <| Json.mkObj [("err", .str "unknown-class")]
    | some spec =>
      let cfg := layerGetConfig E spec L
      let names := tableNames L.cls cfg
      pure <| Json.mkObj [("config", pvToJson (.dict cfg)), ("reload", reloadJson spec L),
        ("table_names", .arr (names.map Json.str).toArray),
        ("table_missing", .arr ((names.filter fun c => !customObjects.contains c).map Json.str).toArray),
        -- does the real `get_config()` raise (numpy method on a plain Python value)?
        ("get_config_raises", .bool (layerGetConfigRaises E spec L)),
        -- what `get_quantizers()` reports: the class' reported slots, in its order
        ("reported", .arr ((reportedQuantizers ((reportedSlots.lookup L.cls).getD []) L).map fun (k, a) =>
            Json.arr #[.str k, argToJson a]).toArray),
        -- what the three routes do with a one-node model of this layer
        ("route", match rebuild E [⟨.q L, [0]⟩] with
                  | .ok _ => .str "ok" | .error e => .str (errStr e))]
  | "bidir" =>
    let f ← layerOfJson (← j.getObjVal? "fwd")
    let b ← match j.getObjVal? "bwd" with
      | .ok .null => pure none
      | .ok v => do let l ← layerOfJson v; pure (some l)
      | .error _ => pure none
    let kw ← pairsOfJson (← j.getObjVal? "kw")
    let n : Node := .bidir kw f b
    let (c, cfg) := nodeGetConfig E n
    let names := tableNames c cfg
    let r := match nodeFromConfig E ⟨c, cfg, []⟩ with
      | .ok (.bidir kw' f' b') =>
        let fs := match E.findL f.cls with | some s => diffArgs s f f' true | none => ["?"]
        let bs := match b, b' with
          | some bl, some bl' => (match E.findL bl.cls with | some s => diffArgs s bl bl' true | none => ["?"])
          | none, none => []
          | _, _ => ["?"]
        Json.mkObj [("ok", .bool true), ("kw_same", .bool (cfgBeq kw kw')),
                    ("changed_read", .arr ((fs ++ bs).map Json.str).toArray)]
      | .ok _ => Json.mkObj [("ok", .bool false), ("err", .str "shape")]
      | .error e => Json.mkObj [("ok", .bool false), ("err", .str (errStr e))]
    pure <| Json.mkObj [("config", pvToJson (.dict cfg)), ("reload", r),
      ("get_config_raises", .bool (nodeGetConfigRaises E n)),
      ("table_names", .arr (names.map Json.str).toArray),
      ("table_missing", .arr ((names.filter fun c => !customObjects.contains c).map Json.str).toArray)]
  | "shared" =>
    -- a layer constructor run on quantizer OBJECTS: `heap` = the objects as the user built them,
    -- `refs` = which object each quantizer slot was given (slots may share one); the state every
    -- slot sees afterwards, and what get_quantizers() reports
    let cls ← getStr j "cls"
    let objs ← (← (← j.getObjVal? "heap").getArr?).toList.mapM qobjOfJson
    let refs ← (← (← j.getObjVal? "refs").getArr?).toList.mapM fun kv => do
      match kv with
      | .arr #[.str k, v] => do let i ← v.getNat?; pure (k, i)
      | _ => throw s!"bad ref {kv.compress}"
    match E.findL cls with
    | none => pure <| Json.mkObj [("err", .str "unknown-class")]
    | some spec =>
      let ref : String → Option Nat := fun k => refs.lookup k
      let h : QHeap := fun i => objs.getD i ⟨"?", [], []⟩
      let h' := constructHeap E spec ref h
      let slots := (spec.params.filter (·.kind.isQuant)).map (·.name)
      pure <| Json.mkObj [
        ("slots", .arr (slots.map fun k => Json.arr #[.str k, qvalToJson (slotValue h' ref k)]).toArray),
        ("reported", .arr (((reportedSlots.lookup cls).getD []).map fun k =>
            Json.arr #[.str k, qvalToJson (slotValue h' ref k)]).toArray),
        ("heap", .arr ((List.range objs.length).map fun i => qobjToJson (h' i)).toArray)]
  | "route_table" =>
    -- the keys Keras' deserialiser sees on a route when the caller passes a dict with the keys `user`
    let r ← match ← getStr j "route" with
      | "json" => pure Route.json | "clone" => pure Route.clone | "h5" => pure Route.h5
      | x => throw s!"unknown route {x}"
    let user ← (← (← j.getObjVal? "user").getArr?).toList.mapM fun v => v.getStr?
    pure <| Json.mkObj [("keys", .arr ((routeTable E r user).map Json.str).toArray)]
  | "base_kwargs" =>
    -- a layer built with the caller's keywords `user` for its base-class arguments: what it holds, what
    -- get_config writes of it, what the rebuilt layer holds
    let cls ← getStr j "cls"
    let user ← pairsOfJson (← j.getObjVal? "user")
    let bks := (baseKwargs.lookup cls).getD []
    let held := heldKw bks user
    let cfg := kwGetConfig bks held
    pure <| Json.mkObj [("held", pvToJson (.dict held)), ("config", pvToJson (.dict cfg)),
                        ("rebuilt", pvToJson (.dict (kwFromConfig bks cfg)))]
  | "mask" =>
    -- the QConv2D constructor's reshape on a given mask literal, and the reshape of its result
    -- (get_config -> from_config -> constructor)
    let v ← pvOfJson (← j.getObjVal? "mask")
    match reshapeMask v with
    | .error e => pure <| Json.mkObj [("ok", .bool false), ("err", .str (errStr e))]
    | .ok m =>
      pure <| Json.mkObj [("ok", .bool true), ("stored", pvToJson m),
        ("reread", match reshapeMask m with
                   | .ok m2 => Json.mkObj [("ok", .bool true), ("same", .bool (m.beq m2))]
                   | .error e => Json.mkObj [("ok", .bool false), ("err", .str (errStr e))])]
  | "from_config" =>
    -- layerFromConfig on a GIVEN config (the real reloaded layer's attributes are compared with it)
    let cls ← getStr j "cls"
    let cfg ← match ← pvOfJson (← j.getObjVal? "config") with
      | .dict d => pure d
      | _ => throw "config must be a dict"
    match E.findL cls with
    | none => pure <| Json.mkObj [("err", .str "unknown-class")]
    | some spec =>
      match layerFromConfig E spec cfg with
      | .error e => pure <| Json.mkObj [("ok", .bool false), ("err", .str (errStr e))]
      | .ok L => pure <| Json.mkObj [("ok", .bool true), ("layer", layerToJson L)]
  | _ => throw s!"unknown op {op}"

def main : IO Unit := lineLoop handle
