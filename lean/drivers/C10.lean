/- line-protocol driver for C10 (quantizer strings) -/
import QKV.Drv.PyJson
import QKV.Model.Print
open Lean QKV QKV.Drv QKV.Py

def exOfJson (j : Json) : Except String (Option (Bool × List Char)) :=
  match j.getObjVal? "ex" with
  | .ok (.null) => pure none
  | .ok e => do pure (some ((← getBool e "neg"), (← getStr e "ds").toList))
  | .error _ => pure none

def numLitOfJson (j : Json) : Except String QKV.Py.NumLit := do
  let t ← getStr j "t"
  match t with
  | "int" => pure (.int (← getBool j "neg") (← getStr j "ds").toList)
  | "float" =>
    pure (.float (← getBool j "neg") (← getStr j "ip").toList (← getStr j "fp").toList (← exOfJson j))
  | _ => throw s!"bad list element kind {t}"

def litOfJson (j : Json) : Except String Lit := do
  let t ← getStr j "t"
  match t with
  | "none" => pure .none
  | "bool" => pure (.bool (← getBool j "b"))
  | "int" => pure (.int (← getBool j "neg") (← getStr j "ds").toList)
  | "float" =>
    pure (.float (← getBool j "neg") (← getStr j "ip").toList (← getStr j "fp").toList (← exOfJson j))
  | "str" => pure (.str (← getBool j "dq") (← getStr j "cs").toList)
  | "list" => pure (.list (← (← (← j.getObjVal? "ns").getArr?).toList.mapM numLitOfJson))
  | _ => throw s!"bad literal kind {t}"

def argOfJson (j : Json) : Except String Arg := do
  let l ← litOfJson (← j.getObjVal? "lit")
  match j.getObjVal? "k" with
  | .ok (.str k) => pure (.kw k l)
  | _ => pure (.pos l)

def callToJson : Except Err Call → Json
  | .ok c => Json.mkObj [("name", Json.str c.name), ("args", Json.arr (c.args.map pyValToJson).toArray),
                         ("kwargs", envToJson c.kwargs), ("called", Json.bool c.called)]
  | .error e => Json.mkObj [("err", Json.str e.tag)]

def diffFields (a b : Q) : List String :=
  (paramNames a.cls).filter fun k => a.get k != b.get k

/-- fields whose rebuilt value is not Python-`==` the original (the complete option set) -/
def diffFieldsEq (a b : Q) : List String :=
  (paramNames a.cls).filter fun k => !(b.get k).pyEq (a.get k)

def specToJson (pos : Bool) (c : Cls) (s : FlagSpec) : Json :=
  Json.mkObj [("name", Json.str s.name), ("pos", Json.bool pos), ("cond", Json.str s.cond.tag),
    ("const", match s.cond with | .ne d => pyValToJson d | _ => Json.null),
    ("default", pyValToJson (defaultOf c s.name)),
    ("anchored", Json.bool (s.cond.anchored (defaultOf c s.name)))]

/-- the case splits of `__str__` per class: every statement with its condition, the constant a
    `!=` test compares with, the class's own default; and the options no statement mentions -/
def anchorsJson : Json :=
  Json.arr (Cls.all.map fun c =>
    Json.mkObj [("cls", Json.str c.name),
      ("rows", Json.arr (((posSpec c).map (specToJson true c)) ++ ((kwSpec c).map (specToJson false c))).toArray),
      ("params", envToJson (params c)),
      ("unprinted", Json.arr ((unprinted c).map Json.str).toArray)]).toArray

def handle (j : Json) : Except String Json := do
  let op ← getStr j "op"
  match op with
  | "parse" =>
    pure (callToJson (parseCall (← getStr j "s").toList))
  | "get_params" =>
    match getParams ((← getStr j "s").toList.drop 1) with
    | .ok r => pure <| Json.mkObj [("args", Json.arr (r.1.map pyValToJson).toArray), ("kwargs", envToJson r.2)]
    | .error e => pure <| Json.mkObj [("err", Json.str e.tag)]
  | "pycall" =>
    let name ← getStr j "name"
    let as ← (← (← j.getObjVal? "args").getArr?).toList.mapM argOfJson
    pure <| Json.mkObj [("text", Json.str (String.ofList (render name as))),
                        ("wf", Json.bool (as.all Arg.wf)),
                        ("py", callToJson (pyCall name as)),
                        ("parse", callToJson (parseCall (render name as)))]
  | "override" =>
    let params ← (← (← j.getObjVal? "params").getArr?).toList.mapM pyValOfJson
    let kw ← envOfJson (← j.getObjVal? "kw")
    pure (callToJson (parseCallWith (← getStr j "s").toList params kw))
  | "anchors" => pure (Json.mkObj [("classes", anchorsJson)])
  | "safe_eval" =>
    pure (resultToJson (safeEval (← getStr j "s").toList))
  | "str" =>
    let c ← clsOfJson j "cls"
    let kw ← envOfJson (← j.getObjVal? "kw")
    match construct c [] kw with
    | .error e => pure <| Json.mkObj [("construct", Json.mkObj [("err", Json.str e.tag)])]
    | .ok q =>
      let s := printQ q
      let r := reparse q
      let diff := match r with
        | .ok q' => Json.arr ((diffFields q q').map Json.str).toArray
        | .error _ => Json.null
      let diffEq := match r with
        | .ok q' => Json.arr ((diffFieldsEq q q').map Json.str).toArray
        | .error _ => Json.null
      pure <| Json.mkObj [("construct", resultToJson (.ok q)),
        ("str", match s with | .ok t => Json.mkObj [("ok", Json.str t)] | .error e => Json.mkObj [("err", Json.str e.tag)]),
        ("reparse", resultToJson r), ("diff_fields", diff), ("diff_eq", diffEq)]
  | _ => throw s!"unknown op {op}"

def main : IO Unit := lineLoop handle
