/- line-protocol driver for C20 (AutoQKeras limits, forgiving factor, size model) -/
import QKV.Drv.Json
import QKV.Model.AutoQ
import QKV.Model.Forgiving
open Lean QKV QKV.Drv QKV.AutoQ QKV.Forgiving

def strList (j : Json) : Except String (List String) := do
  let a ← j.getArr?
  a.toList.mapM fun v => v.getStr?

def limValOfJson (j : Json) : Except String LimVal :=
  match j with
  | .arr _ => do pure (.lst (← strList j))
  | _ => do pure (.num (← j.getInt?))

def limEntryOfJson (j : Json) : Except String LimEntry :=
  match j with
  | .arr a => do pure (.vals (← a.toList.mapM limValOfJson))
  | _ => do pure (.scalar (← j.getInt?))

def pairList {α} (f : Json → Except String α) (j : Json) : Except String (List (String × α)) := do
  let a ← j.getArr?
  a.toList.mapM fun kv => do
    match kv with
    | .arr #[k, v] => pure (← k.getStr?, ← f v)
    | _ => throw "bad pair"

def limitOfJson (j : Json) : Except String Limit := pairList limEntryOfJson j
def qfieldOfJson (j : Json) : Except String QField := pairList (fun v => v.getInt?) j
def configOfJson (j : Json) : Except String Config := pairList qfieldOfJson j

def limValToJson : LimVal → Json
  | .num n => Json.num n
  | .lst qs => Json.arr (qs.map Json.str).toArray
def limEntryToJson : LimEntry → Json
  | .scalar n => Json.num n
  | .vals l => Json.arr (l.map limValToJson).toArray
def limitToJson (l : Limit) : Json :=
  Json.arr (l.map fun kv => Json.arr #[Json.str kv.1, limEntryToJson kv.2]).toArray

def strPairs (j : Json) : Except String (List (String × String)) := pairList (fun v => v.getStr?) j

def envOfJson (j : Json) : Except String Env := do
  let limit ← limitOfJson (← j.getObjVal? "limit")
  let config ← configOfJson (← j.getObjVal? "config")
  let ms ← strPairs (← j.getObjVal? "matches")
  let script ← pairList (fun v => v.getInt?) (← j.getObjVal? "script")
  pure { limit := limit, config := config,
         «matches» := fun p n => ms.contains (p, n),
         choose := fun nm opts =>
           match alookup nm script with
           | some i => opts.getD i.toNat (opts.headD "")
           | none => opts.headD "" }

def hpToJson : HpCall → Json
  | .fixed n v => Json.mkObj [("k", "fixed"), ("name", Json.str n), ("value", Json.str v)]
  | .choice n o => Json.mkObj [("k", "choice"), ("name", Json.str n), ("opts", Json.arr (o.map Json.str).toArray)]
  | .choiceF n o => Json.mkObj [("k", "choiceF"), ("name", Json.str n), ("opts", Json.arr (o.map ratToJson).toArray)]

def optStr : Option String → Json
  | none => Json.null
  | some s => Json.str s

def groupsToJson (g : Groups) : Json :=
  Json.arr (g.map fun kv => Json.arr #[Json.str kv.1.1, Json.num kv.1.2, Json.str kv.2.1, Json.num kv.2.2]).toArray

def groupsOfJson (j : Json) : Except String Groups := do
  let a ← j.getArr?
  a.toList.mapM fun e => do
    match e with
    | .arr #[p, i, q, b] => pure ((← p.getStr?, ← i.getInt?), (← q.getStr?, ← b.getInt?))
    | _ => throw "bad group entry"

def layerOfJson (j : Json) : Except String Layer := do
  pure { name := ← getStr j "name", cls := ← getStr j "cls", useBias := ← getBool j "use_bias",
         act := ← getStr j "act", size := ← getNat j "size" }

def layerToJson (L : Layer) : Json :=
  Json.mkObj [("name", Json.str L.name), ("cls", Json.str L.cls), ("use_bias", Json.bool L.useBias),
              ("act", Json.str L.act), ("size", Json.num (L.size : Int))]

def entryToJson : QEntry → Json
  | .str s => Json.str s
  | .dict d => Json.mkObj (d.map fun kv => (kv.1, optStr kv.2))

def appliedToJson (a : Applied) : Json :=
  Json.mkObj [("converted", Json.bool a.converted), ("kernel", optStr a.kernel), ("bias", optStr a.bias),
              ("activation", optStr a.activation)]

def errJson (e : Err) : Json := Json.mkObj [("err", Json.str e.toString)]

def optIntOfJson (j : Json) : Except String (Option Int) :=
  match j with
  | .null => pure none
  | _ => do pure (some (← j.getInt?))

def szLayerOfJson (j : Json) : Except String SzLayer := do
  let ws ← (← j.getObjVal? "weights").getArr?
  let weights ← ws.toList.mapM fun w => do
    match w with
    | .arr #[n, b] => do
      let n ← n.getInt?
      pure (n.toNat, ← optIntOfJson b)
    | _ => throw "bad weight"
  let an ← j.getObjVal? "act_name"
  pure { name := ← getStr j "name", cls := ← getStr j "cls", weights := weights,
         outElems := ← getNat j "out", actNone := ← getBool j "act_none", actIsStr := ← getBool j "act_is_str",
         actName := match an with | .str s => some s | _ => none,
         actBits := ← optIntOfJson (← j.getObjVal? "act_bits"),
         center := ← getBool j "center", scale := ← getBool j "scale" }

def handle (j : Json) : Except String Json := do
  let op ← getStr j "op"
  match op with
  | "tables" =>
    pure <| Json.mkObj [
      ("default_config", Json.arr (defaultConfig.map fun f => Json.arr #[Json.str f.1,
          Json.arr (f.2.map fun kv => Json.arr #[Json.str kv.1, Json.num kv.2]).toArray]).toArray),
      ("registered", Json.arr (REGISTERED.map Json.str).toArray),
      ("sequence", Json.arr (SEQUENCE.map Json.str).toArray),
      ("filter_range", Json.arr (filterRange.map ratToJson).toArray)]
  | "adjust" =>
    let limit ← limitOfJson (← j.getObjVal? "limit")
    match adjustLimit limit with
    | .ok l => pure <| Json.mkObj [("limit", limitToJson l)]
    | .error e => pure (errJson e)
  | "getq" =>
    let env ← envOfJson j
    let groups ← groupsOfJson (← j.getObjVal? "groups")
    let r := getQuantizer env { groups := groups } (← getStr j "head") (← getStr j "lname")
               (← getStr j "cls") (← getBool j "is_linear")
    match r with
    | .error e => pure (errJson e)
    | .ok (res, st) =>
      pure <| Json.mkObj [
        ("q", match res with | none => Json.null | some (q, b) => Json.arr #[Json.str q, Json.num b]),
        ("groups", groupsToJson st.groups), ("log", Json.arr (st.log.map hpToJson).toArray)]
  | "qm" =>
    let env ← envOfJson j
    let exc ← strList (← j.getObjVal? "exc")
    let scriptF ← pairList (fun v => v.getInt?) (← j.getObjVal? "script_f")
    let li ← j.getObjVal? "layer_indexes"
    let layerIndexes ← match li with
      | .null => pure none
      | _ => do pure (some (← getNatList j "layer_indexes"))
    let tn : Tune := { tuneFilters := ← getStr j "tune_filters", exc := fun n => exc.contains n,
                       layerIndexes := layerIndexes,
                       chooseF := fun nm opts => match alookup nm scriptF with
                         | some i => opts.getD i.toNat 1
                         | none => 1 }
    let ls ← (← j.getObjVal? "layers").getArr?
    let layers ← ls.toList.mapM layerOfJson
    let abits ← getInt j "activation_bits"
    -- `limit` is the USER's dictionary: the model runs the constructor's `_adjust_limit` itself
    match quantizeModelUser env tn layers with
    | .error e => pure (errJson e)
    | .ok (lim, o) =>
      let app := o.arch.map fun L => Json.arr #[Json.str L.name, appliedToJson (applied (alookup L.name o.qdict) L abits)]
      pure <| Json.mkObj [
        ("qdict", Json.mkObj (o.qdict.map fun kv => (kv.1, entryToJson kv.2))),
        ("arch", Json.arr (o.arch.map layerToJson).toArray),
        ("log", Json.arr (o.log.map hpToJson).toArray),
        ("groups", groupsToJson o.groups),
        ("limit", limitToJson lim),
        ("applied", Json.arr app.toArray)]
  | "delta" =>
    let ref ← getRat j "ref"
    let trial ← getRat j "trial"
    let dp ← getRat j "dp"
    let dn ← getRat j "dn"
    let a ← getRat j "a"
    let b ← getRat j "b"
    pure <| Json.mkObj [("delta", ratToJson (deltaF ref trial dp dn a b)),
                        ("log_arg", ratToJson (logArg ref trial)),
                        ("lt", Json.bool (decide (trial < ref)))]
  | "score" =>
    -- `AutoQKHyperModel.adjusted_score`: metric selection + float32 `metric * (1.0 + delta)`
    let marg ← j.getObjVal? "metric_arg"
    let m : MetricArg := match marg with
      | .str s => .str s
      | .null => .none
      | _ => .fn
    let kind := selectMetric m (← getInt j "yt_rank") (← getInt j "yp_rank") (← getInt j "yt_last") (← getInt j "yp_last")
    let ks := match kind with
      | .binary => "binary" | .sparse => "sparse" | .categorical => "categorical" | .custom => "custom"
    pure <| Json.mkObj [("kind", Json.str ks),
                        ("score", ratToJson (scoreF (← getRat j "metric") (← getRat j "delta")))]
  | "ffapi" =>
    -- a history of public calls on ONE ForgivingFactorBits object (same `getReference` / `getTrial` /
    -- `deltaObj` the theorems are about, float64 instance)
    let dp ← getRat j "dp"
    let dn ← getRat j "dn"
    let stress ← getRat j "stress"
    let evs ← (← j.getObjVal? "events").getArr?
    let events ← evs.toList.mapM fun e => do
      match e with
      | .arr #[.str "ref", x] => pure (FEv.ref (← ratOfJson x))
      | .arr #[.str "trial", x] => pure (FEv.trial (← ratOfJson x))
      | .arr #[.str "stress", x] => pure (FEv.setStress (← ratOfJson x))
      | .arr #[.str "delta", a, b] => pure (FEv.delta (← ratOfJson a) (← ratOfJson b))
      | _ => throw "bad event"
    let optRat : Option Rat → Json := fun o => match o with | none => Json.null | some q => ratToJson q
    let out := runF dp dn { stress := stress } events
    pure <| Json.mkObj [("steps", Json.arr (out.map fun r =>
      Json.arr #[optRat r.1, optRat r.2.1, optRat r.2.2]).toArray)]
  | "size" =>
    let c : SzCfg := { inputBits := ← getInt j "input_bits", outputBits := ← getInt j "output_bits",
                       refBits := ← getInt j "ref_bits",
                       config := ← pairList strList (← j.getObjVal? "config") }
    let ls ← (← j.getObjVal? "layers").getArr?
    let layers ← ls.toList.mapM szLayerOfJson
    match computeModelSize c layers with
    | none => pure <| Json.mkObj [("err", Json.str "assert")]
    | some r =>
      pure <| Json.mkObj [("total", Json.num r.total), ("p", Json.num r.pSize), ("a", Json.num r.aSize),
        ("rows", Json.arr (r.rows.map fun w => Json.arr #[Json.str w.name, Json.num w.parameters,
                                              Json.num w.activations, Json.num w.total]).toArray)]
  | "szhist" =>
    -- a history of get_reference(model) / get_trial(model) / stress on ONE ForgivingFactorBits object, the
    -- models given as the layer records the size model reads (`getReferenceM` / `getTrialM` / `runM`)
    let c : SzCfg := { inputBits := ← getInt j "input_bits", outputBits := ← getInt j "output_bits",
                       refBits := ← getInt j "ref_bits",
                       config := ← pairList strList (← j.getObjVal? "config") }
    let stress ← getRat j "stress"
    let evs ← (← j.getObjVal? "events").getArr?
    let events ← evs.toList.mapM fun e => do
      match e with
      | .arr #[.str "ref", .arr ls] => pure (MEv.ref (← ls.toList.mapM szLayerOfJson))
      | .arr #[.str "trial", .arr ls] => pure (MEv.trial (← ls.toList.mapM szLayerOfJson))
      | .arr #[.str "stress", x] => pure (MEv.setStress (← ratOfJson x))
      | _ => throw "bad event"
    let optRat : Option Rat → Json := fun o => match o with | none => Json.null | some q => ratToJson q
    let rowsJson : Option SizeOut → Json := fun o => match o with
      | none => Json.null
      | some r => Json.mkObj [("p", Json.num r.pSize), ("a", Json.num r.aSize),
          ("rows", Json.arr (r.rows.map fun w => Json.arr #[Json.str w.name, Json.num w.parameters,
                                                Json.num w.activations, Json.num w.total]).toArray)]
    let o : FFBM Rat := { cfg := c, base := { stress := stress } }
    let out := runM (fun (z : Int) => (z : Rat)) (fun x y => rnd64 (x * y)) o events
    pure <| Json.mkObj [("steps", Json.arr (out.map fun r =>
      Json.mkObj [("ret", optRat r.1), ("reference_size", optRat r.2.base.referenceSize),
                  ("trial_size", optRat r.2.base.trialSize),
                  ("reference_stats", rowsJson r.2.refStats), ("trial_stats", rowsJson r.2.trialStats)]).toArray)]
  | _ => throw s!"unknown op {op}"

def main : IO Unit := lineLoop handle
