/- line-protocol driver for C11 (quantized layers): evaluates the SAME terms the theorems are about
   (`qlayer` / `qcell`, `kerasLayer` / `kerasCell`) under the concrete exact-rational interpretation -/
import QKV.Drv.Json
import QKV.Model.LayersConcrete
import QKV.Model.LayerQObjects
open Lean QKV QKV.Drv QKV.Layers

def tensorOfJson (j : Json) : Except String Tensor := do
  let sh ← getNatList j "s"
  let d ← getRatList j "d"
  if d.length != shapeSize sh then throw s!"tensor data {d.length} vs shape {sh}"
  pure { shape := sh, data := d.toArray }

def tensorToJson (t : Tensor) : Json :=
  Json.mkObj [("s", Json.arr (t.shape.map (fun (n : Nat) => Json.num ((n : Int)))).toArray),
              ("d", Json.arr (t.data.toList.map ratToJson).toArray), ("ok", Json.bool t.ok)]

def optTensor (j : Json) (k : String) : Except String Tensor :=
  match j.getObjVal? k with
  | .ok .null => pure Tensor.bad
  | .ok v => tensorOfJson v
  | .error _ => pure Tensor.bad

def tensorList (j : Json) (k : String) : Except String (List Tensor) :=
  match j.getObjVal? k with
  | .ok (.arr a) => a.toList.mapM tensorOfJson
  | _ => pure []

partial def qspecOfJson (j : Json) : Except String QSpec := do
  match j with
  | .null => pure .ident
  | _ =>
    let k ← getStr j "k"
    match k with
    | "ident" => pure .ident
    | "bits" =>
      pure (.bits { bits := ← getInt j "bits", integer := ← getInt j "integer",
                    symmetric := ← getBool j "symmetric", keepNeg := ← getBool j "keep_negative",
                    alpha := ← getOptRat j "alpha" })
    | "relu" =>
      let sl := match j.getObjVal? "slope_log" with
        | .ok .null => none | .ok v => v.getNat?.toOption | .error _ => none
      pure (.relu { bits := ← getInt j "bits", integer := ← getInt j "integer", slopeLog := sl })
    | "tanh" => pure (.tanh (← getInt j "bits") (← getBool j "symmetric"))
    | "sigmoid" => pure (.sigmoid (← getInt j "bits") (← getBool j "symmetric"))
    | "hard_sigmoid" => pure .hardSigmoid
    | "hard_tanh" => pure .hardTanh
    | "table" =>
      let es ← (← j.getObjVal? "e").getArr?
      let es ← es.toList.mapM fun e => do
        match e with
        | .arr #[a, b] => pure ((← tensorOfJson a), (← tensorOfJson b))
        | _ => throw "bad table entry"
      pure (.table es)
    | _ => throw s!"unknown quantizer kind {k}"

def qspecList (j : Json) (k : String) : Except String (List QSpec) :=
  match j.getObjVal? k with
  | .ok (.arr a) => a.toList.mapM qspecOfJson
  | _ => pure []

def paddingOf (s : String) : Except String Padding :=
  match s with
  | "valid" => pure .valid | "same" => pure .same | "causal" => pure .causal
  | _ => throw s!"padding {s}"

def dfOf (s : String) : DataFormat := if s == "channels_first" then .channelsFirst else .channelsLast

def natListD (j : Json) (k : String) (d : List Nat) : List Nat := (getNatList j k).toOption.getD d
def natD (j : Json) (k : String) (d : Nat) : Nat := (getNat j k).toOption.getD d
def boolD (j : Json) (k : String) (d : Bool) : Bool := (getBool j k).toOption.getD d
def strD (j : Json) (k : String) (d : String) : String := (getStr j k).toOption.getD d

def cfgOfJson (j : Json) : Except String LCfg := do
  let hq := (natListD j "has_q" []).map (· != 0)
  let df := dfOf (strD j "data_format" "channels_last")
  let pad ← paddingOf (strD j "padding" "valid")
  let pool := natListD j "pool" [1, 1]
  let pstr := natListD j "pool_strides" pool
  pure { hasQ := fun s => hq.getD s false
         hasAct := boolD j "has_act" false
         useBias := boolD j "use_bias" true
         hasMask := boolD j "has_mask" false
         conv := { strides := natListD j "strides" [1], padding := pad,
                   dilation := natListD j "dilation" [1], df := df }
         pool := { pool := (pool.getD 0 1, pool.getD 1 1), strides := (pstr.getD 0 1, pstr.getD 1 1),
                   padding := pad, df := df }
         kernel := natD j "kernel" 1
         units := natD j "units" 1
         impl := natD j "impl" 1
         resetAfter := boolD j "reset_after" false
         keepdims := boolD j "keepdims" false
         area := natD j "area" 1
         imageDF := dfOf (strD j "image_df" "channels_last") }

def clsOf (s : String) : Except String Cls :=
  match s with
  | "dense" => pure .dense | "activation" => pure .activation | "conv1d" => pure .conv1d
  | "conv2d" => pure .conv2d | "sepconv1d" => pure .sepConv1d | "sepconv2d" => pure .sepConv2d
  | "dwconv2d" => pure .dwConv2d | "avgpool2d" => pure .avgPool2d
  | "globalavgpool2d" => pure .globalAvgPool2d | "scaleshift" => pure .scaleShift
  | _ => throw s!"class {s}"

def cellOf (s : String) : Except String CellCls :=
  match s with
  | "simplernn" => pure .simpleRNN | "lstm" => pure .lstm | "gru" => pure .gru
  | _ => throw s!"cell {s}"

def optNats (l : List (Option Nat)) : Json :=
  Json.arr (l.map fun o => match o with | some n => Json.num (n : Int) | none => Json.null).toArray
def nats (l : List Nat) : Json := Json.arr (l.map fun (n : Nat) => Json.num ((n : Int))).toArray

/-- the right-hand side of the drop-in theorem on one instance (stock term, pre-quantized weights) -/
def dropinRhs (cls : Cls) (c : LCfg) (E : Env Tensor) : Tensor :=
  match cls with
  | .avgPool2d =>
    if c.hasQ 0 then
      actOf c E (op2C .mul (eval concrete { E with x := op1C (.scale (c.area : Rat)) E.x } (kerasLayer cls c))
        (op1C .castFloatx (E.quant 0 (Tensor.scalar (1 / (c.area : Rat))))))
    else actOf c E (eval concrete E (kerasLayer cls c))
  | .globalAvgPool2d =>
    if c.hasQ 0 then
      actOf c E (op2C .mul (op1C (.sumHW c.pool.df c.keepdims) E.x)
        (E.quant 0 (op1C (.recipAreaHW c.pool.df) E.x)))
    else actOf c E (eval concrete E (kerasLayer cls c))
  | .conv2d =>
    let P := preEnv c E
    let P' : Env Tensor := if c.hasMask then
      { P with weight := fun i => if i = 0 then op2C .mul (P.weight 0) E.mask else P.weight i } else P
    actOf c E (eval concrete P' (kerasLayer cls c))
  | _ => actOf c E (eval concrete (preEnv c E) (kerasLayer cls c))

/-! op `ctor`: the constructors' quantizer-OBJECT plumbing (`Model/LayerQObjects.lean`): a heap of quantizer
    objects (id = position) and a list of layers constructed one after the other over it -/

def optNatOf (j : Json) : Option Nat :=
  match j with
  | .null => none
  | v => v.getNat?.toOption

def qstateOfJson (j : Json) : Except String QObj.QState := do
  let alpha := match j.getObjVal? "alpha" with
    | .ok v => optNatOf v | .error _ => none
  pure { kind := ← getNat j "kind", hasSetTrainable := ← getBool j "has", setsSymmetric := ← getBool j "sets_symmetric",
         alpha := alpha, symmetric := ← getBool j "symmetric" }

def qstateToJson (q : QObj.QState) : Json :=
  Json.mkObj [("kind", Json.num (q.kind : Int)), ("has", Json.bool q.hasSetTrainable),
              ("sets_symmetric", Json.bool q.setsSymmetric),
              ("alpha", match q.alpha with | some n => Json.num (n : Int) | none => Json.null),
              ("symmetric", Json.bool q.symmetric)]

def handleCtor (j : Json) : Except String Json := do
  let hs ← (← (← j.getObjVal? "heap").getArr?).toList.mapM qstateOfJson
  let dflt : QObj.QState := { kind := 0, hasSetTrainable := false, setsSymmetric := false, alpha := none, symmetric := false }
  let h0 : QObj.Heap := fun o => hs.getD o dflt
  let ls ← (← (← j.getObjVal? "layers").getArr?).toList.mapM fun l => do
    let args := match l.getObjVal? "args" with
      | .ok (.arr a) => a.toList.map optNatOf
      | _ => []
    pure ((← getNat l "n"), (← getNatList l "train"), args)
  let r := QObj.constructAll ls h0
  let layers := r.1.map fun L =>
    Json.mkObj [("internal", optNats L.internal), ("quantizers", optNats L.quantizers),
                ("reported_eq_applied", Json.bool ((List.range L.internal.length).all fun s =>
                   L.reportedState r.2 s == L.appliedState r.2 s))]
  pure <| Json.mkObj [("layers", Json.arr layers.toArray),
                      ("heap", Json.arr ((List.range hs.length).map fun o => qstateToJson (r.2 o)).toArray)]

def handle (j : Json) : Except String Json := do
  let op ← getStr j "op"
  if op == "ctor" then handleCtor j else
  let c ← cfgOfJson (← j.getObjVal? "cfg")
  match op with
  | "layer" =>
    -- ONE layer object (configuration, weights, quantizers) called on every tensor of "xs" in turn:
    -- `objectCalls` of the layer term (the definition `C11_object_history` is about)
    let cls ← clsOf (← getStr j "cls")
    let xs ← tensorList j "xs"
    let ws ← tensorList j "weights"
    let mask ← optTensor j "mask"
    let qs ← qspecList j "quant"
    let as ← qspecList j "actv"
    let E := concreteEnv Tensor.bad [] ws mask qs as
    let ys := objectCalls concrete E (qlayer cls c) xs
    let calls := (xs.zip ys).map fun (x, y) =>
      let Ex : Env Tensor := { E with x := x }
      let rhs := dropinRhs cls c Ex
      -- the stock layer on the RAW weights (what the layer must equal when nothing is configured)
      let stock := eval concrete Ex (kerasLayer cls c)
      Json.mkObj [("y", tensorToJson y), ("dropin", Json.bool (y.same rhs && y.ok == rhs.ok)),
                  ("stock", tensorToJson stock)]
    pure <| Json.mkObj [("calls", Json.arr calls.toArray),
      ("build_free", Json.bool (buildFree (qlayer cls c) && buildFree (kerasLayer cls c))),
      ("quantizers", optNats (getQuantizers cls c)),
      ("applied", nats (appliedSlots (slotCount cls) [qlayer cls c])),
      ("reported_live", nats (reportedLive cls c)),
      ("own", Json.bool ((quantSites (qlayer cls c)).all (ownTarget c)))]
  | "cell" =>
    let cls ← cellOf (← getStr j "cls")
    let xs ← tensorList j "xs"
    let s0 ← tensorList j "states"
    let ws ← tensorList j "weights"
    let qs ← qspecList j "quant"
    let as ← qspecList j "actv"
    let E := concreteEnv Tensor.bad [] ws Tensor.bad qs as
    let run := runCell concrete E (qcell cls c) s0 xs
    let ref := runRef concrete (preEnv c E) (kerasCell cls c) (stateQ c E) s0 xs
    let stock := runCell concrete E (kerasCell cls c) s0 xs
    let same := run.length == ref.length &&
      (run.zip ref).all fun p => p.1.length == p.2.length && (p.1.zip p.2).all fun q => q.1.same q.2
    pure <| Json.mkObj [("steps", Json.arr (run.map fun S => Json.arr (S.map tensorToJson).toArray).toArray),
      ("stock", Json.arr (stock.map fun S => Json.arr (S.map tensorToJson).toArray).toArray),
      ("dropin", Json.bool same),
      ("quantizers", optNats (getQuantizersCell cls c)),
      ("applied", nats (appliedSlots 4 (qcell cls c))),
      ("reported_live", nats (reportedLiveCell cls c))]
  | "outlen" =>
    let p ← paddingOf (← getStr j "padding")
    let n ← getNat j "n"; let k ← getNat j "k"; let s ← getNat j "s"; let d ← getNat j "d"
    pure <| Json.mkObj [("len", Json.num (convOutLen p n k s d : Int)),
                        ("before", Json.num (padBefore p n k s d : Int))]
  | _ => throw s!"unknown op {op}"

def main : IO Unit := lineLoop handle
