/- line-protocol driver for C06 (forward value + gradient of quantizer return expressions) -/
import QKV.Drv.Json
import QKV.Model.Grad
open Lean QKV QKV.Drv

def tieOf (j : Json) : Tie :=
  match (getStr j "tie").toOption with
  | some "away" => .away | some "up" => .up | some "down" => .down | _ => .even

def dOut (ds : List D) : Json :=
  Json.arr (ds.map fun d => Json.arr #[ratToJson d.val, ratToJson d.tan]).toArray

def bitsCfg (cfg : Json) : Except String BitsCfg := do
  let b ← getInt cfg "bits"
  let i ← getInt cfg "integer"
  let sy ← getBool cfg "symmetric"
  let kn ← getBool cfg "keep_negative"
  let al ← getOptRat cfg "alpha"
  pure { bits := b, integer := i, symmetric := sy, keepNeg := kn, alpha := al }

def reluCfg (cfg : Json) : Except String ReluCfg := do
  let b ← getInt cfg "bits"
  let i ← getInt cfg "integer"
  let sl ← cfg.getObjVal? "slope_log"
  let slo : Option Nat := match sl with | .null => none | v => (v.getNat?).toOption
  pure { bits := b, integer := i, slopeLog := slo }

def zip2 (a b : List Rat) : List (Rat × Rat) := a.zip b

def optBool (j : Json) (k : String) : Bool :=
  match j.getObjVal? k with
  | .ok (.bool b) => b
  | _ => false

/-- per-element rounding mode: `stoch` (use_stochastic_rounding), `phase` (K.learning_phase()), `us` the
    element of the patched `tf.random.uniform` (absent: 0) -/
def rnds (j : Json) (n : Nat) : List Rnd :=
  let st := optBool j "stoch"
  let ph := optBool j "phase"
  let us : List Rat := match getRatList j "us" with | .ok l => l | .error _ => []
  (List.range n).map fun i => { stoch := st, phase := ph, precision := 1, u := us.getD i 0 }

def zipR (xs : List Rat) (rs : List Rnd) : List (Rat × Rnd) := xs.zip rs

/-- `alpha` attribute of binary / ternary: null | "auto" | "auto_po2" | [num, den] -/
def btAlphaOfJson (j : Json) : Except String BTAlpha :=
  match j with
  | .null => pure .none
  | .str "auto" => pure .auto
  | .str "auto_po2" => pure .autoPo2
  | v => do pure (.const (← ratOfJson v))

/-- one step of a history on a binary / ternary object: "trainable" (`_set_trainable_parameter()`, also what
    building a layer around the object does), "call" (an earlier use), {"alpha": …} (attribute assignment) -/
def btOpOfJson (j : Json) : Except String (HOp BTAlpha BTIn) :=
  match j with
  | .str "trainable" => pure (.set BTAlpha.setTrainable)
  | .str "call" => pure (.call ⟨D.var 0, D.const 0⟩)
  | v => do
    let a ← btAlphaOfJson (← v.getObjVal? "alpha")
    pure (.set fun _ => a)

def handle (j : Json) : Except String Json := do
  let op ← getStr j "op"
  let t := tieOf j
  let cfg ← j.getObjVal? "cfg"
  let xs ← getRatList j "xs"
  match op with
  | "bits" =>
    let c ← bitsCfg cfg
    let ste ← getBool j "use_ste"
    let qf ← getRat j "qf"
    if optBool j "stoch" then
      pure <| Json.mkObj [("out", dOut ((zipR xs (rnds j xs.length)).map fun (x, r) =>
        qbitsRD (D.roundThroughS t r) c ste qf (D.var x)))]
    else
      pure <| Json.mkObj [("out", dOut (xs.map fun x => qbitsD t c ste qf (D.var x)))]
  | "relu" =>
    let c ← reluCfg cfg
    let ste ← getBool j "use_ste"
    let qf ← getRat j "qf"
    let iqc ← getBool cfg "is_quantized_clip"
    let up ← getOptRat cfg "upper"
    let xqs ← getRatList j "xqs"
    let o : ReluOpts := { isQuantizedClip := iqc, upper := up }
    -- `slope` given: ANY negative_slope (1, 2, 4, …) through the general transcription
    match getOptRat cfg "slope" with
    | .ok (some sl) =>
      let nsb : Int := c.bits - (if sl = 0 then 0 else 1)
      pure <| Json.mkObj [("out", dOut ((zip2 xs xqs).map fun (x, xq) =>
        qreluGD sl c.integer nsb o ste qf (D.var x) (D.const xq)))]
    | _ =>
      pure <| Json.mkObj [("out", dOut ((zip2 xs xqs).map fun (x, xq) =>
        qreluD c o ste qf (D.var x) (D.const xq)))]
  | "linear" =>
    let b ← getInt cfg "bits"
    let i ← getInt cfg "integer"
    let sy ← getBool cfg "symmetric"
    let kn ← getBool cfg "keep_negative"
    let al ← getOptRat cfg "alpha"
    let c : LinCfg := { bits := b, integer := i, symmetric := sy, keepNeg := kn, alpha := al }
    let qf ← getRat j "qf"
    if optBool j "stoch" then
      pure <| Json.mkObj [("out", dOut ((zipR xs (rnds j xs.length)).map fun (x, r) =>
        qlinearRD (D.roundThroughS t r) c ⟨c.qs, 5⟩ qf (D.var x)))]
    else
      pure <| Json.mkObj [("out", dOut (xs.map fun x => qlinearD t c qf (D.var x)))]
  | "bits_auto" =>
    -- data-dependent scale: `ss` = the implementation's `self.scale` (= scale * m) per element, an
    -- oracle input; the model's scale search returns it with a NON-zero tangent (K.max is
    -- differentiable) — the result must not depend on that tangent
    let b ← getInt cfg "bits"
    let i ← getInt cfg "integer"
    let kn ← getBool cfg "keep_negative"
    let c : AutoCfg := { bits := b, integer := i, keepNeg := kn }
    let ste ← getBool j "use_ste"
    let qf ← getRat j "qf"
    let ss ← getRatList j "ss"
    let m : Rat := (twoPow c.ub : Rat)
    pure <| Json.mkObj [("out", dOut ((zip2 xs ss).map fun (x, sM) =>
      qbitsAutoD c ste qf (fun xn => ⟨sM / m, xn.tan * 3⟩) (D.var x)))]
  | "linear_s" =>
    -- quantized_linear with the implementation's (data-dependent) quantization scale per element
    let b ← getInt cfg "bits"
    let i ← getInt cfg "integer"
    let sy ← getBool cfg "symmetric"
    let kn ← getBool cfg "keep_negative"
    let c : LinCfg := { bits := b, integer := i, symmetric := sy, keepNeg := kn, alpha := none }
    let qf ← getRat j "qf"
    let qss ← getRatList j "qss"
    pure <| Json.mkObj [("out", dOut (((zip2 xs qss).zip (rnds j xs.length)).map fun ((x, qs), r) =>
      qlinearRD (D.roundThroughS t r) c ⟨qs, 5⟩ qf (D.var x)))]
  | "tanh_hard" =>
    let b ← getInt cfg "bits"
    let sy ← getBool cfg "symmetric"
    pure <| Json.mkObj [("out", dOut ((zipR xs (rnds j xs.length)).map fun (x, r) =>
      qtanhRD (D.roundThroughS t r) b sy (D.add (D.smul 2 (hardSigmoidD (D.var x))) (D.const (-1)))))]
  | "sigmoid_hard" =>
    let b ← getInt cfg "bits"
    let sy ← getBool cfg "symmetric"
    pure <| Json.mkObj [("out", dOut ((zipR xs (rnds j xs.length)).map fun (x, r) =>
      qsigmoidRD (D.roundThroughS t r) b sy (hardSigmoidD (D.var x))))]
  | "tanh_real" | "sigmoid_real" =>
    -- oracle inputs: p = f(x), dp = f'(x) as computed by TensorFlow
    let b ← getInt cfg "bits"
    let sy ← getBool cfg "symmetric"
    let ps ← getRatList j "ps"
    let dps ← getRatList j "dps"
    pure <| Json.mkObj [("out", dOut (((zip2 ps dps).zip (rnds j ps.length)).map fun ((p, dp), r) =>
      if op == "tanh_real" then qtanhRD (D.roundThroughS t r) b sy ⟨p, dp⟩
      else qsigmoidRD (D.roundThroughS t r) b sy ⟨p, dp⟩))]
  | "po2" =>
    let ste ← getBool j "use_ste"
    let qf ← getRat j "qf"
    let xqs ← getRatList j "xqs"
    pure <| Json.mkObj [("out", dOut ((zip2 xs xqs).map fun (x, xq) => qpo2D ste qf (D.var x) (D.const xq)))]
  | "relu_po2" =>
    let ste ← getBool j "use_ste"
    let qf ← getRat j "qf"
    let xqs ← getRatList j "xqs"
    let slope ← getRat cfg "slope"
    let mv ← getOptRat cfg "max_value"
    pure <| Json.mkObj [("out", dOut ((zip2 xs xqs).map fun (x, xq) =>
      qreluPo2D slope mv ste qf (D.var x) (D.const xq)))]
  | "binter" =>
    let an ← getBool cfg "alpha_none"
    let xqs ← getRatList j "xqs"
    let ths ← getRatList j "ths"
    let dths ← getRatList j "dths"
    let rows := (xs.zip xqs).zip (ths.zip dths)
    pure <| Json.mkObj [("out", dOut (rows.map fun ((x, xq), (th, dth)) =>
      binTerD an (fun _ => th) (fun _ => dth) (D.var x) (D.const xq)))]
  | "binter_hist" =>
    -- ONE object: constructed with `alpha0`, then the history `hist`, then called on the test tensor; the
    -- surrogate is read from the alpha in force at THAT call (HObj.run over btCall)
    let a0 ← btAlphaOfJson (← cfg.getObjVal? "alpha0")
    let hj ← (← j.getObjVal? "hist").getArr?
    let ops ← hj.toList.mapM btOpOfJson
    let xqs ← getRatList j "xqs"
    let ths ← getRatList j "ths"
    let dths ← getRatList j "dths"
    let rows := (xs.zip xqs).zip (ths.zip dths)
    pure <| Json.mkObj [("out", dOut (rows.map fun ((x, xq), (th, dth)) =>
      let o := HObj.run (btCall (fun _ => th) (fun _ => dth)) (HObj.new a0)
        (ops ++ [.call ⟨D.var x, D.const xq⟩])
      o.outs.getLast?.getD ⟨0, 0⟩))]
  | "binary_sr" =>
    -- binary(use_stochastic_rounding=True) on ONE scale group (a 1-D tensor or one channel): `xs` all its
    -- elements, `us` the draws, `ws` the upstream gradient, `f` = 2·min(max|x|, 1), `imax` the index of the
    -- (first) arg-max element when max|x| ≤ 1 (`2 * m` depends on it: tangent 2·sign x_i), else null.
    -- Output i: (xq_i, d Σ_j w_j y_j / d x_i / w_i) — the whole group is differentiated w.r.t. x_i with the
    -- tangent of `2 * m` fed in, so the model itself shows that the code's stop_gradient (7f3e140) keeps every
    -- cross term at 0.
    let an ← getBool cfg "alpha_none"
    let ph := optBool j "phase"
    let xqs ← getRatList j "xqs"
    let ths ← getRatList j "ths"
    let dths ← getRatList j "dths"
    let us ← getRatList j "us"
    let ws ← getRatList j "ws"
    let fv ← getRat j "f"
    let imax : Option Nat := match j.getObjVal? "imax" with
      | .ok v => (v.getNat?).toOption
      | _ => none
    let n := xs.length
    let idx := List.range n
    let outs := idx.map fun i =>
      let xi := xs.getD i 0
      let ftan : Rat := if imax = some i then 2 * D.sgn xi else 0
      let tot : Rat := idx.foldl (fun acc k =>
        let xk : D := ⟨xs.getD k 0, if k = i then 1 else 0⟩
        let y := binSRD t ph an (fun _ => ths.getD k 0) (fun _ => dths.getD k 0) ⟨fv, ftan⟩ (us.getD k 0) xk
          (D.const (xqs.getD k 0))
        acc + ws.getD k 0 * y.tan) 0
      (⟨xqs.getD i 0, tot / ws.getD i 1⟩ : D)
    pure <| Json.mkObj [("out", dOut outs)]
  | _ => throw s!"unknown op {op}"

def main : IO Unit := lineLoop handle
