/- line-protocol driver for C06 (forward value + gradient of quantizer return expressions) -/
import QKV.Drv.Json
import QKV.Model.Grad
open Lean QKV QKV.Drv

def tieOf (j : Json) : Tie :=
  match (getStr j "tie").toOption with
  | some "away" => .away | some "up" => .up | some "down" => .down | _ => .even

def dOut (ds : List D) : Json :=
  Json.arr (ds.map fun d => Json.arr #[ratToJson d.val, ratToJson d.tan]).toArray

def bitsCfg (cfg : Json) : Except String BitsCfg := do
  let b ← getInt cfg "bits"
  let i ← getInt cfg "integer"
  let sy ← getBool cfg "symmetric"
  let kn ← getBool cfg "keep_negative"
  let al ← getOptRat cfg "alpha"
  pure { bits := b, integer := i, symmetric := sy, keepNeg := kn, alpha := al }

def reluCfg (cfg : Json) : Except String ReluCfg := do
  let b ← getInt cfg "bits"
  let i ← getInt cfg "integer"
  let sl ← cfg.getObjVal? "slope_log"
  let slo : Option Nat := match sl with | .null => none | v => (v.getNat?).toOption
  pure { bits := b, integer := i, slopeLog := slo }

def zip2 (a b : List Rat) : List (Rat × Rat) := a.zip b

def handle (j : Json) : Except String Json := do
  let op ← getStr j "op"
  let t := tieOf j
  let cfg ← j.getObjVal? "cfg"
  let xs ← getRatList j "xs"
  match op with
  | "bits" =>
    let c ← bitsCfg cfg
    let ste ← getBool j "use_ste"
    let qf ← getRat j "qf"
    pure <| Json.mkObj [("out", dOut (xs.map fun x => qbitsD t c ste qf (D.var x)))]
  | "relu" =>
    let c ← reluCfg cfg
    let ste ← getBool j "use_ste"
    let qf ← getRat j "qf"
    let iqc ← getBool cfg "is_quantized_clip"
    let up ← getOptRat cfg "upper"
    let xqs ← getRatList j "xqs"
    let o : ReluOpts := { isQuantizedClip := iqc, upper := up }
    pure <| Json.mkObj [("out", dOut ((zip2 xs xqs).map fun (x, xq) =>
      qreluD c o ste qf (D.var x) (D.const xq)))]
  | "linear" =>
    let b ← getInt cfg "bits"
    let i ← getInt cfg "integer"
    let sy ← getBool cfg "symmetric"
    let kn ← getBool cfg "keep_negative"
    let al ← getOptRat cfg "alpha"
    let c : LinCfg := { bits := b, integer := i, symmetric := sy, keepNeg := kn, alpha := al }
    let qf ← getRat j "qf"
    pure <| Json.mkObj [("out", dOut (xs.map fun x => qlinearD t c qf (D.var x)))]
  | "bits_auto" =>
    -- data-dependent scale: `ss` = the implementation's `self.scale` (= scale * m) per element, an
    -- oracle input; the model's scale search returns it with a NON-zero tangent (K.max is
    -- differentiable) — the result must not depend on that tangent
    let b ← getInt cfg "bits"
    let i ← getInt cfg "integer"
    let kn ← getBool cfg "keep_negative"
    let c : AutoCfg := { bits := b, integer := i, keepNeg := kn }
    let ste ← getBool j "use_ste"
    let qf ← getRat j "qf"
    let ss ← getRatList j "ss"
    let m : Rat := (twoPow c.ub : Rat)
    pure <| Json.mkObj [("out", dOut ((zip2 xs ss).map fun (x, sM) =>
      qbitsAutoD c ste qf (fun xn => ⟨sM / m, xn.tan * 3⟩) (D.var x)))]
  | "linear_s" =>
    -- quantized_linear with the implementation's (data-dependent) quantization scale per element
    let b ← getInt cfg "bits"
    let i ← getInt cfg "integer"
    let sy ← getBool cfg "symmetric"
    let kn ← getBool cfg "keep_negative"
    let c : LinCfg := { bits := b, integer := i, symmetric := sy, keepNeg := kn, alpha := none }
    let qf ← getRat j "qf"
    let qss ← getRatList j "qss"
    pure <| Json.mkObj [("out", dOut ((zip2 xs qss).map fun (x, qs) =>
      qlinearSD t c ⟨qs, 5⟩ qf (D.var x)))]
  | "tanh_hard" =>
    let b ← getInt cfg "bits"
    let sy ← getBool cfg "symmetric"
    pure <| Json.mkObj [("out", dOut (xs.map fun x => qtanhHardD t b sy (D.var x)))]
  | "sigmoid_hard" =>
    let b ← getInt cfg "bits"
    let sy ← getBool cfg "symmetric"
    pure <| Json.mkObj [("out", dOut (xs.map fun x => qsigmoidHardD t b sy (D.var x)))]
  | "tanh_real" | "sigmoid_real" =>
    -- oracle inputs: p = f(x), dp = f'(x) as computed by TensorFlow
    let b ← getInt cfg "bits"
    let sy ← getBool cfg "symmetric"
    let ps ← getRatList j "ps"
    let dps ← getRatList j "dps"
    pure <| Json.mkObj [("out", dOut ((zip2 ps dps).map fun (p, dp) =>
      if op == "tanh_real" then qtanhD t b sy ⟨p, dp⟩ else qsigmoidD t b sy ⟨p, dp⟩))]
  | "po2" =>
    let ste ← getBool j "use_ste"
    let qf ← getRat j "qf"
    let xqs ← getRatList j "xqs"
    pure <| Json.mkObj [("out", dOut ((zip2 xs xqs).map fun (x, xq) => qpo2D ste qf (D.var x) (D.const xq)))]
  | "relu_po2" =>
    let ste ← getBool j "use_ste"
    let qf ← getRat j "qf"
    let xqs ← getRatList j "xqs"
    let slope ← getRat cfg "slope"
    let mv ← getOptRat cfg "max_value"
    pure <| Json.mkObj [("out", dOut ((zip2 xs xqs).map fun (x, xq) =>
      qreluPo2D slope mv ste qf (D.var x) (D.const xq)))]
  | "binter" =>
    let an ← getBool cfg "alpha_none"
    let xqs ← getRatList j "xqs"
    let ths ← getRatList j "ths"
    let dths ← getRatList j "dths"
    let rows := (xs.zip xqs).zip (ths.zip dths)
    pure <| Json.mkObj [("out", dOut (rows.map fun ((x, xq), (th, dth)) =>
      binTerD an (fun _ => th) (fun _ => dth) (D.var x) (D.const xq)))]
  | _ => throw s!"unknown op {op}"

def main : IO Unit := lineLoop handle
