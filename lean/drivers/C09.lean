/- line-protocol driver for C09 (configuration round-trip) -/
import QKV.Drv.PyJson
import QKV.Model.ConfigState
import QKV.Model.ConfigCallTime
open Lean QKV QKV.Drv QKV.Py

def instToJson : Except Err Inst → Json
  | .ok i => Json.mkObj [("ok", envToJson i.q.env), ("cls", Json.str i.q.cls.name),
                         ("hidden", envToJson i.hid)]
  | .error e => Json.mkObj [("err", Json.str e.tag)]

def sigmoidOfString : String → Except String SigmoidMode
  | "hard" => pure .hard | "smooth" => pure .smooth | "real" => pure .real
  | s => throw s!"unknown sigmoid mode {s}"

def formOfString : String → Except String Form
  | "literal" => pure .literal | "np_scalar" => pure .npScalar | "ndarray" => pure .ndarray
  | "tensor" => pure .tensor | "variable" => pure .variable | "array" => pure .array
  | s => throw s!"unknown form {s}"

def stepOfJson (w : World) (j : Json) : Except String StepX := do
  match (← getStr j "op") with
  | "call" => pure (.base .call)
  | "set_trainable" => pure (.base .setTrainable)
  | "update_qnoise" => pure (.base (.updateQnoise (← pyValOfJson (← j.getObjVal? "v"))))
  | "assign" => pure (.assign (← getStr j "k") (← pyValOfJson (← j.getObjVal? "v")))
  | "world" =>
    let sg ← match j.getObjVal? "sigmoid" with
      | .ok v => sigmoidOfString (← v.getStr?)
      | .error _ => pure w.sigmoid
    let cl ← match j.getObjVal? "channels_last" with
      | .ok v => v.getBool?
      | .error _ => pure w.channelsLast
    pure (.base (.world { w with sigmoid := sg, channelsLast := cl }))
  | s => throw s!"unknown step {s}"

/-- steps are decoded left to right so that a `world` step only overrides what it names -/
def stepsOfJson (w : World) : List Json → Except String (List StepX)
  | [] => pure []
  | j :: t => do
    let st ← stepOfJson w j
    let w' := match st with | .base (.world x) => x | _ => w
    pure (st :: (← stepsOfJson w' t))

/-- call-time derived quantities of a `quantized_linear` (strengthening round 3) -/
def derivedToJson (q : Q) : Json :=
  match q.cls with
  | .quantized_linear =>
    let d := linDerived q
    Json.mkObj [
      ("clip", match d.clip with
        | some (a, b) => Json.arr #[ratToJson a, ratToJson b] | none => Json.null),
      ("data_type_scale", match d.dataTypeScale with | some r => ratToJson r | none => Json.null),
      ("use_sign_function", Json.bool d.useSign), ("auto_alpha", Json.bool d.autoAlpha)]
  | _ => Json.null

def formToString : Form → String
  | .literal => "literal" | .npScalar => "np_scalar" | .ndarray => "ndarray"
  | .tensor => "tensor" | .variable => "variable" | .array => "array"

def outcomeToJson : KerasOutcome → Json
  | .ok => Json.mkObj [("kind", Json.str "ok")]
  | .serializeRaises => Json.mkObj [("kind", Json.str "serialize_raises")]
  | .arrivesAsDict ks => Json.mkObj [("kind", Json.str "arrives_as_dict"),
                                     ("keys", Json.arr (ks.map Json.str).toArray)]

/-- constructor parameters whose stored value differs between two instances -/
def diffFields (a b : Q) : List String :=
  (paramNames a.cls).filter fun k => a.get k != b.get k

def handle (j : Json) : Except String Json := do
  let op ← getStr j "op"
  match op with
  | "tables" =>
    -- static tables for the exhaustive tie
    let cls := Cls.all.map fun c =>
      Json.mkObj [("name", Json.str c.name), ("params", envToJson (params c)),
                  ("config_keys", Json.arr ((serialised c).map Json.str).toArray),
                  ("dropped", Json.arr ((dropped c).map Json.str).toArray),
                  ("hidden_names", Json.arr ((hiddenNames c).map Json.str).toArray),
                  ("hidden_reads", Json.arr ((hiddenReads c).map Json.str).toArray),
                  ("assignable", Json.arr ((assignable c).map Json.str).toArray)]
    pure <| Json.mkObj [("registry", Json.arr (registeredNames.map Json.str).toArray),
                        ("classes", Json.arr cls.toArray)]
  | "lookup" =>
    let n ← getStr j "name"
    pure <| Json.mkObj [("cls", match lookup n with | some c => Json.str c.name | none => Json.null)]
  | "construct" =>
    let c ← clsOfJson j "cls"
    let args ← valsOfJson (← j.getObjVal? "args")
    let kw ← envOfJson (← j.getObjVal? "kw")
    pure (resultToJson (construct c args kw))
  | "from_config" =>
    let c ← clsOfJson j "cls"
    let cfg ← envOfJson (← j.getObjVal? "config")
    pure (resultToJson (fromConfig c cfg))
  | "get_quantizer_dict" =>
    let n ← getStr j "class_name"
    let cfg ← envOfJson (← j.getObjVal? "config")
    pure (resultToJson (getQuantizerDict ⟨n, cfg⟩))
  | "roundtrip" =>
    let c ← clsOfJson j "cls"
    let args ← valsOfJson (← j.getObjVal? "args")
    let kw ← envOfJson (← j.getObjVal? "kw")
    match construct c args kw with
    | .error e => pure <| Json.mkObj [("construct", Json.mkObj [("err", Json.str e.tag)])]
    | .ok q =>
      let cfg := getConfig q
      let r1 := fromConfig q.cls cfg
      let r2 := getQuantizerDict (serialize q)
      let diff := match r1 with
        | .ok q' => Json.arr ((diffFields q q').map Json.str).toArray
        | .error _ => Json.null
      let serializable := (dropped q.cls).all fun k => q.get k == defaultOf q.cls k
      -- strengthening round: hidden attributes of the original and of the rebuilt instance,
      -- the configuration of the rebuilt instance, call-time reads of the process state
      let w : World := {}
      let hid := match constructI w c args kw with | .ok i => envToJson i.hid | .error _ => Json.null
      let ri := match constructI w c args kw with
        | .ok i => fromConfigI w i.q.cls (getConfig i.q)
        | .error e => .error e
      let hid2 := match ri with | .ok i => envToJson i.hid | .error _ => Json.null
      let cfg2 := match r1 with | .ok q' => envToJson (getConfig q') | .error _ => Json.null
      pure <| Json.mkObj [("construct", resultToJson (.ok q)), ("config", envToJson cfg),
        ("from_config", resultToJson r1), ("get_quantizer", resultToJson r2),
        ("diff_fields", diff), ("serializable", Json.bool serializable),
        ("hidden", hid), ("hidden_rebuilt", hid2), ("config_rebuilt", cfg2),
        ("reads_sigmoid", Json.bool (readsSigmoid q))]
  | "history" =>
    -- construct, run the steps on the one object, take the configuration, rebuild
    let c ← clsOfJson j "cls"
    let kw ← envOfJson (← j.getObjVal? "kw")
    let w0 : World := {}
    let steps ← stepsOfJson w0 (← (← j.getObjVal? "steps").getArr?).toList
    match constructI w0 c [] kw with
    | .error e => pure <| Json.mkObj [("construct", Json.mkObj [("err", Json.str e.tag)])]
    | .ok i0 =>
      let s := runHistoryX (w0, i0) steps
      let cfg := getConfig s.2.q
      let r1 := fromConfigI s.1 s.2.q.cls cfg
      let r2 := getQuantizerDictI s.1 (serialize s.2.q)
      let cfg2 := match r1 with | .ok i' => envToJson (getConfig i'.q) | .error _ => Json.null
      pure <| Json.mkObj [("construct", instToJson (.ok i0)), ("after", instToJson (.ok s.2)),
        ("config", envToJson cfg), ("from_config", instToJson r1), ("get_quantizer", instToJson r2),
        ("config_rebuilt", cfg2), ("reads_sigmoid", Json.bool (readsSigmoid s.2.q)),
        ("sigmoid", Json.str s.1.sigmoid.name),
        ("derived0", derivedToJson i0.q), ("derived", derivedToJson s.2.q),
        ("derived_rebuilt", match r1 with | .ok i' => derivedToJson i'.q | .error _ => Json.null)]
  | "keras_forms" =>
    let c ← clsOfJson j "cls"
    let a ← (← j.getObjVal? "stored").getArr?
    let stored ← a.toList.mapM fun p => do
      match p with
      | .arr #[k, f] => pure (← k.getStr?, ← formOfString (← f.getStr?))
      | _ => throw "bad form pair"
    -- the Keras-pair outcome plus the form of every emitted configuration value
    let cf := configForms c stored
    -- strengthening round 2: forms held by the quantizer rebuilt through a dictionary route
    let nones ← match j.getObjVal? "nones" with
      | .ok v => (← v.getArr?).toList.mapM fun x => x.getStr?
      | .error _ => pure []
    let rf := rebuiltForms c stored nones
    let pairs := fun (l : List (String × Form)) =>
      Json.arr (l.map fun p => Json.arr #[Json.str p.1, Json.str (formToString p.2)]).toArray
    pure (((outcomeToJson (kerasOutcome cf)).setObjVal! "config_forms" (pairs cf)).setObjVal!
      "rebuilt_forms" (pairs rf))
  | _ => throw s!"unknown op {op}"

def main : IO Unit := lineLoop handle
