/- line-protocol driver for C09 (configuration round-trip) -/
import QKV.Drv.PyJson
open Lean QKV QKV.Drv QKV.Py

/-- constructor parameters whose stored value differs between two instances -/
def diffFields (a b : Q) : List String :=
  (paramNames a.cls).filter fun k => a.get k != b.get k

def handle (j : Json) : Except String Json := do
  let op ← getStr j "op"
  match op with
  | "tables" =>
    -- static tables for the exhaustive tie
    let cls := Cls.all.map fun c =>
      Json.mkObj [("name", Json.str c.name), ("params", envToJson (params c)),
                  ("config_keys", Json.arr ((serialised c).map Json.str).toArray),
                  ("dropped", Json.arr ((dropped c).map Json.str).toArray)]
    pure <| Json.mkObj [("registry", Json.arr (registeredNames.map Json.str).toArray),
                        ("classes", Json.arr cls.toArray)]
  | "lookup" =>
    let n ← getStr j "name"
    pure <| Json.mkObj [("cls", match lookup n with | some c => Json.str c.name | none => Json.null)]
  | "construct" =>
    let c ← clsOfJson j "cls"
    let args ← valsOfJson (← j.getObjVal? "args")
    let kw ← envOfJson (← j.getObjVal? "kw")
    pure (resultToJson (construct c args kw))
  | "from_config" =>
    let c ← clsOfJson j "cls"
    let cfg ← envOfJson (← j.getObjVal? "config")
    pure (resultToJson (fromConfig c cfg))
  | "get_quantizer_dict" =>
    let n ← getStr j "class_name"
    let cfg ← envOfJson (← j.getObjVal? "config")
    pure (resultToJson (getQuantizerDict ⟨n, cfg⟩))
  | "roundtrip" =>
    let c ← clsOfJson j "cls"
    let args ← valsOfJson (← j.getObjVal? "args")
    let kw ← envOfJson (← j.getObjVal? "kw")
    match construct c args kw with
    | .error e => pure <| Json.mkObj [("construct", Json.mkObj [("err", Json.str e.tag)])]
    | .ok q =>
      let cfg := getConfig q
      let r1 := fromConfig q.cls cfg
      let r2 := getQuantizerDict (serialize q)
      let diff := match r1 with
        | .ok q' => Json.arr ((diffFields q q').map Json.str).toArray
        | .error _ => Json.null
      let serializable := (dropped q.cls).all fun k => q.get k == defaultOf q.cls k
      pure <| Json.mkObj [("construct", resultToJson (.ok q)), ("config", envToJson cfg),
        ("from_config", resultToJson r1), ("get_quantizer", resultToJson r2),
        ("diff_fields", diff), ("serializable", Json.bool serializable)]
  | _ => throw s!"unknown op {op}"

def main : IO Unit := lineLoop handle
