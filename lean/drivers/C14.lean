/- line-protocol driver for C14 (export of quantized weights) -/
import QKV.Drv.Json
import QKV.Model.Export
import QKV.Model.FixedQ
open Lean QKV QKV.Drv QKV.Export

def tensorOfJson (j : Json) : Except String Tensor := do
  let a ← j.getArr?
  a.toList.mapM ratOfJson

def tensorsOfJson (j : Json) : Except String (List Tensor) := do
  let a ← j.getArr?
  a.toList.mapM tensorOfJson

def tJ (t : Tensor) : Json := Json.arr (t.map ratToJson).toArray
def tsJ (ts : List Tensor) : Json := Json.arr (ts.map tJ).toArray
def optJ {α} (f : α → Json) : Option α → Json
  | none => Json.null
  | some a => f a

/-- a value no real tensor has: returned when an oracle table has no row for the argument -/
def poison : Tensor := [(987654321 : Rat) / 7]

def lookup3 (tab : List (Tensor × Tensor × Tensor)) (x : Tensor) : Option (Tensor × Tensor) :=
  match tab.find? (fun r => r.1 == x) with
  | some r => some r.2
  | none => none

def quantOfJson (j : Json) : Except String (Option Quant) := do
  match j with
  | .null => pure none
  | _ =>
    let k ← getStr j "kind"
    let kind : QKind ←
      match k with
      | "other" => pure QKind.other
      | "po2" => pure (QKind.po2 true)
      | "relu_po2" => pure (QKind.po2 false)
      | "autopo2" => pure (QKind.autoPo2 (← getInt j "bits") (← getInt j "integer") (← getBool j "keep_negative"))
      | _ => throw s!"bad quantizer kind {k}"
    match j.getObjVal? "fixed" with
    | .ok cfg =>
      -- quantized_bits with a constant scale: computed by the C01/C02 model, elementwise
      let c : BitsCfg := { bits := ← getInt cfg "bits", integer := ← getInt cfg "integer",
                           symmetric := ← getBool cfg "symmetric", keepNeg := ← getBool cfg "keep_negative",
                           alpha := ← getOptRat cfg "alpha" }
      pure (some { kind := kind, q := fun t => t.map (qbits .even c), scaleOf := fun t => t.map fun _ => c.gain })
    | .error _ =>
      let rows ← (← j.getObjVal? "table").getArr?
      let tab ← rows.toList.mapM fun r => do
        let a ← r.getArr?
        if a.size ≠ 3 then throw "table row" else
        pure ((← tensorOfJson a[0]!), (← tensorOfJson a[1]!), (← tensorOfJson a[2]!))
      pure (some { kind := kind,
                   q := fun t => match lookup3 tab t with | some r => r.1 | none => poison,
                   scaleOf := fun t => match lookup3 tab t with | some r => r.2 | none => poison })

def layerOfJson (j : Json) : Except String Layer := do
  let kind : LKind ←
    match (← getStr j "kind") with
    | "plain" => pure LKind.plain
    | "rnn" => pure LKind.rnn
    | "bidir" => pure LKind.bidir
    | "folded" => pure LKind.folded
    | "noq" => pure LKind.noQuant
    | k => throw s!"bad layer kind {k}"
  let qs ← (← (← j.getObjVal? "qs").getArr?).toList.mapM quantOfJson
  let fwdIdx ← (← (← j.getObjVal? "fwd").getArr?).toList.mapM fun v =>
    match v with
    | .null => pure (none : Option Nat)
    | _ => do let i ← v.getNat?; pure (some i)
  let fwd := fwdIdx.map fun o => match o with | none => none | some i => (qs[i]?).join
  let foldTab ←
    match j.getObjVal? "fold" with
    | .ok (.arr rows) => rows.toList.mapM fun r => do
        let a ← r.getArr?
        if a.size ≠ 2 then throw "fold row" else
        pure ((← tensorsOfJson a[0]!), (← tensorsOfJson a[1]!))
    | _ => pure []
  let bn ←
    match j.getObjVal? "bn" with
    | .ok (.null) => pure none
    | .ok b => pure (some { scale := ← getBool b "scale", center := ← getBool b "center", eps := ← getRat b "eps" : BNInfo })
    | .error _ => pure none
  let pool ←
    match j.getObjVal? "pool" with
    | .ok (.null) => pure none
    | .ok p => pure (some { area := ← getRat p "area", mf := ← getRat p "mf" : PoolInfo })
    | .error _ => pure none
  let optNat : String → Nat := fun k =>
    match j.getObjVal? k with
    | .ok v => (v.getNat?).toOption.getD 0
    | .error _ => 0
  pure { cls := ← getStr j "cls", kind := kind, qs := qs, fwd := fwd,
         fold := fun ws => match foldTab.find? (fun r => r.1 == ws) with | some r => r.2 | none => [poison],
         useBias := ← getBool j "use_bias", bn := bn, pool := pool,
         succ := ← getNatList j "succ", allow := ← getBool j "allow",
         dirW := optNat "dir_w", dirWb := optNat "dir_wb", dirQ := optNat "dir_q" }

def envOfJson (j : Json) : Except String Env := do
  let rsqTab ←
    match j.getObjVal? "rsq" with
    | .ok (.arr rows) => rows.toList.mapM fun r => do
        let a ← r.getArr?
        if a.size ≠ 2 then throw "rsq row" else pure ((← ratOfJson a[0]!), (← ratOfJson a[1]!))
    | _ => pure []
  let rnd : Rat → Rat := match (getStr j "rnd").toOption with | some "id" => id | _ => rnd32
  pure { rnd := rnd, rsq := fun x => match rsqTab.find? (fun r => r.1 == x) with
                                      | some r => r.2 | none => 987654321 / 7 }

def entryJ (p : Nat × Entry) : Json :=
  let e := p.2
  Json.mkObj [("i", Json.num (p.1 : Int)), ("hw", tsJ e.hw), ("enable", Json.bool e.enableBnFusing),
    ("signs", optJ tsJ e.signs), ("scales", optJ tsJ e.scales),
    ("pool", optJ (fun (q : PoolEntry) => Json.arr #[ratToJson q.qMult, ratToJson q.mult, ratToJson q.area]) e.pool),
    ("fused_bn", optJ (fun (b : Nat) => Json.num (b : Int)) e.fusedBn),
    ("bn_inv", optJ tJ e.bnInv), ("fused_bias", optJ tJ e.fusedBias)]

def handle (j : Json) : Except String Json := do
  let op ← getStr j "op"
  match op with
  | "export" =>
    let env ← envOfJson j
    let M ← (← (← j.getObjVal? "layers").getArr?).toList.mapM layerOfJson
    let ws ← (← (← j.getObjVal? "ws").getArr?).toList.mapM tensorsOfJson
    let n ← getNat j "n"
    let W0 : Nat → List Tensor := fun k => ws.getD k []
    let idx := List.range M.length
    -- history: before round `rew.round` the user replaces all weights (`set_weights`) by `rew.ws`
    let rew : Option (Nat × List (List Tensor)) ←
      match j.getObjVal? "rew" with
      | .ok (.null) => pure none
      | .ok r => do
        let k ← getNat r "round"
        let ws2 ← (← (← r.getObjVal? "ws").getArr?).toList.mapM tensorsOfJson
        pure (some (k, ws2))
      | .error _ => pure none
    let mut W := W0
    let mut outs : Array Json := #[]
    for rd in [0:n] do
      match rew with
      | some (k, ws2) => if rd == k then W := fun i => ws2.getD i []
      | none => pure ()
      let st := exportQ env M W
      let sp := modelSparsity env M W
      match st.err with
      | some e =>
        outs := outs.push (Json.mkObj [("err", Json.str e)])
      | none =>
        let effSame := idx.all fun k => eff M W k == eff M st.w k
        outs := outs.push (Json.mkObj [
          ("w", Json.arr (idx.map fun k => tsJ (st.w k)).toArray),
          ("d", Json.arr (st.d.map entryJ).toArray),
          ("eff_same", Json.bool effSame),
          ("same_w", Json.bool (idx.all fun k => W k == st.w k)),
          ("sparsity", Json.arr #[Json.num (sp.1 : Int), Json.num (sp.2 : Int)])])
      W := st.w
    pure <| Json.mkObj [("exports", Json.arr outs),
      ("pairs", Json.arr ((fusePairs M).map fun (p : Nat × Nat) => Json.arr #[Json.num (p.1 : Int), Json.num (p.2 : Int)]).toArray),
      ("skip", Json.arr ((skipSet M).map fun (b : Nat) => Json.num (b : Int)).toArray)]
  | "judge_po2" =>
    -- clause: sign * 2^exponent = stored weight (signs given, or implied +1 when not exported)
    let stored ← tensorOfJson (← j.getObjVal? "stored")
    let hw ← tensorOfJson (← j.getObjVal? "hw")
    let sign ← match j.getObjVal? "sign" with
      | .ok (.null) => pure (stored.map fun _ => (1 : Rat))
      | .ok s => tensorOfJson s
      | .error _ => pure (stored.map fun _ => (1 : Rat))
    let ninf : List Bool ← match j.getObjVal? "neg_inf" with
      | .ok (.arr a) => a.toList.mapM fun v => v.getBool?
      | _ => pure (stored.map fun _ => false)
    -- exponent -inf (log2 0): 2^-inf = 0, so the weight must be 0 and the sign still ±1
    let ok := stored.length == hw.length && stored.length == sign.length && stored.length == ninf.length &&
      (List.zip (List.zip stored ninf) (List.zip sign hw)).all fun ((v, z), s, e) =>
        (s == 1 || s == -1) && (if z then v == 0 else e.den == 1 && s * pow2 e.num == v)
    pure <| Json.mkObj [("ok", Json.bool ok)]
  | "judge_autopo2" =>
    let stored ← tensorOfJson (← j.getObjVal? "stored")
    let hw ← tensorOfJson (← j.getObjVal? "hw")
    let scale ← tensorOfJson (← j.getObjVal? "scale")
    let bits ← getInt j "bits"
    -- the DECLARED format: signed [-(2^(bits-1)-1), 2^(bits-1)-1], unsigned [0, 2^bits-1]
    -- (`keep_negative` absent = signed, the default of quantized_bits)
    let kn ← match j.getObjVal? "keep_negative" with
      | .ok (.bool b) => pure b
      | _ => pure true
    let z := List.zip stored (List.zip scale hw)
    let sameLen := stored.length == hw.length && stored.length == scale.length
    pure <| Json.mkObj [
      ("rebuild", Json.bool (sameLen && z.all fun (v, s, h) => s * h == v)),
      ("integer", Json.bool (hw.all fun h => h.den == 1)),
      ("range", Json.bool (hw.all fun h => codeLo bits kn ≤ h && h ≤ codeHi bits kn)),
      ("in_code_range", Json.bool (hw.all (inCodeRange bits kn))),
      ("nonneg", Json.bool (stored.all fun v => 0 ≤ v)),
      ("scale_po2", Json.bool (scale.all isPo2))]
  | "judge_bn" =>
    -- clause: bn_inv / fused_bias equal the BN algebra (float32-simulated) on the parameters the
    -- layers hold after the export (already quantized: no quantizer applied here except inverse)
    let env ← envOfJson j
    let bw ← tensorsOfJson (← j.getObjVal? "bn_w")
    let prevW ← tensorsOfJson (← j.getObjVal? "prev_w")
    let b ← j.getObjVal? "bn"
    let info : BNInfo := { scale := ← getBool b "scale", center := ← getBool b "center", eps := ← getRat b "eps" }
    let iq ← quantOfJson (← j.getObjVal? "inv_q")
    let bnL : Layer := { cls := "QBatchNormalization", kind := .plain, qs := [none, none, none, none, iq],
                         fwd := [], fold := id, useBias := false, bn := some info, pool := none,
                         succ := [], allow := false }
    let t := bnTerms env bnL bw (← getBool j "use_bias") prevW
    pure <| Json.mkObj [("inv", tJ t.inv), ("fused_bias", tJ t.fusedBias)]
  | "rnd32" =>
    let xs ← getRatList j "xs"
    pure <| Json.mkObj [("ys", tJ (xs.map rnd32))]
  | _ => throw s!"unknown op {op}"

def main : IO Unit := lineLoop handle
