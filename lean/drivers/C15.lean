/- line-protocol driver for C15 (batch-norm folding): runs the definitions of QKV.Model.Fold -/
import QKV.Drv.Json
import QKV.Model.FixedQ
import QKV.Model.Fold
open Lean QKV QKV.Drv QKV.Fold

def rats (l : List Rat) : Json := Json.arr (l.map ratToJson).toArray
def nats (l : List Nat) : Json := Json.arr (l.map fun (n : Nat) => Json.num ((n : Int) : JsonNumber)).toArray

def optRats (o : Option (List Rat)) : Json := match o with | none => Json.null | some l => rats l

def getOptRatList (j : Json) (k : String) : Except String (Option (List Rat)) := do
  match j.getObjVal? k with
  | .ok .null => pure none
  | .ok v => do
    let a ← v.getArr?
    let l ← a.toList.mapM ratOfJson
    pure (some l)
  | .error _ => pure none

/-- quantizer: null | {"bits","integer","symmetric","keep_negative"} = quantized_bits(..., alpha=1) -/
def getQuant (j : Json) (k : String) : Except String (Option (T → T)) := do
  match j.getObjVal? k with
  | .ok .null => pure none
  | .error _ => pure none
  | .ok q => do
    let b ← getInt q "bits"
    let i ← getInt q "integer"
    let sy ← getBool q "symmetric"
    let kn ← getBool q "keep_negative"
    let c : BitsCfg := { bits := b, integer := i, symmetric := sy, keepNeg := kn, alpha := none }
    pure (some (List.map (qbits .even c)))

def getAct (j : Json) : Except String (Option (T → T)) := do
  match (getStr j "act").toOption with
  | none => pure none
  | some "linear" => pure none
  | some "relu" => pure (some relu)
  | some a => throw s!"unknown activation {a}"

def getGeom (j : Json) : Except String Geom := do
  pure { n := ← getNat j "n", h := ← getNat j "h", w := ← getNat j "w", cin := ← getNat j "cin",
         kh := ← getNat j "kh", kw := ← getNat j "kw", sh := ← getNat j "sh", sw := ← getNat j "sw",
         dh := ← getNat j "dh", dw := ← getNat j "dw", same := ← getBool j "same",
         cf := (getBool j "cf").toOption.getD false }

def getCfg (j : Json) : Except String LayerCfg := do
  let cls ← getStr j "cls"
  let g ← getGeom j
  let cm ← getNat j "cm"
  match cls with
  | "conv" => pure ⟨.conv, g, cm⟩
  | "dw" => pure ⟨.dw, g, cm⟩
  | _ => throw s!"bad cls {cls}"

/-- the constructor's `data_format` argument (null / absent: omitted) and the process-wide
    `K.image_data_format()` at construction ("global_cf"; absent: channels_last) -/
def getDataFormatReq (j : Json) : Except String (Bool × Option Bool) := do
  let gcf := (getBool j "global_cf").toOption.getD false
  match (getStr j "df").toOption with
  | some "channels_first" => pure (gcf, some true)
  | some "channels_last" => pure (gcf, some false)
  | some d => throw s!"bad data_format {d}"
  | none => pure (gcf, none)

def getBN (j : Json) : Except String BN := do
  pure { gamma := ← getOptRatList j "gamma", beta := ← getOptRatList j "beta",
         mean := ← getRatList j "mean", var := ← getRatList j "var", eps := ← getRat j "eps" }

/-- the rsqrt oracle: table of `[argument, value]` pairs measured on the real `tf.math.rsqrt` -/
def getRs (j : Json) : Except String (List (Rat × Rat)) := do
  match j.getObjVal? "rs" with
  | .error _ => pure []
  | .ok v => do
    let a ← v.getArr?
    a.toList.mapM fun p => do
      match p with
      | .arr #[x, y] => do pure (← ratOfJson x, ← ratOfJson y)
      | _ => throw "bad rs entry"

def rsOf (tab : List (Rat × Rat)) (q : Rat) : Rat :=
  match tab.find? (fun p => p.1 == q) with | some p => p.2 | none => 0

def needRs (tab : List (Rat × Rat)) (bn : BN) : Except String Unit :=
  if bn.var.all fun v => tab.any fun p => p.1 == v + bn.eps then pure ()
  else throw "rsqrt oracle table misses an argument"

def getPlain (j : Json) : Except String Plain := do
  pure { cfg := ← getCfg j, kernel := ← getRatList j "kernel", bias := ← getOptRatList j "bias",
         qk := ← getQuant j "qk", qb := ← getQuant j "qb", act := ← getAct j }

def getFolded (j : Json) : Except String Folded := do
  let mode ← getStr j "mode"
  let m ← match mode with
    | "ema_stats_folding" => pure FoldMode.ema
    | "batch_stats_folding" => pure FoldMode.batch
    | _ => throw s!"bad mode {mode}"
  pure { cfg := ← getCfg j, mode := m, kernel := ← getRatList j "kernel", bias := ← getOptRatList j "bias",
         bn := ← getBN j, qk := ← getQuant j "qk", qb := ← getQuant j "qb", act := ← getAct j }

def absT (v : T) : T := v.map fun q => if q < 0 then -q else q

def kindOf (s : String) : Kind :=
  match s with
  | "input" => .input | "conv2d" => .conv2d | "dwconv2d" => .dwconv2d | "bn" => .bn | _ => .other

def addT (u v : T) : T := List.zipWith (· + ·) u v

def getOp (j : Json) : Except String LayerOp := do
  let op ← getStr j "op"
  match op with
  | "input" => pure .input
  | "conv" => pure (.conv (← getPlain j))
  | "bn" => do
    let cout ← getNat j "cout"
    pure (.bn (← getBN j) (fun t => t % cout))
  | "folded" => pure (.folded (← getFolded j))
  | "relu" => pure (.un relu)
  | "add" => pure (.bin addT)
  | _ => throw s!"bad op {op}"

/-- Concatenate(axis=-1) of channels_last tensors given the channel count of every input -/
def concatPick (pixel off : Nat) : List (Nat × T) → Rat
  | [] => 0
  | (c, v) :: r => if off < c then v.getD (pixel * c + off) 0 else concatPick pixel (off - c) r

def concatLast (chans : List Nat) (vs : List T) : T :=
  let C := chans.sum
  if C = 0 then [] else
    let P := (vs.headD []).length / (chans.headD 1)
    tabulate (P * C) fun t => concatPick (t / C) (t % C) (chans.zip vs)

def subT (vs : List T) : T :=
  match vs with
  | [u, v] => List.zipWith (· - ·) u v
  | _ => []

def sumT (vs : List T) : T :=
  match vs with
  | [] => []
  | u :: r => r.foldl addT u

/-- a layer of the ORDERED DAG (`OGraph`): merges get the list of their inputs in order -/
def getNOp (j : Json) : Except String NOp := do
  let op ← getStr j "op"
  match op with
  | "input" => pure .input
  | "conv" => pure (.conv (← getPlain j))
  | "bn" => do
    let cout ← getNat j "cout"
    pure (.bn (← getBN j) (fun t => t % cout))
  | "folded" => pure (.folded (← getFolded j))
  | "relu" => pure (.merge fun vs => relu (vs.headD []))
  | "add" => pure (.merge sumT)
  | "sub" => pure (.merge subT)
  | "concat" => do
    let chans ← getNatList j "chans"
    pure (.merge (concatLast chans))
  | _ => throw s!"bad op {op}"

def getSlot (s : String) : Except String Slot :=
  match s with
  | "kernel" => pure .kernel | "bias" => pure .bias | "gamma" => pure .gamma | "beta" => pure .beta
  | "mean" => pure .mean | "var" => pure .var
  | _ => throw s!"bad slot {s}"

def getHistOp (j : Json) : Except String Op := do
  let k ← getStr j "k"
  match k with
  | "get" => pure .getFolded
  | "unfold" => pure (.unfold (← getNat j "n") (← getNat j "h") (← getNat j "w") (← getRatList j "x"))
  | "predict" => pure (.predict (← getNat j "n") (← getNat j "h") (← getNat j "w") (← getRatList j "x"))
  | "assign" => pure (.assign (← getSlot (← getStr j "slot")) (← getRatList j "v"))
  | "set_weights" =>
    let a ← (← j.getObjVal? "ws").getArr?
    let ws ← a.toList.mapM fun v => do
      let l ← v.getArr?
      l.toList.mapM ratOfJson
    pure (.setWeights ws)
  | "set_iteration" => pure (.setIteration (← getInt j "i"))
  | "reconfigure" => pure (.reconfigure (← getQuant j "qk") (← getQuant j "qb"))
  | _ => throw s!"bad history op {k}"

def obsToJson : Obs → Json
  | .weights w => Json.mkObj [("k", "weights"), ("fk", optRats (w.map (·.1))), ("fb", optRats (w.map (·.2)))]
  | .unfolded w y => Json.mkObj [("k", "unfolded"), ("uk", optRats (w.map (·.1))), ("ub", optRats (w.map (·.2))),
                                 ("uy", optRats y)]
  | .out y => Json.mkObj [("k", "out"), ("y", optRats y)]
  | .done ok => Json.mkObj [("k", "done"), ("ok", Json.bool ok)]

def handle (j : Json) : Except String Json := do
  let op ← getStr j "op"
  match op with
  | "layer" =>
    -- one folded layer: inference call, get_folded_weights, unfolded layer, conv→BN reference
    -- `Lreq`: the layer in the layout the harness EXPECTS ("cf": the requested one, or the
    -- process-wide one when none is requested); `L`: the layer the constructor builds from the
    -- `data_format` argument "df" under the process-wide format "global_cf" (`ctorCfg`)
    let Lreq ← getFolded j
    let (gcf, df) ← getDataFormatReq j
    let L : Folded := { Lreq with cfg := ctorCfg gcf df Lreq.cfg }
    let tab ← getRs j
    needRs tab L.bn
    let rs := rsOf tab
    let x ← getRatList j "x"
    let bs : BatchStats := { mean := (← getOptRatList j "bmean").getD [], var := (← getOptRatList j "bvar").getD [] }
    let y := L.callInference rs bs x
    let fw := L.foldedWeights rs
    let un := L.unfold rs
    -- reference: stock conv (no quantizers, linear) followed by stock batch norm
    --            in the EXPECTED layout
    let P0 : Plain := { cfg := Lreq.cfg, kernel := L.kernel, bias := L.bias, qk := none, qb := none, act := none }
    let ref := L.bn.infer rs Lreq.cfg.chan (P0.call x)
    -- magnitude (sum of absolute values of all terms) of the un-quantized folded computation,
    -- for the stated float tolerance
    let inv := mulGamma L.bn.gamma (rsqrtVec rs L.bn.var L.bn.eps)
    let magb : Option T := foldedBias L.cfg.cout (absT inv) (L.bias.map absT)
      (L.bn.mean.map fun m => if m < 0 then m else -m) (L.bn.beta.map absT)
    let mag : Option T := fw.bind fun (fk, _) => magb.map fun mb =>
      biasAdd L.cfg.chan (convOp L.cfg (absT x) (absT fk)) mb
    pure <| Json.mkObj [
      ("y", optRats y),
      ("fk", optRats (fw.map (·.1))), ("fb", optRats (fw.map (·.2))),
      ("qfk", optRats (fw.map fun w => applyOpt L.qk w.1)), ("qfb", optRats (fw.map fun w => applyOpt L.qb w.2)),
      ("uk", optRats (un.map (·.kernel))), ("ub", optRats (un.bind (·.bias))),
      ("uy", optRats (un.map fun P => P.call x)),
      ("ref", rats ref), ("mag", optRats mag), ("magb", optRats magb),
      ("oh", Json.num (L.cfg.g.oh : Int)), ("ow", Json.num (L.cfg.g.ow : Int)), ("cout", Json.num (L.cfg.cout : Int)),
      ("built_cf", Json.bool L.cfg.g.cf)]
  | "history" =>
    -- one layer OBJECT, a list of uses; the observations of `Obj.run`
    let Lreq ← getFolded j
    let (gcf, df) ← getDataFormatReq j
    let L : Folded := { Lreq with cfg := ctorCfg gcf df Lreq.cfg }
    let tab ← getRs j
    let rs := rsOf tab
    let it ← getInt j "iteration"
    let opsJ ← (← j.getObjVal? "ops").getArr?
    let ops ← opsJ.toList.mapM getHistOp
    let o0 : Obj := { L := L, iteration := it }
    -- the rsqrt oracle must cover every variance vector the history goes through
    let _ ← ops.foldlM (init := o0) fun (o : Obj) (op : Op) => do
      let o' := (o.step rs op).1
      needRs tab o'.L.bn
      pure o'
    needRs tab L.bn
    let r := o0.run rs ops
    pure <| Json.mkObj [
      ("obs", Json.arr (r.2.map obsToJson).toArray),
      ("iteration", Json.num r.1.iteration),
      ("weights", Json.arr (r.1.getWeights.map rats).toArray),
      ("built_cf", Json.bool L.cfg.g.cf)]
  | "graph" =>
    -- a layer DAG: fold-site selection, classes after model_quantize, and the network function
    -- before / after the conversions
    let nodes ← (← j.getObjVal? "nodes").getArr?
    let nodes := nodes.toList
    let g : Graph ← nodes.mapM fun nd => do
      pure ({ kind := kindOf (← getStr nd "kind"), preds := ← getNatList nd "preds" } : GNode)
    let ops ← nodes.mapM getOp
    let opAt (i : Nat) : LayerOp := ops.getD i .input
    let tab ← getRs j
    let rs := rsOf tab
    let x ← getRatList j "x"
    let out ← getNat j "out"
    let mode := match (getStr j "mode").toOption with | some "batch_stats_folding" => FoldMode.batch | _ => FoldMode.ema
    let hasq ← getNatList j "hasq"
    let sites := foldSites g
    let S : Nat → Bool := fun i => sites.contains i
    let net := toNet g opAt g.length out
    let y0 := net.eval rs x
    -- the BN behind a fold site is the output exactly when ... the caller gives the output node of
    -- the ORIGINAL model; in expression form the conversions act on the same expression
    let yDrop := (net.dropBN S).eval rs x
    let yFold := (net.fold S mode).eval rs x
    let yUnf := (net.unfoldAll rs).bind fun n' => n'.eval rs x
    -- `unfold_model` as the code's two passes over model.layers: clones with the fresh variables
    -- "init" (default: none given = empty arrays), then `_clone_weights` for every pair; "trainable"
    -- per node (default true)
    let ls : List MLayer ← (nodes.zip ops).mapM fun (nd, op) => do
      pure ({ op := op, trainable := (getBool nd "trainable").toOption.getD true } : MLayer)
    let inits : List (List T) ← nodes.mapM fun nd => do
      match nd.getObjVal? "init" with
      | .ok (.arr a) => a.toList.mapM fun v => do
          let l ← v.getArr?
          l.toList.mapM ratOfJson
      | _ => pure []
    let ul := unfoldLayers rs (fun i => inits.getD i []) ls
    let yUnfLayers := ul.bind fun ls' => (toNet g (opsOf ls') g.length out).eval rs x
    let wJson (l : List MLayer) : Json := Json.arr (l.map fun m => Json.arr (m.op.weights.map rats).toArray).toArray
    pure <| Json.mkObj [
      ("unf_weights", match ul with | none => Json.null | some l => wJson l),
      ("unf_trainable", match ul with | none => Json.null | some l => Json.arr (l.map fun m => Json.bool m.trainable).toArray),
      ("y_unf_layers", optRats yUnfLayers),
      ("sites", nats sites), ("bn_delete", nats (bnToDelete g)), ("kept", nats (keptLayers g)),
      ("qclass", nats ((List.range g.length).map (quantizedClass g (fun i => hasq.contains i)))),
      ("y0", optRats y0), ("y_drop", optRats yDrop), ("y_fold", optRats yFold), ("y_unf", optRats yUnf)]
  | "ograph" =>
    -- the DAG with ORDERED n-ary input lists (`OGraph`): the rewiring of convert_to_folded_model
    -- (inputs of every surviving layer, in order), the as-coded function (batch norms dropped) and
    -- the function with the parameters carried over into folded layers
    let nodes ← (← j.getObjVal? "nodes").getArr?
    let nodes := nodes.toList
    let g : OGraph ← nodes.mapM fun nd => do
      pure ({ kind := kindOf (← getStr nd "kind"), ins := ← getNatList nd "preds", op := ← getNOp nd } : ONode)
    let tab ← getRs j
    let rs := rsOf tab
    let x ← getRatList j "x"
    let out ← getNat j "out"
    let mode := match (getStr j "mode").toOption with | some "batch_stats_folding" => FoldMode.batch | _ => FoldMode.ema
    let hasq ← getNatList j "hasq"
    let G := g.shape
    let gc := g.convert mode
    let gr := g.rewire
    let listOf (h : OGraph) : Json := Json.arr ((List.range g.length).map fun k => nats (h.node k).ins).toArray
    pure <| Json.mkObj [
      ("sites", nats (foldSites G)), ("bn_delete", nats (bnToDelete G)), ("kept", nats (keptLayers G)),
      ("qclass", nats ((List.range g.length).map (quantizedClass G (fun i => hasq.contains i)))),
      ("ins_rewire", listOf gr), ("ins_convert", listOf gc),
      ("ins_old", Json.arr ((List.range g.length).map fun k => nats (rewiredInsOld G (g.node k).ins)).toArray),
      ("out_conv", Json.num ((redirect G out : Nat) : Int)),
      ("y0", optRats (g.val rs x out)),
      ("y_drop", optRats (gr.val rs x (redirect G out))),
      ("y_fold", optRats (gc.val rs x (redirect G out)))]
  | _ => throw s!"unknown op {op}"

def main : IO Unit := lineLoop handle
