/- line-protocol driver for C05 (auto-scaled fixed point: quantized_bits / quantized_linear, alpha auto*) -/
import QKV.Drv.GrpJson
import QKV.Model.AutoFxArg
open Lean QKV QKV.Drv QKV.Tn QKV.BT QKV.AF

def qbJson (c : Fl) (es : List QElt) : Json :=
  Json.mkObj [("z", rats (es.map (·.z))), ("s", rats (es.map (·.s))), ("scale", rats (es.map (·.scale))),
    ("y", rats (es.map (·.y))), ("out", rats (es.map fun e => ste c e.x e.y))]

def qlJson (c : Fl) (es : List LElt) : Json :=
  Json.mkObj [("code", rats (es.map (·.code))), ("qs", rats (es.map (·.qs))), ("scale", rats (es.map (·.scale))),
    ("y", rats (es.map (·.y))), ("out", rats (es.map fun e => ste c e.x e.y))]

/-! history ops: ONE object threaded through a list of calls (Model/AutoFx.lean `qbRun` / `qlRun`, the
    definitions `C05_history_fresh` / `C05_linear_history_fresh` are about); per step the float32 result,
    the band flag and the public attributes the object carries after the call -/

/-- `scale_axis` at the ARGUMENT level: ints as Python holds them, negative = counted from the end
    (resolved per call by the model: `qbAxis` / `qlAxis`, Model/AutoFxArg.lean) -/
def axisArgOfJson (j : Json) : Except String AxisArg :=
  match j with
  | .null => pure .none
  | .arr a => do pure (.many (← a.toList.mapM fun v => v.getInt?))
  | v => do pure (.one (← v.getInt?))
def getAxisArg (j : Json) (k : String) : Except String AxisArg :=
  match j.getObjVal? k with
  | .ok v => axisArgOfJson v
  | .error _ => pure .none
def axisToJson : AxisArg → Json
  | .none => Json.null
  | .one a => Json.num a
  | .many l => Json.arr (l.map fun (a : Int) => Json.num a).toArray
def epsToJson : EpsSpec → Json
  | .none => Json.null
  | .one a => Json.num (a : Int)
  | .many l => Json.arr (l.map fun (a : Nat) => Json.num (a : Int)).toArray
def optIntToJson : Option Int → Json
  | none => Json.null
  | some i => Json.num i

def qbAttrsOfJson (cfg : Json) : Except String QBArgAttrs := do
  pure { bits := ← getInt cfg "bits", integer := ← getInt cfg "integer", keepNeg := ← getBool cfg "keep_negative",
         po2 := ← getBool cfg "po2", sa := ← getAxisArg cfg "sa", eps := ← getEps cfg "eps",
         minE := ← getOptInt cfg "min_e", maxE := ← getOptInt cfg "max_e" }
def qbAttrsToJson (a : QBArgAttrs) : Json :=
  Json.mkObj [("bits", Json.num a.bits), ("integer", Json.num a.integer), ("keep_negative", Json.bool a.keepNeg),
    ("po2", Json.bool a.po2), ("sa", axisToJson a.sa), ("eps", epsToJson a.eps), ("min_e", optIntToJson a.minE),
    ("max_e", optIntToJson a.maxE)]
def qlAttrsOfJson (cfg : Json) : Except String QLArgAttrs := do
  pure { bits := ← getInt cfg "bits", integer := ← getInt cfg "integer", symmetric := ← getBool cfg "symmetric",
         keepNeg := ← getBool cfg "keep_negative", po2 := ← getBool cfg "po2", sa := ← getAxisArg cfg "sa" }
def qlAttrsToJson (a : QLArgAttrs) : Json :=
  Json.mkObj [("bits", Json.num a.bits), ("integer", Json.num a.integer), ("symmetric", Json.bool a.symmetric),
    ("keep_negative", Json.bool a.keepNeg), ("po2", Json.bool a.po2), ("sa", axisToJson a.sa)]

def optSet {α : Type} (f : Json → Except String α) (j : Json) : Except String (Option α) :=
  match j.getObjVal? "set" with
  | .ok .null => pure none
  | .ok v => do pure (some (← f v))
  | .error _ => pure none

def storedToJson (t : Option Stored) : Json :=
  match t with
  | none => Json.null
  | some s => Json.mkObj [("shape", Json.arr (s.shape.map fun (a : Nat) => Json.num (a : Int)).toArray), ("vals", rats s.vals)]

def histQB (j : Json) (eps : Rat) : Except String Json := do
  let (_, f32, fu, fd) := ctxs eps
  let a0 ← qbAttrsOfJson (← j.getObjVal? "cfg")
  let pts : Option Stored ← (match j.getObjVal? "pts" with
    | .ok .null => pure none
    | .ok v => do pure (some { shape := ← getNatList v "shape", vals := ← getRatList v "vals" })
    | .error _ => pure none)
  let stepsJ ← (← j.getObjVal? "steps").getArr?
  -- a step with `"export": true` is a `model_save_quantized_weights` event (QBEvent.save): the model that holds the
  -- object is exported while the layer weight is `x`; every other step is a direct call (QBEvent.call)
  let steps ← stepsJ.toList.mapM fun sj => do
    let st : QBArgStep := { set := ← optSet qbAttrsOfJson sj, chLast := ← getBool sj "ch_last",
                            shape := ← getNatList sj "shape", x := ← getRatList sj "x" }
    let ex := match sj.getObjVal? "export" with
      | .ok (.bool true) => true
      | _ => false
    pure (if ex then QBArgEvent.save st else QBArgEvent.call st)
  let o : QBArgObj := { attrs := a0, frozen := pts.isSome, scale := pts }
  let key (l : List QElt) := l.map fun t => (t.z, t.scale)
  let rb := qbArgRunEv f32 o steps
  let ru := qbArgRunEv fu o steps
  let rd := qbArgRunEv fd o steps
  let expJson (e : Option QBExported) : Json :=
    match e with
    | none => Json.null
    | some x => Json.mkObj [("weight", rats x.weight), ("hw", rats x.hw),
        ("scales", match x.scales with | some l => rats l | none => Json.null)]
  let outs := (rb.zip (ru.zip rd)).map fun (b, u, d) =>
    match b.2.1, u.2.1, d.2.1 with
    | .ok eb, .ok eu, .ok ed =>
      Json.mkObj [("F", qbJson f32 eb), ("band", Json.bool (key eu != key eb || key ed != key eb)),
        ("attrs", qbAttrsToJson b.1.attrs), ("frozen", Json.bool b.1.frozen), ("stored", storedToJson b.1.scale),
        ("exported", expJson b.2.2)]
    | .error x, _, _ => Json.mkObj [("err", (errJson x).getObjValD "err"), ("attrs", qbAttrsToJson b.1.attrs)]
    | _, .error x, _ => Json.mkObj [("err", (errJson x).getObjValD "err"), ("attrs", qbAttrsToJson b.1.attrs)]
    | _, _, .error x => Json.mkObj [("err", (errJson x).getObjValD "err"), ("attrs", qbAttrsToJson b.1.attrs)]
  pure <| Json.mkObj [("steps", Json.arr outs.toArray)]

def histQL (j : Json) (eps : Rat) : Except String Json := do
  let (_, f32, fu, fd) := ctxs eps
  let a0 ← qlAttrsOfJson (← j.getObjVal? "cfg")
  let stepsJ ← (← j.getObjVal? "steps").getArr?
  let steps ← stepsJ.toList.mapM fun sj => do
    pure ({ set := ← optSet qlAttrsOfJson sj, chLast := ← getBool sj "ch_last", shape := ← getNatList sj "shape",
            x := ← getRatList sj "x" } : QLArgStep)
  -- default_quantization_scale of a string alpha: the scalar data_type_scale
  let o : QLArgObj := { attrs := a0, qs := { shape := [], vals := [pow2 (a0.integer - (a0.bits - (if a0.keepNeg then 1 else 0)))] } }
  let key (l : List LElt) := l.map fun t => (t.code, t.qs)
  let rb := qlArgRun f32 o steps
  let ru := qlArgRun fu o steps
  let rd := qlArgRun fd o steps
  let outs := (rb.zip (ru.zip rd)).map fun (b, u, d) =>
    match b.2, u.2, d.2 with
    | .ok eb, .ok eu, .ok ed =>
      Json.mkObj [("F", qlJson f32 eb), ("band", Json.bool (key eu != key eb || key ed != key eb)),
        ("attrs", qlAttrsToJson b.1.attrs), ("stored", storedToJson (some b.1.qs))]
    | .error x, _, _ => Json.mkObj [("err", (errJson x).getObjValD "err"), ("attrs", qlAttrsToJson b.1.attrs)]
    | _, .error x, _ => Json.mkObj [("err", (errJson x).getObjValD "err"), ("attrs", qlAttrsToJson b.1.attrs)]
    | _, _, .error x => Json.mkObj [("err", (errJson x).getObjValD "err"), ("attrs", qlAttrsToJson b.1.attrs)]
  pure <| Json.mkObj [("steps", Json.arr outs.toArray)]

def handleHist (j : Json) : Except String Json := do
  let op ← getStr j "op"
  let eps ← getRat j "eps32"
  match op with
  | "qbits_hist" => histQB j eps
  | "qlinear_hist" => histQL j eps
  | _ => throw s!"unknown op {op}"

def handle1 (j : Json) : Except String Json := do
  let op ← getStr j "op"
  let cfg ← j.getObjVal? "cfg"
  let shape ← getNatList j "shape"
  let x ← getRatList j "x"
  let eps ← getRat j "eps32"
  let (e, f32, fu, fd) := ctxs eps
  match op with
  | "qbits_auto" =>
    -- the axis argument is resolved against the rank of THIS tensor by the model (`qbAxis`)
    let epsS ← getEps cfg "eps"
    match qbAxis shape.length (← getAxisArg cfg "sa") epsS with
    | .error x => pure (errJson x)
    | .ok saR =>
    let g : Grp := { chLast := ← getBool cfg "ch_last", sa := saR, eps := epsS }
    let qc : QBCfg := { bits := ← getInt cfg "bits", integer := ← getInt cfg "integer",
                        keepNeg := ← getBool cfg "keep_negative", po2 := ← getBool cfg "po2", grp := g,
                        minE := ← getOptInt cfg "min_e", maxE := ← getOptInt cfg "max_e" }
    let pts : Option (List Rat) ← (match j.getObjVal? "pts" with
      | .ok .null => pure none
      | .ok _ => do pure (some (← getRatList j "pts"))
      | .error _ => pure none)
    match qbAuto e qc pts shape x, qbAuto f32 qc pts shape x, qbAuto fu qc pts shape x, qbAuto fd qc pts shape x with
    | .ok a, .ok b, .ok u, .ok d =>
      let key (l : List QElt) := l.map fun t => (t.z, t.scale)
      pure <| Json.mkObj [("E", qbJson e a), ("F", qbJson f32 b), ("band", Json.bool (key u != key b || key d != key b))]
    | .error x, _, _, _ => pure (errJson x)
    | _, .error x, _, _ => pure (errJson x)
    | _, _, .error x, _ => pure (errJson x)
    | _, _, _, .error x => pure (errJson x)
  | "qlinear_auto" =>
    match qlAxis shape.length (← getAxisArg cfg "sa") with
    | .error x => pure (errJson x)
    | .ok saR =>
    let qc : QLCfg := { bits := ← getInt cfg "bits", integer := ← getInt cfg "integer",
                        symmetric := ← getBool cfg "symmetric", keepNeg := ← getBool cfg "keep_negative",
                        po2 := ← getBool cfg "po2", chLast := ← getBool cfg "ch_last", sa := saR }
    let a := qlAuto e qc shape x
    let b := qlAuto f32 qc shape x
    let u := qlAuto fu qc shape x
    let d := qlAuto fd qc shape x
    let key (l : List LElt) := l.map fun t => (t.code, t.qs)
    pure <| Json.mkObj [("E", qlJson e a), ("F", qlJson f32 b), ("band", Json.bool (key u != key b || key d != key b))]
  | _ => throw s!"unknown op {op}"

def handle (j : Json) : Except String Json := do
  match ← getStr j "op" with
  | "qbits_hist" | "qlinear_hist" => handleHist j
  | _ => handle1 j

def main : IO Unit := lineLoop handle
