/- line-protocol driver for C05 (auto-scaled fixed point: quantized_bits / quantized_linear, alpha auto*) -/
import QKV.Drv.GrpJson
open Lean QKV QKV.Drv QKV.Tn QKV.BT QKV.AF

def qbJson (c : Fl) (es : List QElt) : Json :=
  Json.mkObj [("z", rats (es.map (·.z))), ("s", rats (es.map (·.s))), ("scale", rats (es.map (·.scale))),
    ("y", rats (es.map (·.y))), ("out", rats (es.map fun e => ste c e.x e.y))]

def qlJson (c : Fl) (es : List LElt) : Json :=
  Json.mkObj [("code", rats (es.map (·.code))), ("qs", rats (es.map (·.qs))), ("scale", rats (es.map (·.scale))),
    ("y", rats (es.map (·.y))), ("out", rats (es.map fun e => ste c e.x e.y))]

def handle (j : Json) : Except String Json := do
  let op ← getStr j "op"
  let cfg ← j.getObjVal? "cfg"
  let shape ← getNatList j "shape"
  let x ← getRatList j "x"
  let eps ← getRat j "eps32"
  let (e, f32, fu, fd) := ctxs eps
  match op with
  | "qbits_auto" =>
    let g : Grp := { chLast := ← getBool cfg "ch_last", sa := ← getAxis cfg "sa", eps := ← getEps cfg "eps" }
    let qc : QBCfg := { bits := ← getInt cfg "bits", integer := ← getInt cfg "integer",
                        keepNeg := ← getBool cfg "keep_negative", po2 := ← getBool cfg "po2", grp := g,
                        minE := ← getOptInt cfg "min_e", maxE := ← getOptInt cfg "max_e" }
    let pts : Option (List Rat) ← (match j.getObjVal? "pts" with
      | .ok .null => pure none
      | .ok _ => do pure (some (← getRatList j "pts"))
      | .error _ => pure none)
    match qbAuto e qc pts shape x, qbAuto f32 qc pts shape x, qbAuto fu qc pts shape x, qbAuto fd qc pts shape x with
    | .ok a, .ok b, .ok u, .ok d =>
      let key (l : List QElt) := l.map fun t => (t.z, t.scale)
      pure <| Json.mkObj [("E", qbJson e a), ("F", qbJson f32 b), ("band", Json.bool (key u != key b || key d != key b))]
    | .error x, _, _, _ => pure (errJson x)
    | _, .error x, _, _ => pure (errJson x)
    | _, _, .error x, _ => pure (errJson x)
    | _, _, _, .error x => pure (errJson x)
  | "qlinear_auto" =>
    let qc : QLCfg := { bits := ← getInt cfg "bits", integer := ← getInt cfg "integer",
                        symmetric := ← getBool cfg "symmetric", keepNeg := ← getBool cfg "keep_negative",
                        po2 := ← getBool cfg "po2", chLast := ← getBool cfg "ch_last", sa := ← getAxis cfg "sa" }
    let a := qlAuto e qc shape x
    let b := qlAuto f32 qc shape x
    let u := qlAuto fu qc shape x
    let d := qlAuto fd qc shape x
    let key (l : List LElt) := l.map fun t => (t.code, t.qs)
    pure <| Json.mkObj [("E", qlJson e a), ("F", qlJson f32 b), ("band", Json.bool (key u != key b || key d != key b))]
  | _ => throw s!"unknown op {op}"

def main : IO Unit := lineLoop handle
