/- prints one JSON line per theorem declared in the given module: name + axioms it depends on -/
import Lean
open Lean

def main (args : List String) : IO UInt32 := do
  let some modStr := args.head? | do IO.eprintln "usage: Audit <module>"; return 2
  let mod := modStr.toName
  initSearchPath (← findSysroot)
  let env ← importModules #[{ module := mod }] {} (loadExts := false)
  let some idx := env.getModuleIdx? mod | do IO.eprintln "module not found"; return 2
  let names := env.header.moduleData[idx.toNat]!.constNames
  let mut n := 0
  for c in names do
    match env.find? c with
    | some (.thmInfo _) =>
      if c.isInternal then continue
      let (axs, _) ← ((collectAxioms c : CoreM (Array Name)).toIO
        { fileName := "<audit>", fileMap := default } { env := env })
      let axs := axs.toList.map (·.toString)
      IO.println (Json.mkObj [("name", Json.str c.toString),
                              ("axioms", Json.arr (axs.map Json.str).toArray)]).compress
      n := n + 1
    | _ => pure ()
  if n == 0 then IO.eprintln "no theorems found"
  return 0
