/- line-protocol driver for C19 (operation counts, energy report) -/
import QKV.Drv.Json
import QKV.Model.OpCount
import QKV.Model.Energy
open Lean QKV QKV.Drv QKV.C19

def optNatList (j : Json) (k : String) : Except String (Option (List Nat)) :=
  match j.getObjVal? k with
  | .ok .null => pure none
  | .ok _ => (getNatList j k).map some
  | .error _ => pure none

def layerInfoOfJson (j : Json) : Except String LayerInfo := do
  pure { inShape := ← getNatList j "in", outShape := ← getNatList j "out", wShape := ← getNatList j "w",
         poolSize := ← optNatList j "pool", groups := ← getNat j "groups" }

def optNatToJson : Option Nat → Json
  | none => Json.null
  | some n => Json.num (Int.ofNat n)

def paddingOfString : String → Except String Padding
  | "valid" => pure .valid | "same" => pure .same | "causal" => pure .causal
  | s => throw s!"bad padding {s}"

/-- association list → function; a missing point gives an absurd value so that it cannot pass
    unnoticed in the comparison -/
def tableFn (t : List (Rat × Rat)) : Rat → Rat := fun x => (t.lookup x).getD (10 ^ 30 : Nat)

def getTable (j : Json) (k : String) : Except String (List (Rat × Rat)) := do
  let a ← (← j.getObjVal? k).getArr?
  a.toList.mapM fun p => do
    match p with
    | .arr #[x, y] => pure (← ratOfJson x, ← ratOfJson y)
    | _ => throw "bad table entry"

def costsOfJson (j : Json) : Except String Costs := do
  pure { fpmAdd := tableFn (← getTable j "fpm_add"), fpmMul := tableFn (← getTable j "fpm_mul"),
         fp16Add := tableFn (← getTable j "fp16_add"), fp16Mul := tableFn (← getTable j "fp16_mul"),
         fp32Add := tableFn (← getTable j "fp32_add"), fp32Mul := tableFn (← getTable j "fp32_mul"),
         sramRdLog2 := tableFn (← getTable j "sram_rd_log2"), dramRd := tableFn (← getTable j "dram_rd"),
         sramMulFactor := ← getRat j "sram_mul_factor" }

def qinfoOfJson (j : Json) : Except String QInfo := do
  pure { bits := ← getRat j "bits", isFloat := ← getBool j "float" }

def optField (j : Json) (k : String) (f : Json → Except String α) : Except String (Option α) :=
  match j.getObjVal? k with
  | .ok .null => pure none
  | .ok v => (f v).map some
  | .error _ => pure none

def opUnitOfJson (j : Json) : Except String OpUnit := do
  let m ← getStr j "mode"
  match OpMode.ofString? m with
  | none => throw s!"bad mode {m}"
  | some mode =>
    pure { gateFactor := ← getRat j "gf", gateBits := ← getRat j "gb", mode := mode,
           out := ← qinfoOfJson j }

def natRatPair (j : Json) : Except String (Nat × Rat) :=
  match j with
  | .arr #[n, r] => do
    let i ← n.getInt?
    if i < 0 then throw "negative" else pure (i.toNat, ← ratOfJson r)
  | _ => throw "bad pair"

def elayerOfJson (j : Json) : Except String ELayer := do
  let ins ← (← j.getObjVal? "inputs").getArr?
  pure { className := ← getStr j "cls", isInput := ← getBool j "is_input", isOutput := ← getBool j "is_output",
         inputs := ← ins.toList.mapM natRatPair, nInputs := ← getNat j "n_inputs",
         outElems := ← getNat j "out_elems", outBits := ← getRat j "out_bits", opCount := ← getNat j "count",
         bnSize := ← getNat j "bn_size", bnBits := ← getRatList j "bn_bits",
         wElems := ← getNat j "w_elems", wBits := ← getRat j "w_bits",
         bias := ← optField j "bias" natRatPair,
         multiplier := ← optField j "multiplier" opUnitOfJson,
         accumulator := ← optField j "accumulator" qinfoOfJson,
         poolAccumulator := ← optField j "pool_accumulator" qinfoOfJson,
         bnDivider := ← optField j "bn_div" opUnitOfJson,
         bnMultiplier := ← optField j "bn_mul" opUnitOfJson }

def entryToJson (e : Entry) : Json :=
  Json.arr #[ratToJson e.inputs, ratToJson e.outputs, ratToJson e.parameters, ratToJson e.opCost]

def entryOfJson (j : Json) : Except String Entry :=
  match j with
  | .arr #[a, b, c, d] => do pure ⟨← ratOfJson a, ← ratOfJson b, ← ratOfJson c, ← ratOfJson d⟩
  | _ => throw "bad entry"

def keysOfJson (j : Json) : Except String (List EKey) := do
  let a ← j.getArr?
  a.toList.mapM fun k => do
    let s ← k.getStr?
    match EKey.ofString? s with
    | some k => pure k
    | none => throw s!"bad key {s}"

def branchName : Branch → String
  | .elemwise => "elemwise" | .avgPool => "avgPool" | .upSampling => "upSampling" | .actBn => "actBn"
  | .conv2d => "conv2d" | .conv1d => "conv1d" | .depthwise => "depthwise" | .dense => "dense"
  | .other => "other"

/-- loop nests are enumerated literally only up to this many elements -/
def nestLimit : Nat := 40000

def handle (j : Json) : Except String Json := do
  let op ← getStr j "op"
  match op with
  | "count" =>
    let name ← getStr j "name"
    let L ← layerInfoOfJson j
    pure <| Json.mkObj [("count", optNatToJson (opCount name L)), ("branch", Json.str (branchName (classify name)))]
  | "est" =>
    let name ← getStr j "name"
    let L ← layerInfoOfJson j
    match estClass? name with
    | none => pure <| Json.mkObj [("count", Json.null), ("skipped", Json.bool true)]
    | some c => pure <| Json.mkObj [("count", optNatToJson (estOps c L)), ("skipped", Json.bool false)]
  | "spec" =>
    -- the specification for a geometry: output positions of the index model, Keras' output
    -- length, the loop-nest cardinality (closed form = product of the position counts, proved in
    -- Lemmas.OpCount; the literal enumeration is run as well when it is small)
    let kind ← getStr j "kind"
    let p ← paddingOfString (← getStr j "pad")
    let h ← getNat j "h"; let w ← getNat j "w"
    let kh ← getNat j "kh"; let kw ← getNat j "kw"
    let sh ← getNat j "sh"; let sw ← getNat j "sw"
    let dh ← getNat j "dh"; let dw ← getNat j "dw"
    let ci ← getNat j "ci"; let co ← getNat j "co"
    let g ← getNat j "groups"; let dm ← getNat j "dm"
    let ph := (positions p h kh sh dh).length
    let pw := (positions p w kw sw dw).length
    let (out, mac, lit) : List Nat × Nat × Option Nat :=
      match kind with
      | "conv2d" =>
        let m := ph * pw * co * kh * kw * (ci / g)
        ([convOutLen p h kh sh dh, convOutLen p w kw sw dw, co], m,
         if m ≤ nestLimit then some (macConv2d p h w kh kw sh sw dh dw (ci / g) co) else none)
      | "conv1d" =>
        let m := ph * co * kh * (ci / g)
        ([convOutLen p h kh sh dh, co], m,
         if m ≤ nestLimit then some (macConv1d p h kh sh dh (ci / g) co) else none)
      | "depthwise" =>
        let m := ph * pw * ci * dm * kh * kw
        ([convOutLen p h kh sh dh, convOutLen p w kw sw dw, ci * dm], m,
         if m ≤ nestLimit then some (macDepthwise p h w kh kw sh sw dh dw ci dm) else none)
      | "avgpool" =>
        let m := ph * pw * ci * kh * kw
        ([convOutLen p h kh sh 1, convOutLen p w kw sw 1, ci], m,
         if m ≤ nestLimit then some (macAvgPool p h w kh kw sh sw ci) else none)
      | "globalavgpool" =>
        let m := ci * h * w
        ([ci], m, if m ≤ nestLimit then some (macGlobalAvgPool h w ci) else none)
      | "dense" =>
        -- `h` carries the number of positions of the leading axes (1 for `(batch, n_in)`)
        let m := h * (co * ci)
        ([co], m, if m ≤ nestLimit then some (macDenseAt [h] ci co) else none)
      | "sepconv2d" =>
        let m := ph * pw * ci * dm * kh * kw + ph * pw * co * (ci * dm)
        ([convOutLen p h kh sh dh, convOutLen p w kw sw dw, co], m,
         if m ≤ nestLimit then some (macSepConv2d p h w kh kw sh sw dh dw ci dm co) else none)
      | "sepconv1d" =>
        let m := ph * ci * dm * kh + ph * co * (ci * dm)
        ([convOutLen p h kh sh dh, co], m,
         if m ≤ nestLimit then some (macSepConv1d p h kh sh dh ci dm co) else none)
      | _ => ([], 0, none)
    pure <| Json.mkObj [("out", Json.arr (out.map (fun (n : Nat) => Json.num (Int.ofNat n))).toArray),
      ("mac", Json.num (Int.ofNat mac)), ("literal", optNatToJson lit),
      ("literal_ok", Json.bool (match lit with | some l => l == mac | none => true))]
  | "merge_spec" =>
    -- `n` operands of one shape: per-operand slice (what operation_count reports) and the scalar
    -- operations of the whole n-ary merge (literal enumeration of `mergeNaryNest`)
    let shape ← getNatList j "shape"
    let n ← getNat j "n"
    pure <| Json.mkObj [("mac", Json.num (Int.ofNat (macMerge shape))),
      ("nary", Json.num (Int.ofNat (opsMergeNary n shape)))]
  | "energy" =>
    let c ← costsOfJson (← j.getObjVal? "costs")
    let pl : Placement := { wMem := Mem.ofString (← getStr j "weights_on_memory"),
                            actMem := Mem.ofString (← getStr j "activations_on_memory"),
                            minSram := ← getRat j "min_sram_size", rdWr := ← getBool j "rd_wr_on_io" }
    let ls ← (← (← j.getObjVal? "layers").getArr?).toList.mapM elayerOfJson
    match energyEstimate c pl ls with
    | none => pure <| Json.mkObj [("err", Json.str "raises")]
    | some (res, T) =>
      let raw := ls.filterMap (layerEntry c pl)
      pure <| Json.mkObj [("rows", Json.arr (res.map (fun r => entryToJson r.2)).toArray),
        ("raw", Json.arr (raw.map entryToJson).toArray),
        ("raw_total", ratToJson ((raw.map Entry.sum).sum)),
        ("total", Json.num T),
        ("nonneg", Json.bool (raw.all fun e => decide (0 ≤ e.inputs) && decide (0 ≤ e.outputs)
                                && decide (0 ≤ e.parameters) && decide (0 ≤ e.opCost)))]
  | "extract" =>
    let cfgObj ← (← j.getObjVal? "cfg").getObj?
    let cfg ← cfgObj.toList.mapM fun (k, v) => do pure (k, ← keysOfJson v)
    let rows ← (← (← j.getObjVal? "rows").getArr?).toList.mapM fun r => do
      match r with
      | .arr #[c, e] => pure (← c.getStr?, ← entryOfJson e)
      | _ => throw "bad row"
    pure <| Json.mkObj [("sum", Json.num (extractSum cfg rows)),
      ("raw_sum", ratToJson ((extractProfile cfg rows).sum)),
      ("profile", Json.arr ((extractProfile cfg rows).map ratToJson).toArray)]
  | _ => throw s!"unknown op {op}"

def main : IO Unit := lineLoop handle
