/- line-protocol driver for C04 (binary / ternary quantizers on tensors) -/
import QKV.Drv.GrpJson
import QKV.Model.BinTerSR
open Lean QKV QKV.Drv QKV.Tn QKV.BT

def eltsJson (c : Fl) (xste : List Rat) (es : List Elt) : Json :=
  Json.mkObj [("codes", rats (es.map (·.code))), ("scales", rats (es.map (·.scale))),
    ("y", rats (es.map (·.y))),
    ("out", rats ((xste.zip es).map fun p => ste c p.1 p.2.y))]

def four (eps : Rat) (xste : List Rat) (f : Fl → Except Err (List Elt)) : Json :=
  let (e, f32, fu, fd) := ctxs eps
  match f e, f f32, f fu, f fd with
  | .ok a, .ok b, .ok u, .ok d =>
    let key (l : List Elt) := l.map fun t => (t.code, t.scale)
    Json.mkObj [("E", eltsJson e xste a), ("F", eltsJson f32 xste b),
      ("band", Json.bool (key u != key b || key d != key b))]
  | .error x, _, _, _ => errJson x
  | _, .error x, _, _ => errJson x
  | _, _, .error x, _ => errJson x
  | _, _, _, .error x => errJson x


/-! argument forms / live objects / histories (strengthening round) -/

def numFormOfStr : String → Except String NumForm
  | "pyfloat" => pure .pyFloat | "pyint" => pure .pyInt | "pybool" => pure .pyBool
  | "npfloat32" => pure .npFloat32 | "npfloat64" => pure .npFloat64
  | "npint32" => pure .npInt32 | "npint64" => pure .npInt64
  | "tfconst" => pure .tfConst | "tfvariable" => pure .tfVariable
  | s => throw s!"unknown numeric form {s}"

/-- null | "text" | [n, d] (python float) | {"f": form, "v": [n, d]} | {"f": "ndarray", "shape": [...], "vals": [...]} -/
def argOfJson (j : Json) : Except String Arg :=
  match j with
  | .null => pure .none
  | .str s => pure (.str s)
  | .arr _ => do pure (.num .pyFloat (← ratOfJson j))
  | _ => do
    let f ← getStr j "f"
    if f == "ndarray" then pure (.arr (← getNatList j "shape") (← getRatList j "vals"))
    else pure (.num (← numFormOfStr f) (← getRat j "v"))

def getArg (j : Json) (k : String) : Except String Arg :=
  match j.getObjVal? k with
  | .ok v => argOfJson v
  | .error _ => pure .none

/-- null | int (python) | {"f": "py" | "npint", "e": int} -/
def expArgOfJson (j : Json) : Except String ExpArg :=
  match j with
  | .null => pure .none
  | .num _ => do pure (.py (← j.getInt?))
  | _ => do
    let f ← getStr j "f"
    let e ← getInt j "e"
    if f == "npint" then pure (.npInt e) else pure (.py e)

def getExpArg (j : Json) (k : String) : Except String ExpArg :=
  match j.getObjVal? k with
  | .ok v => expArgOfJson v
  | .error _ => pure .none

/-- scale_axis as Python hands it over: null | int | [int, ...] (negative ints allowed) -/
def axisArgOfJson (j : Json) : Except String AxisArg :=
  match j with
  | .null => pure .none
  | .arr a => do pure (.many (← a.toList.mapM fun v => v.getInt?))
  | v => do pure (.one (← v.getInt?))

def getAxisArg (j : Json) (k : String) : Except String AxisArg :=
  match j.getObjVal? k with
  | .ok v => axisArgOfJson v
  | .error _ => pure .none

def xsteOf (j : Json) : Except String (List Rat) :=
  match j.getObjVal? "xste" with
  | .ok _ => getRatList j "xste"
  | .error _ => getRatList j "x"

def binOpOfJson (j : Json) : Except String (BinOp × Option (List Rat)) := do
  match ← getStr j "k" with
  | "call" =>
    let np := match j.getObjVal? "np" with | .ok (.bool true) => true | _ => false
    if np then pure (.callNp (← getNatList j "shape") (← getRatList j "x"), some (← xsteOf j))
    else pure (.call (← getNatList j "shape") (← getRatList j "x"), some (← xsteOf j))
  | "set_alpha" => pure (.setAlpha (← getArg j "v"), none)
  | "set_use01" => pure (.setUse01 (← getBool j "v"), none)
  | "set_axis" => pure (.setAxis (← getAxisArg j "sa") (← getEps j "eps"), none)
  | "set_bounds" => pure (.setBounds (← getExpArg j "mn") (← getExpArg j "mx"), none)
  | "set_trainable" => pure (.setTrainable, none)
  | "set_format" => pure (.setFormat (← getBool j "ch_last"), none)
  | k => throw s!"unknown binary op {k}"

def terOpOfJson (j : Json) : Except String (TerOp × Option (List Rat)) := do
  match ← getStr j "k" with
  | "call" => pure (.call (← getNatList j "shape") (← getRatList j "x"), some (← xsteOf j))
  | "set_alpha" => pure (.setAlpha (← getArg j "v"), none)
  | "set_threshold" => pure (.setThreshold (← getArg j "v"), none)
  | "set_unrolls" => pure (.setUnrolls (← getNat j "v"), none)
  | "set_trainable" => pure (.setTrainable, none)
  | "set_format" => pure (.setFormat (← getBool j "ch_last"), none)
  | k => throw s!"unknown ternary op {k}"

def optRats : Option (List Rat) → Json
  | some l => rats l
  | none => Json.null

def histJson (eps : Rat) (xstes : List (List Rat)) (outs : Fl → List (Except Err (List Elt)))
    (scale : Option (List Rat)) : Json :=
  let calls := (List.range xstes.length).map fun k =>
    four eps (xstes.getD k []) fun c => (outs c).getD k (.error .assert)
  Json.mkObj [("calls", Json.arr calls.toArray), ("scale", optRats scale)]

def binAttrsOfJson (o : Json) : Except String BinAttrs := do
  pure { use01 := ← getBool o "use01", alpha := ← getArg o "alpha", sa := ← getAxisArg o "sa",
         eps := ← getEps o "eps", minE := ← getExpArg o "min_e", maxE := ← getExpArg o "max_e" }

def handle (j : Json) : Except String Json := do
  let op ← getStr j "op"
  match op with
  | "bin_pair" =>
    -- two live binary / stochastic_binary(inference) objects (configured with one Python list) and ONE
    -- history addressed to them (`w` = 0 / 1): `binRun2`, the definition `C04_shared_argument_independent`
    -- and `C04_pair_call_as_fresh` are about
    let a1 ← binAttrsOfJson (← j.getObjVal? "obj1")
    let a2 ← binAttrsOfJson (← j.getObjVal? "obj2")
    let st0 : BinSt2 := { env := { chLast := ← getBool j "ch_last" }, fst := BinObj.new a1, snd := BinObj.new a2,
                          outs1 := [], outs2 := [] }
    let opsJ ← (← j.getObjVal? "ops").getArr?
    let ops ← opsJ.toList.mapM fun oj => do
      let w ← getNat oj "w"
      let r ← binOpOfJson oj
      pure ((if w = 0 then Which.fst else Which.snd), r.1, r.2)
    let eps ← getRat j "eps32"
    let xs (w : Which) := ops.filterMap fun t => if t.1 = w then t.2.2 else none
    let run (c : Fl) := binRun2 c st0 (ops.map fun t => (t.1, t.2.1))
    pure <| Json.mkObj [
      ("a", histJson eps (xs .fst) (fun c => (run c).outs1) (run (Fl.f32 eps)).fst.scale),
      ("b", histJson eps (xs .snd) (fun c => (run c).outs2) (run (Fl.f32 eps)).snd.scale)]
  | "keys" =>
    -- grouping only: producer and consumer key of every position
    let cfg ← j.getObjVal? "cfg"
    let g : Grp := { chLast := ← getBool cfg "ch_last", sa := ← getAxis cfg "sa", eps := ← getEps cfg "eps" }
    let shape ← getNatList j "shape"
    match keys g shape with
    | .error e => pure (errJson e)
    | .ok (pk, ck) =>
      let enc (l : List (List Nat)) := Json.arr (l.map fun k => Json.arr (k.map fun (n : Nat) => Json.num (n : Int)).toArray).toArray
      pure <| Json.mkObj [("pk", enc pk), ("ck", enc ck)]
  | "binary" =>
    let cfg ← j.getObjVal? "cfg"
    let g : Grp := { chLast := ← getBool cfg "ch_last", sa := ← getAxis cfg "sa", eps := ← getEps cfg "eps" }
    let bc : BinCfg := { use01 := ← getBool cfg "use01", alpha := ← alphaOfJson (← cfg.getObjVal? "alpha"),
                         grp := g, minE := ← getOptInt cfg "min_e", maxE := ← getOptInt cfg "max_e" }
    let shape ← getNatList j "shape"
    let x ← getRatList j "x"
    let xste ← getRatList j "xste"
    let eps ← getRat j "eps32"
    pure (four eps xste fun c => binary c bc shape x)
  | "ternary" =>
    let cfg ← j.getObjVal? "cfg"
    let tc : TerCfg := { alpha := ← alphaOfJson (← cfg.getObjVal? "alpha"), thres := ← getRat cfg "thres",
                         chLast := ← getBool cfg "ch_last", unrolls := ← getNat cfg "unrolls" }
    let shape ← getNatList j "shape"
    let x ← getRatList j "x"
    let xste ← getRatList j "xste"
    let eps ← getRat j "eps32"
    pure (four eps xste fun c => ternary c tc shape x)
  | "bin_hist" =>
    -- one live binary / stochastic_binary(inference) object and a history of operations on it
    let o ← j.getObjVal? "obj"
    let a : BinAttrs := { use01 := ← getBool o "use01", alpha := ← getArg o "alpha", sa := ← getAxisArg o "sa",
                          eps := ← getEps o "eps", minE := ← getExpArg o "min_e", maxE := ← getExpArg o "max_e" }
    let st0 : BinSt := { env := { chLast := ← getBool j "ch_last" }, obj := BinObj.new a, outs := [] }
    let opsJ ← (← j.getObjVal? "ops").getArr?
    let ops ← opsJ.toList.mapM binOpOfJson
    let eps ← getRat j "eps32"
    let xstes := ops.filterMap (·.2)
    let run (c : Fl) := binRun c st0 (ops.map (·.1))
    pure (histJson eps xstes (fun c => (run c).outs) (run (Fl.f32 eps)).obj.scale)
  | "ter_hist" =>
    let o ← j.getObjVal? "obj"
    let a : TerAttrs := { alpha := ← getArg o "alpha", threshold := ← getArg o "threshold",
                          unrolls := ← getNat o "unrolls" }
    let st0 : TerSt := { env := { chLast := ← getBool j "ch_last" }, obj := TerObj.new a, outs := [] }
    let opsJ ← (← j.getObjVal? "ops").getArr?
    let ops ← opsJ.toList.mapM terOpOfJson
    let eps ← getRat j "eps32"
    let xstes := ops.filterMap (·.2)
    let run (c : Fl) := terRun c st0 (ops.map (·.1))
    pure (histJson eps xstes (fun c => (run c).outs) (run (Fl.f32 eps)).obj.scale)
  | "rnd32" =>
    let xs ← getRatList j "xs"
    pure <| Json.mkObj [("ys", rats (xs.map rnd32))]
  | "shapes" =>
    -- the shape helpers on their own
    let shape ← getNatList j "shape"
    let sa ← getAxis j "sa"
    let eps ← getEps j "eps"
    match validateAxisEps shape sa eps with
    | .error e => pure (errJson e)
    | .ok (axes, factors, _) =>
      let (ush, uaxes) := unrolledShape shape axes factors
      let nat (l : List Nat) := Json.arr (l.map fun (n : Nat) => Json.num (n : Int)).toArray
      pure <| Json.mkObj [("unrolled", nat ush), ("uaxes", nat uaxes),
        ("rolled", nat (rolledBackShape ush uaxes))]
  | "scaling_axis" =>
    let sa ← getAxis j "sa"
    let len ← getNat j "len"
    let cl ← getBool j "ch_last"
    pure <| Json.mkObj [("axes", Json.arr ((scalingAxis cl sa len).map fun (n : Nat) => Json.num (n : Int)).toArray)]
  | "scaling_axis_arg" =>
    -- `_get_scaling_axis` on the axes as Python hands them over (negative axes are counted from the end)
    let sa ← getAxisArg j "sa"
    let len ← getNat j "len"
    let cl ← getBool j "ch_last"
    match axisOfArg len sa with
    | .error e => pure (errJson e)
    | .ok spec =>
      pure <| Json.mkObj [("axes", Json.arr ((scalingAxis cl spec len).map fun (n : Nat) => Json.num (n : Int)).toArray)]
  | "bin_sr" =>
    -- binary with the option `use_stochastic_rounding` (`usr` = its truth value) under a learning phase
    -- (Model/BinTerSR.lean).  Inference (or option off): `binarySR` in the four contexts, as op "binary".
    -- Training with the option: the outputs are random; per element the normaliser `f` and the codes the
    -- model admits (every floor / ceil draw x every fill draw, float32 context).
    let cfg ← j.getObjVal? "cfg"
    let g : Grp := { chLast := ← getBool cfg "ch_last", sa := ← getAxis cfg "sa", eps := ← getEps cfg "eps" }
    let bc : BinCfg := { use01 := ← getBool cfg "use01", alpha := ← alphaOfJson (← cfg.getObjVal? "alpha"),
                         grp := g, minE := ← getOptInt cfg "min_e", maxE := ← getOptInt cfg "max_e" }
    let usr ← getBool j "usr"
    let training ← getBool j "training"
    let shape ← getNatList j "shape"
    let x ← getRatList j "x"
    let eps ← getRat j "eps32"
    if usr && training then
      let c := Fl.f32 eps
      let f := srNorm (maxKeys (terMaxAxes g.chLast shape.length) shape) x
      pure <| Json.mkObj [("f", rats f),
        ("adm", Json.arr ((f.zip x).map fun p => rats (srAdmissible c bc.use01 p.1 p.2)).toArray)]
    else
      let xste ← getRatList j "xste"
      let ph : Phase := if training then .training else .inference
      pure (four eps xste fun c => binarySR c bc usr ph { up := [], u := [] } shape x)
  | "ter_sr" =>
    let cfg ← j.getObjVal? "cfg"
    let tc : TerCfg := { alpha := ← alphaOfJson (← cfg.getObjVal? "alpha"), thres := ← getRat cfg "thres",
                         chLast := ← getBool cfg "ch_last", unrolls := ← getNat cfg "unrolls" }
    let usr ← getBool j "usr"
    let shape ← getNatList j "shape"
    let x ← getRatList j "x"
    let xste ← getRatList j "xste"
    let eps ← getRat j "eps32"
    pure (four eps xste fun c => ternarySRInf c tc usr shape x)
  | _ => throw s!"unknown op {op}"

def main : IO Unit := lineLoop handle
