/- line-protocol driver for C04 (binary / ternary quantizers on tensors) -/
import QKV.Drv.GrpJson
open Lean QKV QKV.Drv QKV.Tn QKV.BT

def eltsJson (c : Fl) (xste : List Rat) (es : List Elt) : Json :=
  Json.mkObj [("codes", rats (es.map (·.code))), ("scales", rats (es.map (·.scale))),
    ("y", rats (es.map (·.y))),
    ("out", rats ((xste.zip es).map fun p => ste c p.1 p.2.y))]

def four (eps : Rat) (xste : List Rat) (f : Fl → Except Err (List Elt)) : Json :=
  let (e, f32, fu, fd) := ctxs eps
  match f e, f f32, f fu, f fd with
  | .ok a, .ok b, .ok u, .ok d =>
    let key (l : List Elt) := l.map fun t => (t.code, t.scale)
    Json.mkObj [("E", eltsJson e xste a), ("F", eltsJson f32 xste b),
      ("band", Json.bool (key u != key b || key d != key b))]
  | .error x, _, _, _ => errJson x
  | _, .error x, _, _ => errJson x
  | _, _, .error x, _ => errJson x
  | _, _, _, .error x => errJson x

def handle (j : Json) : Except String Json := do
  let op ← getStr j "op"
  match op with
  | "keys" =>
    -- grouping only: producer and consumer key of every position
    let cfg ← j.getObjVal? "cfg"
    let g : Grp := { chLast := ← getBool cfg "ch_last", sa := ← getAxis cfg "sa", eps := ← getEps cfg "eps" }
    let shape ← getNatList j "shape"
    match keys g shape with
    | .error e => pure (errJson e)
    | .ok (pk, ck) =>
      let enc (l : List (List Nat)) := Json.arr (l.map fun k => Json.arr (k.map fun (n : Nat) => Json.num (n : Int)).toArray).toArray
      pure <| Json.mkObj [("pk", enc pk), ("ck", enc ck)]
  | "binary" =>
    let cfg ← j.getObjVal? "cfg"
    let g : Grp := { chLast := ← getBool cfg "ch_last", sa := ← getAxis cfg "sa", eps := ← getEps cfg "eps" }
    let bc : BinCfg := { use01 := ← getBool cfg "use01", alpha := ← alphaOfJson (← cfg.getObjVal? "alpha"),
                         grp := g, minE := ← getOptInt cfg "min_e", maxE := ← getOptInt cfg "max_e" }
    let shape ← getNatList j "shape"
    let x ← getRatList j "x"
    let xste ← getRatList j "xste"
    let eps ← getRat j "eps32"
    pure (four eps xste fun c => binary c bc shape x)
  | "ternary" =>
    let cfg ← j.getObjVal? "cfg"
    let tc : TerCfg := { alpha := ← alphaOfJson (← cfg.getObjVal? "alpha"), thres := ← getRat cfg "thres",
                         chLast := ← getBool cfg "ch_last", unrolls := ← getNat cfg "unrolls" }
    let shape ← getNatList j "shape"
    let x ← getRatList j "x"
    let xste ← getRatList j "xste"
    let eps ← getRat j "eps32"
    pure (four eps xste fun c => ternary c tc shape x)
  | "rnd32" =>
    let xs ← getRatList j "xs"
    pure <| Json.mkObj [("ys", rats (xs.map rnd32))]
  | "shapes" =>
    -- the shape helpers on their own
    let shape ← getNatList j "shape"
    let sa ← getAxis j "sa"
    let eps ← getEps j "eps"
    match validateAxisEps shape sa eps with
    | .error e => pure (errJson e)
    | .ok (axes, factors, _) =>
      let (ush, uaxes) := unrolledShape shape axes factors
      let nat (l : List Nat) := Json.arr (l.map fun (n : Nat) => Json.num (n : Int)).toArray
      pure <| Json.mkObj [("unrolled", nat ush), ("uaxes", nat uaxes),
        ("rolled", nat (rolledBackShape ush uaxes))]
  | "scaling_axis" =>
    let sa ← getAxis j "sa"
    let len ← getNat j "len"
    let cl ← getBool j "ch_last"
    pure <| Json.mkObj [("axes", Json.arr ((scalingAxis cl sa len).map fun (n : Nat) => Json.num (n : Int)).toArray)]
  | _ => throw s!"unknown op {op}"

def main : IO Unit := lineLoop handle
