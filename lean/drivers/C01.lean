/- line-protocol driver for C01 / C02 (fixed-point quantizers at value level) -/
import QKV.Drv.Json
import QKV.Model.FixedQ
import QKV.Model.FixedQObj
open Lean QKV QKV.Drv

def tieOf (j : Json) : Tie :=
  match (getStr j "tie").toOption with
  | some "away" => .away | some "up" => .up | some "down" => .down | _ => .even

/-- `cfg.stoch` (use_stochastic_rounding), `cfg.phase` (K.learning_phase() at the call), draws `cfg.u`,
    `cfg.u2`; all optional: absent = the plain deterministic quantizer -/
def roundModeOf (cfg : Json) : RoundMode :=
  let b (k : String) : Bool := match (getBool cfg k).toOption with | some v => v | none => false
  let q (k : String) : Rat := match (getRat cfg k).toOption with | some v => v | none => 0
  { stoch := b "stoch", phase := b "phase", u := q "u", u2 := q "u2" }

def rats (l : List Rat) : Json := Json.arr (l.map ratToJson).toArray

def modeOf (j : Json) : Option SigMode :=
  match (getStr j "mode").toOption with
  | some "hard" => some .hard | some "smooth" => some .smooth | some "real" => some .real | _ => none

/-- the piecewise-linear surrogates need no oracle: the real sigmoid is never evaluated here -/
def noSigma : Rat → Rat := fun _ => 0

def getRows (j : Json) (k : String) : Except String (List (List Rat)) := do
  let a ← (← j.getObjVal? k).getArr?
  a.toList.mapM fun r => do
    let l ← r.getArr?
    l.toList.mapM ratOfJson

def reluCfgOf (cfg : Json) : Except String ReluCfg := do
  let sl ← cfg.getObjVal? "slope_log"
  let b ← getInt cfg "bits"
  let i ← getInt cfg "integer"
  let slo : Option Nat := match sl with | .null => none | v => (v.getNat?).toOption
  let up ← getOptRat cfg "upper"
  let qc : Bool := match (getBool cfg "qclip").toOption with | some v => v | none => true
  pure { bits := b, integer := i, slopeLog := slo, upper := up, qclip := qc }

/-- `yx`: outputs computed from the INPUTS under the given mode (hard / smooth only) -/
def yxOf (j : Json) (f : SigMode → Rat → Rat) : Except String Json := do
  match modeOf j, (j.getObjVal? "xs").toOption with
  | some .real, _ => pure Json.null
  | some m, some _ => do
    let xs ← getRatList j "xs"
    pure (rats (xs.map (f m)))
  | _, _ => pure Json.null

/-! ### histories on one object (`QKV.Model.FixedQObj`) -/

def ansToJson : Ans → Json
  | .val r => ratToJson r
  | .list l => rats l
  | .err => Json.str "err"

/-- a step of the wire format: `{"ev": name, "val": …}` or `{"ask": "call"|"min"|"max"|"range", …}`.
    A call carries a LIST of inputs (`xs`, and `ps` for the classes with a surrogate): one `Ask.call`
    per element, answered from the same state. -/
def runHist {S E : Type} (M : ObjSpec S E Ask Ans) (parseEv : String → Json → Except String E)
    (s0 : S) (steps : List Json) : Except String Json := do
  let mut s := s0
  let mut out : Array Json := #[]
  for st in steps do
    match (getStr st "ev").toOption with
    | some name =>
      let e ← parseEv name st
      s := M.apply s e
    | none =>
      let a ← getStr st "ask"
      match a with
      | "call" =>
        let xs ← getRatList st "xs"
        let ps ← match (st.getObjVal? "ps").toOption with
          | some _ => getRatList st "ps"
          | none => pure xs
        let ys := (List.zip xs ps).map fun (x, p) => M.answer s (Ask.call x p)
        -- the same list through `ObjSpec.run` (the function the theorems are about)
        let ys' := M.run s ((List.zip xs ps).map fun (x, p) => HStep.ask (Ask.call x p))
        if ys != ys' then throw "run / answer mismatch"
        out := out.push (Json.arr (ys.map ansToJson).toArray)
      | "min" => out := out.push (ansToJson (M.answer s Ask.min))
      | "max" => out := out.push (ansToJson (M.answer s Ask.max))
      | "range" => out := out.push (ansToJson (M.answer s Ask.range))
      | _ => throw s!"unknown ask {a}"
  pure (Json.mkObj [("answers", Json.arr out)])

def linEvOf (name : String) (st : Json) : Except String LinEv := do
  match name with
  | "set_symmetric" => pure (.setSymmetric (← getBool st "val"))
  | "set_alpha" => pure (.setAlpha (← getOptRat st "val"))
  | "set_alpha_auto" => pure .setAlphaAuto
  | "trainable" => pure .trainable
  | "rescale" => pure (.rescale (← getRat st "val"))
  | "noop" => pure .noop
  | _ => throw s!"quantized_linear: no event {name}"

def bitsEvOf (name : String) (st : Json) : Except String BitsEv := do
  match name with
  | "set_bits" => pure (.setBits (← getInt st "val"))
  | "set_integer" => pure (.setInteger (← getInt st "val"))
  | "set_symmetric" => pure (.setSymmetric (← getBool st "val"))
  | "set_keep_negative" => pure (.setKeepNeg (← getBool st "val"))
  | "set_alpha" => pure (.setAlpha (← getOptRat st "val"))
  | "trainable" => pure .trainable
  | "rescale" => pure (.rescale (← getRat st "val"))
  | "noop" => pure .noop
  | _ => throw s!"quantized_bits: no event {name}"

def reluEvOf (name : String) (st : Json) : Except String ReluEv := do
  match name with
  | "set_bits" => pure (.setBits (← getInt st "val"))
  | "set_integer" => pure (.setInteger (← getInt st "val"))
  | "set_slope" =>
    let v ← st.getObjVal? "val"
    pure (.setSlope (match v with | .null => none | v => (v.getNat?).toOption))
  | "set_upper" => pure (.setUpper (← getOptRat st "val"))
  | "set_qclip" => pure (.setQclip (← getBool st "val"))
  | "set_use_sigmoid" => pure (.setUseSigmoid (← getBool st "val"))
  | "trainable" => pure .noop
  | "noop" => pure .noop
  | _ => throw s!"quantized_relu: no event {name}"

def surEvOf (name : String) (st : Json) : Except String SurEv := do
  match name with
  | "set_bits" => pure (.setBits (← getInt st "val"))
  | "set_symmetric" => pure (.setSymmetric (← getBool st "val"))
  | "trainable" => pure .noop
  | "noop" => pure .noop
  | _ => throw s!"quantized_tanh/sigmoid: no event {name}"

def handleHist (j : Json) (t : Tie) : Except String Json := do
  let cls ← getStr j "cls"
  let cfg ← j.getObjVal? "cfg"
  let steps := (← (← j.getObjVal? "steps").getArr?).toList
  match cls with
  | "qlinear" =>
    let b ← getInt cfg "bits"
    let i ← getInt cfg "integer"
    let sy ← getBool cfg "symmetric"
    let kn ← getBool cfg "keep_negative"
    let al ← getOptRat cfg "alpha"
    let c : LinCfg := { bits := b, integer := i, symmetric := sy, keepNeg := kn, alpha := al }
    let auto : Bool := match (getBool cfg "auto").toOption with | some b => b | none => false
    runHist (linSpec t) linEvOf (LinSt.construct c auto) steps
  | "qbits" =>
    let b ← getInt cfg "bits"
    let i ← getInt cfg "integer"
    let sy ← getBool cfg "symmetric"
    let kn ← getBool cfg "keep_negative"
    let al ← getOptRat cfg "alpha"
    let c : BitsCfg := { bits := b, integer := i, symmetric := sy, keepNeg := kn, alpha := al }
    runHist (bitsSpec t) bitsEvOf (BitsSt.construct c) steps
  | "qrelu" =>
    let c ← reluCfgOf cfg
    let us : Bool := match (getBool cfg "use_sigmoid").toOption with | some b => b | none => false
    runHist (reluSpec t) reluEvOf { cfg := c, useSigmoid := us } steps
  | "qtanh" =>
    let b ← getInt cfg "bits"
    let sy ← getBool cfg "symmetric"
    runHist (tanhSpec t) surEvOf { bits := b, symmetric := sy } steps
  | "qsigmoid" =>
    let b ← getInt cfg "bits"
    let sy ← getBool cfg "symmetric"
    runHist (sigmoidSpec t) surEvOf { bits := b, symmetric := sy } steps
  | _ => throw s!"unknown class {cls}"

def handle (j : Json) : Except String Json := do
  let op ← getStr j "op"
  let t := tieOf j
  let cfg ← j.getObjVal? "cfg"
  let rm := roundModeOf cfg
  match op with
  | "hist" => handleHist j t
  | "qbits" =>
    let b ← getInt cfg "bits"
    let i ← getInt cfg "integer"
    let sy ← getBool cfg "symmetric"
    let kn ← getBool cfg "keep_negative"
    let al ← getOptRat cfg "alpha"
    let c : BitsCfg := { bits := b, integer := i, symmetric := sy, keepNeg := kn, alpha := al }
    let xs ← getRatList j "xs"
    pure <| Json.mkObj [("ys", rats (xs.map (qbitsS t rm c))), ("min", ratToJson (qbitsMin c)),
      ("max", ratToJson (qbitsMax c)),
      ("range", match qbitsRange c with | some l => rats l | none => Json.null)]
  | "qrelu" =>
    let c ← reluCfgOf cfg
    let xs ← getRatList j "xs"
    pure <| Json.mkObj [("ys", rats (xs.map (qreluUS t rm c))), ("min", ratToJson (qreluMin c)),
      ("max", ratToJson (qreluMax c)),
      ("range", match qreluRange c with | some l => rats l | none => Json.null)]
  | "qrelusig" =>
    -- quantized_relu(use_sigmoid=1): `ss` = the surrogate values `_sigmoid(x / m_i)`
    let c ← reluCfgOf cfg
    let ss ← getRatList j "ss"
    let yx ← yxOf j (fun m => qreluSigX t c noSigma m)
    pure <| Json.mkObj [("ys", rats (ss.map (qreluSigUS t rm c))), ("yx", yx),
      ("min", ratToJson (qreluMin c)), ("max", ratToJson (qreluMax c)), ("range", Json.null)]
  | "qlinear_pc" =>
    let b ← getInt cfg "bits"
    let i ← getInt cfg "integer"
    let sy ← getBool cfg "symmetric"
    let kn ← getBool cfg "keep_negative"
    let c : LinCfg := { bits := b, integer := i, symmetric := sy, keepNeg := kn, alpha := none }
    let as ← getRatList j "alphas"
    let rows ← getRows j "rows"
    pure <| Json.mkObj [("ys", Json.arr (rows.map fun r => rats (qlinearPC t c as r)).toArray),
      ("mins", rats (qlinearMinPC c as)), ("maxs", rats (qlinearMaxPC c as)),
      ("range_last", match qlinearRangeLast c as with | some l => rats l | none => Json.null),
      ("range_first", Json.arr ((qlinearRangeFirst c as).map rats).toArray)]
  | "qbits_pc" =>
    let b ← getInt cfg "bits"
    let i ← getInt cfg "integer"
    let sy ← getBool cfg "symmetric"
    let kn ← getBool cfg "keep_negative"
    let c : BitsCfg := { bits := b, integer := i, symmetric := sy, keepNeg := kn, alpha := none }
    let as ← getRatList j "alphas"
    let rows ← getRows j "rows"
    pure <| Json.mkObj [("ys", Json.arr (rows.map fun r => rats (qbitsPC t c as r)).toArray),
      ("min", ratToJson (qbitsMin c)), ("max", ratToJson (qbitsMax c))]
  | "qlinear" =>
    let b ← getInt cfg "bits"
    let i ← getInt cfg "integer"
    let sy ← getBool cfg "symmetric"
    let kn ← getBool cfg "keep_negative"
    let al ← getOptRat cfg "alpha"
    let c0 : LinCfg := { bits := b, integer := i, symmetric := sy, keepNeg := kn, alpha := al }
    -- route "reassign-alpha": constructed with `ctor_alpha`, `alpha` assigned afterwards
    let c : LinCfg ← match (getBool cfg "has_ctor_alpha").toOption with
      | some true => do
        let ca ← getOptRat cfg "ctor_alpha"
        let o : LinObj := (LinObj.construct { c0 with alpha := ca }).setAlpha al
        pure o.effective
      | _ => pure c0
    let xs ← getRatList j "xs"
    pure <| Json.mkObj [("ys", rats (xs.map (qlinearS t rm c))), ("min", ratToJson (qlinearMin c)),
      ("max", ratToJson (qlinearMax c)), ("range", rats (qlinearRange c))]
  | "qtanh" =>
    let bits ← getInt cfg "bits"
    let sym ← getBool cfg "symmetric"
    let ps ← getRatList j "ps"
    let m := twoPow (bits - 1)
    let yx ← yxOf j (fun md => qtanhX t bits sym noSigma md)
    pure <| Json.mkObj [("ys", rats (ps.map (qtanhPS t rm bits sym))), ("yx", yx),
      ("min", ratToJson (((-m + (if sym then 1 else 0) : Int) : Rat) / (m : Rat))),
      ("max", ratToJson (((m - 1 : Int) : Rat) / (m : Rat)))]
  | "qsigmoid" =>
    let bits ← getInt cfg "bits"
    let sym ← getBool cfg "symmetric"
    let ps ← getRatList j "ps"
    let m := twoPow bits
    let yx ← yxOf j (fun md => qsigmoidX t bits sym noSigma md)
    pure <| Json.mkObj [("ys", rats (ps.map (qsigmoidPS t rm bits sym))), ("yx", yx),
      ("min", ratToJson (((if sym then 1 else 0 : Int) : Rat) / (m : Rat))),
      ("max", ratToJson (((m - 1 : Int) : Rat) / (m : Rat)))]
  | _ => throw s!"unknown op {op}"

def main : IO Unit := lineLoop handle
