/- line-protocol driver for C01 / C02 (fixed-point quantizers at value level) -/
import QKV.Drv.Json
import QKV.Model.FixedQ
open Lean QKV QKV.Drv

def tieOf (j : Json) : Tie :=
  match (getStr j "tie").toOption with
  | some "away" => .away | some "up" => .up | some "down" => .down | _ => .even

def rats (l : List Rat) : Json := Json.arr (l.map ratToJson).toArray

def handle (j : Json) : Except String Json := do
  let op ← getStr j "op"
  let t := tieOf j
  let cfg ← j.getObjVal? "cfg"
  match op with
  | "qbits" =>
    let b ← getInt cfg "bits"
    let i ← getInt cfg "integer"
    let sy ← getBool cfg "symmetric"
    let kn ← getBool cfg "keep_negative"
    let al ← getOptRat cfg "alpha"
    let c : BitsCfg := { bits := b, integer := i, symmetric := sy, keepNeg := kn, alpha := al }
    let xs ← getRatList j "xs"
    pure <| Json.mkObj [("ys", rats (xs.map (qbits t c))), ("min", ratToJson (qbitsMin c)),
      ("max", ratToJson (qbitsMax c)),
      ("range", match qbitsRange c with | some l => rats l | none => Json.null)]
  | "qrelu" =>
    let sl ← cfg.getObjVal? "slope_log"
    let b ← getInt cfg "bits"
    let i ← getInt cfg "integer"
    let slo : Option Nat := match sl with | .null => none | v => (v.getNat?).toOption
    let c : ReluCfg := { bits := b, integer := i, slopeLog := slo }
    let xs ← getRatList j "xs"
    pure <| Json.mkObj [("ys", rats (xs.map (qrelu t c))), ("min", ratToJson (qreluMin c)),
      ("max", ratToJson (qreluMax c)),
      ("range", match qreluRange c with | some l => rats l | none => Json.null)]
  | "qlinear" =>
    let b ← getInt cfg "bits"
    let i ← getInt cfg "integer"
    let sy ← getBool cfg "symmetric"
    let kn ← getBool cfg "keep_negative"
    let al ← getOptRat cfg "alpha"
    let c : LinCfg := { bits := b, integer := i, symmetric := sy, keepNeg := kn, alpha := al }
    let xs ← getRatList j "xs"
    pure <| Json.mkObj [("ys", rats (xs.map (qlinear t c))), ("min", ratToJson (qlinearMin c)),
      ("max", ratToJson (qlinearMax c)), ("range", rats (qlinearRange c))]
  | "qtanh" =>
    let bits ← getInt cfg "bits"
    let sym ← getBool cfg "symmetric"
    let ps ← getRatList j "ps"
    let m := twoPow (bits - 1)
    pure <| Json.mkObj [("ys", rats (ps.map (qtanhP t bits sym))),
      ("min", ratToJson (((-m + (if sym then 1 else 0) : Int) : Rat) / (m : Rat))),
      ("max", ratToJson (((m - 1 : Int) : Rat) / (m : Rat)))]
  | "qsigmoid" =>
    let bits ← getInt cfg "bits"
    let sym ← getBool cfg "symmetric"
    let ps ← getRatList j "ps"
    let m := twoPow bits
    pure <| Json.mkObj [("ys", rats (ps.map (qsigmoidP t bits sym))),
      ("min", ratToJson (((if sym then 1 else 0 : Int) : Rat) / (m : Rat))),
      ("max", ratToJson (((m - 1 : Int) : Rat) / (m : Rat)))]
  | _ => throw s!"unknown op {op}"

def main : IO Unit := lineLoop handle
