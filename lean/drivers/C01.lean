/- line-protocol driver for C01 / C02 (fixed-point quantizers at value level) -/
import QKV.Drv.Json
import QKV.Model.FixedQ
open Lean QKV QKV.Drv

def tieOf (j : Json) : Tie :=
  match (getStr j "tie").toOption with
  | some "away" => .away | some "up" => .up | some "down" => .down | _ => .even

def rats (l : List Rat) : Json := Json.arr (l.map ratToJson).toArray

def modeOf (j : Json) : Option SigMode :=
  match (getStr j "mode").toOption with
  | some "hard" => some .hard | some "smooth" => some .smooth | some "real" => some .real | _ => none

/-- the piecewise-linear surrogates need no oracle: the real sigmoid is never evaluated here -/
def noSigma : Rat → Rat := fun _ => 0

def getRows (j : Json) (k : String) : Except String (List (List Rat)) := do
  let a ← (← j.getObjVal? k).getArr?
  a.toList.mapM fun r => do
    let l ← r.getArr?
    l.toList.mapM ratOfJson

def reluCfgOf (cfg : Json) : Except String ReluCfg := do
  let sl ← cfg.getObjVal? "slope_log"
  let b ← getInt cfg "bits"
  let i ← getInt cfg "integer"
  let slo : Option Nat := match sl with | .null => none | v => (v.getNat?).toOption
  let up ← getOptRat cfg "upper"
  let qc : Bool := match (getBool cfg "qclip").toOption with | some v => v | none => true
  pure { bits := b, integer := i, slopeLog := slo, upper := up, qclip := qc }

/-- `yx`: outputs computed from the INPUTS under the given mode (hard / smooth only) -/
def yxOf (j : Json) (f : SigMode → Rat → Rat) : Except String Json := do
  match modeOf j, (j.getObjVal? "xs").toOption with
  | some .real, _ => pure Json.null
  | some m, some _ => do
    let xs ← getRatList j "xs"
    pure (rats (xs.map (f m)))
  | _, _ => pure Json.null

def handle (j : Json) : Except String Json := do
  let op ← getStr j "op"
  let t := tieOf j
  let cfg ← j.getObjVal? "cfg"
  match op with
  | "qbits" =>
    let b ← getInt cfg "bits"
    let i ← getInt cfg "integer"
    let sy ← getBool cfg "symmetric"
    let kn ← getBool cfg "keep_negative"
    let al ← getOptRat cfg "alpha"
    let c : BitsCfg := { bits := b, integer := i, symmetric := sy, keepNeg := kn, alpha := al }
    let xs ← getRatList j "xs"
    pure <| Json.mkObj [("ys", rats (xs.map (qbits t c))), ("min", ratToJson (qbitsMin c)),
      ("max", ratToJson (qbitsMax c)),
      ("range", match qbitsRange c with | some l => rats l | none => Json.null)]
  | "qrelu" =>
    let c ← reluCfgOf cfg
    let xs ← getRatList j "xs"
    pure <| Json.mkObj [("ys", rats (xs.map (qreluU t c))), ("min", ratToJson (qreluMin c)),
      ("max", ratToJson (qreluMax c)),
      ("range", match qreluRange c with | some l => rats l | none => Json.null)]
  | "qrelusig" =>
    -- quantized_relu(use_sigmoid=1): `ss` = the surrogate values `_sigmoid(x / m_i)`
    let c ← reluCfgOf cfg
    let ss ← getRatList j "ss"
    let yx ← yxOf j (fun m => qreluSigX t c noSigma m)
    pure <| Json.mkObj [("ys", rats (ss.map (qreluSigU t c))), ("yx", yx),
      ("min", ratToJson (qreluMin c)), ("max", ratToJson (qreluMax c)), ("range", Json.null)]
  | "qlinear_pc" =>
    let b ← getInt cfg "bits"
    let i ← getInt cfg "integer"
    let sy ← getBool cfg "symmetric"
    let kn ← getBool cfg "keep_negative"
    let c : LinCfg := { bits := b, integer := i, symmetric := sy, keepNeg := kn, alpha := none }
    let as ← getRatList j "alphas"
    let rows ← getRows j "rows"
    pure <| Json.mkObj [("ys", Json.arr (rows.map fun r => rats (qlinearPC t c as r)).toArray),
      ("mins", rats (qlinearMinPC c as)), ("maxs", rats (qlinearMaxPC c as)),
      ("range_last", match qlinearRangeLast c as with | some l => rats l | none => Json.null),
      ("range_first", Json.arr ((qlinearRangeFirst c as).map rats).toArray)]
  | "qbits_pc" =>
    let b ← getInt cfg "bits"
    let i ← getInt cfg "integer"
    let sy ← getBool cfg "symmetric"
    let kn ← getBool cfg "keep_negative"
    let c : BitsCfg := { bits := b, integer := i, symmetric := sy, keepNeg := kn, alpha := none }
    let as ← getRatList j "alphas"
    let rows ← getRows j "rows"
    pure <| Json.mkObj [("ys", Json.arr (rows.map fun r => rats (qbitsPC t c as r)).toArray),
      ("min", ratToJson (qbitsMin c)), ("max", ratToJson (qbitsMax c))]
  | "qlinear" =>
    let b ← getInt cfg "bits"
    let i ← getInt cfg "integer"
    let sy ← getBool cfg "symmetric"
    let kn ← getBool cfg "keep_negative"
    let al ← getOptRat cfg "alpha"
    let c0 : LinCfg := { bits := b, integer := i, symmetric := sy, keepNeg := kn, alpha := al }
    -- route "reassign-alpha": constructed with `ctor_alpha`, `alpha` assigned afterwards
    let c : LinCfg ← match (getBool cfg "has_ctor_alpha").toOption with
      | some true => do
        let ca ← getOptRat cfg "ctor_alpha"
        let o : LinObj := (LinObj.construct { c0 with alpha := ca }).setAlpha al
        pure o.effective
      | _ => pure c0
    let xs ← getRatList j "xs"
    pure <| Json.mkObj [("ys", rats (xs.map (qlinear t c))), ("min", ratToJson (qlinearMin c)),
      ("max", ratToJson (qlinearMax c)), ("range", rats (qlinearRange c))]
  | "qtanh" =>
    let bits ← getInt cfg "bits"
    let sym ← getBool cfg "symmetric"
    let ps ← getRatList j "ps"
    let m := twoPow (bits - 1)
    let yx ← yxOf j (fun md => qtanhX t bits sym noSigma md)
    pure <| Json.mkObj [("ys", rats (ps.map (qtanhP t bits sym))), ("yx", yx),
      ("min", ratToJson (((-m + (if sym then 1 else 0) : Int) : Rat) / (m : Rat))),
      ("max", ratToJson (((m - 1 : Int) : Rat) / (m : Rat)))]
  | "qsigmoid" =>
    let bits ← getInt cfg "bits"
    let sym ← getBool cfg "symmetric"
    let ps ← getRatList j "ps"
    let m := twoPow bits
    let yx ← yxOf j (fun md => qsigmoidX t bits sym noSigma md)
    pure <| Json.mkObj [("ys", rats (ps.map (qsigmoidP t bits sym))), ("yx", yx),
      ("min", ratToJson (((if sym then 1 else 0 : Int) : Rat) / (m : Rat))),
      ("max", ratToJson (((m - 1 : Int) : Rat) / (m : Rat)))]
  | _ => throw s!"unknown op {op}"

def main : IO Unit := lineLoop handle
