/- line-protocol driver for C07 (qnoise_factor mixing, storage state machine, QNoiseScheduler) -/
import QKV.Drv.Json
import QKV.Model.Sched
open Lean QKV QKV.Drv QKV.QNoise QKV.Sched

def storeOfJson (j : Json) : Except String Store := do
  let k ← getStr j "store"
  let v ← getRat j "v"
  match k with
  | "py" => pure (.py v)
  | "var" => pure (.var v)
  | _ => throw s!"bad store {k}"

def qstateOfJson (j : Json) : Except String QState := do
  pure { store := ← storeOfJson j, built := ← getBool j "built", useVars := ← getBool j "use_vars" }

def qstateToJson (s : QState) : List (String × Json) :=
  [("store", Json.str (if s.store.isVar then "var" else "py")),
   ("v", ratToJson (match s.store with | .py v => v | .var v => v)),
   ("built", Json.bool s.built), ("use_vars", Json.bool s.useVars)]

def opOfJson (j : Json) : Except String Op := do
  let k ← getStr j "op"
  match k with
  | "build" => pure (.build (← getBool j "b"))
  | "update" => pure (.update (← getRat j "v"))
  | "update_from_var" => pure (.updateFromVar (← getRat j "v"))
  | "set_use_vars" => pure (.setUseVars (← getBool j "b"))
  | "call" => pure .call
  | _ => throw s!"bad op {k}"

/-- an operation of the multi-quantizer system: {"op":"local","i":n,"o":{single-quantizer op}},
    {"op":"upd_caller","i":n,"k":n}, {"op":"upd_quant","i":n,"j":n}, {"op":"assign","k":n,"v":rat} -/
def mopOfJson (j : Json) : Except String MOp := do
  let k ← getStr j "op"
  match k with
  | "local" => pure (.local (← getNat j "i") (← opOfJson (← j.getObjVal? "o")))
  | "upd_caller" => pure (.updateFromCaller (← getNat j "i") (← getNat j "k"))
  | "upd_quant" => pure (.updateFromQuant (← getNat j "i") (← getNat j "j"))
  | "assign" => pure (.assign (← getNat j "k") (← getRat j "v"))
  | _ => throw s!"bad multi op {k}"

def sysToJson (rd : Rnd) (s : Sys) (nq nw : Nat) : Json :=
  Json.mkObj [
    ("qs", Json.arr ((List.range nq).map fun i =>
        Json.mkObj (qstateToJson (s.q i) ++ [("eff", ratToJson ((s.q i).eff rd))])).toArray),
    ("ws", Json.arr ((List.range nw).map fun k => ratToJson (s.w k)).toArray)]

/-- quantized_relu configuration: bits, integer, slope_log (null = slope 0, k = 2^-k), upper
    (null = no relu_upper_bound, else the float32 bound as a rational), qclip -/
def reluCfgOfJson (cfg : Json) : Except String ReluCfg := do
  let slo : Option Nat := match cfg.getObjVal? "slope_log" with
    | .ok .null => none
    | .ok v => (v.getNat?).toOption
    | .error _ => none
  let up : Option Rat ← match cfg.getObjVal? "upper" with
    | .ok .null => pure none
    | .ok v => do pure (some (← ratOfJson v))
    | .error _ => pure none
  pure { bits := ← getInt cfg "bits", integer := ← getInt cfg "integer", slopeLog := slo,
         upper := up, qclip := ← getBool cfg "qclip" }

def qobjOfJson (j : Json) : Except String QObj := do
  let k ← getStr j "kind"
  let kind ← match k with
    | "std" => pure Kind.std
    | "linear" => pure Kind.linear
    | "noknob" => pure Kind.noKnob
    | _ => throw s!"bad kind {k}"
  match kind with
  | .noKnob => pure { tag := ← getNat j "tag", kind := kind, useSte := false,
                      st := { store := .py 0, built := false, useVars := false } }
  | _ => pure { tag := ← getNat j "tag", kind := kind, useSte := ← getBool j "use_ste",
                st := ← qstateOfJson j }

def qobjToJson (q : QObj) : Json :=
  Json.mkObj ([("tag", Json.num (q.tag : Int)), ("use_ste", Json.bool q.useSte)] ++ qstateToJson q.st)

/-- a layer record: optional holders `quantizers` (array), `quantizer`, `api` (array =
    `get_quantizers()`), `activation`, `recurrent_activation` (absent / null = attribute absent) and
    `sub` = the layers it holds in lookup order (`layers`, `cell`, `forward_layer`, `backward_layer`,
    `layer`) -/
partial def layerOfJson (j : Json) : Except String Layer := do
  let optList (k : String) : Except String (Option (List QObj)) :=
    match j.getObjVal? k with
    | .ok (.arr a) => do pure (some (← a.toList.mapM qobjOfJson))
    | _ => pure none
  let optObj (k : String) : Except String (Option QObj) :=
    match j.getObjVal? k with
    | .ok .null => pure none
    | .ok v => do pure (some (← qobjOfJson v))
    | .error _ => pure none
  let sub ← match j.getObjVal? "sub" with
    | .ok (.arr a) => a.toList.mapM layerOfJson
    | _ => pure []
  pure (.mk { quantizers := ← optList "quantizers", quantizer := ← optObj "quantizer",
              api := ← optList "api", activation := ← optObj "activation",
              recurrentActivation := ← optObj "recurrent_activation" } sub)

def cfgOfJson (j : Json) : Except String Cfg := do
  pure { start := ← getInt j "start", finish := ← getInt j "finish", stepMode := ← getBool j "step_mode",
         updateFreq := ← getInt j "update_freq", initial := ← getInt j "initial", useSte := ← getBool j "use_ste" }

def eventOfJson (j : Json) : Except String Event := do
  match ← j.getStr? with
  | "T" => pure .trainBegin
  | "E" => pure .epochBegin
  | "e" => pure .epochEnd
  | "B" => pure .batchBegin
  | "F" => pure .forward
  | k => throw s!"bad event {k}"

/-- oracle table for `np.power(val, exponent)`: list of (argument, value) pairs -/
def tablePw (tbl : List (Rat × Rat)) (r : Rat) : Rat :=
  match tbl.find? (fun p => p.1 == r) with
  | some p => p.2
  | none => -7   -- sentinel: argument the harness did not supply (shows up as a disagreement)

def cbToJson (s : CB) (raised : Bool) : Json :=
  Json.mkObj [("raised", Json.bool raised), ("num_iters", Json.num s.numIters),
    ("factor", match s.factor with | none => Json.null | some v => ratToJson v),
    ("quantizers", match s.quantizers with
        | none => Json.null
        | some qs => Json.arr (qs.map qobjToJson).toArray)]

def handle (j : Json) : Except String Json := do
  let op ← getStr j "op"
  let rd := Rnd.ieee
  match op with
  | "mix" =>
    -- form: "ste" | "noste" | "linear"; s, q: float32 values; factor storage
    let form ← getStr j "form"
    let ss ← getRatList j "s"
    let qs ← getRatList j "q"
    let st ← storeOfJson j
    let raw := match st with | .py v => v | .var v => v
    let pairs := ss.zip qs
    let y := pairs.map fun (s, q) =>
      match form with
      | "linear" => mixLinearF rd s q st
      | "ste" => mixF rd s q st true
      | _ => mixF rd s q st false
    let ex := pairs.map fun (s, q) =>
      match form with
      | "linear" => mixLinearExactB rd s q st
      | "ste" => mixExactB rd s q st true
      | _ => mixExactB rd s q st false
    -- the property's right-hand side with the factor as written (python value / variable value)
    let spec := pairs.map fun (s, q) => s + raw * (q - s)
    let modelExact := pairs.map fun (s, q) =>
      match form with
      | "linear" => mixLinear s q raw
      | "ste" => mix s q raw true
      | _ => mix s q raw false
    pure <| Json.mkObj [("y", Json.arr (y.map ratToJson).toArray),
      ("exact", Json.arr (ex.map Json.bool).toArray),
      ("spec", Json.arr (spec.map ratToJson).toArray),
      ("model_exact", Json.arr (modelExact.map ratToJson).toArray),
      ("f_eff", ratToJson (st.asF rd))]
  | "mix_many" =>
    -- one (s, q) vector under several factor storages: [{"store","v"}, …] → per storage the float32
    -- evaluation (as op "mix", without the exact-reading extras)
    let form ← getStr j "form"
    let ss ← getRatList j "s"
    let qs ← getRatList j "q"
    let stsJ ← (← j.getObjVal? "stores").getArr?
    let sts ← stsJ.toList.mapM storeOfJson
    let pairs := ss.zip qs
    let ys := sts.map fun st =>
      Json.arr (pairs.map fun (s, q) =>
        ratToJson (match form with
          | "linear" => mixLinearF rd s q st
          | "ste" => mixF rd s q st true
          | _ => mixF rd s q st false)).toArray
    pure <| Json.mkObj [("ys", Json.arr ys.toArray)]
  | "storage" =>
    let s0 ← qstateOfJson (← j.getObjVal? "init")
    let opsJ ← (← j.getObjVal? "ops").getArr?
    let ops ← opsJ.toList.mapM opOfJson
    let mut s := s0
    let mut out : Array Json := #[]
    for o in ops do
      let r := s.step rd o
      s := r.1
      out := out.push (Json.mkObj (qstateToJson s ++ [("raised", Json.bool r.2), ("eff", ratToJson (s.eff rd))]))
    let final := QState.run rd s0 ops
    pure <| Json.mkObj [("steps", Json.arr out), ("final_eff", ratToJson (final.eff rd)),
      ("any_raise", Json.bool (QState.anyRaise rd s0 ops)),
      ("last_write", match lastWrite ops with | none => Json.null | some v => ratToJson v),
      ("init_eff", ratToJson (s0.eff rd))]
  | "outs" =>
    -- the values returned by the calls of a history on ONE object (QState.outs), per probe element;
    -- `factors` = the property's own reading (callFactors): float32 of the last value written before
    -- each call; `snap0` / `snap1` = what an object caching "constant factor 0 / 1" at build time
    -- would return (NOT the code; information only: at how many calls it would differ)
    let form ← getStr j "form"
    let fm : Form := match form with
      | "linear" => .linear
      | "ste" => .two true
      | _ => .two false
    let s0 ← qstateOfJson (← j.getObjVal? "init")
    let opsJ ← (← j.getObjVal? "ops").getArr?
    let ops ← opsJ.toList.mapM opOfJson
    let ss ← getRatList j "s"
    let qs ← getRatList j "q"
    let pairs := ss.zip qs
    let cols := pairs.map fun (s, q) => QState.outs rd fm s q s0 ops
    let ncall := (ops.filter (· == Op.call)).length
    let rows := (List.range ncall).map fun k =>
      Json.arr (cols.map fun c => ratToJson (c.getD k 0)).toArray
    let differs (test : Store → Bool) (pick : Rat × Rat → Rat) : Nat :=
      (List.range ncall).filter (fun k =>
        pairs.any fun (s, q) =>
          (Snap.outs rd fm s q test (pick (s, q)) ⟨s0, false⟩ ops).getD k 0
            != (QState.outs rd fm s q s0 ops).getD k 0) |>.length
    pure <| Json.mkObj [("ys", Json.arr rows.toArray),
      ("factors", Json.arr ((callFactors rd.r32 (s0.eff rd) ops).map ratToJson).toArray),
      ("snap0_differs", Json.num ((differs Store.isConstZero (·.1) : Nat) : Int)),
      ("snap1_differs", Json.num ((differs Store.isConstOne (·.2) : Nat) : Int))]
  | "compiled" =>
    -- one quantizer + one compiled function wrapping its call (CState.step): ops are the
    -- single-quantizer ops (eager) and {"op":"ccall"}; per step the quantizer state, what the
    -- traced graph holds, and the factor storage the compiled function computes with
    let s0 ← qstateOfJson (← j.getObjVal? "init")
    let opsJ ← (← j.getObjVal? "ops").getArr?
    let ops ← opsJ.toList.mapM fun o => do
      match ← getStr o "op" with
      | "ccall" => pure COp.ccall
      | _ => pure (COp.eager (← opOfJson o))
    let mut c : CState := ⟨s0, none⟩
    let mut out : Array Json := #[]
    for o in ops do
      c := c.step rd o
      let cs := c.cstore rd
      let capJ : List (String × Json) := match c.cap with
        | none => [("cap", Json.str "none")]
        | some (.const v) => [("cap", Json.str "const"), ("cap_v", ratToJson v)]
        | some .live => [("cap", Json.str "live")]
        | some (.stale v) => [("cap", Json.str "stale"), ("cap_v", ratToJson v)]
      out := out.push (Json.mkObj (qstateToJson c.q ++ capJ ++
        [("eff", ratToJson (c.q.eff rd)), ("ceff", ratToJson (c.ceff rd)),
         ("cstore", Json.str (if cs.isVar then "var" else "py")), ("cstore_v", ratToJson cs.raw)]))
    pure <| Json.mkObj [("steps", Json.arr out),
      ("last_write", match lastWrite (eagerOps ops) with | none => Json.null | some v => ratToJson v),
      ("init_eff", ratToJson (s0.eff rd))]
  | "multi" =>
    -- several quantizers + caller-owned variables, interleaved history (Sys.step); per step the
    -- state of every quantizer and variable; at the end, per quantizer, the last value written to
    -- it (lastWrite of its projected history) and the length of that history
    let qsJ ← (← j.getObjVal? "qs").getArr?
    let qs ← qsJ.toList.mapM qstateOfJson
    let ws ← getRatList j "ws"
    let opsJ ← (← j.getObjVal? "ops").getArr?
    let ops ← opsJ.toList.mapM mopOfJson
    let s0 : Sys := { q := fun i => qs.getD i default, w := fun k => ws.getD k 0 }
    let nq := qs.length
    let nw := ws.length
    let mut s := s0
    let mut out : Array Json := #[]
    for o in ops do
      s := s.step rd o
      out := out.push (sysToJson rd s nq nw)
    let fin := Sys.run rd s0 ops
    let lw := (List.range nq).map fun b =>
      match lastWrite (proj rd b s0 ops) with
      | none => Json.null
      | some v => ratToJson v
    pure <| Json.mkObj [("steps", Json.arr out), ("final", sysToJson rd fin nq nw),
      ("last_write", Json.arr lw.toArray),
      ("own_history_len", Json.arr ((List.range nq).map fun b =>
          Json.num ((proj rd b s0 ops).length : Int)).toArray)]
  | "relu_noise" =>
    -- the whole quantized_relu call from the INPUT: x_u, xq (relu_upper_bound pass included), and the
    -- mix under several factor storages
    let c ← reluCfgOfJson (← j.getObjVal? "cfg")
    let form ← getStr j "form"
    let stsJ ← (← j.getObjVal? "stores").getArr?
    let sts ← stsJ.toList.mapM storeOfJson
    let xs ← getRatList j "x"
    let ste := form == "ste"
    let t := Tie.even
    pure <| Json.mkObj [
      ("s", Json.arr (xs.map fun x => ratToJson (c.act x)).toArray),
      ("q", Json.arr (xs.map fun x => ratToJson (qreluU t c x)).toArray),
      ("ys", Json.arr (sts.map fun st =>
          Json.arr (xs.map fun x => ratToJson (reluNoiseF rd t c st ste x)).toArray).toArray),
      -- per storage: at how many inputs clipping the mixed result instead would give another value
      -- (exact reading; information only)
      ("clamp_after_differs", Json.arr (sts.map fun st =>
          Json.num (((xs.filter fun x =>
            reluNoiseClampAfter t c (st.asF rd) ste x != reluNoise t c (st.asF rd) ste x).length : Nat) : Int)).toArray)]
  | "getq" =>
    let layersJ ← (← j.getObjVal? "layers").getArr?
    let layers ← layersJ.toList.mapM layerOfJson
    let qs := getQuantizers layers
    let tagsJ (l : List QObj) := Json.arr (l.map fun q => Json.num (q.tag : Int)).toArray
    pure <| Json.mkObj [("tags", tagsJ qs),
      -- every knob-bearing object the model holds (pre-order, with repetitions)
      ("held_knob_tags", tagsJ ((preList layers).filter QObj.hasKnob)),
      -- what the walk returned before the fix round (regression information only)
      ("old_tags", tagsJ (getQuantizersOld layers))]
  | "sched" =>
    let c ← cfgOfJson (← j.getObjVal? "cfg")
    let layersJ ← (← j.getObjVal? "layers").getArr?
    let layers ← layersJ.toList.mapM layerOfJson
    let tblJ ← (← j.getObjVal? "table").getArr?
    let tbl ← tblJ.toList.mapM fun p => do
      match p with
      | .arr #[a, b] => do pure ((← ratOfJson a), (← ratOfJson b))
      | _ => throw "bad table row"
    let n : Num := { pw := tablePw tbl, rd := rd }
    let evJ ← (← j.getObjVal? "events").getArr?
    let evs ← evJ.toList.mapM eventOfJson
    let mut s := CB.init
    let mut out : Array Json := #[]
    for e in evs do
      let r := step c n layers s e
      s := r.1
      out := out.push (cbToJson s r.2)
    pure <| Json.mkObj [("steps", Json.arr out),
      ("trace", Json.arr (s.trace.map ratToJson).toArray)]
  | "calc" =>
    -- calculate_qnoise_factor on a list of freqs: float reading with the oracle table, and the exact
    -- rational value 1 - r^k when the exponent is the natural number k
    let c ← cfgOfJson (← j.getObjVal? "cfg")
    let tblJ ← (← j.getObjVal? "table").getArr?
    let tbl ← tblJ.toList.mapM fun p => do
      match p with
      | .arr #[a, b] => do pure ((← ratOfJson a), (← ratOfJson b))
      | _ => throw "bad table row"
    let freqs ← getIntList j "freqs"
    let n : Num := { pw := tablePw tbl, rd := rd }
    let fl := freqs.map fun f => calcF c n f
    let vals := freqs.map fun f =>
      rd.r64 (((c.finish - f : Int) : Rat) / ((c.finish - c.start : Int) : Rat))
    let ex ← match j.getObjVal? "nat_exponent" with
      | .ok (.num _) => do
        let k ← getNat j "nat_exponent"
        let ne : Num := { pw := fun r => r ^ k, rd := Rnd.exact }
        pure (Json.arr (freqs.map fun f => ratToJson (calcF c ne f)).toArray)
      | _ => pure Json.null
    pure <| Json.mkObj [("float", Json.arr (fl.map ratToJson).toArray),
      ("val", Json.arr (vals.map ratToJson).toArray), ("exact", ex)]
  | "rnd" =>
    let xs ← getRatList j "x"
    pure <| Json.mkObj [("r32", Json.arr (xs.map fun x => ratToJson (rnd32 x)).toArray),
                        ("r64", Json.arr (xs.map fun x => ratToJson (rnd64 x)).toArray)]
  | _ => throw s!"unknown op {op}"

def main : IO Unit := lineLoop handle
