/- line-protocol driver for C17 (accumulator / adder / merge types) -/
import QKV.Drv.QRecJson
open Lean QKV QKV.Drv

def recs (j : Json) (k : String) : Except String (List QRec) := do
  let a ← (← j.getObjVal? k).getArr?
  a.toList.mapM qrecOfJson

/-- why a sum is not a value of a fixed-point type -/
def whyNot (o : QRec) (s : Rat) : String :=
  if o.mode != 0 then "mode"
  else match codeOf s (fixedLsb o.bits o.intBits o.signed) with
    | none => "resolution"
    | some _ => "range"

def vmax (vs : List Rat) : Rat := vs.foldl (fun a b => if a < b then b else a) (vs.headD 0)
def vmin (vs : List Rat) : Rat := vs.foldl (fun a b => if b < a then b else a) (vs.headD 0)

def handle (j : Json) : Except String Json := do
  let op ← getStr j "op"
  match op with
  | "acc" =>
    let m ← qrecOfJson (← j.getObjVal? "m")
    let shape ← getNatList j "shape"
    let ub ← getBool j "use_bias"
    pure <| Json.mkObj [("out", qrecToJson (makeAccumulator shape m ub)),
                        ("log_add_ops", Json.num (logAddOps shape ub))]
  | "adder" =>
    let a ← qrecOfJson (← j.getObjVal? "a")
    let b ← qrecOfJson (← j.getObjVal? "b")
    match makeAdder a b with
    | some o => pure <| Json.mkObj [("out", qrecToJson o)]
    | none => pure <| Json.mkObj [("err", Json.str "bad-mode")]
  | "merge" =>
    let qs ← recs j "qs"
    let kind ← getStr j "kind"
    let r := match kind with
      | "Add" => some (mergeAdd qs)
      | "Multiply" => mergeMultiply qs
      | _ => mergeMax qs
    match r with
    | some o => pure <| Json.mkObj [("out", qrecToJson o)]
    | none => pure <| Json.mkObj [("err", Json.str "empty")]
  | "brute_acc" =>
    -- clause oracle: sums of n values of m (extremes, and every single value joined to
    -- (n-1) extremes) must be values of the implementation's accumulator type
    let m ← qrecOfJson (← j.getObjVal? "m")
    let o ← qrecOfJson (← j.getObjVal? "out")
    let n ← getNat j "n"
    let vs := enumVals m
    if vs.isEmpty || n == 0 then return Json.mkObj [("bad", Json.null), ("sums", Json.num 0)]
    let hi := vmax vs
    let lo := vmin vs
    let mut bad : Option (Rat × String × String) := none
    let mut cnt : Nat := 0
    let cands : List (Rat × String) :=
      [((n : Rat) * hi, "all-max"), ((n : Rat) * lo, "all-min")] ++
      vs.map (fun v => (v + ((n - 1 : Nat) : Rat) * hi, "one+rest-max")) ++
      vs.map (fun v => (v + ((n - 1 : Nat) : Rat) * lo, "one+rest-min")) ++
      (if n ≥ 2 then vs.flatMap (fun a => vs.map fun b => (a + b, "two-of-n")) else []) ++
      vs.map (fun v => (v, "one-of-n"))
    for (s, tag) in cands do
      cnt := cnt + 1
      if bad.isNone && !valB o s then bad := some (s, tag, whyNot o s)
    pure <| Json.mkObj [("sums", Json.num (cnt : Int)),
      ("bad", match bad with
        | none => Json.null
        | some (s, tag, why) => Json.mkObj [("sum", ratToJson s), ("tag", Json.str tag), ("why", Json.str why)])]
  | "brute_add" =>
    let qs ← recs j "qs"
    let o ← qrecOfJson (← j.getObjVal? "out")
    let kind ← getStr j "kind"       -- "sum" (adder / Add merge) or "each" (Maximum-like merges)
    let vss := qs.map enumVals
    let mut bad : Option (Rat × String × String) := none
    let mut cnt : Nat := 0
    if kind == "each" then
      for vs in vss do
        for v in vs do
          cnt := cnt + 1
          if bad.isNone && !valB o v then bad := some (v, "input-value", whyNot o v)
    else
      -- all sums of one value per input
      let sums := vss.foldl (fun acc vs => acc.flatMap fun a => vs.map fun b => a + b) [0]
      let tops := (vss.map vmax).foldl (· + ·) 0
      for s in sums do
        cnt := cnt + 1
        if bad.isNone && !valB o s then
          bad := some (s, if s == tops then "all-top" else "sum", whyNot o s)
    pure <| Json.mkObj [("sums", Json.num (cnt : Int)),
      ("bad", match bad with
        | none => Json.null
        | some (s, tag, why) => Json.mkObj [("sum", ratToJson s), ("tag", Json.str tag), ("why", Json.str why)])]
  | _ => throw s!"unknown op {op}"

def main : IO Unit := lineLoop handle
