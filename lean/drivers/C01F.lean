/- line-protocol driver for C01F (float32 transcriptions of the fixed-point quantizers) -/
import QKV.Drv.Json
import QKV.Model.F32
open Lean QKV QKV.Drv

def rats (l : List Rat) : Json := Json.arr (l.map ratToJson).toArray

def handle (j : Json) : Except String Json := do
  let op ← getStr j "op"
  match op with
  | "rnd32" =>
    let xs ← getRatList j "xs"
    pure <| Json.mkObj [("ys", rats (xs.map rnd32)),
      ("f32", Json.arr (xs.map fun x => Json.bool (isF32 x)).toArray)]
  | "qbits" =>
    let cfg ← j.getObjVal? "cfg"
    let b ← getInt cfg "bits"
    let i ← getInt cfg "integer"
    let sy ← getBool cfg "symmetric"
    let kn ← getBool cfg "keep_negative"
    let al ← getOptRat cfg "alpha"
    let c : BitsCfg := { bits := b, integer := i, symmetric := sy, keepNeg := kn, alpha := al }
    let xs ← getRatList j "xs"
    pure <| Json.mkObj [("ys", rats (xs.map (qbitsF .even c))), ("es", rats (xs.map (qbits .even c)))]
  | "qrelu" =>
    let cfg ← j.getObjVal? "cfg"
    let b ← getInt cfg "bits"
    let i ← getInt cfg "integer"
    let c : ReluCfg := { bits := b, integer := i, slopeLog := none }
    let xs ← getRatList j "xs"
    pure <| Json.mkObj [("ys", rats (xs.map (qreluF .even c))), ("es", rats (xs.map (qrelu .even c)))]
  | "qlinear" =>
    let cfg ← j.getObjVal? "cfg"
    let b ← getInt cfg "bits"
    let i ← getInt cfg "integer"
    let sy ← getBool cfg "symmetric"
    let kn ← getBool cfg "keep_negative"
    let al ← getOptRat cfg "alpha"
    let c : LinCfg := { bits := b, integer := i, symmetric := sy, keepNeg := kn, alpha := al }
    let xs ← getRatList j "xs"
    pure <| Json.mkObj [("ys", rats (xs.map (qlinearF .even c))), ("es", rats (xs.map (qlinear .even c)))]
  | _ => throw s!"unknown op {op}"

def main : IO Unit := lineLoop handle
