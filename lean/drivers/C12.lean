/- line-protocol driver for C12 (model_quantize JSON rewriting).
   in : {"op":"rewrite","layers":[...],"qc":{...},"act_bits":"4","prefer_adaptive":false,
         "folding":false,"to_fold":[...]}
   out: {"layers":[...]}  or  {"err":"KeyError:max_value"}                                  -/
import QKV.Drv.Json
import QKV.Model.Rewrite
open Lean QKV.Drv QKV.Rewrite

partial def pyOfJson (j : Json) : Except String PyVal :=
  match j with
  | .null => pure .none
  | .bool b => pure (.bool b)
  | .num n => pure (.num n.mantissa n.exponent)
  | .str s => pure (.str s)
  | .arr a => do pure (.list (← a.toList.mapM pyOfJson))
  | .obj kvs => do
    let l ← kvs.toList.mapM fun (k, v) => do pure (k, ← pyOfJson v)
    pure (.dict l)

partial def pyToJson (v : PyVal) : Json :=
  match v with
  | .none => .null
  | .bool b => .bool b
  | .num m e => .num ⟨m, e⟩
  | .str s => .str s
  | .list xs => .arr (xs.map pyToJson).toArray
  | .dict kvs => Json.mkObj (kvs.map fun (k, v) => (k, pyToJson v))

def errStr : Err → String
  | .keyError k => "KeyError:" ++ k
  | .attributeError => "AttributeError"
  | .typeError => "TypeError"
  | .assertionError => "AssertionError"
  | .valueError => "ValueError"
  | .unboundLocal => "UnboundLocalError"

def handle (j : Json) : Except String Json := do
  let op ← getStr j "op"
  match op with
  | "rewrite" =>
    let layers ← match ← pyOfJson (← j.getObjVal? "layers") with
      | .list xs => pure xs
      | _ => throw "layers must be a list"
    let qc ← match ← pyOfJson (← j.getObjVal? "qc") with
      | .dict d => pure d
      | _ => throw "qc must be an object"
    let toFold ← (← (← j.getObjVal? "to_fold").getArr?).toList.mapM fun v => v.getStr?
    let F : Flags := { actBits := ← getStr j "act_bits", preferAdaptive := ← getBool j "prefer_adaptive",
                       folding := ← getBool j "folding", toFold := toFold }
    match rewrite F qc layers with
    | .ok ls => pure <| Json.mkObj [("layers", .arr (ls.map pyToJson).toArray)]
    | .error e => pure <| Json.mkObj [("err", Json.str (errStr e))]
  | _ => throw s!"unknown op {op}"

def main : IO Unit := lineLoop handle
