/- line-protocol driver for C16 (multiplier output types) -/
import QKV.Drv.QRecJson
open Lean QKV QKV.Drv

/-- the stated exception, read for every signed kind (Props.C16.IsMostNeg) -/
def mostNeg (q : QRec) (v : Rat) : Bool :=
  q.signed &&
  match q.mode with
  | 0 => decide (v = (fixedLo q.bits true : Rat) * pow2 (fixedLsb q.bits q.intBits true))
  | 1 => decide (v = - pow2 (po2MaxExpRaw q))
  | 2 => decide (v = -1)
  | 3 => decide (v = -1)
  | _ => false

def qkerasOfJson (j : Json) : Except String QKerasQ := do
  pure { cls := ← getStr j "cls", bits := ← getInt j "bits", integer := ← getInt j "integer",
         keepNegative := ← getBool j "keep_negative", use01 := ← getBool j "use_01",
         negSlopeNonzero := ← getBool j "neg_slope_nonzero", maxValue := ← getOptRat j "max_value" }

def handle (j : Json) : Except String Json := do
  let op ← getStr j "op"
  match op with
  | "mul" =>
    let w ← qrecOfJson (← j.getObjVal? "w")
    let x ← qrecOfJson (← j.getObjVal? "x")
    match makeMultiplier w x with
    | some (impl, o) =>
      pure <| Json.mkObj [("impl", Json.str impl.implementedAs), ("out", qrecToJson o),
                          ("spec_impl", Json.str (specImpl w.mode x.mode).implementedAs)]
    | none => pure <| Json.mkObj [("err", Json.str "bad-mode")]
  | "convert" =>
    let cls ← getStr j "cls"
    let q : QKerasQ := { cls := cls, bits := ← getInt j "bits", integer := ← getInt j "integer",
                         keepNegative := ← getBool j "keep_negative", use01 := ← getBool j "use_01",
                         negSlopeNonzero := ← getBool j "neg_slope_nonzero",
                         maxValue := ← getOptRat j "max_value" }
    match ofQuantizer q with
    | some r => pure <| Json.mkObj [("out", qrecToJson r)]
    | none => pure <| Json.mkObj [("err", Json.str "unsupported")]
  | "getexp" =>
    let q ← qrecOfJson (← j.getObjVal? "q")
    let (a, b) := getExp q
    pure <| Json.mkObj [("min_exp", Json.num a), ("max_exp", Json.num b)]
  | "brute" =>
    -- clause oracle: every product of values of w and x must be a value of `out`
    -- (the implementation's reported output type), except most-negative × most-negative.
    let w ← qrecOfJson (← j.getObjVal? "w")
    let x ← qrecOfJson (← j.getObjVal? "x")
    let o ← qrecOfJson (← j.getObjVal? "out")
    let vw := enumVals w
    let vx := enumVals x
    let mut bad : Option (Rat × Rat) := none
    let mut n : Nat := 0
    let mut zeroSeen := false
    for a in vw do
      for b in vx do
        n := n + 1
        if a * b = 0 then zeroSeen := true
        if bad.isNone && !(mostNeg w a && mostNeg x b) && !valB o (a * b) then
          bad := some (a, b)
    pure <| Json.mkObj [("pairs", Json.num (n : Int)), ("zero_product", Json.bool zeroSeen),
      ("bad", match bad with | none => Json.null | some (a, b) => Json.arr #[ratToJson a, ratToJson b])]
  | "reconvert" =>
    -- a history of conversions on ONE impl object of the class paired with `cls`: the record after
    -- every step (`convertOnto` folded from the constructor state) and the fresh conversion of that step
    let cls ← getStr j "cls"
    let hs ← (← (← j.getObjVal? "history").getArr?).toList.mapM qkerasOfJson
    let mut cur : Option QRec := freshOf cls
    let mut states : Array Json := #[]
    let mut fresh : Array Json := #[]
    for q in hs do
      cur := match cur with
        | some r => if q.cls = cls then convertOnto r q else none
        | none => none
      states := states.push (match cur with | some r => qrecToJson r | none => Json.null)
      fresh := fresh.push (match ofQuantizer q with | some r => qrecToJson r | none => Json.null)
    pure <| Json.mkObj [("states", Json.arr states), ("fresh", Json.arr fresh)]
  | "member" =>
    -- which of the candidate values belong to the (non-float) operand type `q` (sampling device of the
    -- float-cell clause: the factors offered to a floating operand)
    let q ← qrecOfJson (← j.getObjVal? "q")
    let vs ← getRatList j "vals"
    pure <| Json.mkObj [("in", Json.arr (vs.map (fun v => Json.bool (valB q v))).toArray)]
  | "floatval" =>
    -- `ValFloat bits` (IEEE interchange format of that width) on a list of values; the harness compares
    -- the answers with numpy's casts, which ties the value-set model of Props.C16 to real IEEE types
    let bits ← getInt j "bits"
    let vs ← getRatList j "vals"
    pure <| Json.mkObj [("known_width", Json.bool (floatFmt bits).isSome),
                        ("in", Json.arr (vs.map (fun v => Json.bool (valFloatB bits v))).toArray)]
  | _ => throw s!"unknown op {op}"

def main : IO Unit := lineLoop handle
